(* AntecedentProofs.v — C06: a rule antecedent written according to the grammar (Spec/Grammar.v Part B) is loaded by
   Function.format_infix + infix_to_postfix + Antecedent.load into the tree it denotes, and Antecedent.activation_degree
   of that tree is the reference semantics `sem`.

   Side conditions on names (`names_ok`, a computable check):
   * a variable used in a proposition is not a key of the formula table (`max`, `pi`, `and`, …) nor a parenthesis/comma,
     is the only variable (inputs and outputs together) with that name, and has at least one term
     (Antecedent.load tests `if variable:` and Variable.__len__ is the number of terms);
   * hedges before the end of a proposition are not `any`;
   * a term name is not an OPERATOR key (a function key such as `max`, `pi` is fine), is not the name of a hedge, and is
     borne by exactly one term of the variable;
   * when the antecedent contains a connective, no (non-empty) variable is called `and` or `or`. *)
From Coq Require Import ZArith NArith Bool List String Ascii Lia.
From VF Require Import Num GenNorm GenHedge GenTerm GenOpTable Core ShuntingYard Antecedent Grammar ShuntingYardProofs.
Import ListNotations.
Set Implicit Arguments.
Local Open Scope string_scope.
Local Open Scope list_scope.

(* ---- the keywords and the two connectives, as generated from rule.py / factory.py *)
Lemma kw_is : KW_IS = "is". Proof. reflexivity. Qed.
Lemma kw_and : KW_AND = "and". Proof. reflexivity. Qed.
Lemma kw_or : KW_OR = "or". Proof. reflexivity. Qed.

Definition dummy_entry : entry := ("", false, "", 0%nat, 0%Z, 0%Z).
Definition and_entry : entry := match lookup op_table "and" with Some e => e | None => dummy_entry end.
Definition or_entry : entry := match lookup op_table "or" with Some e => e | None => dummy_entry end.
Lemma and_op : op_tok op_table "and" and_entry. Proof. split; vm_compute; reflexivity. Qed.
Lemma or_op : op_tok op_table "or" or_entry. Proof. split; vm_compute; reflexivity. Qed.
(* `and` binds tighter than `or`; both associate to the left: any edit of p(4)/p(5) or of the associativities in
   FunctionFactory._create_operators that changes this breaks these three lines *)
Lemma and_tighter_than_or : (en_prec or_entry < en_prec and_entry)%Z. Proof. vm_compute. reflexivity. Qed.
Lemma and_left_assoc : rassoc and_entry = false. Proof. vm_compute. reflexivity. Qed.
Lemma or_left_assoc : rassoc or_entry = false. Proof. vm_compute. reflexivity. Qed.
(* a bare function name (a term called `max`) is popped by either connective *)
Definition fn_prec_okb : bool :=
  forallb (fun e => negb (en_is_function e) || Z.leb (2 * en_prec and_entry + 1) (2 * en_prec e)) op_table.
Lemma fn_prec_ok f e : fn_tok op_table f e -> (2 * en_prec and_entry + 1 <= 2 * en_prec e)%Z.
Proof.
  intros [Hl Hf]. apply lookup_In in Hl as [Hin _].
  assert (H : fn_prec_okb = true) by (vm_compute; reflexivity).
  unfold fn_prec_okb in H. rewrite forallb_forall in H. specialize (H _ Hin). rewrite Hf in H. cbn [negb orb] in H.
  now apply Z.leb_le in H.
Qed.

(* ================= 1. the tokeniser on antecedent text ================= *)
Definition rule_keys : list string := infix_keys op_table KW_AND KW_OR.
Lemma rule_keys_ok : keys_okb rule_keys = true. Proof. vm_compute. reflexivity. Qed.
Lemma rule_key_lparen text : first_match rule_keys (String "("%char text) = Some "(". Proof. vm_compute. reflexivity. Qed.
Lemma rule_key_rparen text : first_match rule_keys (String ")"%char text) = Some ")". Proof. vm_compute. reflexivity. Qed.

Theorem tokens_spelled toks text : Spells toks text -> format_infix_tokens op_table KW_AND KW_OR text = toks.
Proof. apply scan_spelled; [exact rule_keys_ok|exact rule_key_lparen|exact rule_key_rparen]. Qed.

Lemma spelled_nonempty toks text : Spells toks text -> toks <> [] -> text <> "".
Proof.
  destruct 1 as [ws|ws rest text|ws rest text|ws w rest text Hws Hw]; intros Hne; try congruence.
  - destruct ws; discriminate.
  - destruct ws; discriminate.
  - destruct w; [discriminate|]. destruct ws; discriminate.
Qed.

(* ================= 2. generic list facts: first match, last match, uniqueness ================= *)
Section Lists.
  Context {A : Type} (p : A -> bool).
  Lemma find_last_some l i : find_last p l = Some i -> exists a, nth_error l i = Some a /\ p a = true.
  Proof.
    revert i; induction l as [|a l IH]; cbn; intros i; [discriminate|].
    destruct (find_last p l) as [j|] eqn:E.
    - intros [= <-]. cbn. apply IH. reflexivity.
    - destruct (p a) eqn:Pa; [|discriminate]. intros [= <-]. cbn. eauto.
  Qed.
  Lemma find_last_none l : find_last p l = None -> filter p l = [].
  Proof.
    induction l as [|a l IH]; cbn; [reflexivity|]. destruct (find_last p l); [discriminate|].
    destruct (p a); [discriminate|]. intros _. now apply IH.
  Qed.
  Lemma filter_nil_find l : filter p l = [] -> find p l = None.
  Proof. induction l as [|a l IH]; cbn; [reflexivity|]. destruct (p a); [discriminate|exact IH]. Qed.
  Lemma filter_nil_find_last l : filter p l = [] -> find_last p l = None.
  Proof. induction l as [|a l IH]; cbn; [reflexivity|]. destruct (p a); [discriminate|]. intros H. now rewrite IH. Qed.
  Lemma uniq_first_last l i : List.length (filter p l) = 1%nat -> find_last p l = Some i -> find p l = nth_error l i.
  Proof.
    revert i; induction l as [|a l IH]; cbn; intros i; [discriminate|].
    destruct (p a) eqn:Pa; cbn [List.length].
    - intros [= H]. apply length_zero_iff_nil in H. rewrite (filter_nil_find_last _ H). intros [= <-]. reflexivity.
    - intros H. destruct (find_last p l) as [j|]; [|discriminate]. intros [= <-]. cbn. now apply IH.
  Qed.
  Lemma uniq_has_last l : List.length (filter p l) = 1%nat -> exists i, find_last p l = Some i.
  Proof.
    intros H. destruct (find_last p l) as [i|] eqn:E; [eauto|]. apply find_last_none in E. rewrite E in H. discriminate.
  Qed.
End Lists.

(* ================= 3. names ================= *)
Definition is_hedge_name (s : string) : bool := match hedge_of_name s with Some _ => true | None => false end.
Definition operand_b (s : string) : bool := match lookup op_table s with None => negb (is_paren_tok s) | Some _ => false end.
Definition term_token_ok (s : string) : bool :=
  match lookup op_table s with None => negb (is_paren_tok s) | Some en => en_is_function en end.
Definition not_any (h : hedge) : bool := negb (hedgex_is_any (HG h)).

Lemma operand_b_ok s : operand_b s = true -> operand op_table s.
Proof. unfold operand_b, operand. destruct (lookup op_table s); [discriminate|]. intros H. now apply negb_true_iff in H. Qed.
Lemma hedge_name_operand h : operand op_table (hedge_name h).
Proof. destruct h; split; vm_compute; reflexivity. Qed.
Lemma hedge_of_name_name h : hedge_of_name (hedge_name h) = Some h.
Proof. destruct h; reflexivity. Qed.
Lemma is_operand : operand op_table "is". Proof. split; vm_compute; reflexivity. Qed.
Lemma any_operand : operand op_table "any". Proof. split; vm_compute; reflexivity. Qed.

Section Names.
  Context {T : Type} {NT : Num T}.
  Variable e : engine T.

  Definition var_unique (v : string) : bool :=
    Nat.eqb (List.length (filter (fun x => String.eqb (iv_name x) v) (e_inputs e))
             + List.length (filter (fun x => String.eqb (ov_name x) v) (e_outputs e))) 1.
  Definition term_unique (terms : list (term T)) (n : string) : bool :=
    Nat.eqb (List.length (filter (fun t => String.eqb (term_name t) n) terms)) 1.

  Definition prop_okb (v : string) (hs : list hedge) (tg : target) : bool :=
    operand_b v && var_unique v && forallb not_any hs &&
    match usable_variable e v with
    | None => false
    | Some ref =>
        match tg with
        | TAny => true
        | TTerm n => term_token_ok n && negb (is_hedge_name n) &&
                     match var_terms e ref with Some terms => term_unique terms n | None => false end
        end
    end.
  Definition connectives_free : bool :=
    match usable_variable e "and", usable_variable e "or" with None, None => true | _, _ => false end.

  Fixpoint names_okb (t : atree) : bool :=
    match t with
    | AProp v hs tg => prop_okb v hs tg
    | AAnd l r | AOr l r => names_okb l && names_okb r && connectives_free
    end.
  Definition names_ok (t : atree) : Prop := names_okb t = true.

  (* the tree Antecedent.load is expected to build: names replaced by positions *)
  Fixpoint resolve (t : atree) : option expr :=
    match t with
    | AProp v hs tg =>
        match usable_variable e v with
        | None => None
        | Some ref =>
            match tg with
            | TAny => Some (EProp ref (map HG hs ++ [HG H_Any]) None)
            | TTerm n => match var_terms e ref with
                         | Some terms => match find_last (fun tm => String.eqb (term_name tm) n) terms with
                                         | Some k => Some (EProp ref (map HG hs) (Some k))
                                         | None => None end
                         | None => None end
            end
        end
    | AAnd l r => match resolve l, resolve r with Some a, Some b => Some (EOp true a b) | _, _ => None end
    | AOr l r => match resolve l, resolve r with Some a, Some b => Some (EOp false a b) | _, _ => None end
    end.

  Lemma prop_ok_inv v hs tg : prop_okb v hs tg = true ->
    exists ref terms, operand_b v = true /\ var_unique v = true /\ forallb not_any hs = true /\
      usable_variable e v = Some ref /\ var_terms e ref = Some terms /\ terms <> [] /\
      match tg with
      | TAny => True
      | TTerm n => term_token_ok n = true /\ hedge_of_name n = None /\ term_unique terms n = true
      end.
  Proof.
    unfold prop_okb. rewrite !andb_true_iff. intros [[[H1 H2] H3] H4].
    destruct (usable_variable e v) as [ref|] eqn:U; [|discriminate].
    assert (exists terms, var_terms e ref = Some terms /\ terms <> []) as (terms & Ht & Hne).
    { unfold usable_variable in U. destruct (lookup_variable e v) as [r|]; [|discriminate].
      destruct (var_terms e r) as [[|a l]|] eqn:V; try discriminate. injection U as <-. exists (a :: l). split; [exact V|discriminate]. }
    exists ref, terms. repeat split; auto.
    destruct tg as [n|]; [|exact I]. rewrite Ht in H4. rewrite !andb_true_iff in H4. destruct H4 as [[A B] C].
    repeat split; auto. unfold is_hedge_name in B. destruct (hedge_of_name n); [discriminate|reflexivity].
  Qed.

  Lemma names_ok_resolves t : names_ok t -> exists x, resolve t = Some x.
  Proof.
    unfold names_ok. induction t as [v hs tg|l IHl r IHr|l IHl r IHr]; cbn [names_okb resolve].
    - intros H. destruct (prop_ok_inv _ _ _ H) as (ref & terms & _ & _ & _ & U & V & _ & Htg). rewrite U.
      destruct tg as [n|]; [|eauto]. rewrite V. destruct Htg as (_ & _ & Hu). unfold term_unique in Hu.
      apply Nat.eqb_eq in Hu. destruct (uniq_has_last _ _ Hu) as [k ->]. eauto.
    - rewrite !andb_true_iff. intros [[Hl Hr] _]. destruct (IHl Hl) as [a ->]. destruct (IHr Hr) as [b ->]. eauto.
    - rewrite !andb_true_iff. intros [[Hl Hr] _]. destruct (IHl Hl) as [a ->]. destruct (IHr Hr) as [b ->]. eauto.
  Qed.

  (* ================= 4. Prints (antecedent grammar) is an instance of SPrints (general grammar) ================= *)
  Definition to_stree_prop (v : string) (hs : list hedge) (tg : target) : stree :=
    match lookup op_table (target_token tg) with
    | Some _ => SLeaf (v :: "is" :: map hedge_name hs) (Some (target_token tg))
    | None => SLeaf (prop_tokens v hs tg) None
    end.
  Fixpoint to_stree (t : atree) : stree :=
    match t with
    | AProp v hs tg => to_stree_prop v hs tg
    | AAnd l r => SBin "and" (to_stree l) (to_stree r)
    | AOr l r => SBin "or" (to_stree l) (to_stree r)
    end.

  Lemma spostfix_to_stree t : spostfix (to_stree t) = apostfix t.
  Proof.
    induction t as [v hs tg|l IHl r IHr|l IHl r IHr]; cbn [to_stree spostfix apostfix].
    - unfold to_stree_prop, prop_tokens. destruct (lookup op_table (target_token tg)); cbn [spostfix]; [reflexivity|now rewrite app_nil_r].
    - now rewrite IHl, IHr.
    - now rewrite IHl, IHr.
  Qed.

  Definition zl (lvl : nat) : Z :=
    match lvl with
    | O => 2 * en_prec or_entry
    | 1%nat => 2 * en_prec and_entry
    | _ => 2 * en_prec and_entry + 1
    end%Z.
  Lemma zl_le lvl : (zl lvl <= 2 * en_prec and_entry + 1)%Z.
  Proof. pose proof and_tighter_than_or. destruct lvl as [|[|n]]; cbn [zl]; lia. Qed.

  Lemma prop_words_operand v hs : operand_b v = true -> Forall (operand op_table) (v :: "is" :: map hedge_name hs).
  Proof.
    intros Hv. constructor; [now apply operand_b_ok|]. constructor; [exact is_operand|].
    induction hs as [|h hs IH]; cbn; constructor; [apply hedge_name_operand|exact IH].
  Qed.

  Lemma prints_sprints lvl t toks : names_ok t -> Prints lvl t toks -> SPrints op_table (zl lvl) (to_stree t) toks.
  Proof.
    unfold names_ok. intros Hn H. revert Hn. induction H as [lvl v hs tg|lvl l r tl tr Hlvl Hl IHl Hr IHr|lvl l r tl tr Hlvl Hl IHl Hr IHr|lvl t ts Ht IH];
      cbn [names_okb to_stree]; intros Hn.
    - destruct (prop_ok_inv _ _ _ Hn) as (ref & terms & Hv & _ & _ & _ & _ & _ & Htg).
      unfold to_stree_prop. destruct (lookup op_table (target_token tg)) as [en|] eqn:L.
      + (* the last token is a key of the formula table: it must be a function name *)
        destruct tg as [n|]; [|vm_compute in L; discriminate]. destruct Htg as (Htok & _ & _).
        cbn [target_token] in *. unfold term_token_ok in Htok. rewrite L in Htok.
        change (prop_tokens v hs (TTerm n)) with ((v :: "is" :: map hedge_name hs) ++ [n]).
        eapply SP_leaff; [now apply prop_words_operand|split; eassumption|].
        pose proof (fn_prec_ok (conj L Htok)). pose proof (zl_le lvl). lia.
      + apply SP_leaf. change (prop_tokens v hs tg) with ((v :: "is" :: map hedge_name hs) ++ [target_token tg]).
        apply Forall_app; split; [now apply prop_words_operand|]. constructor; [|constructor].
        destruct tg as [n|]; [|exact any_operand]. destruct Htg as (Htok & _ & _). cbn [target_token] in *.
        unfold term_token_ok in Htok. rewrite L in Htok. split; [exact L|now apply negb_true_iff in Htok].
    - (* or *) subst lvl. rewrite !andb_true_iff in Hn. destruct Hn as [[Hnl Hnr] _].
      pose proof and_tighter_than_or as Hlt.
      eapply SP_bin; [exact or_op|cbn [zl]; lia| |].
      + unfold llevel. rewrite or_left_assoc. exact (IHl Hnl).
      + unfold rlevel. rewrite or_left_assoc. eapply SPrints_weaken; [|exact (IHr Hnr)]. cbn [zl]. lia.
    - (* and *) rewrite !andb_true_iff in Hn. destruct Hn as [[Hnl Hnr] _].
      pose proof and_tighter_than_or as Hlt.
      eapply SP_bin; [exact and_op|destruct lvl as [|[|n]]; cbn [zl]; lia| |].
      + unfold llevel. rewrite and_left_assoc. exact (IHl Hnl).
      + unfold rlevel. rewrite and_left_assoc. exact (IHr Hnr).
    - apply SP_paren. eapply SPrints_weaken; [|exact (IH Hn)]. cbn [zl]. pose proof (proj1 (Z.leb_le 0 (2 * en_prec or_entry)) eq_refl). lia.
  Qed.

  (* shunting-yard on an antecedent written according to the grammar *)
  Theorem antecedent_postfix t toks : Prints 0 t toks -> names_ok t -> infix_to_postfix op_table toks = Ok (apostfix t).
  Proof.
    intros HP Hn. rewrite <- spostfix_to_stree. apply sy_complete_op_table.
    eapply SPrints_weaken; [|exact (prints_sprints Hn HP)]. cbn [zl]. exact (proj1 (Z.leb_le 0 (2 * en_prec or_entry)) eq_refl).
  Qed.

  (* ================= 5. the state machine of Antecedent.load on the postfix form ================= *)
  Definition st_prop : N := N.lor s_hedge s_term.       (* 12 *)
  Definition st_next : N := N.lor s_variable s_and_or.  (* 17 *)

  Lemma load_step_var v ref st stack : st = s_variable \/ st = st_next -> usable_variable e v = Some ref ->
    load_step e v (st, stack) = Ok (s_is, EProp ref [] None :: stack).
  Proof. intros [-> | ->] U; unfold load_step; cbn [has]; change (has st_next s_variable) with true; change (has s_variable s_variable) with true; cbn iota; now rewrite U. Qed.

  Lemma load_step_is stack : load_step e "is" (s_is, stack) = Ok (st_prop, stack).
  Proof. reflexivity. Qed.

  Lemma load_step_hedge h v hs t rest : not_any h = true ->
    load_step e (hedge_name h) (st_prop, EProp v hs t :: rest) = Ok (st_prop, EProp v (hs ++ [HG h]) t :: rest).
  Proof. destruct h; intros H; try discriminate; reflexivity. Qed.

  Lemma load_step_any v hs t rest :
    load_step e "any" (st_prop, EProp v hs t :: rest) = Ok (st_next, EProp v (hs ++ [HG H_Any]) t :: rest).
  Proof. reflexivity. Qed.

  Lemma load_step_term n v hs t rest terms k : hedge_of_name n = None -> var_terms e v = Some terms ->
    find_last (fun tm => String.eqb (term_name tm) n) terms = Some k ->
    load_step e n (st_prop, EProp v hs t :: rest) = Ok (st_next, EProp v hs (Some k) :: rest).
  Proof.
    intros Hh Hv Hk. unfold load_step. change (has st_prop s_variable) with false. change (has st_prop s_is) with false.
    change (has st_prop s_hedge) with true. change (has st_prop s_term) with true. cbn iota. cbn [andb]. rewrite Hh, Hv, Hk. reflexivity.
  Qed.

  Lemma load_step_and xl xr rest : usable_variable e "and" = None ->
    load_step e "and" (st_next, xr :: xl :: rest) = Ok (st_next, EOp true xl xr :: rest).
  Proof. intros U. unfold load_step. change (has st_next s_variable) with true. cbn iota. rewrite U. reflexivity. Qed.
  Lemma load_step_or xl xr rest : usable_variable e "or" = None ->
    load_step e "or" (st_next, xr :: xl :: rest) = Ok (st_next, EOp false xl xr :: rest).
  Proof. intros U. unfold load_step. change (has st_next s_variable) with true. cbn iota. rewrite U. reflexivity. Qed.

  Lemma load_run_hedges hs v acc t stack rest : forallb not_any hs = true ->
    load_run e (map hedge_name hs ++ rest) (st_prop, EProp v acc t :: stack)
    = load_run e rest (st_prop, EProp v (acc ++ map HG hs) t :: stack).
  Proof.
    revert acc. induction hs as [|h hs IH]; intros acc; cbn [map app forallb].
    - intros _. now rewrite app_nil_r.
    - intros H. apply andb_true_iff in H as [Hh Hhs]. cbn [load_run]. rewrite load_step_hedge by assumption.
      rewrite IH by assumption. now rewrite <- app_assoc.
  Qed.

  Lemma load_run_tree t : names_ok t -> forall x, resolve t = Some x -> forall rest st stack,
    st = s_variable \/ st = st_next ->
    load_run e (apostfix t ++ rest) (st, stack) = load_run e rest (st_next, x :: stack).
  Proof.
    unfold names_ok. induction t as [v hs tg|l IHl r IHr|l IHl r IHr]; cbn [names_okb resolve apostfix]; intros Hn x Hx rest st stack Hst.
    - destruct (prop_ok_inv _ _ _ Hn) as (ref & terms & _ & _ & Hhs & U & V & _ & Htg). rewrite U in Hx.
      unfold prop_tokens. cbn [app load_run]. rewrite (load_step_var _ stack Hst U). rewrite load_step_is.
      rewrite <- app_assoc. rewrite load_run_hedges by assumption. cbn [app load_run].
      destruct tg as [n|]; cbn [target_token].
      + rewrite V in Hx. destruct Htg as (_ & Hh & _).
        destruct (find_last (fun tm => String.eqb (term_name tm) n) terms) as [k|] eqn:K; [|discriminate].
        injection Hx as <-. now rewrite (@load_step_term n _ _ _ _ terms k Hh V K).
      + injection Hx as <-. now rewrite load_step_any.
    - rewrite !andb_true_iff in Hn. destruct Hn as [[Hnl Hnr] Hc].
      destruct (resolve l) as [a|]; [|discriminate]. destruct (resolve r) as [b|]; [|discriminate]. injection Hx as <-.
      rewrite <- !app_assoc. rewrite (IHl Hnl a eq_refl _ _ _ Hst). rewrite (IHr Hnr b eq_refl _ _ _ (or_intror eq_refl)).
      cbn [app load_run]. unfold connectives_free in Hc. destruct (usable_variable e "and") eqn:UA; [discriminate|].
      now rewrite load_step_and.
    - rewrite !andb_true_iff in Hn. destruct Hn as [[Hnl Hnr] Hc].
      destruct (resolve l) as [a|]; [|discriminate]. destruct (resolve r) as [b|]; [|discriminate]. injection Hx as <-.
      rewrite <- !app_assoc. rewrite (IHl Hnl a eq_refl _ _ _ Hst). rewrite (IHr Hnr b eq_refl _ _ _ (or_intror eq_refl)).
      cbn [app load_run]. unfold connectives_free in Hc. destruct (usable_variable e "and"); [discriminate|].
      destruct (usable_variable e "or") eqn:UO; [discriminate|]. now rewrite load_step_or.
  Qed.

  Theorem load_postfix t x : names_ok t -> resolve t = Some x -> load e (apostfix t) = Ok x.
  Proof.
    intros Hn Hx. unfold load. rewrite <- (app_nil_r (apostfix t)).
    rewrite (load_run_tree Hn Hx [] [] (or_introl eq_refl)). reflexivity.
  Qed.

  (* Function.infix_to_postfix + Antecedent.load on a token list *)
  Definition parse_tokens (toks : list string) : result expr :=
    match infix_to_postfix op_table toks with Ok p => load e p | Err x => Err x end.

  Theorem antecedent_load_complete t toks x :
    Prints 0 t toks -> names_ok t -> resolve t = Some x -> parse_tokens toks = Ok x.
  Proof. intros HP Hn Hx. unfold parse_tokens. rewrite (antecedent_postfix HP Hn). now apply load_postfix. Qed.

  Theorem antecedent_load_text t toks text x :
    Spells toks text -> Prints 0 t toks -> names_ok t -> resolve t = Some x -> load_text e text = Ok x.
  Proof.
    intros HS HP Hn Hx. unfold load_text, infix_to_postfix_text.
    assert (Hne : toks <> []).
    { clear -HP. inversion HP; subst; try discriminate; destruct tl; discriminate. }
    destruct (String.eqb_spec text "") as [E|_]; [exfalso; exact (spelled_nonempty HS Hne E)|].
    rewrite (tokens_spelled HS). exact (antecedent_load_complete HP Hn Hx).
  Qed.

  (* ================= 6. evaluation: Antecedent.activation_degree = sem ================= *)
  Variable membership : term T -> T -> result T.

  (* grouped_terms()[name] is the in-order aggregation of the activations of that name *)
  Definition lookup_g (n : string) (g : list (string * T)) : option T :=
    option_map snd (find (fun p => String.eqb (fst p) n) g).

  Lemma lookup_insert a n name d g :
    lookup_g n (group_insert a name d g)
    = if String.eqb name n then Some (match lookup_g n g with Some v => sanitize (snormx_compute a v d) | None => sanitize d end)
      else lookup_g n g.
  Proof.
    unfold lookup_g. induction g as [|[m v] g IH]; cbn [group_insert find fst snd option_map].
    - destruct (String.eqb name n); reflexivity.
    - destruct (String.eqb_spec m name) as [->|NE]; cbn [find fst snd option_map].
      + destruct (String.eqb name n); reflexivity.
      + destruct (String.eqb_spec m n) as [->|NE2]; cbn [option_map snd].
        * destruct (String.eqb_spec name n) as [->|_]; [congruence|reflexivity].
        * exact IH.
  Qed.

  Definition opt_step (a : snormx) (acc : option T) (act : activated T) : option T :=
    Some (match acc with Some v => sanitize (snormx_compute a v (a_degree act)) | None => sanitize (a_degree act) end).

  Lemma lookup_grouped a n fuzzy g :
    lookup_g n (fold_left (fun groups act => group_insert a (term_name (a_term act)) (a_degree act) groups) fuzzy g)
    = fold_left (opt_step a) (filter (fun act => String.eqb (term_name (a_term act)) n) fuzzy) (lookup_g n g).
  Proof.
    revert g. induction fuzzy as [|act fuzzy IH]; intros g; cbn [fold_left filter]; [reflexivity|].
    rewrite IH, lookup_insert. destruct (String.eqb (term_name (a_term act)) n); reflexivity.
  Qed.

  Lemma fold_opt_some a l x :
    fold_left (opt_step a) l (Some x) = Some (fold_left (fun acc act => sanitize (snormx_compute a acc (a_degree act))) l x).
  Proof. revert x. induction l as [|b l IH]; intros x; cbn; [reflexivity|]. apply IH. Qed.

  Theorem fuzzy_activation_degree_spec agg fuzzy n : fuzzy_activation_degree agg fuzzy n = agg_activation agg fuzzy n.
  Proof.
    unfold fuzzy_activation_degree, agg_activation, grouped_terms.
    set (a := match agg with Some a => a | None => SN S_UnboundedSum end).
    pose proof (lookup_grouped a n fuzzy []) as H. unfold lookup_g at 1 in H.
    destruct (find (fun p => String.eqb (fst p) n) _) as [p|]; cbn [option_map] in H.
    - destruct (filter _ fuzzy) as [|first rest]; cbn [fold_left] in H; [discriminate|].
      unfold opt_step at 2 in H. cbn [lookup_g find option_map] in H. rewrite fold_opt_some in H. now injection H.
    - destruct (filter _ fuzzy) as [|first rest]; cbn [fold_left] in H; [reflexivity|].
      unfold opt_step at 2 in H. cbn [lookup_g find option_map] in H. rewrite fold_opt_some in H. discriminate.
  Qed.

  Lemma hedged_apply hs (x : T) : apply_hedges (map HG hs) x = hedged hs x.
  Proof. unfold apply_hedges, hedged. induction hs as [|h hs IH]; cbn; [reflexivity|now rewrite IH]. Qed.

  Lemma last_is_any_false hs : forallb not_any hs = true -> last_is_any (map HG hs) = false.
  Proof.
    unfold last_is_any. rewrite <- map_rev. intros H.
    assert (H' : forallb not_any (rev hs) = true).
    { rewrite forallb_forall in *. intros h Hh. apply H. now apply in_rev. }
    destruct (rev hs) as [|h l]; [reflexivity|]. cbn in *. apply andb_true_iff in H' as [Hh _]. unfold not_any in Hh.
    now apply negb_true_iff in Hh.
  Qed.

  (* uniqueness: the variable found by the dict of Antecedent.load is the one Engine.variable(name) finds *)
  Lemma unique_var_in v i : var_unique v = true -> lookup_variable e v = Some (VIn i) ->
    spec_input e v = nth_error (e_inputs e) i /\ (exists iv, nth_error (e_inputs e) i = Some iv).
  Proof.
    unfold var_unique, lookup_variable, spec_input. intros Hu. apply Nat.eqb_eq in Hu.
    destruct (find_last (fun x => String.eqb (ov_name x) v) (e_outputs e)) as [j|] eqn:Eo; [discriminate|].
    apply find_last_none in Eo. rewrite Eo in Hu. cbn [List.length] in Hu. rewrite Nat.add_0_r in Hu.
    destruct (find_last (fun x => String.eqb (iv_name x) v) (e_inputs e)) as [i'|] eqn:Ei; [|discriminate]. intros [= ->].
    split; [now apply uniq_first_last|]. destruct (find_last_some _ _ Ei) as (a & Ha & _). eauto.
  Qed.
  Lemma unique_var_out v j : var_unique v = true -> lookup_variable e v = Some (VOut j) ->
    spec_input e v = None /\ spec_output e v = nth_error (e_outputs e) j /\ (exists ov, nth_error (e_outputs e) j = Some ov).
  Proof.
    unfold var_unique, lookup_variable, spec_input, spec_output. intros Hu. apply Nat.eqb_eq in Hu.
    destruct (find_last (fun x => String.eqb (ov_name x) v) (e_outputs e)) as [j'|] eqn:Eo.
    - intros [= ->]. destruct (find_last_some _ _ Eo) as (a & Ha & Pa).
      assert (Hlen : (1 <= List.length (filter (fun x => String.eqb (ov_name x) v) (e_outputs e)))%nat).
      { destruct (filter (fun x => String.eqb (ov_name x) v) (e_outputs e)) eqn:F; [|cbn; lia].
        apply filter_nil_find_last in F. congruence. }
      assert (Hin : filter (fun x => String.eqb (iv_name x) v) (e_inputs e) = []) by (apply length_zero_iff_nil; lia).
      split; [now apply filter_nil_find|]. split; [apply uniq_first_last; [lia|exact Eo]|eauto].
    - destruct (find_last (fun x => String.eqb (iv_name x) v) (e_inputs e)); discriminate.
  Qed.

  Lemma unique_term terms n k : term_unique terms n = true ->
    find_last (fun tm => String.eqb (term_name tm) n) terms = Some k ->
    spec_term terms n = nth_error terms k /\ exists tm, nth_error terms k = Some tm /\ term_name tm = n.
  Proof.
    unfold term_unique, spec_term. intros Hu Hk. apply Nat.eqb_eq in Hu. split; [now apply uniq_first_last|].
    destruct (find_last_some _ _ Hk) as (tm & Ht & Pt). exists tm. split; [exact Ht|now apply String.eqb_eq].
  Qed.

  Theorem activation_degree_sem conj disj t x : names_ok t -> resolve t = Some x ->
    activation_degree membership (Some conj) (Some disj) e x = sem membership conj disj e t.
  Proof.
    unfold names_ok. revert x. induction t as [v hs tg|l IHl r IHr|l IHl r IHr]; intros x; cbn [names_okb resolve sem]; intros Hn Hx.
    - destruct (prop_ok_inv _ _ _ Hn) as (ref & terms & _ & Hu & Hhs & U & V & Hne & Htg). rewrite U in Hx.
      assert (L : lookup_variable e v = Some ref).
      { unfold usable_variable in U. destruct (lookup_variable e v) as [r0|]; [|discriminate].
        destruct (var_terms e r0) as [[|]|]; try discriminate. now injection U as ->. }
      destruct ref as [i|j].
      + (* input variable *)
        destruct (unique_var_in _ Hu L) as (Hs & iv & Hiv).
        assert (Hen : spec_enabled e v = iv_enabled iv) by (unfold spec_enabled; now rewrite Hs, Hiv).
        assert (Hterms : terms = iv_terms iv) by (cbn [var_terms] in V; rewrite Hiv in V; cbn in V; congruence).
        destruct tg as [n|].
        * rewrite V in Hx. destruct Htg as (_ & _ & Hut).
          destruct (find_last (fun tm => String.eqb (term_name tm) n) terms) as [k|] eqn:K; [|discriminate].
          injection Hx as <-. destruct (unique_term _ _ Hut K) as (Hst & tm & Htm & Hname).
          cbn [activation_degree]. rewrite V. cbn [var_enabled]. rewrite Hiv. cbn [option_map]. rewrite Hen.
          destruct terms as [|t0 terms']; [congruence|]. destruct (iv_enabled iv); cbn [negb]; [|reflexivity].
          rewrite (last_is_any_false _ Hhs), Htm.
          unfold prop_base. rewrite Hs, Hiv, <- Hterms, Hst, Htm.
          destruct (membership tm (iv_value iv)); cbn [bind]; [now rewrite hedged_apply|reflexivity].
        * injection Hx as <-. cbn [activation_degree]. rewrite V. cbn [var_enabled]. rewrite Hiv. cbn [option_map]. rewrite Hen.
          destruct terms as [|t0 terms']; [congruence|]. destruct (iv_enabled iv); cbn [negb]; [|reflexivity].
          unfold last_is_any. rewrite rev_unit. cbn [hedgex_is_any]. unfold apply_hedges. rewrite fold_right_app.
          cbn [fold_right hedgex_apply hedge_apply]. change (Any_hedge (nan : T)) with (one : T). f_equal. apply hedged_apply.
      + (* output variable *)
        destruct (unique_var_out _ Hu L) as (Hsi & Hso & ov & Hov).
        assert (Hen : spec_enabled e v = ov_enabled ov) by (unfold spec_enabled; now rewrite Hsi, Hso, Hov).
        assert (Hterms : terms = ov_terms ov) by (cbn [var_terms] in V; rewrite Hov in V; cbn in V; congruence).
        destruct tg as [n|].
        * rewrite V in Hx. destruct Htg as (_ & _ & Hut).
          destruct (find_last (fun tm => String.eqb (term_name tm) n) terms) as [k|] eqn:K; [|discriminate].
          injection Hx as <-. destruct (unique_term _ _ Hut K) as (Hst & tm & Htm & Hname).
          cbn [activation_degree]. rewrite V. cbn [var_enabled]. rewrite Hov. cbn [option_map]. rewrite Hen.
          destruct terms as [|t0 terms']; [congruence|]. destruct (ov_enabled ov); cbn [negb]; [|reflexivity].
          rewrite (last_is_any_false _ Hhs), Htm.
          unfold prop_base. rewrite Hsi, Hso, Hov, <- Hterms, Hst, Htm. cbn [bind].
          now rewrite hedged_apply, Hname, fuzzy_activation_degree_spec.
        * injection Hx as <-. cbn [activation_degree]. rewrite V. cbn [var_enabled]. rewrite Hov. cbn [option_map]. rewrite Hen.
          destruct terms as [|t0 terms']; [congruence|]. destruct (ov_enabled ov); cbn [negb]; [|reflexivity].
          unfold last_is_any. rewrite rev_unit. cbn [hedgex_is_any]. unfold apply_hedges. rewrite fold_right_app.
          cbn [fold_right hedgex_apply hedge_apply]. change (Any_hedge (nan : T)) with (one : T). f_equal. apply hedged_apply.
    - rewrite !andb_true_iff in Hn. destruct Hn as [[Hnl Hnr] _].
      destruct (resolve l) as [a|]; [|discriminate]. destruct (resolve r) as [b|]; [|discriminate]. injection Hx as <-.
      cbn [activation_degree]. now rewrite (IHl a Hnl eq_refl), (IHr b Hnr eq_refl).
    - rewrite !andb_true_iff in Hn. destruct Hn as [[Hnl Hnr] _].
      destruct (resolve l) as [a|]; [|discriminate]. destruct (resolve r) as [b|]; [|discriminate]. injection Hx as <-.
      cbn [activation_degree]. now rewrite (IHl a Hnl eq_refl), (IHr b Hnr eq_refl).
  Qed.

  (* ================= 7. the property ================= *)
  Definition loaded_rule (w : T) (x : expr) (cs : list conclusion) : rule T :=
    {| r_enabled := true; r_weight := w; r_antecedent := Some x; r_consequent := cs; r_degree := zero; r_triggered := false |}.

  (* Rule.activate_with of a rule whose antecedent text is a spelling of the tree t = weight * sem t *)
  Theorem rule_degree conj disj t toks text w c cs :
    Spells toks text -> Prints 0 t toks -> names_ok t ->
    exists x, load_text e text = Ok x /\
      rule_activate_with membership (Some conj) (Some disj) e (loaded_rule w x (c :: cs))
      = do s <- sem membership conj disj e t; Ok (mul w s).
  Proof.
    intros HS HP Hn. destruct (names_ok_resolves Hn) as [x Hx]. exists x. split; [exact (antecedent_load_text HS HP Hn Hx)|].
    unfold rule_activate_with, loaded_rule, rule_loaded. cbn. now rewrite (activation_degree_sem conj disj Hn Hx).
  Qed.

  (* the same at the level of tokens *)
  Theorem tokens_degree conj disj t toks : Prints 0 t toks -> names_ok t ->
    exists x, parse_tokens toks = Ok x /\
      activation_degree membership (Some conj) (Some disj) e x = sem membership conj disj e t.
  Proof.
    intros HP Hn. destruct (names_ok_resolves Hn) as [x Hx]. exists x.
    split; [exact (antecedent_load_complete HP Hn Hx)|exact (activation_degree_sem conj disj Hn Hx)].
  Qed.

  (* ---- corollaries on shapes of text *)
  Lemma names_ok_and a b : names_ok (AAnd a b) <-> names_ok a /\ names_ok b /\ connectives_free = true.
  Proof. unfold names_ok. cbn [names_okb]. rewrite !andb_true_iff. tauto. Qed.
  Lemma names_ok_or a b : names_ok (AOr a b) <-> names_ok a /\ names_ok b /\ connectives_free = true.
  Proof. unfold names_ok. cbn [names_okb]. rewrite !andb_true_iff. tauto. Qed.

  (* a or b and c  =  a or (b and c) *)
  Theorem and_binds_tighter conj disj a b c ta tb tc :
    Prints 0 a ta -> Prints 1 b tb -> Prints 2 c tc -> names_ok (AOr a (AAnd b c)) ->
    exists x, parse_tokens (ta ++ "or" :: tb ++ "and" :: tc) = Ok x /\
      activation_degree membership (Some conj) (Some disj) e x
      = (do va <- sem membership conj disj e a;
         do vbc <- (do vb <- sem membership conj disj e b; do vc <- sem membership conj disj e c; Ok (tnormx_compute conj vb vc));
         Ok (snormx_compute disj va vbc)).
  Proof.
    intros Ha Hb Hc Hn. apply (tokens_degree conj disj (t := AOr a (AAnd b c))); [|exact Hn].
    apply P_or; [reflexivity|exact Ha|]. apply P_and; [lia|exact Hb|exact Hc].
  Qed.

  (* a and b and c  =  (a and b) and c *)
  Theorem left_assoc_and conj disj a b c ta tb tc :
    Prints 1 a ta -> Prints 2 b tb -> Prints 2 c tc -> names_ok (AAnd (AAnd a b) c) ->
    exists x, parse_tokens (ta ++ "and" :: tb ++ "and" :: tc) = Ok x /\
      activation_degree membership (Some conj) (Some disj) e x
      = (do vab <- (do va <- sem membership conj disj e a; do vb <- sem membership conj disj e b; Ok (tnormx_compute conj va vb));
         do vc <- sem membership conj disj e c; Ok (tnormx_compute conj vab vc)).
  Proof.
    intros Ha Hb Hc Hn.
    replace (ta ++ "and" :: tb ++ "and" :: tc) with ((ta ++ "and" :: tb) ++ "and" :: tc) by (now rewrite <- app_assoc).
    apply (tokens_degree conj disj (t := AAnd (AAnd a b) c)); [|exact Hn].
    apply P_and; [lia| |exact Hc]. apply P_and; [lia|exact Ha|exact Hb].
  Qed.

  (* a or b or c  =  (a or b) or c *)
  Theorem left_assoc_or conj disj a b c ta tb tc :
    Prints 0 a ta -> Prints 1 b tb -> Prints 1 c tc -> names_ok (AOr (AOr a b) c) ->
    exists x, parse_tokens (ta ++ "or" :: tb ++ "or" :: tc) = Ok x /\
      activation_degree membership (Some conj) (Some disj) e x
      = (do vab <- (do va <- sem membership conj disj e a; do vb <- sem membership conj disj e b; Ok (snormx_compute disj va vb));
         do vc <- sem membership conj disj e c; Ok (snormx_compute disj vab vc)).
  Proof.
    intros Ha Hb Hc Hn.
    replace (ta ++ "or" :: tb ++ "or" :: tc) with ((ta ++ "or" :: tb) ++ "or" :: tc) by (now rewrite <- app_assoc).
    apply (tokens_degree conj disj (t := AOr (AOr a b) c)); [|exact Hn].
    apply P_or; [reflexivity| |exact Hc]. apply P_or; [reflexivity|exact Ha|exact Hb].
  Qed.

  (* ( a or b ) and c  =  (a or b) and c      and      a and ( b or c )  =  a and (b or c) *)
  Theorem parens_override conj disj a b c ta tb tc :
    Prints 0 a ta -> Prints 1 b tb -> Prints 2 c tc -> names_ok (AAnd (AOr a b) c) ->
    exists x, parse_tokens ("(" :: (ta ++ "or" :: tb) ++ [")"] ++ "and" :: tc) = Ok x /\
      activation_degree membership (Some conj) (Some disj) e x
      = (do vab <- (do va <- sem membership conj disj e a; do vb <- sem membership conj disj e b; Ok (snormx_compute disj va vb));
         do vc <- sem membership conj disj e c; Ok (tnormx_compute conj vab vc)).
  Proof.
    intros Ha Hb Hc Hn.
    replace ("(" :: (ta ++ "or" :: tb) ++ [")"] ++ "and" :: tc) with (("(" :: (ta ++ "or" :: tb) ++ [")"]) ++ "and" :: tc)
      by (cbn; now rewrite <- !app_assoc).
    apply (tokens_degree conj disj (t := AAnd (AOr a b) c)); [|exact Hn].
    apply P_and; [lia| |exact Hc]. apply P_paren. apply P_or; [reflexivity|exact Ha|exact Hb].
  Qed.
  Theorem parens_override_right conj disj a b c ta tb tc :
    Prints 1 a ta -> Prints 0 b tb -> Prints 1 c tc -> names_ok (AAnd a (AOr b c)) ->
    exists x, parse_tokens (ta ++ "and" :: "(" :: (tb ++ "or" :: tc) ++ [")"]) = Ok x /\
      activation_degree membership (Some conj) (Some disj) e x
      = (do va <- sem membership conj disj e a;
         do vbc <- (do vb <- sem membership conj disj e b; do vc <- sem membership conj disj e c; Ok (snormx_compute disj vb vc));
         Ok (tnormx_compute conj va vbc)).
  Proof.
    intros Ha Hb Hc Hn. apply (tokens_degree conj disj (t := AAnd a (AOr b c))); [|exact Hn].
    apply P_and; [lia|exact Ha|]. apply P_paren. apply P_or; [reflexivity|exact Hb|exact Hc].
  Qed.

  (* v is h1 h2 … term : the hedge nearest the term is applied first *)
  Theorem hedges_nearest_first conj disj v h hs n : names_ok (AProp v (h :: hs) (TTerm n)) -> spec_enabled e v = true ->
    exists x, parse_tokens (v :: "is" :: hedge_name h :: map hedge_name hs ++ [n]) = Ok x /\
      activation_degree membership (Some conj) (Some disj) e x
      = (do b <- prop_base membership e v n; Ok (hedge_apply h (hedged hs b))).
  Proof.
    intros Hn Hen. destruct (tokens_degree conj disj (P_prop 0 v (h :: hs) (TTerm n)) Hn) as (x & Hp & Hd).
    exists x. split; [exact Hp|]. rewrite Hd. cbn [sem]. now rewrite Hen.
  Qed.

  Theorem disabled_variable_zero conj disj v hs tg : names_ok (AProp v hs tg) -> spec_enabled e v = false ->
    exists x, parse_tokens (prop_tokens v hs tg) = Ok x /\
      activation_degree membership (Some conj) (Some disj) e x = Ok zero.
  Proof.
    intros Hn Hen. destruct (tokens_degree conj disj (P_prop 0 v hs tg) Hn) as (x & Hp & Hd).
    exists x. split; [exact Hp|]. rewrite Hd. cbn [sem]. now rewrite Hen.
  Qed.

  Theorem any_yields_one_gen conj disj v : names_ok (AProp v [] TAny) -> spec_enabled e v = true ->
    exists x, parse_tokens [v; "is"; "any"] = Ok x /\
      activation_degree membership (Some conj) (Some disj) e x = Ok one.
  Proof.
    intros Hn Hen. destruct (tokens_degree conj disj (P_prop 0 v [] TAny) Hn) as (x & Hp & Hd).
    exists x. split; [exact Hp|]. rewrite Hd. cbn [sem]. now rewrite Hen.
  Qed.
End Names.

(* every tree has a spelling: the printer with the fewest parentheses *)
Lemma Prints_weaken l1 l2 t ts : (l1 <= l2)%nat -> Prints l2 t ts -> Prints l1 t ts.
Proof.
  intros Hle H. revert l1 Hle. induction H; intros l1 Hle.
  - constructor.
  - subst. assert (l1 = 0%nat) by lia. subst. now apply P_or.
  - apply P_and; [lia|assumption|assumption].
  - now apply P_paren.
Qed.
Lemma print_min_prints lvl t : Prints lvl t (print_min lvl t).
Proof.
  revert lvl. induction t as [v hs tg|l IHl r IHr|l IHl r IHr]; intros lvl; cbn [print_min].
  - constructor.
  - destruct lvl as [|[|n]].
    + apply P_and; [lia|apply IHl|apply IHr].
    + apply P_and; [lia|apply IHl|apply IHr].
    + apply P_paren. apply P_and; [lia|apply IHl|apply IHr].
  - destruct lvl as [|n].
    + apply P_or; [reflexivity|apply IHl|apply IHr].
    + apply P_paren. apply P_or; [reflexivity|apply IHl|apply IHr].
Qed.

(* ---- over the reals: `any` yields 1 *)
From Coq Require Import Reals Lra.
From VF Require Import NumR.
Lemma one_R : (one : R) = 1%R.
Proof. unfold one. unR. lra. Qed.
