(* HedgeFloat — the hedge laws at the binary64 level.  The GENERATED kernels of Gen/GenHedge.v at `NumF m tbl`
   (they use only IEEE-basic operations: - * sqrt and <=; `square x` is x*x; no oracle function) equal the float
   formulas <H>_F (lemmas <H>_Feq, tactic hfeqgen: let-bindings and commuted factors are tolerated), and for ALL
   binary64 x with 0 <= x <= 1:  range in [0,1], end points, monotone (not: antitone), very x <= x <= somewhat x.
   Refuted by witness: not (not x) = x, and the four inverse-pair laws. *)
From Coq Require Import ZArith Reals Lra Lia Bool Floats Psatz.
From Flocq Require Import Core IEEE754.BinarySingleNaN IEEE754.PrimFloat.
From VF Require Import Num NumF GenHedge FloatLevel NormFloat.
Local Open Scope R_scope.

Definition HF := flt -> flt.
Definition Any_F : HF := fun _ => 1%float.
Definition Extremely_F : HF := fun x =>
  if PrimFloat.leb x 0.5 then (2 * (x * x))%float else (1 - 2 * ((1 - x) * (1 - x)))%float.
Definition Not_F : HF := fun x => (1 - x)%float.
Definition Seldom_F : HF := fun x =>
  if PrimFloat.leb x 0.5 then PrimFloat.sqrt (0.5 * x) else (1 - PrimFloat.sqrt (0.5 * (1 - x)))%float.
Definition Somewhat_F : HF := fun x => PrimFloat.sqrt x.
Definition Very_F : HF := fun x => (x * x)%float.

Ltac unH := unfold Any_F, Extremely_F, Not_F, Seldom_F, Somewhat_F, Very_F in *.
Ltac hfeqgen := intros; unfold Any_hedge, Extremely_hedge, Not_hedge, Seldom_hedge, Somewhat_hedge, Very_hedge;
  unH; unnum; flits; fcomm.

Section Feq.
  Variables (m : bool) (tbl : oracle).
  Local Notation NF := (NumF m tbl).
  Lemma Any_Feq x : @Any_hedge _ NF x = Any_F x. Proof. hfeqgen. Qed.
  Lemma Extremely_Feq x : @Extremely_hedge _ NF x = Extremely_F x. Proof. hfeqgen. Qed.
  Lemma Not_Feq x : @Not_hedge _ NF x = Not_F x. Proof. hfeqgen. Qed.
  Lemma Seldom_Feq x : @Seldom_hedge _ NF x = Seldom_F x. Proof. hfeqgen. Qed.
  Lemma Somewhat_Feq x : @Somewhat_hedge _ NF x = Somewhat_F x. Proof. hfeqgen. Qed.
  Lemma Very_Feq x : @Very_hedge _ NF x = Very_F x. Proof. hfeqgen. Qed.
End Feq.

(* ------------------------------------------------------------------ the laws *)
Definition hrangeF (H : HF) := forall x, unitF x -> unitF (H x).
Definition hmonoF (H : HF) := forall x y, unitF x -> unitF y -> R_of x <= R_of y -> R_of (H x) <= R_of (H y).
Definition hantiF (H : HF) := forall x y, unitF x -> unitF y -> R_of x <= R_of y -> R_of (H y) <= R_of (H x).
Definition hendsF (H : HF) (v0 v1 : flt) := H 0%float = v0 /\ H 1%float = v1.

Lemma hrangeF_ext H H' : (forall x, H' x = H x) -> hrangeF H -> hrangeF H'.
Proof. intros E R x Ux. rewrite E. now apply R. Qed.
Lemma hmonoF_ext H H' : (forall x, H' x = H x) -> hmonoF H -> hmonoF H'.
Proof. intros E R x y Ux Uy L. rewrite !E. now apply R. Qed.
Lemma hantiF_ext H H' : (forall x, H' x = H x) -> hantiF H -> hantiF H'.
Proof. intros E R x y Ux Uy L. rewrite !E. now apply R. Qed.
Lemma hendsF_ext H H' v0 v1 : (forall x, H' x = H x) -> hendsF H v0 v1 -> hendsF H' v0 v1.
Proof. intros E [R0 R1]. split; rewrite E; assumption. Qed.

Ltac startH := unfold hrangeF, hmonoF, hantiF in *; unH; intros; pose_lits;
  repeat match goal with H : unitF _ |- _ => let F := fresh "FIN" in let U := fresh "UB" in destruct H as [F U] end.

(* -- any *)
Lemma Any_F_range : hrangeF Any_F. Proof. intros x _. apply unitF_one. Qed.
Lemma Any_F_mono : hmonoF Any_F. Proof. intros x y _ _ _. unfold Any_F. lra. Qed.

(* -- not : RN(1 - x) *)
Lemma Not_F_range : hrangeF Not_F.
Proof. intros x Ux. apply (one_minus_unit x Ux). Qed.
Lemma Not_F_anti : hantiF Not_F.
Proof.
  startH. fsub 1%float x in 0 1 as G1 E1 B1. fsub 1%float y in 0 1 as G2 E2 B2.
  rewrite E1, E2. apply RN_le. lra.
Qed.
Lemma Not_F_ends : hendsF Not_F 1 0. Proof. split; vm_compute; reflexivity. Qed.

(* -- very : RN(x*x) *)
Lemma Very_F_range : hrangeF Very_F.
Proof. intros x Ux. apply (mul_unit x x Ux Ux). Qed.
Lemma Very_F_mono : hmonoF Very_F.
Proof.
  startH. fmul x x in 0 1 as G1 E1 B1. fmul y y in 0 1 as G2 E2 B2.
  rewrite E1, E2. apply RN_le. nra.
Qed.
Lemma Very_F_ends : hendsF Very_F 0 1. Proof. split; vm_compute; reflexivity. Qed.
Lemma Very_F_le_id x : unitF x -> R_of (Very_F x) <= R_of x.
Proof. intros Ux. apply (mul_unit x x Ux Ux). Qed.

(* -- somewhat : RN(sqrt x) *)
Lemma Somewhat_F_range : hrangeF Somewhat_F.
Proof. intros x Ux. apply (sqrt_unit x Ux). Qed.
Lemma Somewhat_F_mono : hmonoF Somewhat_F.
Proof.
  startH. fsqrt x in 0 1 as G1 E1 B1. fsqrt y in 0 1 as G2 E2 B2.
  rewrite E1, E2. apply RN_le. apply sqrt_le_1_alt. lra.
Qed.
Lemma Somewhat_F_ends : hendsF Somewhat_F 0 1. Proof. split; vm_compute; reflexivity. Qed.
Lemma Somewhat_F_ge_id x : unitF x -> R_of x <= R_of (Somewhat_F x).
Proof. intros Ux. apply (sqrt_unit x Ux). Qed.

(* -- extremely : the two branches map [0,1/2] into [0,1/2] and (1/2,1] into [1/2,1], each monotonically *)
Definition lowE (x : flt) : flt := (2 * (x * x))%float.
Definition highE (x : flt) : flt := (1 - 2 * ((1 - x) * (1 - x)))%float.
Lemma lowE_spec x : fin x -> 0 <= R_of x <= 1 / 2 ->
  fin (lowE x) /\ 0 <= R_of (lowE x) <= 1 / 2 /\ R_of (lowE x) = RN (2 * RN (R_of x * R_of x)).
Proof.
  intros Fx Bx. unfold lowE. pose_lits.
  fmul x x in 0 (1 / 4) as G1 E1 B1. fmul 2%float (x * x)%float in 0 (1 / 2) as G2 E2 B2.
  split; [exact G2 |]. split; [exact B2 |]. rewrite E2, E1, Lit2. reflexivity.
Qed.
Lemma highE_spec x : fin x -> 1 / 2 <= R_of x <= 1 ->
  fin (highE x) /\ 1 / 2 <= R_of (highE x) <= 1 /\
  R_of (highE x) = RN (1 - RN (2 * RN (RN (1 - R_of x) * RN (1 - R_of x)))).
Proof.
  intros Fx Bx. unfold highE. pose_lits.
  fsub 1%float x in 0 (1 / 2) as G0 E0 B0.
  fmul (1 - x)%float (1 - x)%float in 0 (1 / 4) as G1 E1 B1.
  fmul 2%float ((1 - x) * (1 - x))%float in 0 (1 / 2) as G2 E2 B2.
  fsub 1%float (2 * ((1 - x) * (1 - x)))%float in (1 / 2) 1 as G3 E3 B3.
  split; [exact G3 |]. split; [exact B3 |]. rewrite E3, E2, E1, E0, Lit1, Lit2. reflexivity.
Qed.
Lemma lowE_mono x y : fin x -> fin y -> 0 <= R_of x -> R_of x <= R_of y -> R_of y <= 1 / 2 ->
  R_of (lowE x) <= R_of (lowE y).
Proof.
  intros Fx Fy H0 H1 H2.
  destruct (lowE_spec x Fx ltac:(lra)) as (_ & _ & Ex). destruct (lowE_spec y Fy ltac:(lra)) as (_ & _ & Ey).
  rewrite Ex, Ey. apply RN_le. apply Rmult_le_compat_l; [lra |]. apply RN_le. nra.
Qed.
Lemma highE_mono x y : fin x -> fin y -> 1 / 2 <= R_of x -> R_of x <= R_of y -> R_of y <= 1 ->
  R_of (highE x) <= R_of (highE y).
Proof.
  intros Fx Fy H0 H1 H2.
  destruct (highE_spec x Fx ltac:(lra)) as (_ & _ & Ex). destruct (highE_spec y Fy ltac:(lra)) as (_ & _ & Ey).
  rewrite Ex, Ey.
  assert (A : RN (1 - R_of y) <= RN (1 - R_of x)) by (apply RN_le; lra).
  assert (A0 : 0 <= RN (1 - R_of y)) by (apply RN_ge; [apply fmt_0 | lra]).
  apply RN_le. apply Rplus_le_compat_l, Ropp_le_contravar. apply RN_le.
  apply Rmult_le_compat_l; [lra |]. apply RN_le. nra.
Qed.

Lemma Extremely_F_range : hrangeF Extremely_F.
Proof.
  startH. fcase_leb x 0.5%float as H.
  - destruct (lowE_spec x ltac:(fin_tac) ltac:(lra)) as (F & B & _). unfold lowE, highE in *. split; [exact F | lra].
  - destruct (highE_spec x ltac:(fin_tac) ltac:(lra)) as (F & B & _). unfold lowE, highE in *. split; [exact F | lra].
Qed.
Lemma Extremely_F_mono : hmonoF Extremely_F.
Proof.
  startH. fcase_leb x 0.5%float as Hx; fcase_leb y 0.5%float as Hy.
  - apply lowE_mono; try assumption; lra.
  - destruct (lowE_spec x ltac:(fin_tac) ltac:(lra)) as (_ & B & _). destruct (highE_spec y ltac:(fin_tac) ltac:(lra)) as (_ & B' & _).
    unfold lowE, highE in *. lra.
  - exfalso. lra.
  - apply highE_mono; try assumption; lra.
Qed.
Lemma Extremely_F_ends : hendsF Extremely_F 0 1. Proof. split; vm_compute; reflexivity. Qed.

(* -- seldom *)
Definition lowS (x : flt) : flt := PrimFloat.sqrt (0.5 * x).
Definition highS (x : flt) : flt := (1 - PrimFloat.sqrt (0.5 * (1 - x)))%float.
Lemma lowS_spec x : fin x -> 0 <= R_of x <= 1 / 2 ->
  fin (lowS x) /\ 0 <= R_of (lowS x) <= 1 / 2 /\ R_of (lowS x) = RN (R_sqrt.sqrt (RN (1 / 2 * R_of x))).
Proof.
  intros Fx Bx. unfold lowS. pose_lits.
  fmul 0.5%float x in 0 (1 / 4) as G1 E1 B1. fsqrt (0.5 * x)%float in 0 (1 / 2) as G2 E2 B2.
  split; [exact G2 |]. split; [exact B2 |]. rewrite E2, E1, LitH. reflexivity.
Qed.
Lemma highS_spec x : fin x -> 1 / 2 <= R_of x <= 1 ->
  fin (highS x) /\ 1 / 2 <= R_of (highS x) <= 1 /\
  R_of (highS x) = RN (1 - RN (R_sqrt.sqrt (RN (1 / 2 * RN (1 - R_of x))))).
Proof.
  intros Fx Bx. unfold highS. pose_lits.
  fsub 1%float x in 0 (1 / 2) as G0 E0 B0.
  fmul 0.5%float (1 - x)%float in 0 (1 / 4) as G1 E1 B1.
  fsqrt (0.5 * (1 - x))%float in 0 (1 / 2) as G2 E2 B2.
  fsub 1%float (PrimFloat.sqrt (0.5 * (1 - x)))%float in (1 / 2) 1 as G3 E3 B3.
  split; [exact G3 |]. split; [exact B3 |]. rewrite E3, E2, E1, E0, Lit1, LitH. reflexivity.
Qed.
Lemma lowS_mono x y : fin x -> fin y -> 0 <= R_of x -> R_of x <= R_of y -> R_of y <= 1 / 2 ->
  R_of (lowS x) <= R_of (lowS y).
Proof.
  intros Fx Fy H0 H1 H2.
  destruct (lowS_spec x Fx ltac:(lra)) as (_ & _ & Ex). destruct (lowS_spec y Fy ltac:(lra)) as (_ & _ & Ey).
  rewrite Ex, Ey. apply RN_le. apply sqrt_le_1_alt. apply RN_le. lra.
Qed.
Lemma highS_mono x y : fin x -> fin y -> 1 / 2 <= R_of x -> R_of x <= R_of y -> R_of y <= 1 ->
  R_of (highS x) <= R_of (highS y).
Proof.
  intros Fx Fy H0 H1 H2.
  destruct (highS_spec x Fx ltac:(lra)) as (_ & _ & Ex). destruct (highS_spec y Fy ltac:(lra)) as (_ & _ & Ey).
  rewrite Ex, Ey.
  assert (A : RN (1 - R_of y) <= RN (1 - R_of x)) by (apply RN_le; lra).
  apply RN_le. apply Rplus_le_compat_l, Ropp_le_contravar. apply RN_le.
  apply sqrt_le_1_alt. apply RN_le. lra.
Qed.
Lemma Seldom_F_range : hrangeF Seldom_F.
Proof.
  startH. fcase_leb x 0.5%float as H.
  - destruct (lowS_spec x ltac:(fin_tac) ltac:(lra)) as (F & B & _). unfold lowS, highS in *. split; [exact F | lra].
  - destruct (highS_spec x ltac:(fin_tac) ltac:(lra)) as (F & B & _). unfold lowS, highS in *. split; [exact F | lra].
Qed.
Lemma Seldom_F_mono : hmonoF Seldom_F.
Proof.
  startH. fcase_leb x 0.5%float as Hx; fcase_leb y 0.5%float as Hy.
  - apply lowS_mono; try assumption; lra.
  - destruct (lowS_spec x ltac:(fin_tac) ltac:(lra)) as (_ & B & _). destruct (highS_spec y ltac:(fin_tac) ltac:(lra)) as (_ & B' & _).
    unfold lowS, highS in *. lra.
  - exfalso. lra.
  - apply highS_mono; try assumption; lra.
Qed.
Lemma Seldom_F_ends : hendsF Seldom_F 0 1. Proof. split; vm_compute; reflexivity. Qed.

(* ------------------------------------------------------------------ refutations *)
(* H (G x) <> x for a binary64 x of [0,1] (finite values, different reals) *)
Definition not_inverseF (H G : HF) := exists x, unitF x /\ fin (H (G x)) /\ fin x /\ R_of (H (G x)) <> R_of x.
Lemma not_inverseF_ext H H' G G' : (forall x, H' x = H x) -> (forall x, G' x = G x) ->
  not_inverseF H G -> not_inverseF H' G'.
Proof. intros EH EG (x & W). exists x. rewrite EH, EG. exact W. Qed.
Ltac hrefute := split; [apply unitb_ok; vm_compute; reflexivity |];
  apply fneq_ok; vm_compute; reflexivity.

Lemma Not_F_involution_refuted : not_inverseF Not_F Not_F.          (* 1 - (1 - 0.1) = 0.09999999999999998 *)
Proof. exists 0x1.999999999999ap-4%float. hrefute. Qed.
Lemma Not_F_involution_refuted_tiny : not_inverseF Not_F Not_F.     (* 1 - (1 - 2^-60) = 0 *)
Proof. exists 0x1p-60%float. hrefute. Qed.
Lemma Somewhat_Very_refuted : not_inverseF Somewhat_F Very_F.       (* x*x underflows to 0 *)
Proof. exists 0x1p-600%float. hrefute. Qed.
Lemma Very_Somewhat_refuted : not_inverseF Very_F Somewhat_F.
Proof. exists 0x1.999999999999ap-3%float. hrefute. Qed.
Lemma Seldom_Extremely_refuted : not_inverseF Seldom_F Extremely_F.
Proof. exists 0x1.ccccccccccccdp-1%float. hrefute. Qed.
Lemma Extremely_Seldom_refuted : not_inverseF Extremely_F Seldom_F.
Proof. exists 0x1.999999999999ap-4%float. hrefute. Qed.

(* ------------------------------------------------------------------ the statements on the GENERATED kernels at NumF m tbl *)
Section Final.
  Variables (m : bool) (tbl : oracle).
  Local Notation NF := (NumF m tbl).

  Theorem Any_float : let H := @Any_hedge _ NF in hrangeF H /\ hmonoF H /\ (forall x, H x = 1%float).
  Proof.
    exact (conj (hrangeF_ext _ _ (Any_Feq m tbl) Any_F_range)
      (conj (hmonoF_ext _ _ (Any_Feq m tbl) Any_F_mono) (Any_Feq m tbl))).
  Qed.
  Theorem Not_float : let H := @Not_hedge _ NF in hrangeF H /\ hantiF H /\ hendsF H 1 0.
  Proof.
    exact (conj (hrangeF_ext _ _ (Not_Feq m tbl) Not_F_range)
      (conj (hantiF_ext _ _ (Not_Feq m tbl) Not_F_anti) (hendsF_ext _ _ _ _ (Not_Feq m tbl) Not_F_ends))).
  Qed.
  Theorem Very_float : let H := @Very_hedge _ NF in hrangeF H /\ hmonoF H /\ hendsF H 0 1.
  Proof.
    exact (conj (hrangeF_ext _ _ (Very_Feq m tbl) Very_F_range)
      (conj (hmonoF_ext _ _ (Very_Feq m tbl) Very_F_mono) (hendsF_ext _ _ _ _ (Very_Feq m tbl) Very_F_ends))).
  Qed.
  Theorem Somewhat_float : let H := @Somewhat_hedge _ NF in hrangeF H /\ hmonoF H /\ hendsF H 0 1.
  Proof.
    exact (conj (hrangeF_ext _ _ (Somewhat_Feq m tbl) Somewhat_F_range)
      (conj (hmonoF_ext _ _ (Somewhat_Feq m tbl) Somewhat_F_mono)
            (hendsF_ext _ _ _ _ (Somewhat_Feq m tbl) Somewhat_F_ends))).
  Qed.
  Theorem Extremely_float : let H := @Extremely_hedge _ NF in hrangeF H /\ hmonoF H /\ hendsF H 0 1.
  Proof.
    exact (conj (hrangeF_ext _ _ (Extremely_Feq m tbl) Extremely_F_range)
      (conj (hmonoF_ext _ _ (Extremely_Feq m tbl) Extremely_F_mono)
            (hendsF_ext _ _ _ _ (Extremely_Feq m tbl) Extremely_F_ends))).
  Qed.
  Theorem Seldom_float : let H := @Seldom_hedge _ NF in hrangeF H /\ hmonoF H /\ hendsF H 0 1.
  Proof.
    exact (conj (hrangeF_ext _ _ (Seldom_Feq m tbl) Seldom_F_range)
      (conj (hmonoF_ext _ _ (Seldom_Feq m tbl) Seldom_F_mono)
            (hendsF_ext _ _ _ _ (Seldom_Feq m tbl) Seldom_F_ends))).
  Qed.
  Theorem very_le_id_le_somewhat_float : forall x, unitF x ->
    R_of (@Very_hedge _ NF x) <= R_of x <= R_of (@Somewhat_hedge _ NF x).
  Proof.
    intros x Ux. rewrite Very_Feq, Somewhat_Feq. split; [now apply Very_F_le_id | now apply Somewhat_F_ge_id].
  Qed.
  Theorem not_involution_refuted : not_inverseF (@Not_hedge _ NF) (@Not_hedge _ NF).
  Proof. exact (not_inverseF_ext _ _ _ _ (Not_Feq m tbl) (Not_Feq m tbl) Not_F_involution_refuted). Qed.
  Theorem not_involution_refuted_tiny : not_inverseF (@Not_hedge _ NF) (@Not_hedge _ NF).
  Proof. exact (not_inverseF_ext _ _ _ _ (Not_Feq m tbl) (Not_Feq m tbl) Not_F_involution_refuted_tiny). Qed.
  Theorem inverse_pairs_refuted :
    not_inverseF (@Somewhat_hedge _ NF) (@Very_hedge _ NF) /\ not_inverseF (@Very_hedge _ NF) (@Somewhat_hedge _ NF) /\
    not_inverseF (@Seldom_hedge _ NF) (@Extremely_hedge _ NF) /\
    not_inverseF (@Extremely_hedge _ NF) (@Seldom_hedge _ NF).
  Proof.
    exact (conj (not_inverseF_ext _ _ _ _ (Somewhat_Feq m tbl) (Very_Feq m tbl) Somewhat_Very_refuted)
      (conj (not_inverseF_ext _ _ _ _ (Very_Feq m tbl) (Somewhat_Feq m tbl) Very_Somewhat_refuted)
      (conj (not_inverseF_ext _ _ _ _ (Seldom_Feq m tbl) (Extremely_Feq m tbl) Seldom_Extremely_refuted)
            (not_inverseF_ext _ _ _ _ (Extremely_Feq m tbl) (Seldom_Feq m tbl) Extremely_Seldom_refuted)))).
  Qed.
End Final.
