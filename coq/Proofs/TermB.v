(* C03, group B (Arc, SemiEllipse, Bell, Cosine, Gaussian, GaussianProduct, Sigmoid, SigmoidDifference,
   SigmoidProduct, Spike): the translated membership kernels of Gen/GenTerm.v, read over R, equal
   height * documented closed form (Spec/SpecTermB.v); range, characteristic values, monotonicity. *)
From Coq Require Import Reals Lra Lia Bool Psatz.
From VF Require Import Num NumR GenTerm SpecTermB.
Local Open Scope R_scope.

(* composites first: their bodies mention Gaussian_membership / Sigmoid_membership *)
Ltac ungenTB := unfold GaussianProduct_membership, SigmoidDifference_membership, SigmoidProduct_membership,
  Arc_membership, Bell_membership, Cosine_membership, Gaussian_membership,
  SemiEllipse_membership, Sigmoid_membership, Spike_membership in *.
Ltac unspecTB := unfold Arc_shape, Arc_curve, SemiEllipse_shape, Bell_shape, Bell_shape_doc, Cosine_shape,
  GaussianProduct_shape, GaussianProduct_a, GaussianProduct_b, Gaussian_shape,
  SigmoidDifference_shape, SigmoidDifference_shape_doc, SigmoidProduct_shape, Sigmoid_shape, Spike_shape in *.
Ltac splitdecTB := repeat match goal with
  | |- context [Rlt_dec ?a ?b] => destruct (Rlt_dec a b)
  | |- context [Rle_dec ?a ?b] => destruct (Rle_dec a b)
  end.
(* generated kernel at NumR, lets and comparisons opened (the extra cbn finishes literals such as
   `lit 10 0`, whose Z product unR leaves as `Z.pos (1 + 4)~0`) *)
Ltac openTB := ungenTB; unR; cbn [Pos.add Pos.succ Pos.add_carry] in *; splitR.

(* ---- closeR: a = b over R up to commutation / regrouping / let-naming, ALSO inside the arguments of
   the opaque functions (exp, cos, sqrt, Rabs, ln, Rpow, Rinv), where `ring` alone cannot look.
   Two applications of the same function anywhere in the goal whose arguments are (recursively) provably
   equal are made syntactically equal; then ring / field / lra finish. `n` bounds the nesting depth. *)
Ltac argsolve := first [ reflexivity | ring | solve [field; lra] | lra ].
Ltac closeRn n :=
  lazymatch n with
  | O => argsolve
  | S ?m =>
    unfold Rdiv, Rsqr;
    repeat first
      [ unify1 exp m | unify1 cos m | unify1 sqrt m | unify1 Rabs m | unify1 ln m | unify1 Rinv m | unifyRpow m ];
    argsolve
  end
with unify1 f m :=
  match goal with
  | |- context [f ?a] =>
    match goal with
    | |- context [f ?b] =>
      tryif constr_eq a b then fail
      else (replace (f a) with (f b) by (apply (f_equal f); closeRn m))
    end
  end
with unifyRpow m :=
  match goal with
  | |- context [Rpow ?a1 ?a2] =>
    match goal with
    | |- context [Rpow ?b1 ?b2] =>
      tryif (constr_eq a1 b1; constr_eq a2 b2) then fail
      else (replace (Rpow a1 a2) with (Rpow b1 b2) by (apply (f_equal2 Rpow); closeRn m))
    end
  end.
Ltac closeR := closeRn 3%nat.
(* one branch of a case split: contradictory comparisons, or the algebra *)
Ltac branchR := first [ exfalso; lra | closeR ].

(* ================================================================ toolbox *)
Lemma scaleB_range (h v : R) : 0 < h -> 0 <= v <= 1 -> 0 <= h * v <= h.
Proof. intros Hh [H0 H1]; split; nra. Qed.
Lemma scaleB_mono (h v w : R) : 0 < h -> v <= w -> h * v <= h * w.
Proof. intros Hh Hvw; nra. Qed.

Lemma exp_le_mono (a b : R) : a <= b -> exp a <= exp b.
Proof.
  intros [Hlt | Heq]; [left; apply exp_increasing; exact Hlt | rewrite Heq; apply Rle_refl].
Qed.
Lemma exp_le_1 (a : R) : a <= 0 -> exp a <= 1.
Proof. intros Ha. rewrite <- exp_0. apply exp_le_mono; exact Ha. Qed.
Lemma exp_unit (a : R) : a <= 0 -> 0 <= exp a <= 1.
Proof. intros Ha; split; [left; apply exp_pos | apply exp_le_1; exact Ha]. Qed.

(* 1/d for d >= 1 *)
Lemma inv_unit (d : R) : 1 <= d -> 0 < 1 / d <= 1.
Proof.
  intros Hd. assert (Hp : 0 < / d) by (apply Rinv_0_lt_compat; lra).
  split; [lra |]. unfold Rdiv. rewrite Rmult_1_l. rewrite <- Rinv_1.
  apply Rinv_le_contravar; lra.
Qed.
Lemma inv_anti (d1 d2 : R) : 0 < d1 -> d1 <= d2 -> 1 / d2 <= 1 / d1.
Proof.
  intros H1 H12. unfold Rdiv. rewrite !Rmult_1_l. apply Rinv_le_contravar; assumption.
Qed.

Lemma div_unit (n d : R) : 0 < d -> 0 <= n <= d -> 0 <= n / d <= 1.
Proof.
  intros Hd [H0 H1]. assert (Hp : 0 < / d) by (apply Rinv_0_lt_compat; exact Hd).
  unfold Rdiv. split; [nra |]. apply Rmult_le_reg_r with d; [exact Hd |].
  rewrite Rmult_assoc, Rinv_l by lra. lra.
Qed.
Lemma div_le_mono (a b d : R) : 0 < d -> a <= b -> a / d <= b / d.
Proof.
  intros Hd Hab. unfold Rdiv. apply Rmult_le_compat_r; [left; apply Rinv_0_lt_compat; exact Hd | exact Hab].
Qed.

(* the circle: sqrt (r² - d²) against |r| *)
Lemma circ_le (r d : R) : sqrt (r² - d²) <= Rabs r.
Proof.
  rewrite <- (sqrt_Rsqr_abs r). apply sqrt_le_1_alt. pose proof (Rle_0_sqr d). lra.
Qed.
Lemma circ_unit (r d : R) : r <> 0 -> 0 <= sqrt (r² - d²) / Rabs r <= 1.
Proof.
  intros Hr. apply div_unit; [apply Rabs_pos_lt; exact Hr |].
  split; [apply sqrt_pos | apply circ_le].
Qed.
Lemma circ_full (r : R) : r <> 0 -> sqrt (r² - 0²) / Rabs r = 1.
Proof.
  intros Hr. replace (r² - 0²) with r² by (unfold Rsqr; ring). rewrite sqrt_Rsqr_abs.
  field. apply Rabs_no_R0; exact Hr.
Qed.
Lemma circ_zero (r d : R) : d² = r² -> sqrt (r² - d²) = 0.
Proof. intros H. rewrite H. replace (r² - r²) with 0 by ring. apply sqrt_0. Qed.
(* further from the centre = lower *)
Lemma circ_anti (r d1 d2 : R) : d1² <= d2² -> sqrt (r² - d2²) <= sqrt (r² - d1²).
Proof. intros H. apply sqrt_le_1_alt. lra. Qed.

Lemma Rpow_nonneg (a b : R) : 0 <= Rpow a b.
Proof.
  unfold Rpow. destruct (Req_EM_T a 0); [destruct (Req_EM_T b 0); lra |].
  unfold Rpower. left; apply exp_pos.
Qed.
Lemma Rpow_0_l (b : R) : b <> 0 -> Rpow 0 b = 0.
Proof.
  intros Hb. unfold Rpow. destruct (Req_EM_T 0 0) as [_ | H]; [| contradiction H; reflexivity].
  destruct (Req_EM_T b 0); [contradiction | reflexivity].
Qed.
Lemma Rpow_1_l (b : R) : Rpow 1 b = 1.
Proof.
  unfold Rpow. destruct (Req_EM_T 1 0); [lra |].
  unfold Rpower. rewrite ln_1, Rmult_0_r. apply exp_0.
Qed.

(* ================================================================ Gaussian *)
Lemma Gaussian_eq (m sd h x : R) : Gaussian_membership m sd h x = h * Gaussian_shape m sd x.
Proof. openTB; unspecTB; branchR. Qed.

Lemma Gaussian_arg_le0 (m sd x : R) : sd <> 0 -> - (x - m)² / (2 * sd²) <= 0.
Proof.
  intros Hsd. assert (Hd : 0 < 2 * sd²) by (pose proof (Rsqr_pos_lt sd Hsd); lra).
  assert (Hp : 0 < / (2 * sd²)) by (apply Rinv_0_lt_compat; exact Hd).
  pose proof (Rle_0_sqr (x - m)). unfold Rdiv. nra.
Qed.
Lemma Gaussian_shape_range (m sd x : R) : sd <> 0 -> 0 <= Gaussian_shape m sd x <= 1.
Proof. intros Hsd. apply exp_unit. apply Gaussian_arg_le0; exact Hsd. Qed.
Lemma Gaussian_shape_pos (m sd x : R) : 0 < Gaussian_shape m sd x.
Proof. apply exp_pos. Qed.
Lemma Gaussian_shape_at_mean (m sd : R) : sd <> 0 -> Gaussian_shape m sd m = 1.
Proof.
  intros Hsd. unfold Gaussian_shape.
  replace (- (m - m)² / (2 * sd²)) with 0; [apply exp_0 |].
  unfold Rsqr. field. exact Hsd.
Qed.
Lemma Gaussian_shape_symm (m sd d : R) : Gaussian_shape m sd (m + d) = Gaussian_shape m sd (m - d).
Proof. unfold Gaussian_shape. f_equal. unfold Rsqr, Rdiv. ring. Qed.
(* unimodal: rises up to the mean, falls after it *)
Lemma Gaussian_shape_closer (m sd x y : R) : sd <> 0 -> (y - m)² <= (x - m)² ->
  Gaussian_shape m sd x <= Gaussian_shape m sd y.
Proof.
  intros Hsd Hxy. unfold Gaussian_shape. apply exp_le_mono.
  assert (Hd : 0 < 2 * sd²) by (pose proof (Rsqr_pos_lt sd Hsd); lra).
  assert (Hp : 0 < / (2 * sd²)) by (apply Rinv_0_lt_compat; exact Hd).
  unfold Rdiv. nra.
Qed.
Lemma Gaussian_shape_rising (m sd x y : R) : sd <> 0 -> x <= y -> y <= m ->
  Gaussian_shape m sd x <= Gaussian_shape m sd y.
Proof. intros Hsd Hxy Hym. apply Gaussian_shape_closer; [exact Hsd |]. unfold Rsqr. nra. Qed.
Lemma Gaussian_shape_falling (m sd x y : R) : sd <> 0 -> m <= x -> x <= y ->
  Gaussian_shape m sd y <= Gaussian_shape m sd x.
Proof. intros Hsd Hmx Hxy. apply Gaussian_shape_closer; [exact Hsd |]. unfold Rsqr. nra. Qed.

Lemma Gaussian_spec (m sd h x : R) : Gaussian_valid m sd h ->
  Gaussian_membership m sd h x = h * Gaussian_shape m sd x.
Proof. intros _. apply Gaussian_eq. Qed.
Lemma Gaussian_range (m sd h x : R) : Gaussian_valid m sd h -> 0 <= Gaussian_membership m sd h x <= h.
Proof.
  intros [Hsd [Hh _]]. rewrite Gaussian_eq. apply scaleB_range; [exact Hh |].
  apply Gaussian_shape_range; exact Hsd.
Qed.
Lemma Gaussian_at_mean (m sd h : R) : Gaussian_valid m sd h -> Gaussian_membership m sd h m = h.
Proof. intros [Hsd _]. rewrite Gaussian_eq, Gaussian_shape_at_mean by exact Hsd. ring. Qed.
Lemma Gaussian_symm (m sd h d : R) :
  Gaussian_membership m sd h (m + d) = Gaussian_membership m sd h (m - d).
Proof. rewrite !Gaussian_eq, Gaussian_shape_symm. reflexivity. Qed.
Lemma Gaussian_rising (m sd h x y : R) : Gaussian_valid m sd h -> x <= y -> y <= m ->
  Gaussian_membership m sd h x <= Gaussian_membership m sd h y.
Proof.
  intros [Hsd [Hh _]] Hxy Hym. rewrite !Gaussian_eq. apply scaleB_mono; [exact Hh |].
  apply Gaussian_shape_rising; assumption.
Qed.
Lemma Gaussian_falling (m sd h x y : R) : Gaussian_valid m sd h -> m <= x -> x <= y ->
  Gaussian_membership m sd h y <= Gaussian_membership m sd h x.
Proof.
  intros [Hsd [Hh _]] Hmx Hxy. rewrite !Gaussian_eq. apply scaleB_mono; [exact Hh |].
  apply Gaussian_shape_falling; assumption.
Qed.

(* ================================================================ GaussianProduct *)
Lemma GaussianProduct_eq (ma sa mb sb h x : R) :
  GaussianProduct_membership ma sa mb sb h x = h * GaussianProduct_shape ma sa mb sb x.
Proof. openTB; unspecTB; splitdecTB; branchR. Qed.

Lemma GaussianProduct_a_range (ma sa x : R) : sa <> 0 -> 0 <= GaussianProduct_a ma sa x <= 1.
Proof.
  intros Hsa. unfold GaussianProduct_a. destruct (Rlt_dec x ma); [apply Gaussian_shape_range; exact Hsa | lra].
Qed.
Lemma GaussianProduct_b_range (mb sb x : R) : sb <> 0 -> 0 <= GaussianProduct_b mb sb x <= 1.
Proof.
  intros Hsb. unfold GaussianProduct_b. destruct (Rlt_dec mb x); [apply Gaussian_shape_range; exact Hsb | lra].
Qed.
Lemma GaussianProduct_shape_range (ma sa mb sb x : R) : sa <> 0 -> sb <> 0 ->
  0 <= GaussianProduct_shape ma sa mb sb x <= 1.
Proof.
  intros Hsa Hsb. unfold GaussianProduct_shape.
  pose proof (GaussianProduct_a_range ma sa x Hsa) as Ha.
  pose proof (GaussianProduct_b_range mb sb x Hsb) as Hb.
  set (a := GaussianProduct_a ma sa x) in *. set (b := GaussianProduct_b mb sb x) in *. clearbody a b.
  split; nra.
Qed.
(* the three regimes when mean_a <= mean_b: left flank, plateau, right flank *)
Lemma GaussianProduct_shape_left (ma sa mb sb x : R) : x < ma -> x <= mb ->
  GaussianProduct_shape ma sa mb sb x = Gaussian_shape ma sa x.
Proof.
  intros H1 H2. unfold GaussianProduct_shape, GaussianProduct_a, GaussianProduct_b.
  destruct (Rlt_dec x ma); [| lra]. destruct (Rlt_dec mb x); [lra | ring].
Qed.
Lemma GaussianProduct_shape_plateau (ma sa mb sb x : R) : ma <= x -> x <= mb ->
  GaussianProduct_shape ma sa mb sb x = 1.
Proof.
  intros H1 H2. unfold GaussianProduct_shape, GaussianProduct_a, GaussianProduct_b.
  destruct (Rlt_dec x ma); [lra |]. destruct (Rlt_dec mb x); [lra | ring].
Qed.
Lemma GaussianProduct_shape_right (ma sa mb sb x : R) : ma <= x -> mb < x ->
  GaussianProduct_shape ma sa mb sb x = Gaussian_shape mb sb x.
Proof.
  intros H1 H2. unfold GaussianProduct_shape, GaussianProduct_a, GaussianProduct_b.
  destruct (Rlt_dec x ma); [lra |]. destruct (Rlt_dec mb x); [ring | lra].
Qed.
(* crossed means: both flanks are active between them *)
Lemma GaussianProduct_shape_both (ma sa mb sb x : R) : mb < x -> x < ma ->
  GaussianProduct_shape ma sa mb sb x = Gaussian_shape ma sa x * Gaussian_shape mb sb x.
Proof.
  intros H1 H2. unfold GaussianProduct_shape, GaussianProduct_a, GaussianProduct_b.
  destruct (Rlt_dec x ma); [| lra]. destruct (Rlt_dec mb x); [ring | lra].
Qed.

Lemma GaussianProduct_spec (ma sa mb sb h x : R) : GaussianProduct_valid ma sa mb sb h ->
  GaussianProduct_membership ma sa mb sb h x = h * GaussianProduct_shape ma sa mb sb x.
Proof. intros _. apply GaussianProduct_eq. Qed.
(* mu = h * (one-sided Gaussian a) * (one-sided Gaussian b), each a Gaussian kernel of height 1 *)
Lemma GaussianProduct_as_Gaussians (ma sa mb sb h x : R) :
  GaussianProduct_membership ma sa mb sb h x =
  h * ((if Rlt_dec x ma then Gaussian_membership ma sa 1 x else 1) *
       (if Rlt_dec mb x then Gaussian_membership mb sb 1 x else 1)).
Proof.
  rewrite GaussianProduct_eq, !Gaussian_eq. unfold GaussianProduct_shape, GaussianProduct_a, GaussianProduct_b.
  destruct (Rlt_dec x ma); destruct (Rlt_dec mb x); ring.
Qed.
Lemma GaussianProduct_range (ma sa mb sb h x : R) : GaussianProduct_valid ma sa mb sb h ->
  0 <= GaussianProduct_membership ma sa mb sb h x <= h.
Proof.
  intros [Hsa [Hsb [Hh _]]]. rewrite GaussianProduct_eq. apply scaleB_range; [exact Hh |].
  apply GaussianProduct_shape_range; assumption.
Qed.
Lemma GaussianProduct_plateau (ma sa mb sb h x : R) : ma <= x -> x <= mb ->
  GaussianProduct_membership ma sa mb sb h x = h.
Proof. intros H1 H2. rewrite GaussianProduct_eq, GaussianProduct_shape_plateau by assumption. ring. Qed.

(* ================================================================ Sigmoid *)
Lemma Sigmoid_eq (i s h x : R) : Sigmoid_membership i s h x = h * Sigmoid_shape i s x.
Proof. openTB; unspecTB; branchR. Qed.

Lemma Sigmoid_shape_bounds (i s x : R) : 0 < Sigmoid_shape i s x < 1.
Proof.
  unfold Sigmoid_shape. pose proof (exp_pos (- s * (x - i))) as He.
  set (t := exp (- s * (x - i))) in *. clearbody t.
  assert (Hp : 0 < / (1 + t)) by (apply Rinv_0_lt_compat; lra).
  split; [unfold Rdiv; lra |].
  apply Rmult_lt_reg_r with (1 + t); [lra |]. unfold Rdiv. rewrite Rmult_assoc, Rinv_l by lra. lra.
Qed.
Lemma Sigmoid_shape_range (i s x : R) : 0 <= Sigmoid_shape i s x <= 1.
Proof. pose proof (Sigmoid_shape_bounds i s x). lra. Qed.
Lemma Sigmoid_shape_at_inflection (i s : R) : Sigmoid_shape i s i = 1 / 2.
Proof.
  unfold Sigmoid_shape. replace (- s * (i - i)) with 0 by ring. rewrite exp_0. lra.
Qed.
Lemma Sigmoid_shape_mono_inc (i s x y : R) : 0 <= s -> x <= y -> Sigmoid_shape i s x <= Sigmoid_shape i s y.
Proof.
  intros Hs Hxy. unfold Sigmoid_shape. apply inv_anti.
  - pose proof (exp_pos (- s * (y - i))). lra.
  - apply Rplus_le_compat_l. apply exp_le_mono. nra.
Qed.
Lemma Sigmoid_shape_mono_dec (i s x y : R) : s <= 0 -> x <= y -> Sigmoid_shape i s y <= Sigmoid_shape i s x.
Proof.
  intros Hs Hxy. unfold Sigmoid_shape. apply inv_anti.
  - pose proof (exp_pos (- s * (x - i))). lra.
  - apply Rplus_le_compat_l. apply exp_le_mono. nra.
Qed.
Lemma Sigmoid_shape_strict_inc (i s x y : R) : 0 < s -> x < y -> Sigmoid_shape i s x < Sigmoid_shape i s y.
Proof.
  intros Hs Hxy. unfold Sigmoid_shape, Rdiv. rewrite !Rmult_1_l.
  apply Rinv_lt_contravar.
  - pose proof (exp_pos (- s * (y - i))). pose proof (exp_pos (- s * (x - i))). nra.
  - apply Rplus_lt_compat_l. apply exp_increasing. nra.
Qed.
Lemma Sigmoid_shape_strict_dec (i s x y : R) : s < 0 -> x < y -> Sigmoid_shape i s y < Sigmoid_shape i s x.
Proof.
  intros Hs Hxy. unfold Sigmoid_shape, Rdiv. rewrite !Rmult_1_l.
  apply Rinv_lt_contravar.
  - pose proof (exp_pos (- s * (y - i))). pose proof (exp_pos (- s * (x - i))). nra.
  - apply Rplus_lt_compat_l. apply exp_increasing. nra.
Qed.
Lemma Sigmoid_shape_flat (i x : R) : Sigmoid_shape i 0 x = 1 / 2.
Proof. unfold Sigmoid_shape. replace (- 0 * (x - i)) with 0 by ring. rewrite exp_0. lra. Qed.
(* mirror symmetry about the inflection: mu(i + d) + mu(i - d) = h *)
Lemma Sigmoid_shape_mirror (i s d : R) : Sigmoid_shape i s (i + d) + Sigmoid_shape i s (i - d) = 1.
Proof.
  unfold Sigmoid_shape. replace (- s * (i + d - i)) with (- (s * d)) by ring.
  replace (- s * (i - d - i)) with (s * d) by ring.
  rewrite exp_Ropp. pose proof (exp_pos (s * d)) as He.
  set (t := exp (s * d)) in *. clearbody t. field. lra.
Qed.

Lemma Sigmoid_spec (i s h x : R) : Sigmoid_valid i s h ->
  Sigmoid_membership i s h x = h * Sigmoid_shape i s x.
Proof. intros _. apply Sigmoid_eq. Qed.
Lemma Sigmoid_range (i s h x : R) : Sigmoid_valid i s h -> 0 <= Sigmoid_membership i s h x <= h.
Proof.
  intros [Hh _]. rewrite Sigmoid_eq. apply scaleB_range; [exact Hh | apply Sigmoid_shape_range].
Qed.
Lemma Sigmoid_at_inflection (i s h : R) : Sigmoid_membership i s h i = h / 2.
Proof. rewrite Sigmoid_eq, Sigmoid_shape_at_inflection. lra. Qed.
Lemma Sigmoid_mono_inc (i s h x y : R) : Sigmoid_valid i s h -> 0 <= s -> x <= y ->
  Sigmoid_membership i s h x <= Sigmoid_membership i s h y.
Proof.
  intros [Hh _] Hs Hxy. rewrite !Sigmoid_eq. apply scaleB_mono; [exact Hh |].
  apply Sigmoid_shape_mono_inc; assumption.
Qed.
Lemma Sigmoid_mono_dec (i s h x y : R) : Sigmoid_valid i s h -> s <= 0 -> x <= y ->
  Sigmoid_membership i s h y <= Sigmoid_membership i s h x.
Proof.
  intros [Hh _] Hs Hxy. rewrite !Sigmoid_eq. apply scaleB_mono; [exact Hh |].
  apply Sigmoid_shape_mono_dec; assumption.
Qed.
Lemma Sigmoid_strict_inc (i s h x y : R) : Sigmoid_valid i s h -> 0 < s -> x < y ->
  Sigmoid_membership i s h x < Sigmoid_membership i s h y.
Proof.
  intros [Hh _] Hs Hxy. rewrite !Sigmoid_eq. apply Rmult_lt_compat_l; [exact Hh |].
  apply Sigmoid_shape_strict_inc; assumption.
Qed.
Lemma Sigmoid_strict_dec (i s h x y : R) : Sigmoid_valid i s h -> s < 0 -> x < y ->
  Sigmoid_membership i s h y < Sigmoid_membership i s h x.
Proof.
  intros [Hh _] Hs Hxy. rewrite !Sigmoid_eq. apply Rmult_lt_compat_l; [exact Hh |].
  apply Sigmoid_shape_strict_dec; assumption.
Qed.

(* "monotone in x": one of the two directions, for all pairs *)
Definition monotoneB (f : R -> R) : Prop :=
  (forall x y, x <= y -> f x <= f y) \/ (forall x y, x <= y -> f y <= f x).
Lemma Sigmoid_monotone (i s h : R) : Sigmoid_valid i s h -> monotoneB (Sigmoid_membership i s h).
Proof.
  intros Hv. destruct (Rle_dec 0 s) as [Hs | Hs].
  - left; intros x y Hxy. apply Sigmoid_mono_inc; assumption.
  - right; intros x y Hxy. apply Sigmoid_mono_dec; [exact Hv | lra | exact Hxy].
Qed.

(* ================================================================ SigmoidProduct *)
Lemma SigmoidProduct_eq (l r f rt h x : R) :
  SigmoidProduct_membership l r f rt h x = h * SigmoidProduct_shape l r f rt x.
Proof. openTB; unspecTB; branchR. Qed.

Lemma SigmoidProduct_shape_bounds (l r f rt x : R) : 0 < SigmoidProduct_shape l r f rt x < 1.
Proof.
  unfold SigmoidProduct_shape.
  pose proof (Sigmoid_shape_bounds l r x) as Ha. pose proof (Sigmoid_shape_bounds rt f x) as Hb.
  set (a := Sigmoid_shape l r x) in *. set (b := Sigmoid_shape rt f x) in *. clearbody a b.
  split; nra.
Qed.
Lemma SigmoidProduct_shape_range (l r f rt x : R) : 0 <= SigmoidProduct_shape l r f rt x <= 1.
Proof. pose proof (SigmoidProduct_shape_bounds l r f rt x). lra. Qed.

Lemma SigmoidProduct_spec (l r f rt h x : R) : SigmoidProduct_valid l r f rt h ->
  SigmoidProduct_membership l r f rt h x = h * SigmoidProduct_shape l r f rt x.
Proof. intros _. apply SigmoidProduct_eq. Qed.
Lemma SigmoidProduct_as_Sigmoids (l r f rt h x : R) :
  SigmoidProduct_membership l r f rt h x = h * (Sigmoid_membership l r 1 x * Sigmoid_membership rt f 1 x).
Proof. rewrite SigmoidProduct_eq, !Sigmoid_eq. unfold SigmoidProduct_shape. ring. Qed.
Lemma SigmoidProduct_range (l r f rt h x : R) : SigmoidProduct_valid l r f rt h ->
  0 <= SigmoidProduct_membership l r f rt h x <= h.
Proof.
  intros [Hh _]. rewrite SigmoidProduct_eq. apply scaleB_range; [exact Hh | apply SigmoidProduct_shape_range].
Qed.

(* ================================================================ SigmoidDifference *)
Lemma SigmoidDifference_eq (l r f rt h x : R) :
  SigmoidDifference_membership l r f rt h x = h * SigmoidDifference_shape l r f rt x.
Proof. openTB; unspecTB; branchR. Qed.

Lemma SigmoidDifference_shape_range (l r f rt x : R) : 0 <= SigmoidDifference_shape l r f rt x <= 1.
Proof.
  unfold SigmoidDifference_shape.
  pose proof (Sigmoid_shape_bounds l r x) as Ha. pose proof (Sigmoid_shape_bounds rt f x) as Hb.
  set (a := Sigmoid_shape l r x) in *. set (b := Sigmoid_shape rt f x) in *. clearbody a b.
  split; [apply Rabs_pos |]. apply Rabs_le. lra.
Qed.
(* the docstring's h (a - b) is what the code computes exactly where a >= b ... *)
Lemma SigmoidDifference_doc_agrees (l r f rt x : R) :
  Sigmoid_shape rt f x <= Sigmoid_shape l r x ->
  SigmoidDifference_shape l r f rt x = SigmoidDifference_shape_doc l r f rt x.
Proof.
  intros H. unfold SigmoidDifference_shape, SigmoidDifference_shape_doc. apply Rabs_pos_eq. lra.
Qed.
(* ... e.g. for the usual configuration: equal non-negative slopes, left <= right *)
Lemma SigmoidDifference_doc_agrees_usual (l k rt x : R) : 0 <= k -> l <= rt ->
  SigmoidDifference_shape l k k rt x = SigmoidDifference_shape_doc l k k rt x.
Proof.
  intros Hk Hlr. apply SigmoidDifference_doc_agrees. unfold Sigmoid_shape. apply inv_anti.
  - pose proof (exp_pos (- k * (x - l))). lra.
  - apply Rplus_le_compat_l. apply exp_le_mono. nra.
Qed.
(* ... and differs from it (by the sign) where a < b *)
Lemma SigmoidDifference_doc_differs_where (l r f rt x : R) :
  Sigmoid_shape l r x < Sigmoid_shape rt f x ->
  SigmoidDifference_shape l r f rt x = - SigmoidDifference_shape_doc l r f rt x
  /\ SigmoidDifference_shape_doc l r f rt x < 0.
Proof.
  intros H. unfold SigmoidDifference_shape, SigmoidDifference_shape_doc.
  split; [apply Rabs_left; lra | lra].
Qed.
(* witness: left 0, rising 1, falling 1, right -1 (valid, height 1), x = 0 : the documented value
   1/2 - 1/(1+e^-1) is negative, the code returns its absolute value *)
Lemma SigmoidDifference_doc_differs :
  exists l r f rt h x, SigmoidDifference_valid l r f rt h /\
    SigmoidDifference_membership l r f rt h x <> h * SigmoidDifference_shape_doc l r f rt x
    /\ h * SigmoidDifference_shape_doc l r f rt x < 0.
Proof.
  exists 0, 1, 1, (-1), 1, 0.
  assert (Hlt : Sigmoid_shape 0 1 0 < Sigmoid_shape (-1) 1 0).
  { rewrite (Sigmoid_shape_at_inflection 0 1). rewrite <- (Sigmoid_shape_at_inflection (-1) 1).
    apply Sigmoid_shape_strict_inc; lra. }
  destruct (SigmoidDifference_doc_differs_where 0 1 1 (-1) 0 Hlt) as [Heq Hneg].
  split; [unfold SigmoidDifference_valid; lra |].
  rewrite SigmoidDifference_eq, Heq. lra.
Qed.

Lemma SigmoidDifference_spec (l r f rt h x : R) : SigmoidDifference_valid l r f rt h ->
  SigmoidDifference_membership l r f rt h x = h * SigmoidDifference_shape l r f rt x.
Proof. intros _. apply SigmoidDifference_eq. Qed.
Lemma SigmoidDifference_as_Sigmoids (l r f rt h x : R) :
  SigmoidDifference_membership l r f rt h x =
  h * Rabs (Sigmoid_membership l r 1 x - Sigmoid_membership rt f 1 x).
Proof. rewrite SigmoidDifference_eq, !Sigmoid_eq, !Rmult_1_l. reflexivity. Qed.
Lemma SigmoidDifference_range (l r f rt h x : R) : SigmoidDifference_valid l r f rt h ->
  0 <= SigmoidDifference_membership l r f rt h x <= h.
Proof.
  intros [Hh _]. rewrite SigmoidDifference_eq. apply scaleB_range; [exact Hh | apply SigmoidDifference_shape_range].
Qed.

(* ================================================================ Spike *)
Lemma Spike_eq (c w h x : R) : Spike_membership c w h x = h * Spike_shape c w x.
Proof. openTB; unspecTB; branchR. Qed.

Lemma Spike_shape_range (c w x : R) : 0 <= Spike_shape c w x <= 1.
Proof. unfold Spike_shape. apply exp_unit. pose proof (Rabs_pos (10 / w * (x - c))). lra. Qed.
Lemma Spike_shape_at_center (c w : R) : Spike_shape c w c = 1.
Proof.
  unfold Spike_shape. replace (10 / w * (c - c)) with 0 by (unfold Rdiv; ring).
  rewrite Rabs_R0, Ropp_0. apply exp_0.
Qed.
Lemma Spike_shape_symm (c w d : R) : Spike_shape c w (c + d) = Spike_shape c w (c - d).
Proof.
  unfold Spike_shape. f_equal. f_equal.
  replace (10 / w * (c - d - c)) with (- (10 / w * (c + d - c))) by (unfold Rdiv; ring).
  symmetry; apply Rabs_Ropp.
Qed.
(* closed form without the inner absolute value of w: exp(-10 |x - c| / |w|) *)
Lemma Spike_shape_alt (c w x : R) : w <> 0 -> Spike_shape c w x = exp (- (10 * Rabs (x - c) / Rabs w)).
Proof.
  intros Hw. unfold Spike_shape. f_equal. f_equal.
  rewrite Rabs_mult. unfold Rdiv. rewrite Rabs_mult, Rabs_inv.
  rewrite (Rabs_pos_eq 10) by lra. ring.
Qed.
(* further from the centre = lower *)
Lemma Spike_shape_closer (c w x y : R) : w <> 0 -> Rabs (y - c) <= Rabs (x - c) ->
  Spike_shape c w x <= Spike_shape c w y.
Proof.
  intros Hw Hxy. rewrite !Spike_shape_alt by exact Hw. apply exp_le_mono.
  assert (Hp : 0 < / Rabs w) by (apply Rinv_0_lt_compat, Rabs_pos_lt; exact Hw).
  unfold Rdiv. nra.
Qed.

Lemma Spike_spec (c w h x : R) : Spike_valid c w h -> Spike_membership c w h x = h * Spike_shape c w x.
Proof. intros _. apply Spike_eq. Qed.
Lemma Spike_range (c w h x : R) : Spike_valid c w h -> 0 <= Spike_membership c w h x <= h.
Proof. intros [_ [Hh _]]. rewrite Spike_eq. apply scaleB_range; [exact Hh | apply Spike_shape_range]. Qed.
Lemma Spike_at_center (c w h : R) : Spike_membership c w h c = h.
Proof. rewrite Spike_eq, Spike_shape_at_center. ring. Qed.
Lemma Spike_symm (c w h d : R) : Spike_membership c w h (c + d) = Spike_membership c w h (c - d).
Proof. rewrite !Spike_eq, Spike_shape_symm. reflexivity. Qed.
Lemma Spike_closer (c w h x y : R) : Spike_valid c w h -> Rabs (y - c) <= Rabs (x - c) ->
  Spike_membership c w h x <= Spike_membership c w h y.
Proof.
  intros [Hw [Hh _]] Hxy. rewrite !Spike_eq. apply scaleB_mono; [exact Hh |].
  apply Spike_shape_closer; assumption.
Qed.

(* ================================================================ Cosine *)
Lemma Cosine_eq (c w h x : R) : Cosine_membership c w h x = h * Cosine_shape c w x.
Proof. openTB; unspecTB; splitdecTB; branchR. Qed.

Lemma Cosine_shape_range (c w x : R) : 0 <= Cosine_shape c w x <= 1.
Proof.
  unfold Cosine_shape. pose proof (COS_bound (2 / w * PI * (x - c))).
  destruct (Rle_dec (c - w / 2) x); [destruct (Rle_dec x (c + w / 2)) |]; lra.
Qed.
Lemma Cosine_shape_inside (c w x : R) : c - w / 2 <= x <= c + w / 2 ->
  Cosine_shape c w x = 1 / 2 * (1 + cos (2 / w * PI * (x - c))).
Proof.
  intros [H1 H2]. unfold Cosine_shape.
  destruct (Rle_dec (c - w / 2) x); [destruct (Rle_dec x (c + w / 2)) |]; [reflexivity | lra | lra].
Qed.
Lemma Cosine_shape_outside (c w x : R) : x < c - w / 2 \/ c + w / 2 < x -> Cosine_shape c w x = 0.
Proof.
  intros H. unfold Cosine_shape.
  destruct (Rle_dec (c - w / 2) x); [destruct (Rle_dec x (c + w / 2)) |]; [lra | reflexivity | reflexivity].
Qed.
Lemma Cosine_shape_at_center (c w : R) : 0 < w -> Cosine_shape c w c = 1.
Proof.
  intros Hw. rewrite Cosine_shape_inside by lra.
  replace (2 / w * PI * (c - c)) with 0 by (unfold Rdiv; ring). rewrite cos_0. lra.
Qed.
Lemma Cosine_shape_at_right (c w : R) : 0 < w -> Cosine_shape c w (c + w / 2) = 0.
Proof.
  intros Hw. rewrite Cosine_shape_inside by lra.
  replace (2 / w * PI * (c + w / 2 - c)) with PI by (field; lra). rewrite cos_PI. lra.
Qed.
Lemma Cosine_shape_at_left (c w : R) : 0 < w -> Cosine_shape c w (c - w / 2) = 0.
Proof.
  intros Hw. rewrite Cosine_shape_inside by lra.
  replace (2 / w * PI * (c - w / 2 - c)) with (- PI) by (field; lra). rewrite cos_neg, cos_PI. lra.
Qed.
Lemma Cosine_shape_symm (c w d : R) : 0 < w -> Cosine_shape c w (c + d) = Cosine_shape c w (c - d).
Proof.
  intros Hw. unfold Cosine_shape.
  replace (2 / w * PI * (c - d - c)) with (- (2 / w * PI * (c + d - c))) by (unfold Rdiv; ring).
  rewrite cos_neg. splitdecTB; first [reflexivity | exfalso; lra].
Qed.

Lemma Cosine_spec (c w h x : R) : Cosine_valid c w h -> Cosine_membership c w h x = h * Cosine_shape c w x.
Proof. intros _. apply Cosine_eq. Qed.
Lemma Cosine_range (c w h x : R) : Cosine_valid c w h -> 0 <= Cosine_membership c w h x <= h.
Proof. intros [_ [Hh _]]. rewrite Cosine_eq. apply scaleB_range; [exact Hh | apply Cosine_shape_range]. Qed.
Lemma Cosine_at_center (c w h : R) : Cosine_valid c w h -> Cosine_membership c w h c = h.
Proof. intros [Hw _]. rewrite Cosine_eq, Cosine_shape_at_center by exact Hw. ring. Qed.
Lemma Cosine_at_right (c w h : R) : Cosine_valid c w h -> Cosine_membership c w h (c + w / 2) = 0.
Proof. intros [Hw _]. rewrite Cosine_eq, Cosine_shape_at_right by exact Hw. ring. Qed.
Lemma Cosine_at_left (c w h : R) : Cosine_valid c w h -> Cosine_membership c w h (c - w / 2) = 0.
Proof. intros [Hw _]. rewrite Cosine_eq, Cosine_shape_at_left by exact Hw. ring. Qed.
Lemma Cosine_outside (c w h x : R) : x < c - w / 2 \/ c + w / 2 < x -> Cosine_membership c w h x = 0.
Proof. intros H. rewrite Cosine_eq, Cosine_shape_outside by exact H. ring. Qed.

(* ================================================================ Bell *)
Lemma Rabs_quot (a b : R) : Rabs (a / b) = Rabs a / Rabs b.
Proof. unfold Rdiv. rewrite Rabs_mult, Rabs_inv. reflexivity. Qed.
Lemma Bell_eq (c w s h x : R) : Bell_membership c w s h x = h * Bell_shape c w s x.
Proof. openTB; unspecTB; rewrite ?Rabs_quot; branchR. Qed.

Lemma Bell_shape_bounds (c w s x : R) : 0 < Bell_shape c w s x <= 1.
Proof.
  unfold Bell_shape. apply inv_unit. pose proof (Rpow_nonneg (Rabs (x - c) / Rabs w) (2 * s)). lra.
Qed.
Lemma Bell_shape_range (c w s x : R) : 0 <= Bell_shape c w s x <= 1.
Proof. pose proof (Bell_shape_bounds c w s x). lra. Qed.
Lemma Bell_shape_at_center (c w s : R) : 0 < s -> Bell_shape c w s c = 1.
Proof.
  intros Hs. unfold Bell_shape. replace (c - c) with 0 by ring. rewrite Rabs_R0.
  replace (0 / Rabs w) with 0 by (unfold Rdiv; ring). rewrite Rpow_0_l by lra. lra.
Qed.
(* crossover points: h/2 at center +- width, whatever the slope *)
Lemma Bell_shape_at_width (c w s : R) : w <> 0 -> Bell_shape c w s (c + w) = 1 / 2.
Proof.
  intros Hw. unfold Bell_shape. replace (c + w - c) with w by ring.
  replace (Rabs w / Rabs w) with 1 by (field; apply Rabs_no_R0; exact Hw). rewrite Rpow_1_l. lra.
Qed.
Lemma Bell_shape_symm (c w s d : R) : Bell_shape c w s (c + d) = Bell_shape c w s (c - d).
Proof.
  unfold Bell_shape. replace (c + d - c) with d by ring. replace (c - d - c) with (- d) by ring.
  rewrite Rabs_Ropp. reflexivity.
Qed.
(* the literal docstring (|x-c| / w, not |w|) is the same function for a positive width *)
Lemma Bell_shape_doc_eq (c w s x : R) : 0 < w -> Bell_shape c w s x = Bell_shape_doc c w s x.
Proof. intros Hw. unfold Bell_shape, Bell_shape_doc. rewrite (Rabs_pos_eq w) by lra. reflexivity. Qed.
(* slope 0: the constant h/2 away from the centre... and (0^0 = 1) at the centre *)
Lemma Bell_shape_flat (c w x : R) : Bell_shape c w 0 x = 1 / 2.
Proof.
  unfold Bell_shape. replace (2 * 0) with 0 by ring.
  assert (H : forall a, Rpow a 0 = 1).
  { intros a. unfold Rpow. destruct (Req_EM_T a 0); [destruct (Req_EM_T 0 0); [reflexivity | lra] |].
    unfold Rpower. rewrite Rmult_0_l. apply exp_0. }
  rewrite H. lra.
Qed.

Lemma Bell_spec (c w s h x : R) : Bell_valid c w s h -> Bell_dom c s x ->
  Bell_membership c w s h x = h * Bell_shape c w s x.
Proof. intros _ _. apply Bell_eq. Qed.
Lemma Bell_range (c w s h x : R) : Bell_valid c w s h -> Bell_dom c s x ->
  0 <= Bell_membership c w s h x <= h.
Proof.
  intros [Hw [Hh _]] _. rewrite Bell_eq. apply scaleB_range; [exact Hh | apply Bell_shape_range].
Qed.
Lemma Bell_at_center (c w s h : R) : Bell_valid c w s h -> 0 < s -> Bell_membership c w s h c = h.
Proof. intros [Hw _] Hs. rewrite Bell_eq. rewrite Bell_shape_at_center by exact Hs. ring. Qed.
Lemma Bell_at_width_right (c w s h : R) : Bell_valid c w s h -> Bell_membership c w s h (c + w) = h / 2.
Proof. intros [Hw _]. rewrite Bell_eq. rewrite Bell_shape_at_width by exact Hw. lra. Qed.
Lemma Bell_at_width_left (c w s h : R) : Bell_valid c w s h -> Bell_membership c w s h (c - w) = h / 2.
Proof.
  intros [Hw _]. rewrite Bell_eq.
  rewrite <- Bell_shape_symm, Bell_shape_at_width by exact Hw. lra.
Qed.
Lemma Bell_symm (c w s h d : R) : Bell_valid c w s h ->
  Bell_membership c w s h (c + d) = Bell_membership c w s h (c - d).
Proof. intros [Hw _]. rewrite !Bell_eq. rewrite Bell_shape_symm. reflexivity. Qed.

(* ================================================================ SemiEllipse *)
(* Python's min/max as the generated code spells them (pymin/pymax at NumR) *)
Lemma pymin_R (a b : R) : (if Rltb b a then b else a) = Rmin a b.
Proof. unfold Rmin. destruct (Rltb_spec b a); destruct (Rle_dec a b); lra. Qed.
Lemma pymax_R (a b : R) : (if Rltb a b then b else a) = Rmax a b.
Proof. unfold Rmax. destruct (Rltb_spec a b); destruct (Rle_dec a b); lra. Qed.
(* the code's radicand (x - lo)(hi - x) is the documented r² - (x - c)² *)
Lemma SemiEllipse_radicand (lo hi x : R) :
  ((hi - lo) / 2)² - (x - (lo + hi) / 2)² = (x - lo) * (hi - x).
Proof. unfold Rsqr. field. Qed.
Lemma SemiEllipse_eq (s e h x : R) : SemiEllipse_membership s e h x = h * SemiEllipse_shape s e x.
Proof.
  ungenTB; unR; unspecTB. rewrite ?pymin_R, ?pymax_R.
  set (lo := Rmin s e). set (hi := Rmax s e). clearbody lo hi.
  (* the radicand (code: (x - lo)(hi - x); docstring: r² - (x - c)²) is reconciled by closeR *)
  splitR; splitdecTB; branchR.
Qed.

Lemma SemiEllipse_shape_range (s e x : R) : s <> e -> 0 <= SemiEllipse_shape s e x <= 1.
Proof.
  intros Hse. unfold SemiEllipse_shape.
  assert (Hr : 0 < (Rmax s e - Rmin s e) / 2).
  { unfold Rmax, Rmin. destruct (Rle_dec s e); lra. }
  set (r := (Rmax s e - Rmin s e) / 2) in *. set (c := (Rmin s e + Rmax s e) / 2).
  destruct (Rle_dec (Rmin s e) x); [destruct (Rle_dec x (Rmax s e)) |]; try lra.
  pose proof (circ_unit r (x - c) ltac:(lra)) as H. rewrite (Rabs_pos_eq r) in H by lra. exact H.
Qed.
Lemma SemiEllipse_shape_at_start (s e : R) : s <> e -> SemiEllipse_shape s e s = 0.
Proof.
  intros Hse. unfold SemiEllipse_shape.
  destruct (Rle_dec (Rmin s e) s) as [_ | H]; [| exfalso; apply H, Rmin_l].
  destruct (Rle_dec s (Rmax s e)) as [_ | H]; [| exfalso; apply H, Rmax_l].
  rewrite circ_zero; [unfold Rdiv; ring |].
  unfold Rmax, Rmin, Rsqr; destruct (Rle_dec s e); field.
Qed.
Lemma SemiEllipse_shape_at_end (s e : R) : s <> e -> SemiEllipse_shape s e e = 0.
Proof.
  intros Hse. unfold SemiEllipse_shape.
  destruct (Rle_dec (Rmin s e) e) as [_ | H]; [| exfalso; apply H, Rmin_r].
  destruct (Rle_dec e (Rmax s e)) as [_ | H]; [| exfalso; apply H, Rmax_r].
  rewrite circ_zero; [unfold Rdiv; ring |].
  unfold Rmax, Rmin, Rsqr; destruct (Rle_dec s e); field.
Qed.
Lemma SemiEllipse_shape_at_center (s e : R) : s <> e -> SemiEllipse_shape s e ((s + e) / 2) = 1.
Proof.
  intros Hse. unfold SemiEllipse_shape.
  assert (Hr : 0 < (Rmax s e - Rmin s e) / 2).
  { unfold Rmax, Rmin. destruct (Rle_dec s e); lra. }
  assert (Hc : (Rmin s e + Rmax s e) / 2 = (s + e) / 2).
  { unfold Rmax, Rmin. destruct (Rle_dec s e); lra. }
  rewrite Hc.
  destruct (Rle_dec (Rmin s e) ((s + e) / 2)) as [_ | H];
    [| exfalso; apply H; unfold Rmin; destruct (Rle_dec s e); lra].
  destruct (Rle_dec ((s + e) / 2) (Rmax s e)) as [_ | H];
    [| exfalso; apply H; unfold Rmax; destruct (Rle_dec s e); lra].
  set (r := (Rmax s e - Rmin s e) / 2) in *.
  replace ((s + e) / 2 - (s + e) / 2) with 0 by ring.
  pose proof (circ_full r ltac:(lra)) as H. rewrite (Rabs_pos_eq r) in H by lra. exact H.
Qed.
Lemma SemiEllipse_shape_outside (s e x : R) : x < Rmin s e \/ Rmax s e < x -> SemiEllipse_shape s e x = 0.
Proof.
  intros H. unfold SemiEllipse_shape.
  destruct (Rle_dec (Rmin s e) x); [destruct (Rle_dec x (Rmax s e)) |]; [lra | reflexivity | reflexivity].
Qed.
(* the order of start and end is immaterial *)
Lemma SemiEllipse_shape_swap (s e x : R) : SemiEllipse_shape s e x = SemiEllipse_shape e s x.
Proof. unfold SemiEllipse_shape. rewrite (Rmin_comm s e), (Rmax_comm s e). reflexivity. Qed.

Lemma SemiEllipse_spec (s e h x : R) : SemiEllipse_valid s e h ->
  SemiEllipse_membership s e h x = h * SemiEllipse_shape s e x.
Proof. intros _. apply SemiEllipse_eq. Qed.
Lemma SemiEllipse_range (s e h x : R) : SemiEllipse_valid s e h -> 0 <= SemiEllipse_membership s e h x <= h.
Proof.
  intros [Hse [Hh _]]. rewrite SemiEllipse_eq. apply scaleB_range; [exact Hh |].
  apply SemiEllipse_shape_range; exact Hse.
Qed.
Lemma SemiEllipse_at_start (s e h : R) : SemiEllipse_valid s e h -> SemiEllipse_membership s e h s = 0.
Proof. intros [Hse _]. rewrite SemiEllipse_eq, SemiEllipse_shape_at_start by exact Hse. ring. Qed.
Lemma SemiEllipse_at_end (s e h : R) : SemiEllipse_valid s e h -> SemiEllipse_membership s e h e = 0.
Proof. intros [Hse _]. rewrite SemiEllipse_eq, SemiEllipse_shape_at_end by exact Hse. ring. Qed.
Lemma SemiEllipse_at_center (s e h : R) : SemiEllipse_valid s e h ->
  SemiEllipse_membership s e h ((s + e) / 2) = h.
Proof. intros [Hse _]. rewrite SemiEllipse_eq, SemiEllipse_shape_at_center by exact Hse. ring. Qed.
Lemma SemiEllipse_outside (s e h x : R) : x < Rmin s e \/ Rmax s e < x -> SemiEllipse_membership s e h x = 0.
Proof. intros H. rewrite SemiEllipse_eq, SemiEllipse_shape_outside by exact H. ring. Qed.
Lemma SemiEllipse_swap (s e h x : R) : SemiEllipse_membership s e h x = SemiEllipse_membership e s h x.
Proof. rewrite !SemiEllipse_eq, SemiEllipse_shape_swap. reflexivity. Qed.

(* ================================================================ Arc *)
Lemma Arc_eq (s e h x : R) : s <> e -> Arc_membership s e h x = h * Arc_shape s e x.
Proof.
  intros Hse. ungenTB. unR. unspecTB.
  (* direction first: it prunes the case tree *)
  destruct (Rltb_spec e s); destruct (Rltb_spec s e); destruct (Rlt_dec s e); try (exfalso; lra);
  cbn [andb orb]; splitR; splitdecTB; branchR.
Qed.

Lemma Arc_curve_range (s e x : R) : s <> e -> 0 <= Arc_curve s e x <= 1.
Proof. intros Hse. unfold Arc_curve. apply circ_unit. lra. Qed.
Lemma Arc_shape_range (s e x : R) : s <> e -> 0 <= Arc_shape s e x <= 1.
Proof.
  intros Hse. pose proof (Arc_curve_range s e x Hse). unfold Arc_shape. splitdecTB; lra.
Qed.
Lemma Arc_curve_at_end (s e : R) : s <> e -> Arc_curve s e e = 1.
Proof. intros Hse. unfold Arc_curve. replace (e - e) with 0 by ring. apply circ_full. lra. Qed.
Lemma Arc_curve_at_start (s e : R) : s <> e -> Arc_curve s e s = 0.
Proof.
  intros Hse. unfold Arc_curve. rewrite circ_zero; [unfold Rdiv; ring | unfold Rsqr; ring].
Qed.
Lemma Arc_shape_at_end (s e : R) : s <> e -> Arc_shape s e e = 1.
Proof.
  intros Hse. pose proof (Arc_curve_at_end s e Hse). unfold Arc_shape. splitdecTB; lra.
Qed.
Lemma Arc_shape_at_start (s e : R) : s <> e -> Arc_shape s e s = 0.
Proof.
  intros Hse. pose proof (Arc_curve_at_start s e Hse). unfold Arc_shape. splitdecTB; lra.
Qed.
Lemma Arc_shape_beyond_end (s e x : R) : (s < e /\ e <= x) \/ (e < s /\ x <= e) -> Arc_shape s e x = 1.
Proof.
  intros H. assert (Hse : s <> e) by lra. pose proof (Arc_curve_at_end s e Hse) as Hc.
  unfold Arc_shape. splitdecTB; try lra.
  - replace x with e by lra. exact Hc.
  - replace x with e by lra. exact Hc.
Qed.
Lemma Arc_shape_before_start (s e x : R) : (s < e /\ x <= s) \/ (e < s /\ s <= x) -> Arc_shape s e x = 0.
Proof.
  intros H. assert (Hse : s <> e) by lra. pose proof (Arc_curve_at_start s e Hse) as Hc.
  unfold Arc_shape. splitdecTB; try lra.
  - replace x with s by lra. exact Hc.
  - replace x with s by lra. exact Hc.
Qed.
(* the curve rises towards `end` from either side *)
Lemma Arc_curve_closer (s e x y : R) : s <> e -> (y - e)² <= (x - e)² -> Arc_curve s e x <= Arc_curve s e y.
Proof.
  intros Hse H. unfold Arc_curve. apply div_le_mono; [apply Rabs_pos_lt; lra |].
  apply circ_anti. exact H.
Qed.
Lemma Arc_shape_mono_inc (s e x y : R) : s < e -> x <= y -> Arc_shape s e x <= Arc_shape s e y.
Proof.
  intros Hse Hxy. assert (Hne : s <> e) by lra.
  pose proof (Arc_curve_range s e x Hne) as Rx. pose proof (Arc_curve_range s e y Hne) as Ry.
  unfold Arc_shape. splitdecTB; try lra.
  apply Arc_curve_closer; [exact Hne |]. unfold Rsqr. nra.
Qed.
Lemma Arc_shape_mono_dec (s e x y : R) : e < s -> x <= y -> Arc_shape s e y <= Arc_shape s e x.
Proof.
  intros Hse Hxy. assert (Hne : s <> e) by lra.
  pose proof (Arc_curve_range s e x Hne) as Rx. pose proof (Arc_curve_range s e y Hne) as Ry.
  unfold Arc_shape. splitdecTB; try lra.
  apply Arc_curve_closer; [exact Hne |]. unfold Rsqr. nra.
Qed.

Lemma Arc_spec (s e h x : R) : Arc_valid s e h -> Arc_membership s e h x = h * Arc_shape s e x.
Proof. intros [Hse _]. apply Arc_eq; exact Hse. Qed.
Lemma Arc_range (s e h x : R) : Arc_valid s e h -> 0 <= Arc_membership s e h x <= h.
Proof.
  intros [Hse [Hh _]]. rewrite Arc_eq by exact Hse. apply scaleB_range; [exact Hh |].
  apply Arc_shape_range; exact Hse.
Qed.
Lemma Arc_at_end (s e h : R) : Arc_valid s e h -> Arc_membership s e h e = h.
Proof. intros [Hse _]. rewrite Arc_eq by exact Hse. rewrite Arc_shape_at_end by exact Hse. ring. Qed.
Lemma Arc_at_start (s e h : R) : Arc_valid s e h -> Arc_membership s e h s = 0.
Proof. intros [Hse _]. rewrite Arc_eq by exact Hse. rewrite Arc_shape_at_start by exact Hse. ring. Qed.
Lemma Arc_beyond_end (s e h x : R) : (s < e /\ e <= x) \/ (e < s /\ x <= e) -> Arc_membership s e h x = h.
Proof.
  intros H. rewrite Arc_eq by lra. rewrite Arc_shape_beyond_end by exact H. ring.
Qed.
Lemma Arc_before_start (s e h x : R) : (s < e /\ x <= s) \/ (e < s /\ s <= x) -> Arc_membership s e h x = 0.
Proof.
  intros H. rewrite Arc_eq by lra. rewrite Arc_shape_before_start by exact H. ring.
Qed.
Lemma Arc_mono_inc (s e h x y : R) : Arc_valid s e h -> s < e -> x <= y ->
  Arc_membership s e h x <= Arc_membership s e h y.
Proof.
  intros [Hne [Hh _]] Hse Hxy. rewrite !Arc_eq by exact Hne. apply scaleB_mono; [exact Hh |].
  apply Arc_shape_mono_inc; assumption.
Qed.
Lemma Arc_mono_dec (s e h x y : R) : Arc_valid s e h -> e < s -> x <= y ->
  Arc_membership s e h y <= Arc_membership s e h x.
Proof.
  intros [Hne [Hh _]] Hse Hxy. rewrite !Arc_eq by exact Hne. apply scaleB_mono; [exact Hh |].
  apply Arc_shape_mono_dec; assumption.
Qed.
Lemma Arc_monotone (s e h : R) : Arc_valid s e h -> monotoneB (Arc_membership s e h).
Proof.
  intros Hv. pose proof Hv as [Hne _]. destruct (Rlt_dec s e) as [Hse | Hse].
  - left; intros x y Hxy. apply Arc_mono_inc; assumption.
  - right; intros x y Hxy. apply Arc_mono_dec; [exact Hv | lra | exact Hxy].
Qed.

(* ================================================================ the group as a whole
   (statements on the generated dispatcher shape_membership / shape_monotonic / shape_height) *)
Definition shapeB_ok (sh : shape R) (x : R) : Prop :=
  match sh with
  | Sh_Arc s e h => Arc_valid s e h
  | Sh_SemiEllipse s e h => SemiEllipse_valid s e h
  | Sh_Bell c w s h => Bell_valid c w s h /\ Bell_dom c s x
  | Sh_Cosine c w h => Cosine_valid c w h
  | Sh_Gaussian m sd h => Gaussian_valid m sd h
  | Sh_GaussianProduct ma sa mb sb h => GaussianProduct_valid ma sa mb sb h
  | Sh_Sigmoid i s h => Sigmoid_valid i s h
  | Sh_SigmoidDifference l r f rt h => SigmoidDifference_valid l r f rt h
  | Sh_SigmoidProduct l r f rt h => SigmoidProduct_valid l r f rt h
  | Sh_Spike c w h => Spike_valid c w h
  | _ => False
  end.
Lemma shapeB_range (sh : shape R) (x : R) : shapeB_ok sh x ->
  0 <= shape_membership sh x <= shape_height sh.
Proof.
  destruct sh; cbn [shapeB_ok shape_membership shape_height]; intros Hv; try contradiction.
  - apply Arc_range; exact Hv.
  - destruct Hv as [Hv Hd]. apply Bell_range; assumption.
  - apply Cosine_range; exact Hv.
  - apply Gaussian_range; exact Hv.
  - apply GaussianProduct_range; exact Hv.
  - apply SemiEllipse_range; exact Hv.
  - apply Sigmoid_range; exact Hv.
  - apply SigmoidDifference_range; exact Hv.
  - apply SigmoidProduct_range; exact Hv.
  - apply Spike_range; exact Hv.
Qed.
(* every term of the group that declares itself monotonic is monotone *)
Lemma shapeB_monotone (sh : shape R) : (forall x, shapeB_ok sh x) -> shape_monotonic sh = true ->
  monotoneB (shape_membership sh).
Proof.
  destruct sh; cbn [shapeB_ok shape_membership shape_monotonic]; intros Hv Hm;
    try discriminate Hm; try (exfalso; exact (Hv 0)).
  - apply Arc_monotone. exact (Hv 0).
  - apply Sigmoid_monotone. exact (Hv 0).
Qed.
(* ... and these are exactly Arc and Sigmoid *)
Lemma shapeB_monotonic_iff (sh : shape R) : (exists x, shapeB_ok sh x) ->
  (shape_monotonic sh = true <-> (exists s e h, sh = Sh_Arc s e h) \/ (exists i s h, sh = Sh_Sigmoid i s h)).
Proof.
  intros [x Hv]. destruct sh; cbn [shapeB_ok] in Hv; try contradiction; cbn [shape_monotonic]; split; intros H;
    try discriminate H; try reflexivity;
    try (destruct H as [[? [? [? H]]] | [? [? [? H]]]]; discriminate H).
  - left; eauto.
  - right; eauto.
Qed.

(* ================================================================ concrete instances (non-vacuity):
   valid parameters, non-unit height, a non-trivial value *)
Lemma Arc_ex_rising : Arc_valid 0 5 (1 / 2) /\ Arc_membership 0 5 (1 / 2) 1 = 3 / 10.
Proof.
  split; [unfold Arc_valid; lra |]. rewrite Arc_eq by lra. unfold Arc_shape.
  destruct (Rlt_dec 0 5); [| lra]. destruct (Rlt_dec 1 0); [lra |]. destruct (Rle_dec 1 5); [| lra].
  unfold Arc_curve. replace ((5 - 0)² - (1 - 5)²) with (3 * 3) by (unfold Rsqr; ring).
  rewrite sqrt_square by lra. rewrite Rabs_pos_eq by lra. lra.
Qed.
Lemma Arc_ex_falling : Arc_valid 5 0 (1 / 2) /\ Arc_membership 5 0 (1 / 2) 4 = 3 / 10.
Proof.
  split; [unfold Arc_valid; lra |]. rewrite Arc_eq by lra. unfold Arc_shape.
  destruct (Rlt_dec 5 0); [lra |]. destruct (Rlt_dec 4 0); [lra |]. destruct (Rle_dec 4 5); [| lra].
  unfold Arc_curve. replace ((0 - 5)² - (4 - 0)²) with (3 * 3) by (unfold Rsqr; ring).
  rewrite sqrt_square by lra. rewrite Rabs_left by lra. replace (- (0 - 5)) with 5 by ring. lra.
Qed.
Lemma SemiEllipse_ex : SemiEllipse_valid 0 10 (1 / 2) /\ SemiEllipse_membership 0 10 (1 / 2) 2 = 2 / 5.
Proof.
  split; [unfold SemiEllipse_valid; lra |]. rewrite SemiEllipse_eq. unfold SemiEllipse_shape.
  rewrite SemiEllipse_radicand. unfold Rmin, Rmax. destruct (Rle_dec 0 10); [| lra].
  destruct (Rle_dec 0 2); [| lra]. destruct (Rle_dec 2 10); [| lra].
  replace ((2 - 0) * (10 - 2)) with (4 * 4) by ring. rewrite sqrt_square by lra. lra.
Qed.
Lemma SemiEllipse_ex_reversed : SemiEllipse_valid 10 0 (1 / 2) /\ SemiEllipse_membership 10 0 (1 / 2) 2 = 2 / 5.
Proof.
  split; [unfold SemiEllipse_valid; lra |]. rewrite SemiEllipse_swap. apply SemiEllipse_ex.
Qed.
Lemma Rpower_2_2 : Rpower 2 2 = 4.
Proof.
  replace 2 with (1 + 1) at 2 by ring. rewrite Rpower_plus, Rpower_1 by lra. ring.
Qed.
Lemma Bell_ex : Bell_valid 0 1 1 (1 / 2) /\ Bell_dom 0 1 2 /\ Bell_membership 0 1 1 (1 / 2) 2 = 1 / 10.
Proof.
  split; [unfold Bell_valid; lra |]. split; [unfold Bell_dom; lra |].
  rewrite Bell_eq. unfold Bell_shape. replace (2 - 0) with 2 by ring.
  rewrite (Rabs_pos_eq 2), (Rabs_pos_eq 1) by lra. replace (2 / 1) with 2 by lra. replace (2 * 1) with 2 by ring.
  unfold Rpow. destruct (Req_EM_T 2 0); [lra |]. rewrite Rpower_2_2. lra.
Qed.
Lemma Cosine_ex : Cosine_valid 0 2 (1 / 2) /\ Cosine_membership 0 2 (1 / 2) (1 / 2) = 1 / 4.
Proof.
  split; [unfold Cosine_valid; lra |]. rewrite Cosine_eq, Cosine_shape_inside by lra.
  replace (2 / 2 * PI * (1 / 2 - 0)) with (PI / 2) by lra. rewrite cos_PI2. lra.
Qed.
Lemma Gaussian_ex : Gaussian_valid 0 1 (1 / 2) /\ Gaussian_membership 0 1 (1 / 2) 1 = 1 / 2 * exp (- 1 / 2).
Proof.
  split; [unfold Gaussian_valid; lra |]. rewrite Gaussian_eq. unfold Gaussian_shape.
  replace (- (1 - 0)² / (2 * 1²)) with (- 1 / 2) by (unfold Rsqr; lra). reflexivity.
Qed.
Lemma GaussianProduct_ex : GaussianProduct_valid 0 1 1 2 (1 / 2) /\
  GaussianProduct_membership 0 1 1 2 (1 / 2) (-1) = 1 / 2 * exp (- 1 / 2) /\
  GaussianProduct_membership 0 1 1 2 (1 / 2) (1 / 3) = 1 / 2 /\
  GaussianProduct_membership 0 1 1 2 (1 / 2) 3 = 1 / 2 * exp (- 1 / 2).
Proof.
  split; [unfold GaussianProduct_valid; lra |]. rewrite !GaussianProduct_eq.
  rewrite GaussianProduct_shape_left, GaussianProduct_shape_plateau, GaussianProduct_shape_right by lra.
  unfold Gaussian_shape.
  replace (- (-1 - 0)² / (2 * 1²)) with (- 1 / 2) by (unfold Rsqr; lra).
  replace (- (3 - 1)² / (2 * 2²)) with (- 1 / 2) by (unfold Rsqr; lra).
  repeat split; lra.
Qed.
Lemma Sigmoid_ex_rising : Sigmoid_valid 0 1 (1 / 2) /\ Sigmoid_membership 0 1 (1 / 2) 0 = 1 / 4.
Proof. split; [unfold Sigmoid_valid; lra |]. rewrite Sigmoid_at_inflection. lra. Qed.
Lemma Sigmoid_ex_falling : Sigmoid_valid 3 (-2) (1 / 2) /\
  Sigmoid_membership 3 (-2) (1 / 2) 4 = 1 / 2 / (1 + exp 2) /\
  Sigmoid_membership 3 (-2) (1 / 2) 4 < Sigmoid_membership 3 (-2) (1 / 2) 3.
Proof.
  assert (Hv : Sigmoid_valid 3 (-2) (1 / 2)) by (unfold Sigmoid_valid; lra).
  split; [exact Hv |]. split; [| apply Sigmoid_strict_dec; [exact Hv | lra | lra]].
  rewrite Sigmoid_eq. unfold Sigmoid_shape. replace (- -2 * (4 - 3)) with 2 by ring.
  unfold Rdiv. ring.
Qed.
Lemma SigmoidProduct_ex : SigmoidProduct_valid 0 1 (-1) 0 (1 / 2) /\
  SigmoidProduct_membership 0 1 (-1) 0 (1 / 2) 0 = 1 / 8.
Proof.
  split; [unfold SigmoidProduct_valid; lra |]. rewrite SigmoidProduct_eq. unfold SigmoidProduct_shape.
  rewrite !Sigmoid_shape_at_inflection. lra.
Qed.
Lemma SigmoidDifference_ex : SigmoidDifference_valid 0 1 1 1 (1 / 2) /\
  SigmoidDifference_membership 0 1 1 1 (1 / 2) 0 = 1 / 2 * (1 / 2 - 1 / (1 + exp 1)) /\
  0 < SigmoidDifference_membership 0 1 1 1 (1 / 2) 0.
Proof.
  split; [unfold SigmoidDifference_valid; lra |].
  assert (Hb : Sigmoid_shape 1 1 0 = 1 / (1 + exp 1)).
  { unfold Sigmoid_shape. replace (- (1) * (0 - 1)) with 1 by ring. reflexivity. }
  assert (Hlt : Sigmoid_shape 1 1 0 < Sigmoid_shape 0 1 0).
  { rewrite (Sigmoid_shape_at_inflection 0 1). rewrite <- (Sigmoid_shape_at_inflection 1 1).
    apply Sigmoid_shape_strict_inc; lra. }
  rewrite SigmoidDifference_eq, SigmoidDifference_doc_agrees by lra.
  unfold SigmoidDifference_shape_doc. rewrite (Sigmoid_shape_at_inflection 0 1) in *. rewrite Hb in *.
  split; [reflexivity | lra].
Qed.
Lemma Spike_ex : Spike_valid 0 10 (1 / 2) /\ Spike_membership 0 10 (1 / 2) 1 = 1 / 2 * exp (- 1).
Proof.
  split; [unfold Spike_valid; lra |]. rewrite Spike_eq. unfold Spike_shape.
  replace (10 / 10 * (1 - 0)) with 1 by lra. rewrite Rabs_pos_eq by lra. reflexivity.
Qed.
Lemma Spike_ex_negative_width : Spike_valid 0 (-10) (1 / 2) /\ Spike_membership 0 (-10) (1 / 2) 1 = 1 / 2 * exp (- 1).
Proof.
  split; [unfold Spike_valid; lra |]. rewrite Spike_eq. unfold Spike_shape.
  replace (10 / -10 * (1 - 0)) with (-1) by lra. rewrite Rabs_left by lra. rewrite Ropp_involutive. reflexivity.
Qed.

(* ================================================================ spelled-out variants used by Properties/C03b.v *)
Lemma Arc_spec_between (s e h x : R) : Arc_valid s e h -> Rmin s e <= x <= Rmax s e ->
  Arc_membership s e h x = h * (sqrt ((e - s)² - (x - e)²) / Rabs (e - s)).
Proof.
  intros [Hse _] Hx. rewrite Arc_eq by exact Hse. f_equal.
  unfold Rmin, Rmax in Hx. unfold Arc_shape, Arc_curve.
  destruct (Rle_dec s e); splitdecTB; first [reflexivity | exfalso; lra].
Qed.
Lemma Bell_spec_doc (c w s h x : R) : Bell_valid c w s h -> Bell_dom c s x -> 0 < w ->
  Bell_membership c w s h x = h * (1 / (1 + Rpow (Rabs (x - c) / w) (2 * s))).
Proof. intros _ _ Hw. rewrite Bell_eq, (Bell_shape_doc_eq c w s x Hw). reflexivity. Qed.
Lemma Cosine_spec_inside (c w h x : R) : Cosine_valid c w h -> c - w / 2 <= x <= c + w / 2 ->
  Cosine_membership c w h x = h * (1 / 2 * (1 + cos (2 / w * PI * (x - c)))).
Proof. intros _ Hx. rewrite Cosine_eq, Cosine_shape_inside by exact Hx. reflexivity. Qed.
Lemma SigmoidDifference_spec_doc_usual (l k rt h x : R) : SigmoidDifference_valid l k k rt h ->
  0 <= k -> l <= rt ->
  SigmoidDifference_membership l k k rt h x =
  h * (1 / (1 + exp (- k * (x - l))) - 1 / (1 + exp (- k * (x - rt)))).
Proof.
  intros _ Hk Hlr. rewrite SigmoidDifference_eq, SigmoidDifference_doc_agrees_usual by assumption. reflexivity.
Qed.
