(* C03 (special values) — the generated membership kernels read over NumER (exact reals + IEEE rules for
   +-inf and NaN): for finite valid parameters the value is NaN exactly when x is NaN, and the values at
   x = +inf, x = -inf.  Final statements: Properties/C03c.v. *)
From Coq Require Import ZArith Reals Bool Lra Psatz.
From VF Require Import Num NumR NumER GenTerm.
Local Open Scope R_scope.

(* ---- 0. tactics *)
Inductive Rsgn_cases (r : R) : comparison -> Prop :=
| RsG : 0 < r -> Rsgn_cases r Gt
| RsL : r < 0 -> Rsgn_cases r Lt
| RsE : r = 0 -> Rsgn_cases r Eq.
Lemma Rsgn_spec r : Rsgn_cases r (Rsgn r).
Proof.
  unfold Rsgn. destruct (Rlt_dec 0 r); [constructor; assumption|].
  destruct (Rlt_dec r 0); constructor; lra.
Qed.

(* the literals of the kernels *)
Lemma Rlit_0 : Rlit 0 0 = 0. Proof. reflexivity. Qed.
Lemma Rlit_1 : Rlit 1 0 = 1. Proof. reflexivity. Qed.
Lemma Rlit_2 : Rlit 2 0 = 2. Proof. reflexivity. Qed.
Lemma Rlit_10 : Rlit 10 0 = 10. Proof. reflexivity. Qed.
Lemma Rlit_half : Rlit 1 (-1) = 1 / 2. Proof. reflexivity. Qed.

(* read a kernel at ER *)
Ltac unERz := unER; rewrite ?Rlit_0, ?Rlit_1, ?Rlit_2, ?Rlit_10, ?Rlit_half.

(* evaluate the ER operations on constructors *)
Ltac er_cbn :=
  rewrite ?ERleb_fin;
  cbn [ERadd ERsub ERneg ERmul ERdiv ERabs ERsqrt ERltb EReqb ERleb ERisnan ERexp ERcos ERlog ERpow ERsgn cmul
       ERsigned_inf andb orb negb Bool.eqb];
  unfold Rabs, Rpower.

(* split one decision of the goal *)
Ltac er_split1 :=
  match goal with
  | |- context [Rltb ?a ?b] => destruct (Rltb_spec a b)
  | |- context [Rleb ?a ?b] => destruct (Rleb_spec a b)
  | |- context [Reqb ?a ?b] => destruct (Reqb_spec a b)
  | |- context [Rcase_abs ?a] => destruct (Rcase_abs a)
  | |- context [Req_EM_T ?a ?b] => destruct (Req_EM_T a b)
  | |- context [Rlt_dec ?a ?b] => destruct (Rlt_dec a b)
  | |- context [Rsgn ?a] => destruct (Rsgn_spec a)
  end.
(* record 0 < exp a, 0 <= sqrt a for the terms of the goal *)
Ltac er_fact :=
  match goal with
  | |- context [exp ?a] =>
      lazymatch goal with H : 0 < exp a |- _ => fail | _ => pose proof (exp_pos a) end
  | |- context [sqrt ?a] =>
      lazymatch goal with H : 0 <= sqrt a |- _ => fail | _ => pose proof (sqrt_pos a) end
  end.
(* split everything, dropping contradictory combinations with [prune] as they arise *)
Ltac er_go_with prune := er_cbn; repeat (first [er_fact | er_split1; try (exfalso; prune)]; er_cbn).
Ltac er_go := er_go_with lra.
Ltac er_close := try reflexivity; try (exfalso; lra); try (f_equal; lra).
Ltac er_body := unERz; er_go; er_close.
Ltac er_main K := intros; unfold K; er_body.
Ltac er_x x := destruct x as [x| | |].

(* ---- 1. piecewise-linear / piecewise-quadratic terms *)
Lemma Ramp_nan_iff s e h x : s <> e -> isnan (Ramp_membership (Fin s) (Fin e) (Fin h) x) = isnan x.
Proof. intros Hse. er_x x; er_main (@Ramp_membership). Qed.
Lemma Ramp_at_pinf s e h : s <> e -> Ramp_membership (Fin s) (Fin e) (Fin h) PInf = Fin (if Rltb s e then h else 0).
Proof. er_main (@Ramp_membership). Qed.
Lemma Ramp_at_ninf s e h : s <> e -> Ramp_membership (Fin s) (Fin e) (Fin h) NInf = Fin (if Rltb s e then 0 else h).
Proof. er_main (@Ramp_membership). Qed.

Lemma Binary_nan_iff s d h x : isnan (Binary_membership (Fin s) d (Fin h) x) = isnan x.
Proof. er_x x; destruct d; er_main (@Binary_membership). Qed.
Lemma Binary_at_pinf s d h : Binary_membership (Fin s) d (Fin h) PInf = Fin (if ERltb (Fin s) d then h else 0).
Proof. destruct d; er_main (@Binary_membership). Qed.
Lemma Binary_at_ninf s d h : Binary_membership (Fin s) d (Fin h) NInf = Fin (if ERltb d (Fin s) then h else 0).
Proof. destruct d; er_main (@Binary_membership). Qed.

Lemma Concave_nan_iff i e h x : isnan (Concave_membership (Fin i) (Fin e) (Fin h) x) = isnan x.
Proof. er_x x; er_main (@Concave_membership). Qed.
Lemma Concave_at_pinf i e h : i <> e -> Concave_membership (Fin i) (Fin e) (Fin h) PInf = Fin (if Rltb i e then h else 0).
Proof. er_main (@Concave_membership). Qed.
Lemma Concave_at_ninf i e h : i <> e -> Concave_membership (Fin i) (Fin e) (Fin h) NInf = Fin (if Rltb i e then 0 else h).
Proof. er_main (@Concave_membership). Qed.

Lemma Rectangle_nan_iff s e h x : isnan (Rectangle_membership (Fin s) (Fin e) (Fin h) x) = isnan x.
Proof. er_x x; er_main (@Rectangle_membership). Qed.
Lemma Rectangle_at_pinf s e h : Rectangle_membership (Fin s) (Fin e) (Fin h) PInf = Fin 0.
Proof. er_main (@Rectangle_membership). Qed.
Lemma Rectangle_at_ninf s e h : Rectangle_membership (Fin s) (Fin e) (Fin h) NInf = Fin 0.
Proof. er_main (@Rectangle_membership). Qed.

Lemma SShape_nan_iff s e h x : s <> e -> isnan (SShape_membership (Fin s) (Fin e) (Fin h) x) = isnan x.
Proof. er_x x; er_main (@SShape_membership). Qed.
Lemma SShape_at_pinf s e h : SShape_membership (Fin s) (Fin e) (Fin h) PInf = Fin h.
Proof. er_main (@SShape_membership). Qed.
Lemma SShape_at_ninf s e h : SShape_membership (Fin s) (Fin e) (Fin h) NInf = Fin 0.
Proof. er_main (@SShape_membership). Qed.

Lemma ZShape_nan_iff s e h x : s <> e -> isnan (ZShape_membership (Fin s) (Fin e) (Fin h) x) = isnan x.
Proof. er_x x; er_main (@ZShape_membership). Qed.
Lemma ZShape_at_pinf s e h : ZShape_membership (Fin s) (Fin e) (Fin h) PInf = Fin 0.
Proof. er_main (@ZShape_membership). Qed.
Lemma ZShape_at_ninf s e h : ZShape_membership (Fin s) (Fin e) (Fin h) NInf = Fin h.
Proof. er_main (@ZShape_membership). Qed.

Lemma PiShape_nan_iff a b c d h x : a <> b -> c <> d ->
  isnan (PiShape_membership (Fin a) (Fin b) (Fin c) (Fin d) (Fin h) x) = isnan x.
Proof. er_x x; intros; unfold PiShape_membership, SShape_membership, ZShape_membership; er_body. Qed.
Lemma PiShape_at_pinf a b c d h : PiShape_membership (Fin a) (Fin b) (Fin c) (Fin d) (Fin h) PInf = Fin 0.
Proof. unfold PiShape_membership, SShape_membership, ZShape_membership; er_body. Qed.
Lemma PiShape_at_ninf a b c d h : PiShape_membership (Fin a) (Fin b) (Fin c) (Fin d) (Fin h) NInf = Fin 0.
Proof. unfold PiShape_membership, SShape_membership, ZShape_membership; er_body. Qed.

(* ---- Triangle, Trapezoid: finite vertices (vertical edges a = b, b = c allowed) and infinite shoulders *)
Lemma Triangle_nan_iff a b c h x : a <= b -> b <= c ->
  isnan (Triangle_membership (Fin a) (Fin b) (Fin c) (Fin h) x) = isnan x.
Proof. er_x x; er_main (@Triangle_membership). Qed.
Lemma Triangle_at_pinf a b c h : Triangle_membership (Fin a) (Fin b) (Fin c) (Fin h) PInf = Fin 0.
Proof. er_main (@Triangle_membership). Qed.
Lemma Triangle_at_ninf a b c h : Triangle_membership (Fin a) (Fin b) (Fin c) (Fin h) NInf = Fin 0.
Proof. er_main (@Triangle_membership). Qed.

Lemma TriangleL_nan_iff b c h x : b <= c ->
  isnan (Triangle_membership NInf (Fin b) (Fin c) (Fin h) x) = isnan x.
Proof. er_x x; er_main (@Triangle_membership). Qed.
Lemma TriangleL_at_pinf b c h : Triangle_membership NInf (Fin b) (Fin c) (Fin h) PInf = Fin 0.
Proof. er_main (@Triangle_membership). Qed.
Lemma TriangleL_at_ninf b c h : Triangle_membership NInf (Fin b) (Fin c) (Fin h) NInf = Fin h.
Proof. er_main (@Triangle_membership). Qed.

Lemma TriangleR_nan_iff a b h x : a <= b ->
  isnan (Triangle_membership (Fin a) (Fin b) PInf (Fin h) x) = isnan x.
Proof. er_x x; er_main (@Triangle_membership). Qed.
Lemma TriangleR_at_pinf a b h : Triangle_membership (Fin a) (Fin b) PInf (Fin h) PInf = Fin h.
Proof. er_main (@Triangle_membership). Qed.
Lemma TriangleR_at_ninf a b h : Triangle_membership (Fin a) (Fin b) PInf (Fin h) NInf = Fin 0.
Proof. er_main (@Triangle_membership). Qed.

Lemma TriangleLR_nan_iff b h x : isnan (Triangle_membership NInf (Fin b) PInf (Fin h) x) = isnan x.
Proof. er_x x; er_main (@Triangle_membership). Qed.
Lemma TriangleLR_at_pinf b h : Triangle_membership NInf (Fin b) PInf (Fin h) PInf = Fin h.
Proof. er_main (@Triangle_membership). Qed.
Lemma TriangleLR_at_ninf b h : Triangle_membership NInf (Fin b) PInf (Fin h) NInf = Fin h.
Proof. er_main (@Triangle_membership). Qed.

Lemma Trapezoid_nan_iff a b c d h x : a <= b -> b <= c -> c <= d ->
  isnan (Trapezoid_membership (Fin a) (Fin b) (Fin c) (Fin d) (Fin h) x) = isnan x.
Proof. er_x x; er_main (@Trapezoid_membership). Qed.
Lemma Trapezoid_at_pinf a b c d h : Trapezoid_membership (Fin a) (Fin b) (Fin c) (Fin d) (Fin h) PInf = Fin 0.
Proof. er_main (@Trapezoid_membership). Qed.
Lemma Trapezoid_at_ninf a b c d h : Trapezoid_membership (Fin a) (Fin b) (Fin c) (Fin d) (Fin h) NInf = Fin 0.
Proof. er_main (@Trapezoid_membership). Qed.

Lemma TrapezoidL_nan_iff b c d h x : b <= c -> c <= d ->
  isnan (Trapezoid_membership NInf (Fin b) (Fin c) (Fin d) (Fin h) x) = isnan x.
Proof. er_x x; er_main (@Trapezoid_membership). Qed.
Lemma TrapezoidL_at_pinf b c d h : Trapezoid_membership NInf (Fin b) (Fin c) (Fin d) (Fin h) PInf = Fin 0.
Proof. er_main (@Trapezoid_membership). Qed.
Lemma TrapezoidL_at_ninf b c d h : Trapezoid_membership NInf (Fin b) (Fin c) (Fin d) (Fin h) NInf = Fin h.
Proof. er_main (@Trapezoid_membership). Qed.

Lemma TrapezoidR_nan_iff a b c h x : a <= b -> b <= c ->
  isnan (Trapezoid_membership (Fin a) (Fin b) (Fin c) PInf (Fin h) x) = isnan x.
Proof. er_x x; er_main (@Trapezoid_membership). Qed.
Lemma TrapezoidR_at_pinf a b c h : Trapezoid_membership (Fin a) (Fin b) (Fin c) PInf (Fin h) PInf = Fin h.
Proof. er_main (@Trapezoid_membership). Qed.
Lemma TrapezoidR_at_ninf a b c h : Trapezoid_membership (Fin a) (Fin b) (Fin c) PInf (Fin h) NInf = Fin 0.
Proof. er_main (@Trapezoid_membership). Qed.

Lemma TrapezoidLR_nan_iff b c h x : b <= c ->
  isnan (Trapezoid_membership NInf (Fin b) (Fin c) PInf (Fin h) x) = isnan x.
Proof. er_x x; er_main (@Trapezoid_membership). Qed.
Lemma TrapezoidLR_at_pinf b c h : Trapezoid_membership NInf (Fin b) (Fin c) PInf (Fin h) PInf = Fin h.
Proof. er_main (@Trapezoid_membership). Qed.
Lemma TrapezoidLR_at_ninf b c h : Trapezoid_membership NInf (Fin b) (Fin c) PInf (Fin h) NInf = Fin h.
Proof. er_main (@Trapezoid_membership). Qed.

(* ---- 2. terms with sqrt, exp, cos, power *)
Ltac nl := first [lra | timeout 10 nra].

(* sqrt argument non-negative inside the selected branch; |radius| <> 0 *)
Lemma Arc_nan_iff s e h x : s <> e -> isnan (Arc_membership (Fin s) (Fin e) (Fin h) x) = isnan x.
Proof. intros Hse. er_x x; unfold Arc_membership; unERz; er_go_with nl; er_close. Qed.
Lemma Arc_at_pinf s e h : s <> e -> Arc_membership (Fin s) (Fin e) (Fin h) PInf = Fin (if Rltb s e then h else 0).
Proof. er_main (@Arc_membership). Qed.
Lemma Arc_at_ninf s e h : s <> e -> Arc_membership (Fin s) (Fin e) (Fin h) NInf = Fin (if Rltb s e then 0 else h).
Proof. er_main (@Arc_membership). Qed.

Lemma SemiEllipse_nan_iff s e h x : s <> e -> isnan (SemiEllipse_membership (Fin s) (Fin e) (Fin h) x) = isnan x.
Proof. intros Hse. er_x x; unfold SemiEllipse_membership; unERz; er_go_with nl; er_close. Qed.
Lemma SemiEllipse_at_pinf s e h : SemiEllipse_membership (Fin s) (Fin e) (Fin h) PInf = Fin 0.
Proof. er_main (@SemiEllipse_membership). Qed.
Lemma SemiEllipse_at_ninf s e h : SemiEllipse_membership (Fin s) (Fin e) (Fin h) NInf = Fin 0.
Proof. er_main (@SemiEllipse_membership). Qed.

(* the power has a non-negative base; 1 + power > 0.  Any slope. *)
Lemma Bell_nan_iff c w s h x : w <> 0 -> isnan (Bell_membership (Fin c) (Fin w) (Fin s) (Fin h) x) = isnan x.
Proof. intros Hw. er_x x; er_main (@Bell_membership). Qed.
Lemma Bell_at_pinf c w s h : w <> 0 -> 0 < s -> Bell_membership (Fin c) (Fin w) (Fin s) (Fin h) PInf = Fin 0.
Proof. er_main (@Bell_membership). Qed.
Lemma Bell_at_ninf c w s h : w <> 0 -> 0 < s -> Bell_membership (Fin c) (Fin w) (Fin s) (Fin h) NInf = Fin 0.
Proof. er_main (@Bell_membership). Qed.

(* cos is only applied to finite arguments (isfinite guard) *)
Lemma Cosine_nan_iff c w h x : w <> 0 -> isnan (Cosine_membership (Fin c) (Fin w) (Fin h) x) = isnan x.
Proof. intros Hw. er_x x; er_main (@Cosine_membership). Qed.
Lemma Cosine_at_pinf c w h : Cosine_membership (Fin c) (Fin w) (Fin h) PInf = Fin 0.
Proof. er_main (@Cosine_membership). Qed.
Lemma Cosine_at_ninf c w h : Cosine_membership (Fin c) (Fin w) (Fin h) NInf = Fin 0.
Proof. er_main (@Cosine_membership). Qed.

Lemma Gaussian_nan_iff m sd h x : sd <> 0 -> isnan (Gaussian_membership (Fin m) (Fin sd) (Fin h) x) = isnan x.
Proof. intros Hsd. assert (0 < 2 * (sd * sd)) by nra. er_x x; er_main (@Gaussian_membership). Qed.
Lemma Gaussian_at_pinf m sd h : sd <> 0 -> Gaussian_membership (Fin m) (Fin sd) (Fin h) PInf = Fin 0.
Proof. intros Hsd. assert (0 < 2 * (sd * sd)) by nra. er_main (@Gaussian_membership). Qed.
Lemma Gaussian_at_ninf m sd h : sd <> 0 -> Gaussian_membership (Fin m) (Fin sd) (Fin h) NInf = Fin 0.
Proof. intros Hsd. assert (0 < 2 * (sd * sd)) by nra. er_main (@Gaussian_membership). Qed.

Ltac er_gp := unfold GaussianProduct_membership, Gaussian_membership; er_body.
Lemma GaussianProduct_nan_iff ma sa mb sb h x : sa <> 0 -> sb <> 0 ->
  isnan (GaussianProduct_membership (Fin ma) (Fin sa) (Fin mb) (Fin sb) (Fin h) x) = isnan x.
Proof.
  intros Ha Hb. assert (0 < 2 * (sa * sa)) by nra. assert (0 < 2 * (sb * sb)) by nra. er_x x; er_gp.
Qed.
Lemma GaussianProduct_at_pinf ma sa mb sb h : sb <> 0 ->
  GaussianProduct_membership (Fin ma) (Fin sa) (Fin mb) (Fin sb) (Fin h) PInf = Fin 0.
Proof. intros Hb. assert (0 < 2 * (sb * sb)) by nra. er_gp. Qed.
Lemma GaussianProduct_at_ninf ma sa mb sb h : sa <> 0 ->
  GaussianProduct_membership (Fin ma) (Fin sa) (Fin mb) (Fin sb) (Fin h) NInf = Fin 0.
Proof. intros Ha. assert (0 < 2 * (sa * sa)) by nra. er_gp. Qed.

Lemma ten_div_neq0 w : w <> 0 -> 10 / w <> 0.
Proof. intros Hw. apply Rmult_integral_contrapositive_currified; [lra | apply Rinv_neq_0_compat; exact Hw]. Qed.
Lemma Spike_nan_iff c w h x : w <> 0 -> isnan (Spike_membership (Fin c) (Fin w) (Fin h) x) = isnan x.
Proof. intros Hw. pose proof (ten_div_neq0 w Hw). er_x x; er_main (@Spike_membership). Qed.
Lemma Spike_at_pinf c w h : w <> 0 -> Spike_membership (Fin c) (Fin w) (Fin h) PInf = Fin 0.
Proof. intros Hw. pose proof (ten_div_neq0 w Hw). er_main (@Spike_membership). Qed.
Lemma Spike_at_ninf c w h : w <> 0 -> Spike_membership (Fin c) (Fin w) (Fin h) NInf = Fin 0.
Proof. intros Hw. pose proof (ten_div_neq0 w Hw). er_main (@Spike_membership). Qed.

(* ---- 3. sigmoids: slope 0 gives 0 * inf = NaN at x = +-inf *)
Lemma Sigmoid_nan_iff_fin i s h (x : R) : isnan (Sigmoid_membership (Fin i) (Fin s) (Fin h) (Fin x)) = false.
Proof. er_main (@Sigmoid_membership). Qed.
Lemma Sigmoid_nan_iff i s h x : s <> 0 -> isnan (Sigmoid_membership (Fin i) (Fin s) (Fin h) x) = isnan x.
Proof. intros Hs. er_x x; er_main (@Sigmoid_membership). Qed.
Lemma Sigmoid_at_pinf i s h : s <> 0 -> Sigmoid_membership (Fin i) (Fin s) (Fin h) PInf = Fin (if Rltb 0 s then h else 0).
Proof. er_main (@Sigmoid_membership). Qed.
Lemma Sigmoid_at_ninf i s h : s <> 0 -> Sigmoid_membership (Fin i) (Fin s) (Fin h) NInf = Fin (if Rltb 0 s then 0 else h).
Proof. er_main (@Sigmoid_membership). Qed.
Lemma Sigmoid_slope0_pinf i h : Sigmoid_membership (Fin i) (Fin 0) (Fin h) PInf = NaN.
Proof. er_main (@Sigmoid_membership). Qed.
Lemma Sigmoid_slope0_ninf i h : Sigmoid_membership (Fin i) (Fin 0) (Fin h) NInf = NaN.
Proof. er_main (@Sigmoid_membership). Qed.

Ltac er_sd := unfold SigmoidDifference_membership, SigmoidProduct_membership, Sigmoid_membership; er_body.
Lemma SigmoidDifference_nan_iff l r f rt h x : r <> 0 -> f <> 0 ->
  isnan (SigmoidDifference_membership (Fin l) (Fin r) (Fin f) (Fin rt) (Fin h) x) = isnan x.
Proof. intros Hr Hf. er_x x; er_sd. Qed.
Lemma SigmoidDifference_at_pinf l r f rt h : r <> 0 -> f <> 0 ->
  SigmoidDifference_membership (Fin l) (Fin r) (Fin f) (Fin rt) (Fin h) PInf
  = Fin (if Bool.eqb (Rltb 0 r) (Rltb 0 f) then 0 else h).
Proof. intros Hr Hf. er_sd. Qed.
Lemma SigmoidDifference_at_ninf l r f rt h : r <> 0 -> f <> 0 ->
  SigmoidDifference_membership (Fin l) (Fin r) (Fin f) (Fin rt) (Fin h) NInf
  = Fin (if Bool.eqb (Rltb 0 r) (Rltb 0 f) then 0 else h).
Proof. intros Hr Hf. er_sd. Qed.

Lemma SigmoidProduct_nan_iff l r f rt h x : r <> 0 -> f <> 0 ->
  isnan (SigmoidProduct_membership (Fin l) (Fin r) (Fin f) (Fin rt) (Fin h) x) = isnan x.
Proof. intros Hr Hf. er_x x; er_sd. Qed.
Lemma SigmoidProduct_at_pinf l r f rt h : r <> 0 -> f <> 0 ->
  SigmoidProduct_membership (Fin l) (Fin r) (Fin f) (Fin rt) (Fin h) PInf
  = Fin (if Rltb 0 r && Rltb 0 f then h else 0).
Proof. intros Hr Hf. er_sd. Qed.
Lemma SigmoidProduct_at_ninf l r f rt h : r <> 0 -> f <> 0 ->
  SigmoidProduct_membership (Fin l) (Fin r) (Fin f) (Fin rt) (Fin h) NInf
  = Fin (if Rltb r 0 && Rltb f 0 then h else 0).
Proof. intros Hr Hf. er_sd. Qed.

(* Bell for an arbitrary slope: the documented bell needs slope > 0; otherwise the "bell" is inverted *)
Lemma Bell_at_pinf_any_slope c w s h : w <> 0 ->
  Bell_membership (Fin c) (Fin w) (Fin s) (Fin h) PInf = Fin (if Rltb 0 s then 0 else if Reqb s 0 then h / 2 else h).
Proof. er_main (@Bell_membership). Qed.
Lemma Bell_at_ninf_any_slope c w s h : w <> 0 ->
  Bell_membership (Fin c) (Fin w) (Fin s) (Fin h) NInf = Fin (if Rltb 0 s then 0 else if Reqb s 0 then h / 2 else h).
Proof. er_main (@Bell_membership). Qed.

(* the statement "NaN exactly when x is NaN" is false for sigmoids of slope 0 *)
Lemma Sigmoid_nan_iff_slope0_refuted :
  exists i s h x, 0 < h <= 1 /\ isnan x = false /\ isnan (Sigmoid_membership (Fin i) (Fin s) (Fin h) x) = true.
Proof. exists 0, 0, 1, PInf. repeat split; try lra. rewrite Sigmoid_slope0_pinf. reflexivity. Qed.
Lemma SigmoidDifference_nan_iff_slope0_refuted :
  exists l r f rt h x, 0 < h <= 1 /\ isnan x = false /\
    isnan (SigmoidDifference_membership (Fin l) (Fin r) (Fin f) (Fin rt) (Fin h) x) = true.
Proof.
  exists 0, 0, 1, 1, 1, PInf. split; [lra | split; [reflexivity | er_sd]].
Qed.
Lemma SigmoidProduct_nan_iff_slope0_refuted :
  exists l r f rt h x, 0 < h <= 1 /\ isnan x = false /\
    isnan (SigmoidProduct_membership (Fin l) (Fin r) (Fin f) (Fin rt) (Fin h) x) = true.
Proof.
  exists 0, 0, (-1), 1, 1, PInf. split; [lra | split; [reflexivity | er_sd]].
Qed.

(* Constant: the degenerate case, returns its value whatever x *)
Lemma Constant_value (v x : ER) : Constant_membership v x = v.
Proof. reflexivity. Qed.
