(* WeightedProofs.v — lemmas about Model/Weighted.v (property C10).

   1. generic (any numeric reading): the structure of grouped_terms (names in first-occurrence order, NoDup,
      degree of a name = left fold of the aggregation over its occurrences), type inference, Tsukamoto needs
      monotonic terms, insertion of a group that leaves the loop state unchanged;
   2. over R: weighted average / sum closed forms, the average of constants lies between them;
   3. over ER (reals + inf + NaN, IEEE special-value rules): NaN exactly when empty or all weights zero (z finite
      wherever the weight is not zero), a zero-degree activation is neutral whatever its z — thanks to the guard
      `np.where(w == 0.0, 0.0, w * z)` (`wcontrib`) of the repair of finding F4; the loop WITHOUT the guard
      (`wloop_unguarded`, the pinned code before the repair) is shown not to have that property: a Tsukamoto term
      whose z(0) is infinite (Concave, Sigmoid) turned the output into NaN. *)
From Coq Require Import ZArith Reals Bool List String Lra Lia Psatz PrimFloat.
From VF Require Import Num NumR NumER NumF GenNorm GenTerm SpecNorm NormR NormLaws Core Weighted.
Import ListNotations.
Local Open Scope list_scope.
Set Implicit Arguments.

(* ================================================================================================ *)
(* Vocabulary of the specification                                                                   *)

Section Vocabulary.
  Context {T : Type} {N : Num T}.

  Definition names (l : list (activated T)) : list string := map act_name l.

  (* Python dict insertion order: the distinct names in order of first occurrence *)
  Definition first_names_step (acc : list string) (n : string) : list string :=
    if existsb (String.eqb n) acc then acc else acc ++ [n].
  Definition first_names (l : list (activated T)) : list string := fold_left first_names_step (names l) [].

  (* the activations of a name, in order *)
  Definition occurrences (n : string) (l : list (activated T)) : list (activated T) :=
    filter (fun a => String.eqb (act_name a) n) l.

  (* the degree of a name whose occurrences have degrees d0 :: ds: the setter sanitises every assignment *)
  Definition fold_degree (s : snormx) (d0 : T) (ds : list T) : T :=
    fold_left (fun d x => sanitize (snormx_compute s d x)) ds (sanitize d0).

  (* the z values of the groups, in order (first failure wins) *)
  Fixpoint group_values (tm tt : term T -> T -> result T) (ty : wtype) (groups : list (activated T)) : result (list T) :=
    match groups with
    | [] => Ok []
    | g :: rest => do z <- term_value tm tt ty (a_term g) (a_degree g);
                   do zs <- group_values tm tt ty rest; Ok (z :: zs)
    end.

  Definition is_constant (t : term T) : option T :=
    match t with TShape _ (Sh_Constant c) => Some c | _ => None end.
End Vocabulary.

(* ================================================================================================ *)
(* 1. Generic structure                                                                              *)

Lemma wtype_eqb_eq a b : wtype_eqb a b = true <-> a = b.
Proof. destruct a, b; cbn; split; congruence. Qed.

Section Generic.
  Context {T : Type} {N : Num T}.
  Implicit Types (l G : list (activated T)) (a g : activated T).

  Lemma existsb_eqb_In (n : string) acc : existsb (String.eqb n) acc = true <-> In n acc.
  Proof.
    rewrite existsb_exists. split.
    - intros (x & Hx & E). apply String.eqb_eq in E. now subst.
    - intros H. exists n. split; [exact H|apply String.eqb_refl].
  Qed.

  (* ---- first_names *)
  Lemma first_names_snoc l a :
    first_names (l ++ [a]) = first_names_step (first_names l) (act_name a).
  Proof. unfold first_names, names. rewrite map_app, fold_left_app. reflexivity. Qed.

  Lemma first_names_In l n : In n (first_names l) <-> In n (names l).
  Proof.
    induction l as [|a l IH] using rev_ind; [cbn; tauto|].
    rewrite first_names_snoc. unfold names in *. rewrite map_app, in_app_iff. cbn [map In].
    unfold first_names_step. destruct (existsb _ _) eqn:E.
    - apply existsb_eqb_In in E. rewrite IH in *. intuition (subst; auto).
    - rewrite in_app_iff. cbn [In]. rewrite IH. tauto.
  Qed.

  Lemma first_names_NoDup l : NoDup (first_names l).
  Proof.
    induction l as [|a l IH] using rev_ind; [constructor|].
    rewrite first_names_snoc. unfold first_names_step. destruct (existsb _ _) eqn:E; [exact IH|].
    assert (Hn : ~ In (act_name a) (first_names l)).
    { intros H. apply existsb_eqb_In in H. congruence. }
    clear E. revert IH Hn. generalize (first_names l) (act_name a). intros F n.
    induction F as [|x F IHF]; intros ND Hn; cbn.
    - constructor; [intros []|constructor].
    - inversion ND as [|? ? Hx ND']; subst. constructor.
      + rewrite in_app_iff. cbn. intros [H|[H|[]]]; [tauto|]. subst. apply Hn. now left.
      + apply IHF; [exact ND'|]. intros H. apply Hn. now right.
  Qed.

  (* the general accumulator form, to characterise the order *)
  Lemma fold_first_names_app acc ns :
    fold_left first_names_step ns acc =
    acc ++ filter (fun n => negb (existsb (String.eqb n) acc)) (fold_left first_names_step ns []).
  Proof.
    induction ns as [|n ns IH] using rev_ind; [cbn; now rewrite app_nil_r|].
    rewrite !fold_left_app. cbn [fold_left]. rewrite IH. set (F := fold_left first_names_step ns []).
    change (first_names_step (acc ++ filter (fun n0 => negb (existsb (String.eqb n0) acc)) F) n = acc ++ filter (fun n0 => negb (existsb (String.eqb n0) acc)) (first_names_step F n)).
    unfold first_names_step.
    destruct (existsb (String.eqb n) F) eqn:EF.
    - assert (E : existsb (String.eqb n) (acc ++ filter (fun n0 => negb (existsb (String.eqb n0) acc)) F) = true).
      { rewrite existsb_app. destruct (existsb (String.eqb n) acc) eqn:EA; [reflexivity|]. cbn.
        apply existsb_eqb_In. apply filter_In. split; [now apply existsb_eqb_In|]. now rewrite EA. }
      now rewrite E.
    - rewrite filter_app. cbn [filter].
      destruct (existsb (String.eqb n) acc) eqn:EA; cbn [negb].
      + assert (E : existsb (String.eqb n) (acc ++ filter (fun n0 => negb (existsb (String.eqb n0) acc)) F) = true).
        { rewrite existsb_app, EA. reflexivity. }
        now rewrite E, app_nil_r.
      + assert (E : existsb (String.eqb n) (acc ++ filter (fun n0 => negb (existsb (String.eqb n0) acc)) F) = false).
        { rewrite existsb_app, EA. cbn. destruct (existsb _ (filter _ F)) eqn:E2; [|reflexivity].
          apply existsb_eqb_In, filter_In in E2. destruct E2 as [E2 _]. apply existsb_eqb_In in E2. congruence. }
        now rewrite E, app_assoc.
  Qed.

  (* order of first occurrence, head-first reading *)
  Lemma first_names_cons a l :
    first_names (a :: l) = act_name a :: filter (fun n => negb (String.eqb n (act_name a))) (first_names l).
  Proof.
    unfold first_names. cbn [names map fold_left]. unfold first_names_step at 2. cbn [existsb app].
    rewrite fold_first_names_app. cbn [app]. f_equal. apply filter_ext. intros n. cbn. now rewrite orb_false_r.
  Qed.

  (* ---- group_insert *)
  Lemma act_name_update s g a : act_name (update_group s g a) = act_name g.
  Proof. reflexivity. Qed.
  Lemma act_name_new a : act_name (new_group a) = act_name a.
  Proof. reflexivity. Qed.

  Lemma names_group_insert s a G :
    names (group_insert s a G) = first_names_step (names G) (act_name a).
  Proof.
    unfold first_names_step. induction G as [|g G IH]; [reflexivity|].
    cbn [group_insert names map existsb]. fold (names G).
    rewrite (String.eqb_sym (act_name a) (act_name g)).
    destruct (String.eqb (act_name g) (act_name a)) eqn:E; cbn [orb].
    - reflexivity.
    - cbn [names map]. fold (names (group_insert s a G)). rewrite IH.
      destruct (existsb _ (names G)); reflexivity.
  Qed.

  Lemma grouped_snoc agg l a :
    grouped_terms agg (l ++ [a]) = group_insert (agg_or_sum agg) a (grouped_terms agg l).
  Proof. unfold grouped_terms. now rewrite fold_left_app. Qed.

  Lemma grouped_names agg l : names (grouped_terms agg l) = first_names l.
  Proof.
    induction l as [|a l IH] using rev_ind; [reflexivity|].
    now rewrite grouped_snoc, names_group_insert, first_names_snoc, IH.
  Qed.

  Lemma grouped_NoDup agg l : NoDup (names (grouped_terms agg l)).
  Proof. rewrite grouped_names. apply first_names_NoDup. Qed.

  Lemma In_group_insert s a G g' : NoDup (names G) -> In g' (group_insert s a G) ->
    (In g' G /\ act_name g' <> act_name a) \/
    (exists g, In g G /\ act_name g = act_name a /\ g' = update_group s g a) \/
    (~ In (act_name a) (names G) /\ g' = new_group a).
  Proof.
    induction G as [|g G IH]; intros ND H.
    - cbn in H. destruct H as [H|[]]. right; right. split; [intros []|now symmetry].
    - cbn [group_insert] in H. inversion ND as [|? ? Hg ND']; subst.
      destruct (String.eqb (act_name g) (act_name a)) eqn:E.
      + apply String.eqb_eq in E. destruct H as [H|H].
        * right; left. exists g. split; [now left|]. split; [exact E|now symmetry].
        * left. split; [now right|]. intros E2. apply Hg. rewrite E, <- E2. now apply in_map.
      + apply String.eqb_neq in E. destruct H as [H|H].
        * subst g'. left. split; [now left|exact E].
        * destruct (IH ND' H) as [[H1 H2]|[(g0 & H1 & H2 & H3)|[H1 H2]]].
          -- left. split; [now right|exact H2].
          -- right; left. exists g0. split; [now right|]. split; assumption.
          -- right; right. split; [|exact H2]. cbn. intros [H3|H3]; [congruence|tauto].
  Qed.

  (* ---- the degree of a group *)
  Lemma occurrences_snoc n l a :
    occurrences n (l ++ [a]) = occurrences n l ++ (if String.eqb (act_name a) n then [a] else []).
  Proof. unfold occurrences. rewrite filter_app. reflexivity. Qed.

  Lemma occurrences_nil n l : ~ In n (names l) -> occurrences n l = [].
  Proof.
    intros H. induction l as [|a l IH]; [reflexivity|]. cbn.
    destruct (String.eqb (act_name a) n) eqn:E.
    - apply String.eqb_eq in E. exfalso. apply H. now left.
    - apply IH. intros H2. apply H. now right.
  Qed.

  Definition group_ok (s : snormx) l g : Prop :=
    exists a rest, occurrences (act_name g) l = a :: rest /\ a_term g = a_term a /\ a_implication g = None /\
                   a_degree g = fold_degree s (a_degree a) (map a_degree rest).

  Lemma grouped_group_ok agg l g : In g (grouped_terms agg l) -> group_ok (agg_or_sum agg) l g.
  Proof.
    revert g. induction l as [|a l IH] using rev_ind; intros g H; [destruct H|].
    rewrite grouped_snoc in H.
    apply In_group_insert in H; [|apply grouped_NoDup].
    destruct H as [[H1 H2]|[(g0 & H1 & H2 & H3)|[H1 H2]]].
    - destruct (IH g H1) as (a0 & rest & E1 & E2 & E3 & E4). exists a0, rest.
      rewrite occurrences_snoc. apply not_eq_sym, String.eqb_neq in H2. rewrite H2, app_nil_r. auto.
    - destruct (IH g0 H1) as (a0 & rest & E1 & E2 & E3 & E4). subst g. exists a0, (rest ++ [a]).
      rewrite act_name_update, occurrences_snoc, E1, H2, String.eqb_refl. cbn [a_term a_implication a_degree update_group].
      repeat split; try assumption.
      unfold fold_degree in *. rewrite map_app, fold_left_app. cbn [map fold_left]. now rewrite E4.
    - subst g. exists a, []. rewrite act_name_new, occurrences_snoc, String.eqb_refl.
      rewrite grouped_names, first_names_In in H1. rewrite (occurrences_nil _ _ H1). auto.
  Qed.

  (* an invariant of all the degrees assigned to the groups *)
  Lemma grouped_degree_inv (P : T -> Prop) agg l :
    (forall a, In a l -> P (sanitize (a_degree a))) ->
    (forall d a, P d -> In a l -> P (sanitize (snormx_compute (agg_or_sum agg) d (a_degree a)))) ->
    forall g, In g (grouped_terms agg l) -> P (a_degree g).
  Proof.
    induction l as [|a l IH] using rev_ind; intros H0 HS g H; [destruct H|].
    rewrite grouped_snoc in H. apply In_group_insert in H; [|apply grouped_NoDup].
    assert (IH' : forall g, In g (grouped_terms agg l) -> P (a_degree g)).
    { apply IH; intros; [apply H0|apply HS]; try assumption; apply in_app_iff; now left. }
    destruct H as [[H1 _]|[(g0 & H1 & _ & H3)|[_ H2]]].
    - now apply IH'.
    - subst g. cbn. apply HS; [now apply IH'|]. apply in_app_iff. right. now left.
    - subst g. cbn. apply H0. apply in_app_iff. right. now left.
  Qed.

  (* ---- activation_degree *)
  Lemma activation_degree_absent agg l n : ~ In n (names l) -> activation_degree agg l n = zero.
  Proof.
    intros H. unfold activation_degree.
    destruct (find _ _) as [g|] eqn:E; [|reflexivity]. exfalso.
    apply find_some in E. destruct E as [E1 E2]. apply String.eqb_eq in E2.
    apply H. rewrite <- first_names_In, <- (grouped_names agg), <- E2. now apply in_map.
  Qed.
  Lemma activation_degree_present agg l n : In n (names l) ->
    exists g, In g (grouped_terms agg l) /\ act_name g = n /\ activation_degree agg l n = a_degree g.
  Proof.
    intros H. unfold activation_degree.
    destruct (find _ _) as [g|] eqn:E.
    - apply find_some in E. destruct E as [E1 E2]. apply String.eqb_eq in E2. now exists g.
    - exfalso. rewrite <- first_names_In, <- (grouped_names agg) in H.
      apply in_map_iff in H. destruct H as (g & H1 & H2).
      apply (find_none _ _ E) in H2. rewrite H1, String.eqb_refl in H2. discriminate.
  Qed.

  (* ---- type inference *)
  Lemma infer_type_ok l ty :
    infer_type l = Ok ty <-> (l = [] /\ ty = WAutomatic) \/ (l <> [] /\ forall a, In a l -> term_wtype (a_term a) = ty).
  Proof.
    destruct l as [|a l]; cbn [infer_type].
    - split; [intros H; injection H as <-; now left|]. intros [[_ ->]|[H _]]; [reflexivity|congruence].
    - destruct (forallb _ l) eqn:E.
      + rewrite forallb_forall in E. split.
        * intros H. injection H as <-. right. split; [discriminate|]. intros b [<-|Hb]; [reflexivity|].
          now apply wtype_eqb_eq, E.
        * intros [[H _]|[_ H]]; [discriminate|]. f_equal. apply H. now left.
      + split; [discriminate|]. intros [[H _]|[_ H]]; [discriminate|]. exfalso.
        assert (forallb (fun b => wtype_eqb (term_wtype (a_term b)) (term_wtype (a_term a))) l = true); [|congruence].
        apply forallb_forall. intros b Hb. apply wtype_eqb_eq. rewrite (H a), (H b); cbn; auto.
  Qed.

  Lemma infer_type_err l e :
    infer_type l = Err e <-> e = EInternal /\ exists a b, In a l /\ In b l /\ term_wtype (a_term a) <> term_wtype (a_term b).
  Proof.
    destruct l as [|a l]; cbn [infer_type].
    - split; [discriminate|]. intros (_ & ? & ? & [] & _).
    - destruct (forallb _ l) eqn:E.
      + split; [discriminate|]. intros (_ & x & y & Hx & Hy & Hne). exfalso. apply Hne.
        rewrite forallb_forall in E.
        assert (A : forall c, In c (a :: l) -> term_wtype (a_term c) = term_wtype (a_term a)).
        { intros c [<-|Hc]; [reflexivity|]. now apply wtype_eqb_eq, E. }
        now rewrite (A x), (A y).
      + split.
        * intros H. injection H as <-. split; [reflexivity|].
          assert (X : exists b, In b l /\ wtype_eqb (term_wtype (a_term b)) (term_wtype (a_term a)) = false).
          { clear -E. induction l as [|b l IH]; [discriminate|]. cbn in E. apply andb_false_iff in E.
            destruct E as [E|E]; [exists b; split; [now left|exact E]|].
            destruct (IH E) as (c & Hc & Ec). exists c. split; [now right|exact Ec]. }
          destruct X as (b & Hb & Eb). exists b, a. split; [now right|]. split; [now left|].
          intros H. apply wtype_eqb_eq in H. congruence.
        * intros [-> _]. reflexivity.
  Qed.

  Lemma term_wtype_spec (t : term T) :
    term_wtype t = match t with
                   | TShape _ s => match is_constant t with Some _ => WTakagiSugeno
                                   | None => if shape_monotonic s then WTsukamoto else WAutomatic end
                   | TDiscrete _ _ _ => WAutomatic
                   | TLinear _ _ | TFunction _ _ _ => WTakagiSugeno
                   end.
  Proof. destruct t as [n s| | |]; try reflexivity. destruct s; reflexivity. Qed.

  Lemma resolve_explicit ty l : ty <> WAutomatic -> resolve_type ty l = Ok ty.
  Proof. destruct ty; [congruence|reflexivity|reflexivity]. Qed.

  (* removing an activation keeps a successful inference (unless nothing is left) *)
  Lemma resolve_remove ty l1 a l2 this_type :
    resolve_type ty (l1 ++ a :: l2) = Ok this_type -> l1 ++ l2 <> [] -> resolve_type ty (l1 ++ l2) = Ok this_type.
  Proof.
    destruct ty; cbn [resolve_type]; try tauto.
    rewrite !infer_type_ok. intros [[H _]|[_ H]] Hne; [destruct l1; discriminate|].
    right. split; [exact Hne|]. intros b Hb. apply H. rewrite in_app_iff in *. cbn. tauto.
  Qed.

  (* ---- the loop *)
  Variables tm tt : term T -> T -> result T.

  Lemma wloop_app ty G1 G2 st :
    wloop tm tt ty (G1 ++ G2) st = (do st1 <- wloop tm tt ty G1 st; wloop tm tt ty G2 st1).
  Proof.
    revert st. induction G1 as [|g G1 IH]; intros st; [reflexivity|].
    cbn [app wloop]. destruct (term_value tm tt ty (a_term g) (a_degree g)); cbn [bind]; [apply IH|reflexivity].
  Qed.

  (* a group whose step leaves the state unchanged can be inserted anywhere *)
  Lemma wloop_insert_neutral ty X g0 Y st z :
    term_value tm tt ty (a_term g0) (a_degree g0) = Ok z ->
    (forall x : T, add x (wcontrib (a_degree g0) z) = x) -> (forall x : T, add x (a_degree g0) = x) ->
    wloop tm tt ty (X ++ g0 :: Y) st = wloop tm tt ty (X ++ Y) st.
  Proof.
    intros Hz H1 H2. rewrite !wloop_app. destruct (wloop tm tt ty X st) as [[ws wt]|e]; cbn [bind]; [|reflexivity].
    cbn [wloop]. rewrite Hz. cbn [bind fst snd]. now rewrite H1, H2.
  Qed.

  Lemma wloop_values ty G st zs : group_values tm tt ty G = Ok zs ->
    exists st', wloop tm tt ty G st = Ok st'.
  Proof.
    revert st zs. induction G as [|g G IH]; intros st zs H; [now exists st|].
    cbn in *. destruct (term_value tm tt ty (a_term g) (a_degree g)); cbn in *; [|discriminate].
    destruct (group_values tm tt ty G) as [zs'|]; cbn in *; [|discriminate]. eapply IH. reflexivity.
  Qed.

  (* ---- inserting an activation of a NEW name: one more group, somewhere; the others unchanged *)
  Definition gfold (s : snormx) G l := fold_left (fun groups a => group_insert s a groups) l G.

  Lemma group_insert_new s a G : ~ In (act_name a) (names G) -> group_insert s a G = G ++ [new_group a].
  Proof.
    induction G as [|g G IH]; intros H; [reflexivity|]. cbn [group_insert].
    destruct (String.eqb (act_name g) (act_name a)) eqn:E.
    - apply String.eqb_eq in E. exfalso. apply H. now left.
    - cbn. f_equal. apply IH. intros H2. apply H. now right.
  Qed.

  Lemma group_insert_skip s b X g0 Y : act_name b <> act_name g0 ->
    exists X' Y', group_insert s b (X ++ g0 :: Y) = X' ++ g0 :: Y' /\ group_insert s b (X ++ Y) = X' ++ Y'.
  Proof.
    intros Hne. induction X as [|x X IH].
    - exists [], (group_insert s b Y). cbn [app group_insert].
      apply not_eq_sym, String.eqb_neq in Hne. now rewrite Hne.
    - cbn [app group_insert]. destruct (String.eqb (act_name x) (act_name b)).
      + exists (update_group s x b :: X), Y. split; reflexivity.
      + destruct IH as (X' & Y' & E1 & E2). exists (x :: X'), Y'. cbn [app]. now rewrite E1, E2.
  Qed.

  Lemma gfold_skip s l X g0 Y : ~ In (act_name g0) (names l) ->
    exists X' Y', gfold s (X ++ g0 :: Y) l = X' ++ g0 :: Y' /\ gfold s (X ++ Y) l = X' ++ Y'.
  Proof.
    revert X Y. induction l as [|b l IH]; intros X Y H; [now exists X, Y|].
    cbn [gfold fold_left].
    destruct (@group_insert_skip s b X g0 Y) as (X1 & Y1 & E1 & E2).
    { intros E. apply H. left. exact E. }
    rewrite E1, E2. apply IH. intros H2. apply H. now right.
  Qed.

  Lemma grouped_app agg l1 l2 :
    grouped_terms agg (l1 ++ l2) = gfold (agg_or_sum agg) (grouped_terms agg l1) l2.
  Proof. unfold grouped_terms, gfold. now rewrite fold_left_app. Qed.
  Lemma gfold_cons s G a l : gfold s G (a :: l) = gfold s (group_insert s a G) l.
  Proof. reflexivity. Qed.

  Lemma grouped_insert_new agg l1 a l2 : ~ In (act_name a) (names (l1 ++ l2)) ->
    exists X Y, grouped_terms agg (l1 ++ a :: l2) = X ++ new_group a :: Y /\ grouped_terms agg (l1 ++ l2) = X ++ Y.
  Proof.
    intros H. rewrite !grouped_app, gfold_cons. rewrite group_insert_new.
    2:{ rewrite grouped_names, first_names_In. intros H2. apply H. unfold names in *. rewrite map_app, in_app_iff. now left. }
    pose proof (@gfold_skip (agg_or_sum agg) l2 (grouped_terms agg l1) (new_group a) []) as K.
    rewrite app_nil_r in K. apply K.
    rewrite act_name_new. intros H2. apply H. unfold names in *. rewrite map_app, in_app_iff. now right.
  Qed.

  (* ---- inserting an activation of an EXISTING name, after its first occurrence, whose update is the identity *)
  Lemma group_insert_fix s a G :
    (forall g, In g G -> act_name g = act_name a -> update_group s g a = g) -> In (act_name a) (names G) ->
    group_insert s a G = G.
  Proof.
    induction G as [|g G IH]; intros H Hin; [destruct Hin|]. cbn [group_insert].
    destruct (String.eqb (act_name g) (act_name a)) eqn:E.
    - apply String.eqb_eq in E. f_equal. apply H; [now left|exact E].
    - f_equal. apply IH; [intros; apply H; [now right|assumption]|].
      destruct Hin as [Hin|Hin]; [|exact Hin]. apply String.eqb_neq in E. congruence.
  Qed.

  Lemma grouped_insert_existing agg l1 a l2 :
    In (act_name a) (names l1) ->
    (forall g, In g (grouped_terms agg l1) -> act_name g = act_name a ->
               sanitize (snormx_compute (agg_or_sum agg) (a_degree g) (a_degree a)) = a_degree g) ->
    grouped_terms agg (l1 ++ a :: l2) = grouped_terms agg (l1 ++ l2).
  Proof.
    intros Hin H. rewrite !grouped_app, gfold_cons.
    rewrite group_insert_fix; [reflexivity| |].
    - intros g Hg En. unfold update_group. rewrite (H g Hg En). now destruct g.
    - now rewrite grouped_names, first_names_In.
  Qed.
End Generic.

(* ---- Tsukamoto needs monotonic terms (standard evaluations) *)
Section TsukamotoGeneric.
  Context {T : Type} {N : Num T}.
  Variable tbl : @value_table T.

  Lemma std_tsukamoto_ok (t : term T) w : has_tsukamoto t = true -> exists z, std_tsukamoto t w = Ok z.
  Proof.
    destruct t as [n s| | |]; cbn; try discriminate. destruct (shape_tsukamoto s) as [f|]; [|discriminate].
    intros _. now exists (f w).
  Qed.
  Lemma std_tsukamoto_err (t : term T) w : has_tsukamoto t = false -> std_tsukamoto t w = Err ERuntime.
  Proof. destruct t as [n s| | |]; cbn; try reflexivity. destruct (shape_tsukamoto s); [discriminate|reflexivity]. Qed.
  Lemma std_tsukamoto_cases (t : term T) w : (exists z, std_tsukamoto t w = Ok z) \/ std_tsukamoto t w = Err ERuntime.
  Proof. destruct (has_tsukamoto t) eqn:E; [left; now apply std_tsukamoto_ok|right; now apply std_tsukamoto_err]. Qed.

  Lemma has_tsukamoto_monotonic (t : term T) :
    has_tsukamoto t = match t with TShape _ s => shape_monotonic s | _ => false end.
  Proof. destruct t as [n s| | |]; try reflexivity. destruct s; reflexivity. Qed.

  Lemma wloop_tsukamoto_err G : forall st, existsb (fun g => negb (has_tsukamoto (a_term g))) G = true ->
    wloop (std_membership tbl) std_tsukamoto WTsukamoto G st = Err ERuntime.
  Proof.
    induction G as [|g G IH]; intros st H; [discriminate|]. cbn in H. cbn [wloop term_value].
    destruct (has_tsukamoto (a_term g)) eqn:E.
    - destruct (std_tsukamoto_ok (a_term g) (a_degree g) E) as (z & ->). cbn [bind]. apply IH. exact H.
    - now rewrite std_tsukamoto_err.
  Qed.
  Lemma wloop_tsukamoto_ok G : forall st, forallb (fun g => has_tsukamoto (a_term g)) G = true ->
    exists st', wloop (std_membership tbl) std_tsukamoto WTsukamoto G st = Ok st'.
  Proof.
    induction G as [|g G IH]; intros st H; [now exists st|]. cbn in H. apply andb_true_iff in H. destruct H as [H1 H2].
    cbn [wloop term_value]. destruct (std_tsukamoto_ok (a_term g) (a_degree g) H1) as (z & ->). cbn [bind]. now apply IH.
  Qed.
End TsukamotoGeneric.

(* ================================================================================================ *)
(* 2. Over the reals                                                                                 *)

Section OverR.
  Local Open Scope R_scope.
  Implicit Types (l G : list (activated R)).

  Fixpoint sum_w G : R := match G with [] => 0 | g :: G' => a_degree g + sum_w G' end.
  Fixpoint sum_wz G (zs : list R) : R :=
    match G, zs with g :: G', z :: zs' => a_degree g * z + sum_wz G' zs' | _, _ => 0 end.

  Lemma sanitize_R (d : R) : sanitize d = d.
  Proof. reflexivity. Qed.
  Lemma zero_R : (zero : R) = 0.
  Proof. unfold zero. unR. f_equal. Qed.
  Lemma one_R : (one : R) = 1.
  Proof. unfold one. unR. f_equal. Qed.

  (* over R the guard is invisible: 0 * z = 0 *)
  Lemma wcontrib_R (w z : R) : wcontrib w z = w * z.
  Proof.
    unfold wcontrib, where_. rewrite zero_R. change (eqb w 0) with (Reqb w 0).
    destruct (Reqb_spec w 0) as [->|_]; [ring|reflexivity].
  Qed.

  Section Loop.
    Variables tm tt : term R -> R -> result R.

    Lemma wloop_R ty G : forall zs st, group_values tm tt ty G = Ok zs ->
      wloop tm tt ty G st = Ok (fst st + sum_wz G zs, snd st + sum_w G).
    Proof.
      induction G as [|g G IH]; intros zs st H.
      - cbn in H. injection H as <-. destruct st as [x y]. cbn [wloop fst snd sum_wz sum_w]. now rewrite !Rplus_0_r.
      - cbn [group_values] in H. cbn [wloop].
        destruct (term_value tm tt ty (a_term g) (a_degree g)) as [z|]; cbn [bind] in *; [|discriminate].
        destruct (group_values tm tt ty G) as [zs'|] eqn:E; cbn [bind] in H; [|discriminate]. injection H as <-.
        rewrite (IH zs' _ eq_refl). cbn [fst snd sum_wz sum_w]. rewrite wcontrib_R. unR. f_equal. f_equal; ring.
    Qed.

    Lemma winit_R l : winit l = (0, 0) :> R * R.
    Proof. unfold winit. rewrite zero_R. destruct l; reflexivity. Qed.

    Theorem wavg_spec_R ty agg l this_type zs :
      resolve_type ty l = Ok this_type ->
      group_values tm tt this_type (grouped_terms agg l) = Ok zs ->
      sum_w (grouped_terms agg l) <> 0 ->
      weighted_average tm tt ty agg l = Ok (sum_wz (grouped_terms agg l) zs / sum_w (grouped_terms agg l)).
    Proof.
      intros Hty Hz Hw. unfold weighted_average, weighted_defuzzify. rewrite Hty. cbn [bind].
      rewrite (wloop_R _ _ _ Hz), winit_R. cbn [bind wfinal fst snd]. unR. f_equal. now rewrite !Rplus_0_l.
    Qed.

    Theorem wsum_spec_R ty agg l this_type zs :
      resolve_type ty l = Ok this_type ->
      group_values tm tt this_type (grouped_terms agg l) = Ok zs ->
      sum_w (grouped_terms agg l) <> 0 ->
      weighted_sum tm tt ty agg l = Ok (sum_wz (grouped_terms agg l) zs).
    Proof.
      intros Hty Hz Hw. unfold weighted_sum, weighted_defuzzify. rewrite Hty. cbn [bind].
      rewrite (wloop_R _ _ _ Hz), winit_R. cbn [bind wfinal fst snd]. unR. f_equal. rewrite !Rplus_0_l. now field.
    Qed.
  End Loop.

  (* ---- the average of constants *)
  Lemma grouped_term_in (agg : option snormx) l g : In g (grouped_terms agg l) ->
    exists a, In a l /\ a_term g = a_term a.
  Proof.
    intros H. destruct (grouped_group_ok _ _ _ H) as (a & rest & E1 & E2 & _). exists a. split; [|exact E2].
    assert (Ha : In a (occurrences (act_name g) l)) by (rewrite E1; now left).
    unfold occurrences in Ha. now apply filter_In in Ha.
  Qed.

  Lemma sum_w_nonneg G : (forall g, In g G -> 0 <= a_degree g) -> 0 <= sum_w G.
  Proof.
    induction G as [|g G IH]; intros H; cbn; [lra|].
    assert (0 <= a_degree g) by (apply H; now left). assert (0 <= sum_w G) by (apply IH; intros; apply H; now right). lra.
  Qed.

  Lemma const_bounds (tbl : @value_table R) tt ty lo hi G : ty <> WTsukamoto ->
    (forall g, In g G -> exists c, is_constant (a_term g) = Some c /\ lo <= c <= hi) ->
    (forall g, In g G -> 0 <= a_degree g) ->
    exists zs, group_values (std_membership tbl) tt ty G = Ok zs /\ lo * sum_w G <= sum_wz G zs <= hi * sum_w G.
  Proof.
    intros Hty. induction G as [|g G IH]; intros Hc Hw.
    - exists []. split; [reflexivity|]. cbn. lra.
    - destruct IH as (zs & E & B); [intros; apply Hc; now right|intros; apply Hw; now right|].
      destruct (Hc g (or_introl eq_refl)) as (c & Ec & Bc). pose proof (Hw g (or_introl eq_refl)) as Wg.
      exists (c :: zs). split.
      + cbn [group_values]. rewrite E.
        assert (V : term_value (std_membership tbl) tt ty (a_term g) (a_degree g) = Ok c).
        { destruct ty; [| |congruence]; cbn [term_value]; destruct (a_term g) as [n s| | |]; cbn in Ec; try discriminate;
            destruct s; cbn in Ec; try discriminate; injection Ec as ->; reflexivity. }
        rewrite V. reflexivity.
      + cbn [sum_w sum_wz]. nra.
  Qed.

  Theorem wavg_between_constants_R (tbl : @value_table R) tt ty agg l lo hi :
    ty <> WTsukamoto ->
    (forall a, In a l -> exists c, is_constant (a_term a) = Some c /\ lo <= c <= hi) ->
    (forall g, In g (grouped_terms agg l) -> 0 <= a_degree g) ->
    0 < sum_w (grouped_terms agg l) ->
    exists y, weighted_average (std_membership tbl) tt ty agg l = Ok y /\ lo <= y <= hi.
  Proof.
    intros Hty Hc Hw Hpos.
    assert (Hl : l <> []). { intros ->. cbn in Hpos. lra. }
    assert (Hres : exists this_type, resolve_type ty l = Ok this_type /\ this_type <> WTsukamoto).
    { destruct ty; [|exists WTakagiSugeno; split; [reflexivity|discriminate]|congruence].
      exists WTakagiSugeno. split; [|discriminate]. cbn [resolve_type]. apply infer_type_ok. right. split; [exact Hl|].
      intros a Ha. destruct (Hc a Ha) as (c & Ec & _). destruct (a_term a) as [n s| | |]; try discriminate.
      destruct s; try discriminate. reflexivity. }
    destruct Hres as (this_type & Hres & Hnt).
    destruct (@const_bounds tbl tt this_type lo hi (grouped_terms agg l) Hnt) as (zs & Ez & B).
    { intros g Hg. destruct (grouped_term_in _ _ _ Hg) as (a & Ha & ->). now apply Hc. }
    { exact Hw. }
    eexists. split; [apply (wavg_spec_R _ _ _ _ _ Hres Ez); lra|].
    set (W := sum_w (grouped_terms agg l)) in *. set (X := sum_wz (grouped_terms agg l) zs) in *.
    split.
    - apply (Rmult_le_reg_r W); [exact Hpos|]. unfold Rdiv. rewrite Rmult_assoc, Rinv_l by lra. lra.
    - apply (Rmult_le_reg_r W); [exact Hpos|]. unfold Rdiv. rewrite Rmult_assoc, Rinv_l by lra. lra.
  Qed.

  (* ---- degrees in [0,1] give non-negative weights, whatever the aggregation operator *)
  Lemma snorm_range_R sn a b : sn <> S_UnboundedSum -> unit a -> unit b -> unit (snorm_compute sn a b).
  Proof.
    intros Hn Ha Hb. destruct sn; cbn [snorm_compute]; try congruence.
    - rewrite AlgebraicSum_eq. now apply (proj1 AlgebraicSum_laws).
    - rewrite BoundedSum_eq. now apply (proj1 BoundedSum_laws).
    - rewrite DrasticSum_eq. now apply (proj1 DrasticSum_laws).
    - rewrite EinsteinSum_eq. now apply (proj1 EinsteinSum_laws).
    - rewrite HamacherSum_eq. now apply (proj1 HamacherSum_laws).
    - rewrite Maximum_eq. now apply (proj1 Maximum_laws).
    - rewrite NilpotentMaximum_eq. now apply (proj1 NilpotentMaximum_laws).
    - rewrite NormalizedSum_eq. now apply (proj1 NormalizedSum_laws).
  Qed.

  Lemma grouped_degrees_nonneg_R agg l :
    (forall a, In a l -> unit (a_degree a)) -> forall g, In g (grouped_terms agg l) -> 0 <= a_degree g.
  Proof.
    intros Hu.
    assert (Sharp : forall a b : R, unit a -> unit b -> unit (snormx_compute SSharp a b)).
    { intros a b [? ?] [? ?]. cbn [snormx_compute]. unR. unfold unit. split; lra. }
    assert (Usum : forall a b : R, 0 <= a -> unit b -> 0 <= snormx_compute (SN S_UnboundedSum) a b).
    { intros a b ? [? ?]. cbn. rewrite UnboundedSum_eq. unfold UnboundedSum. lra. }
    assert (Bounded : forall s, s <> SN S_UnboundedSum -> forall a b : R, unit a -> unit b -> unit (snormx_compute s a b)).
    { intros [sn|] Hs a b Ha Hb; [|now apply Sharp]. apply snorm_range_R; [congruence|assumption|assumption]. }
    assert (D : {agg_or_sum agg = SN S_UnboundedSum} + {agg_or_sum agg <> SN S_UnboundedSum}).
    { destruct (agg_or_sum agg) as [[]|]; (left; reflexivity) || (right; discriminate). }
    destruct D as [E|Ne].
    - apply (@grouped_degree_inv R NumR (fun d => 0 <= d)).
      + intros a Ha. rewrite sanitize_R. apply (Hu a Ha).
      + intros d a Hd Ha. rewrite sanitize_R, E. apply Usum; [exact Hd|now apply Hu].
    - intros g Hg. apply (@grouped_degree_inv R NumR unit agg l); [| |exact Hg].
      + intros a Ha. rewrite sanitize_R. now apply Hu.
      + intros d a Hd Ha. rewrite sanitize_R. apply Bounded; [exact Ne|exact Hd|now apply Hu].
  Qed.
End OverR.

(* ================================================================================================ *)
(* 3. Over the extended reals (IEEE special values)                                                  *)

Section OverER.
  Local Open Scope R_scope.
  Implicit Types (l G : list (activated ER)).

  Lemma zero_ER : (zero : ER) = Fin 0.
  Proof. reflexivity. Qed.
  Lemma one_ER : (one : ER) = Fin 1.
  Proof. reflexivity. Qed.
  Lemma sanitize_fin r : sanitize (Fin r) = Fin r.
  Proof. reflexivity. Qed.
  Lemma sanitize_zero_ER : sanitize (zero : ER) = zero.
  Proof. rewrite zero_ER. reflexivity. Qed.

  Lemma ERadd_0_r x r : r = 0 -> ERadd x (Fin r) = x.
  Proof. intros ->. destruct x; cbn; try reflexivity. f_equal. ring. Qed.
  Lemma Rsgn_0 r : r = 0 -> Rsgn r = Eq.
  Proof. intros ->. unfold Rsgn. destruct (Rlt_dec 0 0); [lra|]. reflexivity. Qed.
  Lemma Rsgn_neg r : r < 0 -> Rsgn r = Lt.
  Proof. intros H. unfold Rsgn. destruct (Rlt_dec 0 r); [lra|]. destruct (Rlt_dec r 0); [reflexivity|lra]. Qed.
  Lemma ERdiv_0_0 x y : x = 0 -> y = 0 -> ERdiv (Fin x) (Fin y) = NaN.
  Proof. intros -> ->. unfold ERdiv. destruct (Req_EM_T 0 0); [|lra]. now rewrite Rsgn_0. Qed.

  Lemma wfinal_ER_nan average x y : x = 0 -> y = 0 -> wfinal average (Fin x, Fin y) = NaN.
  Proof.
    intros Hx Hy. unfold wfinal. cbn [fst snd]. change (div (Fin x) (Fin y)) with (ERdiv (Fin x) (Fin y)).
    rewrite ERdiv_0_0 by assumption. now destruct average.
  Qed.
  Lemma wfinal_ER_fin average x y : y <> 0 -> exists r, wfinal average (Fin x, Fin y) = Fin r.
  Proof.
    intros Hy. unfold wfinal. cbn [fst snd]. change (div (Fin x) (Fin y)) with (ERdiv (Fin x) (Fin y)).
    rewrite ERdiv_fin by assumption. destruct average; eexists; reflexivity.
  Qed.
  Lemma wfinal_ER_nan_l average y : wfinal average (@nan ER NumER, y) = NaN.
  Proof. destruct average; reflexivity. Qed.

  Definition toR (x : ER) : R := match x with Fin r => r | _ => 0 end.
  Fixpoint sum_wE G : R := match G with [] => 0 | g :: G' => toR (a_degree g) + sum_wE G' end.
  Fixpoint sum_wzE G (zs : list ER) : R :=
    match G, zs with g :: G', z :: zs' => toR (a_degree g) * toR z + sum_wzE G' zs' | _, _ => 0 end.
  Definition finite (x : ER) : Prop := exists r, x = Fin r.

  (* the guarded product *)
  Lemma wcontrib_zero_ER z : wcontrib (Fin 0) z = Fin 0.
  Proof.
    unfold wcontrib, where_. rewrite zero_ER. change (eqb (Fin 0) (Fin 0)) with (Reqb 0 0).
    destruct (Reqb_spec 0 0) as [_|H]; [reflexivity|now contradiction H].
  Qed.
  Lemma wcontrib_fin_ER r z : wcontrib (Fin r) (Fin z) = Fin (r * z).
  Proof.
    unfold wcontrib, where_. rewrite zero_ER. change (eqb (Fin r) (Fin 0)) with (Reqb r 0).
    destruct (Reqb_spec r 0) as [->|_]; [f_equal; ring|reflexivity].
  Qed.
  Lemma wcontrib_ER r z : (r <> 0 -> finite z) -> wcontrib (Fin r) z = Fin (r * toR z).
  Proof.
    intros H. destruct (Req_dec r 0) as [->|Hr].
    - rewrite wcontrib_zero_ER. f_equal. ring.
    - destruct (H Hr) as (rz & ->). apply wcontrib_fin_ER.
  Qed.
  (* a group and its z: finite non-negative weight, and z finite unless the weight is zero *)
  Definition wz_ok (g : activated ER) (z : ER) : Prop := exists r, a_degree g = Fin r /\ 0 <= r /\ (r <> 0 -> finite z).

  Section Loop.
    Variables tm tt : term ER -> ER -> result ER.

    Lemma wloop_ER ty G : forall zs x y, group_values tm tt ty G = Ok zs ->
      Forall2 wz_ok G zs ->
      wloop tm tt ty G (Fin x, Fin y) = Ok (Fin (x + sum_wzE G zs), Fin (y + sum_wE G)).
    Proof.
      induction G as [|g G IH]; intros zs x y H F.
      - cbn in H. injection H as <-. cbn [wloop sum_wzE sum_wE]. now rewrite !Rplus_0_r.
      - cbn [group_values] in H. cbn [wloop].
        destruct (term_value tm tt ty (a_term g) (a_degree g)) as [z|]; cbn [bind] in *; [|discriminate].
        destruct (group_values tm tt ty G) as [zs'|] eqn:E; cbn [bind] in H; [|discriminate]. injection H as <-.
        inversion F as [|? ? ? ? (rw & Ew & Hrw & Hfz) F']; subst.
        rewrite Ew. cbn [fst snd]. rewrite (wcontrib_ER Hfz).
        change (add (Fin x) (Fin (rw * toR z))) with (Fin (x + rw * toR z)).
        change (add (Fin y) (Fin rw)) with (Fin (y + rw)).
        rewrite (IH zs' _ _ eq_refl F').
        cbn [sum_wzE sum_wE]. rewrite Ew. cbn [toR]. f_equal. f_equal; f_equal; ring.
    Qed.

    Lemma wz_ok_degrees G zs : Forall2 wz_ok G zs -> forall g, In g G -> exists r, a_degree g = Fin r /\ 0 <= r.
    Proof.
      induction 1 as [|g z G zs (r & Er & Hr & _) _ IH]; intros g' Hg'; [destruct Hg'|].
      destruct Hg' as [<-|Hg']; [now exists r|now apply IH].
    Qed.

    Lemma sum_wE_zero_iff G : (forall g, In g G -> exists r, a_degree g = Fin r /\ 0 <= r) ->
      (sum_wE G = 0 <-> forall g, In g G -> a_degree g = Fin 0).
    Proof.
      induction G as [|g G IH]; intros H; [cbn; split; [intros _ ? []|reflexivity]|].
      destruct (H g (or_introl eq_refl)) as (r & Er & Hr).
      assert (IH' := IH (fun g' Hg' => H g' (or_intror Hg'))).
      assert (P : 0 <= sum_wE G).
      { clear -H. induction G as [|g' G IHG]; cbn; [lra|].
        destruct (H g' (or_intror (or_introl eq_refl))) as (r' & Er' & Hr'). rewrite Er'. cbn [toR].
        assert (Q : 0 <= sum_wE G); [|lra]. apply IHG. intros g0 [<-|Hg0]; apply H; [now left|right; now right]. }
      cbn [sum_wE]. rewrite Er. cbn [toR]. split.
      - intros S. assert (R0 : r = 0) by lra. assert (S0 : sum_wE G = 0) by lra. intros g0 [<-|Hg0]; [now subst|]. now apply IH'.
      - intros A. assert (E0 : Fin r = Fin 0) by (rewrite <- Er; apply A; now left). injection E0 as ->.
        assert (sum_wE G = 0); [|lra]. apply IH'. intros; apply A; now right.
    Qed.

    Lemma sum_wzE_zero G zs : (forall g, In g G -> a_degree g = Fin 0) -> sum_wzE G zs = 0.
    Proof.
      revert zs. induction G as [|g G IH]; intros zs H; [reflexivity|]. destruct zs as [|z zs]; [reflexivity|].
      cbn [sum_wzE]. rewrite (H g (or_introl eq_refl)), IH; [cbn; ring|]. intros; apply H; now right.
    Qed.

    (* NaN exactly when there are no activations or all the weights are zero (non-negative finite weights; z finite
       wherever the weight is not zero — a zero weight may come with an infinite or NaN z) *)
    Theorem nan_iff_ER average ty agg l this_type zs :
      resolve_type ty l = Ok this_type ->
      group_values tm tt this_type (grouped_terms agg l) = Ok zs ->
      Forall2 wz_ok (grouped_terms agg l) zs ->
      exists y, weighted_defuzzify tm tt average ty agg l = Ok y /\
                (isnan y = true <-> l = [] \/ forall g, In g (grouped_terms agg l) -> a_degree g = Fin 0).
    Proof.
      intros Hty Hz F. pose proof (wz_ok_degrees F) as Hw. unfold weighted_defuzzify. rewrite Hty. cbn [bind].
      destruct l as [|a0 l0].
      - cbn [grouped_terms fold_left wloop winit bind wfinal fst snd].
        exists NaN. split; [unfold winit; now rewrite wfinal_ER_nan_l|]. split; [now left|reflexivity].
      - set (l := a0 :: l0) in *. unfold winit. fold l. replace (match l with [] => nan | _ :: _ => zero end) with (Fin 0)
          by (unfold l; now rewrite zero_ER).
        rewrite zero_ER.
        rewrite (wloop_ER _ _ _ Hz F).
        cbn [bind wfinal fst snd]. rewrite !Rplus_0_l.
        set (G := grouped_terms agg l) in *.
        destruct (Req_dec (sum_wE G) 0) as [E0|N0].
        + assert (A : forall g, In g G -> a_degree g = Fin 0) by (now apply sum_wE_zero_iff).
          exists NaN. split.
          * rewrite wfinal_ER_nan; [reflexivity|now apply sum_wzE_zero|exact E0].
          * split; [now right|reflexivity].
        + destruct (wfinal_ER_fin average (sum_wzE G zs) N0) as (r & ->).
          exists (Fin r). split; [reflexivity|]. split; [discriminate|].
          intros [D|A]; [discriminate|]. exfalso. apply N0. now apply sum_wE_zero_iff.
    Qed.

    (* a zero-degree activation of a NEW name, inserted anywhere, is neutral whatever its z (finite, infinite, NaN);
       the term must be evaluable (z is computed before the guard: an exception still propagates) *)
    Theorem zero_degree_neutral_new_ER average ty agg l1 a l2 this_type z :
      a_degree a = zero ->
      ~ In (act_name a) (names (l1 ++ l2)) ->
      resolve_type ty (l1 ++ a :: l2) = Ok this_type ->
      term_value tm tt this_type (a_term a) zero = Ok z ->
      weighted_defuzzify tm tt average ty agg (l1 ++ a :: l2) = weighted_defuzzify tm tt average ty agg (l1 ++ l2).
    Proof.
      intros Hd Hn Hty Hz.
      assert (Hg0 : a_degree (new_group a) = Fin 0).
      { cbn [new_group a_degree]. now rewrite Hd, sanitize_zero_ER, zero_ER. }
      assert (Hv : term_value tm tt this_type (a_term (new_group a)) (a_degree (new_group a)) = Ok z).
      { rewrite Hg0, <- zero_ER. exact Hz. }
      destruct (l1 ++ l2) as [|b l'] eqn:El.
      - apply app_eq_nil in El. destruct El as [-> ->]. cbn [app].
        unfold weighted_defuzzify. cbn [app] in Hty. rewrite Hty. cbn [bind].
        change (grouped_terms agg [a]) with [new_group a]. cbn [wloop]. rewrite Hv. cbn [bind winit fst snd].
        rewrite Hg0, zero_ER, wcontrib_zero_ER.
        replace (resolve_type ty []) with (Ok (match ty with WAutomatic => WAutomatic | t => t end) : result wtype)
          by (now destruct ty).
        cbn [bind grouped_terms fold_left wloop fst snd].
        change (add (Fin 0) (Fin 0)) with (Fin (0 + 0)).
        rewrite wfinal_ER_nan by ring. unfold winit. now rewrite wfinal_ER_nan_l.
      - assert (Hne : l1 ++ l2 <> []) by (rewrite El; discriminate).
        pose proof (resolve_remove _ _ _ _ Hty Hne) as Hty2. rewrite <- El in *.
        unfold weighted_defuzzify. rewrite Hty, Hty2. cbn [bind].
        assert (W : winit (l1 ++ a :: l2) = winit (l1 ++ l2) :> ER * ER).
        { unfold winit. rewrite El. now destruct l1. }
        rewrite W.
        destruct (@grouped_insert_new ER NumER agg l1 a l2 Hn) as (X & Y & -> & ->).
        rewrite (@wloop_insert_neutral ER NumER tm tt this_type X (new_group a) Y _ z Hv); [reflexivity| |].
        + intros x. rewrite Hg0, wcontrib_zero_ER. change (add x (Fin 0)) with (ERadd x (Fin 0)). now apply ERadd_0_r.
        + intros x. rewrite Hg0. change (add x (Fin 0)) with (ERadd x (Fin 0)). now apply ERadd_0_r.
    Qed.
  End Loop.
End OverER.

(* ================================================================================================ *)
(* 4. A zero-degree activation of a name that is already there (any numeric reading)                 *)

Section ExistingName.
  Context {T : Type} {N : Num T}.
  Variables tm tt : term T -> T -> result T.

  (* inserted after the first occurrence of its name; `S(d, 0) = d` for the degree d accumulated so far *)
  Theorem zero_degree_neutral_existing_gen average ty agg (l1 : list (activated T)) a l2 this_type :
    In (act_name a) (names l1) ->
    (forall g, In g (grouped_terms agg l1) -> act_name g = act_name a ->
               sanitize (snormx_compute (agg_or_sum agg) (a_degree g) (a_degree a)) = a_degree g) ->
    resolve_type ty (l1 ++ a :: l2) = Ok this_type ->
    weighted_defuzzify tm tt average ty agg (l1 ++ a :: l2) = weighted_defuzzify tm tt average ty agg (l1 ++ l2).
  Proof.
    intros Hin Hid Hty.
    assert (Hne : l1 ++ l2 <> []). { destruct l1; [destruct Hin|discriminate]. }
    unfold weighted_defuzzify. rewrite Hty, (resolve_remove _ _ _ _ Hty Hne). cbn [bind].
    rewrite (grouped_insert_existing agg l1 a l2 Hin Hid).
    assert (W : winit (l1 ++ a :: l2) = winit (l1 ++ l2) :> T * T). { destruct l1; [destruct Hin|reflexivity]. }
    now rewrite W.
  Qed.
End ExistingName.

Section IdentityER.
  Local Open Scope R_scope.

  Ltac er_split :=
    repeat match goal with
    | |- context [Rltb ?a ?b] => destruct (Rltb_spec a b)
    | |- context [Rleb ?a ?b] => destruct (Rleb_spec a b)
    | |- context [Reqb ?a ?b] => destruct (Reqb_spec a b)
    | |- context [Req_EM_T ?a ?b] => destruct (Req_EM_T a b)
    | |- context [Rlt_dec ?a ?b] => destruct (Rlt_dec a b)
    end.

  (* 0 is a right identity of every registered S-norm on [0,1], through the sanitising setter *)
  Lemma snorm_zero_identity_ER sn r : 0 <= r <= 1 -> sanitize (snorm_compute sn (Fin r) zero) = Fin r.
  Proof.
    intros Hr. rewrite zero_ER.
    destruct sn; cbn [snorm_compute]; ungen; unfold sanitize; unER; unfold Rlit;
    cbn [Z.leb Z.compare Z.mul Z.pow Z.pow_pos Pos.iter Pos.mul Z.opp Pos.compare Pos.compare_cont
         ERadd ERsub ERneg ERmul ERdiv ERmin ERmax ERltb EReqb ERleb ERisnan ERsigned_inf ERsgn cmul negb orb andb].
    all: er_split; cbn [ERadd ERsub ERneg ERmul ERdiv ERmin ERmax ERltb EReqb ERleb ERisnan ERsigned_inf ERsgn cmul negb orb andb].
    all: er_split.
    all: try (f_equal; lra).
    all: try (exfalso; lra).
    all: cbn [ERisnan]; try reflexivity.
    all: f_equal; field; lra.
  Qed.
  (* plain addition (no aggregation operator): for every finite degree *)
  Lemma usum_zero_identity_ER r : sanitize (snorm_compute S_UnboundedSum (Fin r) zero) = Fin r.
  Proof. rewrite zero_ER. cbn. f_equal. ring. Qed.

  Variables tm tt : term ER -> ER -> result ER.

  Theorem zero_degree_neutral_existing_ER average ty (agg : option snorm) (l1 : list (activated ER)) a l2 this_type :
    a_degree a = zero ->
    In (act_name a) (names l1) ->
    (forall g, In g (grouped_terms (option_map SN agg) l1) -> act_name g = act_name a ->
               exists r, a_degree g = Fin r /\ 0 <= r <= 1) ->
    resolve_type ty (l1 ++ a :: l2) = Ok this_type ->
    weighted_defuzzify tm tt average ty (option_map SN agg) (l1 ++ a :: l2) =
    weighted_defuzzify tm tt average ty (option_map SN agg) (l1 ++ l2).
  Proof.
    intros Hd Hin Hu Hty. apply (@zero_degree_neutral_existing_gen ER NumER tm tt average ty _ l1 a l2 this_type Hin); [|exact Hty].
    intros g Hg En. destruct (Hu g Hg En) as (r & -> & Hr). rewrite Hd.
    destruct agg as [sn|]; cbn [option_map agg_or_sum snormx_compute].
    - now apply snorm_zero_identity_ER.
    - apply usum_zero_identity_ER.
  Qed.
End IdentityER.

(* ================================================================================================ *)
(* 5. "An activation with degree 0 never changes the result": true of the guarded loop (standard term
      evaluations), false of the loop without the guard (finding F4, the pinned code before its repair)  *)

(* the loop as it was before `fix: weighted defuzzifiers returned nan when an activation had degree zero and an
   infinite value`: weighted_sum = weighted_sum + w * z *)
Section Unguarded.
  Context {T : Type} {N : Num T}.
  Variables tm tt : term T -> T -> result T.
  Fixpoint wloop_unguarded (this_type : wtype) (groups : list (activated T)) (st : T * T) : result (T * T) :=
    match groups with
    | [] => Ok st
    | g :: rest =>
      let w := a_degree g in
      do z <- term_value tm tt this_type (a_term g) w;
      wloop_unguarded this_type rest (add (fst st) (mul w z), add (snd st) w)
    end.
  Definition weighted_defuzzify_unguarded (average : bool) (ty : wtype) (agg : option snormx) (l : list (activated T)) : result T :=
    do this_type <- resolve_type ty l;
    do st <- wloop_unguarded this_type (grouped_terms agg l) (winit l);
    Ok (wfinal average st).
End Unguarded.
Definition std_defuzzify_unguarded {T : Type} {N : Num T} (tbl : @value_table T) :=
  weighted_defuzzify_unguarded (std_membership tbl) std_tsukamoto.

Section ZeroDegree.
  Local Open Scope R_scope.

  (* for an activation of a new name whose term can be evaluated, under the standard term evaluations *)
  Definition zero_degree_neutral_for
      (defuzz : @value_table ER -> bool -> wtype -> option snormx -> list (activated ER) -> result ER) : Prop :=
    forall (tbl : @value_table ER) average ty agg (l1 : list (activated ER)) a l2 this_type,
      a_degree a = zero ->
      ~ In (act_name a) (names (l1 ++ l2)) ->
      resolve_type ty (l1 ++ a :: l2) = Ok this_type ->
      (exists z, term_value (std_membership tbl) std_tsukamoto this_type (a_term a) zero = Ok z) ->
      defuzz tbl average ty agg (l1 ++ a :: l2) = defuzz tbl average ty agg (l1 ++ l2).
  Definition zero_degree_neutral_statement : Prop := zero_degree_neutral_for std_defuzzify.

  Theorem zero_degree_neutral_std : zero_degree_neutral_statement.
  Proof.
    intros tbl average ty agg l1 a l2 this_type Hd Hn Hty (z & Hz).
    exact (zero_degree_neutral_new_ER (std_membership tbl) std_tsukamoto average ty agg l1 a l2 Hd Hn Hty Hz).
  Qed.

  Definition w_ramp : activated ER :=
    {| a_term := TShape "a" (Sh_Ramp (Fin 0) (Fin 1) (Fin 1)); a_degree := Fin (1/2); a_implication := None |}.
  Definition w_concave : activated ER :=
    {| a_term := TShape "b" (Sh_Concave (Fin 0) (Fin 1) (Fin 1)); a_degree := zero; a_implication := None |}.

  Ltac er_step :=
    match goal with
    | |- context [Req_EM_T ?a ?b] => destruct (Req_EM_T a b); try (exfalso; lra)
    | |- context [Rlt_dec ?a ?b] => destruct (Rlt_dec a b); try (exfalso; lra)
    end; cbv iota beta.
  Ltac er_cbv := cbv - [Rplus Rmult Rminus Ropp Rdiv Rinv IZR Req_EM_T Rlt_dec Rle_dec Rlt Rle].

  Lemma w_concave_z0 : std_tsukamoto (a_term w_concave) zero = Ok NInf.
  Proof. er_cbv. repeat er_step. reflexivity. Qed.
  Lemma w_type : resolve_type WAutomatic [w_ramp; w_concave] = Ok WTsukamoto.
  Proof. reflexivity. Qed.
  (* guarded (the code as it is): the infinite z of the zero-degree Concave is ignored *)
  Lemma w_avg_before : std_defuzzify [] true WAutomatic None [w_ramp] = Ok (Fin (1/2)).
  Proof. er_cbv. repeat er_step. f_equal. f_equal. field. Qed.
  Lemma w_avg_after : std_defuzzify [] true WAutomatic None [w_ramp; w_concave] = Ok (Fin (1/2)).
  Proof. er_cbv. repeat er_step. f_equal. f_equal. field. Qed.
  Lemma w_sum_after : std_defuzzify [] false WAutomatic None [w_ramp; w_concave] = Ok (Fin (1/4)).
  Proof. er_cbv. repeat er_step. f_equal. f_equal. field. Qed.
  (* unguarded (before the repair): 0 * -inf = NaN *)
  Lemma u_avg_before : std_defuzzify_unguarded [] true WAutomatic None [w_ramp] = Ok (Fin (1/2)).
  Proof. er_cbv. repeat er_step. f_equal. f_equal. field. Qed.
  Lemma u_avg_after : std_defuzzify_unguarded [] true WAutomatic None [w_ramp; w_concave] = Ok NaN.
  Proof. er_cbv. repeat er_step. reflexivity. Qed.
  Lemma u_sum_after : std_defuzzify_unguarded [] false WAutomatic None [w_ramp; w_concave] = Ok NaN.
  Proof. er_cbv. repeat er_step. reflexivity. Qed.

  Theorem zero_degree_neutral_unguarded_refuted : ~ zero_degree_neutral_for std_defuzzify_unguarded.
  Proof.
    intros H. specialize (H [] true WAutomatic None [w_ramp] w_concave [] WTsukamoto eq_refl).
    cbn [app] in H. rewrite u_avg_after, u_avg_before in H.
    assert (X : Ok NaN = Ok (Fin (1 / 2)) :> result ER); [|discriminate].
    apply H.
    - cbn. intros [E|[]]. discriminate.
    - reflexivity.
    - exists NInf. exact w_concave_z0.
  Qed.

  (* the same on binary64 (no oracle needed: Concave.tsukamoto is + - * / only) *)
  Definition f_ramp : activated float :=
    {| a_term := TShape "a" (Sh_Ramp 0%float 1%float 1%float); a_degree := 0.5%float; a_implication := None |}.
  Definition f_concave : activated float :=
    {| a_term := TShape "b" (Sh_Concave 0%float 1%float 1%float); a_degree := 0%float; a_implication := None |}.
  Definition fdefuzz average l := @std_defuzzify float (NumF true []) [] average WAutomatic None l.
  Definition fdefuzz_unguarded average l := @std_defuzzify_unguarded float (NumF true []) [] average WAutomatic None l.
  Definition res_feq (r : result float) (x : float) : bool := match r with Ok y => feq y x | Err _ => false end.
  Lemma f_avg_before : res_feq (fdefuzz true [f_ramp]) 0.5%float = true.
  Proof. vm_compute. reflexivity. Qed.
  Lemma f_avg_after : res_feq (fdefuzz true [f_ramp; f_concave]) 0.5%float = true.
  Proof. vm_compute. reflexivity. Qed.
  Lemma f_sum_after : res_feq (fdefuzz false [f_ramp; f_concave]) 0.25%float = true.
  Proof. vm_compute. reflexivity. Qed.
  Lemma fu_avg_after : res_feq (fdefuzz_unguarded true [f_ramp; f_concave]) PrimFloat.nan = true.
  Proof. vm_compute. reflexivity. Qed.
  Lemma fu_sum_after : res_feq (fdefuzz_unguarded false [f_ramp; f_concave]) PrimFloat.nan = true.
  Proof. vm_compute. reflexivity. Qed.
End ZeroDegree.

(* ================================================================================================ *)
(* 6. Final forms of the structural statements                                                       *)

Section Final.
  Context {T : Type} {N : Num T}.
  Implicit Types (l : list (activated T)).

  Theorem grouping_spec agg l :
    let G := grouped_terms agg l in
    names G = first_names l /\ NoDup (names G) /\ (forall n, In n (names G) <-> In n (names l)) /\
    forall g, In g G ->
      exists a rest, occurrences (act_name g) l = a :: rest /\ a_term g = a_term a /\ a_implication g = None /\
                     a_degree g = fold_degree (agg_or_sum agg) (a_degree a) (map a_degree rest).
  Proof.
    cbn zeta. split; [apply grouped_names|]. split; [apply grouped_NoDup|]. split.
    - intros n. rewrite grouped_names. apply first_names_In.
    - intros g Hg. exact (grouped_group_ok _ _ _ Hg).
  Qed.

  Theorem infer_type_spec l :
    (forall ty, infer_type l = Ok ty <->
                (l = [] /\ ty = WAutomatic) \/ (l <> [] /\ forall a, In a l -> term_wtype (a_term a) = ty)) /\
    (forall e, infer_type l = Err e <->
               e = EInternal /\ exists a b, In a l /\ In b l /\ term_wtype (a_term a) <> term_wtype (a_term b)).
  Proof. split; intros; [apply infer_type_ok|apply infer_type_err]. Qed.

  Theorem explicit_type_wins tm tt average ty agg l : ty <> WAutomatic ->
    weighted_defuzzify tm tt average ty agg l =
    (do st <- wloop tm tt ty (grouped_terms agg l) (winit l); Ok (wfinal average st)).
  Proof. intros H. unfold weighted_defuzzify. now rewrite (resolve_explicit l H). Qed.

  Theorem tsukamoto_requires_monotonic (tbl : @value_table T) average ty agg l :
    resolve_type ty l = Ok WTsukamoto ->
    (existsb (fun g => negb (has_tsukamoto (a_term g))) (grouped_terms agg l) = true ->
       std_defuzzify tbl average ty agg l = Err ERuntime) /\
    (forallb (fun g => has_tsukamoto (a_term g)) (grouped_terms agg l) = true ->
       exists y, std_defuzzify tbl average ty agg l = Ok y).
  Proof.
    intros Hty. unfold std_defuzzify, weighted_defuzzify. rewrite Hty. cbn [bind]. split; intros H.
    - now rewrite wloop_tsukamoto_err.
    - destruct (wloop_tsukamoto_ok tbl _ (winit l) H) as (st & ->). cbn [bind]. eexists. reflexivity.
  Qed.
End Final.
