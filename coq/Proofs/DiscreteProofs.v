(* Proofs about the Discrete term (Model/Discrete.v = height * numpy.interp) against Spec/SpecDiscrete.v. *)
From Coq Require Import ZArith Reals Bool List Sorted Lra Lia.
From VF Require Import Num NumR NumER Discrete SpecDiscrete.
Import ListNotations.
Local Open Scope R_scope.

(* ------------------------------------------------------------------------------------------------------------ *)
(* lists, StronglySorted                                                                                         *)

Section Lists.
  Context {A : Type}.

  Lemma SS_app_inv (Rel : A -> A -> Prop) (l1 l2 : list A) :
    StronglySorted Rel (l1 ++ l2) ->
    StronglySorted Rel l1 /\ StronglySorted Rel l2 /\ (forall a b, In a l1 -> In b l2 -> Rel a b).
  Proof.
    induction l1 as [|a l1 IH]; cbn [app]; intros HS.
    - repeat split; [constructor | assumption | intros a b []].
    - apply StronglySorted_inv in HS. destruct HS as [HS HF].
      destruct (IH HS) as (H1 & H2 & H3). rewrite Forall_forall in HF.
      repeat split.
      + constructor; [assumption|]. rewrite Forall_forall. intros y Hy. apply HF, in_or_app; left; exact Hy.
      + assumption.
      + intros u v [<-|Hu] Hv; [apply HF, in_or_app; right; exact Hv | exact (H3 u v Hu Hv)].
  Qed.

  Lemma SS_impl (R1 R2 : A -> A -> Prop) (l : list A) :
    (forall a b, R1 a b -> R2 a b) -> StronglySorted R1 l -> StronglySorted R2 l.
  Proof.
    intros HI HS. induction HS as [|a l HS IH HF]; constructor; [assumption|].
    eapply Forall_impl; [|exact HF]. intros b; apply HI.
  Qed.

  Lemma last_default (l : list A) (d d' : A) : l <> [] -> last l d = last l d'.
  Proof.
    induction l as [|a [|b l] IH]; intros HN; [congruence | reflexivity |].
    change (last (b :: l) d = last (b :: l) d'). apply IH. discriminate.
  Qed.

  Lemma last_cons_default (a : A) (l : list A) (d : A) : last (a :: l) d = last l a.
  Proof.
    revert a d. induction l as [|b l IH]; intros a d; [reflexivity|].
    change (last (b :: l) d = last (b :: l) a). rewrite (IH b d), (IH b a). reflexivity.
  Qed.

  Lemma last_app_r (l1 l2 : list A) (d : A) : l2 <> [] -> last (l1 ++ l2) d = last l2 d.
  Proof.
    intros HN. induction l1 as [|a l1 IH]; [reflexivity|].
    rewrite <- IH. cbn [app]. destruct (l1 ++ l2) eqn:HE; [|reflexivity].
    apply app_eq_nil in HE. destruct HE; congruence.
  Qed.

  Lemma last_In (l : list A) (d : A) : l <> [] -> In (last l d) l.
  Proof.
    induction l as [|a [|b l] IH]; intros HN; [congruence | left; reflexivity |].
    right. change (In (last (b :: l) d) (b :: l)). apply IH. discriminate.
  Qed.

  (* l = l1 ++ nth i l d :: l2 with |l1| = i *)
  Lemma nth_split_at (l : list A) (i : nat) (d : A) :
    (i < length l)%nat -> exists l1 l2, l = l1 ++ nth i l d :: l2 /\ length l1 = i.
  Proof.
    revert i. induction l as [|a l IH]; intros i Hi; [cbn in Hi; lia|].
    destruct i as [|i].
    - exists [], l. split; reflexivity.
    - cbn [length] in Hi. destruct (IH i ltac:(lia)) as (l1 & l2 & HE & HL).
      exists (a :: l1), l2. cbn [nth app length]. split; [f_equal; exact HE | lia].
  Qed.

  Lemma nth_app_length (l1 l2 : list A) (d : A) (k : nat) : nth (length l1 + k) (l1 ++ l2) d = nth k l2 d.
  Proof. rewrite app_nth2 by lia. f_equal. lia. Qed.
End Lists.

(* two consecutive entries of a list, as a split *)
Lemma nth_split_pair {A} (l : list A) (i : nat) (d : A) :
  (S i < length l)%nat -> exists l1 l2, l = l1 ++ nth i l d :: nth (S i) l d :: l2 /\ length l1 = i.
Proof.
  intros Hi. destruct (nth_split_at l i d ltac:(lia)) as (l1 & l2 & HE & HL).
  destruct l2 as [|b l2].
  - exfalso. rewrite HE, app_length in Hi. cbn in Hi. lia.
  - exists l1, l2. split; [|exact HL].
    assert (HS : nth (S i) l d = b).
    { rewrite HE at 1. rewrite <- HL. replace (S (length l1)) with (length l1 + 1)%nat by lia.
      rewrite nth_app_length. reflexivity. }
    rewrite HS. exact HE.
Qed.

Lemma strict_sorted xy : strict_x xy -> sorted_x xy.
Proof. apply SS_impl. intros a b; lra. Qed.

Lemma sorted_x_map xy : sorted_x xy <-> StronglySorted Rle (map fst xy).
Proof.
  unfold sorted_x. induction xy as [|p xy IH]; cbn [map]; split; intros HS; try constructor;
    apply StronglySorted_inv in HS; destruct HS as [HS HF].
  - apply IH, HS.
  - rewrite Forall_forall in *. intros y Hy. apply in_map_iff in Hy. destruct Hy as (q & <- & Hq). exact (HF q Hq).
  - apply IH, HS.
  - rewrite Forall_forall in *. intros q Hq. apply HF, in_map, Hq.
Qed.

(* in a sorted table every abscissa lies between the first and the last *)
Lemma sorted_head_le p rest q : sorted_x (p :: rest) -> In q (p :: rest) -> fst p <= fst q.
Proof.
  intros HS [<-|Hq]; [lra|]. apply StronglySorted_inv in HS. destruct HS as [_ HF].
  rewrite Forall_forall in HF. exact (HF q Hq).
Qed.

Lemma sorted_le_last xy d q : sorted_x xy -> In q xy -> fst q <= fst (last xy d).
Proof.
  intros HS Hq. destruct (in_split _ _ Hq) as (l1 & l2 & ->).
  destruct l2 as [|b l2].
  - rewrite last_last. lra.
  - apply SS_app_inv in HS. destruct HS as (_ & HS & _).
    rewrite last_app_r by discriminate.
    rewrite last_cons_default. apply (sorted_head_le q (b :: l2)); [exact HS|].
    right. apply last_In. discriminate.
Qed.

(* ------------------------------------------------------------------------------------------------------------ *)
(* the straight line                                                                                             *)

Lemma lerp_left p q : lerp p q (fst p) = snd p.
Proof. unfold lerp, Rdiv. ring. Qed.

Lemma lerp_right p q : fst p <> fst q -> lerp p q (fst q) = snd q.
Proof. intros H. unfold lerp. field. lra. Qed.

Lemma lerp_convex p q x :
  fst p <= x <= fst q -> fst p < fst q ->
  exists t, 0 <= t <= 1 /\ lerp p q x = snd p + t * (snd q - snd p).
Proof.
  intros Hx Hd. exists ((x - fst p) / (fst q - fst p)). split.
  - assert (Hi : 0 < / (fst q - fst p)) by (apply Rinv_0_lt_compat; lra).
    assert (H1 : (fst q - fst p) * / (fst q - fst p) = 1) by (apply Rinv_r; lra).
    unfold Rdiv. split; [apply Rmult_le_pos; lra|].
    rewrite <- H1. apply Rmult_le_compat_r; lra.
  - unfold lerp, Rdiv. ring.
Qed.

Lemma lerp_between p q x lo hi :
  fst p <= x <= fst q -> fst p < fst q -> lo <= snd p <= hi -> lo <= snd q <= hi -> lo <= lerp p q x <= hi.
Proof.
  intros Hx Hd Hp Hq. destruct (lerp_convex p q x Hx Hd) as (t & Ht & ->). split; timeout 30 nra.
Qed.

Lemma lerp_mono p q x x' : fst p < fst q -> snd p <= snd q -> x <= x' -> lerp p q x <= lerp p q x'.
Proof.
  intros Hd Hs Hx.
  assert (Hi : 0 < / (fst q - fst p)) by (apply Rinv_0_lt_compat; lra).
  assert (H : 0 <= (x' - x) * (snd q - snd p) * / (fst q - fst p)).
  { apply Rmult_le_pos; [apply Rmult_le_pos|]; lra. }
  unfold lerp, Rdiv.
  replace (snd p + (x' - fst p) * (snd q - snd p) * / (fst q - fst p))
    with (snd p + (x - fst p) * (snd q - snd p) * / (fst q - fst p) + (x' - x) * (snd q - snd p) * / (fst q - fst p)) by ring.
  lra.
Qed.

(* ------------------------------------------------------------------------------------------------------------ *)
(* seek (the model's scan for the last abscissa <= x) and the recursive reading pl                               *)

Lemma Rleb_Rltb a b : Rleb a b = negb (Rltb b a).
Proof. destruct (Rleb_spec a b), (Rltb_spec b a); cbn; try reflexivity; exfalso; lra. Qed.

Lemma seek_cons (x : R) cur nxt tl :
  seek x cur (nxt :: tl) = if Rltb x (fst nxt) then (cur, Some nxt) else seek x nxt tl.
Proof.
  cbn [seek]. change (leb (fst nxt) x) with (Rleb (fst nxt) x). rewrite Rleb_Rltb.
  destruct (Rltb x (fst nxt)); reflexivity.
Qed.

(* what seek returns: fst c <= x (when the scan starts at or below x) and x < fst of the successor *)
Lemma seek_inv (x : R) rest : forall cur c o,
  seek x cur rest = (c, o) -> fst cur <= x ->
  fst c <= x /\ match o with Some n => x < fst n | None => True end.
Proof.
  induction rest as [|nxt tl IH]; intros cur c o HS Hc.
  - cbn in HS. inversion HS; subst. split; [assumption|exact I].
  - rewrite seek_cons in HS. destruct (Rltb_spec x (fst nxt)) as [Hlt|Hge].
    + inversion HS; subst. split; assumption.
    + apply (IH nxt c o HS). lra.
Qed.

Lemma pl_seek rest : forall p x,
  pl p rest x = match seek x p rest with (c, None) => snd c | (c, Some n) => lerp c n x end.
Proof.
  induction rest as [|q tl IH]; intros p x; [reflexivity|].
  cbn [pl]. rewrite seek_cons. destruct (Rltb x (fst q)); [reflexivity|apply IH].
Qed.

(* right of every abscissa of `rest`: the walk ends at the last pair *)
Lemma pl_all_le rest : forall p x, Forall (fun e => fst e <= x) rest -> pl p rest x = snd (last rest p).
Proof.
  induction rest as [|q tl IH]; intros p x HF; [reflexivity|].
  apply Forall_cons_iff in HF. destruct HF as [Hq HF].
  cbn [pl]. destruct (Rltb_spec x (fst q)) as [Hlt|_]; [exfalso; lra|].
  rewrite (IH q x HF). rewrite last_cons_default. reflexivity.
Qed.

(* between two consecutive pairs c, n of the table: the walk stops there *)
Lemma pl_split l1 : forall c n l2 p x,
  Forall (fun e => fst e <= x) (l1 ++ [c]) -> x < fst n -> pl p (l1 ++ c :: n :: l2) x = lerp c n x.
Proof.
  induction l1 as [|a l1 IH]; intros c n l2 p x HF Hn.
  - cbn [app] in *. apply Forall_cons_iff in HF. destruct HF as [Hc _].
    cbn [pl]. destruct (Rltb_spec x (fst c)); [exfalso; lra|].
    destruct (Rltb_spec x (fst n)); [reflexivity|contradiction].
  - cbn [app] in *. apply Forall_cons_iff in HF. destruct HF as [Ha HF].
    cbn [pl]. destruct (Rltb_spec x (fst a)); [exfalso; lra|]. apply IH; assumption.
Qed.

(* ------------------------------------------------------------------------------------------------------------ *)
(* the model equals the recursive reading on every sorted non-empty table                                        *)

Lemma interp_cons2 {T} {N : Num T} (first second : T * T) tl x :
  interp (first :: second :: tl) x =
  if isnan x then nan
  else
    let lst := last (first :: second :: tl) first in
    if gtb x (fst lst) then snd lst
    else if ltb x (fst first) then snd first
    else
      match seek x first (second :: tl) with
      | (cur, None) => snd cur
      | (cur, Some nxt) =>
        if eqb (fst cur) x then snd cur
        else
          let slope := div (sub (snd nxt) (snd cur)) (sub (fst nxt) (fst cur)) in
          let r := add (mul slope (sub x (fst cur))) (snd cur) in
          if isnan r then
            let r2 := add (mul slope (sub x (fst nxt))) (snd nxt) in
            if isnan r2 && eqb (snd cur) (snd nxt) then snd cur else r2
          else r
      end.
Proof. reflexivity. Qed.

Lemma shape_right xy d x : sorted_x xy -> xy <> [] -> fst (last xy d) <= x -> Discrete_shape xy x = snd (last xy d).
Proof.
  intros HS HN Hx. destruct xy as [|p rest]; [congruence|].
  assert (HA : forall q, In q (p :: rest) -> fst q <= x).
  { intros q Hq. pose proof (sorted_le_last _ d q HS Hq). lra. }
  cbn [Discrete_shape]. destruct (Rltb_spec x (fst p)) as [Hlt|_].
  - exfalso. specialize (HA p (or_introl eq_refl)). lra.
  - rewrite pl_all_le; [rewrite last_cons_default; reflexivity|].
    rewrite Forall_forall. intros q Hq. apply HA. right; exact Hq.
Qed.

Theorem interp_eq_shape xy x : sorted_x xy -> xy <> [] -> interp xy x = Discrete_shape xy x.
Proof.
  intros HS HN. destruct xy as [|first [|second tl]]; [congruence| |].
  - cbn [interp Discrete_shape pl]. unR. splitR; reflexivity.
  - rewrite interp_cons2. change (isnan x) with false. cbv iota zeta.
    set (lst := last (first :: second :: tl) first).
    change (gtb x (fst lst)) with (Rltb (fst lst) x). change (ltb x (fst first)) with (Rltb x (fst first)).
    destruct (Rltb_spec (fst lst) x) as [Hgt|Hle].
    { symmetry. apply shape_right; [assumption|discriminate|fold lst; lra]. }
    cbn [Discrete_shape]. destruct (Rltb_spec x (fst first)) as [Hlt|Hge]; [reflexivity|].
    rewrite pl_seek. destruct (seek x first (second :: tl)) as [c [n|]] eqn:HSeek; [|reflexivity].
    destruct (seek_inv x _ _ _ _ HSeek ltac:(lra)) as [Hc Hn].
    change (eqb (fst c) x) with (Reqb (fst c) x). destruct (Reqb_spec (fst c) x) as [He|Hne].
    + rewrite <- He. symmetry. apply lerp_left.
    + change (isnan _) with false. cbv iota. unR. unfold lerp. field. lra.
Qed.

Corollary Discrete_eq_shape xy h x :
  sorted_x xy -> xy <> [] -> Discrete_membership xy h x = h * Discrete_shape xy x.
Proof. intros HS HN. unfold Discrete_membership. rewrite interp_eq_shape by assumption. reflexivity. Qed.

(* ------------------------------------------------------------------------------------------------------------ *)
(* 1. the documented definition, by position in the table                                                        *)

(* between two consecutive pairs p, q of a sorted table, fst p <= x < fst q *)
Lemma shape_between l1 p q l2 x :
  sorted_x (l1 ++ p :: q :: l2) -> fst p <= x < fst q -> Discrete_shape (l1 ++ p :: q :: l2) x = lerp p q x.
Proof.
  intros HS Hx. destruct l1 as [|a l1]; cbn [app] in *.
  - cbn [Discrete_shape pl]. destruct (Rltb_spec x (fst p)); [exfalso; lra|].
    destruct (Rltb_spec x (fst q)); [reflexivity|exfalso; lra].
  - assert (HA : forall e, In e (a :: l1 ++ [p]) -> fst e <= x).
    { change (a :: l1 ++ p :: q :: l2) with ((a :: l1) ++ p :: q :: l2) in HS.
      apply SS_app_inv in HS. destruct HS as (_ & _ & H3).
      intros e He. change (a :: l1 ++ [p]) with ((a :: l1) ++ [p]) in He.
      apply in_app_or in He. destruct He as [He|[<-|[]]]; [|lra].
      specialize (H3 e p He (or_introl eq_refl)). cbn beta in H3. lra. }
    cbn [Discrete_shape]. destruct (Rltb_spec x (fst a)) as [Hlt|_].
    + exfalso. specialize (HA a (or_introl eq_refl)). lra.
    + apply pl_split; [|lra]. rewrite Forall_forall. intros e He. apply HA. right; exact He.
Qed.

Theorem Discrete_spec xy h x i :
  sorted_x xy -> (S i < length xy)%nat ->
  fst (nth i xy pt0) <= x < fst (nth (S i) xy pt0) ->
  Discrete_membership xy h x = h * lerp (nth i xy pt0) (nth (S i) xy pt0) x.
Proof.
  intros HS Hi Hx. destruct (nth_split_pair xy i pt0 Hi) as (l1 & l2 & HE & _).
  rewrite Discrete_eq_shape; [|assumption|intros ->; cbn in Hi; lia].
  f_equal. rewrite HE at 1. apply shape_between; [rewrite <- HE; exact HS|exact Hx].
Qed.

Theorem Discrete_left xy h x :
  sorted_x xy -> xy <> [] -> x < fst (nth 0 xy pt0) -> Discrete_membership xy h x = h * snd (nth 0 xy pt0).
Proof.
  intros HS HN Hx. rewrite Discrete_eq_shape by assumption. f_equal.
  destruct xy as [|p rest]; [congruence|]. cbn [nth] in *. cbn [Discrete_shape].
  destruct (Rltb_spec x (fst p)); [reflexivity|contradiction].
Qed.

Theorem Discrete_right xy h x :
  sorted_x xy -> xy <> [] -> fst (last xy pt0) <= x -> Discrete_membership xy h x = h * snd (last xy pt0).
Proof.
  intros HS HN Hx. rewrite Discrete_eq_shape by assumption. f_equal. apply shape_right; assumption.
Qed.

(* the value AT an abscissa: the last pair with that abscissa wins *)
Theorem Discrete_at_abscissa xy h i :
  sorted_x xy -> (i < length xy)%nat ->
  (forall j, (i < j < length xy)%nat -> fst (nth i xy pt0) < fst (nth j xy pt0)) ->
  Discrete_membership xy h (fst (nth i xy pt0)) = h * snd (nth i xy pt0).
Proof.
  intros HS Hi HL. destruct (Nat.eq_dec (S i) (length xy)) as [HE|HNE].
  - (* the last pair *)
    assert (HN : xy <> []) by (intros ->; cbn in Hi; lia).
    assert (Hl : last xy pt0 = nth i xy pt0).
    { destruct (nth_split_at xy i pt0 Hi) as (l1 & l2 & HS2 & HL1).
      destruct l2 as [|b l2]; [rewrite HS2 at 1; apply last_last|].
      exfalso. rewrite HS2, app_length in HE. cbn in HE. lia. }
    rewrite Discrete_right; [rewrite Hl; reflexivity|assumption|assumption|rewrite Hl; lra].
  - rewrite (Discrete_spec xy h _ i HS ltac:(lia)).
    + rewrite lerp_left. reflexivity.
    + split; [lra|apply HL; lia].
Qed.

(* strictly increasing abscissae: every pair is the last with its abscissa *)
Lemma strict_nth_lt xy i j : strict_x xy -> (i < j < length xy)%nat -> fst (nth i xy pt0) < fst (nth j xy pt0).
Proof.
  intros HS Hij. destruct (nth_split_at xy i pt0 ltac:(lia)) as (l1 & l2 & HE & HL1).
  assert (Hj : nth j xy pt0 = nth (j - S i) l2 pt0).
  { rewrite HE at 1. replace j with (length l1 + S (j - S i))%nat at 1 by lia. rewrite nth_app_length. reflexivity. }
  rewrite Hj. unfold strict_x in HS. rewrite HE in HS. apply SS_app_inv in HS. destruct HS as (_ & HS & _).
  apply StronglySorted_inv in HS. destruct HS as [_ HF]. rewrite Forall_forall in HF. apply HF.
  apply nth_In. assert (HLen : length xy = (length l1 + S (length l2))%nat) by (rewrite HE at 1; rewrite app_length; reflexivity).
  lia.
Qed.

Theorem Discrete_at_node xy h i :
  strict_x xy -> (i < length xy)%nat -> Discrete_membership xy h (fst (nth i xy pt0)) = h * snd (nth i xy pt0).
Proof.
  intros HS Hi. apply Discrete_at_abscissa; [apply strict_sorted, HS|exact Hi|].
  intros j Hj. apply strict_nth_lt; assumption.
Qed.

(* strictly increasing abscissae: the documented formula on the CLOSED interval [x_i, x_{i+1}] *)
Theorem Discrete_spec_strict xy h x i :
  strict_x xy -> (S i < length xy)%nat ->
  fst (nth i xy pt0) <= x <= fst (nth (S i) xy pt0) ->
  Discrete_membership xy h x = h * lerp (nth i xy pt0) (nth (S i) xy pt0) x.
Proof.
  intros HS Hi [Hx1 Hx2]. destruct (Rle_lt_or_eq_dec _ _ Hx2) as [Hlt | ->].
  - apply Discrete_spec; [apply strict_sorted, HS|exact Hi|split; assumption].
  - rewrite Discrete_at_node by (assumption || lia). rewrite lerp_right; [reflexivity|].
    pose proof (strict_nth_lt xy i (S i) HS ltac:(lia)). lra.
Qed.

(* 3a. the formulas of the two intervals meeting at a node agree there *)
Theorem Discrete_continuous_at_nodes xy i :
  strict_x xy -> (S (S i) < length xy)%nat ->
  lerp (nth i xy pt0) (nth (S i) xy pt0) (fst (nth (S i) xy pt0)) = snd (nth (S i) xy pt0) /\
  lerp (nth (S i) xy pt0) (nth (S (S i)) xy pt0) (fst (nth (S i) xy pt0)) = snd (nth (S i) xy pt0).
Proof.
  intros HS Hi. split; [|apply lerp_left].
  apply lerp_right. pose proof (strict_nth_lt xy i (S i) HS ltac:(lia)). lra.
Qed.

(* ------------------------------------------------------------------------------------------------------------ *)
(* 2. range                                                                                                      *)

Lemma pl_within lo hi rest : forall p x,
  ys_within lo hi (p :: rest) -> fst p <= x -> lo <= pl p rest x <= hi.
Proof.
  induction rest as [|q tl IH]; intros p x HW Hx; apply Forall_cons_iff in HW; destruct HW as [Hp HW].
  - exact Hp.
  - cbn [pl]. destruct (Rltb_spec x (fst q)) as [Hlt|Hge].
    + apply Forall_cons_iff in HW. destruct HW as [Hq _]. apply lerp_between; try assumption; lra.
    + apply IH; [exact HW|lra].
Qed.

Lemma shape_within lo hi xy x : xy <> [] -> ys_within lo hi xy -> lo <= Discrete_shape xy x <= hi.
Proof.
  intros HN HW. destruct xy as [|p rest]; [congruence|]. cbn [Discrete_shape].
  destruct (Rltb_spec x (fst p)) as [Hlt|Hge].
  - apply Forall_cons_iff in HW. exact (proj1 HW).
  - apply pl_within; [exact HW|lra].
Qed.

Theorem Discrete_between xy h lo hi x :
  sorted_x xy -> xy <> [] -> ys_within lo hi xy -> 0 <= h ->
  h * lo <= Discrete_membership xy h x <= h * hi.
Proof.
  intros HS HN HW Hh. rewrite Discrete_eq_shape by assumption.
  destruct (shape_within lo hi xy x HN HW). split; apply Rmult_le_compat_l; assumption.
Qed.

Theorem Discrete_range xy h x :
  sorted_x xy -> xy <> [] -> ys_within 0 1 xy -> 0 < h <= 1 ->
  0 <= Discrete_membership xy h x <= h.
Proof.
  intros HS HN HW Hh. pose proof (Discrete_between xy h 0 1 x HS HN HW ltac:(lra)). lra.
Qed.

(* ------------------------------------------------------------------------------------------------------------ *)
(* 3b. monotone ordinates give a monotone membership function                                                    *)

Lemma pl_lower rest : forall p x,
  sorted_x (p :: rest) -> ys_nondecreasing (p :: rest) -> fst p <= x -> snd p <= pl p rest x.
Proof.
  induction rest as [|q tl IH]; intros p x HS HY Hx; [cbn; lra|].
  apply StronglySorted_inv in HS. destruct HS as [HS HF]. apply Forall_cons_iff in HF. destruct HF as [Hpq _].
  apply StronglySorted_inv in HY. destruct HY as [HY HG]. apply Forall_cons_iff in HG. destruct HG as [Hypq _].
  cbn [pl]. destruct (Rltb_spec x (fst q)) as [Hlt|Hge].
  - rewrite <- (lerp_left p q) at 1. apply lerp_mono; lra.
  - specialize (IH q x HS HY ltac:(lra)). lra.
Qed.

Lemma pl_mono rest : forall p x x',
  sorted_x (p :: rest) -> ys_nondecreasing (p :: rest) -> fst p <= x -> x <= x' -> pl p rest x <= pl p rest x'.
Proof.
  induction rest as [|q tl IH]; intros p x x' HS HY Hx Hxx; [cbn; lra|].
  apply StronglySorted_inv in HS. destruct HS as [HS HF]. apply Forall_cons_iff in HF. destruct HF as [Hpq _].
  apply StronglySorted_inv in HY. destruct HY as [HY HG]. apply Forall_cons_iff in HG. destruct HG as [Hypq _].
  cbn [pl]. destruct (Rltb_spec x (fst q)) as [Hlt|Hge], (Rltb_spec x' (fst q)) as [Hlt'|Hge'].
  - apply lerp_mono; lra.
  - apply Rle_trans with (snd q).
    + destruct (lerp_between p q x (snd p) (snd q)); lra.
    + apply pl_lower; [assumption|assumption|lra].
  - exfalso; lra.
  - apply IH; [assumption|assumption|lra|lra].
Qed.

Lemma shape_mono xy x x' : sorted_x xy -> ys_nondecreasing xy -> x <= x' -> Discrete_shape xy x <= Discrete_shape xy x'.
Proof.
  intros HS HY Hxx. destruct xy as [|p rest]; [cbn; lra|]. cbn [Discrete_shape].
  destruct (Rltb_spec x (fst p)) as [Hlt|Hge], (Rltb_spec x' (fst p)) as [Hlt'|Hge'].
  - lra.
  - apply pl_lower; [assumption|assumption|lra].
  - exfalso; lra.
  - apply pl_mono; [assumption|assumption|lra|lra].
Qed.

Theorem Discrete_monotone_if_ys_monotone xy h x x' :
  sorted_x xy -> xy <> [] -> ys_nondecreasing xy -> 0 <= h -> x <= x' ->
  Discrete_membership xy h x <= Discrete_membership xy h x'.
Proof.
  intros HS HN HY Hh Hxx. rewrite !Discrete_eq_shape by assumption.
  apply Rmult_le_compat_l; [assumption|]. apply shape_mono; assumption.
Qed.

(* ------------------------------------------------------------------------------------------------------------ *)
(* 4. special values: the same model read over ER (reals + inf + NaN), on a table of finite values               *)

Lemma last_lift xy d : last (lift xy) (liftp d) = liftp (last xy d).
Proof.
  induction xy as [|a [|b xy] IH]; [reflexivity|reflexivity|].
  change (last (lift (b :: xy)) (liftp d) = liftp (last (b :: xy) d)). exact IH.
Qed.

Lemma seek_lift rest : forall cur r,
  seek (Fin r) (liftp cur) (lift rest) = let '(c, o) := seek r cur rest in (liftp c, option_map liftp o).
Proof.
  induction rest as [|nxt tl IH]; intros cur r; [reflexivity|].
  cbn [lift map seek]. change (map liftp tl) with (lift tl).
  change (leb (fst (liftp nxt)) (Fin r)) with (ERleb (Fin (fst nxt)) (Fin r)). rewrite ERleb_fin.
  change (leb (fst nxt) r) with (Rleb (fst nxt) r).
  destruct (Rleb (fst nxt) r); [apply IH|reflexivity].
Qed.

(* at a finite x the ER reading is the real reading: every theorem over R transfers *)
Theorem interp_ER_fin xy r : xy <> [] -> interp (lift xy) (Fin r) = Fin (interp xy r).
Proof.
  intros HN. destruct xy as [|first [|second tl]]; [congruence| |].
  - cbn [lift map interp]. unER. cbn [liftp fst snd]. unR.
    rewrite !ERltb_fin. destruct (Rltb r (fst first)), (Rltb (fst first) r); reflexivity.
  - change (lift (first :: second :: tl)) with (liftp first :: liftp second :: lift tl).
    rewrite !interp_cons2.
    change (liftp first :: liftp second :: lift tl) with (lift (first :: second :: tl)).
    change (liftp second :: lift tl) with (lift (second :: tl)).
    change (isnan (Fin r)) with false. change (isnan r) with false. cbv iota zeta.
    rewrite last_lift. set (lst := last (first :: second :: tl) first).
    change (gtb (Fin r) (fst (liftp lst))) with (Rltb (fst lst) r).
    change (gtb r (fst lst)) with (Rltb (fst lst) r).
    change (ltb (Fin r) (fst (liftp first))) with (Rltb r (fst first)).
    change (ltb r (fst first)) with (Rltb r (fst first)).
    destruct (Rltb (fst lst) r); [reflexivity|].
    destruct (Rltb_spec r (fst first)) as [Hlt|Hge]; [reflexivity|].
    rewrite seek_lift. destruct (seek r first (second :: tl)) as [c [n|]] eqn:HSeek; cbn [option_map]; [|reflexivity].
    destruct (seek_inv r _ _ _ _ HSeek ltac:(lra)) as [Hc Hn].
    change (eqb (fst (liftp c)) (Fin r)) with (Reqb (fst c) r). change (eqb (fst c) r) with (Reqb (fst c) r).
    destruct (Reqb_spec (fst c) r) as [He|Hne]; [reflexivity|].
    cbn [liftp fst snd]. unER.
    rewrite !ERsub_fin, ERdiv_fin by lra. rewrite ERmul_fin, ERadd_fin. reflexivity.
Qed.

Corollary Discrete_ER_fin xy h r :
  xy <> [] -> Discrete_membership (lift xy) (Fin h) (Fin r) = Fin (Discrete_membership xy h r).
Proof. intros HN. unfold Discrete_membership. rewrite interp_ER_fin by assumption. reflexivity. Qed.

Lemma two_points {A} (xy : list A) : (2 <= length xy)%nat -> exists a b tl, xy = a :: b :: tl.
Proof. destruct xy as [|a [|b tl]]; cbn; intros H; try lia. exists a, b, tl; reflexivity. Qed.

Theorem Discrete_at_pinf xy h :
  (2 <= length xy)%nat -> Discrete_membership (lift xy) (Fin h) PInf = Fin (h * snd (last xy pt0)).
Proof.
  intros HL. destruct (two_points xy HL) as (first & second & tl & ->).
  unfold Discrete_membership.
  change (lift (first :: second :: tl)) with (liftp first :: liftp second :: lift tl).
  rewrite interp_cons2.
  change (liftp first :: liftp second :: lift tl) with (lift (first :: second :: tl)).
  change (isnan PInf) with false. cbv iota zeta. rewrite last_lift.
  rewrite (last_default _ first pt0) by discriminate. reflexivity.
Qed.

Theorem Discrete_at_ninf xy h :
  (2 <= length xy)%nat -> Discrete_membership (lift xy) (Fin h) NInf = Fin (h * snd (nth 0 xy pt0)).
Proof.
  intros HL. destruct (two_points xy HL) as (first & second & tl & ->).
  unfold Discrete_membership.
  change (lift (first :: second :: tl)) with (liftp first :: liftp second :: lift tl).
  rewrite interp_cons2.
  change (liftp first :: liftp second :: lift tl) with (lift (first :: second :: tl)).
  change (isnan NInf) with false. cbv iota zeta. rewrite last_lift. reflexivity.
Qed.

Theorem Discrete_at_nan xy h :
  (2 <= length xy)%nat -> Discrete_membership (lift xy) (Fin h) NaN = NaN.
Proof. intros HL. destruct (two_points xy HL) as (first & second & tl & ->). reflexivity. Qed.

Theorem Discrete_nan_iff xy h (x : ER) :
  (2 <= length xy)%nat -> isnan (Discrete_membership (lift xy) (Fin h) x) = isnan x.
Proof.
  intros HL. destruct x as [r| | |].
  - rewrite Discrete_ER_fin; [reflexivity|]. intros ->; cbn in HL; lia.
  - rewrite Discrete_at_pinf by assumption. reflexivity.
  - rewrite Discrete_at_ninf by assumption. reflexivity.
  - rewrite Discrete_at_nan by assumption. reflexivity.
Qed.

(* the one-point corner (NOT a valid parameterisation): numpy.interp does not look at x at all *)
Theorem Discrete_one_point_ignores_nan (p : ER * ER) (h x : ER) : Discrete_membership [p] h x = mul h (snd p).
Proof. unfold Discrete_membership. cbn [interp]. destruct (ltb x (fst p)), (gtb x (fst p)); reflexivity. Qed.

Theorem Discrete_nan_iff_one_point_refuted :
  exists (xy : table) (h : R), xy <> [] /\ sorted_x xy /\
    isnan (Discrete_membership (lift xy) (Fin h) NaN) <> isnan (NaN : ER).
Proof.
  exists [(0, 1)], 1. split; [discriminate|]. split; [repeat constructor|].
  change (lift [(0, 1)]) with [liftp (0, 1)]. rewrite Discrete_one_point_ignores_nan. cbn. discriminate.
Qed.

(* ------------------------------------------------------------------------------------------------------------ *)
(* 5. arrays: Term.membership on an array is the scalar function on every element                                *)

Definition Discrete_membership_array {T} {N : Num T} (xy : list (T * T)) (h : T) (xs : list T) : list T :=
  map (Discrete_membership xy h) xs.

Lemma Discrete_elementwise {T} {N : Num T} (xy : list (T * T)) (h : T) (xs : list T) (i : nat) (d : T) :
  (i < length xs)%nat ->
  nth i (Discrete_membership_array xy h xs) (Discrete_membership xy h d) = Discrete_membership xy h (nth i xs d).
Proof. intros _. unfold Discrete_membership_array. apply map_nth. Qed.

Lemma Discrete_elementwise_length {T} {N : Num T} (xy : list (T * T)) (h : T) (xs : list T) :
  length (Discrete_membership_array xy h xs) = length xs.
Proof. apply map_length. Qed.

(* ------------------------------------------------------------------------------------------------------------ *)
(* 3c. strictly increasing abscissae: the membership function is continuous at every x                           *)

(* f coincides with g just left of a (a included) and with k just right of a (a included) *)
Lemma continuity_pt_glue (f g k : R -> R) (a : R) :
  (exists d, 0 < d /\ forall x, a - d < x <= a -> f x = g x) ->
  (exists d, 0 < d /\ forall x, a <= x < a + d -> f x = k x) ->
  continuity_pt g a -> continuity_pt k a -> continuity_pt f a.
Proof.
  intros (dl & Hdl & HL) (dr & Hdr & HR) Hg Hk.
  unfold continuity_pt, continue_in, limit1_in, limit_in in *. cbn [dist R_met Base] in *.
  unfold R_dist, D_x, no_cond in *. intros eps Heps.
  destruct (Hg eps Heps) as (dg & Hdg & HG). destruct (Hk eps Heps) as (dk & Hdk & HK).
  exists (Rmin (Rmin dl dr) (Rmin dg dk)). split.
  - repeat apply Rmin_glb_lt; assumption.
  - intros x [[_ Hne] Hd].
    assert (H1 : Rabs (x - a) < dl) by (eapply Rlt_le_trans; [exact Hd|]; eapply Rle_trans; [apply Rmin_l|apply Rmin_l]).
    assert (H2 : Rabs (x - a) < dr) by (eapply Rlt_le_trans; [exact Hd|]; eapply Rle_trans; [apply Rmin_l|apply Rmin_r]).
    assert (H3 : Rabs (x - a) < dg) by (eapply Rlt_le_trans; [exact Hd|]; eapply Rle_trans; [apply Rmin_r|apply Rmin_l]).
    assert (H4 : Rabs (x - a) < dk) by (eapply Rlt_le_trans; [exact Hd|]; eapply Rle_trans; [apply Rmin_r|apply Rmin_r]).
    destruct (Rle_dec x a) as [Hle|Hgt].
    + rewrite (HL x), (HL a).
      * apply HG. split; [split; [exact I|exact Hne]|exact H3].
      * lra.
      * apply Rabs_def2 in H1. lra.
    + rewrite (HR x), (HR a).
      * apply HK. split; [split; [exact I|exact Hne]|exact H4].
      * lra.
      * apply Rabs_def2 in H2. lra.
Qed.

Lemma cont_const (c a : R) : continuity_pt (fun _ => c) a.
Proof. apply derivable_continuous_pt. reg. Qed.

Lemma cont_lerp p q a : continuity_pt (lerp p q) a.
Proof.
  apply (continuity_pt_glue _ (fun x => (snd p - fst p * ((snd q - snd p) / (fst q - fst p))) + x * ((snd q - snd p) / (fst q - fst p)))
                              (fun x => (snd p - fst p * ((snd q - snd p) / (fst q - fst p))) + x * ((snd q - snd p) / (fst q - fst p)))).
  - exists 1. split; [lra|]. intros x _. unfold lerp, Rdiv. ring.
  - exists 1. split; [lra|]. intros x _. unfold lerp, Rdiv. ring.
  - apply derivable_continuous_pt. reg.
  - apply derivable_continuous_pt. reg.
Qed.

Lemma pl_at_start q tl : strict_x (q :: tl) -> pl q tl (fst q) = snd q.
Proof.
  intros HS. destruct tl as [|r tl]; [reflexivity|].
  apply StronglySorted_inv in HS. destruct HS as [_ HF]. apply Forall_cons_iff in HF. destruct HF as [Hqr _].
  cbn [pl]. destruct (Rltb_spec (fst q) (fst r)); [apply lerp_left|contradiction].
Qed.

Lemma shape_continuous rest : forall p a, strict_x (p :: rest) -> continuity_pt (Discrete_shape (p :: rest)) a.
Proof.
  induction rest as [|q tl IH]; intros p a HS.
  - apply (continuity_pt_glue _ (fun _ => snd p) (fun _ => snd p)); try apply cont_const;
      exists 1; (split; [lra|]); intros x _; cbn [Discrete_shape pl]; destruct (Rltb x (fst p)); reflexivity.
  - pose proof HS as HS0. apply StronglySorted_inv in HS. destruct HS as [HSq HF].
    apply Forall_cons_iff in HF. destruct HF as [Hpq _].
    assert (HF : forall x, Discrete_shape (p :: q :: tl) x =
                           if Rltb x (fst p) then snd p else if Rltb x (fst q) then lerp p q x else pl q tl x)
      by reflexivity.
    assert (HH : forall x, Discrete_shape (q :: tl) x = if Rltb x (fst q) then snd q else pl q tl x) by reflexivity.
    assert (Hfq : Discrete_shape (p :: q :: tl) (fst q) = lerp p q (fst q)).
    { rewrite HF. destruct (Rltb_spec (fst q) (fst p)); [exfalso; lra|].
      destruct (Rltb_spec (fst q) (fst q)); [exfalso; lra|].
      rewrite pl_at_start by exact HSq. symmetry. apply lerp_right. lra. }
    specialize (IH q a HSq).
    destruct (Rlt_le_dec a (fst p)) as [H1|H1]; [|destruct (Rle_lt_or_eq_dec _ _ H1) as [H2|H2]].
    + (* a < x_p *)
      apply (continuity_pt_glue _ (fun _ => snd p) (fun _ => snd p)); try apply cont_const.
      * exists 1. split; [lra|]. intros x Hx. rewrite HF. destruct (Rltb_spec x (fst p)); [reflexivity|exfalso; lra].
      * exists (fst p - a). split; [lra|]. intros x Hx. rewrite HF.
        destruct (Rltb_spec x (fst p)); [reflexivity|exfalso; lra].
    + (* x_p < a *)
      destruct (Rlt_le_dec a (fst q)) as [H3|H3]; [|destruct (Rle_lt_or_eq_dec _ _ H3) as [H4|H4]].
      * (* x_p < a < x_q *)
        apply (continuity_pt_glue _ (lerp p q) (lerp p q)); try apply cont_lerp.
        -- exists (a - fst p). split; [lra|]. intros x Hx. rewrite HF.
           destruct (Rltb_spec x (fst p)); [exfalso; lra|]. destruct (Rltb_spec x (fst q)); [reflexivity|exfalso; lra].
        -- exists (fst q - a). split; [lra|]. intros x Hx. rewrite HF.
           destruct (Rltb_spec x (fst p)); [exfalso; lra|]. destruct (Rltb_spec x (fst q)); [reflexivity|exfalso; lra].
      * (* x_q < a *)
        apply (continuity_pt_glue _ (Discrete_shape (q :: tl)) (Discrete_shape (q :: tl))); try exact IH.
        -- exists (a - fst q). split; [lra|]. intros x Hx. rewrite HF, HH.
           destruct (Rltb_spec x (fst p)); [exfalso; lra|]. destruct (Rltb_spec x (fst q)); [exfalso; lra|reflexivity].
        -- exists 1. split; [lra|]. intros x Hx. rewrite HF, HH.
           destruct (Rltb_spec x (fst p)); [exfalso; lra|]. destruct (Rltb_spec x (fst q)); [exfalso; lra|reflexivity].
      * (* a = x_q: the line from p arrives at y_q, the rest of the table starts at y_q *)
        subst a.
        apply (continuity_pt_glue _ (lerp p q) (Discrete_shape (q :: tl))); [| |apply cont_lerp|exact IH].
        -- exists (fst q - fst p). split; [lra|]. intros x Hx.
           destruct (Rle_lt_or_eq_dec x (fst q) ltac:(lra)) as [Hlt | ->]; [|exact Hfq].
           rewrite HF. destruct (Rltb_spec x (fst p)); [exfalso; lra|].
           destruct (Rltb_spec x (fst q)); [reflexivity|exfalso; lra].
        -- exists 1. split; [lra|]. intros x Hx. rewrite HF, HH.
           destruct (Rltb_spec x (fst p)); [exfalso; lra|]. destruct (Rltb_spec x (fst q)); [exfalso; lra|reflexivity].
    + (* a = x_p: constant on the left, the line from p on the right *)
      subst a.
      apply (continuity_pt_glue _ (fun _ => snd p) (lerp p q)); [| |apply cont_const|apply cont_lerp].
      * exists 1. split; [lra|]. intros x Hx. rewrite HF.
        destruct (Rltb_spec x (fst p)); [reflexivity|].
        destruct (Rltb_spec x (fst q)); [|exfalso; lra].
        replace x with (fst p) by lra. apply lerp_left.
      * exists (fst q - fst p). split; [lra|]. intros x Hx. rewrite HF.
        destruct (Rltb_spec x (fst p)); [exfalso; lra|]. destruct (Rltb_spec x (fst q)); [reflexivity|exfalso; lra].
Qed.

Theorem Discrete_continuous xy h a : strict_x xy -> xy <> [] -> continuity_pt (Discrete_membership xy h) a.
Proof.
  intros HS HN. destruct xy as [|p rest]; [congruence|].
  assert (HE : forall x, Discrete_membership (p :: rest) h x = mult_real_fct h (Discrete_shape (p :: rest)) x).
  { intros x. unfold mult_real_fct. apply Discrete_eq_shape; [apply strict_sorted, HS|discriminate]. }
  apply (continuity_pt_glue _ (mult_real_fct h (Discrete_shape (p :: rest))) (mult_real_fct h (Discrete_shape (p :: rest)))).
  - exists 1. split; [lra|]. intros x _. apply HE.
  - exists 1. split; [lra|]. intros x _. apply HE.
  - apply continuity_pt_scal, shape_continuous, HS.
  - apply continuity_pt_scal, shape_continuous, HS.
Qed.
