(* ReadyEngineProofs.v — the abstract control-flow model of Model/Ready.v (`process_raises`, numbers abstracted) is a
   SOUND abstraction of the numeric engine model Model/Engine.v (`process`, tied bit-for-bit to the implementation by
   C01/C13): when the abstract model finds no exception, the numeric model returns `Ok`.

   The two parameters of the abstract model are instantiated as follows.
     term_err := engine_term_err e    the errors Engine.term_membership / Engine.term_tsukamoto give (with fe0, the formula
                                      model unplugged: a Function term always fails), independent of the point x;
     trig                             universally quantified: the numeric model decides from the degrees which rules a
                                      non-General activation method triggers; the proof picks, block by block, the oracle
                                      that makes the same decisions (for engines using General only, `trig` is irrelevant
                                      and the statement is about a single abstract run: sound_general).
   The one error of the numeric model the abstract model does not know is `midpoints` with resolution 0 (EInternal):
   hypothesis `resolution_ok`.  Everything goes through Proofs/EngineAllProofs.process_eq_all_spec (process = pure folds
   for all seven activation methods). *)
From Coq Require Import ZArith Bool List String Arith Lia.
From VF Require Import Num GenNorm GenHedge GenTerm Core Discrete NpSum Defuzz Antecedent Consequent Activation Weighted
  Cascade Engine Pipeline PipelineAll ActivationProofs EngineProofs EngineAllProofs Ready ReadyProofs.
Import ListNotations.
Local Open Scope list_scope.
Local Notation length := List.length.

(* ================================================================ generic *)
Lemma nth_error_update_nth_eq {A} (f : A -> A) : forall (l : list A) i v,
  nth_error l i = Some v -> nth_error (update_nth i f l) i = Some (f v).
Proof. induction l as [| a l IH]; intros [| i] v H; cbn in *; try discriminate; [now injection H as -> | auto]. Qed.
Lemma nth_error_update_nth_neq {A} (f : A -> A) : forall (l : list A) i j,
  i <> j -> nth_error (update_nth i f l) j = nth_error l j.
Proof. induction l as [| a l IH]; intros [| i] [| j] H; cbn; try reflexivity; try congruence. apply IH; congruence. Qed.
Lemma nth_error_set_nth_same {A} : forall (l : list A) i x v, nth_error l i = Some v -> nth_error (set_nth i x l) i = Some x.
Proof. induction l as [| a l IH]; intros [| i] x v H; cbn in *; try discriminate; eauto. Qed.
Lemma nth_error_set_nth_other {A} : forall (l : list A) i j x, i <> j -> nth_error (set_nth i x l) j = nth_error l j.
Proof. induction l as [| a l IH]; intros [| i] [| j] x H; cbn; try reflexivity; try congruence. apply IH; congruence. Qed.
Lemma mapM_ok {A B} (f : A -> result B) : forall l, (forall a, In a l -> exists b, f a = Ok b) ->
  exists bs, mapM f l = Ok bs /\ length bs = length l.
Proof.
  induction l as [| a l IH]; intro H; [exists []; split; reflexivity |].
  destruct (H a (or_introl eq_refl)) as [b Hb]. destruct IH as (bs & Hbs & Hl); [intros; apply H; now right |].
  exists (b :: bs). cbn [mapM bind]. rewrite Hb; cbn [bind]. rewrite Hbs; cbn [bind]. split; [reflexivity | cbn; now rewrite Hl].
Qed.

Section Sound.
  Context {T : Type} {N : Num T}.
  Notation fe := (@fe0 T).
  Notation tm := (term_membership fe).
  Notation outputs := (list (output_var T)).
  Notation aact := (@aact T).
  Notation flog := (@flog T).

  (* ================================================================ the instantiation of term_err *)
  Definition linear_arity_ok (e : engine T) (cs : list T) : bool :=
    Nat.eqb (length cs) (length (e_inputs e)) || Nat.eqb (length cs) (S (length (e_inputs e))).
  Definition engine_term_err (e : engine T) (t : term T) (tsukamoto : bool) : option err :=
    if tsukamoto then
      match t with
      | TShape _ s => match shape_tsukamoto s with Some _ => None | None => Some ERuntime end
      | _ => Some ERuntime
      end
    else
      match t with
      | TShape _ _ => None
      | TDiscrete _ [] _ => Some EValue                 (* Discrete with an empty table *)
      | TDiscrete _ (_ :: _) _ => None
      | TLinear _ cs => if linear_arity_ok e cs then None else Some EValue   (* coefficient count <> #inputs (+1) *)
      | TFunction _ (Some _) _ => Some EInternal         (* fe0: no formula model plugged *)
      | TFunction _ None _ => Some ERuntime              (* function not loaded *)
      end.

  Lemma engine_term_err_membership : forall e e' t x, e_inputs e' = e_inputs e ->
    engine_term_err e t false = None -> exists y, tm e' t x = Ok y.
  Proof.
    intros e e' t x Hin H; destruct t as [n s | n xy h | n cs | n [f |] vars]; cbn in H |- *; try discriminate; eauto.
    - destruct xy; [discriminate | eauto].
    - unfold linear_membership, linear_arity_ok in *. rewrite Hin.
      destruct (Nat.eqb (length cs) (length (e_inputs e)) || Nat.eqb (length cs) (S (length (e_inputs e)))); [cbn; eauto | discriminate].
  Qed.
  Lemma engine_term_err_tsukamoto : forall e t y, engine_term_err e t true = None -> exists z, term_tsukamoto t y = Ok z.
  Proof.
    intros e t y H; destruct t as [n s | | |]; cbn in H |- *; try discriminate.
    destruct (shape_tsukamoto s); [eauto | discriminate].
  Qed.

  (* the numeric error the abstract model does not know: Op.midpoints with resolution 0 *)
  Definition resolution_ok (e : engine T) : Prop :=
    forall v k res, In v (e_outputs e) -> ov_defuzzifier v = Some (DIntegral k res) -> res <> 0.

  (* ================================================================ the abstraction relation *)
  Definition abs_act (a : activated T) : aact := {| aa_term := a_term a; aa_impl := is_some (a_implication a) |}.
  (* same configuration (everything the control flow reads) *)
  Definition same_cfg (v v0 : output_var T) : Prop :=
    ov_terms v = ov_terms v0 /\ ov_enabled v = ov_enabled v0 /\ ov_defuzzifier v = ov_defuzzifier v0 /\
    ov_aggregation v = ov_aggregation v0.
  (* the numeric outputs `outs` are the engine's outputs with fuzzy sets whose abstraction is the log *)
  Definition sim (e : engine T) (log : flog) (outs : outputs) : Prop :=
    Forall2 same_cfg outs (e_outputs e) /\
    forall j v, nth_error outs j = Some v -> fuzzy_of j log = map abs_act (ov_fuzzy v).

  Lemma same_cfg_refl v : same_cfg v v. Proof. repeat split. Qed.
  Lemma Forall2_nth_l {A B} (R : A -> B -> Prop) : forall l l' i a, Forall2 R l l' -> nth_error l i = Some a ->
    exists b, nth_error l' i = Some b /\ R a b.
  Proof. intros l l' i a H; revert i; induction H; intros [| i] Hi; cbn in *; try discriminate; [injection Hi as <-; eauto | eauto]. Qed.
  Lemma Forall2_nth_r {A B} (R : A -> B -> Prop) : forall l l' i b, Forall2 R l l' -> nth_error l' i = Some b ->
    exists a, nth_error l i = Some a /\ R a b.
  Proof. intros l l' i b H; revert i; induction H; intros [| i] Hi; cbn in *; try discriminate; [injection Hi as <-; eauto | eauto]. Qed.
  Lemma Forall2_update_l {A B} (R : A -> B -> Prop) (f : A -> A) : forall l l' i, Forall2 R l l' ->
    (forall a b, R a b -> R (f a) b) -> Forall2 R (update_nth i f l) l'.
  Proof. intros l l' i H Hf; revert i; induction H; intros [| i]; cbn; constructor; auto. Qed.

  Lemma fuzzy_of_app j (log1 log2 : flog) : fuzzy_of j (log1 ++ log2) = fuzzy_of j log1 ++ fuzzy_of j log2.
  Proof. unfold fuzzy_of. now rewrite filter_app, map_app. Qed.

  (* ================================================================ antecedents *)
  Lemma antecedent_sound : forall (e E : engine T) cj dj x,
    e_inputs E = e_inputs e -> Forall2 same_cfg (e_outputs E) (e_outputs e) ->
    antecedent_raises (engine_term_err e) (is_some cj) (is_some dj) e x = None ->
    exists d, Antecedent.activation_degree (tm E) cj dj E x = Ok d.
  Proof.
    intros e E cj dj x Hin Hout; induction x as [v hs t | a l IHl r IHr]; intro H.
    - cbn [antecedent_raises Antecedent.activation_degree] in *.
      destruct v as [i | j]; cbn [var_info var_terms var_enabled] in *.
      + rewrite Hin. destruct (nth_error (e_inputs e) i) as [iv |] eqn:Ei; cbn [option_map] in *; [| discriminate].
        destruct (iv_terms iv) as [| t0 ts] eqn:Et; [discriminate |].
        destruct (negb (iv_enabled iv)); [eauto |].
        change (Antecedent.last_is_any hs) with (Ready.last_is_any hs).
        destruct (Ready.last_is_any hs); [eauto |].
        destruct t as [k |]; [| discriminate].
        destruct (nth_error (t0 :: ts) k) as [tm0 |] eqn:Ek; [| discriminate].
        destruct (engine_term_err_membership e E tm0 (iv_value iv) Hin H) as [y Hy].
        rewrite Hy; cbn [bind]; eauto.
      + destruct (nth_error (e_outputs e) j) as [ov0 |] eqn:Ej; cbn [option_map] in *; [| discriminate].
        destruct (Forall2_nth_r _ _ _ _ _ Hout Ej) as (ov & Eov & Hterms & Hen & _).
        rewrite Eov; cbn [option_map]. rewrite Hterms, Hen.
        destruct (ov_terms ov0) as [| t0 ts] eqn:Et; [discriminate |].
        destruct (negb (ov_enabled ov0)); [eauto |].
        change (Antecedent.last_is_any hs) with (Ready.last_is_any hs).
        destruct (Ready.last_is_any hs); [eauto |].
        destruct t as [k |]; [| discriminate].
        destruct (nth_error (t0 :: ts) k) as [tm0 |] eqn:Ek; [| discriminate].
        cbn [bind]; eauto.
    - cbn [antecedent_raises] in H. cbn [Antecedent.activation_degree].
      destruct a.
      + destruct cj as [c |]; cbn [is_some] in H; [| discriminate].
        destruct (antecedent_raises _ _ _ e l) eqn:El; [discriminate |].
        destruct (IHl eq_refl) as [dl ->]; destruct (IHr H) as [dr ->]; cbn [bind]; eauto.
      + destruct dj as [c |]; cbn [is_some] in H; [| discriminate].
        destruct (antecedent_raises _ _ _ e l) eqn:El; [discriminate |].
        destruct (IHl eq_refl) as [dl ->]; destruct (IHr H) as [dr ->]; cbn [bind]; eauto.
  Qed.

  (* Rule.activate_with of a loaded rule, against any view of the engine *)
  Lemma rule_activate_sound : forall (e : engine T) (b : block T) (r : rule T) outs,
    Forall2 same_cfg outs (e_outputs e) -> rule_loaded r = true ->
    rule_activate (engine_term_err e) e b r = None ->
    exists d, raw fe e (b_conjunction b) (b_disjunction b) outs r = Ok d.
  Proof.
    intros e b r outs Hout Hl H; unfold raw, rule_activate_with, rule_activate in *. rewrite Hl.
    destruct (r_antecedent r) as [x |]; [| discriminate].
    destruct (antecedent_sound e (view e outs) (b_conjunction b) (b_disjunction b) x eq_refl Hout H) as [d ->].
    cbn [bind]; eauto.
  Qed.

  (* ================================================================ Consequent.modify / Rule.trigger *)
  Lemma fuzzy_of_single j j' (a : aact) : fuzzy_of j' [(j, a)] = if Nat.eqb j j' then [a] else [].
  Proof. unfold fuzzy_of; cbn [filter fst]. destruct (Nat.eqb j j'); reflexivity. Qed.
  Lemma sim_append : forall (e : engine T) log outs j v t d im,
    sim e log outs -> nth_error outs j = Some v ->
    sim e (log ++ [(j, {| aa_term := t; aa_impl := is_some im |})])
          (update_nth j (fun w => append_fuzzy w (mk_activated t d im)) outs).
  Proof.
    intros e log outs j v t d im [Hcfg Hfz] Hj; split.
    - apply Forall2_update_l; [exact Hcfg |]. intros a b0 (H1 & H2 & H3 & H4); repeat split; assumption.
    - intros j' v' Hj'. rewrite fuzzy_of_app. destruct (Nat.eq_dec j j') as [<- | Hne].
      + rewrite (nth_error_update_nth_eq _ _ _ _ Hj) in Hj'. injection Hj' as <-.
        cbn [append_fuzzy extend_fuzzy with_fuzzy ov_fuzzy]. rewrite map_app, (Hfz j v Hj), fuzzy_of_single, Nat.eqb_refl.
        reflexivity.
      + rewrite nth_error_update_nth_neq in Hj' by exact Hne. rewrite (Hfz j' v' Hj'), fuzzy_of_single.
        destruct (Nat.eqb j j') eqn:E; [apply Nat.eqb_eq in E; congruence |]. now rewrite app_nil_r.
  Qed.

  Lemma modify_loop_sound : forall (e : engine T) im carry cs log outs log' d,
    sim e log outs -> Ready.modify e (is_some im) cs log = Ok log' ->
    exists outs', modify_loop carry d im cs outs = Ok outs' /\ sim e log' outs'.
  Proof.
    intros e im carry; induction cs as [| c cs IH]; intros log outs log' d Hsim H.
    - cbn in H; injection H as <-. exists outs; split; [reflexivity | exact Hsim].
    - cbn [Ready.modify] in H. cbn [modify_loop].
      destruct (nth_error (e_outputs e) (c_var c)) as [v0 |] eqn:Ev0; [| discriminate].
      destruct (Forall2_nth_r _ _ _ _ _ (proj1 Hsim) Ev0) as (v & Ev & Hterms & Hen & _).
      rewrite Ev. unfold var_truthy. rewrite Hterms, Hen.
      destruct (ov_terms v0) as [| t0 ts] eqn:Et; [discriminate |]. cbn [Consequent.is_nil negb].
      destruct (ov_enabled v0).
      + destruct (nth_error (t0 :: ts) (c_term c)) as [t |] eqn:Ek; [| discriminate].
        eapply IH; [| exact H]. eapply sim_append; eauto.
      + eapply IH; eauto.
  Qed.

  (* what activation never changes about a rule *)
  Definition same_rule (r' r : rule T) : Prop :=
    r_enabled r' = r_enabled r /\ r_antecedent r' = r_antecedent r /\ r_consequent r' = r_consequent r.
  Lemma same_rule_refl r : same_rule r r. Proof. repeat split. Qed.
  Lemma same_rule_loaded r' r : same_rule r' r -> rule_loaded r' = rule_loaded r.
  Proof. intros (_ & Ha & Hc); unfold rule_loaded; now rewrite Ha, Hc. Qed.

  Lemma trigger_sound : forall (e : engine T) (b : block T) r r' log outs log',
    sim e log outs -> same_rule r' r -> rule_loaded r = true ->
    rule_trigger e b r log = Ok log' ->
    exists ro, trigger r' (b_implication b) outs = Ok ro /\ sim e log' (snd ro) /\ same_rule (fst ro) r.
  Proof.
    intros e b r r' log outs log' Hsim Hsame Hl H.
    unfold rule_trigger in H; rewrite Hl in H.
    unfold trigger, trigger_with. rewrite (same_rule_loaded _ _ Hsame), Hl; cbn [negb].
    destruct Hsame as (Hen & Ha & Hc). rewrite Hen.
    destruct (r_enabled r) eqn:Er.
    - unfold Consequent.modify, modify_gen. rewrite Hc.
      assert (Hne : Consequent.is_nil (r_consequent r) = false).
      { unfold rule_loaded in Hl. destruct (r_antecedent r); [| discriminate]. destruct (r_consequent r); [discriminate | reflexivity]. }
      rewrite Hne.
      destruct (modify_loop_sound e (b_implication b) code_has_F1 _ _ _ _ (r_degree r') Hsim H) as (outs' & -> & Hsim').
      cbn [bind]. eexists; split; [reflexivity |]. cbn [fst snd]. split; [exact Hsim' | repeat split; cbn; congruence].
    - injection H as <-. eexists; split; [reflexivity |]. cbn [fst snd]. split; [exact Hsim | repeat split; cbn; congruence].
  Qed.

  (* ================================================================ the loops *)
  Definition upd (fires : nat -> bool) (k : nat) (c : bool) : nat -> bool := fun j => if Nat.eqb j k then c else fires j.

  Lemma run_interleaved_ext : forall te (e : engine T) b fires fires' krs log,
    (forall k r, In (k, r) krs -> fires k = fires' k) ->
    run_interleaved te e b fires krs log = run_interleaved te e b fires' krs log.
  Proof.
    intros te e b fires fires'; induction krs as [| [k r] krs IH]; intros log H; [reflexivity |].
    cbn [run_interleaved]. rewrite (H k r (or_introl eq_refl)).
    assert (H' : forall k r, In (k, r) krs -> fires k = fires' k) by (intros; eapply H; right; eauto).
    destruct (rule_loaded r); [| auto]. destruct (rule_activate te e b r); [reflexivity |].
    destruct (fires' k); [| auto]. destruct (rule_trigger e b r log); [auto | reflexivity].
  Qed.

  Lemma Forall2_set_nth_l {A B} (R : A -> B -> Prop) : forall (l : list A) (l' : list B) i x b,
    Forall2 R l l' -> nth_error l' i = Some b -> R x b -> Forall2 R (set_nth i x l) l'.
  Proof.
    intros l l' i x b H; revert i; induction H as [| a b0 l l' Hab H IH]; intros [| i] Hi Hx; cbn in *; try discriminate.
    - injection Hi as ->. constructor; assumption.
    - constructor; [assumption | apply IH; assumption].
  Qed.

  Section Loops.
    Variables (e : engine T) (b : block T).
    Notation te := (engine_term_err e).
    Notation cj := (b_conjunction b).
    Notation dj := (b_disjunction b).
    Notation im := (b_implication b).
    Let rules0 := b_rules b.

    Lemma same_rule_mk r d t : same_rule (mk_rule r d t) r. Proof. repeat split. Qed.
    Lemma same_rule_deactivated r : same_rule (rule_deactivated r) r. Proof. repeat split. Qed.
    Lemma same_rule_trans r1 r2 r3 : same_rule r1 r2 -> same_rule r2 r3 -> same_rule r1 r3.
    Proof. intros (A1 & A2 & A3) (B1 & B2 & B3); repeat split; congruence. Qed.

    (* the first loops of all seven methods.  `allowed k c`: the decisions the method may take for rule k;
       K: whatever must hold of the abstract log afterwards; P: an invariant of the loop's accumulator *)
    Lemma visits_sound (A : Type) (f : A -> nat -> T -> A * bool) (allowed : nat -> bool -> Prop) (K : flog -> Prop) (P : A -> Prop) :
      (forall a k d, allowed k (snd (f a k d))) ->
      (forall a k d r, nth_error rules0 k = Some r -> rule_loaded r = true -> P a -> P (fst (f a k d))) ->
      forall xs a rules outs log,
        NoDup (map fst xs) -> (forall k r, In (k, r) xs -> nth_error rules0 k = Some r) ->
        Forall2 same_rule rules rules0 -> P a -> sim e log outs ->
        (forall fires, (forall k, allowed k (fires k)) -> exists log', run_interleaved te e b fires xs log = Ok log' /\ K log') ->
        exists a' rules' outs' log',
          visits fe e cj dj im f xs a rules outs = Ok (a', rules', outs') /\
          sim e log' outs' /\ K log' /\ P a' /\ Forall2 same_rule rules' rules0.
    Proof.
      intros Hallowed HP; induction xs as [| [k r] xs IH]; intros a rules outs log Hnd Hagree Hrules Ha Hsim Hyp.
      - destruct (Hyp (fun k => snd (f a k zero)) (fun k => Hallowed a k zero)) as (log' & Hrun & HK).
        cbn in Hrun; injection Hrun as <-. exists a, rules, outs, log. cbn [visits]. repeat split; auto; apply Hsim.
      - cbn [map fst] in Hnd; apply NoDup_cons_iff in Hnd; destruct Hnd as [Hk Hnd].
        assert (Hagree' : forall k r, In (k, r) xs -> nth_error rules0 k = Some r) by (intros; apply Hagree; now right).
        pose proof (Hagree k r (or_introl eq_refl)) as Hkr.
        assert (Hext : forall fires' c, forall k' r', In (k', r') xs -> upd fires' k c k' = fires' k').
        { intros fires' c k' r' Hin; unfold upd. destruct (Nat.eqb k' k) eqn:E; [| reflexivity].
          apply Nat.eqb_eq in E; subst k'. exfalso; apply Hk. change k with (fst (k, r')). now apply in_map. }
        cbn [visits]. unfold visit. destruct (rule_loaded r) eqn:Hl.
        + (* loaded: the abstract run evaluated it *)
          destruct (Hyp (fun k => snd (f a k zero)) (fun k => Hallowed a k zero)) as (log0 & Hrun0 & _).
          cbn [run_interleaved] in Hrun0; rewrite Hl in Hrun0.
          destruct (rule_activate te e b r) eqn:Hact; [discriminate |]. clear Hrun0 log0.
          destruct (rule_activate_sound e b r outs (proj1 Hsim) Hl Hact) as [d Hd]. rewrite Hd; cbn [bind].
          destruct (snd (f a k d)) eqn:Hc.
          * (* the method triggers rule k *)
            assert (Hall : forall fires', (forall j, allowed j (fires' j)) -> forall j, allowed j (upd fires' k true j)).
            { intros fires' Hf j; unfold upd. destruct (Nat.eqb j k) eqn:E; [| apply Hf].
              apply Nat.eqb_eq in E; subst j. rewrite <- Hc. apply Hallowed. }
            destruct (Hyp _ (Hall _ (fun j => Hallowed a j zero))) as (log0 & Hrun0 & _).
            cbn [run_interleaved] in Hrun0; rewrite Hl, Hact in Hrun0. unfold upd at 1 in Hrun0; rewrite Nat.eqb_refl in Hrun0.
            destruct (rule_trigger e b r log) as [log1 |] eqn:Htrig; [| discriminate]. clear Hrun0 log0.
            destruct (trigger_sound e b r (mk_rule r d false) log outs log1 Hsim (same_rule_mk r d false) Hl Htrig)
              as (ro & Hro & Hsim1 & Hsame1).
            rewrite Hro; cbn [bind fst snd].
            apply (IH _ _ _ log1); auto.
            -- eapply Forall2_set_nth_l; eauto.
            -- eapply HP; eauto.
            -- intros fires' Hf. destruct (Hyp _ (Hall fires' Hf)) as (log' & Hrun & HK).
               cbn [run_interleaved] in Hrun; rewrite Hl, Hact in Hrun. unfold upd at 1 in Hrun; rewrite Nat.eqb_refl, Htrig in Hrun.
               rewrite (run_interleaved_ext te e b _ fires' xs log1 (Hext fires' true)) in Hrun. eauto.
          * (* it does not *)
            assert (Hall : forall fires', (forall j, allowed j (fires' j)) -> forall j, allowed j (upd fires' k false j)).
            { intros fires' Hf j; unfold upd. destruct (Nat.eqb j k) eqn:E; [| apply Hf].
              apply Nat.eqb_eq in E; subst j. rewrite <- Hc. apply Hallowed. }
            cbn [fst snd]. apply (IH _ _ _ log); auto.
            -- eapply Forall2_set_nth_l; eauto. apply same_rule_mk.
            -- eapply HP; eauto.
            -- intros fires' Hf. destruct (Hyp _ (Hall fires' Hf)) as (log' & Hrun & HK).
               cbn [run_interleaved] in Hrun; rewrite Hl, Hact in Hrun. unfold upd at 1 in Hrun; rewrite Nat.eqb_refl in Hrun.
               rewrite (run_interleaved_ext te e b _ fires' xs log (Hext fires' false)) in Hrun. eauto.
        + (* not loaded: skipped by both *)
          cbn [fst snd]. apply (IH _ _ _ log); auto.
          * eapply Forall2_set_nth_l; eauto. apply same_rule_deactivated.
          * intros fires Hf. destruct (Hyp fires Hf) as (log' & Hrun & HK).
            cbn [run_interleaved] in Hrun; rewrite Hl in Hrun. eauto.
    Qed.

    (* the trigger-only second loops of Highest / Lowest / Proportional *)
    Lemma trig_all_sound (g : T -> T) : forall tl rules outs log log1,
      sim e log outs -> Forall2 same_rule rules rules0 ->
      (forall k, In k tl -> exists r, nth_error rules0 k = Some r /\ rule_loaded r = true) ->
      run_triggers e b tl log = Ok log1 ->
      exists rules' outs', trig_all im g tl rules outs = Ok (rules', outs') /\ sim e log1 outs'.
    Proof.
      induction tl as [| k tl IH]; intros rules outs log log1 Hsim Hrules Hvalid H.
      - cbn in H; injection H as <-. exists rules, outs; split; [reflexivity | exact Hsim].
      - destruct (Hvalid k (or_introl eq_refl)) as (r & Hk & Hl).
        cbn [run_triggers] in H. fold rules0 in H. rewrite Hk, Hl in H.
        destruct (rule_trigger e b r log) as [log2 |] eqn:Htrig; [| discriminate].
        destruct (Forall2_nth_r _ _ _ _ _ Hrules Hk) as (r' & Hk' & Hsame).
        cbn [trig_all]. rewrite Hk'.
        assert (Hsame' : same_rule (regrade g r') r) by (destruct Hsame as (A1 & A2 & A3); repeat split; cbn; assumption).
        destruct (trigger_sound e b r (regrade g r') log outs log2 Hsim Hsame' Hl Htrig) as (ro & Hro & Hsim2 & Hsame2).
        rewrite Hro; cbn [bind]. eapply IH; eauto.
        + eapply Forall2_set_nth_l; eauto.
        + intros; apply Hvalid; now right.
    Qed.
  End Loops.

  (* ================================================================ rule blocks *)
  Lemma run_interleaved_false : forall te (e : engine T) b krs log,
    run_interleaved te e b (fun _ => false) krs log =
    match run_degrees te e b (map snd krs) with Some x => Err x | None => Ok log end.
  Proof.
    intros te e b; induction krs as [| [k r] krs IH]; intro log; [reflexivity |].
    cbn [run_interleaved map snd run_degrees]. destruct (rule_loaded r); [| apply IH].
    destruct (rule_activate te e b r); [reflexivity | apply IH].
  Qed.

  Lemma block_activate_ext : forall te trig trig' (e : engine T) i b log,
    trig i = trig' i -> block_activate te trig e i b log = block_activate te trig' e i b log.
  Proof. intros te trig trig' e i b log H; unfold block_activate, fires_in; rewrite H; reflexivity. Qed.

  Lemma run_blocks_ext : forall te trig trig' (e : engine T) bs i log,
    (forall j, i <= j -> trig j = trig' j) ->
    run_blocks te trig e i bs log = run_blocks te trig' e i bs log.
  Proof.
    intros te trig trig' e; induction bs as [| b bs IH]; intros i log H; [reflexivity |].
    cbn [run_blocks]. rewrite (block_activate_ext te trig trig' e i b log (H i (le_n i))).
    destruct (b_enabled b); [destruct (block_activate te trig' e i b log); [| reflexivity] |]; apply IH; intros; apply H; lia.
  Qed.

  Lemma existsb_filter_seq (fires : nat -> bool) n k : k < n -> existsb (Nat.eqb k) (filter fires (seq 0 n)) = fires k.
  Proof.
    intro Hk. destruct (fires k) eqn:Ef.
    - apply existsb_exists; exists k; split; [apply filter_In; split; [apply in_seq; lia | exact Ef] | apply Nat.eqb_refl].
    - destruct (existsb (Nat.eqb k) (filter fires (seq 0 n))) eqn:E; [| reflexivity].
      apply existsb_exists in E; destruct E as (x & Hx & Hkx). apply Nat.eqb_eq in Hkx; subst x.
      apply filter_In in Hx; destruct Hx as [_ Hx]; congruence.
  Qed.

  Lemma pop_order_incl : forall fuel n a (heap : list (T * nat)) k, In k (pop_order fuel n a heap) -> In k (map snd heap).
  Proof.
    induction fuel as [| fuel IH]; intros n a heap k H; [contradiction |].
    cbn [pop_order] in H. destruct (extract_min heap) as [[m rest] |] eqn:E; [| contradiction].
    pose proof (extract_min_perm heap E) as Hp.
    destruct (a <? n)%Z; [| contradiction]. destruct H as [<- | H].
    - apply in_map. eapply Permutation.Permutation_in; [apply Permutation.Permutation_sym; exact Hp | now left].
    - apply IH in H. apply in_map_iff in H; destruct H as (x & <- & Hx). apply in_map.
      eapply Permutation.Permutation_in; [apply Permutation.Permutation_sym; exact Hp | now right].
  Qed.

  Section Blocks.
    Variable e : engine T.
    Notation te := (engine_term_err e).

    (* from here on no oracle makes the abstract run fail *)
    Definition safe_from (i : nat) (bs : list (block T)) (log : flog) : Prop :=
      forall trig, exists log', run_blocks te trig e i bs log = Ok log' /\ defuzz_all te 0 (e_outputs e) log' = None.

    Definition valid_loaded (b : block T) (k : nat) : Prop :=
      exists r, nth_error (b_rules b) k = Some r /\ rule_loaded r = true.

    Lemma indexed_lt : forall (rs : list (rule T)) k r, In (k, r) (indexed rs) -> k < length rs.
    Proof.
      intros rs k r H. assert (Hk : In k (map fst (indexed rs))) by (change k with (fst (k, r)); now apply in_map).
      change (indexed rs) with (numbered rs) in Hk. rewrite numbered_fst in Hk. apply in_seq in Hk; lia.
    Qed.

    Lemma block_sound : forall i b tl log outs,
      safe_from i (b :: tl) log -> b_enabled b = true -> sim e log outs ->
      exists rs' outs' log1, block_run fe e b outs = Ok (rs', outs') /\ sim e log1 outs' /\ safe_from (S i) tl log1.
    Proof.
      intros i b tl log outs Hsafe Hen Hsim.
      assert (Hstep : forall trig, exists log1, block_activate te trig e i b log = Ok log1 /\
                        exists log', run_blocks te trig e (S i) tl log1 = Ok log' /\ defuzz_all te 0 (e_outputs e) log' = None).
      { intro trig; destruct (Hsafe trig) as (log' & Hrun & Hdef). cbn [run_blocks] in Hrun; rewrite Hen in Hrun.
        destruct (block_activate te trig e i b log) as [log1 |]; [| discriminate]. eauto. }
      set (n := length (b_rules b)).
      assert (Hnd : NoDup (map fst (numbered (b_rules b)))) by (rewrite numbered_fst; apply seq_NoDup).
      assert (Hag : forall k r, In (k, r) (numbered (b_rules b)) -> nth_error (b_rules b) k = Some r) by (apply agrees_numbered).
      assert (Hrefl : Forall2 same_rule (b_rules b) (b_rules b)) by (apply Forall2_refl_of; intro; apply same_rule_refl).
      (* the interleaved methods with an oracle: First, Threshold (in order), Last (reversed) *)
      assert (Horacle : forall (A : Type) (f : A -> nat -> T -> A * bool) (a0 : A) xs,
                 NoDup (map fst xs) -> (forall k r, In (k, r) xs -> nth_error (b_rules b) k = Some r) ->
                 (forall trig, block_activate te trig e i b log = run_interleaved te e b (fires_in trig i) xs log) ->
                 exists a' rules' outs' log1,
                   visits fe e (b_conjunction b) (b_disjunction b) (b_implication b) f xs a0 (b_rules b) outs = Ok (a', rules', outs') /\
                   sim e log1 outs' /\ safe_from (S i) tl log1).
      { intros A f a0 xs Hnd' Hag' Heq.
        destruct (visits_sound e b A f (fun _ _ => True) (safe_from (S i) tl) (fun _ => True)
                    (fun _ _ _ => I) (fun _ _ _ _ _ _ _ => I) xs a0 (b_rules b) outs log Hnd' Hag' Hrefl I Hsim)
          as (a' & rules' & outs' & log1 & Hv & Hsim1 & HK & _ & _); [| eauto 10].
        intros fires _.
        set (mk := fun trig' : nat -> list nat => fun j => if Nat.eqb j i then filter fires (seq 0 n) else trig' j).
        assert (Hfi : forall trig' k r, In (k, r) xs -> fires_in (mk trig') i k = fires k).
        { intros trig' k r Hin; unfold fires_in, mk; rewrite Nat.eqb_refl. apply existsb_filter_seq.
          unfold n. eapply nth_error_lt. eapply Hag'; eauto. }
        destruct (Hstep (mk (fun _ => []))) as (log1 & Hb1 & _).
        rewrite Heq, (run_interleaved_ext te e b _ fires xs log (Hfi _)) in Hb1.
        exists log1; split; [exact Hb1 |]. intro trig'.
        destruct (Hstep (mk trig')) as (log1' & Hb1' & log' & Hrest & Hdef).
        rewrite Heq, (run_interleaved_ext te e b _ fires xs log (Hfi _)), Hb1 in Hb1'. injection Hb1' as <-.
        exists log'; split; [| exact Hdef]. rewrite <- Hrest. apply run_blocks_ext.
        intros j Hj; unfold mk. destruct (Nat.eqb j i) eqn:E; [apply Nat.eqb_eq in E; lia | reflexivity]. }
      (* the two-phase methods: the evaluation loop never triggers *)
      assert (Hcollect : forall (A : Type) (f : A -> nat -> T -> A * bool) (a0 : A) (P : A -> Prop),
                 (forall a k d, snd (f a k d) = false) ->
                 (forall a k d r, nth_error (b_rules b) k = Some r -> rule_loaded r = true -> P a -> P (fst (f a k d))) -> P a0 ->
                 run_degrees te e b (b_rules b) = None ->
                 exists a' rules' outs',
                   visits fe e (b_conjunction b) (b_disjunction b) (b_implication b) f (numbered (b_rules b)) a0 (b_rules b) outs = Ok (a', rules', outs') /\
                   sim e log outs' /\ P a' /\ Forall2 same_rule rules' (b_rules b)).
      { intros A f a0 P Hnever HP Ha0 Hdeg.
        destruct (visits_sound e b A f (fun _ c => c = false) (fun l => l = log) P
                    (fun a k d => Hnever a k d) HP (numbered (b_rules b)) a0 (b_rules b) outs log Hnd Hag Hrefl Ha0 Hsim)
          as (a' & rules' & outs' & log1 & Hv & Hsim1 & -> & HPa & Hr); [| eauto 10].
        intros fires Hf. exists log; split; [| reflexivity].
        rewrite (run_interleaved_ext te e b fires (fun _ => false)) by (intros; apply Hf).
        rewrite run_interleaved_false, numbered_snd, Hdeg. reflexivity. }
      (* … and the triggers are then those the numeric model chose *)
      assert (Htrig : forall (g : T -> T) tlist rules' outs',
                 (forall trig, block_activate te trig e i b log =
                               match run_degrees te e b (b_rules b) with Some x => Err x | None => run_triggers e b (trig i) log end) ->
                 run_degrees te e b (b_rules b) = None ->
                 sim e log outs' -> Forall2 same_rule rules' (b_rules b) -> (forall k, In k tlist -> valid_loaded b k) ->
                 exists rs'' outs'' log1, trig_all (b_implication b) g tlist rules' outs' = Ok (rs'', outs'') /\
                   sim e log1 outs'' /\ safe_from (S i) tl log1).
      { intros g tlist rules' outs' Heq Hdeg Hsim' Hr Hvalid.
        set (mk := fun trig' : nat -> list nat => fun j => if Nat.eqb j i then tlist else trig' j).
        assert (Hmk : forall trig', mk trig' i = tlist) by (intro; unfold mk; now rewrite Nat.eqb_refl).
        destruct (Hstep (mk (fun _ => []))) as (log1 & Hb1 & _). rewrite Heq, Hdeg, Hmk in Hb1.
        destruct (trig_all_sound e b g tlist rules' outs' log log1 Hsim' Hr Hvalid Hb1) as (rs'' & outs'' & Hta & Hsim1).
        exists rs'', outs'', log1; split; [exact Hta | split; [exact Hsim1 |]]. intro trig'.
        destruct (Hstep (mk trig')) as (log1' & Hb1' & log' & Hrest & Hdef). rewrite Heq, Hdeg, Hmk, Hb1 in Hb1'. injection Hb1' as <-.
        exists log'; split; [| exact Hdef]. rewrite <- Hrest. apply run_blocks_ext.
        intros j Hj; unfold mk. destruct (Nat.eqb j i) eqn:E; [apply Nat.eqb_eq in E; lia | reflexivity]. }
      assert (Hdeg_none : forall trig, (block_activate te trig e i b log =
                               match run_degrees te e b (b_rules b) with Some x => Err x | None => run_triggers e b (trig i) log end) ->
                          run_degrees te e b (b_rules b) = None).
      { intros trig Heq. destruct (Hstep trig) as (log1 & Hb1 & _). rewrite Heq in Hb1.
        destruct (run_degrees te e b (b_rules b)); [discriminate | reflexivity]. }
      unfold block_run.
      destruct (b_activation b) as [[| nn th | nn th | nn | nn | | c th] |] eqn:Ea.
      - (* General *)
        destruct (Hstep (fun _ => [])) as (log1 & Hb1 & _).
        assert (Hgen : forall trig, block_activate te trig e i b log = run_interleaved te e b (fun _ => true) (indexed (b_rules b)) log)
          by (intro; unfold block_activate; rewrite Ea; reflexivity).
        rewrite Hgen in Hb1.
        destruct (visits_sound e b unit f_general (fun _ c => c = true) (safe_from (S i) tl) (fun _ => True)
                    (fun _ _ _ => eq_refl) (fun _ _ _ _ _ _ _ => I) (numbered (b_rules b)) tt (b_rules b) outs log Hnd Hag Hrefl I Hsim)
          as (a' & rules' & outs' & log1' & Hv & Hsim1 & HK & _ & _).
        { intros fires Hf. exists log1; split.
          - rewrite (run_interleaved_ext te e b fires (fun _ => true)) by (intros; apply Hf). exact Hb1.
          - intro trig'. destruct (Hstep trig') as (log1'' & Hb1' & Hrest). rewrite Hgen, Hb1 in Hb1'. injection Hb1' as <-. exact Hrest. }
        cbn [method_run]. rewrite Hv; cbn [bind fst snd]. eauto 10.
      - (* First *)
        destruct (Horacle Z (f_first nn th) 0%Z (numbered (b_rules b)) Hnd Hag) as (a' & rules' & outs' & log1 & Hv & Hsim1 & HK).
        { intro; unfold block_activate; rewrite Ea; reflexivity. }
        cbn [method_run]. rewrite Hv; cbn [bind fst snd]. eauto 10.
      - (* Last *)
        destruct (Horacle Z (f_first nn th) 0%Z (rev (numbered (b_rules b)))) as (a' & rules' & outs' & log1 & Hv & Hsim1 & HK).
        { apply NoDup_rev_map_fst; exact Hnd. }
        { intros k r Hin; apply Hag; now apply in_rev. }
        { intro; unfold block_activate; rewrite Ea; reflexivity. }
        cbn [method_run]. rewrite Hv; cbn [bind fst snd]. eauto 10.
      - (* Highest *)
        assert (Heq : forall trig, block_activate te trig e i b log =
                        match run_degrees te e b (b_rules b) with Some x => Err x | None => run_triggers e b (trig i) log end)
          by (intro; unfold block_activate; rewrite Ea; reflexivity).
        pose proof (Hdeg_none _ (Heq (fun _ => []))) as Hdeg.
        destruct (Hcollect (list (T * nat)) (f_heap neg) [] (fun h => forall k, In k (map snd h) -> valid_loaded b k))
          as (h & rules' & outs' & Hv & Hsim' & Hh & Hr); auto.
        { intros; unfold f_heap; destruct (gtb d zero); reflexivity. }
        { intros a k d r Hk Hl Ha k' Hin. unfold f_heap in Hin. destruct (gtb d zero); cbn [fst] in Hin; [| auto].
          rewrite map_app in Hin; apply in_app_or in Hin; destruct Hin as [Hin | [<- | []]]; [auto | exists r; auto]. }
        { intros k []. }
        destruct (Htrig ident (pop_order (length h) nn 0%Z h) rules' outs' Heq Hdeg Hsim' Hr) as (rs'' & outs'' & log1 & Hta & Hsim1 & HK).
        { intros k Hin; apply Hh; eapply pop_order_incl; eauto. }
        cbn [method_run]; unfold heap_run. rewrite Hv; cbn [bind fst snd]. rewrite Hta. eauto 10.
      - (* Lowest *)
        assert (Heq : forall trig, block_activate te trig e i b log =
                        match run_degrees te e b (b_rules b) with Some x => Err x | None => run_triggers e b (trig i) log end)
          by (intro; unfold block_activate; rewrite Ea; reflexivity).
        pose proof (Hdeg_none _ (Heq (fun _ => []))) as Hdeg.
        destruct (Hcollect (list (T * nat)) (f_heap (fun d => d)) [] (fun h => forall k, In k (map snd h) -> valid_loaded b k))
          as (h & rules' & outs' & Hv & Hsim' & Hh & Hr); auto.
        { intros; unfold f_heap; destruct (gtb d zero); reflexivity. }
        { intros a k d r Hk Hl Ha k' Hin. unfold f_heap in Hin. destruct (gtb d zero); cbn [fst] in Hin; [| auto].
          rewrite map_app in Hin; apply in_app_or in Hin; destruct Hin as [Hin | [<- | []]]; [auto | exists r; auto]. }
        { intros k []. }
        destruct (Htrig ident (pop_order (length h) nn 0%Z h) rules' outs' Heq Hdeg Hsim' Hr) as (rs'' & outs'' & log1 & Hta & Hsim1 & HK).
        { intros k Hin; apply Hh; eapply pop_order_incl; eauto. }
        cbn [method_run]; unfold heap_run. rewrite Hv; cbn [bind fst snd]. rewrite Hta. eauto 10.
      - (* Proportional *)
        assert (Heq : forall trig, block_activate te trig e i b log =
                        match run_degrees te e b (b_rules b) with Some x => Err x | None => run_triggers e b (trig i) log end)
          by (intro; unfold block_activate; rewrite Ea; reflexivity).
        pose proof (Hdeg_none _ (Heq (fun _ => []))) as Hdeg.
        destruct (Hcollect (list nat * T)%type f_prop ([], zero) (fun a => forall k, In k (fst a) -> valid_loaded b k))
          as (a' & rules' & outs' & Hv & Hsim' & Hh & Hr); auto.
        { intros; unfold f_prop; destruct (gtb d zero); reflexivity. }
        { intros a k d r Hk Hl Ha k' Hin. unfold f_prop in Hin. destruct (gtb d zero); cbn [fst] in Hin; [| auto].
          apply in_app_or in Hin; destruct Hin as [Hin | [<- | []]]; [auto | exists r; auto]. }
        { intros k []. }
        destruct (Htrig (fun d => div d (snd a')) (fst a') rules' outs' Heq Hdeg Hsim' Hr Hh) as (rs'' & outs'' & log1 & Hta & Hsim1 & HK).
        cbn [method_run]. rewrite Hv; cbn [bind fst snd]. rewrite Hta. eauto 10.
      - (* Threshold *)
        destruct (Horacle unit (f_threshold c th) tt (numbered (b_rules b)) Hnd Hag) as (a' & rules' & outs' & log1 & Hv & Hsim1 & HK).
        { intro; unfold block_activate; rewrite Ea; reflexivity. }
        cbn [method_run]. rewrite Hv; cbn [bind fst snd]. eauto 10.
      - (* no activation method: the abstract run raises *)
        destruct (Hstep (fun _ => [])) as (log1 & Hb1 & _). unfold block_activate in Hb1; rewrite Ea in Hb1; discriminate.
    Qed.

    Lemma blocks_sound : forall bs i log outs,
      safe_from i bs log -> sim e log outs ->
      exists bs' outs' log', blocks_run fe e outs bs = Ok (bs', outs') /\ sim e log' outs' /\
                             defuzz_all te 0 (e_outputs e) log' = None.
    Proof.
      induction bs as [| b bs IH]; intros i log outs Hsafe Hsim.
      - destruct (Hsafe (fun _ => [])) as (log' & Hrun & Hdef). cbn in Hrun; injection Hrun as <-.
        exists [], outs, log; repeat split; auto; apply Hsim.
      - cbn [blocks_run]. destruct (b_enabled b) eqn:Hen.
        + destruct (block_sound i b bs log outs Hsafe Hen Hsim) as (rs' & outs' & log1 & Hb & Hsim1 & Hsafe1).
          rewrite Hb; cbn [bind fst snd].
          destruct (IH (S i) log1 outs' Hsafe1 Hsim1) as (bs' & outs'' & log' & Hbs & Hsim' & Hdef).
          rewrite Hbs; cbn [bind fst snd]. eauto 10.
        + assert (Hsafe1 : safe_from (S i) bs log).
          { intro trig; destruct (Hsafe trig) as (log' & Hrun & Hdef). cbn [run_blocks] in Hrun; rewrite Hen in Hrun. eauto. }
          destruct (IH (S i) log outs Hsafe1 Hsim) as (bs' & outs'' & log' & Hbs & Hsim' & Hdef).
          rewrite Hbs; cbn [bind fst snd]. eauto 10.
    Qed.
  End Blocks.

  (* ================================================================ defuzzification *)
  (* ---- the integral defuzzifiers are total on a non-empty row of samples *)
  Lemma last_elem_ok : forall l : list T, l <> [] -> exists z, last_elem l = Ok z.
  Proof.
    induction l as [| x l IH]; intro H; [congruence |]. destruct l as [| y l]; [cbn; eauto |].
    change (last_elem (x :: y :: l)) with (last_elem (y :: l)). apply IH; discriminate.
  Qed.
  Lemma reduce1_ok (f : T -> T -> T) : forall l : list T, l <> [] -> exists z, reduce1 f l = Ok z.
  Proof. intros [| x l] H; [congruence | cbn; eauto]. Qed.
  Lemma cumsum_nonempty : forall l : list T, l <> [] -> cumsum l <> [].
  Proof. intros [| x l] H; [congruence | discriminate]. Qed.
  Lemma map2_nonempty {A B C} (f : A -> B -> C) : forall la lb, la <> [] -> lb <> [] -> NpSum.map2 f la lb <> [].
  Proof. intros [| a la] [| b0 lb] Ha Hb; try congruence; discriminate. Qed.
  Lemma map_nonempty {A B} (f : A -> B) : forall l, l <> [] -> map f l <> [].
  Proof. intros [| a l] H; [congruence | discriminate]. Qed.

  Lemma defuzzify_samples_ok : forall k (xs ys : list T), length xs = length ys -> xs <> [] ->
    exists z, defuzzify_samples k xs ys = Ok z.
  Proof.
    intros k xs ys Hlen Hne. assert (Hys : ys <> []) by (destruct ys; [destruct xs; [congruence | discriminate] | discriminate]).
    unfold defuzzify_samples. rewrite Hlen, Nat.eqb_refl; cbn [negb].
    assert (Hmask : forall m, NpSum.map2 (fun (b0 : bool) x => where_ b0 x nan) (map (fun y => gtb y zero && eqb y m) ys) xs <> [])
      by (intro; apply map2_nonempty; [apply map_nonempty |]; assumption).
    destruct k.
    - unfold bisector, bisector_area.
      destruct (last_elem_ok (nancumsum ys)) as [l ->]; [unfold nancumsum; apply cumsum_nonempty, map_nonempty, Hys |]. cbn [bind].
      destruct (reduce1_ok nmin (map (fun a => nabs (sub (div a l) half)) (nancumsum ys))) as [m Hm];
        [apply map_nonempty; unfold nancumsum; apply cumsum_nonempty, map_nonempty, Hys |].
      unfold amin; rewrite Hm; cbn [bind]; eauto.
    - eauto.
    - unfold lom, maxima_mask, amax. destruct (reduce1_ok nmax ys Hys) as [m ->]; cbn [bind].
      unfold nanmax, select. apply reduce1_ok, Hmask.
    - unfold mom, maxima_mask, amax. destruct (reduce1_ok nmax ys Hys) as [m ->]; cbn [bind]. eauto.
    - unfold som, maxima_mask, amax. destruct (reduce1_ok nmax ys Hys) as [m ->]; cbn [bind].
      unfold nanmin, select. apply reduce1_ok, Hmask.
  Qed.

  (* ---- Aggregated.membership *)
  Lemma aggregate_from_ok : forall (e E : engine T) agg l y x, e_inputs E = e_inputs e ->
    activated_raise (engine_term_err e) (map abs_act l) = None -> exists z, aggregate_from fe E agg y l x = Ok z.
  Proof.
    intros e E agg; induction l as [| a l IH]; intros y x Hin H; [cbn; eauto |].
    cbn [map activated_raise abs_act aa_impl aa_term] in H. cbn [aggregate_from]. unfold activated_membership.
    destruct (a_implication a) as [imp |]; cbn [is_some] in H; [| discriminate].
    destruct (engine_term_err e (a_term a) false) eqn:Et; [discriminate |].
    destruct (engine_term_err_membership e E (a_term a) x Hin Et) as [m ->]. cbn [bind]. apply IH; assumption.
  Qed.

  (* ---- the weighted defuzzifiers *)
  Lemma term_wtype_eq (t : term T) : Weighted.term_wtype t = ready_term_wtype t.
  Proof. destruct t; reflexivity. Qed.
  Lemma wtype_eqb_same (x y : wtype) : Weighted.wtype_eqb x y = Ready.wtype_eqb x y.
  Proof. destruct x, y; reflexivity. Qed.
  Lemma infer_type_eq (l : list (activated T)) : Weighted.infer_type l = infer_wtype (map abs_act l).
  Proof.
    destruct l as [| a l]; [reflexivity |]. cbn [Weighted.infer_type infer_wtype map abs_act aa_term].
    rewrite term_wtype_eq.
    assert (Hf : forallb (fun b0 : activated T => Weighted.wtype_eqb (Weighted.term_wtype (a_term b0)) (ready_term_wtype (a_term a))) l =
                 forallb (fun b0 : aact => Ready.wtype_eqb (ready_term_wtype (aa_term b0)) (ready_term_wtype (a_term a))) (map abs_act l)).
    { induction l as [| b0 l IH]; [reflexivity |]. cbn [forallb map abs_act aa_term]. now rewrite IH, term_wtype_eq, wtype_eqb_same. }
    now rewrite Hf.
  Qed.

  Definition name_in (n : string) (names : list string) : bool := existsb (String.eqb n) names.
  Lemma group_insert_terms (s : snormx) (a : activated T) : forall groups,
    map (@a_term T) (group_insert s a groups) =
      (if name_in (act_name a) (map act_name groups) then map (@a_term T) groups else map (@a_term T) groups ++ [a_term a]) /\
    (forall n, name_in n (map act_name (group_insert s a groups)) = name_in n (act_name a :: map act_name groups)).
  Proof.
    induction groups as [| g groups [IH1 IH2]]; [split; [reflexivity | intro n; reflexivity] |].
    cbn [group_insert]. rewrite String.eqb_sym. unfold name_in in *. cbn [map existsb].
    destruct (String.eqb (act_name a) (act_name g)) eqn:E.
    - cbn [orb map update_group a_term]. split; [reflexivity |].
      intro n. unfold act_name at 1; cbn [update_group a_term]. fold (act_name g). cbn [existsb].
      apply String.eqb_eq in E. rewrite E. destruct (String.eqb n (act_name g)); reflexivity.
    - cbn [orb map]. rewrite IH1. split.
      + destruct (existsb (String.eqb (act_name a)) (map act_name groups)); reflexivity.
      + intro n. cbn [existsb]. rewrite IH2. cbn [existsb].
        destruct (String.eqb n (act_name g)), (String.eqb n (act_name a)); reflexivity.
  Qed.

  Lemma grouped_terms_reps (s : snormx) : forall (l : list (activated T)) groups seen,
    (forall n, name_in n seen = name_in n (map act_name groups)) ->
    map (@a_term T) (fold_left (fun gs a => group_insert s a gs) l groups) =
    map (@a_term T) groups ++ group_reps seen (map abs_act l).
  Proof.
    induction l as [| a l IH]; intros groups seen Hseen; [cbn; now rewrite app_nil_r |].
    cbn [fold_left map group_reps abs_act aa_term]. fold (act_name a).
    destruct (group_insert_terms s a groups) as [H1 H2].
    change (existsb (String.eqb (act_name a)) seen) with (name_in (act_name a) seen). rewrite Hseen.
    destruct (name_in (act_name a) (map act_name groups)) eqn:E.
    - rewrite (IH (group_insert s a groups) seen).
      + rewrite H1. reflexivity.
      + intro n. rewrite H2, Hseen. unfold name_in in *; cbn [existsb].
        destruct (String.eqb n (act_name a)) eqn:En; [| reflexivity]. apply String.eqb_eq in En; subst n. now rewrite E.
    - rewrite (IH (group_insert s a groups) (act_name a :: seen)).
      + rewrite H1, <- app_assoc. reflexivity.
      + intro n. rewrite H2. unfold name_in in *; cbn [existsb]. now rewrite Hseen.
  Qed.

  Lemma terms_raise_none_inv : forall te m (ts : list (term T)), terms_raise te m ts = None -> forall t, In t ts -> te t m = None.
  Proof.
    intros te m; induction ts as [| t0 ts IH]; intros H t Hin; [contradiction |].
    cbn [terms_raise] in H. destruct (te t0 m) eqn:E; [discriminate |]. destruct Hin as [<- | Hin]; auto.
  Qed.

  Lemma wloop_ok : forall (e E : engine T) this (groups : list (activated T)) st, e_inputs E = e_inputs e ->
    (forall g, In g groups -> engine_term_err e (a_term g) (Ready.wtype_eqb this WTsukamoto) = None) ->
    exists st', wloop (tm E) term_tsukamoto this groups st = Ok st'.
  Proof.
    intros e E this; induction groups as [| g groups IH]; intros st Hin H; [cbn; eauto |].
    cbn [wloop]. assert (Hg := H g (or_introl eq_refl)).
    assert (Hv : exists z, term_value (tm E) term_tsukamoto this (a_term g) (a_degree g) = Ok z).
    { unfold term_value. destruct this; cbn [Ready.wtype_eqb] in Hg;
        [eapply engine_term_err_membership | eapply engine_term_err_membership | eapply engine_term_err_tsukamoto]; eauto. }
    destruct Hv as [z ->]; cbn [bind]. apply IH; [assumption | intros; apply H; now right].
  Qed.

  Lemma weighted_ok : forall (e E : engine T) avg ty agg l, e_inputs E = e_inputs e ->
    weighted_raises (engine_term_err e) ty (map abs_act l) = None ->
    exists z, weighted_defuzzify (tm E) term_tsukamoto avg ty agg l = Ok z.
  Proof.
    intros e E avg ty agg l Hin H. unfold weighted_defuzzify, weighted_raises, resolve_type in *.
    assert (Hgroups : forall this, terms_raise (engine_term_err e) (Ready.wtype_eqb this WTsukamoto) (group_reps [] (map abs_act l)) = None ->
              exists st', wloop (tm E) term_tsukamoto this (grouped_terms agg l) (winit l) = Ok st').
    { intros this Ht. apply (wloop_ok e); [assumption |]. intros g Hg.
      eapply terms_raise_none_inv; [exact Ht |].
      pose proof (grouped_terms_reps (agg_or_sum agg) l [] [] (fun n => eq_refl)) as Hr. cbn [map app] in Hr.
      unfold grouped_terms. rewrite <- Hr. now apply in_map. }
    destruct ty.
    - rewrite infer_type_eq. destruct (infer_wtype (map abs_act l)) as [this |]; [| discriminate]. cbn [bind].
      destruct (Hgroups this H) as [st' ->]; cbn [bind]; eauto.
    - cbn [bind]. destruct (Hgroups WTakagiSugeno H) as [st' ->]; cbn [bind]; eauto.
    - cbn [bind]. destruct (Hgroups WTsukamoto H) as [st' ->]; cbn [bind]; eauto.
  Qed.

  (* ---- OutputVariable.defuzzify *)
  Lemma output_defuzzify_ok : forall (e E : engine T) j (v0 ov : output_var T) log,
    e_inputs E = e_inputs e -> same_cfg ov v0 -> fuzzy_of j log = map abs_act (ov_fuzzy ov) ->
    (forall k res, ov_defuzzifier v0 = Some (DIntegral k res) -> res <> 0) ->
    defuzz_raises (engine_term_err e) j v0 log = None ->
    exists ov', output_defuzzify fe E ov = Ok ov'.
  Proof.
    intros e E j v0 ov log Hin (Hterms & Hen & Hdef & Hagg) Hfz Hres H.
    unfold defuzz_raises in H. rewrite Hfz in H. unfold output_defuzzify, defuzzify_fields. rewrite Hen, Hdef, Hagg in *.
    destruct (ov_enabled v0); cbn [negb] in *; [| eauto].
    destruct (ov_defuzzifier v0) as [d |] eqn:Ed; [| discriminate]. cbn [negb].
    assert (Hv : exists z, defuzzifier_value fe E ov d = Ok z).
    { destruct d as [k res | avg ty]; cbn [defuzzifier_value].
      - specialize (Hres k res eq_refl). unfold midpoints. destruct (Nat.eqb res 0) eqn:E0; [apply Nat.eqb_eq in E0; congruence |].
        cbn [bind].
        destruct (mapM_ok (aggregated_membership fe E ov) (midpoints_list (ov_min ov) (ov_max ov) res)) as (ys & Hys & Hlen).
        { intros x _. unfold aggregated_membership. rewrite Hagg. unfold integral_raises in H.
          destruct (ov_fuzzy ov) as [| a l] eqn:Ef; [eauto |]. cbn [map] in H.
          destruct (ov_aggregation v0) as [agg |]; cbn [is_some] in H; [| discriminate].
          eapply aggregate_from_ok; eauto. }
        rewrite Hys; cbn [bind]. apply defuzzify_samples_ok; [now rewrite Hlen |].
        unfold midpoints_list. destruct res; [congruence |]. cbn [seq map]. discriminate.
      - rewrite Hagg. eapply weighted_ok; eauto. }
    destruct Hv as [z ->]. cbn [bind take_last cs_value is_empty]. rewrite andb_false_r. eauto.
  Qed.

  Lemma pipeline_sound : forall (e : engine T) log todo vs0 done k,
    Forall2 same_cfg todo vs0 ->
    (forall idx v, nth_error todo idx = Some v -> fuzzy_of (k + idx) log = map abs_act (ov_fuzzy v)) ->
    (forall v kk res, In v vs0 -> ov_defuzzifier v = Some (DIntegral kk res) -> res <> 0) ->
    defuzz_all (engine_term_err e) k vs0 log = None ->
    exists outs', pipeline_values fe e done todo = Ok outs'.
  Proof.
    intros e log; induction todo as [| ov todo IH]; intros vs0 done k Hcfg Hfz Hres H; [cbn; eauto |].
    inversion Hcfg as [| ov_ v0 todo_ vs0' Hc Hcfg' E1 E2]; subst. cbn [defuzz_all] in H.
    destruct (defuzz_raises (engine_term_err e) k v0 log) eqn:Hd; [discriminate |].
    cbn [pipeline_values].
    destruct (output_defuzzify_ok e (with_outputs e (done ++ ov :: todo)) k v0 ov log eq_refl Hc) as [ov' ->]; auto.
    - rewrite <- (Hfz 0 ov eq_refl). now rewrite Nat.add_0_r.
    - intros kk res; apply Hres; now left.
    - cbn [bind]. apply (IH vs0' (done ++ [ov']) (S k)); auto.
      + intros idx v Hv. rewrite <- (Hfz (S idx) v Hv). f_equal; lia.
      + intros v kk res Hin; apply Hres; now right.
  Qed.

  (* ================================================================ the soundness theorems *)
  Lemma sim_initial (e : engine T) : sim e [] (map clear_fuzzy (e_outputs e)).
  Proof.
    split.
    - induction (e_outputs e) as [| v vs IH]; cbn [map]; constructor; [repeat split | exact IH].
    - intros j v Hj. apply nth_error_In, in_map_iff in Hj. destruct Hj as (v0 & <- & _). reflexivity.
  Qed.

  (* no oracle makes the abstract model raise => the numeric model completes *)
  Theorem abstract_sound : forall e : engine T, resolution_ok e ->
    (forall trig, process_raises (engine_term_err e) trig e = None) ->
    exists e', process fe e = Ok e'.
  Proof.
    intros e Hres H. rewrite (process_eq_all_spec fe fe0_ext). unfold process_all_spec.
    assert (Hsafe : safe_from e 0 (e_blocks e) []).
    { intro trig. specialize (H trig). unfold process_raises in H.
      destruct (run_blocks (engine_term_err e) trig e 0 (e_blocks e) []) as [log |]; [eauto | discriminate]. }
    destruct (blocks_sound e (e_blocks e) 0 [] _ Hsafe (sim_initial e)) as (bs' & outs' & log' & -> & [Hcfg Hfz] & Hdef).
    cbn [bind fst snd].
    destruct (pipeline_sound e log' outs' (e_outputs e) [] 0 Hcfg Hfz) as [outs'' ->]; [| exact Hdef | cbn [bind]; eauto].
    intros v kk res Hin; apply Hres; exact Hin.
  Qed.

  (* with General activation only the oracle is never consulted: ONE abstract run decides *)
  Definition general_enabled (e : engine T) : Prop :=
    forall b, In b (e_blocks e) -> b_enabled b = true -> b_activation b = Some AGeneral \/ b_activation b = None.

  Lemma run_blocks_general : forall te trig trig' (e : engine T) bs i log,
    (forall b, In b bs -> b_enabled b = true -> b_activation b = Some AGeneral \/ b_activation b = None) ->
    run_blocks te trig e i bs log = run_blocks te trig' e i bs log.
  Proof.
    intros te trig trig' e; induction bs as [| b bs IH]; intros i log H; [reflexivity |].
    cbn [run_blocks]. destruct (b_enabled b) eqn:Hen; [| apply IH; intros; apply H; [now right | assumption]].
    assert (Hb : block_activate te trig e i b log = block_activate te trig' e i b log).
    { unfold block_activate. destruct (H b (or_introl eq_refl) Hen) as [-> | ->]; reflexivity. }
    rewrite Hb. destruct (block_activate te trig' e i b log); [| reflexivity].
    apply IH; intros; apply H; [now right | assumption].
  Qed.

  Theorem sound_general : forall (e : engine T) trig, general_enabled e -> resolution_ok e ->
    process_raises (engine_term_err e) trig e = None -> exists e', process fe e = Ok e'.
  Proof.
    intros e trig Hg Hres H. apply abstract_sound; [exact Hres |]. intro trig'.
    unfold process_raises in *. now rewrite (run_blocks_general _ trig' trig e (e_blocks e) 0 [] Hg).
  Qed.
End Sound.

(* ================================================================ with property C19 *)
(* an engine reported ready (by the check that mirrors the code in /repo) is processed by the NUMERIC model without error.
   Hypotheses beyond those of C19_ready_process_ok, all explicit:
     - wf_terms is taken at term_err := engine_term_err e, i.e. the terms the run evaluates are not a Discrete with an empty
       table, a Linear whose coefficient count is neither #inputs nor #inputs + 1, a Function (no formula model is plugged:
       fe0), nor — under a Tsukamoto weighted defuzzifier — a term without an inverse;
     - resolution_ok: no integral defuzzifier has resolution 0 (Op.midpoints divides by it). *)
Theorem ready_engine_process_ok :
  forall (T : Type) (N : Num T) (e : engine T) (tx : texts),
    is_ready e tx = [] -> has_activation e -> ws_tokens e tx -> wf_terms (engine_term_err e) e -> resolution_ok e ->
    exists e', process (@fe0 T) e = Ok e'.
Proof.
  intros T N e tx Hr Ha Hws Hwf Hres. apply abstract_sound; [exact Hres |].
  intro trig. exact (ready_process_ok T (engine_term_err e) trig e tx Hr Ha Hws Hwf).
Qed.

(* ================================================================ non-vacuity: a binary64 engine *)
From Coq Require Import PrimFloat.
From VF Require Import NumF.
Local Open Scope string_scope.
Definition NF19 : Num float := NumF true [].
Definition f_tri (n : string) (a b c : float) : term float := TShape n (Sh_Triangle a b c 1%float).
Definition f_input (n : string) (x : float) : input_var float :=
  {| iv_name := n; iv_enabled := true; iv_min := 0%float; iv_max := 1%float; iv_lock_range := false;
     iv_terms := [f_tri "lo" (-1)%float 0%float 1%float; f_tri "hi" 0%float 1%float 2%float]; iv_value := x |}.
Definition f_out_integral : output_var float :=
  {| ov_name := "o"; ov_enabled := true; ov_min := 0%float; ov_max := 1%float; ov_lock_range := false; ov_lock_previous := false;
     ov_default := PrimFloat.nan; ov_aggregation := Some (SN S_Maximum); ov_defuzzifier := Some (DIntegral Centroid 20);
     ov_terms := [f_tri "x" 0%float 0.25%float 0.5%float; f_tri "y" 0.5%float 0.75%float 1%float];
     ov_value := PrimFloat.nan; ov_previous := PrimFloat.nan; ov_fuzzy := [] |}.
Definition f_out_weighted : output_var float :=
  {| ov_name := "p"; ov_enabled := true; ov_min := 0%float; ov_max := 1%float; ov_lock_range := false; ov_lock_previous := false;
     ov_default := PrimFloat.nan; ov_aggregation := None; ov_defuzzifier := Some (DWeighted true WAutomatic);
     ov_terms := [TShape "k1" (Sh_Constant 0.25%float); TShape "k2" (Sh_Constant 0.75%float)];
     ov_value := PrimFloat.nan; ov_previous := PrimFloat.nan; ov_fuzzy := [] |}.
(* if a is lo and b is hi or a is very hi then o is x and p is k1 *)
Definition f_rule0 : rule float :=
  {| r_enabled := true; r_weight := 1%float;
     r_antecedent := Some (EOp false (EOp true (g_p 0 0) (g_p 1 1)) (EProp (VIn 0) [HG H_Very] (Some 1)));
     r_consequent := [{| c_var := 0; c_hedges := []; c_term := 0 |}; {| c_var := 1; c_hedges := []; c_term := 0 |}];
     r_degree := 0%float; r_triggered := false |}.
(* if ( a is lo or b is lo ) then o is y *)
Definition f_rule1 : rule float :=
  {| r_enabled := true; r_weight := 1%float;
     r_antecedent := Some (EOp false (g_p 0 0) (g_p 1 0));
     r_consequent := [{| c_var := 0; c_hedges := []; c_term := 1 |}];
     r_degree := 0%float; r_triggered := false |}.
Definition f_block (a : activation float) (rs : list (rule float)) : block float :=
  {| b_name := ""; b_enabled := true; b_conjunction := Some (TN T_Minimum); b_disjunction := Some (SN S_Maximum);
     b_implication := Some (TN T_Minimum); b_activation := Some a; b_rules := rs |}.
Definition f_engine : engine float :=
  {| e_name := "binary64"; e_inputs := [f_input "a" 0.25%float; f_input "b" 0.5%float];
     e_outputs := [f_out_integral; f_out_weighted];
     e_blocks := [f_block AGeneral [f_rule0]; f_block (AHighest 1%Z) [f_rule1]] |}.

Lemma f_ws_tokens : ws_tokens f_engine g_texts.
Proof.
  intros i b k r x Hb Hr _ Hx.
  destruct i as [| [| [| i]]]; try discriminate; injection Hb as <-;
    (destruct k as [| [| k]]; try discriminate); injection Hr as <-; injection Hx as <-.
  - change (g_texts 0 0) with
      (List.app (List.app ["a"; "is"; "lo"] (rd_kw true :: ["b"; "is"; "hi"])) (rd_kw false :: ["a"; "is"; "very"; "hi"])).
    repeat (apply R_op || apply R_prop).
  - change (g_texts 1 0) with
      ("(" :: List.app (List.app ["a"; "is"; "lo"] (rd_kw false :: ["b"; "is"; "lo"])) [")"]).
    apply R_paren; apply R_op; apply R_prop.
Qed.
Lemma f_has_activation : has_activation f_engine.
Proof. intros b [<- | [<- | []]] _; discriminate. Qed.
Lemma f_wf_terms : wf_terms (@engine_term_err float NF19 f_engine) f_engine.
Proof.
  split; [| split].
  - intros b r [<- | [<- | []]] [<- | []]; reflexivity.
  - intros iv t [<- | [<- | []]] [<- | [<- | []]]; reflexivity.
  - intros v [<- | [<- | []]].
    + intros t [<- | [<- | []]]; reflexivity.
    + split; [intros t [<- | [<- | []]]; reflexivity |].
      intros _ t t' [<- | [<- | []]] [<- | [<- | []]]; reflexivity.
Qed.
Lemma f_resolution_ok : resolution_ok f_engine.
Proof. intros v k res [<- | [<- | []]] H; [injection H as _ <-; discriminate | discriminate]. Qed.

(* every hypothesis of ready_engine_process_ok holds of it … *)
Theorem ready_engine_hypotheses_inhabited :
  is_ready f_engine g_texts = [] /\ has_activation f_engine /\ ws_tokens f_engine g_texts /\
  wf_terms (@engine_term_err float NF19 f_engine) f_engine /\ resolution_ok f_engine.
Proof. exact (conj eq_refl (conj f_has_activation (conj f_ws_tokens (conj f_wf_terms f_resolution_ok)))). Qed.

(* … and the conclusion is observed by running the numeric model on binary64 *)
Theorem ready_engine_example_runs :
  match @process float NF19 fe0 f_engine with
  | Ok e' => List.length (e_outputs e') = 2 /\
             forallb (fun v => negb (PrimFloat.is_nan (ov_value v))) (e_outputs e') = true
  | Err _ => False
  end.
Proof. vm_compute. split; reflexivity. Qed.
