(* DefuzzProofs.v — lemmas about Model/NpSum.v and Model/Defuzz.v (property C09).

   Two readings of the same generic definitions:
   * NumR  (reals): the pairwise summation is the plain sum; midpoints; the centroid.
   * NumER (reals + inf + NaN, Num/NumER.v): all five defuzzifiers.  Bisector and the three maxima defuzzifiers mask
     the sample points with NaN (`np.where(mask, x, nan)` followed by `nanmean / nanmax / nanmin`), which NumR
     cannot read (there `nan = 0` and `isnan _ = false`).
   The value a defuzzifier returns on real samples is described by a function of the reals only
   (`defuzz_value : ... -> option R`, None = NaN); `toER` embeds it in ER.  For memberships >= 0 every zero
   denominator of the five defuzzifiers comes with a zero numerator (lemmas `Rsum_nonneg_zero`, `dot_zero_of_zeros`,
   `psums_all_zero`, and count = 0 -> the masked sum is 0), so every x/0 that occurs is 0/0 = NaN, never an infinity. *)
From Coq Require Import ZArith Reals Bool List Lra Lia Psatz.
From VF Require Import Num NumR NumER Core NpSum Defuzz.
Import ListNotations.
Local Open Scope R_scope.

(* ------------------------------------------------------------------------------------------------ *)
(* Real-number vocabulary of the specifications                                                      *)

Definition Rsum (l : list R) : R := fold_right Rplus 0 l.
Definition dot (xs ys : list R) : R := Rsum (map2 Rmult xs ys).
Definition Rmean (l : list R) : R := Rsum l / INR (length l).
Definition Rmaxl (a : R) (l : list R) : R := fold_left Rmax l a.     (* max of the non-empty list a :: l *)
Definition Rminl (a : R) (l : list R) : R := fold_left Rmin l a.

(* the sample points selected by a mask, in order *)
Fixpoint pick (mask : list bool) (xs : list R) : list R :=
  match mask, xs with
  | b :: m, x :: t => if b then x :: pick m t else pick m t
  | _, _ => []
  end.

(* prefix sums C_1 .. C_n, C_i = y_1 + ... + y_i *)
Fixpoint psums (acc : R) (l : list R) : list R :=
  match l with [] => [] | x :: t => (acc + x) :: psums (acc + x) t end.

(* the midpoints x_i = lo + (i + 1/2) (hi - lo) / r *)
Definition Rmidpoint (lo hi : R) (r i : nat) : R := lo + (INR i + 1 / 2) * ((hi - lo) / INR r).
Definition Rmidpoints (lo hi : R) (r : nat) : list R := map (Rmidpoint lo hi r) (seq 0 r).

Lemma Rsum_app l1 l2 : Rsum (l1 ++ l2) = Rsum l1 + Rsum l2.
Proof. induction l1 as [|a l1 IH]; simpl; [lra | rewrite IH; lra]. Qed.

(* ------------------------------------------------------------------------------------------------ *)
(* NumR: pairwise summation = plain sum                                                              *)

Lemma seq_add_R acc l : seq_add (N:=NumR) acc l = acc + Rsum l.
Proof.
  unfold seq_add. revert acc. induction l as [|a l IH]; intros acc; simpl.
  - lra.
  - rewrite IH. unR. lra.
Qed.

Definition comb8 (r : acc8 (T:=R)) : R :=
  let '(r0, r1, r2, r3, r4, r5, r6, r7) := r in r0 + r1 + r2 + r3 + r4 + r5 + r6 + r7.

Lemma pw_loop_R nb : forall r rest r' tail,
  pw_loop (N:=NumR) nb r rest = (r', tail) -> comb8 r' + Rsum tail = comb8 r + Rsum rest.
Proof.
  induction nb as [|nb IH]; intros r rest r' tail H.
  - simpl in H. inversion H; subst. reflexivity.
  - destruct r as [[[[[[[r0 r1] r2] r3] r4] r5] r6] r7].
    destruct rest as [|b0 [|b1 [|b2 [|b3 [|b4 [|b5 [|b6 [|b7 rest]]]]]]]];
      cbn [pw_loop] in H; try (inversion H; subst; reflexivity).
    apply IH in H. rewrite H. unR. simpl. lra.
Qed.

Lemma pw_block_R l : pw_block (N:=NumR) l = Rsum l.
Proof.
  destruct l as [|a0 [|a1 [|a2 [|a3 [|a4 [|a5 [|a6 [|a7 rest]]]]]]]];
    try (unfold pw_block; rewrite seq_add_R; unR; simpl; lra).
  unfold pw_block.
  destruct (pw_loop (length rest / 8) (a0, a1, a2, a3, a4, a5, a6, a7) rest) as [r' tail] eqn:E.
  destruct r' as [[[[[[[r0 r1] r2] r3] r4] r5] r6] r7].
  apply pw_loop_R in E. rewrite seq_add_R. unR. simpl in *. lra.
Qed.

Lemma pw_sum_R fuel : forall n l, pw_sum (N:=NumR) fuel n l = Rsum l.
Proof.
  induction fuel as [|fuel IH]; intros n l; cbn [pw_sum].
  - apply pw_block_R.
  - destruct (n <=? 128)%nat; [apply pw_block_R|].
    rewrite !IH. unR. rewrite <- Rsum_app, firstn_skipn. reflexivity.
Qed.

Theorem np_sum_R l : np_sum (N:=NumR) l = Rsum l.
Proof. unfold np_sum. rewrite pw_sum_R. unR. lra. Qed.

(* ------------------------------------------------------------------------------------------------ *)
(* NumR: midpoints                                                                                   *)

Lemma of_nat_R n : of_nat (N:=NumR) n = INR n.
Proof. unfold of_nat. unR. rewrite Z.mul_1_r, <- INR_IZR_INZ. reflexivity. Qed.

Lemma half_R : half (N:=NumR) = 1 / 2.
Proof. unfold half. unR. reflexivity. Qed.

Lemma midpoint_R lo hi r i : midpoint (N:=NumR) lo hi r i = Rmidpoint lo hi r i.
Proof.
  unfold midpoint, Rmidpoint. rewrite !of_nat_R, half_R. unR. reflexivity.
Qed.

Lemma midpoints_list_R lo hi r : midpoints_list (N:=NumR) lo hi r = Rmidpoints lo hi r.
Proof. unfold midpoints_list, Rmidpoints. apply map_ext. intros i. apply midpoint_R. Qed.

Lemma Rmidpoints_length lo hi r : length (Rmidpoints lo hi r) = r.
Proof. unfold Rmidpoints. rewrite map_length, seq_length. reflexivity. Qed.

Lemma Rmidpoints_nth lo hi r i d : (i < r)%nat -> nth i (Rmidpoints lo hi r) d = Rmidpoint lo hi r i.
Proof.
  intros Hi. unfold Rmidpoints.
  rewrite (nth_indep _ d (Rmidpoint lo hi r 0)) by (rewrite map_length, seq_length; exact Hi).
  rewrite map_nth, seq_nth by exact Hi. reflexivity.
Qed.

Theorem midpoints_spec lo hi r : (0 < r)%nat ->
  midpoints (N:=NumR) lo hi r = Ok (Rmidpoints lo hi r).
Proof.
  intros Hr. unfold midpoints. destruct r as [|r]; [lia|]. cbn [Nat.eqb].
  rewrite midpoints_list_R. reflexivity.
Qed.

Lemma Rmidpoint_in_range lo hi r i : lo <= hi -> (i < r)%nat -> lo <= Rmidpoint lo hi r i <= hi.
Proof.
  intros Hle Hi. unfold Rmidpoint.
  assert (Hr : 0 < INR r) by (apply lt_0_INR; lia).
  assert (Hi' : INR i + 1 <= INR r) by (rewrite <- S_INR; apply le_INR; lia).
  assert (H0 : 0 <= INR i) by apply pos_INR.
  set (t := (INR i + 1 / 2) / INR r).
  assert (Ht : 0 <= t <= 1).
  { unfold t. split.
    - apply Rmult_le_pos; [lra | left; apply Rinv_0_lt_compat; exact Hr].
    - apply (Rmult_le_reg_r (INR r)); [exact Hr|]. unfold Rdiv. rewrite Rmult_assoc, Rinv_l by lra. lra. }
  replace ((INR i + 1 / 2) * ((hi - lo) / INR r)) with (t * (hi - lo)) by (unfold t; field; lra).
  split; nra.
Qed.

Lemma Rmidpoint_increasing lo hi r i j : lo < hi -> (i < j)%nat -> (0 < r)%nat ->
  Rmidpoint lo hi r i < Rmidpoint lo hi r j.
Proof.
  intros Hlt Hij Hr. unfold Rmidpoint.
  assert (Hr' : 0 < INR r) by (apply lt_0_INR; lia).
  assert (Hd : 0 < (hi - lo) / INR r) by (apply Rdiv_lt_0_compat; lra).
  assert (Hij' : INR i < INR j) by (apply lt_INR; exact Hij).
  nra.
Qed.

Lemma Rmidpoints_in_range lo hi r : lo <= hi -> Forall (fun x => lo <= x <= hi) (Rmidpoints lo hi r).
Proof.
  intros Hle. unfold Rmidpoints. apply Forall_forall. intros x Hx.
  apply in_map_iff in Hx. destruct Hx as [i [<- Hi]]. apply in_seq in Hi.
  apply Rmidpoint_in_range; [exact Hle | lia].
Qed.

(* translating the range translates every midpoint *)
Lemma Rmidpoints_translate lo hi r c :
  Rmidpoints (lo + c) (hi + c) r = map (fun x => x + c) (Rmidpoints lo hi r).
Proof.
  unfold Rmidpoints. rewrite map_map. apply map_ext. intros i. unfold Rmidpoint.
  replace (hi + c - (lo + c)) with (hi - lo) by lra. lra.
Qed.

(* ------------------------------------------------------------------------------------------------ *)
(* NumR: the centroid                                                                                *)

Lemma map2_mul_R xs ys : map2 (mul (Num:=NumR)) xs ys = map2 Rmult xs ys.
Proof. reflexivity. Qed.

Theorem centroid_R xs ys : centroid (N:=NumR) xs ys = dot xs ys / Rsum ys.
Proof. unfold centroid, dot. rewrite !np_sum_R. unR. reflexivity. Qed.

Lemma Rsum_nonneg l : Forall (fun y => 0 <= y) l -> 0 <= Rsum l.
Proof. induction 1 as [|y l Hy _ IH]; simpl; lra. Qed.

(* a sum of non-negative numbers is zero only if each is zero *)
Lemma Rsum_nonneg_zero l : Forall (fun y => 0 <= y) l -> Rsum l = 0 -> Forall (fun y => y = 0) l.
Proof.
  induction 1 as [|y l Hy Hl IH]; simpl; intros H0; constructor.
  - pose proof (Rsum_nonneg l Hl). lra.
  - apply IH. pose proof (Rsum_nonneg l Hl). lra.
Qed.

Lemma Rsum_zeros l : Forall (fun y => y = 0) l -> Rsum l = 0.
Proof. induction 1 as [|y l Hy _ IH]; simpl; lra. Qed.

(* guard form of "NaN exactly when all samples are zero": the denominator vanishes, and so does the numerator *)
Lemma dot_zero_of_zeros xs ys : Forall (fun y => y = 0) ys -> dot xs ys = 0.
Proof.
  intros H. revert xs. unfold dot. induction H as [|y ys Hy _ IH]; intros [|x xs]; simpl; try lra.
  rewrite IH, Hy. lra.
Qed.

(* weighted mean of points of [lo, hi] with non-negative weights, not all zero, lies in [lo, hi] *)
Lemma dot_bounds lo hi : forall xs ys, length xs = length ys ->
  Forall (fun x => lo <= x <= hi) xs -> Forall (fun y => 0 <= y) ys ->
  lo * Rsum ys <= dot xs ys <= hi * Rsum ys.
Proof.
  unfold dot. induction xs as [|x xs IH]; intros [|y ys] Hlen Hx Hy; simpl in *; try lra; try discriminate.
  inversion Hx as [|? ? Hx1 Hx2]; inversion Hy as [|? ? Hy1 Hy2]; subst.
  specialize (IH ys ltac:(lia) Hx2 Hy2). nra.
Qed.

Theorem centroid_in_range_R lo hi xs ys : length xs = length ys ->
  Forall (fun x => lo <= x <= hi) xs -> Forall (fun y => 0 <= y) ys -> Rsum ys <> 0 ->
  lo <= centroid (N:=NumR) xs ys <= hi.
Proof.
  intros Hlen Hx Hy Hs. rewrite centroid_R.
  pose proof (dot_bounds lo hi xs ys Hlen Hx Hy) as [Hl Hh].
  pose proof (Rsum_nonneg ys Hy) as Hp.
  assert (Hpos : 0 < Rsum ys) by lra.
  split.
  - apply (Rmult_le_reg_r (Rsum ys)); [exact Hpos|]. unfold Rdiv. rewrite Rmult_assoc, Rinv_l by lra. lra.
  - apply (Rmult_le_reg_r (Rsum ys)); [exact Hpos|]. unfold Rdiv. rewrite Rmult_assoc, Rinv_l by lra. lra.
Qed.

Lemma dot_translate c : forall xs ys, length xs = length ys ->
  dot (map (fun x => x + c) xs) ys = dot xs ys + c * Rsum ys.
Proof.
  unfold dot. induction xs as [|x xs IH]; intros [|y ys] Hlen; simpl in *; try lra; try discriminate.
  rewrite IH by lia. lra.
Qed.

Theorem centroid_translate_R c xs ys : length xs = length ys -> Rsum ys <> 0 ->
  centroid (N:=NumR) (map (fun x => x + c) xs) ys = centroid (N:=NumR) xs ys + c.
Proof.
  intros Hlen Hs. rewrite !centroid_R, dot_translate by exact Hlen. field. exact Hs.
Qed.

(* ------------------------------------------------------------------------------------------------ *)
(* NumER: reals + infinities + NaN                                                                   *)

Definition lift1 (f : R -> R) (a : option R) : option R := match a with Some x => Some (f x) | None => None end.
(* a specification-level value (None = NaN) read in ER *)
Definition toER (o : option R) : ER := match o with Some z => Fin z | None => NaN end.

Lemma toER_Fin o z : toER o = Fin z <-> o = Some z.
Proof. destruct o; simpl; split; intros H; try discriminate; congruence. Qed.
Lemma toER_NaN o : toER o = NaN <-> o = None.
Proof. destruct o; simpl; split; intros H; try discriminate; reflexivity. Qed.

Definition V (l : list R) : list ER := map Fin l.     (* a vector of real samples read in ER *)

(* a membership function on the reals, read in ER (a membership function is not asked about inf / NaN here) *)
Definition liftf (mu : R -> R) (a : ER) : ER := match a with Fin x => Fin (mu x) | _ => NaN end.

Lemma Rsgn_0 : Rsgn 0 = Eq.
Proof. unfold Rsgn. destruct (Rlt_dec 0 0); [lra | reflexivity]. Qed.
Lemma ERdiv_0_0 : ERdiv (Fin 0) (Fin 0) = NaN.
Proof. unfold ERdiv. destruct (Req_EM_T 0 0); [rewrite Rsgn_0; reflexivity | contradiction]. Qed.
Lemma ERmin_fin a x : ERmin (Fin a) (Fin x) = Fin (Rmin a x).
Proof.
  unfold ERmin, Rmin. cbn. destruct (Rltb_spec x a); destruct (Rle_dec a x); try reflexivity; [exfalso; lra | f_equal; lra].
Qed.
Lemma ERmax_fin a x : ERmax (Fin a) (Fin x) = Fin (Rmax a x).
Proof.
  unfold ERmax, Rmax. cbn. destruct (Rltb_spec a x); destruct (Rle_dec a x); try reflexivity; [exfalso; lra | f_equal; lra].
Qed.

Lemma V_length l : length (V l) = length l.
Proof. apply map_length. Qed.

(* -------- the summation commutes with any additive map (no algebra needed: same shape of computation) *)
Section Hom.
  Context {T1 T2 : Type} (N1 : Num T1) (N2 : Num T2) (phi : T1 -> T2).
  Hypothesis phi_add : forall a b, phi (add a b) = add (phi a) (phi b).
  Hypothesis phi_zero : phi zero = zero.
  Hypothesis phi_negzero : phi (neg zero) = neg zero.

  Lemma seq_add_hom l : forall acc, seq_add (phi acc) (map phi l) = phi (seq_add acc l).
  Proof.
    unfold seq_add. induction l as [|a l IH]; intros acc; simpl; [reflexivity|].
    rewrite <- phi_add. apply IH.
  Qed.

  Definition phi8 (r : acc8 (T:=T1)) : acc8 (T:=T2) :=
    let '(r0, r1, r2, r3, r4, r5, r6, r7) := r in
    (phi r0, phi r1, phi r2, phi r3, phi r4, phi r5, phi r6, phi r7).

  Lemma pw_loop_hom nb : forall r rest,
    pw_loop nb (phi8 r) (map phi rest) = (phi8 (fst (pw_loop nb r rest)), map phi (snd (pw_loop nb r rest))).
  Proof.
    induction nb as [|nb IH]; intros r rest; [reflexivity|].
    destruct r as [[[[[[[r0 r1] r2] r3] r4] r5] r6] r7].
    destruct rest as [|b0 [|b1 [|b2 [|b3 [|b4 [|b5 [|b6 [|b7 rest]]]]]]]]; try reflexivity.
    cbn [pw_loop map phi8]. rewrite <- !phi_add.
    exact (IH (add r0 b0, add r1 b1, add r2 b2, add r3 b3, add r4 b4, add r5 b5, add r6 b6, add r7 b7) rest).
  Qed.

  Lemma pw_block_hom l : pw_block (map phi l) = phi (pw_block l).
  Proof.
    destruct l as [|a0 [|a1 [|a2 [|a3 [|a4 [|a5 [|a6 [|a7 rest]]]]]]]];
      try (match goal with |- pw_block (map phi ?l) = _ =>
             unfold pw_block; cbn [map]; rewrite <- phi_negzero; exact (seq_add_hom l (neg zero)) end).
    unfold pw_block. cbn [map]. rewrite map_length.
    change (phi a0, phi a1, phi a2, phi a3, phi a4, phi a5, phi a6, phi a7)
      with (phi8 (a0, a1, a2, a3, a4, a5, a6, a7)).
    rewrite pw_loop_hom.
    destruct (pw_loop (length rest / 8) (a0, a1, a2, a3, a4, a5, a6, a7) rest) as [r' tail].
    destruct r' as [[[[[[[r0 r1] r2] r3] r4] r5] r6] r7]. cbn [fst snd phi8].
    rewrite <- !phi_add. apply seq_add_hom.
  Qed.

  Lemma pw_sum_hom fuel : forall n l, pw_sum fuel n (map phi l) = phi (pw_sum fuel n l).
  Proof.
    induction fuel as [|fuel IH]; intros n l; cbn [pw_sum]; [apply pw_block_hom|].
    destruct (n <=? 128)%nat; [apply pw_block_hom|].
    rewrite firstn_map, skipn_map, !IH, <- phi_add. reflexivity.
  Qed.

  Lemma np_sum_hom l : np_sum (map phi l) = phi (np_sum l).
  Proof. unfold np_sum. rewrite map_length, pw_sum_hom, <- phi_zero, <- phi_add. reflexivity. Qed.
End Hom.

Lemma np_sum_V l : np_sum (N:=NumER) (V l) = Fin (Rsum l).
Proof.
  unfold V. rewrite (np_sum_hom NumR NumER Fin) by reflexivity. rewrite np_sum_R. reflexivity.
Qed.

(* ------------------------------------------------------------------------------------------------ *)
(* NumER: the building blocks on vectors of reals                                                    *)

Lemma of_nat_ER n : of_nat (N:=NumER) n = Fin (INR n).
Proof. exact (f_equal Fin (of_nat_R n)). Qed.

Lemma half_ER : half (N:=NumER) = Fin (1 / 2).
Proof. exact (f_equal Fin half_R). Qed.

Lemma midpoint_ER lo hi r i : (0 < r)%nat ->
  midpoint (N:=NumER) (Fin lo) (Fin hi) r i = Fin (Rmidpoint lo hi r i).
Proof.
  intros Hr. unfold midpoint. rewrite !of_nat_ER, half_ER. unER. cbn [ERsub ERneg ERadd ERdiv].
  destruct (Req_EM_T (INR r) 0) as [E|_]; [|reflexivity].
  exfalso. apply (not_0_INR r); [lia | exact E].
Qed.

Theorem midpoints_ER lo hi r : (0 < r)%nat ->
  midpoints (N:=NumER) (Fin lo) (Fin hi) r = Ok (V (Rmidpoints lo hi r)).
Proof.
  intros Hr. unfold midpoints. destruct r as [|r]; [lia|]. cbn [Nat.eqb].
  unfold midpoints_list, Rmidpoints, V. rewrite map_map. f_equal. apply map_ext.
  intros i. apply midpoint_ER. lia.
Qed.

Lemma midpoints_zero_resolution {T} {N : Num T} (lo hi : T) : midpoints lo hi 0 = Err EInternal.
Proof. reflexivity. Qed.

Lemma map_nan0_V l : map (nan0 (N:=NumER)) (V l) = V l.
Proof. unfold V. rewrite map_map. reflexivity. Qed.

Lemma map_liftf_V mu l : map (liftf mu) (V l) = V (map mu l).
Proof. unfold V. rewrite !map_map. reflexivity. Qed.

Lemma map2_mul_V xs ys : map2 (mul (Num:=NumER)) (V xs) (V ys) = V (map2 Rmult xs ys).
Proof.
  revert ys. induction xs as [|x xs IH]; intros [|y ys]; try reflexivity.
  cbn [V map map2]. f_equal. apply IH.
Qed.

(* -------- cumulative sums *)
Lemma cumsum_from_V l : forall acc, cumsum_from (N:=NumER) (Fin acc) (V l) = V (psums acc l).
Proof. induction l as [|x l IH]; intros acc; [reflexivity|]. cbn [V map cumsum_from psums]. f_equal. apply IH. Qed.

Lemma nancumsum_V l : nancumsum (N:=NumER) (V l) = V (psums 0 l).
Proof.
  unfold nancumsum. rewrite map_nan0_V. destruct l as [|x l]; [reflexivity|].
  cbn [V map cumsum psums]. rewrite Rplus_0_l. f_equal. apply cumsum_from_V.
Qed.

Lemma psums_length l : forall acc, length (psums acc l) = length l.
Proof. induction l as [|x l IH]; intros acc; simpl; [reflexivity | rewrite IH; reflexivity]. Qed.

Lemma last_psums_cons l : forall x acc,
  last_elem (V (psums acc (x :: l))) = Ok (Fin (acc + Rsum (x :: l))).
Proof.
  induction l as [|x' l IH]; intros x acc.
  - simpl. do 2 f_equal. lra.
  - change (last_elem (V (psums acc (x :: x' :: l)))) with (last_elem (V (psums (acc + x) (x' :: l)))).
    rewrite IH. do 2 f_equal. simpl. lra.
Qed.
Lemma last_psums l acc : l <> [] -> last_elem (V (psums acc l)) = Ok (Fin (acc + Rsum l)).
Proof. destruct l as [|x l]; [contradiction | intros _; apply last_psums_cons]. Qed.

(* C_i = y_1 + ... + y_i *)
Lemma psums_nth l : forall acc i d, (i < length l)%nat -> nth i (psums acc l) d = acc + Rsum (firstn (S i) l).
Proof.
  induction l as [|x l IH]; intros acc i d Hi; simpl in Hi; [lia|].
  destruct i as [|i].
  - simpl. lra.
  - cbn [psums nth]. rewrite IH by lia. simpl. lra.
Qed.

(* all cumulative sums vanish when every sample is zero (the numerators of area / area[-1]) *)
Lemma psums_all_zero l : Forall (fun y => y = 0) l -> Forall (fun c => c = 0) (psums 0 l).
Proof.
  intros H. assert (G : forall acc, acc = 0 -> Forall (fun c => c = 0) (psums acc l)).
  { induction H as [|y l Hy _ IH]; intros acc Ha; simpl; constructor; [lra | apply IH; lra]. }
  apply G. reflexivity.
Qed.

(* -------- NaN-propagating row minimum / maximum *)
Lemma fold_nmin_V l : forall a, fold_left (nmin (Num:=NumER)) (V l) (Fin a) = Fin (Rminl a l).
Proof.
  induction l as [|x l IH]; intros a; [reflexivity|]. cbn [V map fold_left].
  change (nmin (Fin a) (Fin x)) with (ERmin (Fin a) (Fin x)). rewrite ERmin_fin. apply IH.
Qed.
Lemma fold_nmax_V l : forall a, fold_left (nmax (Num:=NumER)) (V l) (Fin a) = Fin (Rmaxl a l).
Proof.
  induction l as [|x l IH]; intros a; [reflexivity|]. cbn [V map fold_left].
  change (nmax (Fin a) (Fin x)) with (ERmax (Fin a) (Fin x)). rewrite ERmax_fin. apply IH.
Qed.

Lemma amin_V a l : amin (N:=NumER) (V (a :: l)) = Ok (Fin (Rminl a l)).
Proof. unfold amin, reduce1. cbn [V map]. f_equal. apply fold_nmin_V. Qed.
Lemma amax_V a l : amax (N:=NumER) (V (a :: l)) = Ok (Fin (Rmaxl a l)).
Proof. unfold amax, reduce1. cbn [V map]. f_equal. apply fold_nmax_V. Qed.

Lemma fold_nmin_NaN (l : list ER) : fold_left (nmin (Num:=NumER)) l NaN = NaN.
Proof. induction l as [|x l IH]; [reflexivity|]. cbn [fold_left]. exact IH. Qed.

Lemma Rmaxl_ge a l : forall y, In y (a :: l) -> y <= Rmaxl a l.
Proof.
  unfold Rmaxl. revert a. induction l as [|x l IH]; intros a y Hy; simpl in *.
  - destruct Hy as [<-|[]]. lra.
  - assert (Hm : Rmax a x <= fold_left Rmax l (Rmax a x)) by (apply IH; left; reflexivity).
    pose proof (Rmax_l a x). pose proof (Rmax_r a x).
    destruct Hy as [<-|[<-|Hy]]; try lra. apply IH. right. exact Hy.
Qed.
Lemma Rmaxl_in a l : In (Rmaxl a l) (a :: l).
Proof.
  unfold Rmaxl. revert a. induction l as [|x l IH]; intros a; simpl; [left; reflexivity|].
  destruct (IH (Rmax a x)) as [H|H].
  - rewrite <- H. unfold Rmax. destruct (Rle_dec a x); [right; left | left]; reflexivity.
  - right. right. exact H.
Qed.
Lemma Rminl_le a l : forall y, In y (a :: l) -> Rminl a l <= y.
Proof.
  unfold Rminl. revert a. induction l as [|x l IH]; intros a y Hy; simpl in *.
  - destruct Hy as [<-|[]]. lra.
  - assert (Hm : fold_left Rmin l (Rmin a x) <= Rmin a x) by (apply IH; left; reflexivity).
    pose proof (Rmin_l a x). pose proof (Rmin_r a x).
    destruct Hy as [<-|[<-|Hy]]; try lra. apply IH. right. exact Hy.
Qed.
Lemma Rminl_in a l : In (Rminl a l) (a :: l).
Proof.
  unfold Rminl. revert a. induction l as [|x l IH]; intros a; simpl; [left; reflexivity|].
  destruct (IH (Rmin a x)) as [H|H].
  - rewrite <- H. unfold Rmin. destruct (Rle_dec a x); [left | right; left]; reflexivity.
  - right. right. exact H.
Qed.

(* -------- np.where(mask, x, nan) and the NaN-ignoring reductions *)
Definition selV (mask : list bool) (xs : list R) : list ER :=
  map2 (fun (b : bool) x => if b then Fin x else NaN) mask xs.

Lemma select_V mask xs : select (N:=NumER) mask (V xs) = selV mask xs.
Proof.
  unfold select, selV. revert xs. induction mask as [|b m IH]; intros [|x xs]; try reflexivity.
  cbn [V map map2]. f_equal. apply IH.
Qed.

Lemma nan0_selV mask : forall xs,
  map (nan0 (N:=NumER)) (selV mask xs) = V (map2 (fun (b : bool) x => if b then x else 0) mask xs).
Proof.
  unfold selV. induction mask as [|b m IH]; intros [|x xs]; try reflexivity.
  cbn [V map map2]. rewrite IH. destruct b; reflexivity.
Qed.

Lemma Rsum_masked mask : forall xs,
  Rsum (map2 (fun (b : bool) x => if b then x else 0) mask xs) = Rsum (pick mask xs).
Proof.
  induction mask as [|b m IH]; intros [|x xs]; try reflexivity.
  cbn [map2 pick]. destruct b; simpl; rewrite IH; lra.
Qed.

Lemma count_selV mask : forall xs, count_notnan (N:=NumER) (selV mask xs) = length (pick mask xs).
Proof.
  unfold count_notnan, selV. induction mask as [|b m IH]; intros [|x xs]; try reflexivity.
  cbn [map2 pick filter]. destruct b; cbn; rewrite IH; reflexivity.
Qed.

Definition opt_mean (p : list R) : option R := match p with [] => None | a :: t => Some (Rmean (a :: t)) end.
Definition opt_max (p : list R) : option R := match p with [] => None | a :: t => Some (Rmaxl a t) end.
Definition opt_min (p : list R) : option R := match p with [] => None | a :: t => Some (Rminl a t) end.

(* nanmean of the masked points = mean of the selected points; NaN (0/0) when nothing is selected *)
Lemma nanmean_select mask xs : nanmean (N:=NumER) (select mask (V xs)) = toER (opt_mean (pick mask xs)).
Proof.
  rewrite select_V. unfold nanmean. rewrite nan0_selV, np_sum_V, Rsum_masked, count_selV, of_nat_ER.
  change (div (Fin ?a) (Fin ?b)) with (ERdiv (Fin a) (Fin b)).
  destruct (pick mask xs) as [|a p] eqn:E.
  - simpl. apply ERdiv_0_0.
  - rewrite ERdiv_fin; [reflexivity|]. apply not_0_INR. simpl. lia.
Qed.

Lemma fmax_Fin a x : fmax_ (N:=NumER) (Fin a) (Fin x) = Fin (Rmax a x).
Proof.
  unfold fmax_, geb. change (leb (Fin x) (Fin a)) with (ERleb (Fin x) (Fin a)). rewrite ERleb_fin. cbn [isnan NumER ERisnan].
  unfold Rmax. destruct (Rleb_spec x a); destruct (Rle_dec a x); simpl; try reflexivity.
  - f_equal. lra.
  - exfalso. lra.
Qed.
Lemma fmin_Fin a x : fmin_ (N:=NumER) (Fin a) (Fin x) = Fin (Rmin a x).
Proof.
  unfold fmin_. change (leb (Fin a) (Fin x)) with (ERleb (Fin a) (Fin x)). rewrite ERleb_fin. cbn [isnan NumER ERisnan].
  unfold Rmin. destruct (Rleb_spec a x); destruct (Rle_dec a x); simpl; try reflexivity; exfalso; lra.
Qed.

Lemma fold_fmax_selV_Fin mask : forall xs a,
  fold_left (fmax_ (N:=NumER)) (selV mask xs) (Fin a) = Fin (Rmaxl a (pick mask xs)).
Proof.
  unfold selV. induction mask as [|b m IH]; intros [|x xs] a; try reflexivity.
  cbn [map2 pick fold_left]. destruct b.
  - rewrite fmax_Fin. apply IH.
  - change (fmax_ (Fin a) NaN) with (Fin a). apply IH.
Qed.
Lemma fold_fmax_selV_NaN mask : forall xs,
  fold_left (fmax_ (N:=NumER)) (selV mask xs) NaN = toER (opt_max (pick mask xs)).
Proof.
  induction mask as [|b m IH]; intros [|x xs]; try reflexivity.
  unfold selV. cbn [map2 pick fold_left]. destruct b.
  - change (fmax_ NaN (Fin x)) with (Fin x). exact (fold_fmax_selV_Fin m xs x).
  - change (fmax_ NaN NaN) with (@NaN). apply IH.
Qed.
Lemma fold_fmin_selV_Fin mask : forall xs a,
  fold_left (fmin_ (N:=NumER)) (selV mask xs) (Fin a) = Fin (Rminl a (pick mask xs)).
Proof.
  unfold selV. induction mask as [|b m IH]; intros [|x xs] a; try reflexivity.
  cbn [map2 pick fold_left]. destruct b.
  - rewrite fmin_Fin. apply IH.
  - change (fmin_ (Fin a) NaN) with (Fin a). apply IH.
Qed.
Lemma fold_fmin_selV_NaN mask : forall xs,
  fold_left (fmin_ (N:=NumER)) (selV mask xs) NaN = toER (opt_min (pick mask xs)).
Proof.
  induction mask as [|b m IH]; intros [|x xs]; try reflexivity.
  unfold selV. cbn [map2 pick fold_left]. destruct b.
  - change (fmin_ NaN (Fin x)) with (Fin x). exact (fold_fmin_selV_Fin m xs x).
  - change (fmin_ NaN NaN) with (@NaN). apply IH.
Qed.

Lemma nanmax_select b m x xs :
  nanmax (N:=NumER) (select (b :: m) (V (x :: xs))) = Ok (toER (opt_max (pick (b :: m) (x :: xs)))).
Proof.
  rewrite select_V. unfold nanmax, reduce1, selV. cbn [map2 pick]. f_equal.
  change (map2 (fun (b0 : bool) x0 => if b0 then Fin x0 else NaN) m xs) with (selV m xs).
  destruct b; [rewrite fold_fmax_selV_Fin; reflexivity | apply fold_fmax_selV_NaN].
Qed.
Lemma nanmin_select b m x xs :
  nanmin (N:=NumER) (select (b :: m) (V (x :: xs))) = Ok (toER (opt_min (pick (b :: m) (x :: xs)))).
Proof.
  rewrite select_V. unfold nanmin, reduce1, selV. cbn [map2 pick]. f_equal.
  change (map2 (fun (b0 : bool) x0 => if b0 then Fin x0 else NaN) m xs) with (selV m xs).
  destruct b; [rewrite fold_fmin_selV_Fin; reflexivity | apply fold_fmin_selV_NaN].
Qed.

(* -------- facts about pick *)
Lemma pick_incl mask : forall xs x, In x (pick mask xs) -> In x xs.
Proof.
  induction mask as [|b m IH]; intros [|x0 xs] x H; simpl in H; try contradiction.
  destruct b; simpl in *; [destruct H as [H|H]; [left; exact H | right; apply IH; exact H] | right; apply IH; exact H].
Qed.

Lemma pick_Forall (P : R -> Prop) mask xs : Forall P xs -> Forall P (pick mask xs).
Proof. intros H. apply Forall_forall. intros x Hx. apply pick_incl in Hx. revert x Hx. apply Forall_forall. exact H. Qed.

Lemma In_pick mask : forall xs x,
  In x (pick mask xs) <-> exists i, nth_error mask i = Some true /\ nth_error xs i = Some x.
Proof.
  induction mask as [|b m IH]; intros [|x0 xs] x; simpl.
  - split; [contradiction | intros [[|i] [H _]]; discriminate].
  - split; [contradiction | intros [[|i] [H _]]; discriminate].
  - split; [contradiction | intros [[|i] [_ H]]; discriminate].
  - destruct b; simpl.
    + split.
      * intros [<-|H]; [exists 0%nat; split; reflexivity|].
        apply IH in H. destruct H as [i [H1 H2]]. exists (S i). split; assumption.
      * intros [[|i] [H1 H2]]; simpl in *; [left; congruence | right; apply IH; exists i; split; assumption].
    + split.
      * intros H. apply IH in H. destruct H as [i [H1 H2]]. exists (S i). split; assumption.
      * intros [[|i] [H1 H2]]; simpl in *; [discriminate | apply IH; exists i; split; assumption].
Qed.

Lemma pick_all_false mask xs : Forall (fun b => b = false) mask -> pick mask xs = [].
Proof.
  intros H. revert xs. induction H as [|b m Hb _ IH]; intros [|x xs]; try reflexivity.
  simpl. rewrite Hb. apply IH.
Qed.

(* ------------------------------------------------------------------------------------------------ *)
(* The five defuzzifiers on vectors of reals                                                         *)

(* ---- Centroid *)
Theorem centroid_V xs ys : Forall (fun y => 0 <= y) ys ->
  centroid (N:=NumER) (V xs) (V ys) =
  toER (if Req_EM_T (Rsum ys) 0 then None else Some (dot xs ys / Rsum ys)).
Proof.
  intros Hge. unfold centroid. rewrite map2_mul_V, !np_sum_V.
  change (div (Fin ?a) (Fin ?b)) with (ERdiv (Fin a) (Fin b)).
  destruct (Req_EM_T (Rsum ys) 0) as [E|E].
  - rewrite E. fold (dot xs ys). rewrite (dot_zero_of_zeros xs ys) by (apply Rsum_nonneg_zero; assumption).
    apply ERdiv_0_0.
  - rewrite ERdiv_fin by exact E. reflexivity.
Qed.

(* ---- the maxima: mask of the sample points where the membership attains its positive maximum *)
Definition max_mask (mus : list R) : list bool :=
  match mus with
  | [] => []
  | m0 :: mt => map (fun y => Rltb 0 y && Reqb y (Rmaxl m0 mt)) mus
  end.
Definition argmax_points (xs mus : list R) : list R := pick (max_mask mus) xs.

Lemma maxima_mask_V m0 mt : maxima_mask (N:=NumER) (V (m0 :: mt)) = Ok (max_mask (m0 :: mt)).
Proof.
  unfold maxima_mask. rewrite amax_V. cbn [bind]. f_equal. unfold V, max_mask. rewrite map_map. reflexivity.
Qed.

Lemma max_mask_length mus : length (max_mask mus) = length mus.
Proof. destruct mus as [|m0 mt]; [reflexivity|]. unfold max_mask. apply map_length. Qed.

Theorem lom_V x xt m0 mt :
  lom (N:=NumER) (V (x :: xt)) (V (m0 :: mt)) = Ok (toER (opt_max (argmax_points (x :: xt) (m0 :: mt)))).
Proof.
  unfold lom. rewrite maxima_mask_V. cbn [bind]. unfold argmax_points.
  destruct (max_mask (m0 :: mt)) as [|b m] eqn:E; [discriminate E|]. apply nanmax_select.
Qed.
Theorem som_V x xt m0 mt :
  som (N:=NumER) (V (x :: xt)) (V (m0 :: mt)) = Ok (toER (opt_min (argmax_points (x :: xt) (m0 :: mt)))).
Proof.
  unfold som. rewrite maxima_mask_V. cbn [bind]. unfold argmax_points.
  destruct (max_mask (m0 :: mt)) as [|b m] eqn:E; [discriminate E|]. apply nanmin_select.
Qed.
Theorem mom_V xs m0 mt :
  mom (N:=NumER) (V xs) (V (m0 :: mt)) = Ok (toER (opt_mean (argmax_points xs (m0 :: mt)))).
Proof. unfold mom. rewrite maxima_mask_V. cbn [bind]. f_equal. apply nanmean_select. Qed.

(* what the arg-set is: the sample points x_i with mu_i = max mu and max mu > 0 *)
Lemma nth_error_map_Some {A B} (f : A -> B) l i b :
  nth_error (map f l) i = Some b <-> exists a, nth_error l i = Some a /\ f a = b.
Proof.
  revert i. induction l as [|a0 l IH]; intros [|i]; simpl; try (split; [discriminate | intros [a [H _]]; discriminate]).
  - split; [intros H; exists a0; split; congruence | intros [a [H1 H2]]; congruence].
  - apply IH.
Qed.

Theorem argmax_points_spec xs m0 mt x :
  In x (argmax_points xs (m0 :: mt)) <->
  exists i, nth_error xs i = Some x /\ nth_error (m0 :: mt) i = Some (Rmaxl m0 mt) /\ 0 < Rmaxl m0 mt.
Proof.
  unfold argmax_points. rewrite In_pick. unfold max_mask. split.
  - intros [i [H1 H2]]. exists i. apply nth_error_map_Some in H1. destruct H1 as [y [Hy Hb]].
    apply andb_prop in Hb. destruct Hb as [Hb1 Hb2].
    destruct (Rltb_spec 0 y); [|discriminate]. destruct (Reqb_spec y (Rmaxl m0 mt)); [|discriminate].
    subst y. repeat split; assumption.
  - intros [i [H1 [H2 H3]]]. exists i. split; [|exact H1]. apply nth_error_map_Some.
    exists (Rmaxl m0 mt). split; [exact H2|].
    destruct (Rltb_spec 0 (Rmaxl m0 mt)); [|contradiction].
    destruct (Reqb_spec (Rmaxl m0 mt) (Rmaxl m0 mt)); [reflexivity | contradiction].
Qed.

(* max mu = 0 (all samples zero, memberships >= 0): the arg-set is empty *)
Lemma argmax_points_empty xs mus : Forall (fun y => y = 0) mus -> argmax_points xs mus = [].
Proof.
  intros H. unfold argmax_points. apply pick_all_false. destruct mus as [|m0 mt]; [constructor|].
  unfold max_mask. apply Forall_forall. intros b Hb. apply in_map_iff in Hb. destruct Hb as [y [<- Hy]].
  rewrite Forall_forall in H. rewrite (H y Hy). destruct (Rltb_spec 0 0); [lra | reflexivity].
Qed.

Lemma argmax_points_nonempty xs mus : length xs = length mus ->
  Forall (fun y => 0 <= y) mus -> ~ Forall (fun y => y = 0) mus -> argmax_points xs mus <> [].
Proof.
  intros Hlen Hge Hnz. destruct mus as [|m0 mt]; [exfalso; apply Hnz; constructor|].
  assert (Hpos : 0 < Rmaxl m0 mt).
  { destruct (Rlt_dec 0 (Rmaxl m0 mt)) as [H|H]; [exact H|]. exfalso. apply Hnz.
    apply Forall_forall. intros y Hy. pose proof (Rmaxl_ge m0 mt y Hy).
    rewrite Forall_forall in Hge. specialize (Hge y Hy). lra. }
  destruct (In_nth_error _ _ (Rmaxl_in m0 mt)) as [i Hi].
  assert (Hi' : (i < length xs)%nat).
  { rewrite Hlen. apply nth_error_Some. rewrite Hi. discriminate. }
  destruct (nth_error xs i) as [x|] eqn:Hx; [|apply nth_error_None in Hx; lia].
  intros E. assert (Hin : In x (argmax_points xs (m0 :: mt))).
  { apply argmax_points_spec. exists i. repeat split; assumption. }
  rewrite E in Hin. exact Hin.
Qed.

(* ---- Bisector *)
Definition bisector_dist (mus : list R) : list R :=
  map (fun c => Rabs (c / Rsum mus - 1 / 2)) (psums 0 mus).
Definition min_mask (ds : list R) : list bool :=
  match ds with [] => [] | d0 :: dt => map (fun d => Reqb d (Rminl d0 dt)) ds end.
Definition bisector_points (xs mus : list R) : list R := pick (min_mask (bisector_dist mus)) xs.

Lemma bisector_dist_length mus : length (bisector_dist mus) = length mus.
Proof. unfold bisector_dist. rewrite map_length. apply psums_length. Qed.

Lemma bisector_area_V mus : mus <> [] -> Forall (fun y => 0 <= y) mus ->
  bisector_area (N:=NumER) (V mus) =
  Ok (if Req_EM_T (Rsum mus) 0 then map (fun _ => NaN) (psums 0 mus) else V (bisector_dist mus)).
Proof.
  intros Hne Hge. unfold bisector_area. rewrite nancumsum_V, last_psums by exact Hne. cbn [bind].
  rewrite Rplus_0_l, half_ER. f_equal. unfold V, bisector_dist. rewrite !map_map.
  destruct (Req_EM_T (Rsum mus) 0) as [E|E].
  - assert (Hz : Forall (fun c => c = 0) (psums 0 mus)) by (apply psums_all_zero, Rsum_nonneg_zero; assumption).
    apply map_ext_in. intros c Hc. rewrite Forall_forall in Hz. rewrite (Hz c Hc), E.
    change (div (Fin 0) (Fin 0)) with (ERdiv (Fin 0) (Fin 0)). rewrite ERdiv_0_0. reflexivity.
  - apply map_ext. intros c. change (div (Fin c) (Fin (Rsum mus))) with (ERdiv (Fin c) (Fin (Rsum mus))).
    rewrite ERdiv_fin by exact E. reflexivity.
Qed.

Theorem bisector_V xs mus : mus <> [] -> Forall (fun y => 0 <= y) mus ->
  bisector (N:=NumER) (V xs) (V mus) =
  Ok (toER (if Req_EM_T (Rsum mus) 0 then None else opt_mean (bisector_points xs mus))).
Proof.
  intros Hne Hge. unfold bisector. rewrite bisector_area_V by assumption. cbn [bind].
  destruct (Req_EM_T (Rsum mus) 0) as [E|E].
  - destruct mus as [|m0 mt]; [contradiction|]. cbn [psums map amin reduce1 bind].
    rewrite fold_nmin_NaN. cbn [bind]. f_equal.
    rewrite nanmean_select. rewrite pick_all_false; [reflexivity|].
    constructor; [reflexivity|]. apply Forall_forall. intros b Hb.
    apply in_map_iff in Hb. destruct Hb as [a [<- _]]. destruct a; reflexivity.
  - unfold bisector_points.
    destruct (bisector_dist mus) as [|d0 dt] eqn:Ed.
    { exfalso. apply (f_equal (@length R)) in Ed. rewrite bisector_dist_length in Ed. destruct mus; [contradiction | discriminate]. }
    rewrite amin_V. cbn [bind]. f_equal. rewrite <- nanmean_select. f_equal. f_equal.
    unfold min_mask, V. rewrite map_map. reflexivity.
Qed.

(* what the bisector's arg-set is: the sample points x_i whose normalised cumulative membership is closest to 1/2 *)
Theorem bisector_points_spec xs mus d0 dt x : bisector_dist mus = d0 :: dt ->
  (In x (bisector_points xs mus) <->
   exists i, nth_error xs i = Some x /\ nth_error (bisector_dist mus) i = Some (Rminl d0 dt)).
Proof.
  intros Ed. unfold bisector_points. rewrite In_pick, Ed. unfold min_mask. split.
  - intros [i [H1 H2]]. exists i. split; [exact H2|]. apply nth_error_map_Some in H1.
    destruct H1 as [d [Hd Hb]]. destruct (Reqb_spec d (Rminl d0 dt)); [|discriminate]. subst d. exact Hd.
  - intros [i [H1 H2]]. exists i. split; [|exact H1]. apply nth_error_map_Some.
    exists (Rminl d0 dt). split; [exact H2|]. destruct (Reqb_spec (Rminl d0 dt) (Rminl d0 dt)); [reflexivity | contradiction].
Qed.

(* the i-th distance is | C_i / C_r - 1/2 | with C_i = mu_1 + ... + mu_i *)
Lemma bisector_dist_nth mus i : (i < length mus)%nat ->
  nth i (bisector_dist mus) 0 = Rabs (Rsum (firstn (S i) mus) / Rsum mus - 1 / 2).
Proof.
  intros Hi. unfold bisector_dist.
  rewrite (nth_indep _ 0 (Rabs (0 / Rsum mus - 1 / 2))) by (rewrite map_length, psums_length; exact Hi).
  exact (eq_trans (map_nth (fun c => Rabs (c / Rsum mus - 1 / 2)) (psums 0 mus) 0 i)
           (f_equal (fun c => Rabs (c / Rsum mus - 1 / 2))
              (eq_trans (psums_nth mus 0 i 0 Hi) (Rplus_0_l _)))).
Qed.

Lemma bisector_points_nonempty xs mus : length xs = length mus -> mus <> [] -> bisector_points xs mus <> [].
Proof.
  intros Hlen Hne. destruct (bisector_dist mus) as [|d0 dt] eqn:Ed.
  { exfalso. apply (f_equal (@length R)) in Ed. rewrite bisector_dist_length in Ed. destruct mus; [contradiction | discriminate]. }
  destruct (In_nth_error _ _ (Rminl_in d0 dt)) as [i Hi].
  assert (Hi' : (i < length xs)%nat).
  { rewrite Hlen, <- bisector_dist_length, Ed. apply nth_error_Some. rewrite Hi. discriminate. }
  destruct (nth_error xs i) as [x|] eqn:Hx; [|apply nth_error_None in Hx; lia].
  intros E. assert (Hin : In x (bisector_points xs mus)).
  { apply (bisector_points_spec xs mus d0 dt x Ed). exists i. split; [exact Hx | rewrite Ed; exact Hi]. }
  rewrite E in Hin. exact Hin.
Qed.

(* ---- one row, any kind *)
Lemma defuzzify_samples_V k xs mus : length xs = length mus ->
  defuzzify_samples (N:=NumER) k (V xs) (V mus) =
  match k with
  | Bisector => bisector (V xs) (V mus)
  | Centroid => Ok (centroid (V xs) (V mus))
  | LargestOfMaximum => lom (V xs) (V mus)
  | MeanOfMaximum => mom (V xs) (V mus)
  | SmallestOfMaximum => som (V xs) (V mus)
  end.
Proof. intros Hlen. unfold defuzzify_samples. rewrite !V_length, Hlen, Nat.eqb_refl. reflexivity. Qed.

(* the value each defuzzifier returns on real samples, as a function of the reals only *)
Definition defuzz_value (k : integral_kind) (xs mus : list R) : option R :=
  match k with
  | Bisector => if Req_EM_T (Rsum mus) 0 then None else opt_mean (bisector_points xs mus)
  | Centroid => if Req_EM_T (Rsum mus) 0 then None else Some (dot xs mus / Rsum mus)
  | LargestOfMaximum => opt_max (argmax_points xs mus)
  | MeanOfMaximum => opt_mean (argmax_points xs mus)
  | SmallestOfMaximum => opt_min (argmax_points xs mus)
  end.

Theorem defuzzify_samples_value k xs mus : length xs = length mus -> mus <> [] ->
  Forall (fun y => 0 <= y) mus ->
  defuzzify_samples (N:=NumER) k (V xs) (V mus) = Ok (toER (defuzz_value k xs mus)).
Proof.
  intros Hlen Hne Hge. rewrite defuzzify_samples_V by exact Hlen.
  destruct mus as [|m0 mt]; [contradiction|]. destruct xs as [|x xt]; [discriminate|].
  destruct k; cbn [defuzz_value].
  - apply bisector_V; [discriminate | exact Hge].
  - rewrite centroid_V by exact Hge. reflexivity.
  - apply lom_V.
  - apply mom_V.
  - apply som_V.
Qed.

Lemma map_nonneg (mu : R -> R) xs : (forall x, 0 <= mu x) -> Forall (fun y => 0 <= y) (map mu xs).
Proof. intros H. apply Forall_forall. intros y Hy. apply in_map_iff in Hy. destruct Hy as [x [<- _]]. apply H. Qed.

Theorem defuzzify_value k r mu lo hi : (0 < r)%nat -> (forall x, 0 <= mu x) ->
  defuzzify (N:=NumER) k r (liftf mu) (Fin lo) (Fin hi) =
  Ok (toER (defuzz_value k (Rmidpoints lo hi r) (map mu (Rmidpoints lo hi r)))).
Proof.
  intros Hr Hmu. unfold defuzzify. rewrite midpoints_ER by exact Hr. cbn [bind]. rewrite map_liftf_V.
  apply defuzzify_samples_value.
  - rewrite map_length. reflexivity.
  - intros E. apply (f_equal (@length R)) in E. rewrite map_length, Rmidpoints_length in E. simpl in E. lia.
  - apply map_nonneg. exact Hmu.
Qed.

Theorem defuzzify_zero_resolution {T} {N : Num T} k (mu : T -> T) lo hi : defuzzify k 0 mu lo hi = Err EInternal.
Proof. reflexivity. Qed.

(* ---- range *)
Lemma Rmaxl_bounds lo hi a l : lo <= a <= hi -> Forall (fun x => lo <= x <= hi) l -> lo <= Rmaxl a l <= hi.
Proof.
  intros Ha Hl. assert (H : Forall (fun x => lo <= x <= hi) (a :: l)) by (constructor; assumption).
  rewrite Forall_forall in H. apply H. apply Rmaxl_in.
Qed.
Lemma Rminl_bounds lo hi a l : lo <= a <= hi -> Forall (fun x => lo <= x <= hi) l -> lo <= Rminl a l <= hi.
Proof.
  intros Ha Hl. assert (H : Forall (fun x => lo <= x <= hi) (a :: l)) by (constructor; assumption).
  rewrite Forall_forall in H. apply H. apply Rminl_in.
Qed.
Lemma Rsum_bounds lo hi l : Forall (fun x => lo <= x <= hi) l ->
  lo * INR (length l) <= Rsum l <= hi * INR (length l).
Proof.
  induction 1 as [|x l Hx _ IH]; [simpl; lra|]. change (length (x :: l)) with (S (length l)).
  rewrite S_INR. simpl. lra.
Qed.
Lemma Rmean_bounds lo hi l : l <> [] -> Forall (fun x => lo <= x <= hi) l -> lo <= Rmean l <= hi.
Proof.
  intros Hne Hl. unfold Rmean. pose proof (Rsum_bounds lo hi l Hl) as [H1 H2].
  assert (Hn : 0 < INR (length l)) by (apply lt_0_INR; destruct l; [contradiction | simpl; lia]).
  split; apply (Rmult_le_reg_r (INR (length l))); try exact Hn;
    unfold Rdiv; rewrite Rmult_assoc, Rinv_l by lra; lra.
Qed.

Lemma opt_max_bounds lo hi p z : Forall (fun x => lo <= x <= hi) p -> opt_max p = Some z -> lo <= z <= hi.
Proof. destruct p as [|a t]; [discriminate|]. intros H E. inversion E; subst. inversion H; subst. apply Rmaxl_bounds; assumption. Qed.
Lemma opt_min_bounds lo hi p z : Forall (fun x => lo <= x <= hi) p -> opt_min p = Some z -> lo <= z <= hi.
Proof. destruct p as [|a t]; [discriminate|]. intros H E. inversion E; subst. inversion H; subst. apply Rminl_bounds; assumption. Qed.
Lemma opt_mean_bounds lo hi p z : Forall (fun x => lo <= x <= hi) p -> opt_mean p = Some z -> lo <= z <= hi.
Proof. destruct p as [|a t]; [discriminate|]. intros H E. inversion E; subst. apply Rmean_bounds; [discriminate | exact H]. Qed.

Theorem defuzz_value_in_range k lo hi xs mus z : length xs = length mus ->
  Forall (fun x => lo <= x <= hi) xs -> Forall (fun y => 0 <= y) mus ->
  defuzz_value k xs mus = Some z -> lo <= z <= hi.
Proof.
  intros Hlen Hx Hy. destruct k; cbn [defuzz_value].
  - destruct (Req_EM_T (Rsum mus) 0); [discriminate|]. apply opt_mean_bounds. apply pick_Forall. exact Hx.
  - destruct (Req_EM_T (Rsum mus) 0) as [|Hs]; [discriminate|]. intros E. inversion E; subst.
    rewrite <- centroid_R. apply centroid_in_range_R; assumption.
  - apply opt_max_bounds. apply pick_Forall. exact Hx.
  - apply opt_mean_bounds. apply pick_Forall. exact Hx.
  - apply opt_min_bounds. apply pick_Forall. exact Hx.
Qed.

(* ---- order of the three maxima defuzzifiers *)
Theorem som_le_mom_le_lom_value xs mus s m l :
  defuzz_value SmallestOfMaximum xs mus = Some s -> defuzz_value MeanOfMaximum xs mus = Some m ->
  defuzz_value LargestOfMaximum xs mus = Some l -> s <= m <= l.
Proof.
  cbn [defuzz_value]. destruct (argmax_points xs mus) as [|a t]; [discriminate|].
  intros Es Em El. inversion Es; inversion Em; inversion El; subst.
  apply Rmean_bounds; [discriminate|]. apply Forall_forall. intros y Hy.
  split; [apply Rminl_le | apply Rmaxl_ge]; exact Hy.
Qed.

(* ---- NaN exactly when every sample is zero (memberships >= 0) *)
Lemma all_zero_dec mus : Forall (fun y => 0 <= y) mus -> Rsum mus = 0 <-> Forall (fun y => y = 0) mus.
Proof. intros H. split; [apply Rsum_nonneg_zero; exact H | apply Rsum_zeros]. Qed.

Lemma opt_mean_None p : opt_mean p = None <-> p = [].
Proof. destruct p; split; intros H; try reflexivity; discriminate. Qed.
Lemma opt_max_None p : opt_max p = None <-> p = [].
Proof. destruct p; split; intros H; try reflexivity; discriminate. Qed.
Lemma opt_min_None p : opt_min p = None <-> p = [].
Proof. destruct p; split; intros H; try reflexivity; discriminate. Qed.

Theorem defuzz_value_nan_iff k xs mus : length xs = length mus -> mus <> [] ->
  Forall (fun y => 0 <= y) mus ->
  (defuzz_value k xs mus = None <-> Forall (fun y => y = 0) mus).
Proof.
  intros Hlen Hne Hge.
  assert (Hmax : argmax_points xs mus = [] <-> Forall (fun y => y = 0) mus).
  { split; [|apply argmax_points_empty]. intros E.
    destruct (Req_EM_T (Rsum mus) 0) as [H0|H0]; [apply all_zero_dec; assumption|].
    exfalso. apply (argmax_points_nonempty xs mus Hlen Hge); [|exact E].
    intros Hz. apply H0. apply Rsum_zeros. exact Hz. }
  destruct k; cbn [defuzz_value].
  - destruct (Req_EM_T (Rsum mus) 0) as [H0|H0].
    + split; [intros _; apply all_zero_dec; assumption | reflexivity].
    + split.
      * intros E. apply opt_mean_None in E. exfalso. exact (bisector_points_nonempty xs mus Hlen Hne E).
      * intros Hz. exfalso. apply H0. apply Rsum_zeros. exact Hz.
  - destruct (Req_EM_T (Rsum mus) 0) as [H0|H0].
    + split; [intros _; apply all_zero_dec; assumption | reflexivity].
    + split; [discriminate | intros Hz; exfalso; apply H0; apply Rsum_zeros; exact Hz].
  - rewrite opt_max_None. exact Hmax.
  - rewrite opt_mean_None. exact Hmax.
  - rewrite opt_min_None. exact Hmax.
Qed.

(* ---- translation of the centroid *)
Theorem centroid_value_translate c xs mus : length xs = length mus ->
  defuzz_value Centroid (map (fun x => x + c) xs) mus = lift1 (fun z => z + c) (defuzz_value Centroid xs mus).
Proof.
  intros Hlen. cbn [defuzz_value]. destruct (Req_EM_T (Rsum mus) 0) as [H0|H0]; [reflexivity|].
  cbn [lift1]. f_equal. rewrite dot_translate by exact Hlen. field. exact H0.
Qed.

Theorem centroid_translate lo hi r mu c : (0 < r)%nat -> (forall x, 0 <= mu x) ->
  defuzzify (N:=NumER) Centroid r (liftf (fun x => mu (x - c))) (Fin (lo + c)) (Fin (hi + c)) =
  match defuzzify (N:=NumER) Centroid r (liftf mu) (Fin lo) (Fin hi) with
  | Ok z => Ok (add z (Fin c))
  | Err e => Err e
  end.
Proof.
  intros Hr Hmu. rewrite !defuzzify_value by (try exact Hr; intros; apply Hmu). f_equal.
  rewrite Rmidpoints_translate, map_map.
  replace (map (fun x => mu (x + c - c)) (Rmidpoints lo hi r)) with (map mu (Rmidpoints lo hi r))
    by (apply map_ext; intros x; f_equal; lra).
  rewrite centroid_value_translate by (rewrite map_length; reflexivity).
  destruct (defuzz_value Centroid (Rmidpoints lo hi r) (map mu (Rmidpoints lo hi r))); reflexivity.
Qed.

(* ---- batch = rows (by construction of the model; that the implementation's batch results equal its per-row results
        is what the correspondence checks) *)
Theorem batch_rows {T} {N : Num T} k (xs : list T) rows i : (i < length rows)%nat ->
  nth i (defuzzify_batch k xs rows) (Err EValue) = defuzzify_samples k xs (nth i rows []).
Proof.
  intros Hi. unfold defuzzify_batch.
  rewrite (nth_indep _ (Err EValue) (defuzzify_samples k xs [])) by (rewrite map_length; exact Hi).
  apply map_nth.
Qed.

(* ------------------------------------------------------------------------------------------------ *)
(* Top level: IntegralDefuzzifier.defuzzify on a real membership function                            *)

Lemma Forall_map_eq0 (mu : R -> R) xs : Forall (fun y => y = 0) (map mu xs) <-> Forall (fun x => mu x = 0) xs.
Proof. rewrite Forall_map. reflexivity. Qed.

Theorem defuzzify_in_range k r mu lo hi z : (0 < r)%nat -> lo <= hi -> (forall x, 0 <= mu x) ->
  defuzzify (N:=NumER) k r (liftf mu) (Fin lo) (Fin hi) = Ok (Fin z) -> lo <= z <= hi.
Proof.
  intros Hr Hle Hmu. rewrite defuzzify_value by assumption. intros E. inversion E as [E'].
  apply toER_Fin in E'.
  apply (defuzz_value_in_range k lo hi _ _ z) in E'; [exact E' | | | ].
  - rewrite map_length. reflexivity.
  - apply Rmidpoints_in_range. exact Hle.
  - apply map_nonneg. exact Hmu.
Qed.

Theorem defuzzify_nan_iff k r mu lo hi : (0 < r)%nat -> (forall x, 0 <= mu x) ->
  (defuzzify (N:=NumER) k r (liftf mu) (Fin lo) (Fin hi) = Ok NaN <->
   Forall (fun x => mu x = 0) (Rmidpoints lo hi r)).
Proof.
  intros Hr Hmu. rewrite defuzzify_value by assumption. rewrite <- Forall_map_eq0.
  rewrite <- (defuzz_value_nan_iff k (Rmidpoints lo hi r) (map mu (Rmidpoints lo hi r))).
  - split; [intros E; inversion E as [E']; apply toER_NaN in E'; exact E' | intros E; rewrite E; reflexivity].
  - rewrite map_length. reflexivity.
  - intros E. apply (f_equal (@length R)) in E. rewrite map_length, Rmidpoints_length in E. simpl in E. lia.
  - apply map_nonneg. exact Hmu.
Qed.

(* the result is never an error or an infinity and, when some sample is positive, it is a number *)
Theorem defuzzify_defined k r mu lo hi : (0 < r)%nat -> (forall x, 0 <= mu x) ->
  Exists (fun x => 0 < mu x) (Rmidpoints lo hi r) ->
  exists z, defuzzify (N:=NumER) k r (liftf mu) (Fin lo) (Fin hi) = Ok (Fin z).
Proof.
  intros Hr Hmu Hex.
  destruct (defuzz_value k (Rmidpoints lo hi r) (map mu (Rmidpoints lo hi r))) as [z|] eqn:E.
  - exists z. rewrite defuzzify_value, E by assumption. reflexivity.
  - exfalso. assert (H : defuzzify (N:=NumER) k r (liftf mu) (Fin lo) (Fin hi) = Ok NaN)
      by (rewrite defuzzify_value, E by assumption; reflexivity).
    apply (defuzzify_nan_iff k r mu lo hi Hr Hmu) in H.
    apply Exists_exists in Hex. destruct Hex as [x [Hx Hp]]. rewrite Forall_forall in H.
    specialize (H x Hx). lra.
Qed.

Theorem defuzzify_som_le_mom_le_lom r mu lo hi s m l : (0 < r)%nat -> (forall x, 0 <= mu x) ->
  defuzzify (N:=NumER) SmallestOfMaximum r (liftf mu) (Fin lo) (Fin hi) = Ok (Fin s) ->
  defuzzify (N:=NumER) MeanOfMaximum r (liftf mu) (Fin lo) (Fin hi) = Ok (Fin m) ->
  defuzzify (N:=NumER) LargestOfMaximum r (liftf mu) (Fin lo) (Fin hi) = Ok (Fin l) ->
  s <= m <= l.
Proof.
  intros Hr Hmu. rewrite !defuzzify_value by assumption. intros Es Em El.
  inversion Es as [Es']; inversion Em as [Em']; inversion El as [El'].
  apply toER_Fin in Es', Em', El'.
  exact (som_le_mom_le_lom_value _ _ s m l Es' Em' El').
Qed.

(* ------------------------------------------------------------------------------------------------ *)
(* Tactic for the concrete examples: decide the comparisons of explicit reals                        *)
Ltac Rdecide :=
  repeat (match goal with
  | |- context [Rltb ?a ?b] => destruct (Rltb_spec a b); try (exfalso; lra)
  | |- context [Rleb ?a ?b] => destruct (Rleb_spec a b); try (exfalso; lra)
  | |- context [Reqb ?a ?b] => destruct (Reqb_spec a b); try (exfalso; lra)
  | |- context [Req_EM_T ?a ?b] => destruct (Req_EM_T a b); try (exfalso; lra)
  | |- context [Rle_dec ?a ?b] => destruct (Rle_dec a b); try (exfalso; lra)
  end; cbn [andb orb negb pick map Rmaxl Rminl fold_left]).

(* ------------------------------------------------------------------------------------------------ *)
(* A concrete fuzzy set (non-vacuity of the theorems): samples 0, 1, 1, 1/2 at the points 1/2, 3/2, 5/2, 7/2  *)

Definition ex_xs : list R := [1/2; 3/2; 5/2; 7/2].
Definition ex_mus : list R := [0; 1; 1; 1/2].

Lemma ex_max : Rmaxl 0 [1; 1; 1/2] = 1.
Proof. unfold Rmaxl. simpl. rewrite (Rmax_right 0 1), (Rmax_left 1 1), (Rmax_left 1 (1/2)) by lra. reflexivity. Qed.

Lemma ex_argmax : argmax_points ex_xs ex_mus = [3/2; 5/2].
Proof. unfold argmax_points, max_mask, ex_xs, ex_mus. rewrite ex_max. cbn [map]. Rdecide. reflexivity. Qed.

Lemma ex_lom : defuzz_value LargestOfMaximum ex_xs ex_mus = Some (5/2).
Proof. cbn [defuzz_value]. rewrite ex_argmax. unfold opt_max, Rmaxl. simpl. rewrite Rmax_right by lra. reflexivity. Qed.
Lemma ex_som : defuzz_value SmallestOfMaximum ex_xs ex_mus = Some (3/2).
Proof. cbn [defuzz_value]. rewrite ex_argmax. unfold opt_min, Rminl. simpl. rewrite Rmin_left by lra. reflexivity. Qed.
Lemma ex_mom : defuzz_value MeanOfMaximum ex_xs ex_mus = Some 2.
Proof. cbn [defuzz_value]. rewrite ex_argmax. unfold opt_mean, Rmean. simpl. f_equal. lra. Qed.
Lemma ex_cen : defuzz_value Centroid ex_xs ex_mus = Some (23/10).
Proof. unfold defuzz_value, dot, ex_xs, ex_mus. simpl. Rdecide. f_equal. lra. Qed.

Lemma Rabs_val a v : (a = v \/ a = - v) -> 0 <= v -> Rabs a = v.
Proof. intros [H|H] Hv; subst; [apply Rabs_pos_eq; exact Hv | rewrite Rabs_Ropp; apply Rabs_pos_eq; exact Hv]. Qed.

Lemma ex_dist : bisector_dist ex_mus = [1/2; 1/10; 3/10; 1/2].
Proof.
  unfold bisector_dist, ex_mus. simpl.
  repeat (match goal with |- _ :: _ = _ :: _ => f_equal end); try reflexivity; apply Rabs_val; lra.
Qed.
Lemma ex_bis : defuzz_value Bisector ex_xs ex_mus = Some (3/2).
Proof.
  cbn [defuzz_value]. unfold bisector_points. rewrite ex_dist. unfold min_mask, Rminl. simpl fold_left.
  rewrite (Rmin_right (1/2) (1/10)), (Rmin_left (1/10) (3/10)), (Rmin_left (1/10) (1/2)) by lra.
  unfold ex_xs, ex_mus. simpl Rsum. cbn [map]. Rdecide. unfold opt_mean, Rmean. simpl. f_equal. lra.
Qed.

(* the same set as a membership function on [0, 4] at resolution 4 *)
Definition ex_mu (x : R) : R := if Rlt_dec x 1 then 0 else if Rlt_dec x 3 then 1 else 1 / 2.

Lemma ex_mu_nonneg x : 0 <= ex_mu x.
Proof. unfold ex_mu. destruct (Rlt_dec x 1); [lra|]. destruct (Rlt_dec x 3); lra. Qed.

Lemma ex_midpoints : Rmidpoints 0 4 4 = ex_xs.
Proof.
  unfold Rmidpoints, Rmidpoint, ex_xs. simpl.
  repeat (match goal with |- _ :: _ = _ :: _ => f_equal end); try reflexivity; lra.
Qed.

Lemma ex_samples : map ex_mu ex_xs = ex_mus.
Proof.
  unfold ex_xs, ex_mus, ex_mu. simpl.
  repeat (match goal with |- context [Rlt_dec ?a ?b] => destruct (Rlt_dec a b); try (exfalso; lra) end).
  reflexivity.
Qed.

Lemma ex_defuzzify k :
  defuzzify (N:=NumER) k 4 (liftf ex_mu) (Fin 0) (Fin 4) = Ok (toER (defuzz_value k ex_xs ex_mus)).
Proof. rewrite defuzzify_value by (try lia; exact ex_mu_nonneg). rewrite ex_midpoints, ex_samples. reflexivity. Qed.

Lemma ex_positive : Exists (fun x => 0 < ex_mu x) (Rmidpoints 0 4 4).
Proof.
  rewrite ex_midpoints. unfold ex_xs. apply Exists_cons_tl. apply Exists_cons_hd.
  unfold ex_mu. destruct (Rlt_dec (3 / 2) 1); [lra|]. destruct (Rlt_dec (3 / 2) 3); lra.
Qed.
