(* C03, group A — the translated membership kernels of Binary, Concave, Constant, Ramp, Rectangle, Triangle,
   Trapezoid, SShape, ZShape, PiShape, read over R, equal  height * documented closed form  (Spec/SpecTermA.v);
   range, break-point values and monotonicity are then proved about the documented closed forms.
   Only the `<Term>_eq` lemmas (section 1) look inside the generated definitions. *)
From Coq Require Import Reals Lra Lia Bool Psatz.
From VF Require Import Num NumR GenTerm SpecTermA.
Local Open Scope R_scope.

(* ---- 0. tactics and generic lemmas *)

(* split one boolean comparison of the goal into its meaning over R *)
Ltac splitR1 :=
  match goal with
  | |- context [Rltb ?a ?b] => destruct (Rltb_spec a b)
  | |- context [Rleb ?a ?b] => destruct (Rleb_spec a b)
  | |- context [Reqb ?a ?b] => destruct (Reqb_spec a b)
  end; cbn [negb andb orb Bool.eqb].
(* split them all, dropping contradictory combinations as they arise *)
Ltac casesR := repeat (splitR1; try (exfalso; lra)).
(* read a generated kernel over R: unfold the Num interface, the lets and the R instance *)
Ltac unvalid :=
  unfold Binary_valid, Concave_valid, Constant_valid, Ramp_valid, Rectangle_valid, SShape_valid, ZShape_valid,
    PiShape_valid, Triangle_valid, Trapezoid_valid, height_valid in *.
Ltac closeR := try reflexivity; try lra; try (field; lra); try (exfalso; lra).
Ltac eqgenT := unR; cbv zeta; casesR; closeR.

Lemma scale_range (h s : R) : 0 <= s <= 1 -> 0 < h -> 0 <= h * s <= h.
Proof. intros [H0 H1] Hh; split; nra. Qed.
Lemma scale_mono (h : R) (f : R -> R) :
  0 < h -> (forall x y, x <= y -> f x <= f y) -> forall x y, x <= y -> h * f x <= h * f y.
Proof. intros Hh Hf x y Hxy. apply Rmult_le_compat_l; [lra | apply Hf; exact Hxy]. Qed.
Lemma scale_anti (h : R) (f : R -> R) :
  0 < h -> (forall x y, x <= y -> f y <= f x) -> forall x y, x <= y -> h * f y <= h * f x.
Proof. intros Hh Hf x y Hxy. apply Rmult_le_compat_l; [lra | apply Hf; exact Hxy]. Qed.

(* a <= n/d <= b from the cross-multiplied bounds *)
Lemma div_bounds (a b n d : R) : 0 < d -> a * d <= n <= b * d -> a <= n / d <= b.
Proof.
  intros Hd [H1 H2]. split.
  - apply Rmult_le_reg_r with d; [lra |]. unfold Rdiv. rewrite Rmult_assoc, Rinv_l by lra. lra.
  - apply Rmult_le_reg_r with d; [lra |]. unfold Rdiv. rewrite Rmult_assoc, Rinv_l by lra. lra.
Qed.
Lemma div_ub (b n d : R) : 0 < d -> n <= b * d -> n / d <= b.
Proof.
  intros Hd H. apply Rmult_le_reg_r with d; [lra |]. unfold Rdiv. rewrite Rmult_assoc, Rinv_l by lra. lra.
Qed.
Lemma div_lb (a n d : R) : 0 < d -> a * d <= n -> a <= n / d.
Proof.
  intros Hd H. apply Rmult_le_reg_r with d; [lra |]. unfold Rdiv. rewrite Rmult_assoc, Rinv_l by lra. lra.
Qed.
Lemma div_le_compat (n m d : R) : 0 < d -> n <= m -> n / d <= m / d.
Proof. intros Hd Hnm. unfold Rdiv. apply Rmult_le_compat_r; [left; apply Rinv_0_lt_compat; lra | lra]. Qed.
(* a fixed positive numerator over a shrinking positive denominator grows *)
Lemma div_anti_den (n d1 d2 : R) : 0 <= n -> 0 < d2 -> d2 <= d1 -> n / d1 <= n / d2.
Proof.
  intros Hn Hd2 Hd. unfold Rdiv. apply Rmult_le_compat_l; [exact Hn |].
  apply Rinv_le_contravar; assumption.
Qed.

(* ---- 1. generated kernel = height * documented closed form *)

Lemma Binary_eq (s d h x : R) : Binary_valid s d h -> Binary_membership s d h x = h * Binary_shape s d x.
Proof. intros _. unfold Binary_membership, Binary_shape. eqgenT. Qed.

Lemma Concave_eq (i e h x : R) : Concave_valid i e h -> Concave_membership i e h x = h * Concave_shape i e x.
Proof. unvalid. intros [Hie _]. unfold Concave_membership, Concave_shape. eqgenT. Qed.

Lemma Constant_eq (k x : R) : Constant_valid k -> Constant_membership k x = Constant_shape k x.
Proof. intros _. reflexivity. Qed.

Lemma Ramp_eq (s e h x : R) : Ramp_valid s e h -> Ramp_membership s e h x = h * Ramp_shape s e x.
Proof. unvalid. intros [Hse _]. unfold Ramp_membership, Ramp_shape. eqgenT. Qed.

(* the code sorts (start, end) first: for every start, end the kernel is the documented form on the sorted pair *)
Lemma Rectangle_eq_sym (s e h x : R) :
  Rectangle_membership s e h x = h * Rectangle_shape (Rmin s e) (Rmax s e) x.
Proof.
  unfold Rectangle_membership, Rectangle_shape, Rmin, Rmax. destruct (Rle_dec s e); eqgenT.
Qed.
Lemma Rectangle_eq (s e h x : R) : Rectangle_valid s e h -> Rectangle_membership s e h x = h * Rectangle_shape s e x.
Proof.
  unvalid. intros [Hse _]. rewrite Rectangle_eq_sym.
  rewrite Rmin_left, Rmax_right by exact Hse. reflexivity.
Qed.

Lemma SShape_eq (s e h x : R) : SShape_valid s e h -> SShape_membership s e h x = h * SShape_shape s e x.
Proof. intros _. unfold SShape_membership, SShape_shape. eqgenT. Qed.

Lemma ZShape_eq (s e h x : R) : ZShape_valid s e h -> ZShape_membership s e h x = h * ZShape_shape s e x.
Proof. intros _. unfold ZShape_membership, ZShape_shape. eqgenT. Qed.

Lemma Triangle_eq (a b c h x : R) :
  Triangle_valid a b c h -> Triangle_membership a b c h x = h * Triangle_shape a b c x.
Proof. unvalid. intros (Hab & Hbc & Hac & _). unfold Triangle_membership, Triangle_shape. eqgenT. Qed.

Lemma Trapezoid_eq (a b c d h x : R) :
  Trapezoid_valid a b c d h -> Trapezoid_membership a b c d h x = h * Trapezoid_shape a b c d x.
Proof. unvalid. intros (Hab & Hbc & Hcd & _). unfold Trapezoid_membership, Trapezoid_shape. eqgenT. Qed.

Lemma PiShape_eq (a b c d h x : R) :
  PiShape_valid a b c d h -> PiShape_membership a b c d h x = h * PiShape_shape a b c d x.
Proof.
  unvalid. intros (Hab & Hbc & Hcd & _). unfold PiShape_membership, PiShape_shape. cbv zeta.
  rewrite SShape_eq, ZShape_eq by (unvalid; unR; lra). unR. lra.
Qed.

(* ---- 2. the documented closed forms: case analysis, range, break-points, monotonicity *)
Ltac shapeR := casesR; closeR.

(* -- Binary *)
Lemma Binary_shape_right (s d x : R) : s < d -> Binary_shape s d x = if Rleb s x then 1 else 0.
Proof. intros Hsd. unfold Binary_shape. shapeR. Qed.
Lemma Binary_shape_left (s d x : R) : d < s -> Binary_shape s d x = if Rleb x s then 1 else 0.
Proof. intros Hsd. unfold Binary_shape. shapeR. Qed.
Lemma Binary_shape_range (s d x : R) : 0 <= Binary_shape s d x <= 1.
Proof. unfold Binary_shape. shapeR. Qed.
Lemma Binary_shape_at_start (s d : R) : s <> d -> Binary_shape s d s = 1.
Proof. intros Hsd. unfold Binary_shape. shapeR. Qed.
Lemma Binary_shape_before (s d x : R) : s < d -> x < s -> Binary_shape s d x = 0.
Proof. intros Hsd Hx. unfold Binary_shape. shapeR. Qed.
Lemma Binary_shape_after (s d x : R) : d < s -> s < x -> Binary_shape s d x = 0.
Proof. intros Hsd Hx. unfold Binary_shape. shapeR. Qed.

(* -- Concave *)
Lemma Concave_shape_inc (i e x : R) : i < e ->
  Concave_shape i e x = if Rltb x e then (e - i) / ((e - i) + (e - x)) else 1.
Proof.
  intros Hie. unfold Concave_shape. shapeR.
Qed.
Lemma Concave_shape_dec (i e x : R) : e < i ->
  Concave_shape i e x = if Rltb e x then (i - e) / ((i - e) + (x - e)) else 1.
Proof.
  intros Hie. unfold Concave_shape. shapeR.
Qed.
Lemma Concave_shape_range (i e x : R) : i <> e -> 0 <= Concave_shape i e x <= 1.
Proof.
  intros Hie. destruct (Rtotal_order i e) as [Hlt | [Heq | Hgt]]; [| contradiction |].
  - rewrite Concave_shape_inc by exact Hlt. casesR; [| lra]. apply div_bounds; lra.
  - rewrite Concave_shape_dec by exact Hgt. casesR; [| lra]. apply div_bounds; lra.
Qed.
(* strictly positive: the concave edge never reaches 0 *)
Lemma Concave_shape_pos (i e x : R) : i <> e -> 0 < Concave_shape i e x.
Proof.
  intros Hie. destruct (Rtotal_order i e) as [Hlt | [Heq | Hgt]]; [| contradiction |].
  - rewrite Concave_shape_inc by exact Hlt. casesR; [| lra]. apply Rdiv_lt_0_compat; lra.
  - rewrite Concave_shape_dec by exact Hgt. casesR; [| lra]. apply Rdiv_lt_0_compat; lra.
Qed.
Lemma Concave_shape_at_end (i e : R) : i <> e -> Concave_shape i e e = 1.
Proof. intros Hie. unfold Concave_shape. shapeR. Qed.
Lemma Concave_shape_at_inflection (i e : R) : i <> e -> Concave_shape i e i = 1 / 2.
Proof. intros Hie. unfold Concave_shape. shapeR. Qed.
Lemma Concave_shape_mono_inc (i e : R) : i < e -> forall x y, x <= y -> Concave_shape i e x <= Concave_shape i e y.
Proof.
  intros Hie x y Hxy. rewrite !Concave_shape_inc by exact Hie. casesR.
  - apply div_anti_den; lra.
  - apply div_ub; lra.
  - lra.
Qed.
Lemma Concave_shape_mono_dec (i e : R) : e < i -> forall x y, x <= y -> Concave_shape i e y <= Concave_shape i e x.
Proof.
  intros Hie x y Hxy. rewrite !Concave_shape_dec by exact Hie. casesR.
  - apply div_anti_den; lra.
  - apply div_ub; lra.
  - lra.
Qed.

(* -- Ramp *)
Lemma Ramp_shape_inc (s e x : R) : s < e ->
  Ramp_shape s e x = if Rleb x s then 0 else if Rltb x e then (x - s) / (e - s) else 1.
Proof. intros Hse. unfold Ramp_shape. shapeR. Qed.
Lemma Ramp_shape_dec (s e x : R) : e < s ->
  Ramp_shape s e x = if Rleb x e then 1 else if Rltb x s then (s - x) / (s - e) else 0.
Proof. intros Hse. unfold Ramp_shape. shapeR. Qed.
Lemma Ramp_shape_range (s e x : R) : s <> e -> 0 <= Ramp_shape s e x <= 1.
Proof.
  intros Hse. destruct (Rtotal_order s e) as [Hlt | [Heq | Hgt]]; [| contradiction |].
  - rewrite Ramp_shape_inc by exact Hlt. casesR; try lra. apply div_bounds; lra.
  - rewrite Ramp_shape_dec by exact Hgt. casesR; try lra. apply div_bounds; lra.
Qed.
Lemma Ramp_shape_at_start (s e : R) : s <> e -> Ramp_shape s e s = 0.
Proof. intros Hse. unfold Ramp_shape. shapeR. Qed.
Lemma Ramp_shape_at_end (s e : R) : s <> e -> Ramp_shape s e e = 1.
Proof. intros Hse. unfold Ramp_shape. shapeR. Qed.
Lemma Ramp_shape_at_mid (s e : R) : s <> e -> Ramp_shape s e ((s + e) / 2) = 1 / 2.
Proof. intros Hse. unfold Ramp_shape. shapeR. Qed.
Lemma Ramp_shape_mono_inc (s e : R) : s < e -> forall x y, x <= y -> Ramp_shape s e x <= Ramp_shape s e y.
Proof.
  intros Hse x y Hxy. rewrite !Ramp_shape_inc by exact Hse. casesR; try lra.
  - apply div_lb; lra.
  - apply div_le_compat; lra.
  - apply div_ub; lra.
Qed.
Lemma Ramp_shape_mono_dec (s e : R) : e < s -> forall x y, x <= y -> Ramp_shape s e y <= Ramp_shape s e x.
Proof.
  intros Hse x y Hxy. rewrite !Ramp_shape_dec by exact Hse. casesR; try lra.
  - apply div_ub; lra.
  - apply div_le_compat; lra.
  - apply div_lb; lra.
Qed.

(* -- Rectangle *)
Lemma Rectangle_shape_range (s e x : R) : 0 <= Rectangle_shape s e x <= 1.
Proof. unfold Rectangle_shape. shapeR. Qed.
Lemma Rectangle_shape_inside (s e x : R) : s <= x <= e -> Rectangle_shape s e x = 1.
Proof. intros Hx. unfold Rectangle_shape. shapeR. Qed.
Lemma Rectangle_shape_outside (s e x : R) : x < s \/ e < x -> Rectangle_shape s e x = 0.
Proof. intros Hx. unfold Rectangle_shape. shapeR. Qed.

(* -- SShape *)
(* start < end: the S curve (guards simplified) *)
Lemma SShape_shape_fwd (s e x : R) : s < e ->
  SShape_shape s e x =
    if Rleb x s then 0
    else if Rleb x ((s + e) / 2) then 2 * (((x - s) / (e - s)) * ((x - s) / (e - s)))
    else if Rltb x e then 1 - 2 * (((x - e) / (e - s)) * ((x - e) / (e - s)))
    else 1.
Proof. intros Hse. unfold SShape_shape. shapeR. Qed.
(* end <= start: a unit step at start *)
Lemma SShape_shape_rev (s e x : R) : e <= s -> SShape_shape s e x = if Rleb x s then 0 else 1.
Proof. intros Hse. unfold SShape_shape. shapeR. Qed.

Lemma SShape_shape_range (s e x : R) : 0 <= SShape_shape s e x <= 1.
Proof.
  destruct (Rlt_le_dec s e) as [Hse | Hse].
  - rewrite SShape_shape_fwd by exact Hse. assert (Hd : 0 < e - s) by lra. casesR; try lra.
    + pose proof (div_bounds 0 (1 / 2) (x - s) (e - s) Hd ltac:(lra)) as Hu.
      set (u := (x - s) / (e - s)) in *. clearbody u. nra.
    + pose proof (div_bounds (- 1 / 2) 0 (x - e) (e - s) Hd ltac:(lra)) as Hu.
      set (u := (x - e) / (e - s)) in *. clearbody u. nra.
  - rewrite SShape_shape_rev by exact Hse. shapeR.
Qed.

Lemma SShape_shape_at_start (s e : R) : SShape_shape s e s = 0.
Proof. unfold SShape_shape. shapeR. Qed.
Lemma SShape_shape_at_mid (s e : R) : s < e -> SShape_shape s e ((s + e) / 2) = 1 / 2.
Proof. intros Hse. rewrite SShape_shape_fwd by exact Hse. shapeR. Qed.
Lemma SShape_shape_at_end (s e : R) : s < e -> SShape_shape s e e = 1.
Proof. intros Hse. rewrite SShape_shape_fwd by exact Hse. shapeR. Qed.
Lemma SShape_shape_before (s e x : R) : x <= s -> SShape_shape s e x = 0.
Proof. intros Hx. unfold SShape_shape. shapeR. Qed.
Lemma SShape_shape_after (s e x : R) : s < x -> e <= x -> SShape_shape s e x = 1.
Proof. intros Hs He. unfold SShape_shape. shapeR. Qed.

(* increasing for BOTH orders of (start, end) *)
Lemma SShape_shape_mono (s e : R) : forall x y, x <= y -> SShape_shape s e x <= SShape_shape s e y.
Proof.
  intros x y Hxy.
  pose proof (SShape_shape_range s e x) as R1. pose proof (SShape_shape_range s e y) as R2.
  revert R1 R2.
  destruct (Rlt_le_dec s e) as [Hse | Hse].
  - rewrite !SShape_shape_fwd by exact Hse. assert (Hd : 0 < e - s) by lra.
    casesR; intros R1 R2; try lra.
    + pose proof (div_le_compat (x - s) (y - s) (e - s) Hd ltac:(lra)) as Hm.
      pose proof (div_bounds 0 (1 / 2) (x - s) (e - s) Hd ltac:(lra)) as Hu.
      pose proof (div_bounds 0 (1 / 2) (y - s) (e - s) Hd ltac:(lra)) as Hv.
      set (u := (x - s) / (e - s)) in *; set (v := (y - s) / (e - s)) in *; clearbody u v. nra.
    + pose proof (div_bounds 0 (1 / 2) (x - s) (e - s) Hd ltac:(lra)) as Hu.
      pose proof (div_bounds (- 1 / 2) 0 (y - e) (e - s) Hd ltac:(lra)) as Hv.
      set (u := (x - s) / (e - s)) in *; set (v := (y - e) / (e - s)) in *; clearbody u v. nra.
    + pose proof (div_le_compat (x - e) (y - e) (e - s) Hd ltac:(lra)) as Hm.
      pose proof (div_bounds (- 1 / 2) 0 (x - e) (e - s) Hd ltac:(lra)) as Hu.
      pose proof (div_bounds (- 1 / 2) 0 (y - e) (e - s) Hd ltac:(lra)) as Hv.
      set (u := (x - e) / (e - s)) in *; set (v := (y - e) / (e - s)) in *; clearbody u v. nra.
  - rewrite !SShape_shape_rev by exact Hse. casesR; intros; lra.
Qed.

(* -- ZShape = 1 - SShape, for every (start, end) *)
Lemma ZShape_shape_compl (s e x : R) : ZShape_shape s e x = 1 - SShape_shape s e x.
Proof.
  unfold ZShape_shape, SShape_shape. casesR; closeR.
  (* the mid-point, where ZShape takes its third case and SShape its second: both 1/2 *)
  assert (Hx : x = (s + e) / 2) by lra. subst x. field. lra.
Qed.
Lemma ZShape_shape_fwd (s e x : R) : s < e ->
  ZShape_shape s e x =
    if Rleb x s then 1
    else if Rltb x ((s + e) / 2) then 1 - 2 * (((x - s) / (e - s)) * ((x - s) / (e - s)))
    else if Rltb x e then 2 * (((x - e) / (e - s)) * ((x - e) / (e - s)))
    else 0.
Proof. intros Hse. unfold ZShape_shape. shapeR. Qed.
Lemma ZShape_shape_rev (s e x : R) : e <= s -> ZShape_shape s e x = if Rleb x s then 1 else 0.
Proof. intros Hse. unfold ZShape_shape. shapeR. Qed.
Lemma ZShape_shape_range (s e x : R) : 0 <= ZShape_shape s e x <= 1.
Proof. rewrite ZShape_shape_compl. pose proof (SShape_shape_range s e x). lra. Qed.
Lemma ZShape_shape_at_start (s e : R) : ZShape_shape s e s = 1.
Proof. rewrite ZShape_shape_compl, SShape_shape_at_start. lra. Qed.
Lemma ZShape_shape_at_mid (s e : R) : s < e -> ZShape_shape s e ((s + e) / 2) = 1 / 2.
Proof. intros Hse. rewrite ZShape_shape_compl, SShape_shape_at_mid by exact Hse. lra. Qed.
Lemma ZShape_shape_at_end (s e : R) : s < e -> ZShape_shape s e e = 0.
Proof. intros Hse. rewrite ZShape_shape_compl, SShape_shape_at_end by exact Hse. lra. Qed.
Lemma ZShape_shape_before (s e x : R) : x <= s -> ZShape_shape s e x = 1.
Proof. intros Hx. rewrite ZShape_shape_compl, SShape_shape_before by exact Hx. lra. Qed.
Lemma ZShape_shape_after (s e x : R) : s < x -> e <= x -> ZShape_shape s e x = 0.
Proof. intros Hs He. rewrite ZShape_shape_compl, SShape_shape_after by assumption. lra. Qed.
(* decreasing for BOTH orders of (start, end) *)
Lemma ZShape_shape_anti (s e : R) : forall x y, x <= y -> ZShape_shape s e y <= ZShape_shape s e x.
Proof. intros x y Hxy. rewrite !ZShape_shape_compl. pose proof (SShape_shape_mono s e x y Hxy). lra. Qed.

(* -- PiShape *)
Lemma PiShape_shape_range (a b c d x : R) : 0 <= PiShape_shape a b c d x <= 1.
Proof.
  unfold PiShape_shape. pose proof (SShape_shape_range a b x) as HS. pose proof (ZShape_shape_range c d x) as HZ.
  split; nra.
Qed.
Lemma PiShape_shape_outside (a b c d x : R) : a < b -> b <= c -> c < d -> x <= a \/ d <= x -> PiShape_shape a b c d x = 0.
Proof.
  intros Hab Hbc Hcd [Hx | Hx]; unfold PiShape_shape.
  - rewrite SShape_shape_before by exact Hx. lra.
  - rewrite ZShape_shape_after by lra. lra.
Qed.
Lemma PiShape_shape_plateau (a b c d x : R) : a < b -> b <= c -> c < d -> b <= x <= c -> PiShape_shape a b c d x = 1.
Proof.
  intros Hab Hbc Hcd Hx. unfold PiShape_shape.
  rewrite SShape_shape_after, ZShape_shape_before by lra. lra.
Qed.
Lemma PiShape_shape_left (a b c d x : R) : a < b -> b <= c -> c < d -> x <= b -> PiShape_shape a b c d x = SShape_shape a b x.
Proof. intros Hab Hbc Hcd Hx. unfold PiShape_shape. rewrite ZShape_shape_before by lra. lra. Qed.
Lemma PiShape_shape_right (a b c d x : R) : a < b -> b <= c -> c < d -> c <= x -> PiShape_shape a b c d x = ZShape_shape c d x.
Proof. intros Hab Hbc Hcd Hx. unfold PiShape_shape. rewrite SShape_shape_after by lra. lra. Qed.
Lemma PiShape_shape_at_mid_left (a b c d : R) : a < b -> b <= c -> c < d -> PiShape_shape a b c d ((a + b) / 2) = 1 / 2.
Proof. intros Hab Hbc Hcd. rewrite PiShape_shape_left by lra. apply SShape_shape_at_mid; exact Hab. Qed.
Lemma PiShape_shape_at_mid_right (a b c d : R) : a < b -> b <= c -> c < d -> PiShape_shape a b c d ((c + d) / 2) = 1 / 2.
Proof. intros Hab Hbc Hcd. rewrite PiShape_shape_right by lra. apply ZShape_shape_at_mid; exact Hcd. Qed.

(* -- Triangle *)
(* choose the one of four documented cases whose guard holds *)
Ltac pick4 :=
  first [ left; split; [lra | reflexivity]
        | right; left; split; [lra | reflexivity]
        | right; right; left; split; [lra | reflexivity]
        | right; right; right; split; [lra | reflexivity] ].
(* under a <= b <= c the documented cases are exhaustive and mutually exclusive *)
Lemma Triangle_cases (a b c x : R) : a <= b -> b <= c ->
  ((x < a \/ c < x) /\ Triangle_shape a b c x = 0) \/
  (x = b /\ Triangle_shape a b c x = 1) \/
  (a <= x < b /\ Triangle_shape a b c x = (x - a) / (b - a)) \/
  (b < x <= c /\ Triangle_shape a b c x = (c - x) / (c - b)).
Proof.
  intros Hab Hbc. unfold Triangle_shape. casesR; pick4.
Qed.
Lemma Triangle_shape_range (a b c x : R) : a <= b -> b <= c -> 0 <= Triangle_shape a b c x <= 1.
Proof.
  intros Hab Hbc.
  destruct (Triangle_cases a b c x Hab Hbc) as [[_ ->] | [[_ ->] | [[Hx ->] | [Hx ->]]]]; try lra.
  - apply div_bounds; lra.
  - apply div_bounds; lra.
Qed.
Lemma Triangle_shape_at_left (a b c : R) : a < b -> b <= c -> Triangle_shape a b c a = 0.
Proof. intros Hab Hbc. unfold Triangle_shape. shapeR. Qed.
Lemma Triangle_shape_at_top (a b c : R) : a <= b -> b <= c -> Triangle_shape a b c b = 1.
Proof. intros Hab Hbc. unfold Triangle_shape. shapeR. Qed.
Lemma Triangle_shape_at_right (a b c : R) : a <= b -> b < c -> Triangle_shape a b c c = 0.
Proof. intros Hab Hbc. unfold Triangle_shape. shapeR. Qed.
Lemma Triangle_shape_outside (a b c x : R) : x < a \/ c < x -> Triangle_shape a b c x = 0.
Proof. intros Hx. unfold Triangle_shape. shapeR. Qed.

(* -- Trapezoid *)
Lemma Trapezoid_cases (a b c d x : R) : a <= b -> b <= c -> c <= d ->
  ((x < a \/ d < x) /\ Trapezoid_shape a b c d x = 0) \/
  (a <= x < b /\ Trapezoid_shape a b c d x = (x - a) / (b - a)) \/
  (b <= x <= c /\ Trapezoid_shape a b c d x = 1) \/
  (c < x <= d /\ Trapezoid_shape a b c d x = (d - x) / (d - c)).
Proof.
  intros Hab Hbc Hcd. unfold Trapezoid_shape. casesR; pick4.
Qed.
Lemma Trapezoid_shape_range (a b c d x : R) : a <= b -> b <= c -> c <= d -> 0 <= Trapezoid_shape a b c d x <= 1.
Proof.
  intros Hab Hbc Hcd.
  destruct (Trapezoid_cases a b c d x Hab Hbc Hcd) as [[_ ->] | [[Hx ->] | [[_ ->] | [Hx ->]]]]; try lra.
  - apply div_bounds; lra.
  - apply div_bounds; lra.
Qed.
Lemma Trapezoid_shape_at_bottom_left (a b c d : R) : a < b -> b <= c -> c <= d -> Trapezoid_shape a b c d a = 0.
Proof. intros Hab Hbc Hcd. unfold Trapezoid_shape. shapeR. Qed.
Lemma Trapezoid_shape_plateau (a b c d x : R) : a <= b -> b <= c -> c <= d -> b <= x <= c -> Trapezoid_shape a b c d x = 1.
Proof. intros Hab Hbc Hcd Hx. unfold Trapezoid_shape. shapeR. Qed.
Lemma Trapezoid_shape_at_bottom_right (a b c d : R) : a <= b -> b <= c -> c < d -> Trapezoid_shape a b c d d = 0.
Proof. intros Hab Hbc Hcd. unfold Trapezoid_shape. shapeR. Qed.
Lemma Trapezoid_shape_outside (a b c d x : R) : x < a \/ d < x -> Trapezoid_shape a b c d x = 0.
Proof. intros Hx. unfold Trapezoid_shape. shapeR. Qed.

(* ---- 3. consequences for the generated kernels (what Properties/C03a.v states) *)

(* -- Binary *)
Lemma Binary_range (s d h x : R) : Binary_valid s d h -> 0 <= Binary_membership s d h x <= h.
Proof.
  intros Hv. rewrite Binary_eq by exact Hv. unvalid. destruct Hv as [_ [Hh _]].
  apply scale_range; [apply Binary_shape_range | exact Hh].
Qed.
Lemma Binary_breakpoints (s d h : R) : Binary_valid s d h ->
  Binary_membership s d h s = h /\
  (forall x, s < d -> x < s -> Binary_membership s d h x = 0) /\
  (forall x, s < d -> s <= x -> Binary_membership s d h x = h) /\
  (forall x, d < s -> s < x -> Binary_membership s d h x = 0) /\
  (forall x, d < s -> x <= s -> Binary_membership s d h x = h).
Proof.
  intros Hv. assert (Hsd : s <> d) by exact (proj1 Hv). repeat split; intros; rewrite Binary_eq by exact Hv.
  - rewrite Binary_shape_at_start by exact Hsd. lra.
  - rewrite Binary_shape_before by assumption. lra.
  - rewrite Binary_shape_right by assumption. casesR. lra.
  - rewrite Binary_shape_after by assumption. lra.
  - rewrite Binary_shape_left by assumption. casesR. lra.
Qed.

(* -- Concave *)
Lemma Concave_range (i e h x : R) : Concave_valid i e h -> 0 <= Concave_membership i e h x <= h.
Proof.
  intros Hv. rewrite Concave_eq by exact Hv. unvalid. destruct Hv as [Hie [Hh _]].
  apply scale_range; [apply Concave_shape_range; exact Hie | exact Hh].
Qed.
Lemma Concave_breakpoints (i e h : R) : Concave_valid i e h ->
  Concave_membership i e h e = h /\ Concave_membership i e h i = h / 2 /\
  (forall x, 0 < Concave_membership i e h x).
Proof.
  intros Hv. assert (Hie : i <> e) by exact (proj1 Hv). repeat split; intros; rewrite Concave_eq by exact Hv.
  - rewrite Concave_shape_at_end by exact Hie. lra.
  - rewrite Concave_shape_at_inflection by exact Hie. lra.
  - unvalid. apply Rmult_lt_0_compat; [lra | apply Concave_shape_pos; exact Hie].
Qed.
Lemma Concave_monotone_inc (i e h : R) : Concave_valid i e h -> i < e ->
  forall x y, x <= y -> Concave_membership i e h x <= Concave_membership i e h y.
Proof.
  intros Hv Hie x y Hxy. rewrite !Concave_eq by exact Hv. unvalid.
  apply (scale_mono h (Concave_shape i e)); [lra | apply Concave_shape_mono_inc; exact Hie | exact Hxy].
Qed.
Lemma Concave_monotone_dec (i e h : R) : Concave_valid i e h -> e < i ->
  forall x y, x <= y -> Concave_membership i e h y <= Concave_membership i e h x.
Proof.
  intros Hv Hie x y Hxy. rewrite !Concave_eq by exact Hv. unvalid.
  apply (scale_anti h (Concave_shape i e)); [lra | apply Concave_shape_mono_dec; exact Hie | exact Hxy].
Qed.

(* -- Constant *)
Lemma Constant_const (k x y : R) : Constant_membership k x = Constant_membership k y.
Proof. reflexivity. Qed.

(* -- Ramp *)
Lemma Ramp_range (s e h x : R) : Ramp_valid s e h -> 0 <= Ramp_membership s e h x <= h.
Proof.
  intros Hv. rewrite Ramp_eq by exact Hv. unvalid. destruct Hv as [Hse [Hh _]].
  apply scale_range; [apply Ramp_shape_range; exact Hse | exact Hh].
Qed.
Lemma Ramp_breakpoints (s e h : R) : Ramp_valid s e h ->
  Ramp_membership s e h s = 0 /\ Ramp_membership s e h e = h /\ Ramp_membership s e h ((s + e) / 2) = h / 2.
Proof.
  intros Hv. assert (Hse : s <> e) by exact (proj1 Hv). repeat split; rewrite Ramp_eq by exact Hv.
  - rewrite Ramp_shape_at_start by exact Hse. lra.
  - rewrite Ramp_shape_at_end by exact Hse. lra.
  - rewrite Ramp_shape_at_mid by exact Hse. lra.
Qed.
Lemma Ramp_monotone_inc (s e h : R) : Ramp_valid s e h -> s < e ->
  forall x y, x <= y -> Ramp_membership s e h x <= Ramp_membership s e h y.
Proof.
  intros Hv Hse x y Hxy. rewrite !Ramp_eq by exact Hv. unvalid.
  apply (scale_mono h (Ramp_shape s e)); [lra | apply Ramp_shape_mono_inc; exact Hse | exact Hxy].
Qed.
Lemma Ramp_monotone_dec (s e h : R) : Ramp_valid s e h -> e < s ->
  forall x y, x <= y -> Ramp_membership s e h y <= Ramp_membership s e h x.
Proof.
  intros Hv Hse x y Hxy. rewrite !Ramp_eq by exact Hv. unvalid.
  apply (scale_anti h (Ramp_shape s e)); [lra | apply Ramp_shape_mono_dec; exact Hse | exact Hxy].
Qed.

(* -- Rectangle *)
Lemma Rectangle_range (s e h x : R) : Rectangle_valid s e h -> 0 <= Rectangle_membership s e h x <= h.
Proof.
  intros Hv. rewrite Rectangle_eq by exact Hv. unvalid. destruct Hv as [_ [Hh _]].
  apply scale_range; [apply Rectangle_shape_range | exact Hh].
Qed.
Lemma Rectangle_breakpoints (s e h : R) : Rectangle_valid s e h ->
  Rectangle_membership s e h s = h /\ Rectangle_membership s e h e = h /\
  (forall x, s <= x <= e -> Rectangle_membership s e h x = h) /\
  (forall x, x < s \/ e < x -> Rectangle_membership s e h x = 0).
Proof.
  intros Hv. assert (Hse : s <= e) by exact (proj1 Hv). repeat split; intros; rewrite Rectangle_eq by exact Hv.
  - rewrite Rectangle_shape_inside by lra. lra.
  - rewrite Rectangle_shape_inside by lra. lra.
  - rewrite Rectangle_shape_inside by assumption. lra.
  - rewrite Rectangle_shape_outside by assumption. lra.
Qed.

(* -- SShape *)
Lemma SShape_range (s e h x : R) : SShape_valid s e h -> 0 <= SShape_membership s e h x <= h.
Proof.
  intros Hv. rewrite SShape_eq by exact Hv. unvalid. destruct Hv as [_ [Hh _]].
  apply scale_range; [apply SShape_shape_range | exact Hh].
Qed.
Lemma SShape_breakpoints (s e h : R) : SShape_valid s e h -> s < e ->
  SShape_membership s e h s = 0 /\ SShape_membership s e h ((s + e) / 2) = h / 2 /\ SShape_membership s e h e = h.
Proof.
  intros Hv Hse. repeat split; rewrite SShape_eq by exact Hv.
  - rewrite SShape_shape_at_start. lra.
  - rewrite SShape_shape_at_mid by exact Hse. lra.
  - rewrite SShape_shape_at_end by exact Hse. lra.
Qed.
(* reversed parameters: a step at start *)
Lemma SShape_reversed_step (s e h x : R) : SShape_valid s e h -> e < s ->
  SShape_membership s e h x = if Rleb x s then 0 else h.
Proof.
  intros Hv Hse. rewrite SShape_eq by exact Hv. rewrite SShape_shape_rev by lra. casesR; lra.
Qed.
Lemma SShape_monotone (s e h : R) : SShape_valid s e h ->
  forall x y, x <= y -> SShape_membership s e h x <= SShape_membership s e h y.
Proof.
  intros Hv x y Hxy. rewrite !SShape_eq by exact Hv. unvalid.
  apply (scale_mono h (SShape_shape s e)); [lra | apply SShape_shape_mono | exact Hxy].
Qed.

(* -- ZShape *)
Lemma ZShape_range (s e h x : R) : ZShape_valid s e h -> 0 <= ZShape_membership s e h x <= h.
Proof.
  intros Hv. rewrite ZShape_eq by exact Hv. unvalid. destruct Hv as [_ [Hh _]].
  apply scale_range; [apply ZShape_shape_range | exact Hh].
Qed.
Lemma ZShape_breakpoints (s e h : R) : ZShape_valid s e h -> s < e ->
  ZShape_membership s e h s = h /\ ZShape_membership s e h ((s + e) / 2) = h / 2 /\ ZShape_membership s e h e = 0.
Proof.
  intros Hv Hse. repeat split; rewrite ZShape_eq by exact Hv.
  - rewrite ZShape_shape_at_start. lra.
  - rewrite ZShape_shape_at_mid by exact Hse. lra.
  - rewrite ZShape_shape_at_end by exact Hse. lra.
Qed.
Lemma ZShape_reversed_step (s e h x : R) : ZShape_valid s e h -> e < s ->
  ZShape_membership s e h x = if Rleb x s then h else 0.
Proof.
  intros Hv Hse. rewrite ZShape_eq by exact Hv. rewrite ZShape_shape_rev by lra. casesR; lra.
Qed.
Lemma ZShape_monotone (s e h : R) : ZShape_valid s e h ->
  forall x y, x <= y -> ZShape_membership s e h y <= ZShape_membership s e h x.
Proof.
  intros Hv x y Hxy. rewrite !ZShape_eq by exact Hv. unvalid.
  apply (scale_anti h (ZShape_shape s e)); [lra | apply ZShape_shape_anti | exact Hxy].
Qed.
(* the two S/Z kernels are complementary: they add up to the height *)
Lemma SShape_ZShape_sum (s e h x : R) : SShape_valid s e h ->
  SShape_membership s e h x + ZShape_membership s e h x = h.
Proof. intros Hv. rewrite SShape_eq, ZShape_eq by exact Hv. rewrite ZShape_shape_compl. lra. Qed.

(* -- PiShape *)
Lemma PiShape_range (a b c d h x : R) : PiShape_valid a b c d h -> 0 <= PiShape_membership a b c d h x <= h.
Proof.
  intros Hv. rewrite PiShape_eq by exact Hv. unvalid. destruct Hv as (_ & _ & _ & Hh & _).
  apply scale_range; [apply PiShape_shape_range | exact Hh].
Qed.
Lemma PiShape_breakpoints (a b c d h : R) : PiShape_valid a b c d h ->
  PiShape_membership a b c d h a = 0 /\ PiShape_membership a b c d h ((a + b) / 2) = h / 2 /\
  PiShape_membership a b c d h b = h /\ PiShape_membership a b c d h c = h /\
  PiShape_membership a b c d h ((c + d) / 2) = h / 2 /\ PiShape_membership a b c d h d = 0 /\
  (forall x, b <= x <= c -> PiShape_membership a b c d h x = h) /\
  (forall x, x <= a \/ d <= x -> PiShape_membership a b c d h x = 0).
Proof.
  intros Hv. pose proof Hv as (Hab & Hbc & Hcd & _). repeat split; intros; rewrite PiShape_eq by exact Hv.
  - rewrite PiShape_shape_outside by lra. lra.
  - rewrite PiShape_shape_at_mid_left by assumption. lra.
  - rewrite PiShape_shape_plateau by lra. lra.
  - rewrite PiShape_shape_plateau by lra. lra.
  - rewrite PiShape_shape_at_mid_right by assumption. lra.
  - rewrite PiShape_shape_outside by lra. lra.
  - rewrite PiShape_shape_plateau by assumption. lra.
  - rewrite PiShape_shape_outside by assumption. lra.
Qed.

(* -- Triangle *)
Lemma Triangle_range (a b c h x : R) : Triangle_valid a b c h -> 0 <= Triangle_membership a b c h x <= h.
Proof.
  intros Hv. rewrite Triangle_eq by exact Hv. unvalid. destruct Hv as (Hab & Hbc & _ & Hh & _).
  apply scale_range; [apply Triangle_shape_range; assumption | exact Hh].
Qed.
Lemma Triangle_breakpoints (a b c h : R) : Triangle_valid a b c h ->
  (a < b -> Triangle_membership a b c h a = 0) /\ Triangle_membership a b c h b = h /\
  (b < c -> Triangle_membership a b c h c = 0) /\
  (forall x, x < a \/ c < x -> Triangle_membership a b c h x = 0).
Proof.
  intros Hv. pose proof Hv as (Hab & Hbc & Hac & _). repeat split; intros; rewrite Triangle_eq by exact Hv.
  - rewrite Triangle_shape_at_left by assumption. lra.
  - rewrite Triangle_shape_at_top by assumption. lra.
  - rewrite Triangle_shape_at_right by assumption. lra.
  - rewrite Triangle_shape_outside by assumption. lra.
Qed.

(* -- Trapezoid *)
Lemma Trapezoid_range (a b c d h x : R) : Trapezoid_valid a b c d h -> 0 <= Trapezoid_membership a b c d h x <= h.
Proof.
  intros Hv. rewrite Trapezoid_eq by exact Hv. unvalid. destruct Hv as (Hab & Hbc & Hcd & Hh & _).
  apply scale_range; [apply Trapezoid_shape_range; assumption | exact Hh].
Qed.
Lemma Trapezoid_breakpoints (a b c d h : R) : Trapezoid_valid a b c d h ->
  (a < b -> Trapezoid_membership a b c d h a = 0) /\ Trapezoid_membership a b c d h b = h /\
  Trapezoid_membership a b c d h c = h /\ (c < d -> Trapezoid_membership a b c d h d = 0) /\
  (forall x, b <= x <= c -> Trapezoid_membership a b c d h x = h) /\
  (forall x, x < a \/ d < x -> Trapezoid_membership a b c d h x = 0).
Proof.
  intros Hv. pose proof Hv as (Hab & Hbc & Hcd & _). repeat split; intros; rewrite Trapezoid_eq by exact Hv.
  - rewrite Trapezoid_shape_at_bottom_left by assumption. lra.
  - rewrite Trapezoid_shape_plateau by (assumption || lra). lra.
  - rewrite Trapezoid_shape_plateau by (assumption || lra). lra.
  - rewrite Trapezoid_shape_at_bottom_right by assumption. lra.
  - rewrite Trapezoid_shape_plateau by assumption. lra.
  - rewrite Trapezoid_shape_outside by assumption. lra.
Qed.

(* ---- 4. for the non-vacuity examples: decide a concrete validity predicate / evaluate a concrete closed form *)
Ltac valid_num := unvalid; lra.
Ltac shape_num :=
  unfold Binary_shape, Concave_shape, Constant_shape, Ramp_shape, Rectangle_shape, PiShape_shape, SShape_shape,
    ZShape_shape, Triangle_shape, Trapezoid_shape; shapeR.
