(* TsukamotoFloat — Ramp.tsukamoto at the binary64 level: the GENERATED kernel Ramp_tsukamoto of Gen/GenTerm.v at
   `NumF m tbl` (only - * / +, no oracle function) is  s + ((e - s) * y) / h  (lemma Ramp_tsukamoto_Feq, modulo
   commuted operands), and for finite |s|, |e| <= 2^1022, finite 0 < h <= 1 and EVERY binary64 y with 0 <= y <= h:
   the result is finite, monotone in y in the direction of the term, equals s at y = 0 and never lies on the far side
   of s.  Containment on the side of `end` is only true up to rounding: refuted by witness. *)
From Coq Require Import ZArith Reals Lra Lia Bool Floats Psatz.
From Flocq Require Import Core IEEE754.BinarySingleNaN IEEE754.PrimFloat.
From VF Require Import Num NumF GenTerm FloatLevel NormFloat TermFloat.
Local Open Scope R_scope.

Definition Ramp_tsukamoto_F (s e h y : flt) : flt := (s + ((e - s) * y) / h)%float.

Lemma Ramp_tsukamoto_Feq m tbl s e h y : @Ramp_tsukamoto _ (NumF m tbl) s e h y = Ramp_tsukamoto_F s e h y.
Proof. unfold Ramp_tsukamoto, Ramp_tsukamoto_F. unnum. flits. fcomm. Qed.

Definition small1022 (x : flt) : Prop := fin x /\ Rabs (R_of x) <= bpow radix2 1022.

Lemma div_bounds p h D : 0 < h -> - D * h <= p <= D * h -> - D <= p / h <= D.
Proof.
  intros Hh [H1 H2]. split.
  - apply Rmult_le_reg_r with h; [exact Hh |]. unfold Rdiv. rewrite Rmult_assoc, Rinv_l by lra. lra.
  - apply Rmult_le_reg_r with h; [exact Hh |]. unfold Rdiv. rewrite Rmult_assoc, Rinv_l by lra. lra.
Qed.

(* the real-number reading of the float computation, and finiteness *)
Lemma Ramp_tsukamoto_F_core s e h y : small1022 s -> small1022 e -> fin h -> 0 < R_of h <= 1 ->
  fin y -> 0 <= R_of y <= R_of h ->
  fin (e - s)%float /\ - BIG <= R_of (e - s)%float <= BIG /\ R_of (e - s)%float = RN (R_of e - R_of s) /\
  fin (Ramp_tsukamoto_F s e h y) /\
  R_of (Ramp_tsukamoto_F s e h y) = RN (R_of s + RN (RN (R_of (e - s)%float * R_of y) / R_of h)).
Proof.
  intros [Fs Bs] [Fe Be] Fh Hh Fy Hy. unfold Ramp_tsukamoto_F.
  pose proof (sub_fin_small e s Fe Fs Be Bs) as Fd.
  destruct (sub_fin_inv e s Fe Fs Fd) as [_ Ed].
  apply Rabs_le_inv in Bs. apply Rabs_le_inv in Be. pose proof BIG_2_1022 as EB.
  assert (PB : 0 < bpow radix2 1022) by apply bpow_gt_0.
  assert (Bd : - BIG <= R_of (e - s)%float <= BIG).
  { rewrite Ed. apply RN_bounds; [apply fmt_opp, fmt_BIG | apply fmt_BIG | lra]. }
  set (d := R_of (e - s)%float) in *.
  assert (FDh : fmt (BIG * R_of h)).
  { rewrite Rmult_comm. unfold BIG. apply fmt_scale; [apply fmt_R_of | lia]. }
  assert (P0 : - BIG * R_of h <= d * R_of y <= BIG * R_of h) by (split; nra).
  assert (Sp : safe (d * R_of y)) by (apply safe_BIG, Rabs_le; nra).
  destruct (mul_RN (e - s)%float y Fd Fy Sp) as [Fp Ep]. fold d in Ep.
  assert (Bp : - BIG * R_of h <= R_of ((e - s) * y)%float <= BIG * R_of h).
  { rewrite Ep. replace (- BIG * R_of h) with (- (BIG * R_of h)) by ring.
    apply RN_bounds; [apply fmt_opp, FDh | exact FDh | lra]. }
  pose proof (div_bounds _ _ _ (proj1 Hh) Bp) as Bq0.
  assert (Sq : safe (R_of ((e - s) * y)%float / R_of h)) by (apply safe_BIG, Rabs_le; lra).
  destruct (div_RN _ h Fp Fh ltac:(lra) Sq) as [Fq Eq].
  assert (Bq : - BIG <= R_of ((e - s) * y / h)%float <= BIG).
  { rewrite Eq. apply RN_bounds; [apply fmt_opp, fmt_BIG | apply fmt_BIG | exact Bq0]. }
  assert (Sr : safe (R_of s + R_of ((e - s) * y / h)%float)).
  { apply safe_BIG3, Rabs_le. unfold BIG3. lra. }
  destruct (add_RN s _ Fs Fq Sr) as [Fr Er].
  split; [exact Fd |]. split; [exact Bd |]. split; [exact Ed |]. split; [exact Fr |].
  rewrite Er, Eq, Ep. reflexivity.
Qed.

Section Laws.
  Variables s e h : flt.
  Hypotheses (Ss : small1022 s) (Se : small1022 e) (Fh : fin h) (Hh : 0 < R_of h <= 1).
  Let T := Ramp_tsukamoto_F s e h.
  Definition yok (y : flt) : Prop := fin y /\ 0 <= R_of y <= R_of h.

  Lemma Ramp_tsukamoto_F_fin y : yok y -> fin (T y).
  Proof. intros [Fy Hy]. apply (Ramp_tsukamoto_F_core s e h y Ss Se Fh Hh Fy Hy). Qed.

  Lemma Ramp_tsukamoto_F_zero : R_of (T 0%float) = R_of s.
  Proof.
    assert (Y0 : 0 <= R_of 0%float <= R_of h) by (rewrite R_of_zero; lra).
    destruct (Ramp_tsukamoto_F_core s e h 0%float Ss Se Fh Hh fin_zero Y0) as (_ & _ & _ & _ & E).
    unfold T. rewrite E, R_of_zero, Rmult_0_r, RN_0. unfold Rdiv. rewrite Rmult_0_l, RN_0, Rplus_0_r.
    apply RN_id, fmt_R_of.
  Qed.

  (* increasing ramp: monotone, and on the right of s *)
  Lemma Ramp_tsukamoto_F_mono_inc y1 y2 : R_of s <= R_of e -> yok y1 -> yok y2 -> R_of y1 <= R_of y2 ->
    R_of (T y1) <= R_of (T y2).
  Proof.
    intros Hse [F1 H1] [F2 H2] L.
    destruct (Ramp_tsukamoto_F_core s e h y1 Ss Se Fh Hh F1 H1) as (_ & _ & Ed & _ & E1).
    destruct (Ramp_tsukamoto_F_core s e h y2 Ss Se Fh Hh F2 H2) as (_ & _ & _ & _ & E2).
    assert (D0 : 0 <= R_of (e - s)%float) by (rewrite Ed; apply RN_ge; [apply fmt_0 | lra]).
    unfold T. rewrite E1, E2. apply RN_le. apply Rplus_le_compat_l. apply RN_le.
    unfold Rdiv. apply Rmult_le_compat_r; [left; apply Rinv_0_lt_compat; lra |]. apply RN_le. nra.
  Qed.
  Lemma Ramp_tsukamoto_F_ge_start y : R_of s <= R_of e -> yok y -> R_of s <= R_of (T y).
  Proof.
    intros Hse Y. rewrite <- Ramp_tsukamoto_F_zero.
    apply Ramp_tsukamoto_F_mono_inc; [exact Hse | split; [apply fin_zero | rewrite R_of_zero; lra] | exact Y |].
    rewrite R_of_zero. apply Y.
  Qed.
  (* decreasing ramp: antitone, and on the left of s *)
  Lemma Ramp_tsukamoto_F_mono_dec y1 y2 : R_of e <= R_of s -> yok y1 -> yok y2 -> R_of y1 <= R_of y2 ->
    R_of (T y2) <= R_of (T y1).
  Proof.
    intros Hse [F1 H1] [F2 H2] L.
    destruct (Ramp_tsukamoto_F_core s e h y1 Ss Se Fh Hh F1 H1) as (_ & _ & Ed & _ & E1).
    destruct (Ramp_tsukamoto_F_core s e h y2 Ss Se Fh Hh F2 H2) as (_ & _ & _ & _ & E2).
    assert (D0 : R_of (e - s)%float <= 0) by (rewrite Ed; apply RN_le_fmt; [apply fmt_0 | lra]).
    unfold T. rewrite E1, E2. apply RN_le. apply Rplus_le_compat_l. apply RN_le.
    unfold Rdiv. apply Rmult_le_compat_r; [left; apply Rinv_0_lt_compat; lra |]. apply RN_le. nra.
  Qed.
  Lemma Ramp_tsukamoto_F_le_start y : R_of e <= R_of s -> yok y -> R_of (T y) <= R_of s.
  Proof.
    intros Hse Y. rewrite <- Ramp_tsukamoto_F_zero.
    apply Ramp_tsukamoto_F_mono_dec; [exact Hse | split; [apply fin_zero | rewrite R_of_zero; lra] | exact Y |].
    rewrite R_of_zero. apply Y.
  Qed.
End Laws.

(* the far end: z(h) can pass `end` — s = -(1 - 2^-53), e = 0.75 * 2^-53, h = y = 1: e - s rounds to 1, s + 1 = 2^-53 > e;
   mirrored for the decreasing ramp *)
Lemma Ramp_tsukamoto_F_support_refuted :
  fltb 0x1.8p-54 (Ramp_tsukamoto_F (-0x1.fffffffffffffp-1) 0x1.8p-54 1 1) = true /\
  fltb (Ramp_tsukamoto_F 0x1.fffffffffffffp-1 (-0x1.8p-54) 1 1) (-0x1.8p-54) = true.
Proof. split; vm_compute; reflexivity. Qed.

Section Final.
  Variables (m : bool) (tbl : oracle).
  Local Notation NF := (NumF m tbl).
  Theorem Ramp_tsukamoto_float s e h : small1022 s -> small1022 e -> fin h -> 0 < R_of h <= 1 ->
    let T := @Ramp_tsukamoto _ NF s e h in
    (forall y, yok h y -> fin (T y)) /\ R_of (T 0%float) = R_of s /\
    (R_of s <= R_of e -> (forall y1 y2, yok h y1 -> yok h y2 -> R_of y1 <= R_of y2 -> R_of (T y1) <= R_of (T y2)) /\
                         (forall y, yok h y -> R_of s <= R_of (T y))) /\
    (R_of e <= R_of s -> (forall y1 y2, yok h y1 -> yok h y2 -> R_of y1 <= R_of y2 -> R_of (T y2) <= R_of (T y1)) /\
                         (forall y, yok h y -> R_of (T y) <= R_of s)).
  Proof.
    intros Ss Se Fh Hh. cbv zeta.
    split; [intros y Y; rewrite Ramp_tsukamoto_Feq; now apply Ramp_tsukamoto_F_fin |].
    split; [rewrite Ramp_tsukamoto_Feq; now apply Ramp_tsukamoto_F_zero |].
    split; intros Hse; (split; [intros y1 y2 Y1 Y2 L | intros y Y]); rewrite !Ramp_tsukamoto_Feq.
    - now apply Ramp_tsukamoto_F_mono_inc.
    - now apply Ramp_tsukamoto_F_ge_start.
    - now apply Ramp_tsukamoto_F_mono_dec.
    - now apply Ramp_tsukamoto_F_le_start.
  Qed.
  Theorem Ramp_tsukamoto_support_refuted :
    fltb 0x1.8p-54 (@Ramp_tsukamoto _ NF (-0x1.fffffffffffffp-1)%float 0x1.8p-54%float 1%float 1%float) = true /\
    fltb (@Ramp_tsukamoto _ NF 0x1.fffffffffffffp-1%float (-0x1.8p-54)%float 1%float 1%float) (-0x1.8p-54) = true.
  Proof. rewrite !Ramp_tsukamoto_Feq. exact Ramp_tsukamoto_F_support_refuted. Qed.
End Final.

(* ================================================================== Concave.tsukamoto :  ((h * (i - e)) / y + 2 * e) - i
   for |i|, |e| <= 2^500, 0 < h <= 1 and 2^-500 <= y <= h (no overflow): finite, and monotone in y in the direction
   of the term *)
Definition Concave_tsukamoto_F (i e h y : flt) : flt := ((h * (i - e)) / y + 2 * e - i)%float.
Lemma Concave_tsukamoto_Feq m tbl i e h y : @Concave_tsukamoto _ (NumF m tbl) i e h y = Concave_tsukamoto_F i e h y.
Proof. unfold Concave_tsukamoto, Concave_tsukamoto_F. unnum. flits. fcomm. Qed.

Definition small500 (x : flt) : Prop := fin x /\ Rabs (R_of x) <= bpow radix2 500.
Definition yokC (h y : flt) : Prop := fin y /\ bpow radix2 (-500) <= R_of y <= R_of h.

Lemma div_bounds2 c y A eps : 0 < eps <= y -> - A <= c <= A -> - (A / eps) <= c / y <= A / eps.
Proof.
  intros [He Hy] [H1 H2].
  assert (I1 : 0 < / y) by (apply Rinv_0_lt_compat; lra).
  assert (I2 : / y <= / eps) by (apply Rinv_le_contravar; lra).
  unfold Rdiv. split; nra.
Qed.

Lemma Concave_tsukamoto_F_core i e h y : small500 i -> small500 e -> fin h -> 0 < R_of h <= 1 -> yokC h y ->
  fin (Concave_tsukamoto_F i e h y) /\
  R_of (Concave_tsukamoto_F i e h y) =
    RN (RN (RN (RN (R_of h * RN (R_of i - R_of e)) / R_of y) + RN (2 * R_of e)) - R_of i).
Proof.
  intros [Fi Bi] [Fe Be] Fh Hh [Fy Hy]. unfold Concave_tsukamoto_F.
  apply Rabs_le_inv in Bi. apply Rabs_le_inv in Be.
  assert (P500 : 0 < bpow radix2 500) by apply bpow_gt_0.
  assert (Pm : 0 < bpow radix2 (-500)) by apply bpow_gt_0.
  assert (E501 : bpow radix2 501 = 2 * bpow radix2 500) by (change 501%Z with (1 + 500)%Z; now rewrite bpow_plus).
  assert (E1001 : bpow radix2 501 / bpow radix2 (-500) = bpow radix2 1001).
  { unfold Rdiv. rewrite <- bpow_opp, <- bpow_plus. reflexivity. }
  assert (E1002 : bpow radix2 1002 = 2 * bpow radix2 1001) by (change 1002%Z with (1 + 1001)%Z; now rewrite bpow_plus).
  assert (E1003 : bpow radix2 1003 = 2 * bpow radix2 1002) by (change 1003%Z with (1 + 1002)%Z; now rewrite bpow_plus).
  assert (L1 : bpow radix2 501 <= bpow radix2 1001) by (apply bpow_le; lia).
  assert (L2 : bpow radix2 1003 <= BIG) by (apply bpow_le; lia).
  assert (F501 : fmt (bpow radix2 501)) by (apply fmt_bpow; lia).
  assert (F1001 : fmt (bpow radix2 1001)) by (apply fmt_bpow; lia).
  assert (F1002 : fmt (bpow radix2 1002)) by (apply fmt_bpow; lia).
  (* d = i - e *)
  assert (Sd : safe (R_of i - R_of e)) by (apply safe_BIG, Rabs_le; lra).
  destruct (sub_RN i e Fi Fe Sd) as [Fd Ed].
  assert (Bd : - bpow radix2 501 <= R_of (i - e)%float <= bpow radix2 501).
  { rewrite Ed. apply RN_bounds; [apply fmt_opp, F501 | exact F501 | lra]. }
  (* c = h * d *)
  assert (Sc : safe (R_of h * R_of (i - e)%float)) by (apply safe_BIG, Rabs_le; nra).
  destruct (mul_RN h _ Fh Fd Sc) as [Fc Ec].
  assert (Bc : - bpow radix2 501 <= R_of (h * (i - e))%float <= bpow radix2 501).
  { rewrite Ec. apply RN_bounds; [apply fmt_opp, F501 | exact F501 | nra]. }
  (* q = c / y *)
  pose proof (div_bounds2 _ _ _ _ (conj Pm (proj1 Hy)) Bc) as Bq0. rewrite E1001 in Bq0.
  assert (Sq : safe (R_of (h * (i - e))%float / R_of y)) by (apply safe_BIG, Rabs_le; lra).
  destruct (div_RN _ y Fc Fy ltac:(lra) Sq) as [Fq Eq].
  assert (Bq : - bpow radix2 1001 <= R_of (h * (i - e) / y)%float <= bpow radix2 1001).
  { rewrite Eq. apply RN_bounds; [apply fmt_opp, F1001 | exact F1001 | exact Bq0]. }
  (* t = 2 * e *)
  assert (St : safe (R_of 2%float * R_of e)) by (rewrite R_of_two; apply safe_BIG, Rabs_le; lra).
  destruct (mul_RN 2%float e fin_two Fe St) as [Ft Et]. rewrite R_of_two in Et.
  assert (Bt : - bpow radix2 501 <= R_of (2 * e)%float <= bpow radix2 501).
  { rewrite Et. apply RN_bounds; [apply fmt_opp, F501 | exact F501 | lra]. }
  (* a = q + t *)
  assert (Sa : safe (R_of (h * (i - e) / y)%float + R_of (2 * e)%float)) by (apply safe_BIG, Rabs_le; lra).
  destruct (add_RN _ _ Fq Ft Sa) as [Fa Ea].
  assert (Ba : - bpow radix2 1002 <= R_of (h * (i - e) / y + 2 * e)%float <= bpow radix2 1002).
  { rewrite Ea. apply RN_bounds; [apply fmt_opp, F1002 | exact F1002 | lra]. }
  (* r = a - i *)
  assert (Sr : safe (R_of (h * (i - e) / y + 2 * e)%float - R_of i)) by (apply safe_BIG, Rabs_le; lra).
  destruct (sub_RN _ i Fa Fi Sr) as [Fr Er].
  split; [exact Fr |]. rewrite Er, Ea, Eq, Ec, Ed, Et. reflexivity.
Qed.

Lemma Concave_tsukamoto_F_mono i e h y1 y2 : small500 i -> small500 e -> fin h -> 0 < R_of h <= 1 ->
  yokC h y1 -> yokC h y2 -> R_of y1 <= R_of y2 ->
  (R_of i <= R_of e -> R_of (Concave_tsukamoto_F i e h y1) <= R_of (Concave_tsukamoto_F i e h y2)) /\
  (R_of e <= R_of i -> R_of (Concave_tsukamoto_F i e h y2) <= R_of (Concave_tsukamoto_F i e h y1)).
Proof.
  intros Si Se Fh Hh Y1 Y2 L.
  destruct (Concave_tsukamoto_F_core i e h y1 Si Se Fh Hh Y1) as [_ E1].
  destruct (Concave_tsukamoto_F_core i e h y2 Si Se Fh Hh Y2) as [_ E2].
  destruct Y1 as [_ H1], Y2 as [_ H2].
  assert (Pm : 0 < bpow radix2 (-500)) by apply bpow_gt_0.
  assert (I1 : 0 < / R_of y2) by (apply Rinv_0_lt_compat; lra).
  assert (I2 : / R_of y2 <= / R_of y1) by (apply Rinv_le_contravar; lra).
  rewrite E1, E2. split; intros Hie.
  - assert (C0 : RN (R_of h * RN (R_of i - R_of e)) <= 0).
    { apply RN_le_fmt; [apply fmt_0 |].
      assert (RN (R_of i - R_of e) <= 0) by (apply RN_le_fmt; [apply fmt_0 | lra]). nra. }
    apply RN_le. apply Rplus_le_compat_r. apply RN_le. apply Rplus_le_compat_r. apply RN_le. unfold Rdiv. nra.
  - assert (C0 : 0 <= RN (R_of h * RN (R_of i - R_of e))).
    { apply RN_ge; [apply fmt_0 |].
      assert (0 <= RN (R_of i - R_of e)) by (apply RN_ge; [apply fmt_0 | lra]). nra. }
    apply RN_le. apply Rplus_le_compat_r. apply RN_le. apply Rplus_le_compat_r. apply RN_le. unfold Rdiv. nra.
Qed.

Theorem Concave_tsukamoto_float m tbl i e h : small500 i -> small500 e -> fin h -> 0 < R_of h <= 1 ->
  let T := @Concave_tsukamoto _ (NumF m tbl) i e h in
  (forall y, yokC h y -> fin (T y)) /\
  (forall y1 y2, yokC h y1 -> yokC h y2 -> R_of y1 <= R_of y2 ->
     (R_of i <= R_of e -> R_of (T y1) <= R_of (T y2)) /\ (R_of e <= R_of i -> R_of (T y2) <= R_of (T y1))).
Proof.
  intros Si Se Fh Hh. cbv zeta. split.
  - intros y Y. rewrite Concave_tsukamoto_Feq. now apply Concave_tsukamoto_F_core.
  - intros y1 y2 Y1 Y2 L. rewrite !Concave_tsukamoto_Feq. now apply Concave_tsukamoto_F_mono.
Qed.

(* containment on the side of `end` fails by rounding also for Concave (z(h) = 0.10000000000000009 > end = 0.1), and
   Arc.tsukamoto leaves the support at y = 0 (z(0) = 0.09999999999999998 < start = 0.1) *)
Theorem Concave_tsukamoto_support_refuted m tbl :
  fltb 0x1.999999999999ap-4 (@Concave_tsukamoto _ (NumF m tbl) (-0.625)%float 0x1.999999999999ap-4%float 1%float 1%float) = true.
Proof. vm_compute. reflexivity. Qed.
Theorem Arc_tsukamoto_support_refuted m tbl :
  fltb (@Arc_tsukamoto _ (NumF m tbl) 0x1.999999999999ap-4%float 0.5%float 0x1.3333333333333p-2%float 0%float)
       0x1.999999999999ap-4 = true.
Proof. vm_compute. reflexivity. Qed.
