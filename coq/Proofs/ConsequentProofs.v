(* ConsequentProofs.v — statements and proofs about Model/Consequent.v (C07).
   Part 1: the documented behaviour as Gallina definitions (what each conclusion contributes).
   Part 2: generic lemmas (any numeric reading T), both loops of `modify` at once (carry = true / false).
   Part 3: the reals: the documented statement is FALSE of the loop as written (finding F1), true of the repaired loop.
   Part 4: floats: the same witness evaluated with vm_compute; sanitize on the special values. *)
From Coq Require Import ZArith NArith Bool String List Lia Permutation.
From VF Require Import Num GenNorm GenHedge GenTerm Core Consequent.
Import ListNotations.
Set Implicit Arguments.
Local Open Scope list_scope.

(* ======================================================================= Part 0: list helpers *)
Lemma length_update_nth {A} (f : A -> A) : forall xs i, length (update_nth i f xs) = length xs.
Proof. induction xs as [|x tl IH]; intros [|i]; cbn; auto. Qed.

Lemma nth_error_update_nth {A} (f : A -> A) : forall xs i k,
  nth_error (update_nth i f xs) k = if Nat.eqb k i then option_map f (nth_error xs k) else nth_error xs k.
Proof.
  induction xs as [|x tl IH]; intros i k.
  - destruct k, i; cbn; try reflexivity; destruct (Nat.eqb k i); reflexivity.
  - destruct i, k; cbn; try reflexivity. apply IH.
Qed.

Lemma dict_get_nth {A} (name : A -> string) : forall xs key i x,
  dict_get name xs key = Some (i, x) -> nth_error xs i = Some x /\ name x = key.
Proof.
  induction xs as [|y tl IH]; cbn; intros key i x H; [discriminate|].
  destruct (dict_get name tl key) as [[j z]|] eqn:E.
  - inversion H; subst. cbn. eauto.
  - destruct (String.eqb (name y) key) eqn:En; [|discriminate].
    inversion H; subst. cbn. split; [reflexivity | now apply String.eqb_eq].
Qed.

(* last one wins: no later element carries the name *)
Lemma dict_get_last {A} (name : A -> string) : forall xs key i x,
  dict_get name xs key = Some (i, x) -> forall k y, i < k -> nth_error xs k = Some y -> name y <> key.
Proof.
  induction xs as [|z tl IH]; cbn; intros key i x H k y Hk Hy; [discriminate|].
  destruct (dict_get name tl key) as [[j w]|] eqn:E.
  - inversion H; subst. destruct k as [|k]; [lia|]. cbn in Hy. apply (IH key j x E k y); [lia | exact Hy].
  - destruct (String.eqb (name z) key); [|discriminate]. inversion H; subst.
    destruct k as [|k]; [lia|]. cbn in Hy. clear IH H Hk.
    revert k y Hy E. induction tl as [|t tl IHt]; intros [|k] y Hy E; cbn in *; try discriminate.
    + inversion Hy; subst. destruct (dict_get name tl key) as [[? ?]|]; [discriminate|].
      destruct (String.eqb (name y) key) eqn:En; [discriminate|]. now apply String.eqb_neq.
    + destruct (dict_get name tl key) as [[? ?]|] eqn:E2; [discriminate|]. eapply IHt; eauto.
Qed.

(* ======================================================================= Part 1: the documented behaviour *)
Section Spec.
  Context {T : Type} {NT : Num T}.

  (* the degree modified by a conclusion's OWN hedges, the hedge nearest the term first *)
  Definition hedged (hs : list hedgex) (d : T) : T := fold_right hedgex_apply d hs.

  Definition var_enabled (outs : list (output_var T)) (c : conclusion) : bool :=
    match nth_error outs (c_var c) with Some v => ov_enabled v | None => false end.

  (* what conclusion c adds to output variable number i when it is given the (unsanitized) degree g *)
  Definition contribution_with (outs : list (output_var T)) (imp : option tnormx) (i : nat) (c : conclusion) (g : T)
    : list (activated T) :=
    match nth_error outs (c_var c) with
    | Some v =>
        if Nat.eqb (c_var c) i && ov_enabled v then
          match nth_error (ov_terms v) (c_term c) with
          | Some t => [ {| a_term := t; a_degree := sanitize g; a_implication := imp |} ]
          | None => []
          end
        else []
    | None => []
    end.

  (* THE PROPERTY: each conclusion contributes its term, the implication and sanitize(own hedges(d)), independently *)
  Definition contribution outs (d : T) imp i c := contribution_with outs imp i c (hedged (c_hedges c) d).
  Definition contributions outs (d : T) imp i cs := flat_map (contribution outs d imp i) cs.

  (* conclusions refer to existing variables and terms (what Consequent.load produces: load_wf) *)
  Definition wf_conclusion (outs : list (output_var T)) (c : conclusion) : Prop :=
    exists v, nth_error outs (c_var c) = Some v /\ c_term c < length (ov_terms v).
  Definition wf outs cs := Forall (wf_conclusion outs) cs.

  (* outs' is outs with `extra i` appended to the fuzzy list of variable i, nothing else changed *)
  Definition extended (outs outs' : list (output_var T)) (extra : nat -> list (activated T)) : Prop :=
    length outs' = length outs /\
    forall i v, nth_error outs i = Some v -> nth_error outs' i = Some (extend_fuzzy v (extra i)).

  Definition modify_fn := T -> option tnormx -> list conclusion -> list (output_var T) -> result (list (output_var T)).

  Definition modify_spec_for (m : modify_fn) : Prop :=
    forall d imp cs outs, cs <> [] -> wf outs cs ->
      exists outs', m d imp cs outs = Ok outs' /\ extended outs outs' (fun i => contributions outs d imp i cs).

  (* independence: reordering the conclusions permutes what each variable receives and does not change what each
     conclusion contributes *)
  Definition independent_for (m : modify_fn) : Prop :=
    forall d imp cs cs' outs, cs <> [] -> wf outs cs -> Permutation cs cs' ->
      exists o1 o2, m d imp cs outs = Ok o1 /\ m d imp cs' outs = Ok o2 /\
        forall i v, nth_error outs i = Some v ->
          nth_error o1 i = Some (extend_fuzzy v (flat_map (contribution outs d imp i) cs)) /\
          nth_error o2 i = Some (extend_fuzzy v (flat_map (contribution outs d imp i) cs')) /\
          Permutation (flat_map (contribution outs d imp i) cs) (flat_map (contribution outs d imp i) cs').
  (* the weakest reading of independence: the same multiset per variable *)
  Definition order_insensitive_for (m : modify_fn) : Prop :=
    forall d imp cs cs' outs o1 o2, cs <> [] -> wf outs cs ->
      Permutation cs cs' -> m d imp cs outs = Ok o1 -> m d imp cs' outs = Ok o2 ->
      forall i v v1 v2, nth_error outs i = Some v -> nth_error o1 i = Some v1 -> nth_error o2 i = Some v2 ->
        exists l1 l2, ov_fuzzy v1 = ov_fuzzy v ++ l1 /\ ov_fuzzy v2 = ov_fuzzy v ++ l2 /\ Permutation l1 l2.

  (* ---- what the loop as written does: the degree met by a conclusion has been hedged by every ENABLED conclusion
     before it (and by itself) *)
  Definition carried (outs : list (output_var T)) (d : T) (prefix : list conclusion) : T :=
    fold_left (fun acc c => if var_enabled outs c then hedged (c_hedges c) acc else acc) prefix d.
  Fixpoint running_from outs (d : T) imp i (pre cs : list conclusion) : list (activated T) :=
    match cs with
    | [] => []
    | c :: rest => contribution_with outs imp i c (carried outs d (pre ++ [c])) ++ running_from outs d imp i (pre ++ [c]) rest
    end.
  Definition running_contributions outs d imp i cs := running_from outs d imp i [] cs.

  (* no hedged enabled conclusion is followed by an enabled conclusion *)
  Fixpoint leak_free (outs : list (output_var T)) (cs : list conclusion) : Prop :=
    match cs with
    | [] => True
    | c :: rest =>
        (var_enabled outs c = true -> c_hedges c <> [] -> Forall (fun c' => var_enabled outs c' = false) rest)
        /\ leak_free outs rest
    end.

  (* ===================================================================== Part 2: generic lemmas *)
  (* the degree each conclusion is given by the loop *)
  Fixpoint used_degrees (carry : bool) outs (d : T) (cs : list conclusion) : list T :=
    match cs with
    | [] => []
    | c :: rest =>
        if var_enabled outs c
        then let d' := hedged (c_hedges c) d in d' :: used_degrees carry outs (if carry then d' else d) rest
        else d :: used_degrees carry outs d rest
    end.
  Fixpoint contributions_with outs imp i (cs : list conclusion) (gs : list T) : list (activated T) :=
    match cs, gs with
    | c :: cs', g :: gs' => contribution_with outs imp i c g ++ contributions_with outs imp i cs' gs'
    | _, _ => []
    end.

  Lemma apply_hedges_hedged hs d : apply_hedges hs d = hedged hs d.
  Proof. unfold apply_hedges, hedged. rewrite <- fold_left_rev_right, rev_involutive. reflexivity. Qed.

  Lemma extend_fuzzy_nil (v : output_var T) : extend_fuzzy v [] = v.
  Proof. destruct v; unfold extend_fuzzy, with_fuzzy; cbn. now rewrite app_nil_r. Qed.
  Lemma append_extend (v : output_var T) l a : append_fuzzy (extend_fuzzy v l) a = extend_fuzzy v (l ++ [a]).
  Proof. unfold append_fuzzy, extend_fuzzy, with_fuzzy; cbn. now rewrite app_assoc. Qed.
  Lemma extend_extend (v : output_var T) l l' : extend_fuzzy (extend_fuzzy v l) l' = extend_fuzzy v (l ++ l').
  Proof. unfold extend_fuzzy, with_fuzzy; cbn. now rewrite app_assoc. Qed.

  Lemma extended_ext outs outs' e1 e2 : (forall i, e1 i = e2 i) -> extended outs outs' e1 -> extended outs outs' e2.
  Proof. intros He [Hl H]; split; [exact Hl|]. intros i v Hv. rewrite <- He. now apply H. Qed.
  Lemma extended_refl outs : extended outs outs (fun _ => []).
  Proof. split; [reflexivity|]. intros i v Hv. now rewrite extend_fuzzy_nil. Qed.

  Lemma contribution_with_disabled outs imp i c g : var_enabled outs c = false -> contribution_with outs imp i c g = [].
  Proof.
    unfold var_enabled, contribution_with. destruct (nth_error outs (c_var c)); [|reflexivity].
    intros ->. now rewrite andb_false_r.
  Qed.
  Lemma contributions_with_disabled outs imp i cs : forall gs,
    Forall (fun c => var_enabled outs c = false) cs -> contributions_with outs imp i cs gs = [].
  Proof.
    induction cs as [|c rest IH]; intros [|g gs] H; cbn; auto.
    inversion H; subst. rewrite contribution_with_disabled by assumption. now apply IH.
  Qed.

  (* the loop, started on variables that already received `acc`, appends what `used_degrees` says *)
  Lemma modify_loop_extended carry imp outs0 : forall cs d outs acc,
    wf outs0 cs -> extended outs0 outs acc ->
    exists outs', modify_loop carry d imp cs outs = Ok outs' /\
      extended outs0 outs' (fun i => acc i ++ contributions_with outs0 imp i cs (used_degrees carry outs0 d cs)).
  Proof.
    induction cs as [|c rest IH]; intros d outs acc Hwf Hext.
    - exists outs. split; [reflexivity|]. eapply extended_ext; [|exact Hext]. intros i; cbn. now rewrite app_nil_r.
    - inversion Hwf as [|? ? [v0 [Hv0 Ht]] Hwf']; subst.
      destruct Hext as [Hlen Hnth]. pose proof (Hnth _ _ Hv0) as Hcur.
      cbn [modify_loop]. rewrite Hcur.
      assert (Htruthy : var_truthy (extend_fuzzy v0 (acc (c_var c))) = true).
      { unfold var_truthy, extend_fuzzy, with_fuzzy; cbn. destruct (ov_terms v0); [cbn in Ht; lia | reflexivity]. }
      rewrite Htruthy. cbn [negb].
      change (ov_enabled (extend_fuzzy v0 (acc (c_var c)))) with (ov_enabled v0).
      change (ov_terms (extend_fuzzy v0 (acc (c_var c)))) with (ov_terms v0).
      assert (Hen : var_enabled outs0 c = ov_enabled v0) by (unfold var_enabled; now rewrite Hv0).
      cbn [used_degrees contributions_with]. rewrite Hen.
      destruct (ov_enabled v0) eqn:Een.
      + destruct (nth_error (ov_terms v0) (c_term c)) as [t|] eqn:Et; [|apply nth_error_None in Et; lia].
        rewrite apply_hedges_hedged.
        set (g := hedged (c_hedges c) d).
        set (a := mk_activated t g imp).
        destruct (IH (if carry then g else d)
                     (update_nth (c_var c) (fun w => append_fuzzy w a) outs)
                     (fun i => acc i ++ (if Nat.eqb (c_var c) i then [a] else []))
                     Hwf') as [outs' [Hrun Hres]].
        { split; [now rewrite length_update_nth|].
          intros i v Hv. rewrite nth_error_update_nth, (Hnth _ _ Hv).
          rewrite (Nat.eqb_sym (c_var c) i).
          destruct (Nat.eqb i (c_var c)); cbn; [now rewrite append_extend | now rewrite app_nil_r]. }
        exists outs'. split; [exact Hrun|].
        eapply extended_ext; [|exact Hres]. intros i; cbn beta.
        rewrite <- app_assoc. f_equal. f_equal.
        unfold contribution_with. rewrite Hv0, Een, Et, andb_true_r.
        destruct (Nat.eqb (c_var c) i); reflexivity.
      + destruct (IH d outs acc Hwf' (conj Hlen Hnth)) as [outs' [Hrun Hres]].
        exists outs'. split; [exact Hrun|].
        eapply extended_ext; [|exact Hres]. intros i; cbn beta.
        rewrite contribution_with_disabled; [reflexivity | now rewrite Hen].
  Qed.

  Theorem modify_gen_extended carry d imp cs outs : cs <> [] -> wf outs cs ->
    exists outs', modify_gen carry d imp cs outs = Ok outs' /\
      extended outs outs' (fun i => contributions_with outs imp i cs (used_degrees carry outs d cs)).
  Proof.
    intros Hne Hwf. unfold modify_gen. destruct cs as [|c rest]; [congruence|]. cbn [is_nil].
    destruct (@modify_loop_extended carry imp outs (c :: rest) d outs (fun _ => []) Hwf (extended_refl outs)) as [outs' [H1 H2]].
    exists outs'. split; [exact H1|]. eapply extended_ext; [|exact H2]. reflexivity.
  Qed.

  (* ---- the repaired loop gives every conclusion its own degree *)
  Lemma fixed_degrees outs d imp i : forall cs,
    contributions_with outs imp i cs (used_degrees false outs d cs) = contributions outs d imp i cs.
  Proof.
    induction cs as [|c rest IH]; [reflexivity|]. cbn [used_degrees contributions_with].
    unfold contributions; cbn [flat_map]. fold (contributions outs d imp i rest). rewrite <- IH.
    destruct (var_enabled outs c) eqn:E; cbn [contributions_with]; f_equal.
    unfold contribution. now rewrite !contribution_with_disabled.
  Qed.

  Theorem modify_fixed_spec : modify_spec_for (modify_gen false).
  Proof.
    intros d imp cs outs Hne Hwf. destruct (modify_gen_extended false d imp Hne Hwf) as [outs' [H1 H2]].
    exists outs'. split; [exact H1|]. refine (@extended_ext _ _ _ _ _ H2); intros i; cbn beta. apply fixed_degrees.
  Qed.

  (* ---- the loop as written: the running degree *)
  Lemma running_degrees outs d imp i : forall cs pre,
    contributions_with outs imp i cs (used_degrees true outs (carried outs d pre) cs) = running_from outs d imp i pre cs.
  Proof.
    induction cs as [|c rest IH]; intros pre; [reflexivity|]. cbn [used_degrees contributions_with running_from].
    assert (Hc : carried outs d (pre ++ [c]) =
                 if var_enabled outs c then hedged (c_hedges c) (carried outs d pre) else carried outs d pre).
    { unfold carried. now rewrite fold_left_app. }
    destruct (var_enabled outs c) eqn:E; cbn [contributions_with]; rewrite Hc; f_equal.
    - rewrite <- IH, Hc. reflexivity.
    - rewrite <- IH, Hc. reflexivity.
  Qed.

  Theorem modify_running_spec d imp cs outs : cs <> [] -> wf outs cs ->
    exists outs', modify_gen true d imp cs outs = Ok outs' /\
      extended outs outs' (fun i => running_contributions outs d imp i cs).
  Proof.
    intros Hne Hwf. destruct (modify_gen_extended true d imp Hne Hwf) as [outs' [H1 H2]].
    exists outs'. split; [exact H1|]. refine (@extended_ext _ _ _ _ _ H2); intros i; cbn beta.
    unfold running_contributions. rewrite <- running_degrees. reflexivity.
  Qed.

  (* ---- when no hedged enabled conclusion is followed by an enabled one, the two loops agree *)
  Lemma leak_free_degrees outs imp i : forall cs d, leak_free outs cs ->
    contributions_with outs imp i cs (used_degrees true outs d cs) =
    contributions_with outs imp i cs (used_degrees false outs d cs).
  Proof.
    induction cs as [|c rest IH]; intros d Hlf; [reflexivity|]. destruct Hlf as [Hc Hrest].
    cbn [used_degrees]. destruct (var_enabled outs c) eqn:E; cbn [contributions_with]; f_equal; [|now apply IH].
    destruct (c_hedges c) as [|h hs] eqn:Eh.
    - cbn. now apply IH.
    - rewrite !contributions_with_disabled; auto; apply Hc; auto; discriminate.
  Qed.

  Theorem modify_spec_when_unhedged d imp cs outs : cs <> [] -> wf outs cs -> leak_free outs cs ->
    exists outs', modify_gen true d imp cs outs = Ok outs' /\ extended outs outs' (fun i => contributions outs d imp i cs).
  Proof.
    intros Hne Hwf Hlf. destruct (modify_gen_extended true d imp Hne Hwf) as [outs' [H1 H2]].
    exists outs'. split; [exact H1|]. refine (@extended_ext _ _ _ _ _ H2); intros i; cbn beta.
    rewrite leak_free_degrees by assumption. apply fixed_degrees.
  Qed.

  Lemma unhedged_leak_free outs : forall cs, Forall (fun c => c_hedges c = []) cs -> leak_free outs cs.
  Proof. induction 1 as [|c rest Hc _ IH]; cbn; [exact I|]. split; [congruence | exact IH]. Qed.

  Corollary modify_spec_no_hedges d imp cs outs : cs <> [] -> wf outs cs -> Forall (fun c => c_hedges c = []) cs ->
    exists outs', modify_gen true d imp cs outs = Ok outs' /\ extended outs outs' (fun i => contributions outs d imp i cs).
  Proof. intros. apply modify_spec_when_unhedged; auto using unhedged_leak_free. Qed.

  (* ---- independence of the conclusions (repaired loop) *)
  Lemma wf_perm outs cs cs' : Permutation cs cs' -> wf outs cs -> wf outs cs'.
  Proof. intros P H. unfold wf in *. rewrite Forall_forall in *. intros c Hc. apply H. eapply Permutation_in; [symmetry|]; eauto. Qed.

  Theorem spec_implies_independent m : modify_spec_for m -> independent_for m.
  Proof.
    intros Hs d imp cs cs' outs Hne Hwf P.
    assert (Hne' : cs' <> []) by (intros ->; apply Permutation_sym, Permutation_nil in P; congruence).
    destruct (Hs d imp cs outs Hne Hwf) as [o1 [H1 [_ E1]]].
    destruct (Hs d imp cs' outs Hne' (wf_perm P Hwf)) as [o2 [H2 [_ E2]]].
    exists o1, o2. repeat split; auto.
    - now apply E1.
    - now apply E2.
    - now apply Permutation_flat_map.
  Qed.

  Theorem conclusions_independent_fixed : independent_for (modify_gen false).
  Proof. apply spec_implies_independent, modify_fixed_spec. Qed.

  Theorem independent_implies_order_insensitive m : independent_for m -> order_insensitive_for m.
  Proof.
    intros Hi d imp cs cs' outs o1 o2 Hne Hwf P H1 H2 i v v1 v2 Hv Hv1 Hv2.
    destruct (Hi d imp cs cs' outs Hne Hwf P) as [p1 [p2 [E1 [E2 Hall]]]].
    assert (p1 = o1) by congruence. assert (p2 = o2) by congruence. subst p1 p2.
    destruct (Hall i v Hv) as [A [B C]]. rewrite A in Hv1. rewrite B in Hv2.
    inversion Hv1; inversion Hv2; subst.
    eexists _, _. split; [reflexivity|]. split; [reflexivity | exact C].
  Qed.

  (* the loop as written: independence holds between two orders that are both leak-free *)
  Theorem independent_when_unhedged d imp cs cs' outs :
    cs <> [] -> wf outs cs -> Permutation cs cs' -> leak_free outs cs -> leak_free outs cs' ->
    exists o1 o2, modify_gen true d imp cs outs = Ok o1 /\ modify_gen true d imp cs' outs = Ok o2 /\
      forall i v, nth_error outs i = Some v ->
        nth_error o1 i = Some (extend_fuzzy v (flat_map (contribution outs d imp i) cs)) /\
        nth_error o2 i = Some (extend_fuzzy v (flat_map (contribution outs d imp i) cs')) /\
        Permutation (flat_map (contribution outs d imp i) cs) (flat_map (contribution outs d imp i) cs').
  Proof.
    intros Hne Hwf P L1 L2.
    assert (Hne' : cs' <> []) by (intros ->; apply Permutation_sym, Permutation_nil in P; congruence).
    destruct (modify_spec_when_unhedged d imp Hne Hwf L1) as [o1 [H1 [_ E1]]].
    destruct (modify_spec_when_unhedged d imp Hne' (wf_perm P Hwf) L2) as [o2 [H2 [_ E2]]].
    exists o1, o2. repeat split; auto.
    - now apply E1.
    - now apply E2.
    - now apply Permutation_flat_map.
  Qed.

  (* ---- facts that hold for both loops *)
  Lemma contributions_with_disabled_var outs imp i v : nth_error outs i = Some v -> ov_enabled v = false ->
    forall cs gs, contributions_with outs imp i cs gs = [].
  Proof.
    intros Hv Hd. induction cs as [|c rest IH]; intros [|g gs]; cbn; auto. rewrite IH, app_nil_r.
    unfold contribution_with. destruct (nth_error outs (c_var c)) as [w|] eqn:Ew; [|reflexivity].
    destruct (Nat.eqb (c_var c) i) eqn:E; [|reflexivity]. apply Nat.eqb_eq in E. rewrite E in Ew.
    assert (w = v) by congruence. subst w. now rewrite Hd.
  Qed.

  Theorem disabled_variable_gets_nothing_gen carry d imp cs outs outs' i v :
    cs <> [] -> wf outs cs -> modify_gen carry d imp cs outs = Ok outs' ->
    nth_error outs i = Some v -> ov_enabled v = false -> nth_error outs' i = Some v.
  Proof.
    intros Hne Hwf Hm Hv Hd. destruct (modify_gen_extended carry d imp Hne Hwf) as [o [H1 [_ H2]]].
    assert (o = outs') by congruence. subst o. rewrite (H2 _ _ Hv).
    rewrite (@contributions_with_disabled_var outs imp i v Hv Hd). now rewrite extend_fuzzy_nil.
  Qed.

  Lemma used_degrees_length carry outs : forall cs d, length (used_degrees carry outs d cs) = length cs.
  Proof. induction cs as [|c rest IH]; intros d; cbn; [reflexivity|]. destruct (var_enabled outs c); cbn; now rewrite IH. Qed.

  Lemma contributions_with_length outs imp i v : nth_error outs i = Some v ->
    forall cs gs, wf outs cs -> length gs = length cs ->
    length (contributions_with outs imp i cs gs) =
      if ov_enabled v then length (filter (fun c => Nat.eqb (c_var c) i) cs) else 0.
  Proof.
    intros Hv. induction cs as [|c rest IH]; intros [|g gs] Hwf Hl; cbn in Hl; try discriminate.
    - cbn. now destruct (ov_enabled v).
    - inversion Hwf as [|? ? [w [Hw Ht]] Hwf']; subst. cbn [contributions_with filter].
      rewrite app_length, IH by (auto; lia).
      unfold contribution_with. rewrite Hw.
      destruct (Nat.eqb (c_var c) i) eqn:E.
      + apply Nat.eqb_eq in E. rewrite E in Hw. assert (w = v) by congruence. subst w.
        destruct (ov_enabled v); cbn; [|reflexivity].
        destruct (nth_error (ov_terms v) (c_term c)) eqn:Et; [reflexivity | apply nth_error_None in Et; lia].
      + reflexivity.
  Qed.

  Theorem one_activated_per_enabled_conclusion_gen carry d imp cs outs outs' i v v' :
    cs <> [] -> wf outs cs -> modify_gen carry d imp cs outs = Ok outs' ->
    nth_error outs i = Some v -> nth_error outs' i = Some v' ->
    length (ov_fuzzy v') = length (ov_fuzzy v) +
      (if ov_enabled v then length (filter (fun c => Nat.eqb (c_var c) i) cs) else 0).
  Proof.
    intros Hne Hwf Hm Hv Hv'. destruct (modify_gen_extended carry d imp Hne Hwf) as [o [H1 [_ H2]]].
    assert (o = outs') by congruence. subst o. rewrite (H2 _ _ Hv) in Hv'. inversion Hv'; subst v'.
    unfold extend_fuzzy, with_fuzzy; cbn [ov_fuzzy]. rewrite app_length. f_equal.
    apply contributions_with_length; auto. apply used_degrees_length.
  Qed.

  (* every activation added carries the block's implication operator and a term of its variable *)
  Lemma contributions_with_in outs imp i : forall cs gs a, In a (contributions_with outs imp i cs gs) ->
    a_implication a = imp /\ exists v, nth_error outs i = Some v /\ In (a_term a) (ov_terms v).
  Proof.
    induction cs as [|c rest IH]; intros [|g gs] a Ha; cbn in Ha; try contradiction.
    apply in_app_or in Ha. destruct Ha as [Ha|Ha]; [|eauto].
    unfold contribution_with in Ha. destruct (nth_error outs (c_var c)) as [w|] eqn:Ew; [|contradiction].
    destruct (Nat.eqb (c_var c) i) eqn:E; [|contradiction]. apply Nat.eqb_eq in E.
    destruct (ov_enabled w); cbn in Ha; [|contradiction].
    destruct (nth_error (ov_terms w) (c_term c)) eqn:Et; [|contradiction].
    destruct Ha as [<-|[]]. cbn. split; [reflexivity|]. exists w. split; [congruence|]. eapply nth_error_In; eauto.
  Qed.

  Theorem added_terms_gen carry d imp cs outs outs' i v v' :
    cs <> [] -> wf outs cs -> modify_gen carry d imp cs outs = Ok outs' ->
    nth_error outs i = Some v -> nth_error outs' i = Some v' ->
    exists l, v' = extend_fuzzy v l /\
      Forall (fun a => a_implication a = imp /\ In (a_term a) (ov_terms v)) l.
  Proof.
    intros Hne Hwf Hm Hv Hv'. destruct (modify_gen_extended carry d imp Hne Hwf) as [o [H1 [_ H2]]].
    assert (o = outs') by congruence. subst o. rewrite (H2 _ _ Hv) in Hv'. inversion Hv'; subst v'.
    eexists. split; [reflexivity|]. apply Forall_forall. intros a Ha.
    apply contributions_with_in in Ha. destruct Ha as [A [w [Hw Hin]]]. split; [exact A|]. congruence.
  Qed.

  (* ---- Rule.trigger *)
  Theorem not_loaded_rule_raises (m : modify_fn) r imp outs : rule_loaded r = false -> trigger_with m r imp outs = Err ERuntime.
  Proof. unfold trigger_with. now intros ->. Qed.

  Theorem disabled_rule_adds_nothing_gen (m : modify_fn) r imp outs : rule_loaded r = true -> r_enabled r = false ->
    trigger_with m r imp outs = Ok (set_triggered r false, outs).
  Proof. unfold trigger_with. now intros -> ->. Qed.

  Theorem enabled_rule_triggers (m : modify_fn) r imp outs outs' : rule_loaded r = true -> r_enabled r = true ->
    m (r_degree r) imp (r_consequent r) outs = Ok outs' ->
    trigger_with m r imp outs = Ok (set_triggered r (gtb (r_degree r) zero), outs').
  Proof. unfold trigger_with. now intros -> -> ->. Qed.

  Lemma rule_loaded_consequent (r : rule T) : rule_loaded r = true -> r_consequent r <> [].
  Proof. unfold rule_loaded. destruct (r_antecedent r), (r_consequent r); congruence. Qed.

  (* ---- the Activated.degree setter *)
  Theorem sanitize_nan (d : T) : isnan d = true -> sanitize d = zero.
  Proof. unfold sanitize. now intros ->. Qed.
  Theorem sanitize_posinf (d : T) : isnan d = false -> isposinf d = true -> sanitize d = one.
  Proof. unfold sanitize. now intros -> ->. Qed.
  Theorem sanitize_neginf (d : T) : isnan d = false -> isposinf d = false -> isneginf d = true -> sanitize d = zero.
  Proof. unfold sanitize. now intros -> -> ->. Qed.
  Theorem sanitize_finite (d : T) : isnan d = false -> isposinf d = false -> isneginf d = false -> sanitize d = d.
  Proof. unfold sanitize. now intros -> -> ->. Qed.

  (* ===================================================================== load *)
  Definition load_inv (e : engine T) (st : lstate) : Prop :=
    Forall (wf_conclusion (e_outputs e)) (ls_done st) /\
    match ls_cur st with Some (i, v, _) => nth_error (e_outputs e) i = Some v | None => True end /\
    (ls_state st = s_variable \/ ls_state st = s_is \/ ls_state st = N.lor s_hedge s_term \/
     (ls_state st = N.lor s_and s_with /\ ls_done st <> [])).

  Lemma load_step_inv e st token st' : load_inv e st -> load_step e st token = Ok st' -> load_inv e st'.
  Proof.
    intros [Hdone [Hcur Hstate]] Hstep. unfold load_step in Hstep.
    destruct (try_variable e st token) as [r|] eqn:E1.
    { cbn in Hstep. subst r. unfold try_variable in E1.
      destruct (has (ls_state st) s_variable); [|discriminate].
      destruct (dict_get (@ov_name T) (e_outputs e) token) as [[i v]|] eqn:Eg; [|discriminate].
      destruct (var_truthy v); [|discriminate]. inversion E1; subst st'. cbn.
      apply dict_get_nth in Eg. repeat split; auto; tauto. }
    destruct (try_is st token) as [r|] eqn:E2.
    { cbn in Hstep. subst r. unfold try_is in E2.
      destruct (has (ls_state st) s_is && String.eqb "is" token); [|discriminate].
      inversion E2; subst st'. cbn. repeat split; auto. }
    destruct (try_hedge st token) as [r|] eqn:E3.
    { cbn in Hstep. subst r. unfold try_hedge in E3.
      destruct (has (ls_state st) s_hedge); [|discriminate].
      destruct (hedge_lookup token); [|discriminate].
      destruct (ls_cur st) as [[[i v] hs]|]; [|discriminate].
      inversion E3; subst st'. cbn. repeat split; auto. }
    destruct (try_term st token) as [r|] eqn:E4.
    { cbn in Hstep. subst r. unfold try_term in E4.
      destruct (has (ls_state st) s_term); [|discriminate].
      destruct (ls_cur st) as [[[i v] hs]|]; [|discriminate].
      destruct (dict_get (@term_name T) (ov_terms v) token) as [[j t]|] eqn:Eg; [|discriminate].
      inversion E4; subst st'. cbn. apply dict_get_nth in Eg. destruct Eg as [Eg _].
      repeat split; auto.
      - constructor; [|exact Hdone]. exists v. cbn. split; [exact Hcur|]. apply nth_error_Some. congruence.
      - right; right; right. split; [reflexivity | discriminate]. }
    destruct (try_and st token) as [r|] eqn:E5.
    { cbn in Hstep. subst r. unfold try_and in E5.
      destruct (has (ls_state st) s_and && String.eqb "and" token); [|discriminate].
      inversion E5; subst st'. cbn. repeat split; auto. }
    cbn in Hstep. unfold token_error in Hstep.
    repeat match type of Hstep with (if ?b then _ else _) = _ => destruct b end; discriminate.
  Qed.

  Lemma load_run_inv e : forall tokens st st', load_inv e st -> load_run e st tokens = Ok st' -> load_inv e st'.
  Proof.
    induction tokens as [|t rest IH]; intros st st' Hi Hr; cbn in Hr.
    - now inversion Hr; subst.
    - destruct (load_step e st t) as [st1|] eqn:E; [|discriminate]. cbn in Hr. eapply IH; [|exact Hr]. eapply load_step_inv; eauto.
  Qed.

  Lemma load_init_inv e : load_inv e load_init.
  Proof. unfold load_inv, load_init; cbn. repeat split; auto. Qed.

  (* a successful load yields at least one conclusion, each referring to an output variable of the engine and one
     of that variable's terms *)
  Theorem load_wf e tokens cs : load e tokens = Ok cs -> cs <> [] /\ wf (e_outputs e) cs.
  Proof.
    unfold load. destruct tokens as [|t rest]; [discriminate|].
    destruct (load_run e load_init (t :: rest)) as [st|] eqn:E; [|discriminate]. cbn [bind].
    pose proof (load_run_inv _ (load_init_inv e) E) as [Hdone [_ Hstate]].
    unfold load_final. intros H.
    destruct Hstate as [Hs|[Hs|[Hs|[Hs Hne]]]]; rewrite Hs in H; cbn in H; try discriminate.
    inversion H; subst cs. split.
    - intros Hr. apply (f_equal (@rev _)) in Hr. rewrite rev_involutive in Hr. cbn in Hr. congruence.
    - unfold wf. now apply Forall_rev.
  Qed.

  Theorem load_empty (e : engine T) : load e [] = Err ESyntax.
  Proof. reflexivity. Qed.

  (* loading an already loaded consequent replaces its conclusions: the outcome does not depend on what was there,
     loading twice equals loading once, and unload-then-load equals load *)
  Theorem reload_replaces (e : engine T) tokens previous previous' :
    consequent_reload e tokens previous = consequent_reload e tokens previous'.
  Proof. reflexivity. Qed.
  Theorem reload_twice (e : engine T) tokens previous :
    consequent_reload e tokens (fst (consequent_reload e tokens previous)) = consequent_reload e tokens previous.
  Proof. reflexivity. Qed.
  Theorem reload_ok (e : engine T) tokens previous cs :
    load e tokens = Ok cs -> consequent_reload e tokens previous = (cs, None).
  Proof. unfold consequent_reload. now intros ->. Qed.
  Theorem reload_failed (e : engine T) tokens previous x :
    load e tokens = Err x -> consequent_reload e tokens previous = ([], Some x).
  Proof. unfold consequent_reload. now intros ->. Qed.
End Spec.

(* ======================================================================= the witness of finding F1 *)
Section Witness.
  Context {T : Type} {NT : Num T}.
  Local Open Scope string_scope.
  Local Open Scope list_scope.

  Definition mk_out (name : string) (enabled : bool) (terms : list (term T)) : output_var T :=
    {| ov_name := name; ov_enabled := enabled; ov_min := zero; ov_max := one; ov_lock_range := false;
       ov_lock_previous := false; ov_default := nan; ov_aggregation := None; ov_defuzzifier := None;
       ov_terms := terms; ov_value := nan; ov_previous := nan; ov_fuzzy := [] |}.
  Definition w_p : term T := TLinear "p" [].
  Definition w_q : term T := TLinear "q" [].
  Definition w_x := mk_out "x" true [w_p].
  Definition w_y := mk_out "y" true [w_q].
  Definition w_outs := [w_x; w_y].
  Definition w_engine : engine T := {| e_name := "w"; e_inputs := []; e_outputs := w_outs; e_blocks := [] |}.
  (* then x is very p and y is q *)
  Definition w_tokens := ["x"; "is"; "very"; "p"; "and"; "y"; "is"; "q"].
  Definition w_c1 := {| c_var := 0; c_hedges := [HG H_Very]; c_term := 0 |}.
  Definition w_c2 := {| c_var := 1; c_hedges := []; c_term := 0 |}.
  Definition w_cs := [w_c1; w_c2].
  Definition w_d : T := lit 1 (-1).                       (* 1/2 *)
  Definition w_very : T := hedgex_apply (HG H_Very) w_d.   (* very(1/2) *)

  Lemma w_load : load w_engine w_tokens = Ok w_cs.
  Proof. reflexivity. Qed.
  Lemma w_load_swapped : load w_engine ["y"; "is"; "q"; "and"; "x"; "is"; "very"; "p"] = Ok [w_c2; w_c1].
  Proof. reflexivity. Qed.
  Lemma w_wf : wf w_outs w_cs.
  Proof. repeat constructor; eexists; (split; [reflexivity | cbn; lia]). Qed.

  (* the loop as written gives y the degree hedged by x's `very` *)
  Lemma w_as_written imp : modify_gen true w_d imp w_cs w_outs =
    Ok [extend_fuzzy w_x [mk_activated w_p w_very imp]; extend_fuzzy w_y [mk_activated w_q w_very imp]].
  Proof. reflexivity. Qed.
  Lemma w_as_written_swapped imp : modify_gen true w_d imp [w_c2; w_c1] w_outs =
    Ok [extend_fuzzy w_x [mk_activated w_p w_very imp]; extend_fuzzy w_y [mk_activated w_q w_d imp]].
  Proof. reflexivity. Qed.
  Lemma w_fixed imp : modify_gen false w_d imp w_cs w_outs =
    Ok [extend_fuzzy w_x [mk_activated w_p w_very imp]; extend_fuzzy w_y [mk_activated w_q w_d imp]].
  Proof. reflexivity. Qed.
  Lemma w_spec_y imp : contributions w_outs w_d imp 1 w_cs = [mk_activated w_q w_d imp].
  Proof. reflexivity. Qed.

  (* whenever `very` moves 1/2 (as seen through the degree setter), the documented statement fails for the loop as written *)
  Lemma refute_spec_if : sanitize w_very <> sanitize w_d -> ~ modify_spec_for (modify_gen true).
  Proof.
    intros Hneq Hs. destruct (Hs w_d None w_cs w_outs) as [o [Hm [_ Hx]]]; [discriminate | exact w_wf |].
    rewrite w_as_written in Hm. inversion Hm; subst o. specialize (Hx 1 w_y eq_refl).
    rewrite w_spec_y in Hx. cbn [nth_error] in Hx.
    apply (f_equal (fun o => match o with Some v => map (@a_degree T) (ov_fuzzy v) | None => [] end)) in Hx.
    cbn in Hx. inversion Hx. contradiction.
  Qed.

  Lemma refute_order_if : sanitize w_very <> sanitize w_d -> ~ order_insensitive_for (modify_gen true).
  Proof.
    intros Hneq Ho.
    destruct (Ho w_d None w_cs [w_c2; w_c1] w_outs _ _ ltac:(discriminate) w_wf (perm_swap _ _ _)
                 (w_as_written None) (w_as_written_swapped None) 1 w_y _ _ eq_refl eq_refl eq_refl)
      as [l1 [l2 [E1 [E2 P]]]].
    cbn in E1, E2. subst l1 l2. apply Permutation_length_1 in P.
    apply (f_equal (@a_degree T)) in P. cbn in P. contradiction.
  Qed.

  Lemma refute_independent_if : sanitize w_very <> sanitize w_d -> ~ independent_for (modify_gen true).
  Proof. intros H Hi. apply (refute_order_if H). now apply independent_implies_order_insensitive. Qed.

  Lemma leak_free_example : leak_free w_outs [w_c2; w_c1] /\ ~ leak_free w_outs w_cs.
  Proof.
    split.
    - cbn. split; [intros _ H; exfalso; apply H; reflexivity | split; [intros _ _; constructor | exact I]].
    - intros [H _]. specialize (H eq_refl ltac:(discriminate)). inversion H as [|? ? Hd _]. discriminate Hd.
  Qed.
End Witness.

(* ======================================================================= Part 3: the reals *)
From Coq Require Import Reals Lra.
From VF Require Import NumR.
Section OverR.
  Local Open Scope R_scope.

  Lemma sanitize_R (d : R) : sanitize d = d.
  Proof. reflexivity. Qed.

  Lemma w_very_R : @w_very R NumR = 1 / 4.
  Proof. unfold w_very, w_d, hedgex_apply, hedge_apply, Very_hedge. unR. lra. Qed.
  Lemma w_d_R : @w_d R NumR = 1 / 2.
  Proof. unfold w_d. unR. lra. Qed.
  Lemma w_moves_R : sanitize (@w_very R NumR) <> sanitize (@w_d R NumR).
  Proof. rewrite !sanitize_R, w_very_R, w_d_R. lra. Qed.

  (* FINDING F1: `then x is very p and y is q` with degree 1/2 gives y the degree 1/4, the documented degree is 1/2 *)
  Theorem modify_spec_refuted : ~ @modify_spec_for R NumR (modify_gen true).
  Proof. exact (refute_spec_if w_moves_R). Qed.
  Theorem conclusions_order_refuted : ~ @order_insensitive_for R (modify_gen true).
  Proof. exact (refute_order_if w_moves_R). Qed.
  Theorem conclusions_independent_refuted : ~ @independent_for R NumR (modify_gen true).
  Proof. exact (refute_independent_if w_moves_R). Qed.

  (* the statement that holds of whichever loop is selected *)
  Theorem modify_spec_status (has_F1 : bool) :
    if has_F1 then ~ @modify_spec_for R NumR (modify_gen has_F1) else @modify_spec_for R NumR (modify_gen has_F1).
  Proof. destruct has_F1; [exact modify_spec_refuted | exact modify_fixed_spec]. Qed.
  Theorem independence_status (has_F1 : bool) :
    if has_F1 then ~ @independent_for R NumR (modify_gen has_F1) else @independent_for R NumR (modify_gen has_F1).
  Proof. destruct has_F1; [exact conclusions_independent_refuted | exact conclusions_independent_fixed]. Qed.

  (* the concrete numbers *)
  Lemma w_as_written_y_R imp o : modify_gen true (@w_d R NumR) imp w_cs w_outs = Ok o ->
    option_map (fun v => map (@a_degree R) (ov_fuzzy v)) (nth_error o 1) = Some [1 / 4].
  Proof. rewrite w_as_written. intros H; inversion H; subst o.
    cbn [nth_error option_map map ov_fuzzy extend_fuzzy with_fuzzy w_y mk_out app mk_activated a_degree].
    rewrite sanitize_R, w_very_R. reflexivity. Qed.
  Lemma w_fixed_y_R imp o : modify_gen false (@w_d R NumR) imp w_cs w_outs = Ok o ->
    option_map (fun v => map (@a_degree R) (ov_fuzzy v)) (nth_error o 1) = Some [1 / 2].
  Proof. rewrite w_fixed. intros H; inversion H; subst o.
    cbn [nth_error option_map map ov_fuzzy extend_fuzzy with_fuzzy w_y mk_out app mk_activated a_degree].
    rewrite sanitize_R. change (Rlit 1 (-1)) with (@w_d R NumR). rewrite w_d_R. reflexivity. Qed.
End OverR.

(* ======================================================================= Part 4: binary64 floats *)
From Coq Require Import PrimFloat FloatAxioms FloatOps SpecFloat.
From VF Require Import NumF.
Section OverF.
  Let NF := NumF true [].

  Lemma w_moves_F : @sanitize float NF (@w_very float NF) <> @sanitize float NF (@w_d float NF).
  Proof. intros H. apply (f_equal (fun x => PrimFloat.eqb x 0x1p-1%float)) in H. vm_compute in H. discriminate. Qed.

  Theorem modify_spec_refuted_F : ~ @modify_spec_for float NF (@modify_gen float NF true).
  Proof. exact (refute_spec_if w_moves_F). Qed.
  Theorem conclusions_order_refuted_F : ~ @order_insensitive_for float (@modify_gen float NF true).
  Proof. exact (refute_order_if w_moves_F). Qed.

  (* the degree setter on the special values: NaN -> 0, -inf -> 0, +inf -> 1; finite values unchanged *)
  Theorem sanitize_F_nan : @sanitize float NF PrimFloat.nan = 0%float.
  Proof. vm_compute. reflexivity. Qed.
  Theorem sanitize_F_neginf : @sanitize float NF PrimFloat.neg_infinity = 0%float.
  Proof. vm_compute. reflexivity. Qed.
  Theorem sanitize_F_posinf : @sanitize float NF PrimFloat.infinity = 1%float.
  Proof. vm_compute. reflexivity. Qed.
  Lemma not_inf (d : float) : PrimFloat.is_infinity d = false ->
    PrimFloat.eqb d infinity = false /\ PrimFloat.eqb d neg_infinity = false.
  Proof.
    unfold PrimFloat.is_infinity. rewrite !eqb_spec, abs_spec.
    change (Prim2SF infinity) with (S754_infinity false). change (Prim2SF neg_infinity) with (S754_infinity true).
    destruct (Prim2SF d) as [[|]| [|] | |[|] m e]; cbn; auto.
  Qed.
  Theorem sanitize_F_finite (d : float) : Fisfinite d = true -> @sanitize float NF d = d.
  Proof.
    unfold Fisfinite, sanitize; cbn. intros H. apply andb_true_iff in H. destruct H as [H1 H2].
    apply negb_true_iff in H1, H2. rewrite H1. destruct (@not_inf d H2) as [A B]. rewrite A, B. reflexivity.
  Qed.
End OverF.
