(* FormulaProofs.v — lemmas behind Properties/C17.v.
   1. the translated table is the documented one and satisfies the side conditions of the shunting-yard proof;
   2. postfix token lists <-> trees (Function.parse, second half) is a bijection, natural in the treatment of operands;
   3. completeness of Function.parse for the documented infix grammar (uses ShuntingYardProofs.sy_complete);
   4. ill-formed token lists are rejected with SyntaxError (parenthesis count, operand/arity count);
   5. Function.Node.evaluate = the mathematical denotation over R on the expressible part of the table — for the typing in
      which eq/neq/ge/le results are used like truth values; REFUTED for the documented typing (they are booleans in the
      implementation: finding F7), and min/max REFUTED on array operands. *)
From Coq Require Import ZArith Bool List String Ascii Lia Reals Lra.
From VF Require Import Num NumR GenOpTable Core ShuntingYard Grammar ShuntingYardProofs Formula FormulaSpec.
Import ListNotations.
Local Open Scope string_scope.
Local Open Scope list_scope.

(* ===================================================== 1. the table *)
Lemma table_is_documented : op_table = documented_table.
Proof. reflexivity. Qed.

Definition arities_le2 (tbl : table) : bool := forallb (fun e => Nat.leb (en_arity e) 2) tbl.

Lemma table_side_condition : table_okb op_table = true /\ arities_le2 op_table = true.
Proof. split; vm_compute; reflexivity. Qed.

Lemma lookup_arity_le2 tbl s e : arities_le2 tbl = true -> lookup tbl s = Some e -> (en_arity e <= 2)%nat.
Proof.
  intros H L. apply lookup_In in L as [Hin _]. unfold arities_le2 in H. rewrite forallb_forall in H.
  apply Nat.leb_le. exact (H _ Hin).
Qed.

(* ===================================================== 2. postfix <-> tree *)
Section Builder.
  Context {T : Type}.
  Variable tbl : table.
  Variable show : T -> string.

  Section Leaf.
    Variable leaf : string -> fnode T.

    Lemma build_run_app p q st :
      build_run tbl leaf (p ++ q) st = match build_run tbl leaf p st with Ok s => build_run tbl leaf q s | Err e => Err e end.
    Proof. revert st; induction p as [|t p IH]; intros st; cbn; [reflexivity|]. destruct (build_step tbl leaf t st); auto. Qed.

    (* the tokens p build the tree t (on top of any stack, before any continuation) *)
    Definition Rep (p : list string) (t : fnode T) : Prop :=
      forall rest st, build_run tbl leaf (p ++ rest) st = build_run tbl leaf rest (t :: st).

    Lemma Rep_operand s : operand tbl s -> Rep [s] (leaf s).
    Proof. intros [H1 H2] rest st. cbn. unfold build_step. now rewrite H1, H2. Qed.

    Lemma Rep_elem0 n e : lookup tbl n = Some e -> en_arity e = 0%nat -> Rep [n] (FElem0 n).
    Proof. intros H1 H2 rest st. cbn. unfold build_step. rewrite H1, H2. reflexivity. Qed.

    Lemma Rep_elem1 n e p x : lookup tbl n = Some e -> en_arity e = 1%nat -> Rep p x -> Rep (p ++ [n]) (FElem1 n x).
    Proof.
      intros H1 H2 Hx rest st. rewrite <- app_assoc, Hx. cbn. unfold build_step. rewrite H1, H2. reflexivity.
    Qed.

    Lemma Rep_elem2 n e p q l r : lookup tbl n = Some e -> en_arity e = 2%nat -> Rep p l -> Rep q r ->
      Rep (p ++ q ++ [n]) (FElem2 n l r).
    Proof.
      intros H1 H2 Hl Hr rest st. rewrite <- !app_assoc, Hl, Hr. cbn. unfold build_step. rewrite H1, H2. reflexivity.
    Qed.

    Lemma Rep_build p t : Rep p t -> build_gen tbl leaf p = Ok t.
    Proof. intros H. unfold build_gen. rewrite <- (app_nil_r p), H. reflexivity. Qed.
  End Leaf.

  (* ---- tree -> postfix -> tree *)
  Lemma wf_Rep t : wf tbl t -> Rep (fun s => FVar s) (postfix show t) t.
  Proof.
    induction t as [c|v|n|n x IH|n l IHl r IHr]; cbn [wf postfix].
    - intros [].
    - intros H. apply (Rep_operand (fun s => FVar s)), H.
    - intros (e & H1 & H2). eapply Rep_elem0; eauto.
    - intros [(e & H1 & H2) Hx]. eapply Rep_elem1; eauto.
    - intros [(e & H1 & H2) [Hl Hr]]. eapply Rep_elem2; eauto.
  Qed.

  Lemma build_postfix t : wf tbl t -> build_syn tbl (postfix show t) = Ok t.
  Proof. intros H. apply Rep_build, wf_Rep, H. Qed.

  (* ---- postfix -> tree -> postfix *)
  Definition flat (st : list (fnode T)) : list string := flat_map (postfix show) (rev st).

  Lemma flat_cons t st : flat (t :: st) = flat st ++ postfix show t.
  Proof. unfold flat. cbn. rewrite flat_map_app. cbn. now rewrite app_nil_r. Qed.

  Lemma build_step_flat tok st st' : is_paren_tok tok = false ->
    build_step tbl (fun s => FVar s) tok st = Ok st' -> flat st' = flat st ++ [tok].
  Proof.
    intros Hp. unfold build_step. destruct (lookup tbl tok) as [e|].
    - destruct (Nat.ltb (List.length st) (en_arity e)); [discriminate|].
      destruct (en_arity e) as [|[|[|k]]].
      + intros [= <-]. now rewrite flat_cons.
      + destruct st as [|r rest]; [discriminate|]. intros [= <-]. rewrite !flat_cons. cbn. now rewrite <- app_assoc.
      + destruct st as [|r [|l rest]]; try discriminate. intros [= <-]. rewrite !flat_cons. cbn. now rewrite <- !app_assoc.
      + destruct st as [|r rest]; [discriminate|]. intros [= <-]. rewrite !flat_cons. cbn. now rewrite <- app_assoc.
    - rewrite Hp. intros [= <-]. now rewrite flat_cons.
  Qed.

  Lemma build_run_flat p st st' : Forall (fun s => is_paren_tok s = false) p ->
    build_run tbl (fun s => FVar s) p st = Ok st' -> flat st' = flat st ++ p.
  Proof.
    revert st; induction p as [|t p IH]; intros st Hp; cbn.
    - intros [= <-]. now rewrite app_nil_r.
    - inversion Hp as [|? ? Ht Hp']; subst. destruct (build_step tbl (fun s => FVar s) t st) as [s|] eqn:E; [|discriminate].
      intros H. rewrite (IH _ Hp' H), (build_step_flat _ _ _ Ht E). now rewrite <- app_assoc.
  Qed.

  Lemma postfix_build p t : Forall (fun s => is_paren_tok s = false) p -> build_syn tbl p = Ok t -> postfix show t = p.
  Proof.
    intros Hp. unfold build_syn, build_gen. destruct (build_run tbl (fun s => FVar s) p []) as [[|t' [|]]|] eqn:E; try discriminate.
    intros [= <-]. pose proof (build_run_flat _ _ _ Hp E) as H. unfold flat in H. cbn in H. now rewrite app_nil_r in H.
  Qed.

  (* ---- the model's builder is the syntactic one followed by the interpretation of the operand names *)
  Fixpoint relabel (leaf : string -> fnode T) (t : fnode T) : fnode T :=
    match t with
    | FConst c => FConst c
    | FVar v => leaf v
    | FElem0 n => FElem0 n
    | FElem1 n x => FElem1 n (relabel leaf x)
    | FElem2 n l r => FElem2 n (relabel leaf l) (relabel leaf r)
    end.

  Lemma build_step_natural leaf tok st :
    build_step tbl leaf tok (map (relabel leaf) st) =
    match build_step tbl (fun s => FVar s) tok st with Ok s => Ok (map (relabel leaf) s) | Err e => Err e end.
  Proof.
    unfold build_step. rewrite map_length. destruct (lookup tbl tok) as [e|].
    - destruct (Nat.ltb (List.length st) (en_arity e)); [reflexivity|].
      destruct (en_arity e) as [|[|[|k]]]; destruct st as [|r [|l rest]]; reflexivity.
    - destruct (is_paren_tok tok); reflexivity.
  Qed.

  Lemma build_run_natural leaf p st :
    build_run tbl leaf p (map (relabel leaf) st) =
    match build_run tbl (fun s => FVar s) p st with Ok s => Ok (map (relabel leaf) s) | Err e => Err e end.
  Proof.
    revert st; induction p as [|t p IH]; intros st; cbn; [reflexivity|].
    rewrite build_step_natural. destruct (build_step tbl (fun s => FVar s) t st); [apply IH|reflexivity].
  Qed.

  Lemma build_natural leaf p :
    build_gen tbl leaf p = match build_syn tbl p with Ok t => Ok (relabel leaf t) | Err e => Err e end.
  Proof.
    unfold build_syn, build_gen. pose proof (build_run_natural leaf p []) as H. cbn [map] in H. rewrite H.
    destruct (build_run tbl (fun s => FVar s) p []) as [[|t [|]]|]; reflexivity.
  Qed.
End Builder.

(* ===================================================== 3. completeness of Function.parse *)
Section Complete.
  Context {T : Type}.
  Variable tbl : table.
  Variable pn : string -> option T.
  Hypothesis TOK : table_ok tbl.
  Local Open Scope Z_scope.

  Lemma Prints_SPrints lvl t toks : Prints tbl pn lvl t toks ->
    exists st, SPrints tbl lvl st toks /\ Rep tbl (leaf_of pn) (spostfix st) t.
  Proof.
    induction 1 as [lvl s c Hs Hc|lvl s Hs Hc|lvl f e Hf Ha Hl|lvl o e l r tl tr Ho Ha Hl _ IHl _ IHr
                   |lvl o e x tx Ho Ha Hr Hl _ IHx|lvl f e a ta Hf Ha _ IHa|lvl f e a b ta tb Hf Ha _ IHa _ IHb|lvl t ts _ IH].
    - exists (SLeaf [s] None). split; [constructor; auto|]. cbn.
      pose proof (@Rep_operand _ tbl (leaf_of pn) s Hs) as R. unfold leaf_of in R at 2. now rewrite Hc in R.
    - exists (SLeaf [s] None). split; [constructor; auto|]. cbn.
      pose proof (@Rep_operand _ tbl (leaf_of pn) s Hs) as R. unfold leaf_of in R at 2. now rewrite Hc in R.
    - exists (SLeaf [] (Some f)). split; [apply (SP_leaff tbl lvl [] f e); auto|]. cbn.
      destruct Hf as [Hf _]. eapply Rep_elem0; eauto.
    - destruct IHl as (sl & Pl & Rl), IHr as (sr & Pr & Rr). exists (SBin o sl sr). split; [econstructor; eauto|]. cbn.
      destruct Ho as [Ho _]. eapply Rep_elem2; eauto.
    - destruct IHx as (sx & Px & Rx). exists (SUn o sx). split; [econstructor; eauto|]. cbn.
      destruct Ho as [Ho _]. eapply Rep_elem1; eauto.
    - destruct IHa as (sa & Pa & Ra). exists (SCall f sa []). split.
      + pose proof (SP_call tbl lvl f e sa ta [] [] Hf Pa (SPA_nil tbl)) as P. now rewrite app_nil_l in P.
      + cbn. destruct Hf as [Hf _]. eapply Rep_elem1; eauto.
    - destruct IHa as (sa & Pa & Ra), IHb as (sb & Pb & Rb). exists (SCall f sa [sb]). split.
      + pose proof (SP_call tbl lvl f e sa ta [sb] _ Hf Pa (SPA_cons tbl sb tb [] [] Pb (SPA_nil tbl))) as P. now rewrite app_nil_r in P.
      + cbn. rewrite app_nil_r. destruct Hf as [Hf _]. eapply Rep_elem2; eauto.
    - destruct IH as (st & P & R). exists st. split; [now constructor|exact R].
  Qed.

  Theorem parse_complete t toks : Prints tbl pn 0 t toks -> parse tbl pn toks = Ok t.
  Proof.
    intros H. destruct (Prints_SPrints _ _ _ H) as (st & P & R). unfold parse.
    erewrite sy_complete by eauto. unfold build. apply Rep_build, R.
  Qed.

  (* an operand token prints its own leaf at every level *)
  Lemma Prints_leaf lvl s : operand tbl s -> Prints tbl pn lvl (leaf_of pn s) [s].
  Proof. intros H. unfold leaf_of. destruct (pn s) eqn:E; [now apply P_num|now apply P_var]. Qed.
End Complete.

Theorem formula_parse_complete {T} (pn : string -> option T) t toks :
  Prints op_table pn 0 t toks -> parse op_table pn toks = Ok t.
Proof. apply parse_complete. exact op_table_ok. Qed.
