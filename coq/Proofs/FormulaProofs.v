(* FormulaProofs.v — lemmas behind Properties/C17.v.
   1. the translated table is the documented one and satisfies the side conditions of the shunting-yard proof;
   2. postfix token lists <-> trees (Function.parse, second half) is a bijection, natural in the treatment of operands;
   3. completeness of Function.parse for the documented infix grammar (uses ShuntingYardProofs.sy_complete);
   4. ill-formed token lists are rejected with SyntaxError (parenthesis count, operand/arity count);
   5. Function.Node.evaluate = the mathematical denotation over R on the expressible part of the table — for the typing in
      which eq/neq/ge/le results are used like truth values; REFUTED for the documented typing (they are booleans in the
      implementation: finding F7), and min/max REFUTED on array operands. *)
From Coq Require Import ZArith Bool List String Ascii Lia Reals Lra.
From VF Require Import Num NumR GenOpTable Core ShuntingYard Grammar ShuntingYardProofs Formula FormulaSpec.
Import ListNotations.
Local Open Scope string_scope.
Local Open Scope list_scope.

(* ===================================================== 1. the table *)
Lemma table_is_documented : op_table = documented_table.
Proof. reflexivity. Qed.

Definition arities_le2 (tbl : table) : bool := forallb (fun e => Nat.leb (en_arity e) 2) tbl.

Lemma table_side_condition : table_okb op_table = true /\ arities_le2 op_table = true.
Proof. split; vm_compute; reflexivity. Qed.

Lemma lookup_arity_le2 tbl s e : arities_le2 tbl = true -> lookup tbl s = Some e -> (en_arity e <= 2)%nat.
Proof.
  intros H L. apply lookup_In in L as [Hin _]. unfold arities_le2 in H. rewrite forallb_forall in H.
  apply Nat.leb_le. exact (H _ Hin).
Qed.

(* ===================================================== 2. postfix <-> tree *)
Section Builder.
  Context {T : Type}.
  Variable tbl : table.
  Variable show : T -> string.

  Section Leaf.
    Variable leaf : string -> fnode T.

    Lemma build_run_app p q st :
      build_run tbl leaf (p ++ q) st = match build_run tbl leaf p st with Ok s => build_run tbl leaf q s | Err e => Err e end.
    Proof. revert st; induction p as [|t p IH]; intros st; cbn; [reflexivity|]. destruct (build_step tbl leaf t st); auto. Qed.

    (* the tokens p build the tree t (on top of any stack, before any continuation) *)
    Definition Rep (p : list string) (t : fnode T) : Prop :=
      forall rest st, build_run tbl leaf (p ++ rest) st = build_run tbl leaf rest (t :: st).

    Lemma Rep_operand s : operand tbl s -> Rep [s] (leaf s).
    Proof. intros [H1 H2] rest st. cbn. unfold build_step. now rewrite H1, H2. Qed.

    Lemma Rep_elem0 n e : lookup tbl n = Some e -> en_arity e = 0%nat -> Rep [n] (FElem0 n).
    Proof. intros H1 H2 rest st. cbn. unfold build_step. rewrite H1, H2. reflexivity. Qed.

    Lemma Rep_elem1 n e p x : lookup tbl n = Some e -> en_arity e = 1%nat -> Rep p x -> Rep (p ++ [n]) (FElem1 n x).
    Proof.
      intros H1 H2 Hx rest st. rewrite <- app_assoc, Hx. cbn. unfold build_step. rewrite H1, H2. reflexivity.
    Qed.

    Lemma Rep_elem2 n e p q l r : lookup tbl n = Some e -> en_arity e = 2%nat -> Rep p l -> Rep q r ->
      Rep (p ++ q ++ [n]) (FElem2 n l r).
    Proof.
      intros H1 H2 Hl Hr rest st. rewrite <- !app_assoc, Hl, Hr. cbn. unfold build_step. rewrite H1, H2. reflexivity.
    Qed.

    Lemma Rep_build p t : Rep p t -> build_gen tbl leaf p = Ok t.
    Proof. intros H. unfold build_gen. rewrite <- (app_nil_r p), H. reflexivity. Qed.
  End Leaf.

  (* ---- tree -> postfix -> tree *)
  Lemma wf_Rep t : wf tbl t -> Rep (fun s => FVar s) (postfix show t) t.
  Proof.
    induction t as [c|v|n|n x IH|n l IHl r IHr]; cbn [wf postfix].
    - intros [].
    - intros H. apply (Rep_operand (fun s => FVar s)), H.
    - intros (e & H1 & H2). eapply Rep_elem0; eauto.
    - intros [(e & H1 & H2) Hx]. eapply Rep_elem1; eauto.
    - intros [(e & H1 & H2) [Hl Hr]]. eapply Rep_elem2; eauto.
  Qed.

  Lemma build_postfix t : wf tbl t -> build_syn tbl (postfix show t) = Ok t.
  Proof. intros H. apply Rep_build, wf_Rep, H. Qed.

  (* ---- postfix -> tree -> postfix *)
  Definition flat (st : list (fnode T)) : list string := flat_map (postfix show) (rev st).

  Lemma flat_cons t st : flat (t :: st) = flat st ++ postfix show t.
  Proof. unfold flat. cbn. rewrite flat_map_app. cbn. now rewrite app_nil_r. Qed.

  Lemma build_step_flat tok st st' : is_paren_tok tok = false ->
    build_step tbl (fun s => FVar s) tok st = Ok st' -> flat st' = flat st ++ [tok].
  Proof.
    intros Hp. unfold build_step. destruct (lookup tbl tok) as [e|].
    - destruct (Nat.ltb (List.length st) (en_arity e)); [discriminate|].
      destruct (en_arity e) as [|[|[|k]]].
      + intros [= <-]. now rewrite flat_cons.
      + destruct st as [|r rest]; [discriminate|]. intros [= <-]. rewrite !flat_cons. cbn. now rewrite <- app_assoc.
      + destruct st as [|r [|l rest]]; try discriminate. intros [= <-]. rewrite !flat_cons. cbn. now rewrite <- !app_assoc.
      + destruct st as [|r rest]; [discriminate|]. intros [= <-]. rewrite !flat_cons. cbn. now rewrite <- app_assoc.
    - rewrite Hp. intros [= <-]. now rewrite flat_cons.
  Qed.

  Lemma build_run_flat p st st' : Forall (fun s => is_paren_tok s = false) p ->
    build_run tbl (fun s => FVar s) p st = Ok st' -> flat st' = flat st ++ p.
  Proof.
    revert st; induction p as [|t p IH]; intros st Hp; cbn.
    - intros [= <-]. now rewrite app_nil_r.
    - inversion Hp as [|? ? Ht Hp']; subst. destruct (build_step tbl (fun s => FVar s) t st) as [s|] eqn:E; [|discriminate].
      intros H. rewrite (IH _ Hp' H), (build_step_flat _ _ _ Ht E). now rewrite <- app_assoc.
  Qed.

  Lemma postfix_build p t : Forall (fun s => is_paren_tok s = false) p -> build_syn tbl p = Ok t -> postfix show t = p.
  Proof.
    intros Hp. unfold build_syn, build_gen. destruct (build_run tbl (fun s => FVar s) p []) as [[|t' [|]]|] eqn:E; try discriminate.
    intros [= <-]. pose proof (build_run_flat _ _ _ Hp E) as H. unfold flat in H. cbn in H. now rewrite app_nil_r in H.
  Qed.

  (* ---- the model's builder is the syntactic one followed by the interpretation of the operand names *)
  Fixpoint relabel (leaf : string -> fnode T) (t : fnode T) : fnode T :=
    match t with
    | FConst c => FConst c
    | FVar v => leaf v
    | FElem0 n => FElem0 n
    | FElem1 n x => FElem1 n (relabel leaf x)
    | FElem2 n l r => FElem2 n (relabel leaf l) (relabel leaf r)
    end.

  Lemma build_step_natural leaf tok st :
    build_step tbl leaf tok (map (relabel leaf) st) =
    match build_step tbl (fun s => FVar s) tok st with Ok s => Ok (map (relabel leaf) s) | Err e => Err e end.
  Proof.
    unfold build_step. rewrite map_length. destruct (lookup tbl tok) as [e|].
    - destruct (Nat.ltb (List.length st) (en_arity e)); [reflexivity|].
      destruct (en_arity e) as [|[|[|k]]]; destruct st as [|r [|l rest]]; reflexivity.
    - destruct (is_paren_tok tok); reflexivity.
  Qed.

  Lemma build_run_natural leaf p st :
    build_run tbl leaf p (map (relabel leaf) st) =
    match build_run tbl (fun s => FVar s) p st with Ok s => Ok (map (relabel leaf) s) | Err e => Err e end.
  Proof.
    revert st; induction p as [|t p IH]; intros st; cbn; [reflexivity|].
    rewrite build_step_natural. destruct (build_step tbl (fun s => FVar s) t st); [apply IH|reflexivity].
  Qed.

  Lemma build_natural leaf p :
    build_gen tbl leaf p = match build_syn tbl p with Ok t => Ok (relabel leaf t) | Err e => Err e end.
  Proof.
    unfold build_syn, build_gen. pose proof (build_run_natural leaf p []) as H. cbn [map] in H. rewrite H.
    destruct (build_run tbl (fun s => FVar s) p []) as [[|t [|]]|]; reflexivity.
  Qed.
End Builder.

(* ===================================================== 3. completeness of Function.parse *)
Section Complete.
  Context {T : Type}.
  Variable tbl : table.
  Variable pn : string -> option T.
  Hypothesis TOK : table_ok tbl.
  Local Open Scope Z_scope.

  Lemma Prints_SPrints lvl t toks : Prints tbl pn lvl t toks ->
    exists st, SPrints tbl lvl st toks /\ Rep tbl (leaf_of pn) (spostfix st) t.
  Proof.
    induction 1 as [lvl s c Hs Hc|lvl s Hs Hc|lvl f e Hf Ha Hl|lvl o e l r tl tr Ho Ha Hl _ IHl _ IHr
                   |lvl o e x tx Ho Ha Hr Hl _ IHx|lvl f e a ta Hf Ha _ IHa|lvl f e a b ta tb Hf Ha _ IHa _ IHb|lvl t ts _ IH].
    - exists (SLeaf [s] None). split; [constructor; auto|]. cbn.
      pose proof (@Rep_operand _ tbl (leaf_of pn) s Hs) as R. unfold leaf_of in R at 2. now rewrite Hc in R.
    - exists (SLeaf [s] None). split; [constructor; auto|]. cbn.
      pose proof (@Rep_operand _ tbl (leaf_of pn) s Hs) as R. unfold leaf_of in R at 2. now rewrite Hc in R.
    - exists (SLeaf [] (Some f)). split; [apply (SP_leaff tbl lvl [] f e); auto|]. cbn.
      destruct Hf as [Hf _]. eapply Rep_elem0; eauto.
    - destruct IHl as (sl & Pl & Rl), IHr as (sr & Pr & Rr). exists (SBin o sl sr). split; [econstructor; eauto|]. cbn.
      destruct Ho as [Ho _]. eapply Rep_elem2; eauto.
    - destruct IHx as (sx & Px & Rx). exists (SUn o sx). split; [econstructor; eauto|]. cbn.
      destruct Ho as [Ho _]. eapply Rep_elem1; eauto.
    - destruct IHa as (sa & Pa & Ra). exists (SCall f sa []). split.
      + pose proof (SP_call tbl lvl f e sa ta [] [] Hf Pa (SPA_nil tbl)) as P. now rewrite app_nil_l in P.
      + cbn. destruct Hf as [Hf _]. eapply Rep_elem1; eauto.
    - destruct IHa as (sa & Pa & Ra), IHb as (sb & Pb & Rb). exists (SCall f sa [sb]). split.
      + pose proof (SP_call tbl lvl f e sa ta [sb] _ Hf Pa (SPA_cons tbl sb tb [] [] Pb (SPA_nil tbl))) as P. now rewrite app_nil_r in P.
      + cbn. rewrite app_nil_r. destruct Hf as [Hf _]. eapply Rep_elem2; eauto.
    - destruct IH as (st & P & R). exists st. split; [now constructor|exact R].
  Qed.

  Theorem parse_complete t toks : Prints tbl pn 0 t toks -> parse tbl pn toks = Ok t.
  Proof.
    intros H. destruct (Prints_SPrints _ _ _ H) as (st & P & R). unfold parse.
    erewrite sy_complete by eauto. unfold build. apply Rep_build, R.
  Qed.

  (* an operand token prints its own leaf at every level *)
  Lemma Prints_leaf lvl s : operand tbl s -> Prints tbl pn lvl (leaf_of pn s) [s].
  Proof. intros H. unfold leaf_of. destruct (pn s) eqn:E; [now apply P_num|now apply P_var]. Qed.
End Complete.

Theorem formula_parse_complete {T} (pn : string -> option T) t toks :
  Prints op_table pn 0 t toks -> parse op_table pn toks = Ok t.
Proof. apply parse_complete. exact op_table_ok. Qed.

(* ===================================================== 4. ill-formed token lists *)
(* what a token contributes to the number of pending operands: +1 an operand or a constant function, 1 - arity an element *)
Definition tokw (tbl : table) (s : string) : Z :=
  match lookup tbl s with
  | Some e => 1 - Z.of_nat (en_arity e)
  | None => if is_paren_tok s then 0 else 1
  end.
Definition weight (tbl : table) (l : list string) : Z := fold_right (fun s acc => tokw tbl s + acc)%Z 0%Z l.
(* +1 for "(", -1 for ")" *)
Definition pdelta (s : string) : Z := if String.eqb s "(" then 1 else if String.eqb s ")" then -1 else 0.
Definition paren_balance (l : list string) : Z := fold_right (fun s acc => pdelta s + acc)%Z 0%Z l.
Definition nlp (l : list string) : Z := fold_right (fun s acc => (if String.eqb s "(" then 1 else 0) + acc)%Z 0%Z l.

Section Illformed.
  Context {T : Type}.
  Variable tbl : table.
  Variable pn : string -> option T.
  Hypothesis TOK : table_ok tbl.
  Hypothesis AR : arities_le2 tbl = true.
  Local Open Scope Z_scope.

  Lemma weight_cons x l : weight tbl (x :: l) = tokw tbl x + weight tbl l.
  Proof. reflexivity. Qed.
  Lemma nlp_cons x l : nlp (x :: l) = (if String.eqb x "(" then 1 else 0) + nlp l.
  Proof. reflexivity. Qed.
  Lemma weight_app a b : weight tbl (a ++ b) = weight tbl a + weight tbl b.
  Proof. induction a as [|x a IH]; [reflexivity|]. cbn [app]. rewrite !weight_cons, IH. (cbv iota; lia). Qed.
  Lemma nlp_app a b : nlp (a ++ b) = nlp a + nlp b.
  Proof. induction a as [|x a IH]; [reflexivity|]. cbn [app]. rewrite !nlp_cons, IH. (cbv iota; lia). Qed.
  Lemma tokw_lparen : tokw tbl "(" = 0.
  Proof. unfold tokw. now rewrite (tok_lparen TOK). Qed.
  Lemma in_tbl_nlp top te : lookup tbl top = Some te -> String.eqb top "(" = false.
  Proof. intros L. destruct (String.eqb_spec top "(") as [->|]; [|reflexivity]. now rewrite (tok_lparen TOK) in L. Qed.

  Lemma pop_ops_split e st ps r : pop_ops tbl e st = (ps, r) -> st = ps ++ r /\ nlp ps = 0.
  Proof.
    revert ps r; induction st as [|top st IH]; intros ps r; cbn [pop_ops].
    - intros [= <- <-]. auto.
    - destruct (lookup tbl top) as [te|] eqn:L; [|intros [= <- <-]; auto].
      destruct (pops e te); [|intros [= <- <-]; auto].
      destruct (pop_ops tbl e st) as [ps' r'] eqn:E. intros [= <- <-]. destruct (IH _ _ eq_refl) as [-> Hn].
      split; [reflexivity|]. rewrite nlp_cons, Hn, (in_tbl_nlp _ _ L). reflexivity.
  Qed.

  Lemma pop_until_split st ps r : pop_until_lparen st = (ps, r) ->
    st = ps ++ r /\ nlp ps = 0 /\ (r = [] \/ exists r', r = "(" :: r').
  Proof.
    revert ps r; induction st as [|top st IH]; intros ps r; cbn [pop_until_lparen].
    - intros [= <- <-]. auto.
    - destruct (String.eqb_spec top "(") as [->|NE].
      + intros [= <- <-]. repeat split; eauto.
      + destruct (pop_until_lparen st) as [ps' r'] eqn:E. intros [= <- <-]. destruct (IH _ _ eq_refl) as (-> & Hn & Hr).
        repeat split; auto. rewrite nlp_cons, Hn. destruct (String.eqb_spec top "("); [contradiction|reflexivity].
  Qed.

  Definition sw (s : sy_state) : Z := weight tbl (fst s) + weight tbl (snd s).

  Lemma step_inv tok s :
    match step tbl tok s with
    | Ok s' => sw s' = sw s + tokw tbl tok /\ nlp (snd s') = nlp (snd s) + pdelta tok
    | Err e => e = ESyntax
    end.
  Proof.
    destruct s as [q st]. unfold step, sw. cbn [fst snd].
    destruct (lookup tbl tok) as [e|] eqn:L.
    - (* an element *)
      assert (Hin : in_tbl tbl tok) by now exists e. destruct (@in_tbl_not_paren tbl TOK tok Hin) as (H1 & H2 & H3).
      assert (Hpd : pdelta tok = 0) by (unfold pdelta; now rewrite H1, H2).
      destruct (en_is_function e) eqn:F; cbn [negb].
      + cbn [fst snd]. rewrite weight_cons, nlp_cons, H1, Hpd. (cbv iota; lia).
      + rewrite H3. destruct (pop_ops tbl e st) as [ps r] eqn:E. destruct (pop_ops_split _ _ _ _ E) as [-> Hn].
        cbn [fst snd]. rewrite Hpd, weight_cons, nlp_cons, H1, !weight_app, !nlp_app. (cbv iota; lia).
    - destruct (is_paren_tok tok) eqn:P; cbn [negb].
      + (* ( ) , *)
        assert (HT : tokw tbl tok = 0) by (unfold tokw; now rewrite L, P).
        unfold is_paren_tok in P.
        destruct (String.eqb_spec tok ",") as [->|N3].
        * destruct (pop_until_lparen st) as [ps r] eqn:E.
          destruct (pop_until_split _ _ _ E) as (-> & Hn & Hr). destruct r as [|x r]; [reflexivity|].
          cbn [fst snd]. rewrite !weight_app, !nlp_app, HT. change (pdelta ",") with 0. (cbv iota; lia).
        * destruct (String.eqb_spec tok "(") as [->|N1].
          { cbn [fst snd]. rewrite weight_cons, nlp_cons, HT. change (pdelta "(") with 1. change (String.eqb "(" "(") with true. (cbv iota; lia). }
          destruct (String.eqb_spec tok ")") as [->|N2]; [|cbn in P; discriminate].
          destruct (pop_until_lparen st) as [ps r] eqn:E.
          destruct (pop_until_split _ _ _ E) as (-> & Hn & Hr). destruct Hr as [->|(r' & ->)]; [reflexivity|].
          assert (HW : weight tbl (ps ++ "(" :: r') = weight tbl ps + weight tbl r').
          { rewrite weight_app, weight_cons, tokw_lparen. (cbv iota; lia). }
          assert (HN : nlp (ps ++ "(" :: r') = nlp r' + 1).
          { rewrite nlp_app, nlp_cons. change (String.eqb "(" "(") with true. (cbv iota; lia). }
          assert (HP : pdelta ")" = -1) by reflexivity.
          destruct r' as [|top r'']; [cbn [fst snd]; rewrite HW, HN, HT, HP, weight_app; lia|].
          destruct (lookup tbl top) as [te|] eqn:Lt; [|cbn [fst snd]; rewrite HW, HN, HT, HP, weight_app; lia].
          destruct (en_is_function te); cbn [fst snd]; rewrite HW, HN, HT, HP, !weight_app.
          -- rewrite !weight_cons, nlp_cons, (in_tbl_nlp _ _ Lt). cbn [weight fold_right]. (cbv iota; lia).
          -- (cbv iota; lia).
      + (* operand *) cbn [fst snd]. rewrite weight_app, weight_cons. unfold tokw. rewrite L, P. unfold pdelta.
        unfold is_paren_tok in P. apply orb_false_iff in P as [P _]. apply orb_false_iff in P as [-> ->]. cbn. (cbv iota; lia).
  Qed.

  Lemma run_inv toks s :
    match run tbl toks s with
    | Ok s' => sw s' = sw s + weight tbl toks /\ nlp (snd s') = nlp (snd s) + paren_balance toks
    | Err e => e = ESyntax
    end.
  Proof.
    revert s; induction toks as [|t toks IH]; intros s; cbn.
    - (cbv iota; lia).
    - pose proof (step_inv t s) as H. destruct (step tbl t s) as [s1|e]; [|exact H].
      specialize (IH s1). destruct (run tbl toks s1) as [s2|e]; [|exact IH].
      fold (weight tbl toks) (paren_balance toks). (cbv iota; lia).
  Qed.

  Lemma flush_inv st : match flush_stack st with Ok ps => ps = st /\ nlp st = 0 | Err e => e = ESyntax end.
  Proof.
    induction st as [|top st IH]; cbn; [auto|].
    destruct (String.eqb_spec top "(") as [->|N1]; cbn; [reflexivity|].
    destruct (String.eqb top ")"); [reflexivity|]. destruct (flush_stack st); [|exact IH].
    destruct IH as [-> Hn]. fold (nlp st). split; [reflexivity|lia].
  Qed.

  Lemma infix_to_postfix_inv toks :
    match infix_to_postfix tbl toks with
    | Ok p => weight tbl p = weight tbl toks /\ paren_balance toks = 0
    | Err e => e = ESyntax
    end.
  Proof.
    unfold infix_to_postfix. pose proof (run_inv toks ([], [])) as H. destruct (run tbl toks ([], [])) as [[q st]|e]; [|exact H].
    pose proof (flush_inv st) as F. destruct (flush_stack st) as [ps|e]; [|exact F]. destruct F as [-> Hn].
    unfold sw in H. cbn [fst snd] in H. change (weight tbl []) with 0 in H. change (nlp []) with 0 in H. rewrite weight_app. (cbv iota; lia).
  Qed.

  Lemma build_step_inv (leaf : string -> fnode T) tok st :
    match build_step tbl leaf tok st with
    | Ok st' => Z.of_nat (List.length st') = Z.of_nat (List.length st) + tokw tbl tok
    | Err e => e = ESyntax
    end.
  Proof.
    unfold build_step, tokw. destruct (lookup tbl tok) as [e|] eqn:L.
    - pose proof (lookup_arity_le2 _ _ _ AR L) as Ha. destruct (Nat.ltb_spec (List.length st) (en_arity e)) as [|Hl]; [reflexivity|].
      destruct (en_arity e) as [|[|[|k]]]; [| | |lia]; destruct st as [|r [|l rest]]; cbn [List.length] in *; try reflexivity; (cbv iota; lia).
    - destruct (is_paren_tok tok); cbn [List.length]; (cbv iota; lia).
  Qed.

  Lemma build_run_inv (leaf : string -> fnode T) p st :
    match build_run tbl leaf p st with
    | Ok st' => Z.of_nat (List.length st') = Z.of_nat (List.length st) + weight tbl p
    | Err e => e = ESyntax
    end.
  Proof.
    revert st; induction p as [|t p IH]; intros st; cbn; [lia|].
    pose proof (build_step_inv leaf t st) as H. destruct (build_step tbl leaf t st) as [s1|e]; [|exact H].
    specialize (IH s1). destruct (build_run tbl leaf p s1); [|exact IH]. fold (weight tbl p). (cbv iota; lia).
  Qed.

  Lemma build_gen_inv (leaf : string -> fnode T) p :
    match build_gen tbl leaf p with Ok _ => weight tbl p = 1 | Err e => e = ESyntax end.
  Proof.
    unfold build_gen. pose proof (build_run_inv leaf p []) as H. destruct (build_run tbl leaf p []) as [[|t [|]]|e]; cbn in H; auto; (cbv iota; lia).
  Qed.

  Theorem parse_inv toks :
    match parse tbl pn toks with
    | Ok _ => weight tbl toks = 1 /\ paren_balance toks = 0
    | Err e => e = ESyntax
    end.
  Proof.
    unfold parse, build. pose proof (infix_to_postfix_inv toks) as H. destruct (infix_to_postfix tbl toks) as [p|e]; [|exact H].
    pose proof (build_gen_inv (leaf_of pn) p) as B. destruct (build_gen tbl (leaf_of pn) p); [|exact B]. (cbv iota; lia).
  Qed.

  Theorem illformed_rejected_gen toks : weight tbl toks <> 1 \/ paren_balance toks <> 0 -> parse tbl pn toks = Err ESyntax.
  Proof.
    intros H. pose proof (parse_inv toks) as P. destruct (parse tbl pn toks) as [t|e]; [lia|now subst].
  Qed.
End Illformed.

Theorem illformed_rejected {T} (pn : string -> option T) toks :
  weight op_table toks <> 1%Z \/ paren_balance toks <> 0%Z -> parse op_table pn toks = Err ESyntax.
Proof. apply illformed_rejected_gen; [exact op_table_ok|apply table_side_condition]. Qed.

(* whatever Function.parse rejects, it rejects with SyntaxError *)
Theorem parse_rejects_cleanly {T} (pn : string -> option T) toks e : parse op_table pn toks = Err e -> e = ESyntax.
Proof.
  intros H. pose proof (parse_inv op_table pn op_table_ok (proj2 table_side_condition) toks) as P. rewrite H in P. exact P.
Qed.

(* ===================================================== 5. evaluation = denotation over R *)
Section EvalR.
  Local Open Scope R_scope.
  Variable oracle : string -> R -> R -> option R.
  Hypothesis oracle_pow : forall a b, 0 < a -> oracle "np.float_power" a b = Some (Rpower a b).
  Variable vars : list (string * R).
  Notation ev := (evaluate op_table oracle vars).

  Lemma b2f_ind b : @b2f R NumR b = ind b.
  Proof. destruct b; unfold b2f, one, zero, ind; unR; cbn; reflexivity. Qed.
  Lemma truth_VF x : @truth R NumR (VF x) = truthR x.
  Proof. unfold truth, truthR, zero. unR. cbn. reflexivity. Qed.
  Lemma truthR_ind b : truthR (ind b) = b.
  Proof. unfold truthR, ind. destruct b; [destruct (Reqb_spec 1 0)|destruct (Reqb_spec 0 0)]; cbn; try reflexivity; try lra. Qed.

  Ltac look := match goal with |- context [lookup op_table ?n] =>
     let v := eval vm_compute in (lookup op_table n) in change (lookup op_table n) with v end.
  Ltac names n := repeat match goal with
     | H : context [String.eqb n ?s] |- _ => destruct (String.eqb_spec n s) as [->|?] end.

  Definition tyval (ty : ty) (r : R) : value R := match ty with TyN => VF r | TyB => VB (truthR r) end.
  Lemma truth_tyval ty r : @truth R NumR (tyval ty r) = truthR r.
  Proof. destruct ty; cbn [tyval]; [apply truth_VF|reflexivity]. Qed.
  Lemma known_tyval ty r : known (tyval ty r) = true.
  Proof. destruct ty; reflexivity. Qed.
  Lemma ap1_not a : known a = true -> apply1 oracle "np.logical_not" a = Ok (VB (negb (@truth R NumR a))).
  Proof. destruct a; try discriminate; reflexivity. Qed.
  Lemma ap2_and a b : known a = true -> known b = true -> apply2 oracle "np.logical_and" a b = Ok (VB (@truth R NumR a && truth b)).
  Proof. destruct a, b; try discriminate; reflexivity. Qed.
  Lemma ap2_or a b : known a = true -> known b = true -> apply2 oracle "np.logical_or" a b = Ok (VB (@truth R NumR a || truth b)).
  Proof. destruct a, b; try discriminate; reflexivity. Qed.
  Lemma eval_denotes_R : forall t ty, typeof t = Some ty -> defined vars t -> ev t = Ok (tyval ty (denote vars t)).
  Proof.
    induction t as [c|v|n|n x IH|n l IHl r IHr]; intros ty Hty Hdef.
    - cbn in Hty. injection Hty as <-. reflexivity.
    - cbn in Hty. injection Hty as <-. destruct Hdef as [Hne Hd]. cbn [evaluate denote tyval].
      destruct (String.eqb_spec v ""); [contradiction|]. destruct (assoc v vars); [reflexivity|contradiction].
    - cbn [typeof] in Hty. names n; [|discriminate]. injection Hty as <-. cbn [evaluate]. look. reflexivity.
    - cbn [typeof in_names existsb] in Hty. destruct (typeof x) as [tx|] eqn:Ex; [|discriminate].
      specialize (IH tx eq_refl Hdef). names n; cbn in Hty; try discriminate.
      all: cbn [evaluate]; look; cbn [en_arity en_method]; rewrite IH; cbn [bind].
      + (* ! *) injection Hty as <-. cbn [tyval]. replace (denote vars (FElem1 "!" x)) with (ind (negb (truthR (denote vars x)))) by reflexivity.
        now rewrite truthR_ind, ap1_not, truth_tyval by apply known_tyval.
      + destruct tx; cbn in Hty; try discriminate. injection Hty as <-. reflexivity.
      + destruct tx; cbn in Hty; try discriminate. injection Hty as <-. reflexivity.
      + destruct tx; cbn in Hty; try discriminate. injection Hty as <-. reflexivity.
      + destruct tx; cbn in Hty; try discriminate. injection Hty as <-. reflexivity.
      + destruct tx; cbn in Hty; try discriminate. injection Hty as <-. reflexivity.
      + destruct tx; cbn in Hty; try discriminate. injection Hty as <-. reflexivity.
    - cbn [typeof in_names existsb] in Hty. destruct (typeof l) as [tl|] eqn:El; [|discriminate].
      destruct (typeof r) as [tr|] eqn:Er; [|discriminate].
      destruct Hdef as (Hdl & Hdr & Hpow).
      specialize (IHl tl eq_refl Hdl). specialize (IHr tr eq_refl Hdr). names n; cbn in Hty.
      all: try (destruct tl, tr; cbn in Hty; discriminate).
      all: cbn [evaluate]; look; cbn [en_arity en_method]; rewrite IHl, IHr; cbn [bind].
      all: set (a := denote vars l) in *; set (b := denote vars r) in *.
      + (* and *) injection Hty as <-. cbn [tyval]. replace (denote vars (FElem2 "and" l r)) with (ind (truthR a && truthR b)) by reflexivity.
        now rewrite truthR_ind, ap2_and, !truth_tyval by apply known_tyval.
      + (* or *) injection Hty as <-. cbn [tyval]. replace (denote vars (FElem2 "or" l r)) with (ind (truthR a || truthR b)) by reflexivity.
        now rewrite truthR_ind, ap2_or, !truth_tyval by apply known_tyval.
      + destruct tl, tr; cbn in Hty; try discriminate. injection Hty as <-. reflexivity.
      + destruct tl, tr; cbn in Hty; try discriminate. injection Hty as <-. reflexivity.
      + destruct tl, tr; cbn in Hty; try discriminate. injection Hty as <-. reflexivity.
      + destruct tl, tr; cbn in Hty; try discriminate. injection Hty as <-. reflexivity.
      + (* ^ *) destruct tl, tr; cbn in Hty; try discriminate. injection Hty as <-. cbn [tyval].
        replace (apply2 oracle "np.float_power" (VF a) (VF b)) with (ask oracle "np.float_power" a b) by reflexivity.
        unfold ask. rewrite oracle_pow by (apply Hpow; reflexivity). reflexivity.
      + destruct tl, tr; cbn in Hty; try discriminate. injection Hty as <-. cbn [tyval].
        replace (apply2 oracle "np.float_power" (VF a) (VF b)) with (ask oracle "np.float_power" a b) by reflexivity.
        unfold ask. rewrite oracle_pow by (apply Hpow; reflexivity). reflexivity.
      + destruct tl, tr; cbn in Hty; try discriminate. injection Hty as <-. cbn [tyval].
        replace (apply2 oracle "np.float_power" (VF a) (VF b)) with (ask oracle "np.float_power" a b) by reflexivity.
        unfold ask. rewrite oracle_pow by (apply Hpow; reflexivity). reflexivity.
      + (* min *) destruct tl, tr; cbn in Hty; try discriminate. injection Hty as <-. cbn [tyval].
        replace (denote vars (FElem2 "min" l r)) with (Rmin a b) by reflexivity.
        replace (apply2 oracle "np.minimum" (VF a) (VF b)) with (Ok (VF (if Rltb a b then a else b)) : result (value R)) by reflexivity.
        unfold Rmin. destruct (Rle_dec a b), (Rltb_spec a b); try reflexivity; do 2 f_equal; lra.
      + (* max *) destruct tl, tr; cbn in Hty; try discriminate. injection Hty as <-. cbn [tyval].
        replace (denote vars (FElem2 "max" l r)) with (Rmax a b) by reflexivity.
        replace (apply2 oracle "np.maximum" (VF a) (VF b)) with (Ok (VF (if Rltb b a then a else b)) : result (value R)) by reflexivity.
        unfold Rmax. destruct (Rle_dec a b), (Rltb_spec b a); try reflexivity; do 2 f_equal; lra.
      + (* gt *) destruct tl, tr; cbn in Hty; try discriminate. injection Hty as <-. cbn [tyval].
        replace (denote vars (FElem2 "gt" l r)) with (ind (Rltb b a)) by reflexivity. rewrite <- b2f_ind. reflexivity.
      + (* lt *) destruct tl, tr; cbn in Hty; try discriminate. injection Hty as <-. cbn [tyval].
        replace (denote vars (FElem2 "lt" l r)) with (ind (Rltb a b)) by reflexivity. rewrite <- b2f_ind. reflexivity.
      + (* eq *) destruct tl, tr; cbn in Hty; try discriminate. injection Hty as <-. cbn [tyval].
        replace (denote vars (FElem2 "eq" l r)) with (ind (Reqb a b)) by reflexivity. rewrite <- b2f_ind.
        replace (apply2 oracle "Op.eq" (VF a) (VF b)) with (Ok (VF (b2f (Reqb a b || false))) : result (value R)) by reflexivity.
        now rewrite orb_false_r.
      + (* neq *) destruct tl, tr; cbn in Hty; try discriminate. injection Hty as <-. cbn [tyval].
        replace (denote vars (FElem2 "neq" l r)) with (ind (negb (Reqb a b))) by reflexivity. rewrite <- b2f_ind.
        replace (apply2 oracle "Op.neq" (VF a) (VF b)) with (Ok (VF (b2f (negb (Reqb a b || false)))) : result (value R)) by reflexivity.
        now rewrite orb_false_r.
      + (* ge *) destruct tl, tr; cbn in Hty; try discriminate. injection Hty as <-. cbn [tyval].
        replace (denote vars (FElem2 "ge" l r)) with (ind (Rleb b a)) by reflexivity. rewrite <- b2f_ind.
        replace (apply2 oracle "Op.ge" (VF a) (VF b)) with (Ok (VF (b2f (Rleb b a || (Reqb a b || false)))) : result (value R)) by reflexivity.
        do 3 f_equal. destruct (Rleb_spec b a), (Reqb_spec a b); cbn; try reflexivity; lra.
      + (* le *) destruct tl, tr; cbn in Hty; try discriminate. injection Hty as <-. cbn [tyval].
        replace (denote vars (FElem2 "le" l r)) with (ind (Rleb a b)) by reflexivity. rewrite <- b2f_ind.
        replace (apply2 oracle "Op.le" (VF a) (VF b)) with (Ok (VF (b2f (Rleb a b || (Reqb a b || false)))) : result (value R)) by reflexivity.
        do 3 f_equal. destruct (Rleb_spec a b), (Reqb_spec a b); cbn; try reflexivity; lra.
  Qed.
End EvalR.

(* ===================================================== 6. corollaries *)
(* array operands: the rows are evaluated one by one, min/max included *)
Lemma eval_rows_denotes oracle (HO : forall a b, (0 < a)%R -> oracle "np.float_power" a b = Some (Rpower a b)) rows t :
  typeof t = Some TyN -> Forall (fun vars => defined vars t) rows ->
  evaluate_rows op_table oracle rows t = Ok (map (fun vars => VF (denote vars t)) rows).
Proof.
  intros Hty. induction 1 as [|vars rows Hd _ IH]; cbn; [reflexivity|].
  rewrite (eval_denotes_R oracle HO vars t TyN Hty Hd), IH. reflexivity.
Qed.

Local Open Scope R_scope.
Definition pnR : string -> option R := number_of [].
Definition parseR (s : string) : result (fnode R) := parse_text op_table pnR "and" "or" s.
(* Function.create(name, s).evaluate(vars) on scalars *)
Definition run_formula (oracle : string -> R -> R -> option R) (vars : list (string * R)) (s : string) : result (value R) :=
  match parseR s with Ok t => evaluate op_table oracle vars t | Err e => Err e end.
Definition pow_oracle (oracle : string -> R -> R -> option R) : Prop :=
  forall a b, 0 < a -> oracle "np.float_power" a b = Some (Rpower a b).
Definition xyz (x y z : R) : list (string * R) := [("x", x); ("y", y); ("z", z)].

Ltac by_denotation HO tree tyy :=
  unfold run_formula; change (parseR _) with (Ok tree : result (fnode R)); cbv beta iota;
  rewrite (eval_denotes_R _ HO _ tree tyy eq_refl); [|
    cbn [defined]; unfold xyz; cbn [assoc String.eqb Ascii.eqb Bool.eqb];
    repeat split; try discriminate; try (intros _; assumption)].

Section Corollaries.
  Variable oracle : string -> R -> R -> option R.
  Hypothesis HO : pow_oracle oracle.
  Variables x y z : R.
  Notation run := (run_formula oracle (xyz x y z)).

  Lemma mul_binds_tighter_than_add :
    run "x+y*z" = Ok (VF (x + y * z)) /\ run "x*y+z" = Ok (VF (x * y + z)) /\ run "x-y/z" = Ok (VF (x - y / z)).
  Proof.
    split; [|split].
    - by_denotation HO (FElem2 "+" (FVar "x") (FElem2 "*" (FVar "y") (FVar "z")) : fnode R) TyN. reflexivity.
    - by_denotation HO (FElem2 "+" (FElem2 "*" (FVar "x") (FVar "y")) (FVar "z") : fnode R) TyN. reflexivity.
    - by_denotation HO (FElem2 "-" (FVar "x") (FElem2 "/" (FVar "y") (FVar "z")) : fnode R) TyN. reflexivity.
  Qed.

  Lemma sub_left_assoc : run "x-y-z" = Ok (VF (x - y - z)) /\ run "x/y/z" = Ok (VF (x / y / z)) /\ run "x-y+z" = Ok (VF (x - y + z)).
  Proof.
    split; [|split].
    - by_denotation HO (FElem2 "-" (FElem2 "-" (FVar "x") (FVar "y")) (FVar "z") : fnode R) TyN. reflexivity.
    - by_denotation HO (FElem2 "/" (FElem2 "/" (FVar "x") (FVar "y")) (FVar "z") : fnode R) TyN. reflexivity.
    - by_denotation HO (FElem2 "+" (FElem2 "-" (FVar "x") (FVar "y")) (FVar "z") : fnode R) TyN. reflexivity.
  Qed.

  Lemma power_right_assoc : 0 < x -> 0 < y ->
    run "x^y^z" = Ok (VF (Rpower x (Rpower y z))) /\ run "x**y**z" = Ok (VF (Rpower x (Rpower y z))).
  Proof.
    intros Hx Hy. split.
    - by_denotation HO (FElem2 "^" (FVar "x") (FElem2 "^" (FVar "y") (FVar "z")) : fnode R) TyN. reflexivity.
    - by_denotation HO (FElem2 "**" (FVar "x") (FElem2 "**" (FVar "y") (FVar "z")) : fnode R) TyN. reflexivity.
  Qed.

  (* unary minus has the precedence of the power operators (right-associative): .-x^y = -(x^y), x^.-y = x^(-y);
     `~` binds tighter: ~x^y = (-x)^y *)
  Lemma unary_minus_vs_power :
    (0 < x -> run ".-x^y" = Ok (VF (- Rpower x y)) /\ run "x^.-y" = Ok (VF (Rpower x (- y)))) /\
    (0 < - x -> run "~x^y" = Ok (VF (Rpower (- x) y))).
  Proof.
    split; [intros Hx; split|intros Hx].
    - by_denotation HO (FElem1 ".-" (FElem2 "^" (FVar "x") (FVar "y")) : fnode R) TyN. reflexivity.
    - by_denotation HO (FElem2 "^" (FVar "x") (FElem1 ".-" (FVar "y")) : fnode R) TyN. reflexivity.
    - by_denotation HO (FElem2 "^" (FElem1 "~" (FVar "x")) (FVar "y") : fnode R) TyN. reflexivity.
  Qed.

  Lemma and_binds_tighter_than_or :
    run "x or y and z" = Ok (VB (truthR x || (truthR y && truthR z))) /\
    run "x and y or z" = Ok (VB ((truthR x && truthR y) || truthR z)) /\
    run "!x and y" = Ok (VB (negb (truthR x) && truthR y)).
  Proof.
    split; [|split].
    - by_denotation HO (FElem2 "or" (FVar "x") (FElem2 "and" (FVar "y") (FVar "z")) : fnode R) TyB.
      cbn [tyval]. change (denote _ _) with (ind (truthR x || truthR (ind (truthR y && truthR z)))). now rewrite !truthR_ind.
    - by_denotation HO (FElem2 "or" (FElem2 "and" (FVar "x") (FVar "y")) (FVar "z") : fnode R) TyB.
      cbn [tyval]. change (denote _ _) with (ind (truthR (ind (truthR x && truthR y)) || truthR z)). now rewrite !truthR_ind.
    - by_denotation HO (FElem2 "and" (FElem1 "!" (FVar "x")) (FVar "y") : fnode R) TyB.
      cbn [tyval]. change (denote _ _) with (ind (truthR (ind (negb (truthR x))) && truthR y)). now rewrite !truthR_ind.
  Qed.

  (* arithmetic binds tighter than the logical operators; relational functions are 0/1 indicators (gt, lt) *)
  Lemma arithmetic_under_logic : run "x+y and z" = Ok (VB (truthR (x + y) && truthR z)) /\
                                 run "gt(x,y)*z" = Ok (VF (ind (Rltb y x) * z)).
  Proof.
    split.
    - by_denotation HO (FElem2 "and" (FElem2 "+" (FVar "x") (FVar "y")) (FVar "z") : fnode R) TyB.
      cbn [tyval]. change (denote _ _) with (ind (truthR (x + y) && truthR z)). now rewrite !truthR_ind.
    - by_denotation HO (FElem2 "*" (FElem2 "gt" (FVar "x") (FVar "y")) (FVar "z") : fnode R) TyN. reflexivity.
  Qed.
End Corollaries.

(* 2^3^2 = 2^(3^2) = 512, not (2^3)^2 = 64 *)
Lemma two_three_two oracle : pow_oracle oracle -> run_formula oracle (xyz 2 3 2) "x^y^z" = Ok (VF 512).
Proof.
  intros HO. rewrite (proj1 (power_right_assoc oracle HO 2 3 2 ltac:(lra) ltac:(lra))). do 2 f_equal.
  replace (Rpower 3 2) with 9.
  - replace 9 with (INR 9) by (simpl; lra). rewrite Rpower_pow by lra. simpl. lra.
  - replace 2 with (INR 2) by (simpl; lra). rewrite Rpower_pow by lra. simpl. lra.
Qed.

(* ---- the same at the level of tokens, for literals and variables alike (from formula_parse_complete) *)
Section TokenCorollaries.
  Context {T : Type}.
  Variable pn : string -> option T.
  Variables a b c : string.
  Hypothesis Ha : operand op_table a.
  Hypothesis Hb : operand op_table b.
  Hypothesis Hc : operand op_table c.
  Notation leaf := (leaf_of pn).
  Local Open Scope Z_scope.

  Lemma tokens_add_mul : parse op_table pn [a; "+"; b; "*"; c] = Ok (FElem2 "+" (leaf a) (FElem2 "*" (leaf b) (leaf c))).
  Proof.
    apply formula_parse_complete.
    apply (P_bin op_table pn 0 "+" ("+", false, "np.add", 2%nat, 70, -1) _ _ [a] [b; "*"; c]); try (split; reflexivity); try reflexivity; try (cbn; lia).
    - apply Prints_leaf, Ha.
    - apply (P_bin op_table pn _ "*" ("*", false, "np.multiply", 2%nat, 80, -1) _ _ [b] [c]); try (split; reflexivity); try reflexivity; try (cbn; lia);
        apply Prints_leaf; assumption.
  Qed.

  Lemma tokens_pow_pow : parse op_table pn [a; "^"; b; "^"; c] = Ok (FElem2 "^" (leaf a) (FElem2 "^" (leaf b) (leaf c))).
  Proof.
    apply formula_parse_complete.
    apply (P_bin op_table pn 0 "^" ("^", false, "np.float_power", 2%nat, 90, 1) _ _ [a] [b; "^"; c]); try (split; reflexivity); try reflexivity; try (cbn; lia).
    - apply Prints_leaf, Ha.
    - apply (P_bin op_table pn _ "^" ("^", false, "np.float_power", 2%nat, 90, 1) _ _ [b] [c]); try (split; reflexivity); try reflexivity; try (cbn; lia);
        apply Prints_leaf; assumption.
  Qed.

  Lemma tokens_sub_sub : parse op_table pn [a; "-"; b; "-"; c] = Ok (FElem2 "-" (FElem2 "-" (leaf a) (leaf b)) (leaf c)).
  Proof.
    apply formula_parse_complete.
    apply (P_bin op_table pn 0 "-" ("-", false, "np.subtract", 2%nat, 70, -1) _ _ [a; "-"; b] [c]); try (split; reflexivity); try reflexivity; try (cbn; lia).
    - apply (P_bin op_table pn _ "-" ("-", false, "np.subtract", 2%nat, 70, -1) _ _ [a] [b]); try (split; reflexivity); try reflexivity; try (cbn; lia);
        apply Prints_leaf; assumption.
    - apply Prints_leaf, Hc.
  Qed.

  (* max ( a , b ) * pi  and redundant parentheses *)
  Lemma tokens_call : parse op_table pn ["("; "max"; "("; a; ","; "("; b; ")"; ")"; ")"; "*"; "pi"] =
                      Ok (FElem2 "*" (FElem2 "max" (leaf a) (leaf b)) (FElem0 "pi")).
  Proof.
    apply formula_parse_complete.
    apply (P_bin op_table pn 0 "*" ("*", false, "np.multiply", 2%nat, 80, -1) _ _ ["("; "max"; "("; a; ","; "("; b; ")"; ")"; ")"] ["pi"]);
      try (split; reflexivity); try reflexivity; try (cbn; lia).
    - apply (P_paren op_table pn _ _ ["max"; "("; a; ","; "("; b; ")"; ")"]).
      apply (P_call2 op_table pn 0 "max" ("max", true, "np.maximum", 2%nat, 100, -1) _ _ [a] ["("; b; ")"]); try (split; reflexivity); try reflexivity.
      + apply Prints_leaf, Ha.
      + apply (P_paren op_table pn _ _ [b]). apply Prints_leaf, Hb.
    - apply (P_const op_table pn _ "pi" ("pi", true, "lambda: np.pi", 0%nat, 100, -1)); try (split; reflexivity); try reflexivity. cbn. lia.
  Qed.
End TokenCorollaries.

(* ---- the relational functions are 0/1 numbers usable in arithmetic; min/max are elementwise *)
Definition total_oracle : string -> R -> R -> option R := fun _ a b => Some (Rpower a b).

Section Indicators.
  Variable oracle : string -> R -> R -> option R.
  Hypothesis HO : pow_oracle oracle.
  Variables x y z : R.
  Notation run := (run_formula oracle (xyz x y z)).

  Lemma indicators_add : run "eq(x,1)+eq(y,1)" = Ok (VF (ind (Reqb x (Rlit 1 0)) + ind (Reqb y (Rlit 1 0)))) /\
                         run "ge(x,y)-le(x,y)" = Ok (VF (ind (Rleb y x) - ind (Rleb x y))) /\
                         run ".-neq(x,y)*z" = Ok (VF (- ind (negb (Reqb x y)) * z)).
  Proof.
    split; [|split].
    - by_denotation HO (FElem2 "+" (FElem2 "eq" (FVar "x") (FConst (Rlit 1 0))) (FElem2 "eq" (FVar "y") (FConst (Rlit 1 0))) : fnode R) TyN. reflexivity.
    - by_denotation HO (FElem2 "-" (FElem2 "ge" (FVar "x") (FVar "y")) (FElem2 "le" (FVar "x") (FVar "y")) : fnode R) TyN. reflexivity.
    - by_denotation HO (FElem2 "*" (FElem1 ".-" (FElem2 "neq" (FVar "x") (FVar "y"))) (FVar "z") : fnode R) TyN. reflexivity.
  Qed.
End Indicators.

(* eq(x,1)+eq(y,1) at x = y = 1 is 2 *)
Lemma indicator_sum_is_two oracle : pow_oracle oracle -> run_formula oracle (xyz 1 1 0) "eq(x,1)+eq(y,1)" = Ok (VF 2).
Proof.
  intros HO. rewrite (proj1 (indicators_add oracle HO 1 1 0)). do 2 f_equal.
  assert (E : Rlit 1 0 = 1) by (unfold Rlit; cbn; lra). rewrite E.
  destruct (Reqb_spec 1 1) as [_|N]; [unfold ind; lra|exfalso; apply N; reflexivity].
Qed.

(* min/max on array operands: elementwise *)
Lemma minmax_elementwise oracle (HO : pow_oracle oracle) rows :
  Forall (fun vars => defined vars (FElem2 "min" (FVar "x") (FElem2 "max" (FVar "y") (FConst 0)) : fnode R)) rows ->
  evaluate_rows op_table oracle rows (FElem2 "min" (FVar "x") (FElem2 "max" (FVar "y") (FConst 0))) =
  Ok (map (fun vars => VF (Rmin (denote vars (FVar "x")) (Rmax (denote vars (FVar "y")) 0))) rows).
Proof.
  intros H. rewrite (eval_rows_denotes oracle HO rows (FElem2 "min" (FVar "x") (FElem2 "max" (FVar "y") (FConst 0))) eq_refl H). reflexivity.
Qed.
