(* SettingsProofs.v — lemmas about Model/Settings.v: `Settings.context` restores exactly the settings it names,
   on every exit path, for every program (hence for every nesting depth and every raise point). *)
From Coq Require Import ZArith Bool List String Lia.
From VF Require Import Settings.
Import ListNotations.
Local Open Scope Z_scope.

(* ---------------------------------------------------------------- keys and records *)
Lemma key_eqb_eq : forall a b, key_eqb a b = true <-> a = b.
Proof. intros a b; split; [destruct a, b; simpl; intro H; try reflexivity; discriminate H | intros ->; destruct b; reflexivity]. Qed.

Lemma key_eqb_refl : forall a, key_eqb a a = true.
Proof. intro a; apply key_eqb_eq; reflexivity. Qed.

Definition key_eq_dec (a b : key) : {a = b} + {a <> b}.
Proof. decide equality. Defined.

Lemma all_keys_complete : forall k, In k all_keys.
Proof. intro k; destruct k; simpl; tauto. Qed.

Lemma mem_key_In : forall k l, mem_key k l = true <-> In k l.
Proof.
  intros k l; unfold mem_key; rewrite existsb_exists; split.
  - intros [x [Hin Heq]]; apply key_eqb_eq in Heq; subst; exact Hin.
  - intro Hin; exists k; split; [exact Hin | apply key_eqb_refl].
Qed.

Lemma get_set_same : forall k v s, get k (set k v s) = v.
Proof. intros k v s; destruct k; reflexivity. Qed.

Lemma get_set_other : forall k k' v s, k <> k' -> get k (set k' v s) = get k s.
Proof. intros k k' v s Hne; destruct k, k'; try reflexivity; exfalso; apply Hne; reflexivity. Qed.

Lemma settings_ext : forall a b, (forall k, get k a = get k b) -> a = b.
Proof.
  intros [a1 a2 a3 a4 a5 a6 a7] [b1 b2 b3 b4 b5 b6 b7] H.
  pose proof (H KFloatType) as H1; pose proof (H KDecimals) as H2; pose proof (H KAtol) as H3;
  pose proof (H KRtol) as H4; pose proof (H KAlias) as H5; pose proof (H KLogger) as H6;
  pose proof (H KFactory) as H7; simpl in *; subst; reflexivity.
Qed.

(* ---------------------------------------------------------------- the comparison functions used by the check are exact *)
Lemma value_eqb_eq : forall a b, value_eqb a b = true <-> a = b.
Proof.
  intros [x|] [y|]; simpl; split; intro H; try reflexivity; try discriminate H.
  - apply Z.eqb_eq in H; subst; reflexivity.
  - inversion H; subst; apply Z.eqb_refl.
Qed.

Lemma settings_eqb_eq : forall a b, settings_eqb a b = true <-> a = b.
Proof.
  intros a b; unfold settings_eqb; rewrite forallb_forall; split.
  - intro H; apply settings_ext; intro k; apply value_eqb_eq; apply H; apply all_keys_complete.
  - intros -> k _; apply value_eqb_eq; reflexivity.
Qed.

Lemma ostring_eqb_eq : forall a b, ostring_eqb a b = true <-> a = b.
Proof.
  intros [x|] [y|]; simpl; split; intro H; try reflexivity; try discriminate H.
  - apply String.eqb_eq in H; subst; reflexivity.
  - inversion H; subst; apply String.eqb_refl.
Qed.

Lemma obool_eqb_eq : forall a b, obool_eqb a b = true <-> a = b.
Proof.
  intros [x|] [y|]; simpl; split; intro H; try reflexivity; try discriminate H.
  - apply Bool.eqb_prop in H; subst; reflexivity.
  - inversion H; subst; apply Bool.eqb_reflx.
Qed.

Lemma obs_eqb_eq : forall a b, obs_eqb a b = true <-> a = b.
Proof.
  intros [av as_ ac] [bv bs bc]; unfold obs_eqb; simpl.
  rewrite !andb_true_iff, settings_eqb_eq, ostring_eqb_eq, obool_eqb_eq; split.
  - intros [[-> ->] ->]; reflexivity.
  - intro H; inversion H; subst; auto.
Qed.

Lemma trace_eqb_eq : forall a b, trace_eqb a b = true <-> a = b.
Proof.
  induction a as [|x a IH]; intros [|y b]; simpl; split; intro H; try reflexivity; try discriminate H.
  - apply andb_true_iff in H; destruct H as [H1 H2]; apply obs_eqb_eq in H1; apply IH in H2; subst; reflexivity.
  - inversion H; subst; apply andb_true_iff; split; [apply obs_eqb_eq | apply IH]; reflexivity.
Qed.

Lemma outcome_eqb_eq : forall a b, outcome_eqb a b = true <-> a = b.
Proof.
  intros [sa ra ta] [sb rb tb]; unfold outcome_eqb; simpl.
  rewrite !andb_true_iff, settings_eqb_eq, trace_eqb_eq; split.
  - intros [[-> Hr] ->]; apply Bool.eqb_prop in Hr; subst; reflexivity.
  - intro H; inversion H; subst; repeat split; apply Bool.eqb_reflx.
Qed.

(* ---------------------------------------------------------------- entering and leaving one context *)
Lemma apply_settings_other : forall cs s k,
  ~ In k (map fst cs) -> get k (apply_settings cs s) = get k s.
Proof.
  induction cs as [|[k0 v0] cs IH]; intros s k Hnot; simpl in *; [reflexivity |].
  rewrite IH by tauto. apply get_set_other. intro Heq; apply Hnot; left; symmetry; exact Heq.
Qed.

Lemma apply_settings_named : forall cs s k v,
  NoDup (map fst cs) -> In (k, v) cs -> get k (apply_settings cs s) = Some v.
Proof.
  induction cs as [|[k0 v0] cs IH]; intros s k v Hnd Hin; simpl in *; [contradiction |].
  inversion Hnd as [|? ? Hnotin Hnd']; subst.
  destruct Hin as [Heq | Hin].
  - inversion Heq; subst. rewrite apply_settings_other by exact Hnotin. apply get_set_same.
  - apply IH; assumption.
Qed.

Lemma rollback_other : forall cs rb s k,
  ~ In k (map fst cs) -> get k (rollback cs rb s) = get k s.
Proof.
  induction cs as [|[k0 v0] cs IH]; intros rb s k Hnot; simpl in *; [reflexivity |].
  rewrite IH by tauto. apply get_set_other. intro Heq; apply Hnot; left; symmetry; exact Heq.
Qed.

Lemma rollback_named : forall cs rb s k,
  In k (map fst cs) -> get k (rollback cs rb s) = get k rb.
Proof.
  induction cs as [|[k0 v0] cs IH]; intros rb s k Hin; simpl in *; [contradiction |].
  destruct (in_dec key_eq_dec k (map fst cs)) as [Hlater | Hnot].
  - apply IH; exact Hlater.
  - destruct Hin as [Heq | Hin]; [subst k0 | contradiction].
    rewrite rollback_other by exact Hnot. apply get_set_same.
Qed.

Lemma context_settings_In : forall kw k v, In (k, Some v) kw <-> In (k, v) (context_settings kw).
Proof.
  induction kw as [|[k0 [v0|]] kw IH]; intros k v; simpl; [tauto | |].
  - rewrite <- IH; split; (intros [H | H]; [left; inversion H; subst; reflexivity | right; exact H]).
  - rewrite <- IH; split; [intros [H | H]; [discriminate H | exact H] | intro H; right; exact H].
Qed.

Lemma named_subset : forall kw k, In k (named kw) -> In k (map fst kw).
Proof.
  unfold named; induction kw as [|[k0 [v0|]] kw IH]; intros k H; simpl in *; [contradiction | |].
  - destruct H as [H | H]; [left; exact H | right; apply IH; exact H].
  - right; apply IH; exact H.
Qed.

Lemma named_NoDup : forall kw, NoDup (map fst kw) -> NoDup (named kw).
Proof.
  unfold named; induction kw as [|[k0 [v0|]] kw IH]; intro Hnd; simpl in *; [constructor | |];
    inversion Hnd as [|? ? Hnotin Hnd']; subst.
  - constructor; [intro H; apply Hnotin; apply (named_subset kw); exact H | apply IH; exact Hnd'].
  - apply IH; exact Hnd'.
Qed.

(* ---------------------------------------------------------------- (1) named settings are restored, on every exit path *)
Theorem ctx_restores_named : forall kw body s k,
  In k (named kw) ->
  get k (out_settings (run (Ctx kw body) s)) = get k s.
Proof. intros kw body s k Hin; simpl. apply rollback_named; exact Hin. Qed.

(* the two exit paths spelled out *)
Corollary ctx_restores_named_normal : forall kw body s k,
  out_raised (run (Ctx kw body) s) = false -> In k (named kw) ->
  get k (out_settings (run (Ctx kw body) s)) = get k s.
Proof. intros kw body s k _; apply ctx_restores_named. Qed.

Corollary ctx_restores_named_raising : forall kw body s k,
  out_raised (run (Ctx kw body) s) = true -> In k (named kw) ->
  get k (out_settings (run (Ctx kw body) s)) = get k s.
Proof. intros kw body s k _; apply ctx_restores_named. Qed.

(* ---------------------------------------------------------------- (2) frame: the context never touches what it does not name *)
Theorem ctx_frame : forall kw body s k,
  ~ In k (named kw) ->
  get k (apply_settings (context_settings kw) s) = get k s /\
  get k (out_settings (run (Ctx kw body) s))
  = get k (out_settings (run body (apply_settings (context_settings kw) s))).
Proof.
  intros kw body s k Hnot; split.
  - apply apply_settings_other; exact Hnot.
  - simpl. apply rollback_other; exact Hnot.
Qed.

(* ---------------------------------------------------------------- (4) exceptions propagate, after the restore *)
Theorem ctx_exception_propagates : forall kw body s,
  out_raised (run (Ctx kw body) s) = out_raised (run body (apply_settings (context_settings kw) s)).
Proof. reflexivity. Qed.

Theorem ctx_trace : forall kw body s,
  out_trace (run (Ctx kw body) s) = out_trace (run body (apply_settings (context_settings kw) s)).
Proof. reflexivity. Qed.

Theorem ctx_raise_restores : forall kw p s,
  out_raised (run (Ctx kw (Seq p Raise)) s) = true /\
  (forall k, In k (named kw) -> get k (out_settings (run (Ctx kw (Seq p Raise)) s)) = get k s).
Proof.
  intros kw p s; split.
  - simpl. destruct (out_raised (run p (apply_settings (context_settings kw) s))) eqn:E; [exact E | reflexivity].
  - intros k Hin; apply ctx_restores_named; exact Hin.
Qed.

(* ---------------------------------------------------------------- (3) inside, the temporary values are observed *)
Theorem entered_values : forall kw s,
  NoDup (map fst kw) ->
  (forall k v, In (k, Some v) kw -> get k (apply_settings (context_settings kw) s) = Some v) /\
  (forall k, ~ In k (named kw) -> get k (apply_settings (context_settings kw) s) = get k s).
Proof.
  intros kw s Hnd; split.
  - intros k v Hin. apply apply_settings_named; [exact (named_NoDup kw Hnd) | apply context_settings_In; exact Hin].
  - intros k Hnot; apply apply_settings_other; exact Hnot.
Qed.

Theorem inside_observes_temporary : forall kw body s,
  NoDup (map fst kw) ->
  exists s' rest,
    out_trace (run (Ctx kw (Seq Observe body)) s) = observe s' :: rest /\
    (forall k v, In (k, Some v) kw -> get k s' = Some v) /\
    (forall k, ~ In k (named kw) -> get k s' = get k s).
Proof.
  intros kw body s Hnd.
  exists (apply_settings (context_settings kw) s),
         (out_trace (run body (apply_settings (context_settings kw) s))).
  destruct (entered_values kw s Hnd) as [Hnamed Hother].
  split; [reflexivity | split; assumption].
Qed.

(* the helpers are functions of the record current at call time *)
Lemma op_str_reads_current : forall s, o_str (observe s) = op_str_third (get KDecimals s).
Proof. reflexivity. Qed.

Lemma op_is_close_reads_current : forall s, o_close (observe s) = op_is_close_1_10005 (get KAtol s) (get KRtol s).
Proof. reflexivity. Qed.

Theorem inside_helpers_temporary : forall kw body s,
  NoDup (map fst kw) ->
  exists o rest,
    out_trace (run (Ctx kw (Seq Observe body)) s) = o :: rest /\
    (forall d, In (KDecimals, Some d) kw -> o_str o = op_str_third (Some d)) /\
    (forall a r, In (KAtol, Some a) kw -> In (KRtol, Some r) kw -> o_close o = op_is_close_1_10005 (Some a) (Some r)).
Proof.
  intros kw body s Hnd.
  destruct (inside_observes_temporary kw body s Hnd) as [s' [rest [Ht [Hnamed _]]]].
  exists (observe s'), rest; split; [exact Ht | split].
  - intros d Hd; rewrite op_str_reads_current, (Hnamed _ _ Hd); reflexivity.
  - intros a r Ha Hr; rewrite op_is_close_reads_current, (Hnamed _ _ Ha), (Hnamed _ _ Hr); reflexivity.
Qed.

(* ... and only inside: an observation made after the context is left (either way) sees the old values again *)
Theorem after_observes_restored : forall kw body s,
  exists s'',
    out_trace (run (Seq (Catch (Ctx kw body)) Observe) s)
    = out_trace (run (Ctx kw body) s) ++ [observe s''] /\
    s'' = out_settings (run (Ctx kw body) s) /\
    (forall k, In k (named kw) -> get k s'' = get k s).
Proof.
  intros kw body s. exists (out_settings (run (Ctx kw body) s)).
  split; [reflexivity | split; [reflexivity |]].
  intros k Hin; apply ctx_restores_named; exact Hin.
Qed.

(* ---------------------------------------------------------------- whole programs: induction over every nesting and raise point *)
Lemma not_in_filter_named : forall k kw l,
  ~ In k (filter (fun k => negb (mem_key k (named kw))) l) -> In k (named kw) \/ ~ In k l.
Proof.
  intros k kw l H.
  destruct (in_dec key_eq_dec k (named kw)) as [Hin | Hnot]; [left; exact Hin | right].
  intro Hl; apply H; apply filter_In; split; [exact Hl |].
  destruct (mem_key k (named kw)) eqn:E; [apply mem_key_In in E; contradiction | reflexivity].
Qed.

(* a program changes only the settings that are directly assigned (or lazily created) outside every context
   naming them — whatever the nesting, wherever it raises *)
Theorem run_preserves_unescaped : forall p s k,
  ~ In k (escapes p) -> get k (out_settings (run p s)) = get k s.
Proof.
  induction p as [| k0 v0 | fresh | | | p IHp q IHq | p IHp | kw body IHbody]; intros s k Hnot; cbn [run escapes out_settings out_raised out_trace] in *.
  - reflexivity.
  - apply get_set_other; intro Heq; apply Hnot; left; symmetry; exact Heq.
  - destruct (get KFactory s); [reflexivity |].
    apply get_set_other; intro Heq; apply Hnot; left; symmetry; exact Heq.
  - reflexivity.
  - reflexivity.
  - rewrite in_app_iff in Hnot.
    destruct (out_raised (run p s)) eqn:E.
    + apply IHp; tauto.
    + simpl. rewrite IHq by tauto. apply IHp; tauto.
  - apply IHp; exact Hnot.
  - destruct (not_in_filter_named _ _ _ Hnot) as [Hin | Hbody].
    + apply rollback_named; exact Hin.
    + destruct (in_dec key_eq_dec k (named kw)) as [Hin | Hnotin].
      * apply rollback_named; exact Hin.
      * rewrite rollback_other by exact Hnotin. rewrite IHbody by exact Hbody.
        apply apply_settings_other; exact Hnotin.
Qed.

Corollary run_without_escape_is_identity : forall p s,
  escapes p = [] -> out_settings (run p s) = s.
Proof.
  intros p s He; apply settings_ext; intro k; apply run_preserves_unescaped; rewrite He; intros [].
Qed.

Corollary helpers_unchanged_after : forall p s,
  (~ In KDecimals (escapes p) -> o_str (observe (out_settings (run p s))) = o_str (observe s)) /\
  (~ In KAtol (escapes p) -> ~ In KRtol (escapes p) ->
   o_close (observe (out_settings (run p s))) = o_close (observe s)).
Proof.
  intros p s; split.
  - intro H; rewrite !op_str_reads_current, (run_preserves_unescaped p s KDecimals H); reflexivity.
  - intros Ha Hr; rewrite !op_is_close_reads_current,
      (run_preserves_unescaped p s KAtol Ha), (run_preserves_unescaped p s KRtol Hr); reflexivity.
Qed.

(* ---------------------------------------------------------------- nestings *)
Corollary nested_ctx_restores : forall kw1 kw2 p s k,
  In k (named kw1) \/ In k (named kw2) ->
  get k (out_settings (run (Ctx kw1 (Ctx kw2 p)) s)) = get k s.
Proof.
  intros kw1 kw2 p s k H.
  destruct (in_dec key_eq_dec k (named kw1)) as [H1 | H1]; [apply ctx_restores_named; exact H1 |].
  destruct H as [H | H2]; [contradiction |].
  destruct (ctx_frame kw1 (Ctx kw2 p) s k H1) as [Henter Hleave].
  rewrite Hleave, ctx_restores_named by exact H2. exact Henter.
Qed.

Corollary nested_ctx_frame : forall kw1 kw2 p s k,
  ~ In k (named kw1) -> ~ In k (named kw2) ->
  get k (out_settings (run (Ctx kw1 (Ctx kw2 p)) s))
  = get k (out_settings (run p (enter_all [kw1; kw2] s))).
Proof.
  intros kw1 kw2 p s k H1 H2.
  destruct (ctx_frame kw1 (Ctx kw2 p) s k H1) as [_ Hleave]. rewrite Hleave.
  destruct (ctx_frame kw2 p (apply_settings (context_settings kw1) s) k H2) as [_ Hleave2]. exact Hleave2.
Qed.

Corollary nested_ctx_exception_propagates : forall kw1 kw2 p s,
  out_raised (run (Ctx kw1 (Ctx kw2 p)) s) = out_raised (run p (enter_all [kw1; kw2] s)).
Proof. reflexivity. Qed.

(* any depth *)
Lemma run_nest : forall kws p s,
  out_raised (run (nest kws p) s) = out_raised (run p (enter_all kws s)) /\
  out_trace (run (nest kws p) s) = out_trace (run p (enter_all kws s)).
Proof.
  induction kws as [|kw kws IH]; intros p s; simpl; [split; reflexivity |].
  apply IH.
Qed.

Theorem nest_exception_propagates : forall kws p s,
  out_raised (run (nest kws p) s) = out_raised (run p (enter_all kws s)).
Proof. intros; apply run_nest. Qed.

Theorem nest_restores : forall kws p s k,
  (exists kw, In kw kws /\ In k (named kw)) ->
  get k (out_settings (run (nest kws p) s)) = get k s.
Proof.
  induction kws as [|kw kws IH]; intros p s k [kw0 [Hin Hk]]; simpl in *; [contradiction |].
  destruct (in_dec key_eq_dec k (named kw)) as [H1 | H1]; [apply rollback_named; exact H1 |].
  destruct Hin as [Heq | Hin]; [subst kw0; contradiction |].
  rewrite rollback_other by exact H1.
  rewrite IH by (exists kw0; split; assumption).
  apply apply_settings_other; exact H1.
Qed.

Lemma enter_all_other : forall kws s k,
  (forall kw, In kw kws -> ~ In k (named kw)) -> get k (enter_all kws s) = get k s.
Proof.
  unfold enter_all; induction kws as [|kw kws IH]; intros s k H; simpl in *; [reflexivity |].
  rewrite IH by (intros kw' Hin; apply H; right; exact Hin).
  apply apply_settings_other; apply H; left; reflexivity.
Qed.

Theorem nest_frame : forall kws p s k,
  (forall kw, In kw kws -> ~ In k (named kw)) ->
  get k (enter_all kws s) = get k s /\
  get k (out_settings (run (nest kws p) s)) = get k (out_settings (run p (enter_all kws s))).
Proof.
  intros kws p s k H; split; [apply enter_all_other; exact H |].
  revert p s; induction kws as [|kw kws IH]; intros p s; simpl in *; [reflexivity |].
  rewrite rollback_other by (apply H; left; reflexivity).
  apply IH. intros kw' Hin; apply H; right; exact Hin.
Qed.

Lemma escapes_nest_nil : forall kws p, escapes p = [] -> escapes (nest kws p) = [].
Proof. induction kws as [|kw kws IH]; intros p H; simpl; [exact H | rewrite IH by exact H; reflexivity]. Qed.
