(* CascadeProofs.v — lemmas about Model/Cascade.v (C12).

   Part 1 (Section CascadeLaws) is generic in the numeric reading.  What it needs to know about numbers is the
   NaN/ordering behaviour of numpy.maximum / numpy.minimum, as three hypotheses:
       Hnan : isnan nan = true
       Hmax : nmax a b = if isnan a then a else if isnan b then b else if ltb a b then b else a
       Hmin : nmin a b = if isnan a then a else if isnan b then b else if ltb b a then b else a
   (NaN of the first operand wins, then NaN of the second, otherwise a comparison) and, ONLY for the range
   theorem, three facts about the order on non-NaN values (sub-section Range).
   Part 2 defines a small concrete reading XZ = integers + inf, -inf, NaN with exact comparisons and
   mathematically defined max/min, proves the hypotheses for it, and instantiates everything.
   Part 3 instantiates the hypotheses for the executable binary64 reading NumF (the one the correspondence
   runs): Hnan/Hmax/Hmin hold by computation/definition; the order facts come from Coq's float specification. *)
From Coq Require Import ZArith Bool List Lia.
From VF Require Import Num Core Cascade.
Import ListNotations.

(* ================================================================================================ *)
Section CascadeLaws.
  Context {T : Type} {N : Num T} {F : Type}.
  Hypothesis Hnan : isnan (nan : T) = true.
  Hypothesis Hmax : forall a b : T, nmax a b = if isnan a then a else if isnan b then b else if ltb a b then b else a.
  Hypothesis Hmin : forall a b : T, nmin a b = if isnan a then a else if isnan b then b else if ltb b a then b else a.

  Notation cfg := (cascade_cfg T).
  Notation state := (cstate T F).

  (* ---- clip ---------------------------------------------------------------------------------- *)
  (* case analysis on every test of an if-cascade, innermost conditions first *)
  Ltac ifcases := repeat match goal with
    | |- context [if ?b then _ else _] =>
        lazymatch b with context [if _ then _ else _] => fail | _ => destruct b eqn:? end
    end; try reflexivity; try congruence.

  Lemma clip_nan : forall lo hi x : T, isnan x = true -> clip lo hi x = x.
  Proof.
    intros lo hi x Hx. unfold clip. rewrite Hmax, Hx. rewrite Hmin, Hx. reflexivity.
  Qed.

  Lemma clip_idem : forall lo hi x : T, clip lo hi (clip lo hi x) = clip lo hi x.
  Proof. intros lo hi x. unfold clip. repeat rewrite ?Hmax, ?Hmin. ifcases. Qed.

  (* with a NaN bound the clipped value is that NaN, whatever the (non-NaN) argument *)
  Lemma clip_const_nan : forall lo hi x y : T,
    isnan x = false -> isnan y = false -> isnan (clip lo hi x) = true -> clip lo hi y = clip lo hi x.
  Proof.
    intros lo hi x y Ex Ey. unfold clip. repeat rewrite ?Hmax, ?Hmin. rewrite Ex, Ey.
    destruct (isnan lo) eqn:El; [reflexivity |].
    destruct (isnan hi) eqn:Eh; [ifcases |].
    intros Hc. exfalso. revert Hc. ifcases.
  Qed.

  Lemma clip_notnan : forall lo hi x : T,
    isnan lo = false -> isnan hi = false -> isnan x = false -> isnan (clip lo hi x) = false.
  Proof.
    intros lo hi x El Eh Ex. unfold clip. repeat rewrite ?Hmax, ?Hmin. rewrite Ex, El.
    destruct (ltb x lo); rewrite ?El, ?Ex, Eh; destruct (ltb hi _); assumption.
  Qed.

  (* ---- the per-row final transformation: default substitution, then the clipping setter ------------ *)
  Definition dflt (c : cfg) (x : T) : T := if negb (isnan (cc_default c)) && isnan x then cc_default c else x.
  Definition setter (c : cfg) (x : T) : T := if cc_lock_range c then clip (cc_min c) (cc_max c) x else x.
  Definition fin (c : cfg) (x : T) : T := setter c (dflt c x).

  Lemma row_fin : forall c recent x, row c recent x = fin c (if cc_lock_previous c && isnan x then recent else x).
  Proof. reflexivity. Qed.

  Lemma cascade_values_map : forall c p d,
    cascade_values (cc_lock_previous c) (cc_default c) (cc_lock_range c) (cc_min c) (cc_max c) p d
    = map (fin c) (if cc_lock_previous c then fill_forward p d else d).
  Proof.
    intros c p d. unfold cascade_values, set_value, default_subst, fin, setter, dflt.
    destruct (cc_lock_range c), (isnan (cc_default c)); cbn [negb andb]; rewrite ?map_map, ?map_id; reflexivity.
  Qed.

  Lemma fin_idem : forall c x, fin c (fin c x) = fin c x.
  Proof.
    intros c x. unfold fin, setter, dflt.
    destruct (isnan (cc_default c)) eqn:Ed; cbn [negb andb].
    - destruct (cc_lock_range c); [apply clip_idem | reflexivity].
    - set (y := if isnan x then cc_default c else x).
      assert (Hy : isnan y = false) by (subst y; destruct (isnan x) eqn:Ex; assumption).
      destruct (cc_lock_range c).
      + destruct (isnan (clip (cc_min c) (cc_max c) y)) eqn:Ec.
        * apply clip_const_nan; assumption.
        * apply clip_idem.
      + rewrite Hy. reflexivity.
  Qed.

  (* ---- lists ----------------------------------------------------------------------------------- *)
  Lemma last_cons : forall (tl : list T) x d, last (x :: tl) d = last tl x.
  Proof.
    induction tl as [|y tl IH]; intros x d; [reflexivity |].
    change (last (x :: y :: tl) d) with (last (y :: tl) d). rewrite (IH y d), (IH y x). reflexivity.
  Qed.

  Lemma take_last_ok : forall (v : list T) p, take_last v = Ok p <-> v <> [] /\ p = last v nan.
  Proof.
    intros v p. destruct v as [|x tl]; cbn [take_last].
    - split; [discriminate | intros [H _]; congruence].
    - rewrite last_cons. split.
      + intros H; injection H as <-. split; [discriminate | reflexivity].
      + intros [_ ->]. reflexivity.
  Qed.

  Lemma take_last_cons : forall (x : T) tl, take_last (x :: tl) = Ok (last tl x).
  Proof. reflexivity. Qed.

  Lemma last_indep : forall (l : list T) a b, l <> [] -> last l a = last l b.
  Proof.
    induction l as [|x tl IH]; intros a b H; [congruence |].
    cbn [last]. destruct tl; [reflexivity | apply IH; discriminate].
  Qed.

  Lemma last_app_ne : forall (a b : list T) d, b <> [] -> last (a ++ b) d = last b d.
  Proof.
    induction a as [|x tl IH]; intros b d Hb; [reflexivity |].
    cbn [app]. rewrite last_cons. rewrite IH by exact Hb. apply last_indep; exact Hb.
  Qed.

  Lemma spec_rows_length : forall c d recent, length (spec_rows c recent d) = length d.
  Proof. intros c d; induction d as [|x tl IH]; intros recent; cbn [spec_rows length]; [reflexivity | rewrite IH; reflexivity]. Qed.

  Lemma spec_rows_nonempty : forall c d recent, d <> [] -> spec_rows c recent d <> [].
  Proof. intros c [|x tl] recent H; [congruence | discriminate]. Qed.

  (* the value carried out of a batch: the final value of its last row (or `recent` for the empty batch) *)
  Lemma spec_rows_app : forall c a b recent,
    spec_rows c recent (a ++ b) = spec_rows c recent a ++ spec_rows c (last (spec_rows c recent a) recent) b.
  Proof.
    intros c a; induction a as [|x tl IH]; intros b recent; [reflexivity |].
    cbn [app spec_rows]. rewrite IH. f_equal. f_equal. f_equal.
    symmetry. apply last_cons.
  Qed.

  (* row-wise reading of spec_rows by position *)
  Lemma spec_rows_nth : forall c d recent i, i < length d ->
    nth i (spec_rows c recent d) nan
    = row c (match i with 0 => recent | S j => nth j (spec_rows c recent d) nan end) (nth i d nan).
  Proof.
    intros c d; induction d as [|x tl IH]; intros recent i Hi; cbn [length] in Hi; [lia |].
    destruct i as [|i]; [reflexivity |].
    cbn [spec_rows nth]. rewrite IH by lia. destruct i; reflexivity.
  Qed.

  (* ---- the code's batch computation equals the row-wise documented cascade ------------------------- *)
  Lemma fill_forward_spec : forall c d r recent,
    cc_lock_previous c = true -> fin c recent = fin c r ->
    map (fin c) (fill_forward r d) = spec_rows c recent d.
  Proof.
    intros c d; induction d as [|x tl IH]; intros r recent Hlp Hrel; [reflexivity |].
    cbn [fill_forward spec_rows]. rewrite row_fin, Hlp. cbn [andb].
    destruct (isnan x) eqn:Ex; cbn [map]; f_equal.
    - symmetry; exact Hrel.
    - apply IH; [exact Hlp |]. rewrite Hrel. apply fin_idem.
    - apply IH; [exact Hlp |]. apply fin_idem.
  Qed.

  Lemma no_lock_spec : forall c d recent, cc_lock_previous c = false -> map (fin c) d = spec_rows c recent d.
  Proof.
    intros c d; induction d as [|x tl IH]; intros recent Hlp; [reflexivity |].
    cbn [map spec_rows]. rewrite row_fin, Hlp. cbn [andb]. f_equal. apply IH; exact Hlp.
  Qed.

  Lemma cascade_values_spec : forall c p d,
    cascade_values (cc_lock_previous c) (cc_default c) (cc_lock_range c) (cc_min c) (cc_max c) p d = spec_rows c p d.
  Proof.
    intros c p d. rewrite cascade_values_map. destruct (cc_lock_previous c) eqn:Hlp.
    - apply fill_forward_spec; [exact Hlp | reflexivity].
    - apply no_lock_spec; exact Hlp.
  Qed.

  (* ---- step_spec ------------------------------------------------------------------------------- *)
  Definition callable (c : cfg) : Prop := cc_enabled c = true /\ cc_has_defuzzifier c = true.

  Theorem step_spec : forall (c : cfg) (ds : list T) (st : state) p,
    callable c -> take_last (cs_value st) = Ok p -> (cc_lock_previous c = false \/ ds <> []) ->
    defuzzify_step c (Ok ds) st
    = ({| cs_value := spec_rows c p ds; cs_previous := p; cs_fuzzy := cs_fuzzy st |}, None).
  Proof.
    intros c ds st p [Hen Hd] Hp Hne. unfold defuzzify_step, defuzzify_fields.
    rewrite Hen, Hd, Hp. cbn [negb].
    assert (Hb : cc_lock_previous c && is_empty ds = false).
    { destruct Hne as [-> | Hne]; [reflexivity |]. destruct ds; [congruence |]. apply andb_false_r. }
    rewrite Hb, cascade_values_spec. reflexivity.
  Qed.

  (* the same, row by row: row i is the documented cascade applied to d_i and the final value of row i-1
     (for row 0: the last value held before the call) *)
  Corollary step_spec_rowwise : forall (c : cfg) (ds : list T) (st : state) p,
    callable c -> take_last (cs_value st) = Ok p -> (cc_lock_previous c = false \/ ds <> []) ->
    let st' := fst (defuzzify_step c (Ok ds) st) in
    snd (defuzzify_step c (Ok ds) st) = None /\
    length (cs_value st') = length ds /\
    forall i, i < length ds ->
      nth i (cs_value st') nan
      = row c (match i with 0 => p | S j => nth j (cs_value st') nan end) (nth i ds nan).
  Proof.
    intros c ds st p Hc Hp Hne. rewrite (step_spec c ds st p Hc Hp Hne). cbn [fst snd cs_value].
    split; [reflexivity |]. split; [apply spec_rows_length |]. intros i Hi. apply spec_rows_nth; exact Hi.
  Qed.

  (* ---- split invariance ------------------------------------------------------------------------- *)
  Theorem split_invariance_spec : forall (c : cfg) (chunks : list (list T)) (st : state) p,
    callable c -> take_last (cs_value st) = Ok p ->
    chunks <> [] -> Forall (fun ch => ch <> []) chunks ->
    exists st', run_calls c chunks st = (spec_rows c p (concat chunks), st', None)
             /\ take_last (cs_value st') = Ok (last (spec_rows c p (concat chunks)) p).
  Proof.
    intros c chunks; induction chunks as [|ch tl IH]; intros st p Hc Hp Hne Hall; [congruence |].
    inversion Hall as [|? ? Hch Htl]; subst.
    cbn [run_calls concat]. rewrite (step_spec c ch st p Hc Hp (or_intror Hch)).
    set (st1 := {| cs_value := spec_rows c p ch; cs_previous := p; cs_fuzzy := cs_fuzzy st |}).
    assert (Hp1 : take_last (cs_value st1) = Ok (last (spec_rows c p ch) p)).
    { apply take_last_ok. split; [apply spec_rows_nonempty; exact Hch |].
      apply last_indep. apply spec_rows_nonempty; exact Hch. }
    destruct tl as [|ch2 tl2].
    - exists st1. cbn [run_calls concat]. rewrite !app_nil_r. split; [reflexivity | exact Hp1].
    - destruct (IH st1 _ Hc Hp1 ltac:(discriminate) Htl) as [st' [Hrun Hlast]].
      exists st'. rewrite Hrun. rewrite spec_rows_app. split; [reflexivity |].
      rewrite Hlast. f_equal.
      set (a := spec_rows c p ch) in *. set (b := spec_rows c (last a p) (concat (ch2 :: tl2))).
      assert (Hb : b <> []).
      { subst b. apply spec_rows_nonempty. inversion Htl; subst. cbn [concat]. destruct ch2; [congruence | discriminate]. }
      rewrite last_app_ne by exact Hb. apply last_indep; exact Hb.
  Qed.

  (* the statement of the property: every cut of a sequence of defuzzified values into successive non-empty
     calls leaves the same values (concatenated) as one call on the whole sequence *)
  Theorem split_invariance : forall (c : cfg) (chunks : list (list T)) (st : state),
    callable c -> cs_value st <> [] -> chunks <> [] -> Forall (fun ch => ch <> []) chunks ->
    fst (fst (run_calls c chunks st)) = cs_value (fst (defuzzify_step c (Ok (concat chunks)) st))
    /\ snd (run_calls c chunks st) = None
    /\ snd (defuzzify_step c (Ok (concat chunks)) st) = None.
  Proof.
    intros c chunks st Hc Hv Hne Hall.
    assert (Hp : take_last (cs_value st) = Ok (last (cs_value st) nan)) by (apply take_last_ok; split; [exact Hv | reflexivity]).
    destruct (split_invariance_spec c chunks st _ Hc Hp Hne Hall) as [st' [Hrun _]].
    assert (Hcat : concat chunks <> []).
    { destruct chunks as [|ch tl]; [congruence |]. inversion Hall; subst. cbn [concat]. destruct ch; [congruence | discriminate]. }
    rewrite Hrun, (step_spec c _ st _ Hc Hp (or_intror Hcat)). cbn [fst snd cs_value]. repeat split.
  Qed.

  (* ---- previous value ---------------------------------------------------------------------------- *)
  Theorem previous_is_last_before_call : forall (c : cfg) d (st st' : state),
    cc_enabled c = true -> defuzzify_step c d st = (st', None) ->
    cs_value st <> [] /\ cs_previous st' = last (cs_value st) nan.
  Proof.
    intros c d st st' Hen. unfold defuzzify_step, defuzzify_fields. rewrite Hen. cbn [negb].
    destruct (cc_has_defuzzifier c); cbn [negb]; [| discriminate].
    destruct d as [ds | e]; [| discriminate].
    destruct (take_last (cs_value st)) as [p | e] eqn:Hp; [| discriminate].
    apply take_last_ok in Hp. destruct Hp as [Hv ->].
    destruct (cc_lock_previous c && is_empty ds); [discriminate |].
    intros H; injection H as <-. split; [exact Hv | reflexivity].
  Qed.

  (* in a run of successive calls the recorded previous value is the last value left by the call before the final one *)
  Corollary previous_in_run : forall (c : cfg) (chunks : list (list T)) (ch : list T) (st : state) vs st1 st2,
    cc_enabled c = true ->
    run_calls c chunks st = (vs, st1, None) -> defuzzify_step c (Ok ch) st1 = (st2, None) ->
    cs_previous st2 = last (cs_value st1) nan.
  Proof. intros c chunks ch st vs st1 st2 Hen _ H. exact (proj2 (previous_is_last_before_call c _ st1 st2 Hen H)). Qed.

  (* ---- disabled / failure / clear ------------------------------------------------------------------ *)
  Theorem disabled_untouched : forall (c : cfg) d (st : state),
    cc_enabled c = false -> defuzzify_step c d st = (st, None).
  Proof. intros c d st H. unfold defuzzify_step, defuzzify_fields. rewrite H. reflexivity. Qed.

  Theorem failure_atomic : forall (c : cfg) (st : state),
    cc_enabled c = true ->
    (cc_has_defuzzifier c = false -> forall d, defuzzify_step c d st = (st, Some EValue)) /\
    (cc_has_defuzzifier c = true -> forall e, defuzzify_step c (Err e) st = (st, Some e)).
  Proof.
    intros c st Hen. unfold defuzzify_step, defuzzify_fields. rewrite Hen. cbn [negb].
    split; intros Hd; rewrite Hd; reflexivity.
  Qed.

  (* every way a call can raise: the state is unchanged, except in ONE corner — an empty batch under
     lock_previous, where np.nditer raises after previous_value was assigned *)
  Theorem raise_cases : forall (c : cfg) d (st st' : state) e,
    defuzzify_step c d st = (st', Some e) ->
    st' = st \/
    (cc_lock_previous c = true /\ d = Ok [] /\ e = EValue /\
     st' = {| cs_value := cs_value st; cs_previous := last (cs_value st) nan; cs_fuzzy := cs_fuzzy st |}).
  Proof.
    intros c d st st' e. unfold defuzzify_step, defuzzify_fields.
    destruct (cc_enabled c); cbn [negb]; [| discriminate].
    destruct (cc_has_defuzzifier c); cbn [negb]; [| intros H; injection H as <- _; left; reflexivity].
    destruct d as [ds | e']; [| intros H; injection H as <- _; left; reflexivity].
    destruct (take_last (cs_value st)) as [p | e'] eqn:Hp; [| intros H; injection H as <- _; left; reflexivity].
    apply take_last_ok in Hp. destruct Hp as [_ ->].
    destruct (cc_lock_previous c) eqn:Hlp; cbn [andb]; [| discriminate].
    destruct ds; cbn [is_empty]; [| discriminate].
    intros H; injection H as <- <-. right. repeat split.
  Qed.

  (* ... and a non-empty batch never raises once the defuzzifier has returned (value being non-empty) *)
  Theorem nonempty_batch_no_raise : forall (c : cfg) (ds : list T) (st : state),
    cs_value st <> [] -> ds <> [] -> snd (defuzzify_step c (Ok ds) st) = None \/ cc_has_defuzzifier c = false.
  Proof.
    intros c ds st Hv Hds. unfold defuzzify_step, defuzzify_fields.
    destruct (cc_enabled c); cbn [negb]; [| left; reflexivity].
    destruct (cc_has_defuzzifier c); cbn [negb]; [| right; reflexivity].
    destruct (cs_value st) as [|x tl] eqn:E; [congruence |]. rewrite take_last_cons.
    destruct ds; [congruence |]. cbn [is_empty]. rewrite andb_false_r. left; reflexivity.
  Qed.

  Theorem clear_resets : forall (c : cfg) (st : state),
    clear c st = {| cs_value := [nan]; cs_previous := nan; cs_fuzzy := [] |}.
  Proof.
    intros c st. unfold clear, clear_fields, set_value. destruct (cc_lock_range c); [| reflexivity].
    cbn [map]. rewrite clip_nan by exact Hnan. reflexivity.
  Qed.

  Lemma clear_eq_init : forall (c : cfg) (st : state), clear c st = cstate_init [].
  Proof. intros; apply clear_resets. Qed.

  (* with lock_previous off the committed values do not depend on the history at all (used by C13) *)
  Theorem no_lock_previous_history_free : forall (c : cfg) (ds : list T) (st1 st2 : state),
    cc_lock_previous c = false -> cs_value st1 <> [] -> cs_value st2 <> [] ->
    cs_value (fst (defuzzify_step c (Ok ds) st1)) = cs_value (fst (defuzzify_step c (Ok ds) st2))
    \/ cc_enabled c = false \/ cc_has_defuzzifier c = false.
  Proof.
    intros c ds st1 st2 Hlp H1 H2.
    destruct (cc_enabled c) eqn:Hen; [| right; left; reflexivity].
    destruct (cc_has_defuzzifier c) eqn:Hd; [| right; right; reflexivity].
    left.
    rewrite (step_spec c ds st1 (last (cs_value st1) nan)), (step_spec c ds st2 (last (cs_value st2) nan));
      try (split; assumption); try (left; exact Hlp); try (apply take_last_ok; split; [assumption | reflexivity]).
    cbn [fst cs_value]. rewrite <- !(no_lock_spec c ds) by exact Hlp. reflexivity.
  Qed.

  (* ---- range ------------------------------------------------------------------------------------ *)
  Section Range.
    Hypothesis Hle_refl : forall a : T, isnan a = false -> leb a a = true.
    Hypothesis Hnlt_le : forall a b : T, isnan a = false -> isnan b = false -> ltb a b = false -> leb b a = true.
    Hypothesis Hle_nan : forall a b : T, leb a b = true -> isnan a = false /\ isnan b = false.

    Lemma clip_in_range : forall lo hi x : T,
      leb lo hi = true -> isnan (clip lo hi x) = false ->
      leb lo (clip lo hi x) = true /\ leb (clip lo hi x) hi = true.
    Proof.
      intros lo hi x Hlh. destruct (Hle_nan _ _ Hlh) as [El Eh].
      destruct (isnan x) eqn:Ex; [rewrite clip_nan by exact Ex; congruence |].
      intros _. unfold clip. rewrite Hmax, Hmin, Ex, El.
      destruct (ltb x lo) eqn:Exl; rewrite ?El, ?Ex, Eh.
      - destruct (ltb hi lo) eqn:Ehl; split; auto.
      - destruct (ltb hi x) eqn:Ehx; split; auto.
    Qed.

    Theorem value_in_range_when_locked : forall (c : cfg) d (st st' : state) v,
      cc_enabled c = true -> cc_lock_range c = true -> leb (cc_min c) (cc_max c) = true ->
      defuzzify_step c d st = (st', None) ->
      In v (cs_value st') -> isnan v = false ->
      leb (cc_min c) v = true /\ leb v (cc_max c) = true.
    Proof.
      intros c d st st' v Hen Hlr Hlh. unfold defuzzify_step, defuzzify_fields. rewrite Hen. cbn [negb].
      destruct (cc_has_defuzzifier c); cbn [negb]; [| discriminate].
      destruct d as [ds | e]; [| discriminate].
      destruct (take_last (cs_value st)) as [p | e]; [| discriminate].
      destruct (cc_lock_previous c && is_empty ds); [discriminate |].
      intros H; injection H as <-. cbn [cs_value]. unfold cascade_values, set_value. rewrite Hlr.
      intros Hin Hv. apply in_map_iff in Hin. destruct Hin as [y [<- _]].
      apply clip_in_range; assumption.
    Qed.

    (* the same holds after clear (vacuously: the value is NaN) and hence along any history *)
    Theorem value_in_range_after_clear : forall (c : cfg) (st : state) v,
      In v (cs_value (clear c st)) -> isnan v = true.
    Proof.
      intros c st v. rewrite clear_resets. cbn [cs_value In]. intros [<- | []]. exact Hnan.
    Qed.
  End Range.
End CascadeLaws.

(* ================================================================================================ *)
(* Part 2.  A small exact reading: integers with +inf, -inf, NaN.  max/min are defined mathematically
   (not through the if-cascade), so the hypotheses above are real proof obligations here.            *)
Inductive xz : Set := XFin (z : Z) | XPInf | XNInf | XNaN.

Definition xz_isnan (a : xz) : bool := match a with XNaN => true | _ => false end.
Definition xz_ltb (a b : xz) : bool :=
  match a, b with
  | XNaN, _ | _, XNaN => false
  | XNInf, XNInf => false | XNInf, _ => true
  | _, XNInf => false
  | XPInf, _ => false
  | XFin _, XPInf => true
  | XFin p, XFin q => (p <? q)%Z
  end.
Definition xz_leb (a b : xz) : bool :=
  match a, b with
  | XNaN, _ | _, XNaN => false
  | XNInf, _ => true
  | _, XPInf => true
  | XPInf, _ => false
  | XFin _, XNInf => false
  | XFin p, XFin q => (p <=? q)%Z
  end.
Definition xz_eqb (a b : xz) : bool :=
  match a, b with
  | XFin p, XFin q => (p =? q)%Z | XPInf, XPInf | XNInf, XNInf => true | _, _ => false
  end.
(* NaN is absorbing; otherwise the greater / smaller element of the extended integers *)
Definition xz_max (a b : xz) : xz :=
  match a, b with
  | XNaN, _ | _, XNaN => XNaN
  | XPInf, _ | _, XPInf => XPInf
  | XNInf, y => y
  | x, XNInf => x
  | XFin p, XFin q => XFin (Z.max p q)
  end.
Definition xz_min (a b : xz) : xz :=
  match a, b with
  | XNaN, _ | _, XNaN => XNaN
  | XNInf, _ | _, XNInf => XNInf
  | XPInf, y => y
  | x, XPInf => x
  | XFin p, XFin q => XFin (Z.min p q)
  end.

(* Only the order/NaN fragment (nan, pinf, ninf, nmin, nmax, ltb, leb, eqb, isnan, …) is meaningful;
   the arithmetic fields are stubs that the cascade never uses. *)
Definition xz_stub1 (a : xz) : xz := XNaN.
Definition xz_stub2 (a b : xz) : xz := XNaN.
Definition NumXZ : Num xz := {|
  lit := fun m e => XFin (m * 2 ^ e)%Z; nan := XNaN; pinf := XPInf; ninf := XNInf; npi := XNaN;
  add := xz_stub2; sub := xz_stub2; mul := xz_stub2; div := xz_stub2;
  neg := xz_stub1; nabs := xz_stub1; nsqrt := xz_stub1; square := xz_stub1; spow2 := xz_stub1; pypow2 := xz_stub1;
  nmin := xz_min; nmax := xz_max;
  ltb := xz_ltb; leb := xz_leb; eqb := xz_eqb;
  isnan := xz_isnan; isfinite := fun a => match a with XFin _ => true | _ => false end;
  isposinf := fun a => match a with XPInf => true | _ => false end;
  isneginf := fun a => match a with XNInf => true | _ => false end;
  fexp := xz_stub1; flog := xz_stub1; fcos := xz_stub1; fpow := xz_stub2
|}.

Lemma xz_Hnan : @isnan xz NumXZ (@nan xz NumXZ) = true.
Proof. reflexivity. Qed.
Lemma xz_Hmax : forall a b : xz,
  @nmax xz NumXZ a b = if @isnan xz NumXZ a then a else if @isnan xz NumXZ b then b else if @ltb xz NumXZ a b then b else a.
Proof.
  intros [p| | |] [q| | |]; cbn; try reflexivity.
  destruct (Z.ltb_spec p q); f_equal; lia.
Qed.
Lemma xz_Hmin : forall a b : xz,
  @nmin xz NumXZ a b = if @isnan xz NumXZ a then a else if @isnan xz NumXZ b then b else if @ltb xz NumXZ b a then b else a.
Proof.
  intros [p| | |] [q| | |]; cbn; try reflexivity.
  destruct (Z.ltb_spec q p); f_equal; lia.
Qed.
Lemma xz_Hle_refl : forall a : xz, @isnan xz NumXZ a = false -> @leb xz NumXZ a a = true.
Proof. intros [p| | |]; cbn; try reflexivity; try discriminate. intros _. apply Z.leb_refl. Qed.
Lemma xz_Hnlt_le : forall a b : xz,
  @isnan xz NumXZ a = false -> @isnan xz NumXZ b = false -> @ltb xz NumXZ a b = false -> @leb xz NumXZ b a = true.
Proof.
  intros [p| | |] [q| | |]; cbn; try reflexivity; try discriminate.
  intros _ _ H. apply Z.ltb_ge in H. apply Z.leb_le. exact H.
Qed.
Lemma xz_Hle_nan : forall a b : xz,
  @leb xz NumXZ a b = true -> @isnan xz NumXZ a = false /\ @isnan xz NumXZ b = false.
Proof. intros [p| | |] [q| | |]; cbn; try discriminate; intros _; split; reflexivity. Qed.

(* ================================================================================================ *)
(* Part 3.  The executable binary64 reading.  Hmax/Hmin are the definitions of Fmax/Fmin; the order
   facts follow from Coq's specification of primitive floats (FloatAxioms: standard-library axioms).  *)
From Coq Require Import Floats.
From VF Require Import NumF.

Section FloatOrder.
  Lemma SFcompare_antisym : forall a b : spec_float,
    SFcompare b a = match SFcompare a b with Some c => Some (CompOpp c) | None => None end.
  Proof.
    intros [sa| sa | | sa ma ea] [sb | sb | | sb mb eb]; cbn [SFcompare]; try reflexivity;
      try (destruct sa; reflexivity); try (destruct sb; reflexivity); try (destruct sa, sb; reflexivity).
    change (Pos.compare_cont Eq ma mb) with (ma ?= mb)%positive.
    change (Pos.compare_cont Eq mb ma) with (mb ?= ma)%positive.
    rewrite (Z.compare_antisym ea eb), (Pos.compare_antisym ma mb).
    destruct sa, sb; try reflexivity; destruct (ea ?= eb)%Z; cbn [CompOpp]; try reflexivity;
      destruct (ma ?= mb)%positive; reflexivity.
  Qed.

  Definition sf_notnan (a : spec_float) : bool := match a with S754_nan => false | _ => true end.

  Lemma SFcompare_refl : forall a : spec_float, sf_notnan a = true -> SFcompare a a = Some Eq.
  Proof.
    intros [sa| sa | | sa ma ea]; cbn [SFcompare sf_notnan]; try discriminate; try reflexivity; intros _.
    - destruct sa; reflexivity.
    - change (Pos.compare_cont Eq ma ma) with (ma ?= ma)%positive.
      rewrite Z.compare_refl, Pos.compare_refl. destruct sa; reflexivity.
  Qed.

  Lemma SFcompare_some : forall (a b : spec_float) c, SFcompare a b = Some c -> sf_notnan a = true /\ sf_notnan b = true.
  Proof. intros [sa| sa | | sa ma ea] [sb | sb | | sb mb eb] c; cbn [SFcompare sf_notnan]; try discriminate; intros _; split; reflexivity. Qed.

  Lemma SFcompare_none : forall a b : spec_float, SFcompare a b = None -> sf_notnan a = false \/ sf_notnan b = false.
  Proof. intros [sa| sa | | sa ma ea] [sb | sb | | sb mb eb]; cbn [SFcompare sf_notnan]; try discriminate; auto. Qed.

  Lemma F_isnan_notnan : forall x : float, PrimFloat.is_nan x = negb (sf_notnan (Prim2SF x)).
  Proof.
    intros x. unfold PrimFloat.is_nan. rewrite eqb_spec. unfold SFeqb.
    destruct (sf_notnan (Prim2SF x)) eqn:E.
    - rewrite SFcompare_refl by exact E. reflexivity.
    - destruct (Prim2SF x); try discriminate. reflexivity.
  Qed.

  Lemma F_Hle_refl : forall a : float, PrimFloat.is_nan a = false -> PrimFloat.leb a a = true.
  Proof.
    intros a Ha. rewrite F_isnan_notnan in Ha. apply negb_false_iff in Ha.
    rewrite leb_spec. unfold SFleb. rewrite SFcompare_refl by exact Ha. reflexivity.
  Qed.

  Lemma F_Hnlt_le : forall a b : float,
    PrimFloat.is_nan a = false -> PrimFloat.is_nan b = false -> PrimFloat.ltb a b = false -> PrimFloat.leb b a = true.
  Proof.
    intros a b Ha Hb. rewrite F_isnan_notnan in Ha, Hb. apply negb_false_iff in Ha, Hb.
    rewrite ltb_spec, leb_spec. unfold SFltb, SFleb.
    rewrite (SFcompare_antisym (Prim2SF a) (Prim2SF b)).
    destruct (SFcompare (Prim2SF a) (Prim2SF b)) as [[| |]|] eqn:E; cbn [CompOpp]; try reflexivity; try discriminate.
    destruct (SFcompare_none _ _ E); congruence.
  Qed.

  Lemma F_Hle_nan : forall a b : float,
    PrimFloat.leb a b = true -> PrimFloat.is_nan a = false /\ PrimFloat.is_nan b = false.
  Proof.
    intros a b. rewrite leb_spec, !F_isnan_notnan. unfold SFleb.
    destruct (SFcompare (Prim2SF a) (Prim2SF b)) as [c|] eqn:E; [| discriminate].
    destruct (SFcompare_some _ _ _ E) as [-> ->]. intros _; split; reflexivity.
  Qed.
End FloatOrder.

Lemma F_Hnan : forall m t, @Num.isnan float (NumF m t) (@Num.nan float (NumF m t)) = true.
Proof. reflexivity. Qed.
Lemma F_Hmax : forall m t (a b : float),
  @Num.nmax float (NumF m t) a b
  = if @Num.isnan float (NumF m t) a then a else if @Num.isnan float (NumF m t) b then b
    else if @Num.ltb float (NumF m t) a b then b else a.
Proof. reflexivity. Qed.
Lemma F_Hmin : forall m t (a b : float),
  @Num.nmin float (NumF m t) a b
  = if @Num.isnan float (NumF m t) a then a else if @Num.isnan float (NumF m t) b then b
    else if @Num.ltb float (NumF m t) b a then b else a.
Proof. reflexivity. Qed.

(* ================================================================================================ *)
(* Part 4.  The hypotheses packaged as law records, their two inhabitants, and the theorems restated
   against the records (what Properties/C12.v quotes).                                               *)
Record minmax_laws {T : Type} (N : Num T) : Prop := {
  ml_nan : Num.isnan (Num.nan : T) = true;
  ml_max : forall a b : T, Num.nmax a b = if Num.isnan a then a else if Num.isnan b then b else if Num.ltb a b then b else a;
  ml_min : forall a b : T, Num.nmin a b = if Num.isnan a then a else if Num.isnan b then b else if Num.ltb b a then b else a }.
Record order_laws {T : Type} (N : Num T) : Prop := {
  ol_refl : forall a : T, Num.isnan a = false -> Num.leb a a = true;
  ol_nlt_le : forall a b : T, Num.isnan a = false -> Num.isnan b = false -> Num.ltb a b = false -> Num.leb b a = true;
  ol_le_nan : forall a b : T, Num.leb a b = true -> Num.isnan a = false /\ Num.isnan b = false }.

Lemma NumXZ_minmax : minmax_laws NumXZ.
Proof. split; [exact xz_Hnan | exact xz_Hmax | exact xz_Hmin]. Qed.
Lemma NumXZ_order : order_laws NumXZ.
Proof. split; [exact xz_Hle_refl | exact xz_Hnlt_le | exact xz_Hle_nan]. Qed.
Lemma NumF_minmax : forall m t, minmax_laws (NumF m t).
Proof. intros m t. split; [exact (F_Hnan m t) | exact (F_Hmax m t) | exact (F_Hmin m t)]. Qed.
Lemma NumF_order : forall m t, order_laws (NumF m t).
Proof. intros m t. split; [exact F_Hle_refl | exact F_Hnlt_le | exact F_Hle_nan]. Qed.

Section WithLaws.
  Context {T : Type} {N : Num T} {F : Type} (L : minmax_laws N).
  Definition clip_nan_L := @clip_nan T N (ml_max N L) (ml_min N L).
  Definition clip_idem_L := @clip_idem T N (ml_max N L) (ml_min N L).
  Definition step_spec_L := @step_spec T N F (ml_max N L) (ml_min N L).
  Definition step_spec_rowwise_L := @step_spec_rowwise T N F (ml_max N L) (ml_min N L).
  Definition split_invariance_L := @split_invariance T N F (ml_max N L) (ml_min N L).
  Definition split_invariance_spec_L := @split_invariance_spec T N F (ml_max N L) (ml_min N L).
  Definition clear_resets_L := @clear_resets T N F (ml_nan N L) (ml_max N L) (ml_min N L).
  Definition no_lock_previous_history_free_L := @no_lock_previous_history_free T N F (ml_max N L) (ml_min N L).
  Definition value_in_range_when_locked_L (O : order_laws N) :=
    @value_in_range_when_locked T N F (ml_max N L) (ml_min N L) (ol_refl N O) (ol_nlt_le N O) (ol_le_nan N O).
End WithLaws.
