(* BatchProofs.v — the vectorised pipeline (Model/Batch.v) computes, row for row, what the scalar Engine.process
   (Model/Engine.v) computes on the rows one after the other (property C02).

   Everything is generic in the numeric reading `Num T` (list / shape reasoning); the few numeric facts needed are
   named hypotheses (`minmax_laws` of Proofs/CascadeProofs.v for the clipping setter, `zero_laws` below for the
   defuzzification of an EMPTY fuzzy output) and are proved for the binary64 reading.

   Plan.
   1. NpLite: broadcasting on row-shaped values (0-d or (k,)), the outer product `(k,1) x (1,r)`, squeeze;
   2. Engine.input_values setter / getter;
   3. one row i of a batch state = a scalar engine state: lockstep of membership, grouped terms, antecedent degrees,
      Consequent.modify, the General loop;
   4. defuzzifiers: Activated / Aggregated.membership on the sample matrix, integral and weighted defuzzifiers;
   5. the cascade on a batch = the one-element cascade folded over the rows;
   6. composition: batch_eq_rows. *)
From Coq Require Import ZArith Bool List String Lia.
From VF Require Import Num GenNorm GenHedge GenTerm Core Discrete NpSum NpLite Defuzz Antecedent Consequent Activation
  Weighted Cascade Engine Ops Pipeline EngineProofs CascadeProofs Batch.
Import ListNotations.
Local Notation length := List.length.
Local Open Scope list_scope.

(* ================================================================================================ *)
(* 1. NpLite                                                                                         *)
(* ================================================================================================ *)
Section MapM.
  Context {X Y : Type}.

  Lemma mapM__pure (f : X -> Y) (l : list X) : mapM_ (fun x => Ok (f x)) l = Ok (map f l).
  Proof. induction l as [|a l IH]; cbn; [reflexivity|]. rewrite IH. reflexivity. Qed.

  Lemma mapM__ext (f g : X -> result Y) (l : list X) : (forall a, In a l -> f a = g a) -> mapM_ f l = mapM_ g l.
  Proof.
    induction l as [|a l IH]; intros H; cbn; [reflexivity|].
    rewrite (H a (or_introl eq_refl)), IH; [reflexivity|]. intros b Hb. apply H. right. exact Hb.
  Qed.

  Lemma mapM__length (f : X -> result Y) (l : list X) l' : mapM_ f l = Ok l' -> length l' = length l.
  Proof.
    revert l'; induction l as [|a l IH]; intros l' H; cbn in H.
    - injection H as <-. reflexivity.
    - destruct (f a); cbn in H; [|discriminate]. destruct (mapM_ f l); cbn in H; [|discriminate].
      injection H as <-. cbn. f_equal. apply IH. reflexivity.
  Qed.

  Lemma mapM__nth (f : X -> result Y) (l : list X) l' i a :
    mapM_ f l = Ok l' -> nth_error l i = Some a -> exists b, f a = Ok b /\ nth_error l' i = Some b.
  Proof.
    revert l' i; induction l as [|a0 l IH]; intros l' i H Hn; [destruct i; discriminate|].
    cbn in H. destruct (f a0) as [b0|] eqn:H0; cbn in H; [|discriminate].
    destruct (mapM_ f l) as [bs|] eqn:H1; cbn in H; [|discriminate]. injection H as <-.
    destruct i as [|i]; cbn in Hn |- *.
    - injection Hn as <-. eauto.
    - exact (IH bs i eq_refl Hn).
  Qed.

  Lemma mapM__err (f : X -> result Y) (l : list X) x : (forall a, In a l -> f a = Err x) -> l <> [] -> mapM_ f l = Err x.
  Proof. destruct l as [|a l]; intros H Hl; [congruence|]. cbn. rewrite (H a (or_introl eq_refl)). reflexivity. Qed.

End MapM.

Section NpLemmas.
  Context {X Y Z : Type}.

  Lemma map2_map_l {W : Type} (f : W -> Y -> Z) (g : X -> W) (la : list X) (lb : list Y) :
    map2 f (map g la) lb = map2 (fun a b => f (g a) b) la lb.
  Proof. revert lb; induction la as [|a la IH]; intros [|b lb]; cbn; auto. f_equal. apply IH. Qed.

  Lemma map2_length (f : X -> Y -> Z) (la : list X) (lb : list Y) :
    length la = length lb -> length (map2 f la lb) = length la.
  Proof.
    revert lb; induction la as [|a la IH]; intros [|b lb] H; cbn in *; try discriminate; try reflexivity.
    f_equal. apply IH. lia.
  Qed.

  Lemma map2_nth_error (f : X -> Y -> Z) (la : list X) (lb : list Y) i :
    nth_error (map2 f la lb) i =
    match nth_error la i, nth_error lb i with Some a, Some b => Some (f a b) | _, _ => None end.
  Proof.
    revert lb i; induction la as [|a la IH]; intros [|b lb] [|i]; cbn; auto.
    - destruct (nth_error la i); reflexivity.
  Qed.

  Lemma map2_const_r (f : X -> Y -> Z) (la : list X) (c : Y) :
    map2 f la (map (fun _ => c) la) = map (fun a => f a c) la.
  Proof. induction la as [|a la IH]; cbn; [reflexivity|]. f_equal. exact IH. Qed.

  (* ---- broadcasting of two rows *)
  Lemma bcast_row_eq_len (f : X -> Y -> Z) (la : list X) (lb : list Y) :
    length la = length lb -> bcast_row f la lb = Ok (map2 f la lb).
  Proof.
    intros H. unfold bcast_row, bcast.
    assert (Hgen : mapM_ (fun p => Ok (f (fst p) (snd p))) (combine la lb) = Ok (map2 f la lb)).
    { clear H. revert lb; induction la as [|a la IH]; intros [|b lb]; cbn; try reflexivity. rewrite IH. reflexivity. }
    destruct la as [|a [|a' la]], lb as [|b [|b' lb]]; try (cbn in H; discriminate).
    - reflexivity.
    - reflexivity.
    - cbv beta iota. rewrite (proj2 (Nat.eqb_eq _ _) H). exact Hgen.
  Qed.

  Lemma bcast_row_l (f : X -> Y -> Z) (a : X) (lb : list Y) : bcast_row f [a] lb = Ok (map (f a) lb).
  Proof. unfold bcast_row, bcast. apply mapM__pure. Qed.

  Lemma bcast_row_r (f : X -> Y -> Z) (la : list X) (b : Y) : bcast_row f la [b] = Ok (map (fun a => f a b) la).
  Proof.
    unfold bcast_row, bcast. destruct la as [|a [|a' la]]; try reflexivity.
    exact (mapM__pure (fun a => f a b) (a :: a' :: la)).
  Qed.
End NpLemmas.

(* ---- row-shaped values: 0-d (the same value on every row) or a (k,) vector *)
Definition rowshape {X : Type} (k : nat) (a : arr X) : Prop :=
  match a with Sc _ => True | Vec l => length l = k | Mat _ => False end.
(* a (k,) vector *)
Definition colshape {X : Type} (k : nat) (a : arr X) : Prop :=
  match a with Vec l => length l = k | _ => False end.

Section RowShape.
  Context {X Y Z : Type}.

  Lemma colshape_rowshape k (a : arr X) : colshape k a -> rowshape k a.
  Proof. destruct a; cbn; tauto. Qed.

  Lemma rowshape_lift1 k (f : X -> Y) a : rowshape k a -> rowshape k (lift1 f a).
  Proof. destruct a; cbn; auto. intros <-. apply map_length. Qed.

  Lemma aget_lift1 k (f : X -> Y) a i dx dy : rowshape k a -> i < k -> aget dy (lift1 f a) i = f (aget dx a i).
  Proof.
    destruct a as [x|l|r]; cbn; intros H Hi; [reflexivity| |contradiction].
    rewrite (nth_indep (map f l) dy (f dx)) by (rewrite map_length; lia). apply map_nth.
  Qed.

  Lemma aget_indep k (a : arr X) i d1 d2 : rowshape k a -> i < k -> aget d1 a i = aget d2 a i.
  Proof. destruct a as [x|l|r]; cbn; intros H Hi; [reflexivity| |contradiction]. apply nth_indep. lia. Qed.

  Lemma map2_nth (f : X -> Y -> Z) la lb i dx dy dz :
    length la = length lb -> i < length la -> nth i (map2 f la lb) dz = f (nth i la dx) (nth i lb dy).
  Proof.
    revert lb i; induction la as [|a la IH]; intros [|b lb] i H Hi; cbn in *; try lia.
    destruct i as [|i]; [reflexivity|]. apply IH; lia.
  Qed.

  (* a ufunc of two row-shaped values: no broadcasting error, row-shaped result, elementwise *)
  Lemma lift2_rows k (f : X -> Y -> Z) (a : arr X) (b : arr Y) :
    rowshape k a -> rowshape k b ->
    exists c, lift2 f a b = Ok c /\ rowshape k c /\
              forall i dx dy dz, i < k -> aget dz c i = f (aget dx a i) (aget dy b i).
  Proof.
    destruct a as [x|la|ra], b as [y|lb|rb]; cbn; intros Ha Hb; try contradiction.
    - eexists; split; [reflexivity|]. split; [exact I|]. reflexivity.
    - eexists; split; [reflexivity|]. split; [cbn; rewrite map_length; exact Hb|].
      intros i dx dy dz Hi. cbn. rewrite (nth_indep _ dz (f x dy)) by (rewrite map_length; lia). apply map_nth.
    - eexists; split; [reflexivity|]. split; [cbn; rewrite map_length; exact Ha|].
      intros i dx dy dz Hi. cbn. rewrite (nth_indep _ dz (f dx y)) by (rewrite map_length; lia).
      exact (map_nth (fun a => f a y) la dx i).
    - rewrite (bcast_row_eq_len f la lb) by congruence. cbn.
      eexists; split; [reflexivity|]. split; [cbn; rewrite map2_length; congruence|].
      intros i dx dy dz Hi. cbn. apply map2_nth; [congruence | lia].
  Qed.
End RowShape.

(* ---- the outer product of Activated.membership: degrees as a column against one row of samples *)
Section Outer.
  Context {X Y Z : Type}.
  Variable f : X -> Y -> Z.

  Definition outer (ds : list X) (ms : list Y) : list (list Z) := map (fun d => map (f d) ms) ds.

  Lemma transpose_row (l : list X) : transpose (atleast_2d (Vec l)) = Mat (map (fun x => [x]) l).
  Proof. reflexivity. Qed.
  Lemma transpose_scalar (x : X) : transpose (atleast_2d (Sc x)) = Mat [[x]].
  Proof. reflexivity. Qed.

  (* implication(atleast_2d(degree).T, mu(x)) with degree (k,) and mu(x) of shape (1, r): the (k, r) matrix *)
  Lemma lift2_outer (ds : list X) (ms : list Y) :
    lift2 f (transpose (atleast_2d (Vec ds))) (Mat [ms]) = Ok (Mat (outer ds ms)).
  Proof.
    rewrite transpose_row. cbn [lift2]. unfold bcast_rows, bcast.
    assert (H : mapM_ (fun a => bcast_row f a ms) (map (fun x => [x]) ds) = Ok (outer ds ms)).
    { unfold outer. induction ds as [|d ds IH]; cbn [map mapM_]; [reflexivity|].
      rewrite bcast_row_l, IH. reflexivity. }
    destruct ds as [|d [|d' ds]]; cbn [map].
    - reflexivity.
    - cbn [mapM_]. rewrite bcast_row_l. reflexivity.
    - cbn [map] in H. cbv beta iota. rewrite H. reflexivity.
  Qed.
  Lemma lift2_outer_scalar (d : X) (ms : list Y) :
    lift2 f (transpose (atleast_2d (Sc d))) (Mat [ms]) = Ok (Mat [map (f d) ms]).
  Proof.
    rewrite transpose_scalar. cbn [lift2]. unfold bcast_rows, bcast. cbn [mapM_]. rewrite bcast_row_l. reflexivity.
  Qed.
End Outer.

Section Squeeze.
  Context {X : Type}.

  (* .squeeze() keeps the rows of a (k, r) matrix when r >= 2 or k = 1 ... *)
  Lemma squeeze_rows (rows : list (list X)) :
    (length rows = 1 \/ 2 <= ncols rows) -> rows_of (squeeze (Mat rows)) = rows.
  Proof.
    intros H. destruct rows as [|r0 [|r1 rows]].
    - cbn in H. destruct H; lia.
    - cbn. destruct r0 as [|x [|x' r0]]; reflexivity.
    - destruct H as [H|H]; [cbn in H; lia|]. cbn in H.
      destruct r0 as [|x [|x' r0]]; cbn in H; try lia. reflexivity.
  Qed.

  (* ... and at r = 1 turns k >= 2 rows of one sample into ONE row of k samples *)
  Lemma squeeze_resolution1 (col : list X) :
    2 <= length col -> squeeze (Mat (map (fun x => [x]) col)) = Vec col.
  Proof.
    destruct col as [|x [|x' col]]; cbn; intros H; try lia. clear H.
    f_equal. f_equal. f_equal. induction col as [|y col IH]; cbn; [reflexivity|]. f_equal. exact IH.
  Qed.
End Squeeze.

(* ================================================================================================ *)
(* 2. Engine.input_values: setter and getter                                                         *)
(* ================================================================================================ *)
Section ListExt.
  Context {A : Type}.
  Lemma nth_error_ext (l1 l2 : list A) : (forall j, nth_error l1 j = nth_error l2 j) -> l1 = l2.
  Proof.
    revert l2; induction l1 as [|a l1 IH]; intros [|b l2] H; [reflexivity| | |].
    - specialize (H 0). discriminate.
    - specialize (H 0). discriminate.
    - pose proof (H 0) as H0. cbn in H0. injection H0 as <-. f_equal. apply IH. intros j. exact (H (S j)).
  Qed.
  Lemma nth_error_seq n j : nth_error (seq 0 n) j = if Nat.ltb j n then Some j else None.
  Proof.
    destruct (Nat.ltb_spec j n) as [H|H].
    - rewrite (nth_error_nth' (seq 0 n) 0) by (rewrite seq_length; exact H). rewrite seq_nth by exact H. reflexivity.
    - apply nth_error_None. rewrite seq_length. exact H.
  Qed.
  Lemma nth_error_nth_some (l : list A) j d : j < length l -> nth_error l j = Some (nth j l d).
  Proof. intros H. apply nth_error_nth'. exact H. Qed.
  Lemma nth_map_lt {B : Type} (f : A -> B) (l : list A) i d d' : i < length l -> nth i (map f l) d' = f (nth i l d).
  Proof. intros H. rewrite (nth_indep (map f l) d' (f d)) by (rewrite map_length; exact H). apply map_nth. Qed.
End ListExt.

Section Columns.
  Context {X : Type}.
  Variable d : X.

  (* the matrix given by its rows, read by columns: n columns *)
  Definition cols_of (n : nat) (rows : list (list X)) : list (list X) :=
    map (fun j => map (fun r => nth j r d) rows) (seq 0 n).
  Definition rect_rows (n : nat) (rows : list (list X)) : Prop := Forall (fun r => length r = n) rows.

  Lemma column_ok n rows j : rect_rows n rows -> j < n -> column j rows = Ok (map (fun r => nth j r d) rows).
  Proof.
    intros H Hj. unfold column. induction rows as [|r rows IH]; cbn; [reflexivity|].
    inversion H as [|r' rows' Hr Hrest]; subst.
    rewrite (nth_error_nth_some r j d) by lia. cbn. rewrite (IH Hrest). reflexivity.
  Qed.

  Lemma cols_of_length n rows : length (cols_of n rows) = n.
  Proof. unfold cols_of. rewrite map_length, seq_length. reflexivity. Qed.
  Lemma cols_of_colshape n rows c : In c (cols_of n rows) -> length c = length rows.
  Proof. unfold cols_of. intros H. apply in_map_iff in H. destruct H as (j & <- & _). apply map_length. Qed.
  Lemma cols_of_nth n rows j i : j < n -> nth i (nth j (cols_of n rows) []) d = nth j (nth i rows []) d.
  Proof.
    intros Hj. unfold cols_of.
    rewrite (nth_map_lt _ (seq 0 n) j 0) by (rewrite seq_length; exact Hj).
    rewrite seq_nth by exact Hj. cbn [plus].
    destruct (Nat.lt_ge_cases i (length rows)) as [Hi|Hi].
    - rewrite (nth_map_lt _ rows i []) by exact Hi. reflexivity.
    - rewrite (nth_overflow (map _ rows)) by (rewrite map_length; exact Hi).
      rewrite (nth_overflow rows) by exact Hi. destruct j; reflexivity.
  Qed.

  (* column_stack of equally long columns, read back by rows *)
  Lemma cols_to_rows_ok k (cols : list (list X)) : Forall (fun c => length c = k) cols ->
    cols_to_rows k cols = Ok (map (fun i => map (fun c => nth i c d) cols) (seq 0 k)).
  Proof.
    intros H. unfold cols_to_rows.
    rewrite (mapM__ext _ (fun i => Ok (map (fun c => nth i c d) cols))); [apply mapM__pure|].
    intros i Hi. apply in_seq in Hi.
    rewrite (mapM__ext _ (fun c => Ok (nth i c d))); [apply mapM__pure|].
    intros c Hc. rewrite Forall_forall in H. rewrite (nth_error_nth_some c i d); [reflexivity|]. rewrite (H c Hc). lia.
  Qed.

  Lemma rows_of_cols_of n rows : rect_rows n rows ->
    map (fun i => map (fun c => nth i c d) (cols_of n rows)) (seq 0 (length rows)) = rows.
  Proof.
    intros H. apply nth_error_ext. intros i. rewrite nth_error_map, nth_error_seq.
    destruct (Nat.ltb_spec i (length rows)) as [Hi|Hi]; cbn.
    - rewrite (nth_error_nth_some rows i []) by exact Hi. f_equal.
      unfold rect_rows in H. rewrite Forall_forall in H. pose proof (H (nth i rows []) (nth_In rows [] Hi)) as Hl.
      apply nth_error_ext. intros j. rewrite nth_error_map.
      destruct (Nat.lt_ge_cases j n) as [Hj|Hj].
      + rewrite (nth_error_nth_some (cols_of n rows) j []) by (rewrite cols_of_length; exact Hj). cbn.
        rewrite cols_of_nth by exact Hj. symmetry. apply nth_error_nth_some. lia.
      + rewrite (proj2 (nth_error_None (cols_of n rows) j)) by (rewrite cols_of_length; exact Hj). cbn.
        symmetry. apply nth_error_None. lia.
    - symmetry. apply nth_error_None. exact Hi.
  Qed.
End Columns.

Section Stack.
  Context {X : Type}.
  Variable d : X.

  Lemma common_length_eq k (ls : list (list X)) : Forall (fun l => length l = k) ls -> ls <> [] -> common_length ls = k.
  Proof.
    intros H Hne. unfold common_length.
    assert (Hk : forall (ls : list (list X)) acc, Forall (fun l => length l = k) ls -> acc = k ->
                 fold_left (fun n l => if Nat.eqb (length l) 1 then n else length l) ls acc = k).
    { clear. induction ls as [|l ls IH]; intros acc H Hacc; cbn; [exact Hacc|].
      inversion H as [|l' ls' Hl Hrest]; subst. apply IH; [exact Hrest|].
      destruct (Nat.eqb_spec (length l) 1); [reflexivity|reflexivity]. }
    destruct ls as [|l ls]; [congruence|]. cbn. inversion H as [|l' ls' Hl Hrest]; subst.
    apply Hk; [exact Hrest|]. destruct (Nat.eqb_spec (length l) 1) as [E|E]; [symmetry; exact E | reflexivity].
  Qed.

  Lemma broadcast_vectors_same k (ls : list (list X)) :
    Forall (fun l => length l = k) ls -> ls <> [] -> broadcast_vectors ls = Ok ls.
  Proof.
    intros H Hne. unfold broadcast_vectors. rewrite (common_length_eq k ls H Hne).
    rewrite (mapM__ext _ (fun l => Ok ((fun l => l) l))).
    - rewrite mapM__pure. rewrite map_id. reflexivity.
    - intros l Hl. rewrite Forall_forall in H. unfold broadcast_to. rewrite (H l Hl), Nat.eqb_refl. reflexivity.
  Qed.

  Lemma column_stack_same k (cols : list (list X)) :
    Forall (fun c => length c = k) cols -> cols <> [] ->
    column_stack cols = Ok (Mat (map (fun i => map (fun c => nth i c d) cols) (seq 0 k))).
  Proof.
    intros H Hne. unfold column_stack. destruct cols as [|c cols]; [congruence|].
    inversion H as [|c' cols' Hc Hrest]; subst.
    replace (forallb (fun c' => Nat.eqb (length c') (length c)) cols) with true.
    - rewrite (cols_to_rows_ok d (length c) (c :: cols) H). reflexivity.
    - symmetry. apply forallb_forall. intros c' Hc'. rewrite Forall_forall in Hrest. rewrite (Hrest c' Hc'). apply Nat.eqb_refl.
  Qed.
End Stack.

Section Setter.
  Context {T : Type} {N : Num T}.

  Definition iv_clip (iv : input_var T) (x : T) : T :=
    if iv_lock_range iv then clip (iv_min iv) (iv_max iv) x else x.
  Lemma iv_set_value_vec (iv : input_var T) l : iv_set_value iv (Vec l) = Vec (map (iv_clip iv) l).
  Proof.
    unfold iv_set_value, set_value_b, iv_clip. destruct (iv_lock_range iv); cbn; [reflexivity|].
    rewrite map_id. reflexivity.
  Qed.

  (* the value of every input variable after `engine.input_values = <the matrix with these rows>` *)
  Definition batch_inputs (e : engine T) (rows : list (list T)) : list (arr T) :=
    map2 (fun iv c => Vec (map (iv_clip iv) c)) (e_inputs e) (cols_of nan (length (e_inputs e)) rows).
  (* the clipped matrix *)
  Definition clip_rows (e : engine T) (rows : list (list T)) : list (list T) := map (map2 iv_clip (e_inputs e)) rows.

  Lemma batch_inputs_length e rows : length (batch_inputs e rows) = length (e_inputs e).
  Proof. unfold batch_inputs. apply map2_length. rewrite cols_of_length. reflexivity. Qed.

  Lemma batch_inputs_nth e rows j iv :
    nth_error (e_inputs e) j = Some iv ->
    nth_error (batch_inputs e rows) j = Some (Vec (map (fun r => iv_clip iv (nth j r nan)) rows)).
  Proof.
    intros H. unfold batch_inputs. rewrite map2_nth_error, H.
    assert (Hj : j < length (e_inputs e)) by (apply nth_error_Some; congruence).
    unfold cols_of. rewrite nth_error_map, nth_error_seq. rewrite (proj2 (Nat.ltb_lt _ _) Hj). cbn.
    rewrite map_map. reflexivity.
  Qed.

  Lemma batch_inputs_colshape e rows : Forall (colshape (length rows)) (batch_inputs e rows).
  Proof.
    apply Forall_forall. intros a Ha. apply In_nth_error in Ha. destruct Ha as (j & Hj).
    destruct (nth_error (e_inputs e) j) as [iv|] eqn:Hiv.
    - rewrite (batch_inputs_nth e rows j iv Hiv) in Hj. injection Hj as <-. cbn. apply map_length.
    - apply nth_error_None in Hiv. rewrite <- (batch_inputs_length e rows) in Hiv.
      apply nth_error_None in Hiv. congruence.
  Qed.

  (* 2-d: one column per input variable, through the clipping setter *)
  Theorem input_values_set_matrix (e : engine T) (rows : list (list T)) :
    e_inputs e <> [] -> rows <> [] -> rect_rows (length (e_inputs e)) rows ->
    input_values_set e (Mat rows) = Ok (batch_inputs e rows).
  Proof.
    intros Hn Hr Hrect. unfold input_values_set. cbn [input_values_matrix].
    destruct (e_inputs e) as [|iv0 ins0] eqn:Hins; [congruence|]. rewrite <- Hins in *.
    replace (Nat.eqb (length (e_inputs e)) 0) with false by (rewrite Hins; reflexivity).
    assert (Hc : ncols rows = length (e_inputs e)).
    { destruct rows as [|r rows]; [congruence|]. cbn. inversion Hrect; subst. assumption. }
    rewrite Hc, Nat.eqb_refl. cbn [negb].
    rewrite (mapM__ext _ (fun j => Ok (nth j (batch_inputs e rows) (Sc nan)))).
    - rewrite mapM__pure. f_equal. apply nth_error_ext. intros j. rewrite nth_error_map, nth_error_seq.
      destruct (Nat.ltb_spec j (length (e_inputs e))) as [Hj|Hj]; cbn.
      + symmetry. apply nth_error_nth_some. rewrite batch_inputs_length. exact Hj.
      + symmetry. apply nth_error_None. rewrite batch_inputs_length. exact Hj.
    - intros j Hj. apply in_seq in Hj. cbn in Hj.
      destruct (nth_error (e_inputs e) j) as [iv|] eqn:Hiv; [|apply nth_error_None in Hiv; lia].
      rewrite (column_ok nan (length (e_inputs e)) rows j Hrect) by lia. cbn.
      rewrite iv_set_value_vec, map_map.
      pose proof (batch_inputs_nth e rows j iv Hiv) as Hb.
      rewrite (nth_error_nth_some _ j (Sc nan)) in Hb by (rewrite batch_inputs_length; lia).
      injection Hb as ->. reflexivity.
  Qed.

  (* the other forms of the setter reduce to a matrix *)
  Theorem input_values_set_shapes (e : engine T) :
    let n := length (e_inputs e) in
    (forall x, input_values_set e (Sc x) = input_values_set e (Mat [repeat x n])) /\
    (forall l, n = 1 -> input_values_set e (Vec l) = input_values_set e (Mat (map (fun x => [x]) l))) /\
    (forall l, n <> 1 -> input_values_set e (Vec l) = input_values_set e (Mat [l])) /\
    (forall rows, n <> 0 -> ncols rows <> n -> input_values_set e (Mat rows) = Err EValue) /\
    (forall values, n = 0 -> input_values_set e values = Err ERuntime).
  Proof.
    cbv zeta. repeat split.
    - intros l Hn. unfold input_values_set, input_values_matrix. rewrite Hn. reflexivity.
    - intros l Hn. unfold input_values_set, input_values_matrix.
      rewrite (proj2 (Nat.eqb_neq _ _) Hn). reflexivity.
    - intros rows Hn Hc. unfold input_values_set. cbn [input_values_matrix].
      rewrite (proj2 (Nat.eqb_neq _ _) Hn), (proj2 (Nat.eqb_neq _ _) Hc). reflexivity.
    - intros values Hn. unfold input_values_set. rewrite Hn. reflexivity.
  Qed.

  (* the getter on (k,) columns: the matrix whose row i holds the i-th value of every variable *)
  Lemma stack_values_cols k (ins : list (arr T)) : Forall (colshape k) ins -> ins <> [] ->
    stack_values ins = Ok (Mat (map (fun i => map (fun a => aget nan a i) ins) (seq 0 k))).
  Proof.
    intros H Hne. unfold stack_values. destruct ins as [|a0 ins0] eqn:Hins; [congruence|]. rewrite <- Hins in *.
    set (ls := map (fun a => match a with Vec l => l | _ => [] end) ins).
    assert (Hv : mapM_ (@as_vector T) ins = Ok ls).
    { subst ls. clear Hne Hins. induction ins as [|a ins IH]; cbn; [reflexivity|].
      inversion H as [|a' ins' Ha Hrest]; subst. destruct a as [x|l|r]; cbn in Ha; try contradiction.
      cbn. rewrite (IH Hrest). reflexivity. }
    rewrite Hv. cbn [bind].
    assert (Hl : Forall (fun l => length l = k) ls).
    { subst ls. apply Forall_forall. intros l Hl. apply in_map_iff in Hl. destruct Hl as (a & <- & Ha).
      rewrite Forall_forall in H. specialize (H a Ha). destruct a; cbn in H; try contradiction. exact H. }
    assert (Hlne : ls <> []) by (subst ls; rewrite Hins; discriminate).
    rewrite (broadcast_vectors_same k ls Hl Hlne). cbn [bind].
    rewrite (column_stack_same nan k ls Hl Hlne). f_equal. f_equal.
    apply map_ext. intros i. subst ls. rewrite map_map. apply map_ext_in. intros a Ha.
    rewrite Forall_forall in H. specialize (H a Ha). destruct a; cbn in H; try contradiction. reflexivity.
  Qed.

  (* getter after setter: the matrix itself, clipped where a variable locks its range *)
  Theorem input_values_get_set (e : engine T) (rows : list (list T)) :
    e_inputs e <> [] -> rows <> [] -> rect_rows (length (e_inputs e)) rows ->
    stack_values (batch_inputs e rows) = Ok (Mat (clip_rows e rows)).
  Proof.
    intros Hn Hr Hrect.
    assert (Hne : batch_inputs e rows <> []).
    { intros E. apply (f_equal (@length _)) in E. rewrite batch_inputs_length in E. destruct (e_inputs e); [congruence|discriminate]. }
    rewrite (stack_values_cols (length rows) _ (batch_inputs_colshape e rows) Hne). f_equal. f_equal.
    unfold clip_rows. apply nth_error_ext. intros i. rewrite !nth_error_map, nth_error_seq.
    destruct (Nat.ltb_spec i (length rows)) as [Hi|Hi]; cbn.
    - rewrite (nth_error_nth_some rows i []) by exact Hi. cbn. f_equal.
      unfold rect_rows in Hrect. rewrite Forall_forall in Hrect. pose proof (Hrect _ (nth_In rows [] Hi)) as Hl.
      apply nth_error_ext. intros j. rewrite nth_error_map, map2_nth_error.
      destruct (nth_error (e_inputs e) j) as [iv|] eqn:Hiv.
      + rewrite (batch_inputs_nth e rows j iv Hiv). cbn.
        assert (Hj : j < length (e_inputs e)) by (apply nth_error_Some; congruence).
        rewrite (nth_error_nth_some (nth i rows []) j nan) by lia.
        rewrite (nth_map_lt _ rows i []) by exact Hi. reflexivity.
      + apply nth_error_None in Hiv. rewrite <- (batch_inputs_length e rows) in Hiv.
        apply nth_error_None in Hiv. rewrite Hiv. reflexivity.
    - rewrite (proj2 (nth_error_None rows i) Hi). reflexivity.
  Qed.

  Lemma clip_rows_id (e : engine T) rows :
    (forall iv, In iv (e_inputs e) -> iv_lock_range iv = false) -> rect_rows (length (e_inputs e)) rows ->
    clip_rows e rows = rows.
  Proof.
    intros Hl Hrect. unfold clip_rows. rewrite <- (map_id rows) at 2. apply map_ext_in. intros r Hr.
    unfold rect_rows in Hrect. rewrite Forall_forall in Hrect. specialize (Hrect r Hr).
    clear Hr. revert r Hrect. induction (e_inputs e) as [|iv ins IH]; intros [|x r] Hlen; cbn in *; try discriminate; [reflexivity|].
    f_equal; [unfold iv_clip; rewrite (Hl iv (or_introl eq_refl)); reflexivity|].
    apply IH; [intros iv' H'; apply Hl; right; exact H' | lia].
  Qed.

  (* get (set m) = m *)
  Theorem input_values_setter_getter (e : engine T) (rows : list (list T)) :
    e_inputs e <> [] -> rows <> [] -> rect_rows (length (e_inputs e)) rows ->
    (forall iv, In iv (e_inputs e) -> iv_lock_range iv = false) ->
    exists ins, input_values_set e (Mat rows) = Ok ins /\ stack_values ins = Ok (Mat rows).
  Proof.
    intros Hn Hr Hrect Hl. exists (batch_inputs e rows). split; [apply input_values_set_matrix; assumption|].
    rewrite (input_values_get_set e rows Hn Hr Hrect), (clip_rows_id e rows Hl Hrect). reflexivity.
  Qed.
End Setter.

(* ================================================================================================ *)
(* 3. One row of a batch state is a scalar engine state                                              *)
(* ================================================================================================ *)
Section MapEq2.
  Context {A B C : Type}.
  Lemma map_eq_nth2 (f : A -> C) (g : B -> C) (l1 : list A) (l2 : list B) (i : nat) :
    map f l1 = map g l2 ->
    match nth_error l1 i, nth_error l2 i with
    | Some a, Some b => f a = g b
    | None, None => True
    | _, _ => False
    end.
  Proof.
    intros H. pose proof (f_equal (fun l => nth_error l i) H) as H'. cbn in H'. rewrite !nth_error_map in H'.
    destruct (nth_error l1 i), (nth_error l2 i); cbn in H'; congruence || exact I.
  Qed.
  Lemma update_nth_map2 (f : A -> A) (g : C -> C) (h : A -> C) (i : nat) (l : list A) :
    (forall a, h (f a) = g (h a)) -> map h (update_nth i f l) = update_nth i g (map h l).
  Proof. intros H. revert i; induction l as [|a l IH]; intros [|i]; cbn; auto; f_equal; auto. Qed.
  Lemma update_nth_length (f : A -> A) (i : nat) (l : list A) : length (update_nth i f l) = length l.
  Proof. revert i; induction l as [|a l IH]; intros [|i]; cbn; auto. Qed.
  Lemma Forall_update_nth (P : A -> Prop) (f : A -> A) (i : nat) (l : list A) :
    Forall P l -> (forall a, P a -> P (f a)) -> Forall P (update_nth i f l).
  Proof.
    intros H Hf. revert i; induction H as [|a l Ha Hl IH]; intros [|i]; cbn; constructor; auto.
  Qed.
End MapEq2.

(* the two scalar models of Aggregated.grouped_terms (Model/Antecedent.v: name -> degree; Model/Weighted.v: the
   grouped Activated terms) agree *)
Section GroupedScalar.
  Context {T : Type} {N : Num T}.
  Definition nd (g : activated T) : string * T := (act_name g, a_degree g).

  Lemma group_insert_nd s (a : activated T) G :
    map nd (Weighted.group_insert s a G) = Antecedent.group_insert s (act_name a) (a_degree a) (map nd G).
  Proof.
    induction G as [|g G IH]; cbn; [reflexivity|].
    destruct (String.eqb (act_name g) (act_name a)); cbn; [reflexivity|]. f_equal. exact IH.
  Qed.

  Lemma grouped_terms_nd agg (l : list (activated T)) :
    map nd (Weighted.grouped_terms agg l) = Antecedent.grouped_terms agg l.
  Proof.
    unfold Weighted.grouped_terms, Antecedent.grouped_terms.
    change (match agg with Some a => a | None => SN S_UnboundedSum end) with (agg_or_sum agg).
    change (@nil (string * T)) with (map nd []). generalize (@nil (activated T)) as G.
    induction l as [|a l IH]; intros G; cbn [fold_left]; [reflexivity|].
    rewrite IH, group_insert_nd. reflexivity.
  Qed.

  Lemma fuzzy_activation_degree_nd agg (l : list (activated T)) name :
    Antecedent.fuzzy_activation_degree agg l name =
    match find (fun g => String.eqb (act_name g) name) (Weighted.grouped_terms agg l) with
    | Some g => a_degree g | None => zero end.
  Proof.
    unfold Antecedent.fuzzy_activation_degree. rewrite <- grouped_terms_nd.
    induction (Weighted.grouped_terms agg l) as [|g G IH]; cbn; [reflexivity|].
    destruct (String.eqb (act_name g) name); [reflexivity | exact IH].
  Qed.
End GroupedScalar.

Section Row.
  Context {T : Type} {N : Num T}.
  Variables (e : engine T) (ins : list (arr T)) (k i : nat).
  Hypothesis Hi : i < k.
  Hypothesis Hins : Forall (colshape k) ins.
  Hypothesis Hlen : length ins = length (e_inputs e).
  Hypothesis Hne : e_inputs e <> [].

  Notation fe := (@no_function T).
  Notation tm := (term_membership fe).

  (* row i of the inputs *)
  Definition iv_at (iv : input_var T) (a : arr T) : input_var T :=
    {| iv_name := iv_name iv; iv_enabled := iv_enabled iv; iv_min := iv_min iv; iv_max := iv_max iv;
       iv_lock_range := iv_lock_range iv; iv_terms := iv_terms iv; iv_value := aget nan a i |}.
  Definition row_inputs : list (input_var T) := map2 iv_at (e_inputs e) ins.

  (* row i of an activated term / of a fuzzy output *)
  Definition proj_act (a : bactivated T) : activated T :=
    {| a_term := ba_term a; a_degree := aget nan (ba_degree a) i; a_implication := ba_implication a |}.
  Definition fzshape (l : list (bactivated T)) : Prop := Forall (fun a => rowshape k (ba_degree a)) l.

  (* a batch state over (e, ins) *)
  Definition over (st : bstate T) : Prop := bs_e st = e /\ bs_inputs st = ins.
  Lemma over_with_outputs st outs : over st -> over (with_outputs_b st outs).
  Proof. intros [H1 H2]. split; assumption. Qed.

  Lemma row_inputs_values : map (fun iv : input_var T => iv_value iv) row_inputs = map (fun a => aget nan a i) ins.
  Proof.
    unfold row_inputs. revert Hlen. generalize (e_inputs e) as ivs. clear.
    induction ins as [|a l IH]; intros [|iv ivs] H; cbn in *; try discriminate; [reflexivity|].
    f_equal. apply IH. lia.
  Qed.
  Lemma row_inputs_length : length row_inputs = length (e_inputs e).
  Proof. unfold row_inputs. apply map2_length. symmetry. exact Hlen. Qed.

  Lemma ins_nonempty : ins <> [].
  Proof. intros E. rewrite E in Hlen. destruct (e_inputs e); [congruence|discriminate]. Qed.

  (* ---- (A) Term.membership on a row-shaped argument *)
  Lemma term_membership_row st t x E :
    over st -> e_inputs E = row_inputs -> rowshape k x ->
    match term_membership_b st t x with
    | Ok y => rowshape k y /\ tm E t (aget nan x i) = Ok (aget nan y i)
    | Err er => tm E t (aget nan x i) = Err er
    end.
  Proof.
    intros [Hse Hsi] HE Hx. destruct t as [name s|name xy h|name cs|name [f|] vars]; cbn [term_membership_b term_membership].
    - split; [apply rowshape_lift1; exact Hx|]. f_equal. symmetry. apply (aget_lift1 k); assumption.
    - destruct xy as [|p xy]; [reflexivity|].
      split; [apply rowshape_lift1; exact Hx|]. f_equal. symmetry. apply (aget_lift1 k); assumption.
    - unfold linear_membership_b, linear_membership. rewrite Hse, HE, row_inputs_length.
      destruct (negb _); [reflexivity|].
      unfold input_values_get. rewrite Hsi, (stack_values_cols k ins Hins ins_nonempty). cbn [bind rows_of].
      split; [cbn; rewrite !map_length, seq_length; reflexivity|].
      f_equal. cbn [aget]. rewrite map_map.
      rewrite (nth_map_lt _ (seq 0 k) i 0) by (rewrite seq_length; exact Hi).
      rewrite seq_nth by exact Hi. cbn [plus]. rewrite row_inputs_values. reflexivity.
    - reflexivity.
    - reflexivity.
  Qed.

  Lemma term_tsukamoto_row t y :
    rowshape k y ->
    match term_tsukamoto_b t y with
    | Ok z => rowshape k z /\ term_tsukamoto t (aget nan y i) = Ok (aget nan z i)
    | Err er => term_tsukamoto t (aget nan y i) = Err er
    end.
  Proof.
    intros Hy. destruct t as [name s|name xy h|name cs|name f vars]; cbn [term_tsukamoto_b term_tsukamoto]; try reflexivity.
    destruct (shape_tsukamoto s) as [g|]; [|reflexivity].
    split; [apply rowshape_lift1; exact Hy|]. f_equal. symmetry. apply (aget_lift1 k); assumption.
  Qed.

  (* ---- (B) grouped terms *)
  Lemma proj_new_group a : rowshape k (ba_degree a) -> proj_act (new_group_b a) = Weighted.new_group (proj_act a).
  Proof.
    intros Ha. unfold proj_act, new_group_b, Weighted.new_group. cbn. f_equal. apply (aget_lift1 k); assumption.
  Qed.

  Lemma group_insert_row s a G :
    rowshape k (ba_degree a) -> fzshape G ->
    exists G', group_insert_b s a G = Ok G' /\ fzshape G' /\
               map proj_act G' = Weighted.group_insert s (proj_act a) (map proj_act G).
  Proof.
    intros Ha HG. induction HG as [|g G Hg HG IH]; cbn [group_insert_b Weighted.group_insert map].
    - eexists; split; [reflexivity|]. split.
      + constructor; [|constructor]. cbn. apply rowshape_lift1. exact Ha.
      + cbn. rewrite (proj_new_group a Ha). reflexivity.
    - change (act_name (proj_act g)) with (bact_name g). change (act_name (proj_act a)) with (bact_name a).
      destruct (String.eqb (bact_name g) (bact_name a)).
      + unfold update_group_b.
        destruct (lift2_rows k (snormx_compute s) (ba_degree g) (ba_degree a) Hg Ha) as (c & Hc & Hcs & Hcv).
        rewrite Hc. cbn [bind]. eexists; split; [reflexivity|]. split.
        * constructor; [cbn; apply rowshape_lift1; exact Hcs | exact HG].
        * cbn [map]. f_equal. unfold proj_act, Weighted.update_group. cbn. f_equal.
          rewrite (aget_lift1 k sanitize c i nan nan Hcs Hi). f_equal. apply Hcv. exact Hi.
      + destruct IH as (G' & HG' & Hs' & Hm'). rewrite HG'. cbn [bind].
        eexists; split; [reflexivity|]. split; [constructor; assumption|]. cbn [map]. f_equal. exact Hm'.
  Qed.

  Lemma grouped_from_row s l : forall G, fzshape l -> fzshape G ->
    exists G', grouped_from_b s l G = Ok G' /\ fzshape G' /\
               map proj_act G' = fold_left (fun groups a => Weighted.group_insert s a groups) (map proj_act l) (map proj_act G).
  Proof.
    induction l as [|a l IH]; intros G Hl HG; cbn [grouped_from_b map fold_left].
    - eexists; split; [reflexivity|]. split; [exact HG | reflexivity].
    - inversion Hl as [|a' l' Ha Hl']; subst.
      destruct (group_insert_row s a G Ha HG) as (G1 & H1 & Hs1 & Hm1). rewrite H1. cbn [bind].
      destruct (IH G1 Hl' Hs1) as (G' & H' & Hs' & Hm'). exists G'. split; [exact H'|]. split; [exact Hs'|].
      rewrite Hm', Hm1. reflexivity.
  Qed.

  Lemma grouped_terms_row agg l : fzshape l ->
    exists G, grouped_terms_b agg l = Ok G /\ fzshape G /\ map proj_act G = Weighted.grouped_terms agg (map proj_act l).
  Proof.
    intros Hl. unfold grouped_terms_b, Weighted.grouped_terms.
    destruct (grouped_from_row (agg_or_sum agg) l [] Hl (Forall_nil _)) as (G & H & Hs & Hm). eauto.
  Qed.

  Lemma fuzzy_activation_degree_row agg l name : fzshape l ->
    exists d, fuzzy_activation_degree_b agg l name = Ok d /\ rowshape k d /\
              aget nan d i = Antecedent.fuzzy_activation_degree agg (map proj_act l) name.
  Proof.
    intros Hl. unfold fuzzy_activation_degree_b.
    destruct (grouped_terms_row agg l Hl) as (G & H & Hs & Hm). rewrite H. cbn [bind].
    rewrite fuzzy_activation_degree_nd, <- Hm. clear H Hm.
    induction Hs as [|g G Hg HG IH]; cbn [find map].
    - eexists; split; [reflexivity|]. split; [exact I | reflexivity].
    - change (act_name (proj_act g)) with (bact_name g).
      destruct (String.eqb (bact_name g) name); [|exact IH].
      eexists; split; [reflexivity|]. split; [exact Hg | reflexivity].
  Qed.
  (* ---- the relation between the scalar outputs of row i and the batch outputs *)
  Definition orel (outs : list (output_var T)) (bouts : list (boutput T)) : Prop :=
    map ov_static outs = map ov_static (e_outputs e) /\
    map (@ov_fuzzy T) outs = map (fun bo => map proj_act (bo_fuzzy bo)) bouts /\
    Forall (fun bo => fzshape (bo_fuzzy bo)) bouts.

  Lemma orel_nth outs bouts j : orel outs bouts ->
    match nth_error outs j, nth_error (e_outputs e) j, nth_error bouts j with
    | Some ov, Some ov0, Some bo => ov_static ov = ov_static ov0 /\ ov_fuzzy ov = map proj_act (bo_fuzzy bo) /\ fzshape (bo_fuzzy bo)
    | None, None, None => True
    | _, _, _ => False
    end.
  Proof.
    intros (H1 & H2 & H3).
    pose proof (map_eq_nth ov_static _ _ j H1) as A. pose proof (map_eq_nth2 _ _ _ _ j H2) as B.
    destruct (nth_error outs j) as [ov|], (nth_error (e_outputs e) j) as [ov0|], (nth_error bouts j) as [bo|] eqn:Hb;
      try contradiction; try exact I.
    split; [exact A|]. split; [exact B|]. rewrite Forall_forall in H3. apply H3. eapply nth_error_In. exact Hb.
  Qed.

  Lemma ov_static_fields (a b : output_var T) : ov_static a = ov_static b ->
    ov_enabled a = ov_enabled b /\ ov_terms a = ov_terms b /\ ov_aggregation a = ov_aggregation b /\
    ov_defuzzifier a = ov_defuzzifier b /\ ov_min a = ov_min b /\ ov_max a = ov_max b /\
    ov_lock_range a = ov_lock_range b /\ ov_lock_previous a = ov_lock_previous b /\ ov_default a = ov_default b.
  Proof. unfold ov_static. intros H. injection H. intros. repeat split; assumption. Qed.

  (* the scalar engine a rule of row i is evaluated against *)
  Definition rview (V : engine T) (outs : list (output_var T)) : Prop := e_inputs V = row_inputs /\ e_outputs V = outs.

  Lemma var_terms_row V outs bouts v : rview V outs -> orel outs bouts -> var_terms V v = var_terms e v.
  Proof.
    intros [HVi HVo] Ho. destruct v as [j|j]; cbn [var_terms].
    - rewrite HVi. unfold row_inputs. rewrite map2_nth_error.
      destruct (nth_error (e_inputs e) j) as [iv|] eqn:Hiv; [|reflexivity].
      destruct (nth_error ins j) as [a|] eqn:Ha; [reflexivity|].
      apply nth_error_None in Ha. assert (j < length (e_inputs e)) by (apply nth_error_Some; congruence). lia.
    - rewrite HVo. pose proof (orel_nth outs bouts j Ho) as H.
      destruct (nth_error outs j) as [ov|], (nth_error (e_outputs e) j) as [ov0|], (nth_error bouts j) as [bo|];
        try contradiction; try reflexivity.
      cbn. f_equal. apply (ov_static_fields _ _ (proj1 H)).
  Qed.

  Lemma var_enabled_row V outs bouts v : rview V outs -> orel outs bouts -> var_enabled V v = var_enabled e v.
  Proof.
    intros [HVi HVo] Ho. destruct v as [j|j]; cbn [var_enabled].
    - rewrite HVi. unfold row_inputs. rewrite map2_nth_error.
      destruct (nth_error (e_inputs e) j) as [iv|] eqn:Hiv; [|reflexivity].
      destruct (nth_error ins j) as [a|] eqn:Ha; [reflexivity|].
      apply nth_error_None in Ha. assert (j < length (e_inputs e)) by (apply nth_error_Some; congruence). lia.
    - rewrite HVo. pose proof (orel_nth outs bouts j Ho) as H.
      destruct (nth_error outs j) as [ov|], (nth_error (e_outputs e) j) as [ov0|], (nth_error bouts j) as [bo|];
        try contradiction; try reflexivity.
      cbn. f_equal. apply (ov_static_fields _ _ (proj1 H)).
  Qed.

  (* ---- (C) Antecedent.activation_degree *)
  Lemma activation_degree_row st V outs cj dj (x : expr) :
    over st -> rview V outs -> orel outs (bs_outputs st) ->
    match activation_degree_b st cj dj x with
    | Ok d => rowshape k d /\ Antecedent.activation_degree (tm V) cj dj V x = Ok (aget nan d i)
    | Err er => Antecedent.activation_degree (tm V) cj dj V x = Err er
    end.
  Proof.
    intros Hst HV Ho. induction x as [v hs t | is_and l IHl r IHr].
    - cbn [activation_degree_b Antecedent.activation_degree].
      rewrite (var_terms_row V outs _ v HV Ho), (var_enabled_row V outs _ v HV Ho).
      destruct Hst as [Hse Hsi]. rewrite Hse.
      destruct (var_terms e v) as [terms0|]; [|destruct (var_enabled e v); reflexivity].
      destruct (var_enabled e v) as [en|]; [|reflexivity].
      destruct terms0 as [|t0 terms]; [reflexivity|].
      destruct (negb en); [split; [exact I|reflexivity]|].
      destruct (last_is_any hs); [split; [exact I|reflexivity]|].
      destruct t as [kk|]; [|reflexivity].
      destruct (nth_error (t0 :: terms) kk) as [tmm|]; [|reflexivity].
      destruct v as [j|j].
      + destruct HV as [HVi HVo]. rewrite HVi, Hsi. unfold row_inputs. rewrite map2_nth_error.
        destruct (nth_error (e_inputs e) j) as [iv|] eqn:Hiv.
        * destruct (nth_error ins j) as [a|] eqn:Ha;
            [|apply nth_error_None in Ha; assert (j < length (e_inputs e)) by (apply nth_error_Some; congruence); lia].
          assert (Hra : rowshape k a).
          { apply colshape_rowshape. rewrite Forall_forall in Hins. apply Hins. eapply nth_error_In. exact Ha. }
          pose proof (term_membership_row st tmm a V (conj Hse Hsi) HVi Hra) as Hm. cbn [iv_value iv_at].
          destruct (term_membership_b st tmm a) as [y|er]; cbn [bind].
          -- destruct Hm as [Hy Hm]. rewrite Hm. cbn [bind]. split; [apply rowshape_lift1; exact Hy|].
             f_equal. symmetry. apply (aget_lift1 k); assumption.
          -- rewrite Hm. reflexivity.
        * destruct (nth_error ins j) as [a|] eqn:Ha; [|reflexivity].
          apply nth_error_None in Hiv. assert (j < length ins) by (apply nth_error_Some; congruence). lia.
      + destruct HV as [HVi HVo]. rewrite HVo. pose proof (orel_nth outs _ j Ho) as H.
        destruct (nth_error outs j) as [ov|], (nth_error (e_outputs e) j) as [ov0|], (nth_error (bs_outputs st) j) as [bo|];
          try contradiction; try reflexivity.
        destruct H as (Hs & Hf & Hsh).
        destruct (fuzzy_activation_degree_row (ov_aggregation ov0) (bo_fuzzy bo) (term_name tmm) Hsh) as (d & Hd & Hds & Hdv).
        rewrite Hd. cbn [bind]. split; [apply rowshape_lift1; exact Hds|].
        rewrite Hf. replace (ov_aggregation ov) with (ov_aggregation ov0) by (symmetry; apply (ov_static_fields _ _ Hs)).
        rewrite <- Hdv. f_equal. symmetry. apply (aget_lift1 k); assumption.
    - destruct is_and; cbn [activation_degree_b Antecedent.activation_degree].
      + destruct cj as [c|]; [|reflexivity].
        destruct (activation_degree_b st (Some c) dj l) as [a|er]; cbn [bind]; [|rewrite IHl; reflexivity].
        destruct IHl as [Ha IHl]. rewrite IHl. cbn [bind].
        destruct (activation_degree_b st (Some c) dj r) as [b|er]; cbn [bind]; [|rewrite IHr; reflexivity].
        destruct IHr as [Hb IHr]. rewrite IHr. cbn [bind].
        destruct (lift2_rows k (tnormx_compute c) a b Ha Hb) as (cc & Hc & Hcs & Hcv). rewrite Hc.
        split; [exact Hcs|]. f_equal. symmetry. apply Hcv. exact Hi.
      + destruct dj as [c|]; [|reflexivity].
        destruct (activation_degree_b st cj (Some c) l) as [a|er]; cbn [bind]; [|rewrite IHl; reflexivity].
        destruct IHl as [Ha IHl]. rewrite IHl. cbn [bind].
        destruct (activation_degree_b st cj (Some c) r) as [b|er]; cbn [bind]; [|rewrite IHr; reflexivity].
        destruct IHr as [Hb IHr]. rewrite IHr. cbn [bind].
        destruct (lift2_rows k (snormx_compute c) a b Ha Hb) as (cc & Hc & Hcs & Hcv). rewrite Hc.
        split; [exact Hcs|]. f_equal. symmetry. apply Hcv. exact Hi.
  Qed.

  Lemma rule_activate_with_row st V outs cj dj (r : rule T) :
    over st -> rview V outs -> orel outs (bs_outputs st) ->
    match rule_activate_with_b st cj dj r with
    | Ok d => rowshape k d /\ rule_activate_with (tm V) cj dj V r = Ok (aget nan d i)
    | Err er => rule_activate_with (tm V) cj dj V r = Err er
    end.
  Proof.
    intros Hst HV Ho. unfold rule_activate_with_b, rule_activate_with.
    destruct (rule_loaded r); [|reflexivity]. destruct (r_antecedent r) as [x|]; [|reflexivity].
    pose proof (activation_degree_row st V outs cj dj x Hst HV Ho) as H.
    destruct (activation_degree_b st cj dj x) as [d|er]; cbn [bind]; [|rewrite H; reflexivity].
    destruct H as [Hd H]. rewrite H. cbn [bind]. split; [apply rowshape_lift1; exact Hd|].
    f_equal. symmetry. apply (aget_lift1 k); assumption.
  Qed.
  (* ---- (D) Consequent.modify *)
  Lemma update_nth_id {A : Type} (j : nat) (l : list A) : update_nth j (fun x => x) l = l.
  Proof. revert j; induction l as [|a l IH]; intros [|j]; cbn; auto. f_equal. apply IH. Qed.

  Lemma orel_append outs bouts j (ba : bactivated T) :
    orel outs bouts -> rowshape k (ba_degree ba) ->
    orel (update_nth j (fun w => append_fuzzy w (proj_act ba)) outs) (update_nth j (bo_append ba) bouts).
  Proof.
    intros (H1 & H2 & H3) Hba. split; [|split].
    - rewrite (update_nth_map2 _ (fun x => x) ov_static); [rewrite update_nth_id; exact H1 | reflexivity].
    - rewrite (update_nth_map2 _ (fun l => l ++ [proj_act ba]) (@ov_fuzzy T)) by reflexivity.
      rewrite (update_nth_map2 (bo_append ba) (fun l => l ++ [proj_act ba]) (fun bo => map proj_act (bo_fuzzy bo))).
      + rewrite H2. reflexivity.
      + intros bo. cbn. rewrite map_app. reflexivity.
    - apply Forall_update_nth; [exact H3|]. intros bo Hbo. cbn. apply Forall_app. split; [exact Hbo|].
      constructor; [exact Hba | constructor].
  Qed.

  Lemma proj_mk_bactivated t D impl : rowshape k D -> proj_act (mk_bactivated t D impl) = mk_activated t (aget nan D i) impl.
  Proof. intros HD. unfold proj_act, mk_bactivated, mk_activated. cbn. f_equal. apply (aget_lift1 k); assumption. Qed.

  Lemma modify_loop_row carry impl cs : forall D outs bouts,
    rowshape k D -> orel outs bouts ->
    match modify_loop_b e carry D impl cs bouts with
    | Ok bouts' => exists outs', modify_loop carry (aget nan D i) impl cs outs = Ok outs' /\ orel outs' bouts'
    | Err er => modify_loop carry (aget nan D i) impl cs outs = Err er
    end.
  Proof.
    induction cs as [|c cs IH]; intros D outs bouts HD Ho; cbn [modify_loop_b modify_loop].
    - exists outs. split; [reflexivity | exact Ho].
    - pose proof (orel_nth outs bouts (c_var c) Ho) as H.
      destruct (nth_error outs (c_var c)) as [v|], (nth_error (e_outputs e) (c_var c)) as [v0|],
               (nth_error bouts (c_var c)) as [bo|]; try contradiction; try reflexivity.
      destruct H as (Hs & Hf & Hsh). destruct (ov_static_fields _ _ Hs) as (Hen & Hterms & _).
      unfold var_truthy. rewrite Hterms, Hen.
      destruct (negb (negb (is_nil (ov_terms v0)))); [reflexivity|].
      destruct (ov_enabled v0).
      + destruct (nth_error (ov_terms v0) (c_term c)) as [t|]; [|reflexivity].
        set (D' := lift1 (Consequent.apply_hedges (c_hedges c)) D).
        assert (HD' : rowshape k D') by (apply rowshape_lift1; exact HD).
        assert (Hv' : aget nan D' i = Consequent.apply_hedges (c_hedges c) (aget nan D i)) by (apply (aget_lift1 k); assumption).
        rewrite <- Hv', <- (proj_mk_bactivated t D' impl HD').
        assert (Hsan : rowshape k (ba_degree (mk_bactivated t D' impl))) by (cbn; apply rowshape_lift1; exact HD').
        pose proof (orel_append outs bouts (c_var c) (mk_bactivated t D' impl) Ho Hsan) as Ho'.
        destruct carry.
        * exact (IH D' _ _ HD' Ho').
        * exact (IH D _ _ HD Ho').
      + exact (IH D outs bouts HD Ho).
  Qed.

  Lemma modify_row impl cs D outs bouts :
    rowshape k D -> orel outs bouts ->
    match modify_b e D impl cs bouts with
    | Ok bouts' => exists outs', modify (aget nan D i) impl cs outs = Ok outs' /\ orel outs' bouts'
    | Err er => modify (aget nan D i) impl cs outs = Err er
    end.
  Proof.
    intros HD Ho. unfold modify_b, modify, modify_gen. destruct (is_nil cs); [reflexivity|].
    apply modify_loop_row; assumption.
  Qed.

  (* ---- (E) the General loop *)
  Lemma rview_view E outs : e_inputs E = row_inputs -> rview (view E outs) outs.
  Proof. intros H. split; [exact H | reflexivity]. Qed.

  Lemma rule_step_row st E b outs bouts r :
    over st -> e_inputs E = row_inputs -> orel outs bouts ->
    match rule_step_b st (b_conjunction b) (b_disjunction b) (b_implication b) bouts r with
    | Ok ro => exists outs', rule_contribution fe E b outs r = Ok outs' /\ orel outs' (snd ro)
    | Err er => rule_contribution fe E b outs r = Err er
    end.
  Proof.
    intros Hst HE Ho. unfold rule_step_b, rule_contribution, firing_degree.
    destruct (rule_loaded r); [|exists outs; split; [reflexivity | exact Ho]].
    pose proof (rule_activate_with_row (with_outputs_b st bouts) (view E outs) outs (b_conjunction b) (b_disjunction b) r
                  (over_with_outputs st bouts Hst) (rview_view E outs HE) Ho) as H.
    destruct (rule_activate_with_b (with_outputs_b st bouts) _ _ r) as [D|er]; cbn [bind]; [|rewrite H; reflexivity].
    destruct H as [HD H]. rewrite H. cbn [bind]. destruct Hst as [Hse _]. rewrite Hse.
    destruct (r_enabled r); [|exists outs; split; [reflexivity | exact Ho]].
    pose proof (modify_row (b_implication b) (r_consequent r) D outs bouts HD Ho) as Hm.
    destruct (modify_b e D _ _ bouts) as [bouts'|er]; cbn [bind]; [|exact Hm].
    exact Hm.
  Qed.

  Lemma rules_step_row st E b rs : forall outs bouts,
    over st -> e_inputs E = row_inputs -> orel outs bouts ->
    match rules_step_b st (b_conjunction b) (b_disjunction b) (b_implication b) bouts rs with
    | Ok ro => exists outs', rules_contribution fe E b outs rs = Ok outs' /\ orel outs' (snd ro)
    | Err er => rules_contribution fe E b outs rs = Err er
    end.
  Proof.
    induction rs as [|r rs IH]; intros outs bouts Hst HE Ho; cbn [rules_step_b rules_contribution].
    - exists outs. split; [reflexivity | exact Ho].
    - pose proof (rule_step_row st E b outs bouts r Hst HE Ho) as H.
      destruct (rule_step_b st _ _ _ bouts r) as [[rec bouts1]|er]; cbn [bind fst snd]; [|rewrite H; reflexivity].
      destruct H as (outs1 & H1 & Ho1). rewrite H1. cbn [bind].
      specialize (IH outs1 bouts1 Hst HE Ho1).
      destruct (rules_step_b st _ _ _ bouts1 rs) as [[recs bouts2]|er]; cbn [bind fst snd]; [|exact IH].
      exact IH.
  Qed.

  Lemma blocks_step_row st E bs : forall outs bouts recs,
    over st -> e_inputs E = row_inputs -> orel outs bouts ->
    (forall b, In b bs -> b_enabled b = true -> is_general b = true) ->
    match blocks_step_b st bouts bs recs with
    | Ok ro => exists outs', blocks_contribution fe E outs bs = Ok outs' /\ orel outs' (snd ro)
    | Err er => blocks_contribution fe E outs bs = Err er
    end.
  Proof.
    induction bs as [|b bs IH]; intros outs bouts recs Hst HE Ho Hg; cbn [blocks_step_b blocks_contribution].
    - exists outs. split; [reflexivity | exact Ho].
    - assert (Hg' : forall b', In b' bs -> b_enabled b' = true -> is_general b' = true) by (intros b' H'; apply Hg; right; exact H').
      destruct (b_enabled b) eqn:Hen.
      + replace (is_general_b b) with true by (symmetry; apply (Hg b (or_introl eq_refl) Hen)).
        pose proof (rules_step_row st E b (b_rules b) outs bouts Hst HE Ho) as H.
        destruct (rules_step_b st _ _ _ bouts (b_rules b)) as [[rec bouts1]|er]; cbn [bind fst snd]; [|rewrite H; reflexivity].
        destruct H as (outs1 & H1 & Ho1). rewrite H1. cbn [bind].
        specialize (IH outs1 bouts1 (match recs with _ :: t => t | [] => [] end) Hst HE Ho1 Hg').
        destruct (blocks_step_b st bouts1 bs _) as [[recs' bouts2]|er]; cbn [bind fst snd]; [|exact IH].
        exact IH.
      + specialize (IH outs bouts (match recs with _ :: t => t | [] => [] end) Hst HE Ho Hg').
        destruct (blocks_step_b st bouts bs _) as [[recs' bouts2]|er]; cbn [bind fst snd]; [|exact IH].
        exact IH.
  Qed.
End Row.
