(* BatchProofs.v — the vectorised pipeline (Model/Batch.v) computes, row for row, what the scalar Engine.process
   (Model/Engine.v) computes on the rows one after the other (property C02).

   Everything is generic in the numeric reading `Num T` (list / shape reasoning); the few numeric facts needed are
   named hypotheses (`minmax_laws` of Proofs/CascadeProofs.v for the clipping setter, `zero_laws` below for the
   defuzzification of an EMPTY fuzzy output) and are proved for the binary64 reading.

   Plan.
   1. NpLite: broadcasting on row-shaped values (0-d or (k,)), the outer product `(k,1) x (1,r)`, squeeze;
   2. Engine.input_values setter / getter (`input_values_set_matrix`, `input_values_setter_getter`, ...);
   3. Section Row: ONE row i of a batch state over (e, ins) against a scalar engine holding row i of the inputs —
      lockstep of Term.membership, grouped terms, antecedent degrees, Consequent.modify, the General loop
      (`blocks_step_row`: the batch loop and Spec/Pipeline.v's `blocks_contribution` succeed / fail together and the
      scalar fuzzy outputs are row i of the batch's);
   4. defuzzifiers: Activated / Aggregated.membership on the sample matrix (`yok` / `yrow`: the shapes the matrix can
      take under `r_ok`), integral (`integral_defuzzify_row`; the empty fuzzy output needs `zero_laws`) and weighted
      (`weighted_defuzzify_row`) defuzzifiers;
   5. the cascade: `output_defuzzify_row` (element i of the committed batch value = the value row i commits when it starts
      from element i-1), `cascade_batch_rows` (split invariance with singleton cuts);
   6. composition: `step_row` / `rows_from` (induction over the rows, carrying the engine), `first_row_err`, and
      `batch_eq_rows`, through Proofs/EngineProofs.v (`process_refines_pipeline`: Engine.process = the pipeline under
      General activation; the rule records left by a row do not matter to the next);
   7. the statements quoted by Properties/C02.v. *)
From Coq Require Import ZArith Bool List String Lia.
From VF Require Import Num GenNorm GenHedge GenTerm Core Discrete NpSum NpLite Defuzz Antecedent Consequent Activation
  Weighted Cascade Engine Ops Pipeline EngineProofs CascadeProofs Batch.
Import ListNotations.
Local Notation length := List.length.
Local Open Scope list_scope.

(* ================================================================================================ *)
(* 1. NpLite                                                                                         *)
(* ================================================================================================ *)
Section MapM.
  Context {X Y : Type}.

  Lemma mapM__pure (f : X -> Y) (l : list X) : mapM_ (fun x => Ok (f x)) l = Ok (map f l).
  Proof. induction l as [|a l IH]; cbn; [reflexivity|]. rewrite IH. reflexivity. Qed.

  Lemma mapM__ext (f g : X -> result Y) (l : list X) : (forall a, In a l -> f a = g a) -> mapM_ f l = mapM_ g l.
  Proof.
    induction l as [|a l IH]; intros H; cbn; [reflexivity|].
    rewrite (H a (or_introl eq_refl)), IH; [reflexivity|]. intros b Hb. apply H. right. exact Hb.
  Qed.

  Lemma mapM__length (f : X -> result Y) (l : list X) l' : mapM_ f l = Ok l' -> length l' = length l.
  Proof.
    revert l'; induction l as [|a l IH]; intros l' H; cbn in H.
    - injection H as <-. reflexivity.
    - destruct (f a); cbn in H; [|discriminate]. destruct (mapM_ f l); cbn in H; [|discriminate].
      injection H as <-. cbn. f_equal. apply IH. reflexivity.
  Qed.

  Lemma mapM__nth (f : X -> result Y) (l : list X) l' i a :
    mapM_ f l = Ok l' -> nth_error l i = Some a -> exists b, f a = Ok b /\ nth_error l' i = Some b.
  Proof.
    revert l' i; induction l as [|a0 l IH]; intros l' i H Hn; [destruct i; discriminate|].
    cbn in H. destruct (f a0) as [b0|] eqn:H0; cbn in H; [|discriminate].
    destruct (mapM_ f l) as [bs|] eqn:H1; cbn in H; [|discriminate]. injection H as <-.
    destruct i as [|i]; cbn in Hn |- *.
    - injection Hn as <-. eauto.
    - exact (IH bs i eq_refl Hn).
  Qed.

  Lemma mapM__err (f : X -> result Y) (l : list X) x : (forall a, In a l -> f a = Err x) -> l <> [] -> mapM_ f l = Err x.
  Proof. destruct l as [|a l]; intros H Hl; [congruence|]. cbn. rewrite (H a (or_introl eq_refl)). reflexivity. Qed.

End MapM.

Section NpLemmas.
  Context {X Y Z : Type}.

  Lemma map2_map_l {W : Type} (f : W -> Y -> Z) (g : X -> W) (la : list X) (lb : list Y) :
    map2 f (map g la) lb = map2 (fun a b => f (g a) b) la lb.
  Proof. revert lb; induction la as [|a la IH]; intros [|b lb]; cbn; auto. f_equal. apply IH. Qed.

  Lemma map2_length (f : X -> Y -> Z) (la : list X) (lb : list Y) :
    length la = length lb -> length (map2 f la lb) = length la.
  Proof.
    revert lb; induction la as [|a la IH]; intros [|b lb] H; cbn in *; try discriminate; try reflexivity.
    f_equal. apply IH. lia.
  Qed.

  Lemma map2_nth_error (f : X -> Y -> Z) (la : list X) (lb : list Y) i :
    nth_error (map2 f la lb) i =
    match nth_error la i, nth_error lb i with Some a, Some b => Some (f a b) | _, _ => None end.
  Proof.
    revert lb i; induction la as [|a la IH]; intros [|b lb] [|i]; cbn; auto.
    - destruct (nth_error la i); reflexivity.
  Qed.

  Lemma map2_const_r (f : X -> Y -> Z) (la : list X) (c : Y) :
    map2 f la (map (fun _ => c) la) = map (fun a => f a c) la.
  Proof. induction la as [|a la IH]; cbn; [reflexivity|]. f_equal. exact IH. Qed.

  (* ---- broadcasting of two rows *)
  Lemma bcast_row_eq_len (f : X -> Y -> Z) (la : list X) (lb : list Y) :
    length la = length lb -> bcast_row f la lb = Ok (map2 f la lb).
  Proof.
    intros H. unfold bcast_row, bcast.
    assert (Hgen : mapM_ (fun p => Ok (f (fst p) (snd p))) (combine la lb) = Ok (map2 f la lb)).
    { clear H. revert lb; induction la as [|a la IH]; intros [|b lb]; cbn; try reflexivity. rewrite IH. reflexivity. }
    destruct la as [|a [|a' la]], lb as [|b [|b' lb]]; try (cbn in H; discriminate).
    - reflexivity.
    - reflexivity.
    - cbv beta iota. rewrite (proj2 (Nat.eqb_eq _ _) H). exact Hgen.
  Qed.

  Lemma bcast_row_l (f : X -> Y -> Z) (a : X) (lb : list Y) : bcast_row f [a] lb = Ok (map (f a) lb).
  Proof. unfold bcast_row, bcast. apply mapM__pure. Qed.

  Lemma bcast_row_r (f : X -> Y -> Z) (la : list X) (b : Y) : bcast_row f la [b] = Ok (map (fun a => f a b) la).
  Proof.
    unfold bcast_row, bcast. destruct la as [|a [|a' la]]; try reflexivity.
    exact (mapM__pure (fun a => f a b) (a :: a' :: la)).
  Qed.
End NpLemmas.

(* ---- row-shaped values: 0-d (the same value on every row) or a (k,) vector *)
Definition rowshape {X : Type} (k : nat) (a : arr X) : Prop :=
  match a with Sc _ => True | Vec l => length l = k | Mat _ => False end.
(* a (k,) vector *)
Definition colshape {X : Type} (k : nat) (a : arr X) : Prop :=
  match a with Vec l => length l = k | _ => False end.

Section RowShape.
  Context {X Y Z : Type}.

  Lemma colshape_rowshape k (a : arr X) : colshape k a -> rowshape k a.
  Proof. destruct a; cbn; tauto. Qed.

  Lemma rowshape_lift1 k (f : X -> Y) a : rowshape k a -> rowshape k (lift1 f a).
  Proof. destruct a; cbn; auto. intros <-. apply map_length. Qed.

  Lemma aget_lift1 k (f : X -> Y) a i dx dy : rowshape k a -> i < k -> aget dy (lift1 f a) i = f (aget dx a i).
  Proof.
    destruct a as [x|l|r]; cbn; intros H Hi; [reflexivity| |contradiction].
    rewrite (nth_indep (map f l) dy (f dx)) by (rewrite map_length; lia). apply map_nth.
  Qed.

  Lemma aget_indep k (a : arr X) i d1 d2 : rowshape k a -> i < k -> aget d1 a i = aget d2 a i.
  Proof. destruct a as [x|l|r]; cbn; intros H Hi; [reflexivity| |contradiction]. apply nth_indep. lia. Qed.

  Lemma map2_nth (f : X -> Y -> Z) la lb i dx dy dz :
    length la = length lb -> i < length la -> nth i (map2 f la lb) dz = f (nth i la dx) (nth i lb dy).
  Proof.
    revert lb i; induction la as [|a la IH]; intros [|b lb] i H Hi; cbn in *; try lia.
    destruct i as [|i]; [reflexivity|]. apply IH; lia.
  Qed.

  (* a ufunc of two row-shaped values: no broadcasting error, row-shaped result, elementwise *)
  Lemma lift2_rows k (f : X -> Y -> Z) (a : arr X) (b : arr Y) :
    rowshape k a -> rowshape k b ->
    exists c, lift2 f a b = Ok c /\ rowshape k c /\
              forall i dx dy dz, i < k -> aget dz c i = f (aget dx a i) (aget dy b i).
  Proof.
    destruct a as [x|la|ra], b as [y|lb|rb]; cbn; intros Ha Hb; try contradiction.
    - eexists; split; [reflexivity|]. split; [exact I|]. reflexivity.
    - eexists; split; [reflexivity|]. split; [cbn; rewrite map_length; exact Hb|].
      intros i dx dy dz Hi. cbn. rewrite (nth_indep _ dz (f x dy)) by (rewrite map_length; lia). apply map_nth.
    - eexists; split; [reflexivity|]. split; [cbn; rewrite map_length; exact Ha|].
      intros i dx dy dz Hi. cbn. rewrite (nth_indep _ dz (f dx y)) by (rewrite map_length; lia).
      exact (map_nth (fun a => f a y) la dx i).
    - rewrite (bcast_row_eq_len f la lb) by congruence. cbn.
      eexists; split; [reflexivity|]. split; [cbn; rewrite map2_length; congruence|].
      intros i dx dy dz Hi. cbn. apply map2_nth; [congruence | lia].
  Qed.
End RowShape.

(* ---- the outer product of Activated.membership: degrees as a column against one row of samples *)
Section Outer.
  Context {X Y Z : Type}.
  Variable f : X -> Y -> Z.

  Definition outer (ds : list X) (ms : list Y) : list (list Z) := map (fun d => map (f d) ms) ds.

  Lemma transpose_row (l : list X) : transpose (atleast_2d (Vec l)) = Mat (map (fun x => [x]) l).
  Proof. reflexivity. Qed.
  Lemma transpose_scalar (x : X) : transpose (atleast_2d (Sc x)) = Mat [[x]].
  Proof. reflexivity. Qed.

  (* implication(atleast_2d(degree).T, mu(x)) with degree (k,) and mu(x) of shape (1, r): the (k, r) matrix *)
  Lemma lift2_outer (ds : list X) (ms : list Y) :
    lift2 f (transpose (atleast_2d (Vec ds))) (Mat [ms]) = Ok (Mat (outer ds ms)).
  Proof.
    rewrite transpose_row. cbn [lift2]. unfold bcast_rows, bcast.
    assert (H : mapM_ (fun a => bcast_row f a ms) (map (fun x => [x]) ds) = Ok (outer ds ms)).
    { unfold outer. induction ds as [|d ds IH]; cbn [map mapM_]; [reflexivity|].
      rewrite bcast_row_l, IH. reflexivity. }
    destruct ds as [|d [|d' ds]]; cbn [map].
    - reflexivity.
    - cbn [mapM_]. rewrite bcast_row_l. reflexivity.
    - cbn [map] in H. cbv beta iota. rewrite H. reflexivity.
  Qed.
  Lemma lift2_outer_scalar (d : X) (ms : list Y) :
    lift2 f (transpose (atleast_2d (Sc d))) (Mat [ms]) = Ok (Mat [map (f d) ms]).
  Proof.
    rewrite transpose_scalar. cbn [lift2]. unfold bcast_rows, bcast. cbn [mapM_]. rewrite bcast_row_l. reflexivity.
  Qed.
End Outer.

Section Squeeze.
  Context {X : Type}.

  (* .squeeze() keeps the rows of a (k, r) matrix when r >= 2 or k = 1 ... *)
  Lemma squeeze_rows (rows : list (list X)) :
    (length rows = 1 \/ 2 <= ncols rows) -> rows_of (squeeze (Mat rows)) = rows.
  Proof.
    intros H. destruct rows as [|r0 [|r1 rows]].
    - cbn in H. destruct H; lia.
    - cbn. destruct r0 as [|x [|x' r0]]; reflexivity.
    - destruct H as [H|H]; [cbn in H; lia|]. cbn in H.
      destruct r0 as [|x [|x' r0]]; cbn in H; try lia. reflexivity.
  Qed.

  (* ... and at r = 1 turns k >= 2 rows of one sample into ONE row of k samples *)
  Lemma squeeze_two_rows (r0 r1 : list X) (rows : list (list X)) :
    squeeze (Mat (r0 :: r1 :: rows)) =
    if Nat.eqb (length r0) 1 then Vec (List.concat (r0 :: r1 :: rows)) else Mat (r0 :: r1 :: rows).
  Proof. destruct r0 as [|x [|y r0]]; reflexivity. Qed.

  Lemma squeeze_resolution1 (col : list X) :
    2 <= length col -> squeeze (Mat (map (fun x => [x]) col)) = Vec col.
  Proof.
    destruct col as [|x [|x' col]]; cbn; intros H; try lia. clear H.
    f_equal. f_equal. f_equal. induction col as [|y col IH]; cbn; [reflexivity|]. f_equal. exact IH.
  Qed.
End Squeeze.

(* ================================================================================================ *)
(* 2. Engine.input_values: setter and getter                                                         *)
(* ================================================================================================ *)
Section ListExt.
  Context {A : Type}.
  Lemma nth_error_ext (l1 l2 : list A) : (forall j, nth_error l1 j = nth_error l2 j) -> l1 = l2.
  Proof.
    revert l2; induction l1 as [|a l1 IH]; intros [|b l2] H; [reflexivity| | |].
    - specialize (H 0). discriminate.
    - specialize (H 0). discriminate.
    - pose proof (H 0) as H0. cbn in H0. injection H0 as <-. f_equal. apply IH. intros j. exact (H (S j)).
  Qed.
  Lemma nth_error_seq n j : nth_error (seq 0 n) j = if Nat.ltb j n then Some j else None.
  Proof.
    destruct (Nat.ltb_spec j n) as [H|H].
    - rewrite (nth_error_nth' (seq 0 n) 0) by (rewrite seq_length; exact H). rewrite seq_nth by exact H. reflexivity.
    - apply nth_error_None. rewrite seq_length. exact H.
  Qed.
  Lemma nth_error_nth_some (l : list A) j d : j < length l -> nth_error l j = Some (nth j l d).
  Proof. intros H. apply nth_error_nth'. exact H. Qed.
  Lemma nth_map_lt {B : Type} (f : A -> B) (l : list A) i d d' : i < length l -> nth i (map f l) d' = f (nth i l d).
  Proof. intros H. rewrite (nth_indep (map f l) d' (f d)) by (rewrite map_length; exact H). apply map_nth. Qed.
End ListExt.

Section Columns.
  Context {X : Type}.
  Variable d : X.

  (* the matrix given by its rows, read by columns: n columns *)
  Definition cols_of (n : nat) (rows : list (list X)) : list (list X) :=
    map (fun j => map (fun r => nth j r d) rows) (seq 0 n).
  Definition rect_rows (n : nat) (rows : list (list X)) : Prop := Forall (fun r => length r = n) rows.

  Lemma column_ok n rows j : rect_rows n rows -> j < n -> column j rows = Ok (map (fun r => nth j r d) rows).
  Proof.
    intros H Hj. unfold column. induction rows as [|r rows IH]; cbn; [reflexivity|].
    inversion H as [|r' rows' Hr Hrest]; subst.
    rewrite (nth_error_nth_some r j d) by lia. cbn. rewrite (IH Hrest). reflexivity.
  Qed.

  Lemma cols_of_length n rows : length (cols_of n rows) = n.
  Proof. unfold cols_of. rewrite map_length, seq_length. reflexivity. Qed.
  Lemma cols_of_colshape n rows c : In c (cols_of n rows) -> length c = length rows.
  Proof. unfold cols_of. intros H. apply in_map_iff in H. destruct H as (j & <- & _). apply map_length. Qed.
  Lemma cols_of_nth n rows j i : j < n -> nth i (nth j (cols_of n rows) []) d = nth j (nth i rows []) d.
  Proof.
    intros Hj. unfold cols_of.
    rewrite (nth_map_lt _ (seq 0 n) j 0) by (rewrite seq_length; exact Hj).
    rewrite seq_nth by exact Hj. cbn [plus].
    destruct (Nat.lt_ge_cases i (length rows)) as [Hi|Hi].
    - rewrite (nth_map_lt _ rows i []) by exact Hi. reflexivity.
    - rewrite (nth_overflow (map _ rows)) by (rewrite map_length; exact Hi).
      rewrite (nth_overflow rows) by exact Hi. destruct j; reflexivity.
  Qed.

  (* column_stack of equally long columns, read back by rows *)
  Lemma cols_to_rows_ok k (cols : list (list X)) : Forall (fun c => length c = k) cols ->
    cols_to_rows k cols = Ok (map (fun i => map (fun c => nth i c d) cols) (seq 0 k)).
  Proof.
    intros H. unfold cols_to_rows.
    rewrite (mapM__ext _ (fun i => Ok (map (fun c => nth i c d) cols))); [apply mapM__pure|].
    intros i Hi. apply in_seq in Hi.
    rewrite (mapM__ext _ (fun c => Ok (nth i c d))); [apply mapM__pure|].
    intros c Hc. rewrite Forall_forall in H. rewrite (nth_error_nth_some c i d); [reflexivity|]. rewrite (H c Hc). lia.
  Qed.

  Lemma rows_of_cols_of n rows : rect_rows n rows ->
    map (fun i => map (fun c => nth i c d) (cols_of n rows)) (seq 0 (length rows)) = rows.
  Proof.
    intros H. apply nth_error_ext. intros i. rewrite nth_error_map, nth_error_seq.
    destruct (Nat.ltb_spec i (length rows)) as [Hi|Hi]; cbn.
    - rewrite (nth_error_nth_some rows i []) by exact Hi. f_equal.
      unfold rect_rows in H. rewrite Forall_forall in H. pose proof (H (nth i rows []) (nth_In rows [] Hi)) as Hl.
      apply nth_error_ext. intros j. rewrite nth_error_map.
      destruct (Nat.lt_ge_cases j n) as [Hj|Hj].
      + rewrite (nth_error_nth_some (cols_of n rows) j []) by (rewrite cols_of_length; exact Hj). cbn.
        rewrite cols_of_nth by exact Hj. symmetry. apply nth_error_nth_some. lia.
      + rewrite (proj2 (nth_error_None (cols_of n rows) j)) by (rewrite cols_of_length; exact Hj). cbn.
        symmetry. apply nth_error_None. lia.
    - symmetry. apply nth_error_None. exact Hi.
  Qed.
End Columns.

Section Stack.
  Context {X : Type}.
  Variable d : X.

  Lemma common_length_eq k (ls : list (list X)) : Forall (fun l => length l = k) ls -> ls <> [] -> common_length ls = k.
  Proof.
    intros H Hne. unfold common_length.
    assert (Hk : forall (ls : list (list X)) acc, Forall (fun l => length l = k) ls -> acc = k ->
                 fold_left (fun n l => if Nat.eqb (length l) 1 then n else length l) ls acc = k).
    { clear. induction ls as [|l ls IH]; intros acc H Hacc; cbn; [exact Hacc|].
      inversion H as [|l' ls' Hl Hrest]; subst. apply IH; [exact Hrest|].
      destruct (Nat.eqb_spec (length l) 1); [reflexivity|reflexivity]. }
    destruct ls as [|l ls]; [congruence|]. cbn. inversion H as [|l' ls' Hl Hrest]; subst.
    apply Hk; [exact Hrest|]. destruct (Nat.eqb_spec (length l) 1) as [E|E]; [symmetry; exact E | reflexivity].
  Qed.

  Lemma broadcast_vectors_same k (ls : list (list X)) :
    Forall (fun l => length l = k) ls -> ls <> [] -> broadcast_vectors ls = Ok ls.
  Proof.
    intros H Hne. unfold broadcast_vectors. rewrite (common_length_eq k ls H Hne).
    rewrite (mapM__ext _ (fun l => Ok ((fun l => l) l))).
    - rewrite mapM__pure. rewrite map_id. reflexivity.
    - intros l Hl. rewrite Forall_forall in H. unfold broadcast_to. rewrite (H l Hl), Nat.eqb_refl. reflexivity.
  Qed.

  Lemma column_stack_same k (cols : list (list X)) :
    Forall (fun c => length c = k) cols -> cols <> [] ->
    column_stack cols = Ok (Mat (map (fun i => map (fun c => nth i c d) cols) (seq 0 k))).
  Proof.
    intros H Hne. unfold column_stack. destruct cols as [|c cols]; [congruence|].
    inversion H as [|c' cols' Hc Hrest]; subst.
    replace (forallb (fun c' => Nat.eqb (length c') (length c)) cols) with true.
    - rewrite (cols_to_rows_ok d (length c) (c :: cols) H). reflexivity.
    - symmetry. apply forallb_forall. intros c' Hc'. rewrite Forall_forall in Hrest. rewrite (Hrest c' Hc'). apply Nat.eqb_refl.
  Qed.
End Stack.

Section Setter.
  Context {T : Type} {N : Num T}.

  Definition iv_clip (iv : input_var T) (x : T) : T :=
    if iv_lock_range iv then clip (iv_min iv) (iv_max iv) x else x.
  Lemma iv_set_value_vec (iv : input_var T) l : iv_set_value iv (Vec l) = Vec (map (iv_clip iv) l).
  Proof.
    unfold iv_set_value, set_value_b, iv_clip. destruct (iv_lock_range iv); cbn; [reflexivity|].
    rewrite map_id. reflexivity.
  Qed.

  (* the value of every input variable after `engine.input_values = <the matrix with these rows>` *)
  Definition batch_inputs (e : engine T) (rows : list (list T)) : list (arr T) :=
    map2 (fun iv c => Vec (map (iv_clip iv) c)) (e_inputs e) (cols_of nan (length (e_inputs e)) rows).
  (* the clipped matrix *)
  Definition clip_rows (e : engine T) (rows : list (list T)) : list (list T) := map (map2 iv_clip (e_inputs e)) rows.

  Lemma batch_inputs_length e rows : length (batch_inputs e rows) = length (e_inputs e).
  Proof. unfold batch_inputs. apply map2_length. rewrite cols_of_length. reflexivity. Qed.

  Lemma batch_inputs_nth e rows j iv :
    nth_error (e_inputs e) j = Some iv ->
    nth_error (batch_inputs e rows) j = Some (Vec (map (fun r => iv_clip iv (nth j r nan)) rows)).
  Proof.
    intros H. unfold batch_inputs. rewrite map2_nth_error, H.
    assert (Hj : j < length (e_inputs e)) by (apply nth_error_Some; congruence).
    unfold cols_of. rewrite nth_error_map, nth_error_seq. rewrite (proj2 (Nat.ltb_lt _ _) Hj). cbn.
    rewrite map_map. reflexivity.
  Qed.

  Lemma batch_inputs_colshape e rows : Forall (colshape (length rows)) (batch_inputs e rows).
  Proof.
    apply Forall_forall. intros a Ha. apply In_nth_error in Ha. destruct Ha as (j & Hj).
    destruct (nth_error (e_inputs e) j) as [iv|] eqn:Hiv.
    - rewrite (batch_inputs_nth e rows j iv Hiv) in Hj. injection Hj as <-. cbn. apply map_length.
    - apply nth_error_None in Hiv. rewrite <- (batch_inputs_length e rows) in Hiv.
      apply nth_error_None in Hiv. congruence.
  Qed.

  (* 2-d: one column per input variable, through the clipping setter *)
  Theorem input_values_set_matrix (e : engine T) (rows : list (list T)) :
    e_inputs e <> [] -> rows <> [] -> rect_rows (length (e_inputs e)) rows ->
    input_values_set e (Mat rows) = Ok (batch_inputs e rows).
  Proof.
    intros Hn Hr Hrect. unfold input_values_set. cbn [input_values_matrix].
    destruct (e_inputs e) as [|iv0 ins0] eqn:Hins; [congruence|]. rewrite <- Hins in *.
    replace (Nat.eqb (length (e_inputs e)) 0) with false by (rewrite Hins; reflexivity).
    assert (Hc : ncols rows = length (e_inputs e)).
    { destruct rows as [|r rows]; [congruence|]. cbn. inversion Hrect; subst. assumption. }
    rewrite Hc, Nat.eqb_refl. cbn [negb].
    rewrite (mapM__ext _ (fun j => Ok (nth j (batch_inputs e rows) (Sc nan)))).
    - rewrite mapM__pure. f_equal. apply nth_error_ext. intros j. rewrite nth_error_map, nth_error_seq.
      destruct (Nat.ltb_spec j (length (e_inputs e))) as [Hj|Hj]; cbn.
      + symmetry. apply nth_error_nth_some. rewrite batch_inputs_length. exact Hj.
      + symmetry. apply nth_error_None. rewrite batch_inputs_length. exact Hj.
    - intros j Hj. apply in_seq in Hj. cbn in Hj.
      destruct (nth_error (e_inputs e) j) as [iv|] eqn:Hiv; [|apply nth_error_None in Hiv; lia].
      rewrite (column_ok nan (length (e_inputs e)) rows j Hrect) by lia. cbn.
      rewrite iv_set_value_vec, map_map.
      pose proof (batch_inputs_nth e rows j iv Hiv) as Hb.
      rewrite (nth_error_nth_some _ j (Sc nan)) in Hb by (rewrite batch_inputs_length; lia).
      injection Hb as ->. reflexivity.
  Qed.

  (* the other forms of the setter reduce to a matrix *)
  Theorem input_values_set_shapes (e : engine T) :
    let n := length (e_inputs e) in
    (forall x, input_values_set e (Sc x) = input_values_set e (Mat [repeat x n])) /\
    (forall l, n = 1 -> input_values_set e (Vec l) = input_values_set e (Mat (map (fun x => [x]) l))) /\
    (forall l, n <> 1 -> input_values_set e (Vec l) = input_values_set e (Mat [l])) /\
    (forall rows, n <> 0 -> ncols rows <> n -> input_values_set e (Mat rows) = Err EValue) /\
    (forall values, n = 0 -> input_values_set e values = Err ERuntime).
  Proof.
    cbv zeta. repeat split.
    - intros l Hn. unfold input_values_set, input_values_matrix. rewrite Hn. reflexivity.
    - intros l Hn. unfold input_values_set, input_values_matrix.
      rewrite (proj2 (Nat.eqb_neq _ _) Hn). reflexivity.
    - intros rows Hn Hc. unfold input_values_set. cbn [input_values_matrix].
      rewrite (proj2 (Nat.eqb_neq _ _) Hn), (proj2 (Nat.eqb_neq _ _) Hc). reflexivity.
    - intros values Hn. unfold input_values_set. rewrite Hn. reflexivity.
  Qed.

  (* the getter on (k,) columns: the matrix whose row i holds the i-th value of every variable *)
  Lemma stack_values_cols k (ins : list (arr T)) : Forall (colshape k) ins -> ins <> [] ->
    stack_values ins = Ok (Mat (map (fun i => map (fun a => aget nan a i) ins) (seq 0 k))).
  Proof.
    intros H Hne. unfold stack_values. destruct ins as [|a0 ins0] eqn:Hins; [congruence|]. rewrite <- Hins in *.
    set (ls := map (fun a => match a with Vec l => l | _ => [] end) ins).
    assert (Hv : mapM_ (@as_vector T) ins = Ok ls).
    { subst ls. clear Hne Hins. induction ins as [|a ins IH]; cbn; [reflexivity|].
      inversion H as [|a' ins' Ha Hrest]; subst. destruct a as [x|l|r]; cbn in Ha; try contradiction.
      cbn. rewrite (IH Hrest). reflexivity. }
    rewrite Hv. cbn [bind].
    assert (Hl : Forall (fun l => length l = k) ls).
    { subst ls. apply Forall_forall. intros l Hl. apply in_map_iff in Hl. destruct Hl as (a & <- & Ha).
      rewrite Forall_forall in H. specialize (H a Ha). destruct a; cbn in H; try contradiction. exact H. }
    assert (Hlne : ls <> []) by (subst ls; rewrite Hins; discriminate).
    rewrite (broadcast_vectors_same k ls Hl Hlne). cbn [bind].
    rewrite (column_stack_same nan k ls Hl Hlne). f_equal. f_equal.
    apply map_ext. intros i. subst ls. rewrite map_map. apply map_ext_in. intros a Ha.
    rewrite Forall_forall in H. specialize (H a Ha). destruct a; cbn in H; try contradiction. reflexivity.
  Qed.

  (* getter after setter: the matrix itself, clipped where a variable locks its range *)
  Theorem input_values_get_set (e : engine T) (rows : list (list T)) :
    e_inputs e <> [] -> rows <> [] -> rect_rows (length (e_inputs e)) rows ->
    stack_values (batch_inputs e rows) = Ok (Mat (clip_rows e rows)).
  Proof.
    intros Hn Hr Hrect.
    assert (Hne : batch_inputs e rows <> []).
    { intros E. apply (f_equal (@length _)) in E. rewrite batch_inputs_length in E. destruct (e_inputs e); [congruence|discriminate]. }
    rewrite (stack_values_cols (length rows) _ (batch_inputs_colshape e rows) Hne). f_equal. f_equal.
    unfold clip_rows. apply nth_error_ext. intros i. rewrite !nth_error_map, nth_error_seq.
    destruct (Nat.ltb_spec i (length rows)) as [Hi|Hi]; cbn.
    - rewrite (nth_error_nth_some rows i []) by exact Hi. cbn. f_equal.
      unfold rect_rows in Hrect. rewrite Forall_forall in Hrect. pose proof (Hrect _ (nth_In rows [] Hi)) as Hl.
      apply nth_error_ext. intros j. rewrite nth_error_map, map2_nth_error.
      destruct (nth_error (e_inputs e) j) as [iv|] eqn:Hiv.
      + rewrite (batch_inputs_nth e rows j iv Hiv). cbn.
        assert (Hj : j < length (e_inputs e)) by (apply nth_error_Some; congruence).
        rewrite (nth_error_nth_some (nth i rows []) j nan) by lia.
        rewrite (nth_map_lt _ rows i []) by exact Hi. reflexivity.
      + apply nth_error_None in Hiv. rewrite <- (batch_inputs_length e rows) in Hiv.
        apply nth_error_None in Hiv. rewrite Hiv. reflexivity.
    - rewrite (proj2 (nth_error_None rows i) Hi). reflexivity.
  Qed.

  Lemma clip_rows_id (e : engine T) rows :
    (forall iv, In iv (e_inputs e) -> iv_lock_range iv = false) -> rect_rows (length (e_inputs e)) rows ->
    clip_rows e rows = rows.
  Proof.
    intros Hl Hrect. unfold clip_rows. rewrite <- (map_id rows) at 2. apply map_ext_in. intros r Hr.
    unfold rect_rows in Hrect. rewrite Forall_forall in Hrect. specialize (Hrect r Hr).
    clear Hr. revert r Hrect. induction (e_inputs e) as [|iv ins IH]; intros [|x r] Hlen; cbn in *; try discriminate; [reflexivity|].
    f_equal; [unfold iv_clip; rewrite (Hl iv (or_introl eq_refl)); reflexivity|].
    apply IH; [intros iv' H'; apply Hl; right; exact H' | lia].
  Qed.

  (* get (set m) = m *)
  Theorem input_values_setter_getter (e : engine T) (rows : list (list T)) :
    e_inputs e <> [] -> rows <> [] -> rect_rows (length (e_inputs e)) rows ->
    (forall iv, In iv (e_inputs e) -> iv_lock_range iv = false) ->
    exists ins, input_values_set e (Mat rows) = Ok ins /\ stack_values ins = Ok (Mat rows).
  Proof.
    intros Hn Hr Hrect Hl. exists (batch_inputs e rows). split; [apply input_values_set_matrix; assumption|].
    rewrite (input_values_get_set e rows Hn Hr Hrect), (clip_rows_id e rows Hl Hrect). reflexivity.
  Qed.
End Setter.

(* ================================================================================================ *)
(* 3. One row of a batch state is a scalar engine state                                              *)
(* ================================================================================================ *)
Section MapEq2.
  Context {A B C : Type}.
  Lemma map_eq_nth2 (f : A -> C) (g : B -> C) (l1 : list A) (l2 : list B) (i : nat) :
    map f l1 = map g l2 ->
    match nth_error l1 i, nth_error l2 i with
    | Some a, Some b => f a = g b
    | None, None => True
    | _, _ => False
    end.
  Proof.
    intros H. pose proof (f_equal (fun l => nth_error l i) H) as H'. cbn in H'. rewrite !nth_error_map in H'.
    destruct (nth_error l1 i), (nth_error l2 i); cbn in H'; congruence || exact I.
  Qed.
  Lemma update_nth_map2 (f : A -> A) (g : C -> C) (h : A -> C) (i : nat) (l : list A) :
    (forall a, h (f a) = g (h a)) -> map h (update_nth i f l) = update_nth i g (map h l).
  Proof. intros H. revert i; induction l as [|a l IH]; intros [|i]; cbn; auto; f_equal; auto. Qed.
  Lemma update_nth_length (f : A -> A) (i : nat) (l : list A) : length (update_nth i f l) = length l.
  Proof. revert i; induction l as [|a l IH]; intros [|i]; cbn; auto. Qed.
  Lemma Forall_update_nth (P : A -> Prop) (f : A -> A) (i : nat) (l : list A) :
    Forall P l -> (forall a, P a -> P (f a)) -> Forall P (update_nth i f l).
  Proof.
    intros H Hf. revert i; induction H as [|a l Ha Hl IH]; intros [|i]; cbn; constructor; auto.
  Qed.
End MapEq2.

(* the two scalar models of Aggregated.grouped_terms (Model/Antecedent.v: name -> degree; Model/Weighted.v: the
   grouped Activated terms) agree *)
Section GroupedScalar.
  Context {T : Type} {N : Num T}.
  Definition nd (g : activated T) : string * T := (act_name g, a_degree g).

  Lemma group_insert_nd s (a : activated T) G :
    map nd (Weighted.group_insert s a G) = Antecedent.group_insert s (act_name a) (a_degree a) (map nd G).
  Proof.
    induction G as [|g G IH]; cbn; [reflexivity|].
    destruct (String.eqb (act_name g) (act_name a)); cbn; [reflexivity|]. f_equal. exact IH.
  Qed.

  Lemma grouped_terms_nd agg (l : list (activated T)) :
    map nd (Weighted.grouped_terms agg l) = Antecedent.grouped_terms agg l.
  Proof.
    unfold Weighted.grouped_terms, Antecedent.grouped_terms.
    change (match agg with Some a => a | None => SN S_UnboundedSum end) with (agg_or_sum agg).
    change (@nil (string * T)) with (map nd []). generalize (@nil (activated T)) as G.
    induction l as [|a l IH]; intros G; cbn [fold_left]; [reflexivity|].
    rewrite IH, group_insert_nd. reflexivity.
  Qed.

  Lemma fuzzy_activation_degree_nd agg (l : list (activated T)) name :
    Antecedent.fuzzy_activation_degree agg l name =
    match find (fun g => String.eqb (act_name g) name) (Weighted.grouped_terms agg l) with
    | Some g => a_degree g | None => zero end.
  Proof.
    unfold Antecedent.fuzzy_activation_degree. rewrite <- grouped_terms_nd.
    induction (Weighted.grouped_terms agg l) as [|g G IH]; cbn; [reflexivity|].
    destruct (String.eqb (act_name g) name); [reflexivity | exact IH].
  Qed.
End GroupedScalar.

(* ---- the defuzzification of an EMPTY fuzzy output: Aggregated.membership returns the 0-d 0.0, the integral
        defuzzifiers see a (1,1) matrix against r sample points; the scalar model sees r zeros.  Both are NaN for the
        same reason; the numeric facts needed are closed equations (true of binary64 by computation). *)
Section ZeroLaws.
  Context {T : Type} {N : Num T}.

  Definition nan_t : T := nabs (sub (div zero zero) half).       (* |0/0 - 0.5| *)
  Record zero_laws : Prop := {
    zl_add00 : add zero zero = (zero : T);
    zl_addn0 : add (neg zero) zero = (zero : T);
    zl_nmax00 : nmax zero zero = (zero : T);
    zl_lt00 : ltb (zero : T) zero = false;
    zl_nmin_tt : nmin nan_t nan_t = nan_t;
    zl_eqb_tt : eqb nan_t nan_t = false }.
  Hypothesis L : zero_laws.

  Definition zeros (n : nat) : list T := repeat zero n.

  Lemma seq_add_zeros n : seq_add zero (zeros n) = zero.
  Proof. induction n as [|n IH]; cbn; [reflexivity|]. unfold seq_add in *. cbn. rewrite (zl_add00 L). exact IH. Qed.
  Lemma seq_add_neg_zeros n : seq_add (neg zero) (zeros (S n)) = zero.
  Proof. unfold seq_add. cbn. rewrite (zl_addn0 L). apply seq_add_zeros. Qed.

  Lemma pw_loop_zeros nb : forall n,
    exists m, pw_loop nb (zero, zero, zero, zero, zero, zero, zero, zero) (zeros n)
              = ((zero, zero, zero, zero, zero, zero, zero, zero), zeros m).
  Proof.
    induction nb as [|nb IH]; intros n; cbn [pw_loop]; [eauto|].
    destruct n as [|[|[|[|[|[|[|[|n]]]]]]]]; cbn [zeros repeat];
      try first [exists 0; reflexivity | exists 1; reflexivity | exists 2; reflexivity | exists 3; reflexivity
                | exists 4; reflexivity | exists 5; reflexivity | exists 6; reflexivity | exists 7; reflexivity].
    rewrite !(zl_add00 L). apply IH.
  Qed.

  Lemma pw_block_zeros n : pw_block (zeros (S n)) = zero.
  Proof.
    destruct n as [|[|[|[|[|[|[|n]]]]]]]; try exact (seq_add_neg_zeros _).
    change (zeros (S (S (S (S (S (S (S (S n))))))))) with (zero :: zero :: zero :: zero :: zero :: zero :: zero :: zero :: zeros n).
    cbn [pw_block].
    destruct (pw_loop_zeros (length (zeros n) / 8) n) as (m & Hm). rewrite Hm.
    rewrite !(zl_add00 L). apply seq_add_zeros.
  Qed.

  Lemma firstn_zeros a n : firstn a (zeros n) = zeros (Nat.min a n).
  Proof. revert n; induction a as [|a IH]; intros [|n]; cbn; try reflexivity. f_equal. apply IH. Qed.
  Lemma skipn_zeros a n : skipn a (zeros n) = zeros (n - a).
  Proof. revert n; induction a as [|a IH]; intros [|n]; cbn; try reflexivity. apply IH. Qed.

  Lemma pw_sum_zeros fuel : forall n, pw_sum fuel (S n) (zeros (S n)) = zero.
  Proof.
    induction fuel as [|fuel IH]; intros n; cbn [pw_sum]; [apply pw_block_zeros|].
    destruct (Nat.leb_spec (S n) 128) as [Hle|Hgt]; [apply pw_block_zeros|].
    set (h := S n / 2). set (n2 := h - h mod 8).
    assert (Hh : 64 <= h) by (subst h; apply Nat.div_le_lower_bound; lia).
    assert (Hh2 : 2 * h <= S n) by (subst h; apply Nat.mul_div_le; lia).
    assert (Hm : h mod 8 < 8) by (apply Nat.mod_upper_bound; lia).
    assert (Hn2 : 0 < n2 < S n) by (subst n2; lia).
    rewrite firstn_zeros, skipn_zeros. replace (Nat.min n2 (S n)) with n2 by lia.
    destruct n2 as [|a]; [lia|]. destruct (S n - S a) as [|b] eqn:Eb; [lia|].
    rewrite !IH. apply (zl_add00 L).
  Qed.

  Lemma np_sum_zeros n : np_sum (zeros (S n)) = zero.
  Proof. unfold np_sum. unfold zeros at 1 2. rewrite repeat_length. rewrite pw_sum_zeros. apply (zl_add00 L). Qed.

  Lemma map_const_zeros {A : Type} (l : list A) : map (fun _ => (zero : T)) l = zeros (length l).
  Proof. induction l as [|a l IH]; cbn; [reflexivity|]. f_equal. exact IH. Qed.

  Lemma cumsum_from_zeros n : cumsum_from zero (zeros n) = zeros n.
  Proof. induction n as [|n IH]; cbn; [reflexivity|]. rewrite (zl_add00 L). f_equal. exact IH. Qed.
  Lemma nan0_zero : nan0 (zero : T) = zero.
  Proof. unfold nan0. destruct (isnan zero); reflexivity. Qed.
  Lemma nancumsum_zeros n : nancumsum (zeros n) = zeros n.
  Proof.
    unfold nancumsum. replace (map nan0 (zeros n)) with (zeros n).
    - destruct n as [|n]; cbn; [reflexivity|]. f_equal. apply cumsum_from_zeros.
    - induction n as [|n IH]; cbn; [reflexivity|]. rewrite nan0_zero. f_equal. exact IH.
  Qed.
  Lemma last_elem_zeros n : last_elem (zeros (S n)) = Ok zero.
  Proof. induction n as [|n IH]; [reflexivity|]. change (zeros (S (S n))) with (zero :: zeros (S n)). cbn [last_elem]. exact IH. Qed.
  Lemma fold_nmin_t n : fold_left nmin (repeat nan_t n) nan_t = nan_t.
  Proof. induction n as [|n IH]; cbn; [reflexivity|]. rewrite (zl_nmin_tt L). exact IH. Qed.
  Lemma fold_nmax_0 n : fold_left nmax (zeros n) zero = zero.
  Proof. induction n as [|n IH]; cbn; [reflexivity|]. rewrite (zl_nmax00 L). exact IH. Qed.
  Lemma map_repeat {A B : Type} (f : A -> B) a n : map f (repeat a n) = repeat (f a) n.
  Proof. induction n as [|n IH]; cbn; [reflexivity|]. f_equal. exact IH. Qed.
  Lemma select_false (xs : list T) : select (repeat false (length xs)) xs = map (fun x => where_ false x nan) xs.
  Proof. unfold select. induction xs as [|x xs IH]; cbn; [reflexivity|]. f_equal. exact IH. Qed.

  (* the (1,1) zero against r sample points = r zeros against r sample points *)
  Lemma defuzz_narrow_zero kd (xs : list T) : xs <> [] ->
    defuzz_narrow kd xs zero = defuzzify_samples kd xs (map (fun _ => zero) xs).
  Proof.
    intros Hxs. unfold defuzzify_samples. rewrite map_length, Nat.eqb_refl. cbn [negb].
    rewrite map_const_zeros. destruct xs as [|x0 xs']; [congruence|]. set (xs := x0 :: xs') in *.
    change (length xs) with (S (length xs')).
    assert (Hmask : maxima_mask (zeros (S (length xs'))) = Ok (repeat false (S (length xs')))).
    { unfold maxima_mask, amax, reduce1. cbn [zeros repeat]. change (repeat zero (length xs')) with (zeros (length xs')).
      rewrite fold_nmax_0. cbn [bind]. f_equal.
      change (zero :: zeros (length xs')) with (zeros (S (length xs'))). unfold zeros. rewrite map_repeat.
      unfold gtb. rewrite (zl_lt00 L). reflexivity. }
    assert (Hmask1 : maxima_mask [zero] = Ok [false]).
    { unfold maxima_mask, amax, reduce1. cbn. unfold gtb. rewrite (zl_lt00 L). reflexivity. }
    destruct kd; cbn [defuzz_narrow].
    - (* Bisector *)
      unfold bisector, bisector_area. rewrite nancumsum_zeros, last_elem_zeros. cbn [bind].
      change (nancumsum [zero]) with (nancumsum (zeros 1)). rewrite nancumsum_zeros. cbn [zeros repeat last_elem bind map].
      fold nan_t. unfold zeros. rewrite map_repeat. fold nan_t.
      unfold amin, reduce1. cbn [repeat fold_left bind]. rewrite fold_nmin_t. cbn [bind].
      rewrite (zl_eqb_tt L). rewrite map_repeat, (zl_eqb_tt L).
      try change (S (length xs')) with (length xs); try change (false :: repeat false (length xs')) with (repeat false (length xs)); rewrite select_false; reflexivity.
    - (* Centroid *)
      unfold centroid. f_equal. f_equal.
      + f_equal. unfold zeros. change (S (length xs')) with (length xs). clear.
        induction xs as [|x l IH]; cbn; [reflexivity|]. f_equal. exact IH.
      + rewrite np_sum_zeros. exact (np_sum_zeros 0).
    - unfold lom. rewrite Hmask, Hmask1. cbn [bind hd]. try change (S (length xs')) with (length xs); try change (false :: repeat false (length xs')) with (repeat false (length xs)); rewrite select_false; reflexivity.
    - unfold mom. rewrite Hmask, Hmask1. cbn [bind hd]. try change (S (length xs')) with (length xs); try change (false :: repeat false (length xs')) with (repeat false (length xs)); rewrite select_false; reflexivity.
    - unfold som. rewrite Hmask, Hmask1. cbn [bind hd]. try change (S (length xs')) with (length xs); try change (false :: repeat false (length xs')) with (repeat false (length xs)); rewrite select_false; reflexivity.
  Qed.
End ZeroLaws.

(* the laws hold of binary64, whatever the mode and the oracle table *)
Lemma NumF_zero_laws : forall m t, @zero_laws PrimFloat.float (NumF.NumF m t).
Proof. intros m t. split; reflexivity. Qed.

(* every integral defuzzifier returns a value on a non-empty row of samples *)
Section SamplesOk.
  Context {T : Type} {N : Num T}.
  Lemma defuzzify_samples_ok kd (xs ys : list T) : length xs = length ys -> xs <> [] ->
    exists z, defuzzify_samples kd xs ys = Ok z.
  Proof.
    intros Hl Hxs. unfold defuzzify_samples. rewrite (proj2 (Nat.eqb_eq _ _) Hl). cbn [negb].
    destruct xs as [|x xs]; [congruence|]. destruct ys as [|y ys]; [discriminate|].
    destruct kd.
    - unfold bisector, bisector_area, nancumsum. cbn [map cumsum].
      assert (H : exists v, last_elem (nan0 y :: cumsum_from (nan0 y) (map nan0 ys)) = Ok v).
      { generalize (nan0 y) at 1 as a0. generalize (cumsum_from (nan0 y) (map nan0 ys)) as l. clear.
        induction l as [|b l IH]; intros a0; cbn [last_elem]; [eauto|]. apply IH. }
      destruct H as (v & ->). cbn [bind map amin reduce1]. eauto.
    - eexists; reflexivity.
    - unfold lom, maxima_mask, amax, reduce1. cbn [bind map select map2 nanmax reduce1]. eexists; reflexivity.
    - unfold mom, maxima_mask, amax, reduce1. cbn [bind]. eexists; reflexivity.
    - unfold som, maxima_mask, amax, reduce1. cbn [bind map select map2 nanmin reduce1]. eexists; reflexivity.
  Qed.
  Lemma midpoints_length (lo hi : T) res xs : midpoints lo hi res = Ok xs -> length xs = res /\ res <> 0.
  Proof.
    unfold midpoints. destruct (Nat.eqb_spec res 0) as [E|E]; [discriminate|]. intros H. injection H as <-.
    unfold midpoints_list. rewrite map_length, seq_length. split; [reflexivity | exact E].
  Qed.
End SamplesOk.

Section Row.
  Context {T : Type} {N : Num T}.
  Variables (e : engine T) (ins : list (arr T)) (k i : nat).
  Hypothesis Hi : i < k.
  Hypothesis Hins : Forall (colshape k) ins.
  Hypothesis Hlen : length ins = length (e_inputs e).
  Hypothesis Hne : e_inputs e <> [].

  Notation fe := (@no_function T).
  Notation tm := (term_membership fe).

  (* row i of the inputs *)
  Definition iv_at (iv : input_var T) (a : arr T) : input_var T :=
    {| iv_name := iv_name iv; iv_enabled := iv_enabled iv; iv_min := iv_min iv; iv_max := iv_max iv;
       iv_lock_range := iv_lock_range iv; iv_terms := iv_terms iv; iv_value := aget nan a i |}.
  Definition row_inputs : list (input_var T) := map2 iv_at (e_inputs e) ins.

  (* row i of an activated term / of a fuzzy output *)
  Definition proj_act (a : bactivated T) : activated T :=
    {| a_term := ba_term a; a_degree := aget nan (ba_degree a) i; a_implication := ba_implication a |}.
  Definition fzshape (l : list (bactivated T)) : Prop := Forall (fun a => rowshape k (ba_degree a)) l.

  (* a batch state over (e, ins) *)
  Definition over (st : bstate T) : Prop := bs_e st = e /\ bs_inputs st = ins.
  Lemma over_with_outputs st outs : over st -> over (with_outputs_b st outs).
  Proof. intros [H1 H2]. split; assumption. Qed.

  Lemma row_inputs_values : map (fun iv : input_var T => iv_value iv) row_inputs = map (fun a => aget nan a i) ins.
  Proof.
    unfold row_inputs. revert Hlen. generalize (e_inputs e) as ivs. clear.
    induction ins as [|a l IH]; intros [|iv ivs] H; cbn in *; try discriminate; [reflexivity|].
    f_equal. apply IH. lia.
  Qed.
  Lemma row_inputs_length : length row_inputs = length (e_inputs e).
  Proof. unfold row_inputs. apply map2_length. symmetry. exact Hlen. Qed.

  Lemma ins_nonempty : ins <> [].
  Proof. intros E. rewrite E in Hlen. destruct (e_inputs e); [congruence|discriminate]. Qed.

  (* ---- (A) Term.membership on a row-shaped argument *)
  Lemma term_membership_row st t x E :
    over st -> e_inputs E = row_inputs -> rowshape k x ->
    match term_membership_b st t x with
    | Ok y => rowshape k y /\ tm E t (aget nan x i) = Ok (aget nan y i)
    | Err er => tm E t (aget nan x i) = Err er
    end.
  Proof.
    intros [Hse Hsi] HE Hx. destruct t as [name s|name xy h|name cs|name [f|] vars]; cbn [term_membership_b term_membership].
    - split; [apply rowshape_lift1; exact Hx|]. f_equal. symmetry. apply (aget_lift1 k); assumption.
    - destruct xy as [|p xy]; [reflexivity|].
      split; [apply rowshape_lift1; exact Hx|]. f_equal. symmetry. apply (aget_lift1 k); assumption.
    - unfold linear_membership_b, linear_membership. rewrite Hse, HE, row_inputs_length.
      destruct (negb _); [reflexivity|].
      unfold input_values_get. rewrite Hsi, (stack_values_cols k ins Hins ins_nonempty). cbn [bind rows_of].
      split; [cbn; rewrite !map_length, seq_length; reflexivity|].
      f_equal. cbn [aget]. rewrite map_map.
      rewrite (nth_map_lt _ (seq 0 k) i 0) by (rewrite seq_length; exact Hi).
      rewrite seq_nth by exact Hi. cbn [plus]. rewrite row_inputs_values. reflexivity.
    - reflexivity.
    - reflexivity.
  Qed.

  Lemma term_tsukamoto_row t y :
    rowshape k y ->
    match term_tsukamoto_b t y with
    | Ok z => rowshape k z /\ term_tsukamoto t (aget nan y i) = Ok (aget nan z i)
    | Err er => term_tsukamoto t (aget nan y i) = Err er
    end.
  Proof.
    intros Hy. destruct t as [name s|name xy h|name cs|name f vars]; cbn [term_tsukamoto_b term_tsukamoto]; try reflexivity.
    destruct (shape_tsukamoto s) as [g|]; [|reflexivity].
    split; [apply rowshape_lift1; exact Hy|]. f_equal. symmetry. apply (aget_lift1 k); assumption.
  Qed.

  (* ---- (B) grouped terms *)
  Lemma proj_new_group a : rowshape k (ba_degree a) -> proj_act (new_group_b a) = Weighted.new_group (proj_act a).
  Proof.
    intros Ha. unfold proj_act, new_group_b, Weighted.new_group. cbn. f_equal. apply (aget_lift1 k); assumption.
  Qed.

  Lemma group_insert_row s a G :
    rowshape k (ba_degree a) -> fzshape G ->
    exists G', group_insert_b s a G = Ok G' /\ fzshape G' /\
               map proj_act G' = Weighted.group_insert s (proj_act a) (map proj_act G).
  Proof.
    intros Ha HG. induction HG as [|g G Hg HG IH]; cbn [group_insert_b Weighted.group_insert map].
    - eexists; split; [reflexivity|]. split.
      + constructor; [|constructor]. cbn. apply rowshape_lift1. exact Ha.
      + cbn. rewrite (proj_new_group a Ha). reflexivity.
    - change (act_name (proj_act g)) with (bact_name g). change (act_name (proj_act a)) with (bact_name a).
      destruct (String.eqb (bact_name g) (bact_name a)).
      + unfold update_group_b.
        destruct (lift2_rows k (snormx_compute s) (ba_degree g) (ba_degree a) Hg Ha) as (c & Hc & Hcs & Hcv).
        rewrite Hc. cbn [bind]. eexists; split; [reflexivity|]. split.
        * constructor; [cbn; apply rowshape_lift1; exact Hcs | exact HG].
        * cbn [map]. f_equal. unfold proj_act, Weighted.update_group. cbn. f_equal.
          rewrite (aget_lift1 k sanitize c i nan nan Hcs Hi). f_equal. apply Hcv. exact Hi.
      + destruct IH as (G' & HG' & Hs' & Hm'). rewrite HG'. cbn [bind].
        eexists; split; [reflexivity|]. split; [constructor; assumption|]. cbn [map]. f_equal. exact Hm'.
  Qed.

  Lemma grouped_from_row s l : forall G, fzshape l -> fzshape G ->
    exists G', grouped_from_b s l G = Ok G' /\ fzshape G' /\
               map proj_act G' = fold_left (fun groups a => Weighted.group_insert s a groups) (map proj_act l) (map proj_act G).
  Proof.
    induction l as [|a l IH]; intros G Hl HG; cbn [grouped_from_b map fold_left].
    - eexists; split; [reflexivity|]. split; [exact HG | reflexivity].
    - inversion Hl as [|a' l' Ha Hl']; subst.
      destruct (group_insert_row s a G Ha HG) as (G1 & H1 & Hs1 & Hm1). rewrite H1. cbn [bind].
      destruct (IH G1 Hl' Hs1) as (G' & H' & Hs' & Hm'). exists G'. split; [exact H'|]. split; [exact Hs'|].
      rewrite Hm', Hm1. reflexivity.
  Qed.

  Lemma grouped_terms_row agg l : fzshape l ->
    exists G, grouped_terms_b agg l = Ok G /\ fzshape G /\ map proj_act G = Weighted.grouped_terms agg (map proj_act l).
  Proof.
    intros Hl. unfold grouped_terms_b, Weighted.grouped_terms.
    destruct (grouped_from_row (agg_or_sum agg) l [] Hl (Forall_nil _)) as (G & H & Hs & Hm). eauto.
  Qed.

  Lemma fuzzy_activation_degree_row agg l name : fzshape l ->
    exists d, fuzzy_activation_degree_b agg l name = Ok d /\ rowshape k d /\
              aget nan d i = Antecedent.fuzzy_activation_degree agg (map proj_act l) name.
  Proof.
    intros Hl. unfold fuzzy_activation_degree_b.
    destruct (grouped_terms_row agg l Hl) as (G & H & Hs & Hm). rewrite H. cbn [bind].
    rewrite fuzzy_activation_degree_nd, <- Hm. clear H Hm.
    induction Hs as [|g G Hg HG IH]; cbn [find map].
    - eexists; split; [reflexivity|]. split; [exact I | reflexivity].
    - change (act_name (proj_act g)) with (bact_name g).
      destruct (String.eqb (bact_name g) name); [|exact IH].
      eexists; split; [reflexivity|]. split; [exact Hg | reflexivity].
  Qed.
  (* ---- the relation between the scalar outputs of row i and the batch outputs *)
  Definition orel (outs : list (output_var T)) (bouts : list (boutput T)) : Prop :=
    map ov_static outs = map ov_static (e_outputs e) /\
    map (@ov_fuzzy T) outs = map (fun bo => map proj_act (bo_fuzzy bo)) bouts /\
    Forall (fun bo => fzshape (bo_fuzzy bo)) bouts.

  Lemma orel_nth outs bouts j : orel outs bouts ->
    match nth_error outs j, nth_error (e_outputs e) j, nth_error bouts j with
    | Some ov, Some ov0, Some bo => ov_static ov = ov_static ov0 /\ ov_fuzzy ov = map proj_act (bo_fuzzy bo) /\ fzshape (bo_fuzzy bo)
    | None, None, None => True
    | _, _, _ => False
    end.
  Proof.
    intros (H1 & H2 & H3).
    pose proof (map_eq_nth ov_static _ _ j H1) as A. pose proof (map_eq_nth2 _ _ _ _ j H2) as B.
    destruct (nth_error outs j) as [ov|], (nth_error (e_outputs e) j) as [ov0|], (nth_error bouts j) as [bo|] eqn:Hb;
      try contradiction; try exact I.
    split; [exact A|]. split; [exact B|]. rewrite Forall_forall in H3. apply H3. eapply nth_error_In. exact Hb.
  Qed.

  Lemma ov_static_fields (a b : output_var T) : ov_static a = ov_static b ->
    ov_enabled a = ov_enabled b /\ ov_terms a = ov_terms b /\ ov_aggregation a = ov_aggregation b /\
    ov_defuzzifier a = ov_defuzzifier b /\ ov_min a = ov_min b /\ ov_max a = ov_max b /\
    ov_lock_range a = ov_lock_range b /\ ov_lock_previous a = ov_lock_previous b /\ ov_default a = ov_default b.
  Proof. unfold ov_static. intros H. injection H. intros. repeat split; assumption. Qed.

  (* the scalar engine a rule of row i is evaluated against *)
  Definition rview (V : engine T) (outs : list (output_var T)) : Prop := e_inputs V = row_inputs /\ e_outputs V = outs.

  Lemma var_terms_row V outs bouts v : rview V outs -> orel outs bouts -> var_terms V v = var_terms e v.
  Proof.
    intros [HVi HVo] Ho. destruct v as [j|j]; cbn [var_terms].
    - rewrite HVi. unfold row_inputs. rewrite map2_nth_error.
      destruct (nth_error (e_inputs e) j) as [iv|] eqn:Hiv; [|reflexivity].
      destruct (nth_error ins j) as [a|] eqn:Ha; [reflexivity|].
      apply nth_error_None in Ha. assert (j < length (e_inputs e)) by (apply nth_error_Some; congruence). lia.
    - rewrite HVo. pose proof (orel_nth outs bouts j Ho) as H.
      destruct (nth_error outs j) as [ov|], (nth_error (e_outputs e) j) as [ov0|], (nth_error bouts j) as [bo|];
        try contradiction; try reflexivity.
      cbn. f_equal. apply (ov_static_fields _ _ (proj1 H)).
  Qed.

  Lemma var_enabled_row V outs bouts v : rview V outs -> orel outs bouts -> var_enabled V v = var_enabled e v.
  Proof.
    intros [HVi HVo] Ho. destruct v as [j|j]; cbn [var_enabled].
    - rewrite HVi. unfold row_inputs. rewrite map2_nth_error.
      destruct (nth_error (e_inputs e) j) as [iv|] eqn:Hiv; [|reflexivity].
      destruct (nth_error ins j) as [a|] eqn:Ha; [reflexivity|].
      apply nth_error_None in Ha. assert (j < length (e_inputs e)) by (apply nth_error_Some; congruence). lia.
    - rewrite HVo. pose proof (orel_nth outs bouts j Ho) as H.
      destruct (nth_error outs j) as [ov|], (nth_error (e_outputs e) j) as [ov0|], (nth_error bouts j) as [bo|];
        try contradiction; try reflexivity.
      cbn. f_equal. apply (ov_static_fields _ _ (proj1 H)).
  Qed.

  (* ---- (C) Antecedent.activation_degree *)
  Lemma activation_degree_row st V outs cj dj (x : expr) :
    over st -> rview V outs -> orel outs (bs_outputs st) ->
    match activation_degree_b st cj dj x with
    | Ok d => rowshape k d /\ Antecedent.activation_degree (tm V) cj dj V x = Ok (aget nan d i)
    | Err er => Antecedent.activation_degree (tm V) cj dj V x = Err er
    end.
  Proof.
    intros Hst HV Ho. induction x as [v hs t | is_and l IHl r IHr].
    - cbn [activation_degree_b Antecedent.activation_degree].
      rewrite (var_terms_row V outs _ v HV Ho), (var_enabled_row V outs _ v HV Ho).
      destruct Hst as [Hse Hsi]. rewrite Hse.
      destruct (var_terms e v) as [terms0|]; [|destruct (var_enabled e v); reflexivity].
      destruct (var_enabled e v) as [en|]; [|reflexivity].
      destruct terms0 as [|t0 terms]; [reflexivity|].
      destruct (negb en); [split; [exact I|reflexivity]|].
      destruct (last_is_any hs); [split; [exact I|reflexivity]|].
      destruct t as [kk|]; [|reflexivity].
      destruct (nth_error (t0 :: terms) kk) as [tmm|]; [|reflexivity].
      destruct v as [j|j].
      + destruct HV as [HVi HVo]. rewrite HVi, Hsi. unfold row_inputs. rewrite map2_nth_error.
        destruct (nth_error (e_inputs e) j) as [iv|] eqn:Hiv.
        * destruct (nth_error ins j) as [a|] eqn:Ha;
            [|apply nth_error_None in Ha; assert (j < length (e_inputs e)) by (apply nth_error_Some; congruence); lia].
          assert (Hra : rowshape k a).
          { apply colshape_rowshape. rewrite Forall_forall in Hins. apply Hins. eapply nth_error_In. exact Ha. }
          pose proof (term_membership_row st tmm a V (conj Hse Hsi) HVi Hra) as Hm. cbn [iv_value iv_at].
          destruct (term_membership_b st tmm a) as [y|er]; cbn [bind].
          -- destruct Hm as [Hy Hm]. rewrite Hm. cbn [bind]. split; [apply rowshape_lift1; exact Hy|].
             f_equal. symmetry. apply (aget_lift1 k); assumption.
          -- rewrite Hm. reflexivity.
        * destruct (nth_error ins j) as [a|] eqn:Ha; [|reflexivity].
          apply nth_error_None in Hiv. assert (j < length ins) by (apply nth_error_Some; congruence). lia.
      + destruct HV as [HVi HVo]. rewrite HVo. pose proof (orel_nth outs _ j Ho) as H.
        destruct (nth_error outs j) as [ov|], (nth_error (e_outputs e) j) as [ov0|], (nth_error (bs_outputs st) j) as [bo|];
          try contradiction; try reflexivity.
        destruct H as (Hs & Hf & Hsh).
        destruct (fuzzy_activation_degree_row (ov_aggregation ov0) (bo_fuzzy bo) (term_name tmm) Hsh) as (d & Hd & Hds & Hdv).
        rewrite Hd. cbn [bind]. split; [apply rowshape_lift1; exact Hds|].
        rewrite Hf. replace (ov_aggregation ov) with (ov_aggregation ov0) by (symmetry; apply (ov_static_fields _ _ Hs)).
        rewrite <- Hdv. f_equal. symmetry. apply (aget_lift1 k); assumption.
    - destruct is_and; cbn [activation_degree_b Antecedent.activation_degree].
      + destruct cj as [c|]; [|reflexivity].
        destruct (activation_degree_b st (Some c) dj l) as [a|er]; cbn [bind]; [|rewrite IHl; reflexivity].
        destruct IHl as [Ha IHl]. rewrite IHl. cbn [bind].
        destruct (activation_degree_b st (Some c) dj r) as [b|er]; cbn [bind]; [|rewrite IHr; reflexivity].
        destruct IHr as [Hb IHr]. rewrite IHr. cbn [bind].
        destruct (lift2_rows k (tnormx_compute c) a b Ha Hb) as (cc & Hc & Hcs & Hcv). rewrite Hc.
        split; [exact Hcs|]. f_equal. symmetry. apply Hcv. exact Hi.
      + destruct dj as [c|]; [|reflexivity].
        destruct (activation_degree_b st cj (Some c) l) as [a|er]; cbn [bind]; [|rewrite IHl; reflexivity].
        destruct IHl as [Ha IHl]. rewrite IHl. cbn [bind].
        destruct (activation_degree_b st cj (Some c) r) as [b|er]; cbn [bind]; [|rewrite IHr; reflexivity].
        destruct IHr as [Hb IHr]. rewrite IHr. cbn [bind].
        destruct (lift2_rows k (snormx_compute c) a b Ha Hb) as (cc & Hc & Hcs & Hcv). rewrite Hc.
        split; [exact Hcs|]. f_equal. symmetry. apply Hcv. exact Hi.
  Qed.

  Lemma rule_activate_with_row st V outs cj dj (r : rule T) :
    over st -> rview V outs -> orel outs (bs_outputs st) ->
    match rule_activate_with_b st cj dj r with
    | Ok d => rowshape k d /\ rule_activate_with (tm V) cj dj V r = Ok (aget nan d i)
    | Err er => rule_activate_with (tm V) cj dj V r = Err er
    end.
  Proof.
    intros Hst HV Ho. unfold rule_activate_with_b, rule_activate_with.
    destruct (rule_loaded r); [|reflexivity]. destruct (r_antecedent r) as [x|]; [|reflexivity].
    pose proof (activation_degree_row st V outs cj dj x Hst HV Ho) as H.
    destruct (activation_degree_b st cj dj x) as [d|er]; cbn [bind]; [|rewrite H; reflexivity].
    destruct H as [Hd H]. rewrite H. cbn [bind]. split; [apply rowshape_lift1; exact Hd|].
    f_equal. symmetry. apply (aget_lift1 k); assumption.
  Qed.
  (* ---- (D) Consequent.modify *)
  Lemma update_nth_id {A : Type} (j : nat) (l : list A) : update_nth j (fun x => x) l = l.
  Proof. revert j; induction l as [|a l IH]; intros [|j]; cbn; auto. f_equal. apply IH. Qed.

  Lemma orel_append outs bouts j (ba : bactivated T) :
    orel outs bouts -> rowshape k (ba_degree ba) ->
    orel (update_nth j (fun w => append_fuzzy w (proj_act ba)) outs) (update_nth j (bo_append ba) bouts).
  Proof.
    intros (H1 & H2 & H3) Hba. split; [|split].
    - rewrite (update_nth_map2 _ (fun x => x) ov_static); [rewrite update_nth_id; exact H1 | reflexivity].
    - rewrite (update_nth_map2 _ (fun l => l ++ [proj_act ba]) (@ov_fuzzy T)) by reflexivity.
      rewrite (update_nth_map2 (bo_append ba) (fun l => l ++ [proj_act ba]) (fun bo => map proj_act (bo_fuzzy bo))).
      + rewrite H2. reflexivity.
      + intros bo. cbn. rewrite map_app. reflexivity.
    - apply Forall_update_nth; [exact H3|]. intros bo Hbo. cbn. apply Forall_app. split; [exact Hbo|].
      constructor; [exact Hba | constructor].
  Qed.

  Lemma proj_mk_bactivated t D impl : rowshape k D -> proj_act (mk_bactivated t D impl) = mk_activated t (aget nan D i) impl.
  Proof. intros HD. unfold proj_act, mk_bactivated, mk_activated. cbn. f_equal. apply (aget_lift1 k); assumption. Qed.

  Lemma modify_loop_row carry impl cs : forall D outs bouts,
    rowshape k D -> orel outs bouts ->
    match modify_loop_b e carry D impl cs bouts with
    | Ok bouts' => exists outs', modify_loop carry (aget nan D i) impl cs outs = Ok outs' /\ orel outs' bouts'
    | Err er => modify_loop carry (aget nan D i) impl cs outs = Err er
    end.
  Proof.
    induction cs as [|c cs IH]; intros D outs bouts HD Ho; cbn [modify_loop_b modify_loop].
    - exists outs. split; [reflexivity | exact Ho].
    - pose proof (orel_nth outs bouts (c_var c) Ho) as H.
      destruct (nth_error outs (c_var c)) as [v|], (nth_error (e_outputs e) (c_var c)) as [v0|],
               (nth_error bouts (c_var c)) as [bo|]; try contradiction; try reflexivity.
      destruct H as (Hs & Hf & Hsh). destruct (ov_static_fields _ _ Hs) as (Hen & Hterms & _).
      unfold var_truthy. rewrite Hterms, Hen.
      destruct (negb (negb (is_nil (ov_terms v0)))); [reflexivity|].
      destruct (ov_enabled v0).
      + destruct (nth_error (ov_terms v0) (c_term c)) as [t|]; [|reflexivity].
        set (D' := lift1 (Consequent.apply_hedges (c_hedges c)) D).
        assert (HD' : rowshape k D') by (apply rowshape_lift1; exact HD).
        assert (Hv' : aget nan D' i = Consequent.apply_hedges (c_hedges c) (aget nan D i)) by (apply (aget_lift1 k); assumption).
        rewrite <- Hv', <- (proj_mk_bactivated t D' impl HD').
        assert (Hsan : rowshape k (ba_degree (mk_bactivated t D' impl))) by (cbn; apply rowshape_lift1; exact HD').
        pose proof (orel_append outs bouts (c_var c) (mk_bactivated t D' impl) Ho Hsan) as Ho'.
        destruct carry.
        * exact (IH D' _ _ HD' Ho').
        * exact (IH D _ _ HD Ho').
      + exact (IH D outs bouts HD Ho).
  Qed.

  Lemma modify_row impl cs D outs bouts :
    rowshape k D -> orel outs bouts ->
    match modify_b e D impl cs bouts with
    | Ok bouts' => exists outs', modify (aget nan D i) impl cs outs = Ok outs' /\ orel outs' bouts'
    | Err er => modify (aget nan D i) impl cs outs = Err er
    end.
  Proof.
    intros HD Ho. unfold modify_b, modify, modify_gen. destruct (is_nil cs); [reflexivity|].
    apply modify_loop_row; assumption.
  Qed.

  (* ---- (E) the General loop *)
  Lemma rview_view E outs : e_inputs E = row_inputs -> rview (view E outs) outs.
  Proof. intros H. split; [exact H | reflexivity]. Qed.

  Lemma rule_step_row st E b outs bouts r :
    over st -> e_inputs E = row_inputs -> orel outs bouts ->
    match rule_step_b st (b_conjunction b) (b_disjunction b) (b_implication b) bouts r with
    | Ok ro => exists outs', rule_contribution fe E b outs r = Ok outs' /\ orel outs' (snd ro)
    | Err er => rule_contribution fe E b outs r = Err er
    end.
  Proof.
    intros Hst HE Ho. unfold rule_step_b, rule_contribution, firing_degree.
    destruct (rule_loaded r); [|exists outs; split; [reflexivity | exact Ho]].
    pose proof (rule_activate_with_row (with_outputs_b st bouts) (view E outs) outs (b_conjunction b) (b_disjunction b) r
                  (over_with_outputs st bouts Hst) (rview_view E outs HE) Ho) as H.
    destruct (rule_activate_with_b (with_outputs_b st bouts) _ _ r) as [D|er]; cbn [bind]; [|rewrite H; reflexivity].
    destruct H as [HD H]. rewrite H. cbn [bind]. destruct Hst as [Hse _]. rewrite Hse.
    destruct (r_enabled r); [|exists outs; split; [reflexivity | exact Ho]].
    pose proof (modify_row (b_implication b) (r_consequent r) D outs bouts HD Ho) as Hm.
    destruct (modify_b e D _ _ bouts) as [bouts'|er]; cbn [bind]; [|exact Hm].
    exact Hm.
  Qed.

  Lemma rules_step_row st E b rs : forall outs bouts,
    over st -> e_inputs E = row_inputs -> orel outs bouts ->
    match rules_step_b st (b_conjunction b) (b_disjunction b) (b_implication b) bouts rs with
    | Ok ro => exists outs', rules_contribution fe E b outs rs = Ok outs' /\ orel outs' (snd ro)
    | Err er => rules_contribution fe E b outs rs = Err er
    end.
  Proof.
    induction rs as [|r rs IH]; intros outs bouts Hst HE Ho; cbn [rules_step_b rules_contribution].
    - exists outs. split; [reflexivity | exact Ho].
    - pose proof (rule_step_row st E b outs bouts r Hst HE Ho) as H.
      destruct (rule_step_b st _ _ _ bouts r) as [[rec bouts1]|er]; cbn [bind fst snd]; [|rewrite H; reflexivity].
      destruct H as (outs1 & H1 & Ho1). rewrite H1. cbn [bind].
      specialize (IH outs1 bouts1 Hst HE Ho1).
      destruct (rules_step_b st _ _ _ bouts1 rs) as [[recs bouts2]|er]; cbn [bind fst snd]; [|exact IH].
      exact IH.
  Qed.

  Lemma blocks_step_row st E bs : forall outs bouts recs,
    over st -> e_inputs E = row_inputs -> orel outs bouts ->
    (forall b, In b bs -> b_enabled b = true -> is_general b = true) ->
    match blocks_step_b st bouts bs recs with
    | Ok ro => exists outs', blocks_contribution fe E outs bs = Ok outs' /\ orel outs' (snd ro)
    | Err er => blocks_contribution fe E outs bs = Err er
    end.
  Proof.
    induction bs as [|b bs IH]; intros outs bouts recs Hst HE Ho Hg; cbn [blocks_step_b blocks_contribution].
    - exists outs. split; [reflexivity | exact Ho].
    - assert (Hg' : forall b', In b' bs -> b_enabled b' = true -> is_general b' = true) by (intros b' H'; apply Hg; right; exact H').
      destruct (b_enabled b) eqn:Hen.
      + replace (is_general_b b) with true by (symmetry; apply (Hg b (or_introl eq_refl) Hen)).
        pose proof (rules_step_row st E b (b_rules b) outs bouts Hst HE Ho) as H.
        destruct (rules_step_b st _ _ _ bouts (b_rules b)) as [[rec bouts1]|er]; cbn [bind fst snd]; [|rewrite H; reflexivity].
        destruct H as (outs1 & H1 & Ho1). rewrite H1. cbn [bind].
        specialize (IH outs1 bouts1 (match recs with _ :: t => t | [] => [] end) Hst HE Ho1 Hg').
        destruct (blocks_step_b st bouts1 bs _) as [[recs' bouts2]|er]; cbn [bind fst snd]; [|exact IH].
        exact IH.
      + specialize (IH outs bouts (match recs with _ :: t => t | [] => [] end) Hst HE Ho Hg').
        destruct (blocks_step_b st bouts bs _) as [[recs' bouts2]|er]; cbn [bind fst snd]; [|exact IH].
        exact IH.
  Qed.
  (* ================================================================================================ *)
  (* 4. Defuzzifiers                                                                                   *)
  (* ================================================================================================ *)
  Lemma squeeze_row (a : arr T) : rowshape k a -> rowshape k (squeeze a) /\ aget nan (squeeze a) i = aget nan a i.
  Proof.
    destruct a as [x|l|r]; cbn [rowshape]; intros H; [split; [exact I|reflexivity]| |contradiction].
    destruct l as [|x [|y l]]; cbn in *.
    - split; [exact H|reflexivity].
    - split; [exact I|]. assert (i = 0) by lia. subst i. reflexivity.
    - split; [exact H|reflexivity].
  Qed.

  (* ---- weighted defuzzifiers *)
  Lemma resolve_type_terms ty (l1 l2 : list (activated T)) :
    map (@a_term T) l1 = map (@a_term T) l2 -> resolve_type ty l1 = resolve_type ty l2.
  Proof.
    intros H. destruct ty; try reflexivity. cbn [resolve_type]. unfold infer_type.
    destruct l1 as [|a1 l1], l2 as [|a2 l2]; try discriminate; [reflexivity|].
    cbn [map] in H. injection H as Ha Hl. rewrite Ha.
    replace (forallb (fun b => wtype_eqb (term_wtype (a_term b)) (term_wtype (a_term a2))) l1)
      with (forallb (fun b => wtype_eqb (term_wtype (a_term b)) (term_wtype (a_term a2))) l2); [reflexivity|].
    revert l2 Hl. induction l1 as [|b l1 IH]; intros [|b2 l2] Hl; cbn in Hl; try discriminate; [reflexivity|].
    injection Hl as Hb Hl. cbn [forallb]. rewrite Hb, (IH l2 Hl). reflexivity.
  Qed.

  Lemma term_value_row st E ty t w :
    over st -> e_inputs E = row_inputs -> rowshape k w ->
    match term_value_b st ty t w with
    | Ok z => rowshape k z /\ term_value (tm E) term_tsukamoto ty t (aget nan w i) = Ok (aget nan z i)
    | Err er => term_value (tm E) term_tsukamoto ty t (aget nan w i) = Err er
    end.
  Proof.
    intros Hst HE Hw. unfold term_value_b, term_value.
    destruct ty; try exact (term_membership_row st t w E Hst HE Hw). exact (term_tsukamoto_row t w Hw).
  Qed.

  Lemma wloop_row st E ty groups : forall ws wt,
    over st -> e_inputs E = row_inputs -> fzshape groups -> rowshape k ws -> rowshape k wt ->
    match wloop_b st ty groups (ws, wt) with
    | Ok acc => rowshape k (fst acc) /\ rowshape k (snd acc) /\
                wloop (tm E) term_tsukamoto ty (map proj_act groups) (aget nan ws i, aget nan wt i)
                = Ok (aget nan (fst acc) i, aget nan (snd acc) i)
    | Err er => wloop (tm E) term_tsukamoto ty (map proj_act groups) (aget nan ws i, aget nan wt i) = Err er
    end.
  Proof.
    induction groups as [|g groups IH]; intros ws wt Hst HE Hg Hws Hwt; cbn [wloop_b wloop map].
    - split; [exact Hws|]. split; [exact Hwt | reflexivity].
    - inversion Hg as [|g' groups' Hgd Hgs]; subst. cbn [a_degree a_term proj_act fst snd].
      pose proof (term_value_row st E ty (ba_term g) (ba_degree g) Hst HE Hgd) as Hz.
      destruct (term_value_b st ty (ba_term g) (ba_degree g)) as [z|er]; cbn [bind]; [|rewrite Hz; reflexivity].
      destruct Hz as [Hzs Hz]. rewrite Hz. cbn [bind].
      destruct (lift2_rows k wcontrib (ba_degree g) z Hgd Hzs) as (wz & Hwz & Hwzs & Hwzv). rewrite Hwz. cbn [bind].
      destruct (lift2_rows k add ws wz Hws Hwzs) as (ws' & Hws' & Hws's & Hws'v). rewrite Hws'. cbn [bind].
      destruct (lift2_rows k add wt (ba_degree g) Hwt Hgd) as (wt' & Hwt' & Hwt's & Hwt'v). rewrite Hwt'. cbn [bind].
      specialize (IH ws' wt' Hst HE Hgs Hws's Hwt's).
      rewrite (Hws'v i nan nan nan Hi), (Hwzv i nan nan nan Hi), (Hwt'v i nan nan nan Hi) in IH. exact IH.
  Qed.

  Lemma weighted_defuzzify_row st E average ty agg fz :
    over st -> e_inputs E = row_inputs -> fzshape fz ->
    match weighted_defuzzify_b st average ty agg fz with
    | Ok a => rowshape k a /\ weighted_defuzzify (tm E) term_tsukamoto average ty agg (map proj_act fz) = Ok (aget nan a i)
    | Err er => weighted_defuzzify (tm E) term_tsukamoto average ty agg (map proj_act fz) = Err er
    end.
  Proof.
    intros Hst HE Hfz. unfold weighted_defuzzify_b, weighted_defuzzify.
    rewrite (resolve_type_terms ty (map static_activated fz) (map proj_act fz)) by (rewrite !map_map; reflexivity).
    destruct (resolve_type ty (map proj_act fz)) as [this|er]; cbn [bind]; [|reflexivity].
    destruct (grouped_terms_row agg fz Hfz) as (G & HG & HGs & HGm). rewrite HG, <- HGm. cbn [bind].
    assert (Hinit : winit (map proj_act fz) = (aget nan (fst (winit_b fz)) i, aget nan (snd (winit_b fz)) i)).
    { unfold winit, winit_b. destruct fz; reflexivity. }
    rewrite Hinit.
    pose proof (wloop_row st E this G (fst (winit_b fz)) (snd (winit_b fz)) Hst HE HGs I I) as Hw.
    change (fst (winit_b fz), snd (winit_b fz)) with (winit_b fz) in Hw.
    destruct (wloop_b st this G (winit_b fz)) as [[ws wt]|er]; cbn [bind]; [|rewrite Hw; reflexivity].
    destruct Hw as (Hws & Hwt & Hw). cbn [fst snd] in *. rewrite Hw. cbn [bind].
    unfold wfinal_b, wfinal. cbn [fst snd].
    destruct (lift2_rows k div ws wt Hws Hwt) as (q & Hq & Hqs & Hqv). rewrite Hq. cbn [bind].
    destruct average.
    - destruct (squeeze_row q Hqs) as [Hs Hv]. split; [exact Hs|]. rewrite Hv, (Hqv i nan nan nan Hi). reflexivity.
    - destruct (lift2_rows k mul q wt Hqs Hwt) as (y & Hy & Hys & Hyv). rewrite Hy. cbn [bind].
      destruct (squeeze_row y Hys) as [Hs Hv]. split; [exact Hs|].
      rewrite Hv, (Hyv i nan nan nan Hi), (Hqv i nan nan nan Hi). reflexivity.
  Qed.
  (* ---- integral defuzzifiers: the sample matrix *)
  Lemma mapM_eq {A B : Type} (f : A -> result B) (l : list A) : Engine.mapM f l = mapM_ f l.
  Proof. induction l as [|a l IH]; cbn; [reflexivity|]. rewrite IH. reflexivity. Qed.

  Lemma mapM__bind_pure {A B C : Type} (g : A -> result B) (h : B -> C) (l : list A) :
    mapM_ (fun x => do m <- g x; Ok (h m)) l = match mapM_ g l with Ok ms => Ok (map h ms) | Err er => Err er end.
  Proof.
    induction l as [|a l IH]; cbn; [reflexivity|]. destruct (g a) as [b|er]; cbn; [|reflexivity].
    rewrite IH. destruct (mapM_ g l); reflexivity.
  Qed.

  Lemma mapM__In {A B : Type} (f : A -> result B) (l : list A) l' a :
    mapM_ f l = Ok l' -> In a l -> exists b, f a = Ok b.
  Proof.
    intros H Ha. apply In_nth_error in Ha. destruct Ha as (j & Hj).
    destruct (mapM__nth f l l' j a H Hj) as (b & Hb & _). eauto.
  Qed.

  Definition simple_term (t : term T) : Prop := match t with TLinear _ _ => False | _ => True end.

  Lemma mapM__combine_step {B : Type} (am : T -> result T) (h : T -> T -> T) (K : T * T -> result B) (l : list T) :
    forall (ys ms : list T), mapM_ am l = Ok ms -> length ys = length l ->
    mapM_ (fun p => do m <- am (snd p); K (h (fst p) m, snd p)) (combine ys l) = mapM_ K (combine (map2 h ys ms) l).
  Proof.
    induction l as [|x l IH]; intros ys ms Hms Hl.
    - destruct ys; [reflexivity | discriminate].
    - destruct ys as [|y ys]; [discriminate|]. cbn in Hms.
      destruct (am x) as [m|] eqn:Hx; cbn in Hms; [|discriminate].
      destruct (mapM_ am l) as [ms'|] eqn:Hl'; cbn in Hms; [|discriminate]. injection Hms as <-.
      cbn [combine mapM_ map2 fst snd]. rewrite Hx. cbn [bind].
      rewrite (IH ys ms' eq_refl) by (cbn in Hl; lia). reflexivity.
  Qed.
  Lemma combine_const (c : T) (l : list T) (g : T -> T -> result T) :
    mapM_ (fun x => g c x) l = mapM_ (fun p => g (fst p) (snd p)) (combine (map (fun _ => c) l) l).
  Proof. induction l as [|x l IH]; cbn; [reflexivity|]. rewrite IH. reflexivity. Qed.
  Lemma map_fst_combine (l ys : list T) : length ys = length l -> map (fun p : T * T => fst p) (combine ys l) = ys.
  Proof. revert ys; induction l as [|x l IH]; intros [|y ys] H; cbn in *; try discriminate; [reflexivity|]. f_equal. apply IH. lia. Qed.
  Lemma len1 (l : list T) : length l = 1 -> exists x0, l = [x0].
  Proof. destruct l as [|x [|x' l]]; cbn; intros H; try discriminate. eauto. Qed.

  Section Samples.
    Variable xs : list T.
    Hypothesis Hxs : xs <> [].
    Hypothesis Hrok : 2 <= length xs \/ k = 1.

    Lemma term_membership_samples st t E :
      over st -> e_inputs E = row_inputs -> simple_term t ->
      match term_membership_b st t (Mat [xs]) with
      | Ok m => exists ms, m = Mat [ms] /\ mapM_ (tm E t) xs = Ok ms
      | Err er => forall x, tm E t x = Err er
      end.
    Proof.
      intros Hst HE Ht. destruct t as [name s|name xy h|name cs|name [f|] vars]; cbn [term_membership_b term_membership].
      - eexists; split; [reflexivity|]. apply mapM__pure.
      - destruct xy as [|p xy]; [reflexivity|]. eexists; split; [reflexivity|]. apply mapM__pure.
      - contradiction.
      - reflexivity.
      - reflexivity.
    Qed.

    (* the (k, r) matrix of Aggregated.membership as seen from row i *)
    Definition yok (y : arr T) : Prop :=
      match y with
      | Sc _ => True
      | Vec l => length l = length xs /\ 2 <= length xs
      | Mat rows => length rows = k /\ 2 <= k /\ 2 <= length xs /\ Forall (fun row => length row = length xs) rows
      end.
    Definition ystrict (y : arr T) : Prop := yok y /\ match y with Sc _ => length xs = 1 | _ => True end.
    Definition yrow (y : arr T) : list T :=
      match y with Sc c => map (fun _ => c) xs | Vec l => l | Mat rows => nth i rows [] end.

    Lemma yrow_length y : yok y -> length (yrow y) = length xs.
    Proof.
      destruct y as [c|l|rows]; cbn.
      - intros _. apply map_length.
      - tauto.
      - intros (Hk & _ & _ & Hf). rewrite Forall_forall in Hf. apply Hf. apply nth_In. lia.
    Qed.

    Lemma squeeze_one_row (row : list T) : squeeze (Mat [row]) = match row with [c] => Sc c | _ => Vec row end.
    Proof. destruct row as [|c [|c' row]]; reflexivity. Qed.

    (* one row [f d m_1 .. f d m_r], squeezed *)
    Lemma single_row_strict (g : T -> T) (ms : list T) :
      length ms = length xs -> ystrict (squeeze (Mat [map g ms])) /\ yrow (squeeze (Mat [map g ms])) = map g ms.
    Proof.
      intros Hl. rewrite squeeze_one_row.
      destruct ms as [|m [|m' ms]]; cbn [map length] in *.
      - exfalso. apply Hxs. apply length_zero_iff_nil. symmetry. exact Hl.
      - split; [split; [exact I | symmetry; exact Hl]|].
        destruct (len1 xs (eq_sym Hl)) as (x0 & E). cbn [yrow]. rewrite E. reflexivity.
      - split; [|reflexivity]. split; [|exact I]. cbn. rewrite map_length. split; [exact Hl | lia].
    Qed.

    Lemma activated_membership_samples st a E :
      over st -> e_inputs E = row_inputs -> rowshape k (ba_degree a) -> simple_term (ba_term a) ->
      match activated_membership_b st a (Mat [xs]) with
      | Ok y => ystrict y /\ mapM_ (activated_membership fe E (proj_act a)) xs = Ok (yrow y)
      | Err er => forall x, activated_membership fe E (proj_act a) x = Err er
      end.
    Proof.
      intros Hst HE Hd Ht. unfold activated_membership_b, activated_membership. cbn [proj_act a_implication a_term a_degree].
      destruct (ba_implication a) as [imp|]; [|reflexivity].
      pose proof (term_membership_samples st (ba_term a) E Hst HE Ht) as Hm.
      destruct (term_membership_b st (ba_term a) (Mat [xs])) as [m|er]; cbn [bind]; [|intros x; rewrite Hm; reflexivity].
      destruct Hm as (ms & -> & Hms). rewrite mapM__bind_pure, Hms.
      pose proof (mapM__length _ _ _ Hms) as Hlen'.
      destruct (ba_degree a) as [d|ds|rr]; cbn [rowshape] in Hd; [| |contradiction].
      - rewrite lift2_outer_scalar. cbn [bind aget].
        destruct (single_row_strict (tnormx_compute imp d) ms Hlen') as [H1 H2]. split; [exact H1|]. rewrite H2. reflexivity.
      - rewrite lift2_outer. cbn [bind aget]. unfold outer.
        destruct ds as [|d0 [|d1 ds]]; cbn [length] in Hd.
        + lia.
        + assert (Ei : i = 0) by lia. rewrite Ei. cbn [map nth].
          destruct (single_row_strict (tnormx_compute imp d0) ms Hlen') as [H1 H2]. split; [exact H1|]. rewrite H2. reflexivity.
        + assert (Hr2 : 2 <= length xs) by (destruct Hrok; [assumption | lia]).
          set (rows := map (fun d => map (tnormx_compute imp d) ms) (d0 :: d1 :: ds)).
          assert (Hsq : squeeze (Mat rows) = Mat rows).
          { subst rows. cbn [map]. rewrite squeeze_two_rows, map_length, Hlen'.
            destruct (Nat.eqb_spec (length xs) 1); [lia | reflexivity]. }
          rewrite Hsq. split.
          * split; [|exact I]. cbn [yok]. subst rows. rewrite map_length. cbn [length]. split; [exact Hd|].
            split; [lia|]. split; [exact Hr2|]. apply Forall_forall. intros row Hrow. apply in_map_iff in Hrow.
            destruct Hrow as (d & <- & _). rewrite map_length. exact Hlen'.
          * cbn [yrow]. subst rows. rewrite (nth_map_lt _ (d0 :: d1 :: ds) i nan) by (cbn [length]; lia). reflexivity.
    Qed.

    (* broadcasting of two such matrices: row i of the result is the elementwise combination of the rows i *)
    Lemma map2_const_l {A B C : Type} (f : A -> B -> C) (c : A) (la : list T) (l : list B) :
      length l = length la -> map2 f (map (fun _ => c) la) l = map (f c) l.
    Proof. revert l; induction la as [|a la IH]; intros [|b l] H; cbn in *; try discriminate; [reflexivity|]. f_equal. apply IH. lia. Qed.
    Lemma map2_const_both {A B C : Type} (f : A -> B -> C) (c : A) (c' : B) (la : list T) :
      map2 f (map (fun _ => c) la) (map (fun _ => c') la) = map (fun _ => f c c') la.
    Proof. induction la as [|a la IH]; cbn; [reflexivity|]. f_equal. exact IH. Qed.

    Lemma mapM__rows_l (f : T -> T -> T) (la : list T) (rb : list (list T)) :
      Forall (fun row => length row = length la) rb -> mapM_ (bcast_row f la) rb = Ok (map (map2 f la) rb).
    Proof.
      intros H. rewrite (mapM__ext _ (fun row => Ok (map2 f la row))); [apply mapM__pure|].
      intros row Hrow. rewrite Forall_forall in H. apply bcast_row_eq_len. symmetry. apply H. exact Hrow.
    Qed.
    Lemma mapM__rows_r (f : T -> T -> T) (ra : list (list T)) (lb : list T) :
      Forall (fun row => length row = length lb) ra -> mapM_ (fun a => bcast_row f a lb) ra = Ok (map (fun a => map2 f a lb) ra).
    Proof.
      intros H. rewrite (mapM__ext _ (fun row => Ok (map2 f row lb))); [apply mapM__pure|].
      intros row Hrow. rewrite Forall_forall in H. apply bcast_row_eq_len. apply H. exact Hrow.
    Qed.
    Lemma mapM__rows_both (f : T -> T -> T) (ra rb : list (list T)) n :
      Forall (fun row => length row = n) ra -> Forall (fun row => length row = n) rb -> length ra = length rb ->
      mapM_ (fun p => bcast_row f (fst p) (snd p)) (combine ra rb) = Ok (map2 (map2 f) ra rb).
    Proof.
      revert rb; induction ra as [|a ra IH]; intros [|b rb] Ha Hb Hl; cbn in *; try discriminate; [reflexivity|].
      inversion Ha; inversion Hb; subst. rewrite bcast_row_eq_len by congruence. cbn.
      rewrite (IH rb) by (assumption || lia). reflexivity.
    Qed.

    Lemma lift2_y (f : T -> T -> T) (y m : arr T) :
      yok y -> ystrict m ->
      exists y', lift2 f y m = Ok y' /\ ystrict y' /\ yrow y' = map2 f (yrow y) (yrow m).
    Proof.
      intros Hy [Hm Hms].
      destruct y as [c|la|ra], m as [c'|lb|rb]; cbn [yok] in Hy, Hm; cbn [lift2 yrow].
      - eexists; split; [reflexivity|]. split; [split; [exact I | exact Hms]|]. symmetry. apply map2_const_both.
      - eexists; split; [reflexivity|]. split.
        + split; [|exact I]. cbn. rewrite map_length. exact Hm.
        + cbn. symmetry. apply map2_const_l. tauto.
      - eexists; split; [reflexivity|]. destruct Hm as (Hk & Hk2 & Hr2 & Hf). split.
        + split; [|exact I]. cbn. rewrite map_length. split; [exact Hk|]. split; [exact Hk2|]. split; [exact Hr2|].
          apply Forall_forall. intros row Hrow. apply in_map_iff in Hrow. destruct Hrow as (row' & <- & Hrow').
          rewrite map_length. rewrite Forall_forall in Hf. apply Hf. exact Hrow'.
        + cbn. rewrite (nth_map_lt _ rb i []) by lia. symmetry. apply map2_const_l.
          rewrite Forall_forall in Hf. apply Hf. apply nth_In. lia.
      - lia.
      - rewrite bcast_row_eq_len by (destruct Hy, Hm; congruence). cbn [bind].
        eexists; split; [reflexivity|]. split; [|reflexivity]. split; [|exact I]. cbn.
        rewrite map2_length by (destruct Hy, Hm; congruence). exact Hy.
      - destruct Hy as [Hla Hr2], Hm as (Hk & Hk2 & _ & Hf).
        unfold bcast_rows, bcast. rewrite mapM__rows_l by (rewrite Hla; exact Hf). cbn [bind].
        eexists; split; [reflexivity|]. split.
        + split; [|exact I]. cbn. rewrite map_length. split; [exact Hk|]. split; [exact Hk2|]. split; [exact Hr2|].
          apply Forall_forall. intros row Hrow. apply in_map_iff in Hrow. destruct Hrow as (row' & <- & Hrow').
          rewrite map2_length; [exact Hla|]. rewrite Forall_forall in Hf. rewrite (Hf row' Hrow'). exact Hla.
        + cbn. rewrite (nth_map_lt _ rb i []) by lia. reflexivity.
      - destruct Hy as (_ & _ & Hr2 & _). lia.
      - destruct Hy as (Hk & Hk2 & Hr2 & Hf), Hm as [Hlb _].
        unfold bcast_rows, bcast.
        destruct ra as [|a0 [|a1 ra]]; cbn [length] in Hk; try lia.
        rewrite mapM__rows_r by (rewrite Hlb; exact Hf). cbn [bind].
        eexists; split; [reflexivity|]. split.
        + split; [|exact I]. cbn [yok]. rewrite map_length. split; [exact Hk|]. split; [exact Hk2|]. split; [exact Hr2|].
          apply Forall_forall. intros row Hrow. apply in_map_iff in Hrow. destruct Hrow as (row' & <- & Hrow').
          rewrite map2_length; rewrite Forall_forall in Hf; rewrite (Hf row' Hrow'); [reflexivity | congruence].
        + cbn [yrow]. rewrite (nth_map_lt _ (a0 :: a1 :: ra) i []) by (cbn [length]; lia). reflexivity.
      - destruct Hy as (Hka & Hk2 & Hr2 & Hfa), Hm as (Hkb & _ & _ & Hfb).
        unfold bcast_rows, bcast.
        destruct ra as [|a0 [|a1 ra]]; cbn [length] in Hka; try lia.
        destruct rb as [|b0 [|b1 rb]]; cbn [length] in Hkb; try lia.
        replace (Nat.eqb (length (a0 :: a1 :: ra)) (length (b0 :: b1 :: rb))) with true
          by (symmetry; apply Nat.eqb_eq; cbn [length]; lia).
        rewrite (mapM__rows_both f _ _ (length xs) Hfa Hfb) by (cbn [length]; lia). cbn [bind].
        eexists; split; [reflexivity|]. split.
        + split; [|exact I]. cbn [yok]. rewrite map2_length by (cbn [length]; lia). split; [exact Hka|].
          split; [exact Hk2|]. split; [exact Hr2|].
          apply Forall_forall. intros row Hrow. apply In_nth_error in Hrow. destruct Hrow as (j & Hj).
          rewrite map2_nth_error in Hj.
          destruct (nth_error (a0 :: a1 :: ra) j) as [ra_j|] eqn:Ea; [|discriminate].
          destruct (nth_error (b0 :: b1 :: rb) j) as [rb_j|] eqn:Eb; [|discriminate].
          injection Hj as <-. rewrite Forall_forall in Hfa, Hfb.
          pose proof (Hfa _ (nth_error_In _ _ Ea)). pose proof (Hfb _ (nth_error_In _ _ Eb)).
          rewrite map2_length; congruence.
        + cbn [yrow]. apply (map2_nth (map2 f) _ _ i [] [] []); cbn [length]; lia.
    Qed.

    (* ---- Aggregated.membership *)
    Definition fzsimple (l : list (bactivated T)) : Prop := Forall (fun a => simple_term (ba_term a)) l.

    Lemma aggregate_from_samples st E agg l : forall y,
      over st -> e_inputs E = row_inputs -> fzshape l -> fzsimple l -> yok y -> (l = [] -> ystrict y) ->
      match aggregate_from_b st agg y l (Mat [xs]) with
      | Ok y' => ystrict y' /\
                 mapM_ (fun p => aggregate_from fe E agg (fst p) (map proj_act l) (snd p)) (combine (yrow y) xs) = Ok (yrow y')
      | Err er => forall y0 x, In x xs -> aggregate_from fe E agg y0 (map proj_act l) x = Err er
      end.
    Proof.
      induction l as [|a l IH]; intros y Hst HE Hsh Hsi Hy Hnil; cbn [aggregate_from_b map].
      - split; [apply Hnil; reflexivity|]. cbn [aggregate_from].
        rewrite (mapM__pure (fun p : T * T => fst p)). f_equal.
        apply map_fst_combine. apply yrow_length. exact Hy.
      - inversion Hsh as [|a' l' Ha Hl]; inversion Hsi as [|a'' l'' Hta Htl]; subst.
        pose proof (activated_membership_samples st a E Hst HE Ha Hta) as Hm.
        destruct (activated_membership_b st a (Mat [xs])) as [m|er]; cbn [bind].
        + destruct Hm as [Hms Hmv].
          destruct (lift2_y (snormx_compute agg) y m Hy Hms) as (y1 & Hy1 & Hy1s & Hy1v). rewrite Hy1. cbn [bind].
          specialize (IH y1 Hst HE Hl Htl (proj1 Hy1s) (fun _ => Hy1s)).
          destruct (aggregate_from_b st agg y1 l (Mat [xs])) as [y'|er].
          * destruct IH as [Hy' IH]. split; [exact Hy'|]. cbn [aggregate_from].
            pose proof (mapM__combine_step _ (snormx_compute agg)
                       (fun p => aggregate_from fe E agg (fst p) (map proj_act l) (snd p)) xs (yrow y) (yrow m) Hmv (yrow_length y Hy)) as Hstep.
            cbn [fst snd] in Hstep. rewrite Hstep, <- Hy1v. exact IH.
          * intros y0 x Hx. cbn [aggregate_from].
            destruct (mapM__In _ _ _ x Hmv Hx) as (mx & Hmx). rewrite Hmx. cbn [bind]. apply IH. exact Hx.
        + intros y0 x Hx. cbn [aggregate_from]. rewrite Hm. reflexivity.
    Qed.

    Lemma aggregated_membership_samples st E agg fz (ov : output_var T) :
      over st -> e_inputs E = row_inputs -> fzshape fz -> fzsimple fz ->
      ov_fuzzy ov = map proj_act fz -> ov_aggregation ov = agg ->
      match aggregated_membership_b st agg fz (Mat [xs]) with
      | Ok y => yok y /\ (fz <> [] -> ystrict y) /\ (fz = [] -> y = Sc zero) /\
                mapM_ (aggregated_membership fe E ov) xs = Ok (yrow y)
      | Err er => mapM_ (aggregated_membership fe E ov) xs = Err er
      end.
    Proof.
      intros Hst HE Hsh Hsi Hf Ha. unfold aggregated_membership_b.
      destruct fz as [|a fz].
      - split; [exact I|]. split; [congruence|]. split; [reflexivity|].
        rewrite (mapM__ext _ (fun _ => Ok zero)).
        + cbn [yrow]. apply mapM__pure.
        + intros x _. unfold aggregated_membership. rewrite Hf. reflexivity.
      - destruct agg as [s|].
        + pose proof (aggregate_from_samples st E s (a :: fz) (Sc zero) Hst HE Hsh Hsi I (fun H => ltac:(discriminate))) as H.
          assert (Hsc : forall x, aggregated_membership fe E ov x = aggregate_from fe E s zero (map proj_act (a :: fz)) x).
          { intros x. unfold aggregated_membership. rewrite Hf, Ha. reflexivity. }
          rewrite (mapM__ext _ _ xs (fun x _ => Hsc x)).
          destruct (aggregate_from_b st s (Sc zero) (a :: fz) (Mat [xs])) as [y|er].
          * destruct H as [Hy H]. split; [exact (proj1 Hy)|]. split; [intros _; exact Hy|]. split; [discriminate|].
            rewrite (combine_const zero xs (fun y0 x => aggregate_from fe E s y0 (map proj_act (a :: fz)) x)). exact H.
          * apply mapM__err; [|exact Hxs]. intros x Hx. apply H. exact Hx.
        + apply mapM__err; [|exact Hxs]. intros x _. unfold aggregated_membership. rewrite Hf, Ha. reflexivity.
    Qed.
  End Samples.
  (* ---- integral defuzzifiers *)
  Hypothesis ZL : @zero_laws T N.

  Lemma defuzz_row_scalar kd (xs : list T) (c : T) : xs <> [] -> (length xs = 1 \/ c = zero) ->
    defuzz_row kd xs [c] = defuzzify_samples kd xs (map (fun _ => c) xs).
  Proof.
    intros Hxs Hc. unfold defuzz_row. cbn [length].
    destruct (Nat.eqb_spec (length xs) 1) as [E|E].
    - destruct (len1 xs E) as (x0 & ->). reflexivity.
    - destruct Hc as [Hc|Hc]; [contradiction|]. subst c.
      destruct xs as [|x0 [|x1 xs']]; [congruence | cbn in E; congruence |].
      apply (defuzz_narrow_zero ZL). discriminate.
  Qed.

  Lemma mapM__all_ok {A B : Type} (f : A -> result B) (l : list A) :
    (forall a, In a l -> exists b, f a = Ok b) -> exists l', mapM_ f l = Ok l'.
  Proof.
    induction l as [|a l IH]; intros H; cbn; [eauto|].
    destruct (H a (or_introl eq_refl)) as (b & ->). cbn.
    destruct IH as (l' & ->); [intros a' Ha'; apply H; right; exact Ha'|]. cbn. eauto.
  Qed.

  Lemma integral_defuzzify_row st E kd res lo hi agg fz (ov : output_var T) :
    over st -> e_inputs E = row_inputs -> fzshape fz -> fzsimple fz -> (2 <= res \/ k = 1) ->
    ov_fuzzy ov = map proj_act fz -> ov_aggregation ov = agg -> ov_min ov = lo -> ov_max ov = hi ->
    match integral_defuzzify_b st kd res lo hi agg fz with
    | Ok a => rowshape k a /\ defuzzifier_value fe E ov (DIntegral kd res) = Ok (aget nan a i)
    | Err er => defuzzifier_value fe E ov (DIntegral kd res) = Err er
    end.
  Proof.
    intros Hst HE Hsh Hsi Hres Hf Ha Hlo Hhi. unfold integral_defuzzify_b. cbn [defuzzifier_value]. rewrite Hlo, Hhi.
    destruct (midpoints lo hi res) as [xs|er] eqn:Hmid; cbn [bind]; [|reflexivity].
    destruct (midpoints_length lo hi res xs Hmid) as [Hlen' Hres0].
    assert (Hxs : xs <> []) by (intros ->; cbn in Hlen'; congruence).
    assert (Hrok : 2 <= length xs \/ k = 1) by (rewrite Hlen'; exact Hres).
    rewrite mapM_eq.
    pose proof (aggregated_membership_samples xs Hxs Hrok st E agg fz ov Hst HE Hsh Hsi Hf Ha) as H.
    destruct (aggregated_membership_b st agg fz (Mat [xs])) as [y|er]; cbn [bind]; [|rewrite H; reflexivity].
    destruct H as (Hy & Hstrict & Hnil & Hv). rewrite Hv. cbn [bind].
    destruct y as [c|l|rows]; cbn [rows_of yrow].
    - cbn [mapM_]. rewrite (defuzz_row_scalar kd xs c Hxs).
      + destruct (defuzzify_samples kd xs (map (fun _ => c) xs)) as [z|er]; cbn [bind]; [|reflexivity].
        split; [exact I | reflexivity].
      + destruct fz as [|a0 fz]; [right; specialize (Hnil eq_refl); congruence|].
        left. apply (Hstrict ltac:(discriminate)).
    - cbn [mapM_]. destruct Hy as [Hl _]. unfold defuzz_row. rewrite <- Hl, Nat.eqb_refl.
      destruct (defuzzify_samples kd xs l) as [z|er]; cbn [bind]; [|reflexivity].
      split; [exact I | reflexivity].
    - destruct Hy as (Hk & Hk2 & Hr2 & Hrows).
      rewrite (mapM__ext _ (defuzzify_samples kd xs)).
      + destruct (mapM__all_ok (defuzzify_samples kd xs) rows) as (zs & Hzs).
        { intros row Hrow. apply defuzzify_samples_ok; [|exact Hxs]. rewrite Forall_forall in Hrows. symmetry. apply Hrows. exact Hrow. }
        rewrite Hzs. cbn [bind]. pose proof (mapM__length _ _ _ Hzs) as Hzl.
        assert (Hsq : squeeze (Vec zs) = Vec zs) by (destruct zs as [|z0 [|z1 zs]]; cbn in Hzl; try lia; reflexivity).
        rewrite Hsq. split; [cbn; lia|].
        destruct (mapM__nth _ _ _ i (nth i rows []) Hzs (nth_error_nth_some rows i [] ltac:(lia))) as (b & Hb & Hnb).
        rewrite Hb. cbn [aget]. f_equal. symmetry. apply nth_error_nth. exact Hnb.
      + intros row Hrow. unfold defuzz_row. rewrite Forall_forall in Hrows. rewrite (Hrows row Hrow), Nat.eqb_refl. reflexivity.
  Qed.

  Lemma defuzzifier_value_row st E (ov0 ov : output_var T) fz dz :
    over st -> e_inputs E = row_inputs -> fzshape fz ->
    ov_static ov = ov_static ov0 -> ov_fuzzy ov = map proj_act fz ->
    (forall kd res, dz = DIntegral kd res -> fzsimple fz /\ (2 <= res \/ k = 1)) ->
    match defuzzifier_value_b st ov0 fz dz with
    | Ok a => rowshape k a /\ defuzzifier_value fe E ov dz = Ok (aget nan a i)
    | Err er => defuzzifier_value fe E ov dz = Err er
    end.
  Proof.
    intros Hst HE Hsh Hs Hf Hint. destruct (ov_static_fields _ _ Hs) as (_ & _ & Hagg & _ & Hmin & Hmax & _).
    destruct dz as [kd res|average ty]; cbn [defuzzifier_value_b].
    - destruct (Hint kd res eq_refl) as [Hsi Hres].
      apply integral_defuzzify_row; auto.
    - cbn [defuzzifier_value]. rewrite Hagg, Hf. apply weighted_defuzzify_row; assumption.
  Qed.

  (* ================================================================================================ *)
  (* 5. The cascade on a batch = the one-element cascade folded over the rows                          *)
  (* ================================================================================================ *)
  Hypothesis ML : minmax_laws N.

  Definition cfg_of (ov : output_var T) : cascade_cfg T :=
    {| cc_enabled := true; cc_has_defuzzifier := true; cc_lock_previous := ov_lock_previous ov; cc_default := ov_default ov;
       cc_lock_range := ov_lock_range ov; cc_min := ov_min ov; cc_max := ov_max ov |}.

  (* one row: the documented cascade *)
  Lemma cascade_one lp dv lr lo hi p d :
    cascade_values lp dv lr lo hi p [d]
    = [row {| cc_enabled := true; cc_has_defuzzifier := true; cc_lock_previous := lp; cc_default := dv;
              cc_lock_range := lr; cc_min := lo; cc_max := hi |} p d].
  Proof.
    unfold cascade_values, row, set_value, default_subst. cbn [cc_lock_previous cc_default cc_lock_range cc_min cc_max].
    destruct lp, (isnan dv), lr; cbn [fill_forward andb negb map]; destruct (isnan d) eqn:Ed; cbn [map andb]; rewrite ?Ed; reflexivity.
  Qed.

  Lemma row_idem c p d : row c (row c p d) d = row c p d.
  Proof.
    rewrite !row_fin. destruct (cc_lock_previous c && isnan d); [|reflexivity].
    apply (fin_idem (ml_max N ML) (ml_min N ML)).
  Qed.

  (* the scalar OutputVariable.defuzzify in normal form *)
  Definition ov_commit (ov : output_var T) (d : T) : output_var T :=
    {| ov_name := ov_name ov; ov_enabled := ov_enabled ov; ov_min := ov_min ov; ov_max := ov_max ov;
       ov_lock_range := ov_lock_range ov; ov_lock_previous := ov_lock_previous ov; ov_default := ov_default ov;
       ov_aggregation := ov_aggregation ov; ov_defuzzifier := ov_defuzzifier ov; ov_terms := ov_terms ov;
       ov_value := row (cfg_of ov) (ov_value ov) d; ov_previous := ov_value ov; ov_fuzzy := ov_fuzzy ov |}.

  Lemma output_defuzzify_eq E (ov : output_var T) :
    output_defuzzify fe E ov =
    if negb (ov_enabled ov) then Ok ov
    else match ov_defuzzifier ov with
         | None => Err EValue
         | Some dz => do d <- defuzzifier_value fe E ov dz; Ok (ov_commit ov d)
         end.
  Proof.
    unfold output_defuzzify, defuzzify_fields.
    destruct (ov_enabled ov) eqn:Hen; cbn [negb].
    - destruct (ov_defuzzifier ov) as [dz|] eqn:Hdz; [|reflexivity].
      destruct (defuzzifier_value fe E ov dz) as [d|er]; cbn [bind]; [|reflexivity].
      cbn [take_last cs_value last is_empty andb]. rewrite andb_false_r. rewrite cascade_one. cbn [last cs_value cs_previous].
      unfold ov_commit, cfg_of. rewrite ?Hen, ?Hdz. reflexivity.
    - destruct ov; cbn in *. subst. destruct ov_defuzzifier; reflexivity.
  Qed.

  (* OutputVariable.defuzzify on a batch, starting from a scalar value *)
  Lemma output_defuzzify_b_eq st (ov0 : output_var T) (bo : boutput T) v0 :
    bo_value bo = Sc v0 ->
    output_defuzzify_b st ov0 bo =
    if negb (ov_enabled ov0) then Ok bo
    else match ov_defuzzifier ov0 with
         | None => Err EValue
         | Some dz =>
             do a <- defuzzifier_value_b st ov0 (bo_fuzzy bo) dz;
             match a with
             | Mat _ => Err EInternal
             | _ => if ov_lock_previous ov0 && is_empty (ravel a) then Err EValue
                    else Ok {| bo_fuzzy := bo_fuzzy bo;
                               bo_value := reshape_like a (spec_rows (cfg_of ov0) v0 (ravel a)); bo_previous := v0 |}
             end
         end.
  Proof.
    intros Hv. unfold output_defuzzify_b. destruct (negb (ov_enabled ov0)); [reflexivity|].
    destruct (ov_defuzzifier ov0) as [dz|]; [|reflexivity].
    destruct (defuzzifier_value_b st ov0 (bo_fuzzy bo) dz) as [a|er]; cbn [bind]; [|reflexivity].
    rewrite Hv. unfold defuzzify_fields. cbn [negb ravel take_last last cs_value].
    pose proof (cascade_values_spec (ml_max N ML) (ml_min N ML) (cfg_of ov0) v0) as Hspec. cbn [cfg_of cc_lock_previous cc_default cc_lock_range cc_min cc_max] in Hspec.
    destruct a as [d|l|r]; cbn [bind ravel]; [| |reflexivity].
    - cbn [is_empty]. rewrite andb_false_r. rewrite Hspec. reflexivity.
    - destruct (ov_lock_previous ov0 && is_empty l); [reflexivity|]. rewrite Hspec. reflexivity.
  Qed.

  (* one output variable, row i: success / failure agree; the committed value of row i is element i of the batch value,
     provided the row started from element i-1 (or, for the first row, from the value held before the batch) *)
  Lemma output_defuzzify_row st E (ov0 ov : output_var T) (bo : boutput T) v0 :
    over st -> e_inputs E = row_inputs ->
    ov_static ov = ov_static ov0 -> ov_fuzzy ov = map proj_act (bo_fuzzy bo) -> fzshape (bo_fuzzy bo) -> bo_value bo = Sc v0 ->
    (forall kd res, ov_defuzzifier ov0 = Some (DIntegral kd res) -> fzsimple (bo_fuzzy bo) /\ (2 <= res \/ k = 1)) ->
    match output_defuzzify_b st ov0 bo with
    | Ok bo' => exists ov', output_defuzzify fe E ov = Ok ov' /\ ov_static ov' = ov_static ov0 /\ ov_fuzzy ov' = ov_fuzzy ov /\
                            bo_fuzzy bo' = bo_fuzzy bo /\
                            (ov_value ov = match i with 0 => v0 | S i' => aget nan (bo_value bo') i' end ->
                             ov_value ov' = aget nan (bo_value bo') i)
    | Err er => output_defuzzify fe E ov = Err er
    end.
  Proof.
    intros Hst HE Hs Hf Hsh Hv Hint.
    destruct (ov_static_fields _ _ Hs) as (Hen & _ & _ & Hdz & Hmin & Hmax & Hlr & Hlp & Hdv).
    rewrite (output_defuzzify_b_eq st ov0 bo v0 Hv), output_defuzzify_eq, Hen, Hdz.
    destruct (ov_enabled ov0) eqn:Hen0; cbn [negb].
    - destruct (ov_defuzzifier ov0) as [dz|] eqn:Hdz0; [|reflexivity].
      pose proof (defuzzifier_value_row st E ov0 ov (bo_fuzzy bo) dz Hst HE Hsh Hs Hf
                    (fun kd res Hd => Hint kd res (f_equal Some Hd))) as H.
      destruct (defuzzifier_value_b st ov0 (bo_fuzzy bo) dz) as [a|er]; cbn [bind]; [|rewrite H; reflexivity].
      destruct H as [Ha H]. rewrite H. cbn [bind].
      assert (Hcfg : cfg_of ov = cfg_of ov0) by (unfold cfg_of; rewrite Hmin, Hmax, Hlr, Hlp, Hdv; reflexivity).
      destruct a as [d|l|r]; cbn [rowshape] in Ha; [| |contradiction].
      + cbn [ravel is_empty]. rewrite andb_false_r. cbn [spec_rows reshape_like].
        eexists. split; [reflexivity|]. split; [exact Hs|].
        split; [reflexivity|]. split; [reflexivity|]. cbn [ov_commit ov_value aget bo_value]. rewrite Hcfg.
        intros Hprev. rewrite Hprev. destruct i as [|i']; [reflexivity | apply row_idem].
      + assert (Hne' : is_empty l = false) by (destruct l; [cbn in Ha; lia | reflexivity]).
        cbn [ravel]. rewrite Hne', andb_false_r.
        eexists. split; [reflexivity|]. split; [exact Hs|].
        split; [reflexivity|]. split; [reflexivity|]. cbn [ov_commit ov_value aget bo_value]. rewrite Hcfg.
        assert (Hrl : reshape_like (Vec l) (spec_rows (cfg_of ov0) v0 l) = Vec (spec_rows (cfg_of ov0) v0 l)) by reflexivity.
        rewrite Hrl. cbn [aget]. intros Hprev. rewrite Hprev.
        rewrite (spec_rows_nth (cfg_of ov0) l v0 i) by lia. reflexivity.
    - exists ov. split; [reflexivity|]. split; [exact Hs|]. split; [reflexivity|]. split; [reflexivity|].
      rewrite Hv. cbn [aget]. intros Hprev. rewrite Hprev. destruct i; reflexivity.
  Qed.
End Row.

(* ================================================================================================ *)
(* 6. Composition                                                                                    *)
(* ================================================================================================ *)
Section ScalarSide.
  Context {T : Type} {N : Num T}.
  Notation fe := (@no_function T).

  Lemma no_function_ext : forall e1 e2 : engine T,
    e_inputs e1 = e_inputs e2 -> e_outputs e1 = e_outputs e2 -> fe e1 = fe e2.
  Proof. reflexivity. Qed.

  (* ---- Engine.process leaves the rule blocks unchanged up to the stored degrees / flags *)
  Lemma rule_step_deactivated E cj dj im outs (r : rule T) ro :
    rule_step fe E cj dj im outs r = Ok ro -> rule_deactivated (fst ro) = rule_deactivated r.
  Proof.
    unfold rule_step. destruct (rule_loaded r); [|intros H; injection H as <-; reflexivity].
    destruct (rule_activate_with _ _ _ _ r) as [d|]; cbn [bind]; [|discriminate].
    destruct (r_enabled r).
    - destruct (modify d im (r_consequent r) outs); cbn [bind]; [|discriminate]. intros H; injection H as <-. reflexivity.
    - intros H; injection H as <-. reflexivity.
  Qed.
  Lemma rules_step_deactivated E cj dj im (rs : list (rule T)) : forall outs ro,
    rules_step fe E cj dj im outs rs = Ok ro -> map (@rule_deactivated T N) (fst ro) = map (@rule_deactivated T N) rs.
  Proof.
    induction rs as [|r rs IH]; intros outs ro H; cbn [rules_step] in H.
    - injection H as <-. reflexivity.
    - destruct (rule_step fe E cj dj im outs r) as [ro1|] eqn:H1; cbn [bind] in H; [|discriminate].
      destruct (rules_step fe E cj dj im (snd ro1) rs) as [ro2|] eqn:H2; cbn [bind] in H; [|discriminate].
      injection H as <-. cbn [fst map]. rewrite (rule_step_deactivated _ _ _ _ _ _ _ H1), (IH _ _ H2). reflexivity.
  Qed.
  Lemma blocks_step_deactivated E (bs : list (block T)) : forall outs bo,
    blocks_step fe E outs bs = Ok bo -> map (@block_deactivated T N) (fst bo) = map (@block_deactivated T N) bs.
  Proof.
    induction bs as [|b bs IH]; intros outs bo H; cbn [blocks_step] in H.
    - injection H as <-. reflexivity.
    - destruct (b_enabled b).
      + destruct (rules_step fe E _ _ _ outs (b_rules b)) as [ro|] eqn:H1; cbn [bind] in H; [|discriminate].
        destruct (blocks_step fe E (snd ro) bs) as [rest|] eqn:H2; cbn [bind] in H; [|discriminate].
        injection H as <-. cbn [fst map]. rewrite (IH _ _ H2). f_equal.
        unfold block_deactivated, set_rules. cbn. rewrite (rules_step_deactivated _ _ _ _ _ _ _ H1). reflexivity.
      + destruct (blocks_step fe E outs bs) as [rest|] eqn:H2; cbn [bind] in H; [|discriminate].
        injection H as <-. cbn [fst map]. rewrite (IH _ _ H2). reflexivity.
  Qed.
  Lemma process_blocks (E e' : engine T) : general_only E -> process fe E = Ok e' ->
    map (@block_deactivated T N) (e_blocks e') = map (@block_deactivated T N) (e_blocks E).
  Proof.
    intros Hg H. rewrite (process_eq_spec fe no_function_ext E Hg) in H. unfold process_spec in H.
    destruct (blocks_step fe E _ (e_blocks E)) as [bo|] eqn:H1; cbn [bind] in H; [|discriminate].
    destruct (pipeline_values fe E [] (snd bo)); cbn [bind] in H; [|discriminate].
    injection H as <-. cbn [e_blocks]. exact (blocks_step_deactivated _ _ _ _ H1).
  Qed.

  (* ---- input variables up to their value *)
  Definition iv_static (iv : input_var T) : input_var T :=
    {| iv_name := iv_name iv; iv_enabled := iv_enabled iv; iv_min := iv_min iv; iv_max := iv_max iv;
       iv_lock_range := iv_lock_range iv; iv_terms := iv_terms iv; iv_value := nan |}.

  (* set_inputs on the carried engine = row i of the batch inputs of the starting engine *)
  Lemma set_inputs_row (e e_i : engine T) (rows : list (list T)) (i : nat) :
    map iv_static (e_inputs e_i) = map iv_static (e_inputs e) ->
    rect_rows (length (e_inputs e)) rows -> i < length rows ->
    e_inputs (set_inputs e_i (nth i rows [])) = row_inputs e (batch_inputs e rows) i.
  Proof.
    intros Hs Hrect Hi. unfold set_inputs, row_inputs. cbn [e_inputs].
    unfold rect_rows in Hrect. rewrite Forall_forall in Hrect. pose proof (Hrect _ (nth_In rows [] Hi)) as Hl.
    apply nth_error_ext. intros j. rewrite !map2_nth_error.
    pose proof (map_eq_nth iv_static _ _ j Hs) as Hj.
    destruct (nth_error (e_inputs e_i) j) as [iv'|], (nth_error (e_inputs e) j) as [iv|] eqn:Hiv; try contradiction; [|reflexivity].
    rewrite (batch_inputs_nth e rows j iv Hiv).
    assert (Hjn : j < length (e_inputs e)) by (apply nth_error_Some; congruence).
    rewrite (nth_error_nth_some (nth i rows []) j nan) by lia.
    f_equal. unfold iv_at. cbn [aget]. rewrite (nth_map_lt _ rows i []) by exact Hi.
    unfold iv_static in Hj. injection Hj as H1 H2 H3 H4 H5 H6. unfold iv_clip. rewrite H1, H2, H3, H4, H5, H6. reflexivity.
  Qed.

  Lemma row_inputs_static (e : engine T) (ins : list (arr T)) i :
    length ins = length (e_inputs e) -> map iv_static (row_inputs e ins i) = map iv_static (e_inputs e).
  Proof.
    intros Hl. unfold row_inputs. apply nth_error_ext. intros j. rewrite !nth_error_map, map2_nth_error.
    destruct (nth_error (e_inputs e) j) as [iv|] eqn:Hiv; [|reflexivity].
    destruct (nth_error ins j) as [a|] eqn:Ha; [reflexivity|].
    apply nth_error_None in Ha. assert (j < length (e_inputs e)) by (apply nth_error_Some; congruence). lia.
  Qed.
End ScalarSide.

Section BatchSide.
  Context {T : Type} {N : Num T}.
  Variable e : engine T.

  (* what the activation phase does to the batch outputs: it only appends activations of the variable's own terms *)
  Definition terms_of (ov : output_var T) (b : boutput T) : Prop := Forall (fun a => In (ba_term a) (ov_terms ov)) (bo_fuzzy b).
  Definition bgrow (b b' : boutput T) : Prop := bo_value b' = bo_value b /\ bo_previous b' = bo_previous b.
  Definition binv (bouts0 bouts : list (boutput T)) : Prop :=
    Forall2 bgrow bouts0 bouts /\ Forall2 terms_of (e_outputs e) bouts.

  Lemma Forall2_update_nth_r {A B : Type} (R : A -> B -> Prop) (f : B -> B) j (la : list A) (lb : list B) :
    Forall2 R la lb -> (forall a b, nth_error la j = Some a -> R a b -> R a (f b)) -> Forall2 R la (update_nth j f lb).
  Proof.
    intros H. revert j. induction H as [|a b la lb Hab Hl IH]; intros j Hf; [destruct j; constructor|].
    destruct j as [|j]; cbn [update_nth].
    - constructor; [apply Hf; [reflexivity | exact Hab] | exact Hl].
    - constructor; [exact Hab|]. apply IH. intros a' b' Hn. apply Hf. exact Hn.
  Qed.

  Lemma modify_loop_b_inv carry impl cs : forall D bouts0 bouts bouts',
    binv bouts0 bouts -> modify_loop_b e carry D impl cs bouts = Ok bouts' -> binv bouts0 bouts'.
  Proof.
    induction cs as [|c cs IH]; intros D bouts0 bouts bouts' Hb H; cbn [modify_loop_b] in H.
    - injection H as <-. exact Hb.
    - destruct (nth_error (e_outputs e) (c_var c)) as [v|] eqn:Hv; [|discriminate].
      destruct (negb (var_truthy v)); [discriminate|].
      destruct (ov_enabled v); [|exact (IH _ _ _ _ Hb H)].
      destruct (nth_error (ov_terms v) (c_term c)) as [t|] eqn:Ht; [|discriminate].
      refine (IH _ _ _ _ _ H). destruct Hb as [Hg Ht']. split.
      + apply Forall2_update_nth_r; [exact Hg|]. intros a b _ [H1 H2]. split; assumption.
      + apply Forall2_update_nth_r; [exact Ht'|]. intros ov b Hov Hb'. rewrite Hv in Hov. injection Hov as <-.
        unfold terms_of. cbn. apply Forall_app. split; [exact Hb'|]. constructor; [|constructor].
        cbn. eapply nth_error_In. exact Ht.
  Qed.

  Lemma blocks_step_b_inv (st : bstate T) : bs_e st = e -> forall bs bouts0 bouts recs ro,
    binv bouts0 bouts -> blocks_step_b st bouts bs recs = Ok ro -> binv bouts0 (snd ro).
  Proof.
    intros Hse.
    assert (Hrule : forall cj dj im bouts0 bouts r ro, binv bouts0 bouts -> rule_step_b st cj dj im bouts r = Ok ro -> binv bouts0 (snd ro)).
    { intros cj dj im bouts0 bouts r ro Hb H. unfold rule_step_b in H.
      destruct (rule_loaded r); [|injection H as <-; exact Hb].
      destruct (rule_activate_with_b _ cj dj r) as [D|]; cbn [bind] in H; [|discriminate].
      destruct (r_enabled r); [|injection H as <-; exact Hb].
      destruct (modify_b (bs_e st) D im (r_consequent r) bouts) as [bouts'|] eqn:Hm; cbn [bind] in H; [|discriminate].
      injection H as <-. cbn [snd]. unfold modify_b in Hm. rewrite Hse in Hm. destruct (is_nil (r_consequent r)); [discriminate|].
      exact (modify_loop_b_inv _ _ _ _ _ _ _ Hb Hm). }
    assert (Hrules : forall cj dj im rs bouts0 bouts ro, binv bouts0 bouts -> rules_step_b st cj dj im bouts rs = Ok ro -> binv bouts0 (snd ro)).
    { intros cj dj im rs. induction rs as [|r rs IH]; intros bouts0 bouts ro Hb H; cbn [rules_step_b] in H.
      - injection H as <-. exact Hb.
      - destruct (rule_step_b st cj dj im bouts r) as [ro1|] eqn:H1; cbn [bind] in H; [|discriminate].
        destruct (rules_step_b st cj dj im (snd ro1) rs) as [ro2|] eqn:H2; cbn [bind] in H; [|discriminate].
        injection H as <-. cbn [snd]. exact (IH _ _ _ (Hrule _ _ _ _ _ _ _ Hb H1) H2). }
    induction bs as [|b bs IH]; intros bouts0 bouts recs ro Hb H; cbn [blocks_step_b] in H.
    - injection H as <-. exact Hb.
    - destruct (b_enabled b).
      + destruct (is_general_b b); [|discriminate].
        destruct (rules_step_b st _ _ _ bouts (b_rules b)) as [ro1|] eqn:H1; cbn [bind] in H; [|discriminate].
        destruct (blocks_step_b st (snd ro1) bs _) as [ro2|] eqn:H2; cbn [bind] in H; [|discriminate].
        injection H as <-. cbn [snd]. exact (IH _ _ _ _ (Hrules _ _ _ _ _ _ _ Hb H1) H2).
      + destruct (blocks_step_b st bouts bs _) as [ro2|] eqn:H2; cbn [bind] in H; [|discriminate].
        injection H as <-. cbn [snd]. exact (IH _ _ _ _ Hb H2).
  Qed.
End BatchSide.

Section Top.
  Context {T : Type} {N : Num T}.
  Notation fe := (@no_function T).
  Variables (e : engine T) (rows : list (list T)).
  Notation k := (length rows).
  Notation ins := (batch_inputs e rows).

  (* every output variable with an integral defuzzifier has no Linear term (a Linear term's membership is one value per
     ROW of the batch whatever the sample points: in a batch it does not broadcast against the sample row) *)
  Definition integral_simple (e : engine T) : Prop :=
    forall ov kd res, In ov (e_outputs e) -> ov_defuzzifier ov = Some (DIntegral kd res) -> Forall simple_term (ov_terms ov).

  Hypothesis Hn : e_inputs e <> [].
  Hypothesis Hk : rows <> [].
  Hypothesis Hrect : rect_rows (length (e_inputs e)) rows.
  Hypothesis Hg : general_only e.
  Hypothesis ZL : @zero_laws T N.
  Hypothesis ML : minmax_laws N.
  Hypothesis Hrok : r_ok e k.
  Hypothesis Hsimple : integral_simple e.

  Lemma ins_colshape : Forall (colshape k) ins.
  Proof. apply batch_inputs_colshape. Qed.
  Lemma ins_length : length ins = length (e_inputs e).
  Proof. apply batch_inputs_length. Qed.

  Section AtRow.
    Variable i : nat.
    Hypothesis Hi : i < k.
    Variables (st : bstate T) (E : engine T).
    Hypothesis Hst : over e ins st.
    Hypothesis HE : e_inputs E = row_inputs e ins i.

    Definition PRE (ov0 ov : output_var T) (bo : boutput T) : Prop :=
      ov_static ov = ov_static ov0 /\ ov_fuzzy ov = map (proj_act i) (bo_fuzzy bo) /\ fzshape k (bo_fuzzy bo) /\
      bo_value bo = Sc (ov_value ov0) /\
      (forall kd res, ov_defuzzifier ov0 = Some (DIntegral kd res) -> fzsimple (bo_fuzzy bo) /\ (2 <= res \/ k = 1)).
    Definition POST (ov0 ov : output_var T) (bo bo' : boutput T) (ov' : output_var T) : Prop :=
      ov_static ov' = ov_static ov0 /\ ov_fuzzy ov' = ov_fuzzy ov /\ bo_fuzzy bo' = bo_fuzzy bo /\
      (ov_value ov = match i with 0 => ov_value ov0 | S i' => aget nan (bo_value bo') i' end ->
       ov_value ov' = aget nan (bo_value bo') i).

    Lemma pipeline_values_row : forall (ovs todo : list (output_var T)) (btodo : list (boutput T)) done,
      length todo = length ovs -> length btodo = length ovs ->
      (forall j ov0 ov bo, nth_error ovs j = Some ov0 -> nth_error todo j = Some ov -> nth_error btodo j = Some bo -> PRE ov0 ov bo) ->
      match mapM_ (fun p => output_defuzzify_b st (fst p) (snd p)) (combine ovs btodo) with
      | Ok bres =>
          exists res, pipeline_values fe E done todo = Ok (done ++ res) /\ length res = length ovs /\ length bres = length ovs /\
            forall j ov0 ov bo, nth_error ovs j = Some ov0 -> nth_error todo j = Some ov -> nth_error btodo j = Some bo ->
              exists bo' ov', nth_error bres j = Some bo' /\ nth_error res j = Some ov' /\ POST ov0 ov bo bo' ov'
      | Err er => pipeline_values fe E done todo = Err er
      end.
    Proof.
      induction ovs as [|ov0 ovs IH]; intros todo btodo done Hl1 Hl2 Hpre.
      - destruct todo; [|discriminate]. destruct btodo; [|discriminate]. cbn [combine mapM_ pipeline_values].
        exists []. rewrite app_nil_r. repeat split; try reflexivity. intros j ? ? ? Hj. destruct j; discriminate.
      - destruct todo as [|ov todo]; [discriminate|]. destruct btodo as [|bo btodo]; [discriminate|].
        cbn [combine mapM_ pipeline_values fst snd].
        destruct (Hpre 0 ov0 ov bo eq_refl eq_refl eq_refl) as (Hs & Hf & Hsh & Hv & Hint).
        pose proof (output_defuzzify_row e ins k i Hi ins_colshape ins_length Hn ZL ML st
                      (with_outputs E (done ++ ov :: todo)) ov0 ov bo (ov_value ov0) Hst HE Hs Hf Hsh Hv Hint) as H.
        destruct (output_defuzzify_b st ov0 bo) as [bo'|er]; cbn [bind]; [|rewrite H; reflexivity].
        destruct H as (ov' & H1 & Hs' & Hf' & Hbf & Hval). rewrite H1. cbn [bind].
        specialize (IH todo btodo (done ++ [ov']) ltac:(cbn in Hl1; lia) ltac:(cbn in Hl2; lia)
                      (fun j a b c Ha Hb Hc => Hpre (S j) a b c Ha Hb Hc)).
        destruct (mapM_ _ (combine ovs btodo)) as [bres|er]; cbn [bind]; [|exact IH].
        destruct IH as (res & Hp & Hlr & Hlb & Hpost). exists (ov' :: res).
        split; [rewrite Hp, <- app_assoc; reflexivity|]. split; [cbn; lia|]. split; [cbn; lia|].
        intros j a b c Ha Hb Hc. destruct j as [|j].
        + cbn in Ha, Hb, Hc. injection Ha as <-. injection Hb as <-. injection Hc as <-.
          exists bo', ov'. split; [reflexivity|]. split; [reflexivity|]. repeat split; assumption.
        + exact (Hpost j a b c Ha Hb Hc).
    Qed.
  End AtRow.
  (* ---- the batch run, step by step *)
  Notation st0 := (init_bstate e ins).
  Notation bouts0 := (map bo_clear_fuzzy (bs_outputs st0)).

  Lemma over_st0 : over e ins st0.
  Proof. split; reflexivity. Qed.

  Lemma bouts0_nth j : nth_error bouts0 j =
    option_map (fun ov => {| bo_fuzzy := []; bo_value := Sc (ov_value ov); bo_previous := ov_previous ov |}) (nth_error (e_outputs e) j).
  Proof. cbn [init_bstate bs_outputs]. rewrite map_map, nth_error_map. destruct (nth_error (e_outputs e) j); reflexivity. Qed.

  Lemma binv0 : binv e bouts0 bouts0.
  Proof.
    cbn [init_bstate bs_outputs]. rewrite map_map. split.
    - induction (e_outputs e) as [|ov l IH]; cbn; constructor; [split; reflexivity | exact IH].
    - induction (e_outputs e) as [|ov l IH]; cbn; constructor; [constructor | exact IH].
  Qed.

  Variable ro : list (list (brule T)) * list (boutput T).
  Hypothesis B1 : blocks_step_b st0 bouts0 (e_blocks e) (bs_rules st0) = Ok ro.
  Notation bouts := (snd ro).

  Lemma bouts_inv : binv e bouts0 bouts.
  Proof. exact (blocks_step_b_inv e st0 eq_refl _ _ _ _ _ binv0 B1). Qed.

  Lemma Forall2_nth {A B : Type} (R : A -> B -> Prop) la lb j a :
    Forall2 R la lb -> nth_error la j = Some a -> exists b, nth_error lb j = Some b /\ R a b.
  Proof.
    intros H. revert j. induction H as [|a0 b0 la lb H0 Hl IH]; intros j Hj; [destruct j; discriminate|].
    destruct j as [|j]; cbn in *; [injection Hj as <-; eauto | exact (IH j Hj)].
  Qed.
  Lemma Forall2_len {A B : Type} (R : A -> B -> Prop) la lb : Forall2 R la lb -> length la = length lb.
  Proof. induction 1; cbn; congruence. Qed.

  Lemma bouts_length : length bouts = length (e_outputs e).
  Proof. destruct bouts_inv as [_ H]. symmetry. exact (Forall2_len _ _ _ H). Qed.

  Lemma bouts_nth j ov0 : nth_error (e_outputs e) j = Some ov0 ->
    exists bo, nth_error bouts j = Some bo /\ bo_value bo = Sc (ov_value ov0) /\ terms_of ov0 bo.
  Proof.
    intros Hj. destruct bouts_inv as [Hg' Ht].
    destruct (Forall2_nth _ _ _ j ov0 Ht Hj) as (bo & Hbo & Hterms). exists bo. split; [exact Hbo|]. split; [|exact Hterms].
    pose proof (bouts0_nth j) as H0. rewrite Hj in H0. cbn [option_map] in H0.
    destruct (Forall2_nth _ _ _ j _ Hg' H0) as (bo2 & Hbo2 & [Hv _]). rewrite Hbo in Hbo2. injection Hbo2 as <-. exact Hv.
  Qed.

  Variable bres : list (boutput T).
  Hypothesis B2 : defuzzify_outputs_b st0 (e_outputs e) bouts = Ok bres.

  Lemma B2' : mapM_ (fun p => output_defuzzify_b st0 (fst p) (snd p)) (combine (e_outputs e) bouts) = Ok bres.
  Proof. unfold defuzzify_outputs_b in B2. destruct (Nat.eqb _ _); [exact B2 | discriminate]. Qed.

  (* the carried engine before row i *)
  Record Jinv (i : nat) (e_i : engine T) : Prop := {
    J1 : map iv_static (e_inputs e_i) = map iv_static (e_inputs e);
    J2 : map ov_static (e_outputs e_i) = map ov_static (e_outputs e);
    J3 : map (@block_deactivated T N) (e_blocks e_i) = map (@block_deactivated T N) (e_blocks e);
    J4 : forall j ov ov0 bo', nth_error (e_outputs e_i) j = Some ov -> nth_error (e_outputs e) j = Some ov0 ->
           nth_error bres j = Some bo' ->
           ov_value ov = match i with 0 => ov_value ov0 | S i' => aget nan (bo_value bo') i' end }.

  Lemma Jinv0 : Jinv 0 e.
  Proof. split; try reflexivity. intros j ov ov0 bo' H1 H2 _. congruence. Qed.

  Definition result_row (i : nat) : list (T * list (string * T)) :=
    map (fun bo => (aget nan (bo_value bo) i, row_fuzzy i (bo_fuzzy bo))) bres.

  Lemma orel0 i (e_i : engine T) : map ov_static (e_outputs e_i) = map ov_static (e_outputs e) ->
    orel e k i (map clear_fuzzy (e_outputs e_i)) bouts0.
  Proof.
    intros H2. split; [|split].
    - rewrite map_map. exact H2.
    - pose proof (map_eq_length _ _ _ H2) as Hl.
      apply nth_error_ext. intros j.
      rewrite (nth_error_map (@ov_fuzzy T) j), (nth_error_map (@clear_fuzzy T) j).
      rewrite (nth_error_map (fun bo => map (proj_act i) (bo_fuzzy bo)) j bouts0), bouts0_nth.
      destruct (nth_error (e_outputs e_i) j) as [ov|] eqn:H1, (nth_error (e_outputs e) j) as [ov0|] eqn:H0; cbn; try reflexivity.
      + apply nth_error_None in H0. assert (j < length (e_outputs e_i)) by (apply nth_error_Some; congruence). lia.
      + apply nth_error_None in H1. assert (j < length (e_outputs e)) by (apply nth_error_Some; congruence). lia.
    - apply Forall_forall. intros bo Hbo. apply In_nth_error in Hbo. destruct Hbo as (j & Hj).
      rewrite bouts0_nth in Hj. destruct (nth_error (e_outputs e) j); cbn in Hj; [|discriminate]. injection Hj as <-. constructor.
  Qed.

  Lemma step_row i (e_i : engine T) : i < k -> Jinv i e_i ->
    exists e', process fe (set_inputs e_i (nth i rows [])) = Ok e' /\ Jinv (S i) e' /\ engine_row e' = result_row i.
  Proof.
    intros Hi [HJ1 HJ2 HJ3 HJ4].
    set (E := set_inputs e_i (nth i rows [])).
    assert (HE : e_inputs E = row_inputs e ins i) by (exact (set_inputs_row e e_i rows i HJ1 Hrect Hi)).
    assert (HbE : e_blocks E = e_blocks e_i) by reflexivity.
    assert (HoE : e_outputs E = e_outputs e_i) by reflexivity.
    assert (HgE : general_only E) by (apply (general_only_ext e E); [rewrite HbE; symmetry; exact HJ3 | exact Hg]).
    pose proof (process_refines_pipeline fe no_function_ext E HgE) as Hproc.
    unfold pipeline_outputs, pipeline_fuzzy in Hproc.
    rewrite (blocks_contribution_ext fe no_function_ext E E eq_refl (e_blocks E) (e_blocks e)
               (map clear_fuzzy (e_outputs E)) ltac:(rewrite HbE; exact HJ3)) in Hproc.
    rewrite HoE in Hproc.
    pose proof (blocks_step_row e ins k i Hi ins_colshape ins_length Hn st0 E (e_blocks e) (map clear_fuzzy (e_outputs e_i))
                  bouts0 (bs_rules st0) over_st0 HE (orel0 i e_i HJ2) Hg) as Hblocks.
    rewrite B1 in Hblocks. destruct Hblocks as (outs' & Hbc & Horel).
    rewrite Hbc in Hproc. cbn [bind] in Hproc.
    pose proof (blocks_contribution_grow fe E (e_blocks e) _ outs' Hbc) as Hgrow.
    assert (Hlen_outs' : length outs' = length (e_outputs e)).
    { destruct Horel as (H1 & _ & _). apply map_eq_length in H1. exact H1. }
    (* per-index facts about outs' *)
    assert (Hidx : forall j ov0 ov bo, nth_error (e_outputs e) j = Some ov0 -> nth_error outs' j = Some ov -> nth_error bouts j = Some bo ->
                   PRE i ov0 ov bo /\
                   (forall bo', nth_error bres j = Some bo' ->
                      ov_value ov = match i with 0 => ov_value ov0 | S i' => aget nan (bo_value bo') i' end)).
    { intros j ov0 ov bo H0 H1 Hb.
      pose proof (orel_nth e k i outs' bouts j Horel) as Hn'. rewrite H1, H0, Hb in Hn'. destruct Hn' as (Hs & Hf & Hsh).
      destruct (bouts_nth j ov0 H0) as (bo2 & Hbo2 & Hv & Hterms). rewrite Hb in Hbo2. injection Hbo2 as <-.
      split.
      - split; [exact Hs|]. split; [exact Hf|]. split; [exact Hsh|]. split; [exact Hv|].
        intros kd res Hd. split.
        + pose proof (Hsimple ov0 kd res (nth_error_In _ _ H0) Hd) as Hst'. rewrite Forall_forall in Hst'.
          apply Forall_forall. intros a Ha. unfold terms_of in Hterms. rewrite Forall_forall in Hterms. apply Hst'. apply Hterms. exact Ha.
        + destruct Hrok as [Hk1|Hr]; [right; exact Hk1 | left; exact (Hr ov0 kd res (nth_error_In _ _ H0) Hd)].
      - intros bo' Hbo'.
        destruct (nth_error (map clear_fuzzy (e_outputs e_i)) j) as [oc|] eqn:Hoc.
        + destruct (Forall2_nth _ _ _ j oc Hgrow Hoc) as (ov2 & Hov2 & (l & Hl & _)). rewrite H1 in Hov2. injection Hov2 as <-.
          rewrite nth_error_map in Hoc. destruct (nth_error (e_outputs e_i) j) as [oi|] eqn:Hoi; cbn in Hoc; [|discriminate].
          injection Hoc as <-. rewrite Hl. cbn. exact (HJ4 j oi ov0 bo' Hoi H0 Hbo').
        + apply nth_error_None in Hoc. rewrite <- (Forall2_len _ _ _ Hgrow) in Hlen_outs'.
          assert (j < length (e_outputs e)) by (apply nth_error_Some; congruence). lia. }
    pose proof (pipeline_values_row i Hi st0 E over_st0 HE (e_outputs e) outs' bouts [] Hlen_outs' bouts_length
                  (fun j a b c Ha Hb Hc => proj1 (Hidx j a b c Ha Hb Hc))) as Hpv.
    rewrite B2' in Hpv. destruct Hpv as (res & Hpv & Hlr & Hlb & Hpost). cbn [app] in Hpv.
    rewrite Hpv in Hproc.
    destruct (process fe E) as [e'|er] eqn:Hp; [|contradiction]. destruct Hproc as [Hout Hin].
    exists e'. split; [reflexivity|].
    (* per-index facts about the result *)
    assert (Hres : forall j ov', nth_error res j = Some ov' ->
              exists ov0 ov bo bo', nth_error (e_outputs e) j = Some ov0 /\ nth_error outs' j = Some ov /\ nth_error bouts j = Some bo /\
                                    nth_error bres j = Some bo' /\ POST i ov0 ov bo bo' ov' /\ PRE i ov0 ov bo /\
                                    ov_value ov = match i with 0 => ov_value ov0 | S i' => aget nan (bo_value bo') i' end).
    { intros j ov' Hj. assert (Hjl : j < length (e_outputs e)) by (rewrite <- Hlr; apply nth_error_Some; congruence).
      destruct (nth_error (e_outputs e) j) as [ov0|] eqn:H0; [|apply nth_error_None in H0; lia].
      destruct (nth_error outs' j) as [ov|] eqn:H1; [|apply nth_error_None in H1; lia].
      destruct (nth_error bouts j) as [bo|] eqn:Hb; [|apply nth_error_None in Hb; rewrite bouts_length in Hb; lia].
      destruct (Hpost j ov0 ov bo H0 H1 Hb) as (bo' & ov2 & Hbo' & Hov2 & HP). rewrite Hj in Hov2. injection Hov2 as <-.
      destruct (Hidx j ov0 ov bo H0 H1 Hb) as [Hpre Hval].
      exists ov0, ov, bo, bo'.
      exact (conj eq_refl (conj eq_refl (conj eq_refl (conj Hbo' (conj HP (conj Hpre (Hval bo' Hbo'))))))). }
    split.
    - split.
      + rewrite Hin, HE. apply row_inputs_static. apply ins_length.
      + rewrite Hout. apply nth_error_ext. intros j. rewrite !nth_error_map.
        destruct (nth_error res j) as [ov'|] eqn:Hj.
        * destruct (Hres j ov' Hj) as (ov0 & ov & bo & bo' & H0 & _ & _ & _ & HP & _). rewrite H0. cbn. f_equal. apply HP.
        * apply nth_error_None in Hj. rewrite Hlr in Hj. apply nth_error_None in Hj. rewrite Hj. reflexivity.
      + rewrite (process_blocks E e' HgE Hp), HbE. exact HJ3.
      + intros j ov' ov0 bo' Hj H0 Hbo'. rewrite Hout in Hj.
        destruct (Hres j ov' Hj) as (ov0' & ov & bo & bo2 & H0' & _ & _ & Hbo2 & HP & _ & Hval).
        rewrite H0 in H0'. injection H0' as <-. rewrite Hbo' in Hbo2. injection Hbo2 as <-.
        destruct HP as (_ & _ & _ & HPv). exact (HPv Hval).
    - unfold engine_row, result_row. rewrite Hout. apply nth_error_ext. intros j. rewrite !nth_error_map.
      destruct (nth_error res j) as [ov'|] eqn:Hj.
      + destruct (Hres j ov' Hj) as (ov0 & ov & bo & bo' & H0 & H1 & Hb & Hbo' & HP & Hpre & Hval).
        rewrite Hbo'. cbn. f_equal. destruct HP as (_ & Hf' & Hbf & HPv). destruct Hpre as (_ & Hf & _).
        f_equal; [exact (HPv Hval)|]. rewrite Hf', Hf, Hbf. unfold row_fuzzy. rewrite map_map. reflexivity.
      + assert (Hjl : length res <= j) by (apply nth_error_None; exact Hj).
        rewrite (proj2 (nth_error_None bres j)) by lia. reflexivity.
  Qed.
  Lemma skipn_nth_cons {A : Type} (l : list A) i d : i < length l -> skipn i l = nth i l d :: skipn (S i) l.
  Proof.
    revert i; induction l as [|a l IH]; intros i H; [cbn in H; lia|].
    destruct i as [|i]; [reflexivity|]. cbn [skipn nth]. apply IH. cbn in H. lia.
  Qed.

  (* the rows from i on, starting from the engine carried to row i *)
  Lemma rows_from : forall m i (e_i : engine T), m + i = k -> Jinv i e_i ->
    exists es, process_rows e_i (skipn i rows) = Ok es /\ length es = m /\
               forall d, d < m -> engine_row (nth d es e) = result_row (i + d).
  Proof.
    induction m as [|m IH]; intros i e_i Hm HJ.
    - rewrite skipn_all2 by lia. exists []. split; [reflexivity|]. split; [reflexivity|]. intros d Hd. lia.
    - assert (Hi : i < k) by lia. rewrite (skipn_nth_cons rows i [] Hi). cbn [process_rows].
      destruct (step_row i e_i Hi HJ) as (e' & Hp & HJ' & Hrow). rewrite Hp. cbn [bind].
      destruct (IH (S i) e' ltac:(lia) HJ') as (es & Hes & Hl & Hd). rewrite Hes. cbn [bind].
      exists (e' :: es). split; [reflexivity|]. split; [cbn; lia|].
      intros d Hdm. destruct d as [|d]; cbn [nth].
      + rewrite Nat.add_0_r. exact Hrow.
      + rewrite (Hd d ltac:(lia)). f_equal. lia.
  Qed.
End Top.

(* ---- failures: when the batch run raises, the first row raises the same exception *)
Section TopErr.
  Context {T : Type} {N : Num T}.
  Notation fe := (@no_function T).
  Variables (e : engine T) (rows : list (list T)).
  Notation k := (length rows).
  Notation ins := (batch_inputs e rows).
  Hypothesis Hn : e_inputs e <> [].
  Hypothesis Hk : rows <> [].
  Hypothesis Hrect : rect_rows (length (e_inputs e)) rows.
  Hypothesis Hg : general_only e.
  Hypothesis ZL : @zero_laws T N.
  Hypothesis ML : minmax_laws N.
  Hypothesis Hrok : r_ok e k.
  Hypothesis Hsimple : integral_simple e.
  Notation st0 := (init_bstate e ins).
  Notation bouts0 := (map bo_clear_fuzzy (bs_outputs st0)).

  Lemma k_pos : 0 < k.
  Proof. destruct rows; [congruence | cbn; lia]. Qed.

  Lemma first_row_err x :
    match blocks_step_b st0 bouts0 (e_blocks e) (bs_rules st0) with
    | Err y => y = x
    | Ok ro => defuzzify_outputs_b st0 (e_outputs e) (snd ro) = Err x
    end ->
    process fe (set_inputs e (nth 0 rows [])) = Err x.
  Proof.
    intros Hb. pose proof k_pos as Hi.
    set (E := set_inputs e (nth 0 rows [])).
    assert (HE : e_inputs E = row_inputs e ins 0) by (exact (set_inputs_row e e rows 0 eq_refl Hrect Hi)).
    assert (HgE : general_only E) by exact Hg.
    pose proof (process_refines_pipeline fe no_function_ext E HgE) as Hproc.
    unfold pipeline_outputs, pipeline_fuzzy in Hproc.
    change (e_blocks E) with (e_blocks e) in Hproc. change (e_outputs E) with (e_outputs e) in Hproc.
    pose proof (blocks_step_row e ins k 0 Hi (ins_colshape e rows) (ins_length e rows) Hn st0 E (e_blocks e) (map clear_fuzzy (e_outputs e))
                  bouts0 (bs_rules st0) (over_st0 e rows) HE (orel0 e rows 0 e eq_refl) Hg) as Hblocks.
    destruct (blocks_step_b st0 bouts0 (e_blocks e) (bs_rules st0)) as [ro|y] eqn:B1.
    - destruct Hblocks as (outs' & Hbc & Horel). rewrite Hbc in Hproc. cbn [bind] in Hproc.
      assert (Hlen_outs' : length outs' = length (e_outputs e)).
      { destruct Horel as (H1 & _ & _). apply map_eq_length in H1. exact H1. }
      pose proof (bouts_length e rows ro B1) as Hbl.
      pose proof (pipeline_values_row e rows Hn ZL ML 0 Hi st0 E (over_st0 e rows) HE (e_outputs e) outs' (snd ro) [] Hlen_outs' Hbl) as Hpv.
      unfold defuzzify_outputs_b in Hb. rewrite Hbl, Nat.eqb_refl in Hb. rewrite Hb in Hpv.
      rewrite Hpv in Hproc.
      + destruct (process fe E); [contradiction | congruence].
      + intros j ov0 ov bo H0 H1 Hbo.
        pose proof (orel_nth e k 0 outs' (snd ro) j Horel) as Hn'. rewrite H1, H0, Hbo in Hn'. destruct Hn' as (Hs & Hf & Hsh).
        destruct (bouts_nth e rows ro B1 j ov0 H0) as (bo2 & Hbo2 & Hv & Hterms). rewrite Hbo in Hbo2. injection Hbo2 as <-.
        split; [exact Hs|]. split; [exact Hf|]. split; [exact Hsh|]. split; [exact Hv|].
        intros kd res Hd. split.
        * pose proof (Hsimple ov0 kd res (nth_error_In _ _ H0) Hd) as Hst'. rewrite Forall_forall in Hst'.
          apply Forall_forall. intros a Ha. unfold terms_of in Hterms. rewrite Forall_forall in Hterms. apply Hst'. apply Hterms. exact Ha.
        * destruct Hrok as [Hk1|Hr]; [right; exact Hk1 | left; exact (Hr ov0 kd res (nth_error_In _ _ H0) Hd)].
    - subst y. rewrite Hblocks in Hproc. cbn [bind] in Hproc. destruct (process fe E); [contradiction | congruence].
  Qed.
End TopErr.

(* ---- batch_eq_rows *)
Section Main.
  Context {T : Type} {N : Num T}.

  Theorem batch_eq_rows (e : engine T) (rows : list (list T)) :
    e_inputs e <> [] -> rows <> [] -> rect_rows (length (e_inputs e)) rows ->
    general_only e -> integral_simple e -> r_ok e (length rows) ->
    @zero_laws T N -> minmax_laws N ->
    match process_batch e (Mat rows) with
    | Ok st => exists es, process_rows e rows = Ok es /\ length es = length rows /\
                          forall i, i < length rows -> batch_row st i = engine_row (nth i es e)
    | Err x => process_rows e rows = Err x
    end.
  Proof.
    intros Hn Hk Hrect Hg Hsimple Hrok ZL ML.
    unfold process_batch. rewrite (input_values_set_matrix e rows Hn Hk Hrect). cbn [bind]. unfold process_b.
    cbn [bs_e init_bstate].
    destruct (blocks_step_b (init_bstate e (batch_inputs e rows)) _ (e_blocks e) _) as [ro|x] eqn:B1; cbn [bind].
    - destruct (defuzzify_outputs_b (init_bstate e (batch_inputs e rows)) (e_outputs e) (snd ro)) as [bres|x] eqn:B2; cbn [bind].
      + destruct (rows_from e rows Hn Hrect Hg ZL ML Hrok Hsimple ro B1 bres B2 (length rows) 0 e ltac:(lia)
                    (Jinv0 e bres)) as (es & Hes & Hl & Hd).
        exists es. split; [exact Hes|]. split; [exact Hl|]. intros i Hi. rewrite (Hd i Hi). reflexivity.
      + destruct rows as [|r0 rows']; [congruence|]. cbn [process_rows].
        pose proof (first_row_err e (r0 :: rows') Hn Hk Hrect Hg ZL ML Hrok Hsimple x) as H. cbn [nth] in H.
        rewrite H; [reflexivity|]. cbn [bs_e init_bstate] in B1 |- *. rewrite B1. exact B2.
    - destruct rows as [|r0 rows']; [congruence|]. cbn [process_rows].
      pose proof (first_row_err e (r0 :: rows') Hn Hk Hrect Hg ZL ML Hrok Hsimple x) as H. cbn [nth] in H.
      rewrite H; [reflexivity|]. cbn [bs_e init_bstate] in B1 |- *. rewrite B1. reflexivity.
  Qed.
End Main.

(* ================================================================================================ *)
(* 7. The statements quoted by Properties/C02.v                                                      *)
(* ================================================================================================ *)
Section Named.
  Context {T : Type} {N : Num T}.

  (* ---- Activated.membership on a batch: squeeze(implication(degrees as a column, samples as a row)) *)
  Theorem activated_membership_batch (st : bstate T) (a : bactivated T) name s imp (ds xs : list T) :
    ba_term a = TShape name s -> ba_implication a = Some imp -> ba_degree a = Vec ds ->
    (2 <= length xs \/ length ds = 1) ->
    exists y, activated_membership_b st a (Mat [xs]) = Ok y /\
              rows_of y = map (fun d => map (fun x => tnormx_compute imp d (shape_membership s x)) xs) ds.
  Proof.
    intros Ht Hi Hd Hok. unfold activated_membership_b. rewrite Hi, Ht, Hd. cbn [term_membership_b lift1 bind map].
    rewrite lift2_outer. cbn [bind]. eexists; split; [reflexivity|].
    unfold outer.
    destruct ds as [|d0 ds]; [destruct Hok as [H|H]; [reflexivity | discriminate]|].
    rewrite squeeze_rows.
    - apply map_ext. intros d. rewrite map_map. reflexivity.
    - destruct Hok as [H|H]; [right | left].
      + cbn [map ncols]. rewrite !map_length. exact H.
      + rewrite map_length. exact H.
  Qed.

  (* at ONE sample point the (k,1) matrix is squeezed to a (k,) vector and re-read as ONE row of k samples *)
  Theorem activated_membership_resolution1 (st : bstate T) (a : bactivated T) name s imp (ds : list T) (x : T) :
    ba_term a = TShape name s -> ba_implication a = Some imp -> ba_degree a = Vec ds -> 2 <= length ds ->
    exists y, activated_membership_b st a (Mat [[x]]) = Ok y /\
              rows_of y = [map (fun d => tnormx_compute imp d (shape_membership s x)) ds] /\
              length (rows_of y) <> length ds.
  Proof.
    intros Ht Hi Hd Hk. unfold activated_membership_b. rewrite Hi, Ht, Hd. cbn [term_membership_b lift1 bind map].
    rewrite lift2_outer. cbn [bind]. eexists; split; [reflexivity|]. unfold outer. cbn [map].
    rewrite <- (map_map (fun d => tnormx_compute imp d (shape_membership s x)) (fun v => [v])).
    rewrite squeeze_resolution1 by (rewrite map_length; exact Hk). cbn [rows_of length]. split; [reflexivity | lia].
  Qed.

  (* ---- the fixed context "row i of a batch of k rows over the engine e with input arrays ins" *)
  Record row_ctx (e : engine T) (ins : list (arr T)) (k i : nat) (st : bstate T) (E : engine T) : Prop := {
    rc_i : i < k;
    rc_cols : Forall (colshape k) ins;
    rc_len : length ins = length (e_inputs e);
    rc_ne : e_inputs e <> [];
    rc_over : over e ins st;                              (* the batch state is over (e, ins) *)
    rc_E : e_inputs E = row_inputs e ins i }.             (* the scalar engine holds row i of the inputs *)

  (* Aggregated.membership on the sample row: row i of the batch matrix is the scalar fold at every sample point *)
  Theorem aggregated_membership_batch e ins k i st E (C : row_ctx e ins k i st E) (xs : list T) agg fz (ov : output_var T) :
    xs <> [] -> (2 <= length xs \/ k = 1) -> fzshape k fz -> fzsimple fz ->
    ov_fuzzy ov = map (proj_act i) fz -> ov_aggregation ov = agg ->
    match aggregated_membership_b st agg fz (Mat [xs]) with
    | Ok y => yok k xs y /\ mapM_ (aggregated_membership no_function E ov) xs = Ok (yrow i xs y)
    | Err er => mapM_ (aggregated_membership no_function E ov) xs = Err er
    end.
  Proof.
    intros Hxs Hrok Hsh Hsi Hf Ha. destruct C as [Hi _ Hl _ Hst HE].
    pose proof (aggregated_membership_samples e ins k i Hi Hl xs Hxs Hrok st E agg fz ov Hst HE Hsh Hsi Hf Ha) as H.
    destruct (aggregated_membership_b st agg fz (Mat [xs])); [|exact H]. destruct H as (H1 & _ & _ & H4). split; assumption.
  Qed.

  (* integral defuzzifiers: element i of the batch result is the scalar result of row i *)
  Theorem defuzz_batch_rows e ins k i st E (C : row_ctx e ins k i st E) (ZL : @zero_laws T N) kd res fz (ov : output_var T) :
    fzshape k fz -> fzsimple fz -> (2 <= res \/ k = 1) -> ov_fuzzy ov = map (proj_act i) fz ->
    match integral_defuzzify_b st kd res (ov_min ov) (ov_max ov) (ov_aggregation ov) fz with
    | Ok a => rowshape k a /\ defuzzifier_value no_function E ov (DIntegral kd res) = Ok (aget nan a i)
    | Err er => defuzzifier_value no_function E ov (DIntegral kd res) = Err er
    end.
  Proof.
    intros Hsh Hsi Hres Hf. destruct C as [Hi _ Hl _ Hst HE].
    exact (integral_defuzzify_row e ins k i Hi Hl ZL st E kd res _ _ _ fz ov Hst HE Hsh Hsi Hres Hf eq_refl eq_refl eq_refl).
  Qed.

  (* weighted defuzzifiers *)
  Theorem weighted_batch_rows e ins k i st E (C : row_ctx e ins k i st E) average ty agg fz :
    fzshape k fz ->
    match weighted_defuzzify_b st average ty agg fz with
    | Ok a => rowshape k a /\
              weighted_defuzzify (term_membership no_function E) term_tsukamoto average ty agg (map (proj_act i) fz) = Ok (aget nan a i)
    | Err er => weighted_defuzzify (term_membership no_function E) term_tsukamoto average ty agg (map (proj_act i) fz) = Err er
    end.
  Proof.
    intros Hsh. destruct C as [Hi Hc Hl Hne Hst HE].
    exact (weighted_defuzzify_row e ins k i Hi Hc Hl Hne st E average ty agg fz Hst HE Hsh).
  Qed.

  (* ---- the cascade on a k-vector = the one-element cascade folded over the rows
          (split invariance of Proofs/CascadeProofs.v with all-singleton cuts) *)
  Theorem cascade_batch_rows {F : Type} (L : minmax_laws N) (c : cascade_cfg T) (ds : list T) (st : cstate T F) :
    callable c -> cs_value st <> [] -> ds <> [] ->
    fst (fst (run_calls c (map (fun d => [d]) ds) st)) = cs_value (fst (defuzzify_step c (Ok ds) st)) /\
    snd (run_calls c (map (fun d => [d]) ds) st) = None /\
    snd (defuzzify_step c (Ok ds) st) = None.
  Proof.
    intros Hc Hv Hds.
    assert (Hcat : forall l : list T, List.concat (map (fun d => [d]) l) = l) by (induction l as [|d l IH]; cbn; [reflexivity | f_equal; apply IH]).
    specialize (Hcat ds).
    pose proof (split_invariance_L L c (map (fun d => [d]) ds) st Hc Hv) as H. rewrite Hcat in H. apply H.
    - destruct ds; [congruence | discriminate].
    - apply Forall_forall. intros ch Hch. apply in_map_iff in Hch. destruct Hch as (d & <- & _). discriminate.
  Qed.

  (* ---- the other ways of setting a batch reduce to the matrix form *)
  Theorem process_batch_shapes (e : engine T) :
    let n := length (e_inputs e) in
    (forall x, process_batch e (Sc x) = process_batch e (Mat [repeat x n])) /\
    (forall l, n = 1 -> process_batch e (Vec l) = process_batch e (Mat (map (fun x => [x]) l))) /\
    (forall l, n <> 1 -> process_batch e (Vec l) = process_batch e (Mat [l])).
  Proof.
    cbv zeta. destruct (input_values_set_shapes e) as (H1 & H2 & H3 & _). unfold process_batch.
    split; [|split].
    - intros x. rewrite H1. reflexivity.
    - intros l Hn. rewrite (H2 l Hn). reflexivity.
    - intros l Hn. rewrite (H3 l Hn). reflexivity.
  Qed.

  Theorem process_batch_vars_matrix (e : engine T) (rows : list (list T)) :
    e_inputs e <> [] -> rows <> [] -> rect_rows (length (e_inputs e)) rows ->
    process_batch_vars e (map (@Vec T) (cols_of nan (length (e_inputs e)) rows)) = process_batch e (Mat rows).
  Proof.
    intros Hn Hk Hrect. unfold process_batch_vars, process_batch. rewrite (input_values_set_matrix e rows Hn Hk Hrect). cbn [bind].
    f_equal. f_equal. unfold inputs_assign, batch_inputs.
    generalize (cols_of nan (length (e_inputs e)) rows) as cols. clear Hn Hk Hrect.
    induction (e_inputs e) as [|iv l IH]; intros [|c cols]; cbn; try reflexivity.
    rewrite iv_set_value_vec. f_equal. apply IH.
  Qed.
End Named.
