(* FloatLevel — generic binary64 lemmas on Coq's primitive floats, proved through Flocq's bridge
   (Flocq.IEEE754.PrimFloat: Prim2B / B2Prim, mul_equiv, add_equiv, ...; BinarySingleNaN: Bmult_correct, ...).

     R_of x  := B2R (Prim2B x)             the real value of a finite float (0 for NaN and infinities)
     fin x   := is_finite (Prim2B x) = true
     RN r    := round-to-nearest-even of the real r in binary64 (FLT, emin = -1074, prec = 53)
     unitF x := fin x /\ 0 <= R_of x <= 1

   Everything is stated on PrimFloat operations, quantified over ALL binary64 values of the stated domain. *)
From Coq Require Import ZArith Reals Lra Lia Bool Floats Psatz.
From Flocq Require Import Core Plus_error IEEE754.BinarySingleNaN IEEE754.PrimFloat.
From VF Require Import NumF.
Local Open Scope R_scope.

#[global] Existing Instance Hprec.
#[global] Existing Instance Hmax.

Notation fexp64 := (SpecFloat.fexp prec emax).
#[global] Instance valid_fexp64 : Valid_exp fexp64 := fexp_correct prec emax Hprec.
#[global] Instance mono_fexp64 : Monotone_exp fexp64 := fexp_monotone prec emax.
Definition R_of (x : PrimFloat.float) : R := B2R (Prim2B x).
Definition fin (x : PrimFloat.float) : Prop := is_finite (Prim2B x) = true.
Definition RN (r : R) : R := round radix2 fexp64 ZnearestE r.
Definition fmt (r : R) : Prop := generic_format radix2 fexp64 r.
Definition unitF (x : PrimFloat.float) : Prop := fin x /\ 0 <= R_of x <= 1.

(* ------------------------------------------------------------------ rounding *)
Lemma fmt_R_of x : fmt (R_of x).
Proof. apply generic_format_B2R. Qed.

Lemma RN_le x y : x <= y -> RN x <= RN y.
Proof. intros H. apply round_le; auto with typeclass_instances. Qed.

Lemma RN_id x : fmt x -> RN x = x.
Proof. intros H. apply round_generic; auto with typeclass_instances. Qed.

Lemma RN_bounds lo hi r : fmt lo -> fmt hi -> lo <= r <= hi -> lo <= RN r <= hi.
Proof.
  intros Hlo Hhi [H1 H2]. split.
  - rewrite <- (RN_id lo Hlo). now apply RN_le.
  - rewrite <- (RN_id hi Hhi). now apply RN_le.
Qed.

Lemma RN_ge lo r : fmt lo -> lo <= r -> lo <= RN r.
Proof. intros Hlo H. rewrite <- (RN_id lo Hlo). now apply RN_le. Qed.

Lemma RN_le_fmt hi r : fmt hi -> r <= hi -> RN r <= hi.
Proof. intros Hhi H. rewrite <- (RN_id hi Hhi). now apply RN_le. Qed.

Lemma RN_0 : RN 0 = 0.
Proof. apply round_0; auto with typeclass_instances. Qed.

Lemma fmt_0 : fmt 0.
Proof. apply generic_format_0. Qed.

Lemma fmt_bpow e : (-1074 <= e <= 1023)%Z -> fmt (bpow radix2 e).
Proof.
  intros He. apply generic_format_bpow. unfold SpecFloat.fexp, SpecFloat.emin, prec, emax. lia.
Qed.

Lemma fmt_1 : fmt 1.
Proof. apply (fmt_bpow 0). lia. Qed.
Lemma fmt_2 : fmt 2.
Proof. change 2 with (bpow radix2 1). apply fmt_bpow. lia. Qed.
Lemma fmt_4 : fmt 4.
Proof. change 4 with (bpow radix2 2). apply fmt_bpow. lia. Qed.
Lemma fmt_half : fmt (1 / 2).
Proof. replace (1 / 2) with (bpow radix2 (-1)) by (simpl; lra). apply fmt_bpow. lia. Qed.
Lemma fmt_quarter : fmt (1 / 4).
Proof. replace (1 / 4) with (bpow radix2 (-2)) by (simpl; lra). apply fmt_bpow. lia. Qed.

Lemma fmt_opp x : fmt x -> fmt (- x).
Proof. apply generic_format_opp. Qed.

Lemma fmt_Rmin x y : fmt x -> fmt y -> fmt (Rmin x y).
Proof. intros; unfold Rmin; destruct (Rle_dec x y); assumption. Qed.
Lemma fmt_Rmax x y : fmt x -> fmt y -> fmt (Rmax x y).
Proof. intros; unfold Rmax; destruct (Rle_dec x y); assumption. Qed.

(* `safe r`: rounding r does not overflow.  BIG = 2^1023 is a convenient sufficient bound. *)
Definition safe (r : R) : Prop := Rabs (RN r) < bpow radix2 emax.
Definition BIG : R := bpow radix2 1023.
Lemma BIG_ge_4 : 4 <= BIG.
Proof. unfold BIG. change 4 with (bpow radix2 2). apply bpow_le. lia. Qed.
Lemma fmt_BIG : fmt BIG.
Proof. apply fmt_bpow. lia. Qed.

Lemma safe_BIG r : Rabs r <= BIG -> safe r.
Proof.
  intros H. unfold safe, RN. apply Rle_lt_trans with BIG.
  - apply abs_round_le_generic; auto with typeclass_instances. apply fmt_BIG.
  - unfold BIG. apply bpow_lt. unfold emax. lia.
Qed.
Lemma safe_4 r : -4 <= r <= 4 -> safe r.
Proof. intros H. apply safe_BIG. apply Rle_trans with 4; [apply Rabs_le; lra | apply BIG_ge_4]. Qed.
Lemma safe_R_of x : safe (R_of x).
Proof. unfold safe. rewrite (RN_id _ (fmt_R_of x)). apply abs_B2R_lt_emax. Qed.
Lemma safe_mono r' r : 0 <= r' <= r -> safe r -> safe r'.
Proof.
  unfold safe. intros [H0 H1] H.
  assert (A : 0 <= RN r') by (apply RN_ge; [apply fmt_0 | exact H0]).
  assert (B : RN r' <= RN r) by (apply RN_le; exact H1).
  rewrite Rabs_pos_eq by exact A. rewrite Rabs_pos_eq in H by lra. lra.
Qed.

Lemma no_overflow r : safe r ->
  Rlt_bool (Rabs (round radix2 fexp64 (round_mode mode_NE) r)) (bpow radix2 emax) = true.
Proof. intros H. apply Rlt_bool_true. exact H. Qed.

(* ------------------------------------------------------------------ classification *)
Lemma float_cases x :
  PrimFloat.is_nan x = true \/ x = PrimFloat.infinity \/ x = PrimFloat.neg_infinity \/ fin x.
Proof.
  unfold fin. rewrite is_nan_equiv. rewrite <- (B2Prim_Prim2B x) at 2 3.
  destruct (Prim2B x) as [s | s | | s m e H]; simpl.
  - right; right; right; reflexivity.
  - destruct s; [right; right; left; symmetry; exact neg_infinity_equiv
                | right; left; symmetry; exact infinity_equiv].
  - left; reflexivity.
  - right; right; right; reflexivity.
Qed.

Lemma fin_not_nan x : fin x -> PrimFloat.is_nan x = false.
Proof. unfold fin. rewrite is_nan_equiv. destruct (Prim2B x); simpl; congruence. Qed.

Lemma fin_is_finite x : fin x <-> PrimFloat.is_finite x = true.
Proof. unfold fin. now rewrite is_finite_equiv. Qed.

Lemma Fisfinite_fin x : Fisfinite x = true <-> fin x.
Proof.
  unfold Fisfinite, fin. rewrite is_nan_equiv, is_infinity_equiv.
  destruct (Prim2B x); simpl; intuition congruence.
Qed.

Lemma Prim2B_infinity : Prim2B PrimFloat.infinity = B754_infinity false.
Proof. rewrite infinity_equiv. apply Prim2B_B2Prim. Qed.
Lemma Prim2B_neg_infinity : Prim2B PrimFloat.neg_infinity = B754_infinity true.
Proof. rewrite neg_infinity_equiv. apply Prim2B_B2Prim. Qed.
Lemma Prim2B_nan : Prim2B PrimFloat.nan = B754_nan.
Proof. rewrite nan_equiv. apply Prim2B_B2Prim. Qed.

Lemma is_nan_eq x : PrimFloat.is_nan x = true -> x = PrimFloat.nan.
Proof.
  rewrite is_nan_equiv. intros H. apply Prim2B_inj. rewrite Prim2B_nan.
  destruct (Prim2B x); simpl in H; try discriminate. reflexivity.
Qed.

(* ------------------------------------------------------------------ literals *)
Lemma R_of_SF x : R_of x = SF2R radix2 (Prim2SF x).
Proof. unfold R_of, Prim2B. apply B2R_SF2B. Qed.

Ltac R_of_lit :=
  rewrite R_of_SF;
  match goal with |- context [Prim2SF ?c] =>
    let v := eval vm_compute in (Prim2SF c) in change (Prim2SF c) with v end;
  unfold SF2R, F2R; simpl; lra.
Ltac fin_lit := apply fin_is_finite; vm_compute; reflexivity.

Lemma R_of_zero : R_of 0%float = 0.  Proof. R_of_lit. Qed.
Lemma R_of_one : R_of 1%float = 1.   Proof. R_of_lit. Qed.
Lemma R_of_two : R_of 2%float = 2.   Proof. R_of_lit. Qed.
Lemma R_of_half : R_of 0.5%float = 1 / 2. Proof. R_of_lit. Qed.
Lemma fin_zero : fin 0%float. Proof. fin_lit. Qed.
Lemma fin_one : fin 1%float.  Proof. fin_lit. Qed.
Lemma fin_two : fin 2%float.  Proof. fin_lit. Qed.
Lemma fin_half : fin 0.5%float. Proof. fin_lit. Qed.

Lemma Flit_0_0 : Flit 0 0 = 0%float.   Proof. vm_compute; reflexivity. Qed.
Lemma Flit_1_0 : Flit 1 0 = 1%float.   Proof. vm_compute; reflexivity. Qed.
Lemma Flit_2_0 : Flit 2 0 = 2%float.   Proof. vm_compute; reflexivity. Qed.
Lemma Flit_1_m1 : Flit 1 (-1) = 0.5%float. Proof. vm_compute; reflexivity. Qed.

Lemma unitF_zero : unitF 0%float.
Proof. split; [apply fin_zero | rewrite R_of_zero; lra]. Qed.
Lemma unitF_one : unitF 1%float.
Proof. split; [apply fin_one | rewrite R_of_one; lra]. Qed.
Lemma unitF_half : unitF 0.5%float.
Proof. split; [apply fin_half | rewrite R_of_half; lra]. Qed.

(* ------------------------------------------------------------------ comparisons *)
Lemma ltb_R x y : fin x -> fin y -> PrimFloat.ltb x y = Rlt_bool (R_of x) (R_of y).
Proof. intros Hx Hy. rewrite ltb_equiv. now apply Bltb_correct. Qed.
Lemma leb_R x y : fin x -> fin y -> PrimFloat.leb x y = Rle_bool (R_of x) (R_of y).
Proof. intros Hx Hy. rewrite leb_equiv. now apply Bleb_correct. Qed.
Lemma eqb_R x y : fin x -> fin y -> PrimFloat.eqb x y = Req_bool (R_of x) (R_of y).
Proof. intros Hx Hy. rewrite eqb_equiv. now apply Beqb_correct. Qed.

Lemma ltb_fin x y : fin x -> fin y -> (PrimFloat.ltb x y = true <-> R_of x < R_of y).
Proof.
  intros Hx Hy. rewrite (ltb_R x y Hx Hy).
  destruct (Rlt_bool_spec (R_of x) (R_of y)); split; intros; try easy; lra.
Qed.
Lemma leb_fin x y : fin x -> fin y -> (PrimFloat.leb x y = true <-> R_of x <= R_of y).
Proof.
  intros Hx Hy. rewrite (leb_R x y Hx Hy).
  destruct (Rle_bool_spec (R_of x) (R_of y)); split; intros; try easy; lra.
Qed.
Lemma eqb_fin x y : fin x -> fin y -> (PrimFloat.eqb x y = true <-> R_of x = R_of y).
Proof.
  intros Hx Hy. rewrite (eqb_R x y Hx Hy).
  destruct (Req_bool_spec (R_of x) (R_of y)); split; intros; try easy; lra.
Qed.

(* case forms, convenient for `destruct` *)
Lemma ltb_case x y : fin x -> fin y ->
  (PrimFloat.ltb x y = true /\ R_of x < R_of y) \/ (PrimFloat.ltb x y = false /\ R_of y <= R_of x).
Proof.
  intros Hx Hy. rewrite (ltb_R x y Hx Hy).
  destruct (Rlt_bool_spec (R_of x) (R_of y)); [left | right]; split; auto.
Qed.
Lemma leb_case x y : fin x -> fin y ->
  (PrimFloat.leb x y = true /\ R_of x <= R_of y) \/ (PrimFloat.leb x y = false /\ R_of y < R_of x).
Proof.
  intros Hx Hy. rewrite (leb_R x y Hx Hy).
  destruct (Rle_bool_spec (R_of x) (R_of y)); [left | right]; split; auto.
Qed.
Lemma eqb_case x y : fin x -> fin y ->
  (PrimFloat.eqb x y = true /\ R_of x = R_of y) \/ (PrimFloat.eqb x y = false /\ R_of x <> R_of y).
Proof.
  intros Hx Hy. rewrite (eqb_R x y Hx Hy).
  destruct (Req_bool_spec (R_of x) (R_of y)); [left | right]; split; auto.
Qed.

(* NaN makes every comparison false *)
Lemma SFcompare_nan_l y : SFcompare S754_nan y = None.
Proof. reflexivity. Qed.
Lemma SFcompare_nan_r x : SFcompare x S754_nan = None.
Proof. destruct x as [s | s | | s m e]; try destruct s; reflexivity. Qed.

Lemma B2SF_nan x : PrimFloat.is_nan x = true -> B2SF (Prim2B x) = S754_nan.
Proof. rewrite is_nan_equiv. destruct (Prim2B x); simpl; congruence. Qed.

Lemma ltb_nan_l x y : PrimFloat.is_nan x = true -> PrimFloat.ltb x y = false.
Proof. intros H. rewrite ltb_equiv. unfold Bltb, SFltb. now rewrite (B2SF_nan x H). Qed.
Lemma ltb_nan_r x y : PrimFloat.is_nan y = true -> PrimFloat.ltb x y = false.
Proof. intros H. rewrite ltb_equiv. unfold Bltb, SFltb. now rewrite (B2SF_nan y H), SFcompare_nan_r. Qed.
Lemma leb_nan_l x y : PrimFloat.is_nan x = true -> PrimFloat.leb x y = false.
Proof. intros H. rewrite leb_equiv. unfold Bleb, SFleb. now rewrite (B2SF_nan x H). Qed.
Lemma leb_nan_r x y : PrimFloat.is_nan y = true -> PrimFloat.leb x y = false.
Proof. intros H. rewrite leb_equiv. unfold Bleb, SFleb. now rewrite (B2SF_nan y H), SFcompare_nan_r. Qed.
Lemma eqb_nan_l x y : PrimFloat.is_nan x = true -> PrimFloat.eqb x y = false.
Proof. intros H. rewrite eqb_equiv. unfold Beqb, SFeqb. now rewrite (B2SF_nan x H). Qed.
Lemma eqb_nan_r x y : PrimFloat.is_nan y = true -> PrimFloat.eqb x y = false.
Proof. intros H. rewrite eqb_equiv. unfold Beqb, SFeqb. now rewrite (B2SF_nan y H), SFcompare_nan_r. Qed.

(* infinities against finite values *)
Lemma cmp_inf_fin y : fin y ->
  PrimFloat.ltb PrimFloat.infinity y = false /\ PrimFloat.leb PrimFloat.infinity y = false /\ PrimFloat.eqb PrimFloat.infinity y = false /\
  PrimFloat.ltb y PrimFloat.infinity = true /\ PrimFloat.leb y PrimFloat.infinity = true /\ PrimFloat.eqb y PrimFloat.infinity = false.
Proof.
  unfold fin. rewrite !ltb_equiv, !leb_equiv, !eqb_equiv, Prim2B_infinity.
  unfold Bltb, Bleb, Beqb, SFltb, SFleb, SFeqb.
  destruct (Prim2B y) as [s | s | | s m e H]; simpl; try discriminate; intros _; try destruct s; repeat split.
Qed.
Lemma cmp_ninf_fin y : fin y ->
  PrimFloat.ltb PrimFloat.neg_infinity y = true /\ PrimFloat.leb PrimFloat.neg_infinity y = true /\ PrimFloat.eqb PrimFloat.neg_infinity y = false /\
  PrimFloat.ltb y PrimFloat.neg_infinity = false /\ PrimFloat.leb y PrimFloat.neg_infinity = false /\ PrimFloat.eqb y PrimFloat.neg_infinity = false.
Proof.
  unfold fin. rewrite !ltb_equiv, !leb_equiv, !eqb_equiv, Prim2B_neg_infinity.
  unfold Bltb, Bleb, Beqb, SFltb, SFleb, SFeqb.
  destruct (Prim2B y) as [s | s | | s m e H]; simpl; try discriminate; intros _; try destruct s; repeat split.
Qed.

(* ------------------------------------------------------------------ commutativity (Leibniz: Coq's model has ONE NaN) *)
Lemma SFmul_comm x y : SFmul prec emax x y = SFmul prec emax y x.
Proof.
  destruct x as [sx | sx | | sx mx ex], y as [sy | sy | | sy my ey]; unfold SFmul;
    try reflexivity; try (rewrite (xorb_comm sx sy); reflexivity).
  rewrite (xorb_comm sx sy), (Pos.mul_comm mx my), (Z.add_comm ex ey). reflexivity.
Qed.
Lemma SFadd_comm x y : SFadd prec emax x y = SFadd prec emax y x.
Proof.
  destruct x as [sx | sx | | sx mx ex], y as [sy | sy | | sy my ey]; unfold SFadd; try reflexivity.
  - destruct sx, sy; reflexivity.
  - destruct sx, sy; reflexivity.
  - rewrite (Z.min_comm ey ex), Z.add_comm. reflexivity.
Qed.

Theorem mul_comm_f a b : PrimFloat.mul a b = PrimFloat.mul b a.
Proof. apply Prim2SF_inj. rewrite !mul_spec. apply SFmul_comm. Qed.
Theorem add_comm_f a b : PrimFloat.add a b = PrimFloat.add b a.
Proof. apply Prim2SF_inj. rewrite !add_spec. apply SFadd_comm. Qed.

(* ------------------------------------------------------------------ NaN propagation *)
Lemma mul_nan_l a b : PrimFloat.is_nan a = true -> PrimFloat.is_nan (PrimFloat.mul a b) = true.
Proof.
  rewrite !is_nan_equiv, mul_equiv. destruct (Prim2B a); simpl; try discriminate. reflexivity.
Qed.
Lemma mul_nan_r a b : PrimFloat.is_nan b = true -> PrimFloat.is_nan (PrimFloat.mul a b) = true.
Proof. rewrite mul_comm_f. apply mul_nan_l. Qed.

(* ------------------------------------------------------------------ the four operations and sqrt on finite values *)
Lemma mul_RN a b : fin a -> fin b -> safe (R_of a * R_of b) ->
  fin (PrimFloat.mul a b) /\ R_of (PrimFloat.mul a b) = RN (R_of a * R_of b).
Proof.
  unfold fin, R_of. intros Ha Hb Hs. rewrite mul_equiv.
  generalize (Bmult_correct prec emax Hprec Hmax mode_NE (Prim2B a) (Prim2B b)).
  rewrite (no_overflow _ Hs). intros (E & F & _). rewrite F, Ha, Hb. split; [reflexivity | exact E].
Qed.

Lemma add_RN a b : fin a -> fin b -> safe (R_of a + R_of b) ->
  fin (PrimFloat.add a b) /\ R_of (PrimFloat.add a b) = RN (R_of a + R_of b).
Proof.
  unfold fin, R_of. intros Ha Hb Hs. rewrite add_equiv.
  generalize (Bplus_correct prec emax Hprec Hmax mode_NE (Prim2B a) (Prim2B b) Ha Hb).
  rewrite (no_overflow _ Hs). intros (E & F & _). split; [exact F | exact E].
Qed.

Lemma sub_RN a b : fin a -> fin b -> safe (R_of a - R_of b) ->
  fin (PrimFloat.sub a b) /\ R_of (PrimFloat.sub a b) = RN (R_of a - R_of b).
Proof.
  unfold fin, R_of. intros Ha Hb Hs. rewrite sub_equiv.
  generalize (Bminus_correct prec emax Hprec Hmax mode_NE (Prim2B a) (Prim2B b) Ha Hb).
  rewrite (no_overflow _ Hs). intros (E & F & _). split; [exact F | exact E].
Qed.

Lemma div_RN a b : fin a -> fin b -> R_of b <> 0 -> safe (R_of a / R_of b) ->
  fin (PrimFloat.div a b) /\ R_of (PrimFloat.div a b) = RN (R_of a / R_of b).
Proof.
  unfold fin, R_of. intros Ha Hb Hz Hs. rewrite div_equiv.
  generalize (Bdiv_correct prec emax Hprec Hmax mode_NE (Prim2B a) (Prim2B b) Hz).
  rewrite (no_overflow _ Hs). intros (E & F & _). rewrite F. split; [exact Ha | exact E].
Qed.

Lemma sqrt_RN a : fin a -> 0 <= R_of a ->
  fin (PrimFloat.sqrt a) /\ R_of (PrimFloat.sqrt a) = RN (R_sqrt.sqrt (R_of a)).
Proof.
  unfold fin, R_of. intros Ha Hs. rewrite sqrt_equiv.
  destruct (Bsqrt_correct prec emax Hprec Hmax mode_NE (Prim2B a)) as (E & F & _).
  split; [| exact E]. rewrite F.
  destruct (Prim2B a) as [s | s | | s m e H]; try discriminate; try reflexivity.
  destruct s; [| reflexivity]. exfalso.
  simpl in Hs. assert (F2R (Float radix2 (Z.neg m) e) < 0) by (apply F2R_lt_0; simpl; lia). lra.
Qed.

(* ------------------------------------------------------------------ numpy.minimum / numpy.maximum *)
Lemma Fmin_fin a b : fin a -> fin b ->
  fin (Fmin a b) /\ R_of (Fmin a b) = Rmin (R_of a) (R_of b).
Proof.
  intros Ha Hb. unfold Fmin. rewrite (fin_not_nan a Ha), (fin_not_nan b Hb).
  destruct (ltb_case b a Hb Ha) as [[-> H] | [-> H]].
  - split; [exact Hb | rewrite Rmin_right; lra].
  - split; [exact Ha | rewrite Rmin_left; lra].
Qed.
Lemma Fmax_fin a b : fin a -> fin b ->
  fin (Fmax a b) /\ R_of (Fmax a b) = Rmax (R_of a) (R_of b).
Proof.
  intros Ha Hb. unfold Fmax. rewrite (fin_not_nan a Ha), (fin_not_nan b Hb).
  destruct (ltb_case a b Ha Hb) as [[-> H] | [-> H]].
  - split; [exact Hb | rewrite Rmax_right; lra].
  - split; [exact Ha | rewrite Rmax_left; lra].
Qed.

Lemma Fmin_unit a b : unitF a -> unitF b -> unitF (Fmin a b).
Proof.
  intros [Fa Ha] [Fb Hb]. destruct (Fmin_fin a b Fa Fb) as [F E]. split; [exact F |].
  rewrite E. unfold Rmin; destruct (Rle_dec (R_of a) (R_of b)); lra.
Qed.
Lemma Fmax_unit a b : unitF a -> unitF b -> unitF (Fmax a b).
Proof.
  intros [Fa Ha] [Fb Hb]. destruct (Fmax_fin a b Fa Fb) as [F E]. split; [exact F |].
  rewrite E. unfold Rmax; destruct (Rle_dec (R_of a) (R_of b)); lra.
Qed.

(* ------------------------------------------------------------------ feq (NumF): equal real values of finite floats *)
Lemma feq_fin x y : fin x -> fin y -> (feq x y = true <-> R_of x = R_of y).
Proof.
  intros Hx Hy. unfold feq. rewrite (fin_not_nan x Hx), (fin_not_nan y Hy). simpl. rewrite orb_false_r.
  apply eqb_fin; assumption.
Qed.
Lemma feq_nan x y : PrimFloat.is_nan x = true -> PrimFloat.is_nan y = true -> feq x y = true.
Proof. intros Hx Hy. unfold feq. rewrite Hx, Hy. apply orb_true_r. Qed.

(* ------------------------------------------------------------------ inverse: a finite result means no overflow happened *)
Lemma SF_overflow_not_finite s : is_finite_SF (binary_overflow prec emax mode_NE s) = false.
Proof. destruct s; reflexivity. Qed.

Lemma sub_fin_inv a b : fin a -> fin b -> fin (PrimFloat.sub a b) ->
  safe (R_of a - R_of b) /\ R_of (PrimFloat.sub a b) = RN (R_of a - R_of b).
Proof.
  unfold fin, R_of. intros Ha Hb. rewrite sub_equiv. intros Hf.
  generalize (Bminus_correct prec emax Hprec Hmax mode_NE (Prim2B a) (Prim2B b) Ha Hb).
  destruct (Rlt_bool_spec (Rabs (round radix2 fexp64 (round_mode mode_NE) (B2R (Prim2B a) - B2R (Prim2B b))))
              (bpow radix2 emax)) as [L | L].
  - intros (E & _). split; [exact L | exact E].
  - intros (E & _). exfalso. rewrite <- is_finite_SF_B2SF, E, SF_overflow_not_finite in Hf. discriminate.
Qed.
Lemma add_fin_inv a b : fin a -> fin b -> fin (PrimFloat.add a b) ->
  safe (R_of a + R_of b) /\ R_of (PrimFloat.add a b) = RN (R_of a + R_of b).
Proof.
  unfold fin, R_of. intros Ha Hb. rewrite add_equiv. intros Hf.
  generalize (Bplus_correct prec emax Hprec Hmax mode_NE (Prim2B a) (Prim2B b) Ha Hb).
  destruct (Rlt_bool_spec (Rabs (round radix2 fexp64 (round_mode mode_NE) (B2R (Prim2B a) + B2R (Prim2B b))))
              (bpow radix2 emax)) as [L | L].
  - intros (E & _). split; [exact L | exact E].
  - intros (E & _). exfalso. rewrite <- is_finite_SF_B2SF, E, SF_overflow_not_finite in Hf. discriminate.
Qed.

(* ------------------------------------------------------------------ exact cases: neutral and absorbing elements *)
Lemma mul_1_r a : fin a -> fin (PrimFloat.mul a 1) /\ R_of (PrimFloat.mul a 1) = R_of a.
Proof.
  intros Ha. assert (S : safe (R_of a * R_of 1%float)) by (rewrite R_of_one, Rmult_1_r; apply safe_R_of).
  destruct (mul_RN a 1 Ha fin_one S) as [F E]. split; [exact F |].
  rewrite E, R_of_one, Rmult_1_r. apply RN_id, fmt_R_of.
Qed.
Lemma mul_1_l a : fin a -> fin (PrimFloat.mul 1 a) /\ R_of (PrimFloat.mul 1 a) = R_of a.
Proof. rewrite mul_comm_f. apply mul_1_r. Qed.
Lemma mul_0_r a : fin a -> fin (PrimFloat.mul a 0) /\ R_of (PrimFloat.mul a 0) = 0.
Proof.
  intros Ha. assert (S : safe (R_of a * R_of 0%float)) by (rewrite R_of_zero, Rmult_0_r; apply safe_4; lra).
  destruct (mul_RN a 0 Ha fin_zero S) as [F E]. split; [exact F |].
  rewrite E, R_of_zero, Rmult_0_r. apply RN_0.
Qed.
Lemma mul_0_l a : fin a -> fin (PrimFloat.mul 0 a) /\ R_of (PrimFloat.mul 0 a) = 0.
Proof. rewrite mul_comm_f. apply mul_0_r. Qed.
Lemma add_0_r a : fin a -> fin (PrimFloat.add a 0) /\ R_of (PrimFloat.add a 0) = R_of a.
Proof.
  intros Ha. assert (S : safe (R_of a + R_of 0%float)) by (rewrite R_of_zero, Rplus_0_r; apply safe_R_of).
  destruct (add_RN a 0 Ha fin_zero S) as [F E]. split; [exact F |].
  rewrite E, R_of_zero, Rplus_0_r. apply RN_id, fmt_R_of.
Qed.
Lemma add_0_l a : fin a -> fin (PrimFloat.add 0 a) /\ R_of (PrimFloat.add 0 a) = R_of a.
Proof. rewrite add_comm_f. apply add_0_r. Qed.
Lemma sub_0_r a : fin a -> fin (PrimFloat.sub a 0) /\ R_of (PrimFloat.sub a 0) = R_of a.
Proof.
  intros Ha. assert (S : safe (R_of a - R_of 0%float)) by (rewrite R_of_zero, Rminus_0_r; apply safe_R_of).
  destruct (sub_RN a 0 Ha fin_zero S) as [F E]. split; [exact F |].
  rewrite E, R_of_zero, Rminus_0_r. apply RN_id, fmt_R_of.
Qed.
Lemma div_1_r a : fin a -> fin (PrimFloat.div a 1) /\ R_of (PrimFloat.div a 1) = R_of a.
Proof.
  intros Ha.
  assert (Q : R_of a / R_of 1%float = R_of a) by (rewrite R_of_one; field).
  assert (S : safe (R_of a / R_of 1%float)) by (rewrite Q; apply safe_R_of).
  assert (Z : R_of 1%float <> 0) by (rewrite R_of_one; lra).
  destruct (div_RN a 1 Ha fin_one Z S) as [F E]. split; [exact F |].
  rewrite E, Q. apply RN_id, fmt_R_of.
Qed.
Lemma div_self a : fin a -> R_of a <> 0 -> fin (PrimFloat.div a a) /\ R_of (PrimFloat.div a a) = 1.
Proof.
  intros Ha Z.
  assert (Q : R_of a / R_of a = 1) by (field; exact Z).
  assert (S : safe (R_of a / R_of a)) by (rewrite Q; apply safe_4; lra).
  destruct (div_RN a a Ha Ha Z S) as [F E]. split; [exact F |].
  rewrite E, Q. apply RN_id, fmt_1.
Qed.

Theorem mul_1_r_feq a : fin a -> feq (PrimFloat.mul a 1) a = true.
Proof. intros Ha. destruct (mul_1_r a Ha) as [F E]. now apply feq_fin. Qed.
Theorem mul_0_r_feq a : fin a -> feq (PrimFloat.mul a 0) 0 = true.
Proof. intros Ha. destruct (mul_0_r a Ha) as [F E]. apply feq_fin; [exact F | apply fin_zero | now rewrite R_of_zero]. Qed.
Theorem add_0_r_feq a : fin a -> feq (PrimFloat.add a 0) a = true.
Proof. intros Ha. destruct (add_0_r a Ha) as [F E]. now apply feq_fin. Qed.

(* ------------------------------------------------------------------ the unit interval *)
Lemma mul_unit a b : unitF a -> unitF b ->
  unitF (PrimFloat.mul a b) /\ R_of (PrimFloat.mul a b) = RN (R_of a * R_of b) /\
  R_of (PrimFloat.mul a b) <= R_of a /\ R_of (PrimFloat.mul a b) <= R_of b.
Proof.
  intros [Fa Ha] [Fb Hb].
  assert (S : safe (R_of a * R_of b)) by (apply safe_4; nra).
  destruct (mul_RN a b Fa Fb S) as [F E]. rewrite E.
  assert (B0 : 0 <= RN (R_of a * R_of b)) by (apply RN_ge; [apply fmt_0 | nra]).
  assert (B1 : RN (R_of a * R_of b) <= R_of a) by (apply RN_le_fmt; [apply fmt_R_of | nra]).
  assert (B2 : RN (R_of a * R_of b) <= R_of b) by (apply RN_le_fmt; [apply fmt_R_of | nra]).
  split; [split; [exact F | lra] |]. split; [reflexivity | split; assumption].
Qed.

Theorem mul_unit_le_min a b : unitF a -> unitF b ->
  0 <= R_of (PrimFloat.mul a b) <= Rmin (R_of a) (R_of b).
Proof.
  intros Ua Ub. destruct (mul_unit a b Ua Ub) as ([_ H] & _ & H1 & H2).
  unfold Rmin; destruct (Rle_dec (R_of a) (R_of b)); lra.
Qed.

(* h >= 0 finite (any magnitude), 0 <= t <= 1 : h*t rounds into [0, h] *)
Lemma mul_scale h t : fin h -> 0 <= R_of h -> unitF t ->
  fin (PrimFloat.mul h t) /\ 0 <= R_of (PrimFloat.mul h t) <= R_of h /\
  R_of (PrimFloat.mul h t) = RN (R_of h * R_of t).
Proof.
  intros Fh Hh [Ft Ht].
  assert (S : safe (R_of h * R_of t)) by (apply (safe_mono _ (R_of h)); [nra | apply safe_R_of]).
  destruct (mul_RN h t Fh Ft S) as [F E]. rewrite E.
  split; [exact F |]. split; [| reflexivity].
  apply RN_bounds; [apply fmt_0 | apply fmt_R_of | nra].
Qed.

Lemma one_minus_unit a : unitF a ->
  unitF (PrimFloat.sub 1 a) /\ R_of (PrimFloat.sub 1 a) = RN (1 - R_of a).
Proof.
  intros [Fa Ha].
  assert (S : safe (R_of 1%float - R_of a)) by (rewrite R_of_one; apply safe_4; lra).
  destruct (sub_RN 1 a fin_one Fa S) as [F E]. rewrite R_of_one in E. unfold unitF. rewrite E.
  split; [| reflexivity]. split; [exact F |].
  apply RN_bounds; [apply fmt_0 | apply fmt_1 | lra].
Qed.

Theorem one_minus_range a : unitF a -> 0 <= R_of (PrimFloat.sub 1 a) <= 1.
Proof. intros Ua. destruct (one_minus_unit a Ua) as [[_ H] _]. exact H. Qed.

Theorem one_minus_one_minus_unit a : unitF a -> unitF (PrimFloat.sub 1 (PrimFloat.sub 1 a)).
Proof. intros Ua. apply one_minus_unit. apply one_minus_unit. exact Ua. Qed.

Lemma add_unit a b : unitF a -> unitF b ->
  fin (PrimFloat.add a b) /\ R_of (PrimFloat.add a b) = RN (R_of a + R_of b) /\
  Rmax (R_of a) (R_of b) <= R_of (PrimFloat.add a b) <= 2.
Proof.
  intros [Fa Ha] [Fb Hb].
  assert (S : safe (R_of a + R_of b)) by (apply safe_4; lra).
  destruct (add_RN a b Fa Fb S) as [F E]. rewrite E.
  split; [exact F |]. split; [reflexivity |].
  apply RN_bounds; [apply fmt_Rmax; apply fmt_R_of | apply fmt_2 |].
  unfold Rmax; destruct (Rle_dec (R_of a) (R_of b)); lra.
Qed.

(* 0 <= u <= v, 0 < v : u/v rounds into [0,1] *)
Lemma div_unit u v : fin u -> fin v -> 0 <= R_of u <= R_of v -> 0 < R_of v ->
  unitF (PrimFloat.div u v) /\ R_of (PrimFloat.div u v) = RN (R_of u / R_of v).
Proof.
  intros Fu Fv Huv Hv.
  assert (Q : 0 <= R_of u / R_of v <= 1).
  { split; [apply Rmult_le_pos; [lra | left; apply Rinv_0_lt_compat; lra] |].
    apply Rmult_le_reg_r with (R_of v); [exact Hv |]. unfold Rdiv. rewrite Rmult_assoc, Rinv_l by lra. lra. }
  assert (S : safe (R_of u / R_of v)) by (apply safe_4; lra).
  assert (Z : R_of v <> 0) by lra.
  destruct (div_RN u v Fu Fv Z S) as [F E]. unfold unitF. rewrite E.
  split; [| reflexivity]. split; [exact F |].
  apply RN_bounds; [apply fmt_0 | apply fmt_1 | exact Q].
Qed.

Theorem div_range u v : fin u -> fin v -> 0 <= R_of u <= R_of v -> 0 < R_of v ->
  0 <= R_of (PrimFloat.div u v) <= 1.
Proof. intros Fu Fv H1 H2. destruct (div_unit u v Fu Fv H1 H2) as [[_ H] _]. exact H. Qed.

Lemma sqrt_unit a : unitF a ->
  unitF (PrimFloat.sqrt a) /\ R_of (PrimFloat.sqrt a) = RN (R_sqrt.sqrt (R_of a)) /\
  R_of a <= R_of (PrimFloat.sqrt a).
Proof.
  intros [Fa Ha]. destruct (sqrt_RN a Fa (proj1 Ha)) as [F E]. unfold unitF. rewrite E.
  assert (Q0 : 0 <= R_sqrt.sqrt (R_of a)) by apply sqrt_pos.
  assert (Q1 : R_sqrt.sqrt (R_of a) <= 1) by (rewrite <- sqrt_1; apply sqrt_le_1_alt; lra).
  assert (Q2 : R_of a <= R_sqrt.sqrt (R_of a)).
  { rewrite <- (sqrt_square (R_of a)) at 1 by lra. apply sqrt_le_1_alt. nra. }
  split; [split; [exact F | apply RN_bounds; [apply fmt_0 | apply fmt_1 | lra]] |].
  split; [reflexivity | apply RN_ge; [apply fmt_R_of | exact Q2]].
Qed.

(* the difference of two distinct floats never rounds to zero (gradual underflow) *)
Lemma sub_pos a b : fin a -> fin b -> safe (R_of a - R_of b) -> R_of b < R_of a ->
  fin (PrimFloat.sub a b) /\ 0 < R_of (PrimFloat.sub a b) /\ R_of (PrimFloat.sub a b) = RN (R_of a - R_of b).
Proof.
  intros Fa Fb S H. destruct (sub_RN a b Fa Fb S) as [F E]. rewrite E.
  split; [exact F |]. split; [| reflexivity].
  assert (N : RN (R_of a - R_of b) <> 0).
  { unfold RN, Rminus. apply round_plus_neq_0; auto with typeclass_instances.
    - apply fmt_R_of.
    - apply fmt_opp, fmt_R_of.
    - lra. }
  assert (P : 0 <= RN (R_of a - R_of b)) by (apply RN_ge; [apply fmt_0 | lra]).
  lra.
Qed.

(* ------------------------------------------------------------------ more representable constants, doubling *)
Lemma fmt_m1 : fmt (-1).
Proof. replace (-1) with (- (1)) by lra. apply fmt_opp, fmt_1. Qed.
Lemma fmt_3half : fmt (3 / 2).
Proof.
  replace (3 / 2) with (F2R (Float radix2 3 (-1))) by (unfold F2R; simpl; lra).
  apply generic_format_F2R. intros _. unfold cexp, SpecFloat.fexp, SpecFloat.emin, prec, emax.
  replace (F2R (Float radix2 3 (-1))) with (3 / 2) by (unfold F2R; simpl; lra).
  rewrite (mag_unique radix2 (3 / 2) 1); [lia |].
  rewrite Rabs_pos_eq by lra. simpl. lra.
Qed.

(* ------------------------------------------------------------------ small automation for step-by-step evaluation *)
Ltac fmt_tac := repeat first [ assumption | apply fmt_0 | apply fmt_1 | apply fmt_2 | apply fmt_4 | apply fmt_half
  | apply fmt_quarter | apply fmt_m1 | apply fmt_3half | apply fmt_R_of | apply fmt_Rmin | apply fmt_Rmax | apply fmt_opp ].
Ltac fin_tac := first [ assumption | apply fin_one | apply fin_zero | apply fin_two | apply fin_half
  | match goal with H : unitF ?x |- fin ?x => exact (proj1 H) end ].
Ltac pose_lits := pose proof R_of_one as Lit1; pose proof R_of_zero as Lit0; pose proof R_of_two as Lit2;
  pose proof R_of_half as LitH.
Ltac arith := rewrite ?R_of_one, ?R_of_zero, ?R_of_two, ?R_of_half; first [ lra | timeout 30 nra ].

(* `fadd x y in lo hi as F E B` : F : fin (x+y), E : R_of (x+y) = RN (R_of x + R_of y), B : lo <= R_of (x+y) <= hi,
   provided lo and hi are representable and bound the exact result (checked by lra/nra from the context) *)
Tactic Notation "fadd" constr(x) constr(y) "in" constr(lo) constr(hi) "as" ident(F) ident(E) ident(B) :=
  let S := fresh "S" in
  assert (S : safe (R_of x + R_of y)) by (apply safe_4; arith);
  destruct (add_RN x y ltac:(fin_tac) ltac:(fin_tac) S) as [F E]; clear S;
  assert (B : lo <= R_of (PrimFloat.add x y) <= hi) by (rewrite E; apply RN_bounds; [fmt_tac | fmt_tac | arith]).
Tactic Notation "fsub" constr(x) constr(y) "in" constr(lo) constr(hi) "as" ident(F) ident(E) ident(B) :=
  let S := fresh "S" in
  assert (S : safe (R_of x - R_of y)) by (apply safe_4; arith);
  destruct (sub_RN x y ltac:(fin_tac) ltac:(fin_tac) S) as [F E]; clear S;
  assert (B : lo <= R_of (PrimFloat.sub x y) <= hi) by (rewrite E; apply RN_bounds; [fmt_tac | fmt_tac | arith]).
Tactic Notation "fmul" constr(x) constr(y) "in" constr(lo) constr(hi) "as" ident(F) ident(E) ident(B) :=
  let S := fresh "S" in
  assert (S : safe (R_of x * R_of y)) by (apply safe_4; arith);
  destruct (mul_RN x y ltac:(fin_tac) ltac:(fin_tac) S) as [F E]; clear S;
  assert (B : lo <= R_of (PrimFloat.mul x y) <= hi) by (rewrite E; apply RN_bounds; [fmt_tac | fmt_tac | arith]).

(* case analysis on a float comparison between finite values *)
Tactic Notation "fcase_ltb" constr(x) constr(y) "as" ident(H) :=
  destruct (ltb_case x y ltac:(fin_tac) ltac:(fin_tac)) as [[-> H] | [-> H]].
Tactic Notation "fcase_leb" constr(x) constr(y) "as" ident(H) :=
  destruct (leb_case x y ltac:(fin_tac) ltac:(fin_tac)) as [[-> H] | [-> H]].
Tactic Notation "fcase_eqb" constr(x) constr(y) "as" ident(H) :=
  destruct (eqb_case x y ltac:(fin_tac) ltac:(fin_tac)) as [[-> H] | [-> H]].

(* ------------------------------------------------------------------ exact quotients *)
Lemma div_R1 u v : fin u -> fin v -> R_of v = 1 -> fin (PrimFloat.div u v) /\ R_of (PrimFloat.div u v) = R_of u.
Proof.
  intros Fu Fv E1.
  assert (Q : R_of u / R_of v = R_of u) by (rewrite E1; field).
  assert (S : safe (R_of u / R_of v)) by (rewrite Q; apply safe_R_of).
  assert (Z : R_of v <> 0) by lra.
  destruct (div_RN u v Fu Fv Z S) as [F E]. split; [exact F |].
  rewrite E, Q. apply RN_id, fmt_R_of.
Qed.
Lemma div_eqR u v : fin u -> fin v -> R_of u = R_of v -> R_of v <> 0 ->
  fin (PrimFloat.div u v) /\ R_of (PrimFloat.div u v) = 1.
Proof.
  intros Fu Fv Euv Z.
  assert (Q : R_of u / R_of v = 1) by (rewrite Euv; field; exact Z).
  assert (S : safe (R_of u / R_of v)) by (rewrite Q; apply safe_4; lra).
  destruct (div_RN u v Fu Fv Z S) as [F E]. split; [exact F |].
  rewrite E, Q. apply RN_id, fmt_1.
Qed.
Lemma div_0R u v : fin u -> fin v -> R_of u = 0 -> R_of v <> 0 ->
  fin (PrimFloat.div u v) /\ R_of (PrimFloat.div u v) = 0.
Proof.
  intros Fu Fv E0 Z.
  assert (Q : R_of u / R_of v = 0) by (rewrite E0; unfold Rdiv; ring).
  assert (S : safe (R_of u / R_of v)) by (rewrite Q; apply safe_4; lra).
  destruct (div_RN u v Fu Fv Z S) as [F E]. split; [exact F |].
  rewrite E, Q. apply RN_0.
Qed.

(* ------------------------------------------------------------------ square roots *)
Lemma sqrt_bounds r lo hi : 0 <= lo -> 0 <= hi -> lo * lo <= r <= hi * hi -> lo <= R_sqrt.sqrt r <= hi.
Proof.
  intros Hlo Hhi [H1 H2]. split.
  - rewrite <- (sqrt_square lo Hlo). apply sqrt_le_1_alt. exact H1.
  - rewrite <- (sqrt_square hi Hhi). apply sqrt_le_1_alt. exact H2.
Qed.
Tactic Notation "fsqrt" constr(x) "in" constr(lo) constr(hi) "as" ident(F) ident(E) ident(B) :=
  destruct (sqrt_RN x ltac:(fin_tac) ltac:(arith)) as [F E];
  assert (B : lo <= R_of (PrimFloat.sqrt x) <= hi)
    by (rewrite E; apply RN_bounds; [fmt_tac | fmt_tac | apply sqrt_bounds; arith]).

(* ------------------------------------------------------------------ symmetry of rounding, slopes of piecewise-linear terms *)
Lemma RN_opp r : RN (- r) = - RN r.
Proof. unfold RN. apply round_NE_opp. Qed.
Lemma safe_opp r : safe r -> safe (- r).
Proof. unfold safe. now rewrite RN_opp, Rabs_Ropp. Qed.
Lemma sub_fin_swap a b : fin a -> fin b -> fin (PrimFloat.sub a b) -> fin (PrimFloat.sub b a).
Proof.
  intros Fa Fb F. destruct (sub_fin_inv a b Fa Fb F) as [S _].
  assert (S' : safe (R_of b - R_of a)).
  { replace (R_of b - R_of a) with (- (R_of a - R_of b)) by ring. now apply safe_opp. }
  apply (sub_RN b a Fb Fa S').
Qed.

(* (x - a) / (b - a)  for a <= x <= b, a < b, provided b - a does not overflow: finite and in [0,1] *)
Lemma slope_up x a b : fin x -> fin a -> fin b -> fin (PrimFloat.sub b a) ->
  R_of a <= R_of x <= R_of b -> R_of a < R_of b ->
  unitF (PrimFloat.div (PrimFloat.sub x a) (PrimFloat.sub b a)).
Proof.
  intros Fx Fa Fb Fba Hx Hab.
  destruct (sub_fin_inv b a Fb Fa Fba) as [Sba Eba].
  assert (Sxa : safe (R_of x - R_of a)) by (apply (safe_mono _ (R_of b - R_of a)); [lra | exact Sba]).
  destruct (sub_RN x a Fx Fa Sxa) as [Fxa Exa].
  destruct (sub_pos b a Fb Fa Sba Hab) as (_ & Pba & _).
  assert (L0 : 0 <= R_of (PrimFloat.sub x a)) by (rewrite Exa; apply RN_ge; [apply fmt_0 | lra]).
  assert (L1 : R_of (PrimFloat.sub x a) <= R_of (PrimFloat.sub b a)) by (rewrite Exa, Eba; apply RN_le; lra).
  apply (div_unit _ _ Fxa Fba (conj L0 L1) Pba).
Qed.
(* (c - x) / (c - b)  for b <= x <= c, b < c *)
Lemma slope_down x b c : fin x -> fin b -> fin c -> fin (PrimFloat.sub c b) ->
  R_of b <= R_of x <= R_of c -> R_of b < R_of c ->
  unitF (PrimFloat.div (PrimFloat.sub c x) (PrimFloat.sub c b)).
Proof.
  intros Fx Fb Fc Fcb Hx Hbc.
  destruct (sub_fin_inv c b Fc Fb Fcb) as [Scb Ecb].
  assert (Scx : safe (R_of c - R_of x)) by (apply (safe_mono _ (R_of c - R_of b)); [lra | exact Scb]).
  destruct (sub_RN c x Fc Fx Scx) as [Fcx Ecx].
  destruct (sub_pos c b Fc Fb Scb Hbc) as (_ & Pcb & _).
  assert (L0 : 0 <= R_of (PrimFloat.sub c x)) by (rewrite Ecx; apply RN_ge; [apply fmt_0 | lra]).
  assert (L1 : R_of (PrimFloat.sub c x) <= R_of (PrimFloat.sub c b)) by (rewrite Ecx, Ecb; apply RN_le; lra).
  apply (div_unit _ _ Fcx Fcb (conj L0 L1) Pcb).
Qed.

(* ------------------------------------------------------------------ finer facts: exact doubling, representable a+b-1, half-ulp error on [1,2] *)
(* doubling is exact in the format (no upper exponent bound in `fmt`) *)
Lemma fmt_double x : fmt x -> fmt (2 * x).
Proof.
  intros Fx. unfold fmt in *.
  change fexp64 with (FLT_exp (SpecFloat.emin prec emax) prec) in *.
  apply FLT_format_generic in Fx; [| exact Hprec]. destruct Fx as [[m e] H1 H2 H3]. simpl in H2, H3.
  apply generic_format_FLT. exists (Float radix2 m (e + 1)); simpl.
  - rewrite H1. unfold F2R. simpl. rewrite bpow_plus. change (bpow radix2 1) with 2. ring.
  - exact H2.
  - lia.
Qed.

(* multiples of 2^e *)
Definition mult (e : Z) (x : R) : Prop := exists k : Z, x = IZR k * bpow radix2 e.
Lemma mult_plus e x y : mult e x -> mult e y -> mult e (x + y).
Proof. intros [k ->] [l ->]. exists (k + l)%Z. rewrite plus_IZR. ring. Qed.
Lemma mult_opp e x : mult e x -> mult e (- x).
Proof. intros [k ->]. exists (- k)%Z. rewrite opp_IZR. ring. Qed.
Lemma mult_of_fmt e x : fmt x -> (e <= cexp radix2 fexp64 x)%Z -> mult e x.
Proof.
  intros Fx He. unfold fmt, generic_format in Fx.
  set (m := Ztrunc (scaled_mantissa radix2 fexp64 x)) in *. set (c := cexp radix2 fexp64 x) in *.
  exists (m * 2 ^ (c - e))%Z. rewrite Fx at 1. unfold F2R. simpl.
  rewrite mult_IZR. rewrite (IZR_Zpower radix2) by lia.
  rewrite Rmult_assoc, <- bpow_plus. f_equal. f_equal. lia.
Qed.
Lemma fmt_of_mult x a : fmt a -> a <> 0 -> mult (cexp radix2 fexp64 a) x -> Rabs x <= Rabs a -> fmt x.
Proof.
  intros Fa Na [k ->] Hx. set (e := cexp radix2 fexp64 a) in *.
  change (IZR k * bpow radix2 e) with (F2R (Float radix2 k e)) in *.
  apply generic_format_F2R. intros Nk.
  unfold cexp. fold (cexp radix2 fexp64 a). unfold e, cexp.
  apply mono_fexp64. apply mag_le_abs; [| exact Hx].
  apply F2R_neq_0. exact Nk.
Qed.
Lemma cexp_le_pos x y : 0 < x -> x <= y -> (cexp radix2 fexp64 x <= cexp radix2 fexp64 y)%Z.
Proof. intros Hx Hxy. unfold cexp. apply mono_fexp64. apply mag_le; assumption. Qed.

(* a, b representable in [0,1] with a + b >= 1: a + b - 1 is representable *)
Lemma fmt_sum_minus_1_aux a b : fmt a -> fmt b -> 0 <= a -> a <= b -> b <= 1 -> 1 <= a + b -> fmt (a + b - 1).
Proof.
  intros Fa Fb Ha Hab Hb H1.
  destruct (Req_dec a 0) as [Za | Na].
  - replace (a + b - 1) with 0 by lra. apply fmt_0.
  - assert (Pa : 0 < a) by lra.
    apply (fmt_of_mult _ a Fa Na).
    + replace (a + b - 1) with (a + (b + - (1))) by ring.
      apply mult_plus; [apply mult_of_fmt; [exact Fa | lia] |].
      apply mult_plus; [apply mult_of_fmt; [exact Fb | apply cexp_le_pos; lra] |].
      apply mult_opp. apply mult_of_fmt; [apply fmt_1 | apply cexp_le_pos; lra].
    + rewrite !Rabs_pos_eq by lra. lra.
Qed.
Lemma fmt_sum_minus_1 a b : fmt a -> fmt b -> 0 <= a <= 1 -> 0 <= b <= 1 -> 1 <= a + b -> fmt (a + b - 1).
Proof.
  intros Fa Fb Ha Hb H1. destruct (Rle_dec a b) as [L | L].
  - apply fmt_sum_minus_1_aux; lra || assumption.
  - replace (a + b - 1) with (b + a - 1) by ring. apply fmt_sum_minus_1_aux; lra || assumption.
Qed.

(* key fact: the rounded product dominates the Lukasiewicz bound *)
Lemma RN_mul_ge_luk a b : fmt a -> fmt b -> 0 <= a <= 1 -> 0 <= b <= 1 -> a + b - 1 <= RN (a * b).
Proof.
  intros Fa Fb Ha Hb. destruct (Rle_dec 1 (a + b)) as [L | L].
  - apply RN_ge; [now apply fmt_sum_minus_1 | nra].
  - assert (0 <= RN (a * b)) by (apply RN_ge; [apply fmt_0 | nra]). lra.
Qed.

(* rounding error at most 2^-53 on [1,2] *)
Lemma RN_err_12 y : 1 <= y <= 2 -> Rabs (RN y - y) <= bpow radix2 (-53).
Proof.
  intros [H1 H2]. destruct (Req_dec y 2) as [-> | N2].
  - rewrite (RN_id 2 fmt_2). replace (2 - 2) with 0 by ring. rewrite Rabs_R0. apply bpow_ge_0.
  - unfold RN. eapply Rle_trans; [apply error_le_half_ulp; auto with typeclass_instances |].
    rewrite ulp_neq_0 by lra. unfold cexp.
    rewrite (mag_unique radix2 y 1).
    + replace (fexp64 1) with (-52)%Z by reflexivity.
      assert (E : bpow radix2 (-52) = 2 * bpow radix2 (-53)).
      { change (-52)%Z with (1 + -53)%Z. rewrite bpow_plus. reflexivity. }
      rewrite E. lra.
    + rewrite Rabs_pos_eq by lra. simpl. lra.
Qed.

Lemma R_of_2m53 : R_of 0x1p-53%float = bpow radix2 (-53).
Proof.
  rewrite R_of_SF.
  match goal with |- context [Prim2SF ?c] =>
    let v := eval vm_compute in (Prim2SF c) in change (Prim2SF c) with v end.
  unfold SF2R, F2R. simpl. lra.
Qed.
Lemma R_of_pred1 : R_of 0x1.fffffffffffffp-1%float = 1 - bpow radix2 (-53).
Proof.
  rewrite R_of_SF.
  match goal with |- context [Prim2SF ?c] =>
    let v := eval vm_compute in (Prim2SF c) in change (Prim2SF c) with v end.
  unfold SF2R, F2R. simpl. lra.
Qed.
Lemma RN_1_plus_half_ulp : RN (1 + bpow radix2 (-53)) = 1.
Proof.
  assert (F1 : fin 0x1p-53%float) by (apply fin_is_finite; vm_compute; reflexivity).
  assert (S : safe (R_of 1%float + R_of 0x1p-53%float)).
  { rewrite R_of_one, R_of_2m53. apply safe_4. assert (0 <= bpow radix2 (-53) <= 1).
    { split; [apply bpow_ge_0 | change 1 with (bpow radix2 0); apply bpow_le; lia]. } lra. }
  destruct (add_RN 1%float 0x1p-53%float fin_one F1 S) as [_ E].
  rewrite R_of_one, R_of_2m53 in E. rewrite <- E.
  replace (1 + 0x1p-53)%float with 1%float by (vm_compute; reflexivity). apply R_of_one.
Qed.
Lemma fmt_pred1 : fmt (1 - bpow radix2 (-53)).
Proof. rewrite <- R_of_pred1. apply fmt_R_of. Qed.
Lemma bpow_m53_small : 0 < bpow radix2 (-53) <= 1 / 4.
Proof.
  split; [apply bpow_gt_0 |]. replace (1 / 4) with (bpow radix2 (-2)) by (simpl; lra). apply bpow_le. lia.
Qed.

(* ------------------------------------------------------------------ scaling by powers of two, a wider no-overflow bound *)
Lemma fmt_scale x k : fmt x -> (0 <= k)%Z -> fmt (x * bpow radix2 k).
Proof.
  intros Fx Hk. unfold fmt in *.
  change fexp64 with (FLT_exp (SpecFloat.emin prec emax) prec) in *.
  apply FLT_format_generic in Fx; [| exact Hprec]. destruct Fx as [[m e] H1 H2 H3]. simpl in H2, H3.
  apply generic_format_FLT. exists (Float radix2 m (e + k)); simpl.
  - rewrite H1. unfold F2R. simpl. rewrite bpow_plus. ring.
  - exact H2.
  - lia.
Qed.
Definition BIG3 : R := 3 * bpow radix2 1022.     (* 1.5 * 2^1023, still below the overflow threshold *)
Lemma fmt_BIG3 : fmt BIG3.
Proof.
  unfold BIG3. replace (3 * bpow radix2 1022) with (3 / 2 * bpow radix2 1023).
  - apply fmt_scale; [apply fmt_3half | lia].
  - change 1023%Z with (1 + 1022)%Z. rewrite bpow_plus. change (bpow radix2 1) with 2. field.
Qed.
Lemma safe_BIG3 r : Rabs r <= BIG3 -> safe r.
Proof.
  intros H. unfold safe, RN. apply Rle_lt_trans with BIG3.
  - apply abs_round_le_generic; auto with typeclass_instances. apply fmt_BIG3.
  - unfold BIG3, emax. change 1024%Z with (2 + 1022)%Z. rewrite bpow_plus. change (bpow radix2 2) with 4.
    assert (0 < bpow radix2 1022) by apply bpow_gt_0. lra.
Qed.
Lemma BIG_2_1022 : BIG = 2 * bpow radix2 1022.
Proof. unfold BIG. change 1023%Z with (1 + 1022)%Z. rewrite bpow_plus. reflexivity. Qed.
