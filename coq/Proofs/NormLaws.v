From Coq Require Import Reals Lra Lia Bool Psatz.
From VF Require Import Num NumR GenNorm SpecNorm NormR.
Local Open Scope R_scope.

Ltac noif t := lazymatch t with context [if _ then _ else _] => fail | _ => idtac end.
Ltac splitm := unfold Rmin, Rmax in *; repeat match goal with
  | |- context [Rle_dec ?a ?b] => noif a; noif b; destruct (Rle_dec a b)
  | |- context [Req_EM_T ?a ?b] => noif a; noif b; destruct (Req_EM_T a b)
  | |- context [Rlt_dec ?a ?b] => noif a; noif b; destruct (Rlt_dec a b)
  end.
Ltac crush := intros; unspec; splitm; try lra; try nra.

Definition T_range (T : R -> R -> R) := forall a b, unit a -> unit b -> unit (T a b).
Definition T_comm (T : R -> R -> R) := forall a b, unit a -> unit b -> T a b = T b a.
Definition T_mono (T : R -> R -> R) := forall a b c, unit a -> unit b -> unit c -> b <= c -> T a b <= T a c.
Definition T_assoc (T : R -> R -> R) := forall a b c, unit a -> unit b -> unit c -> T (T a b) c = T a (T b c).
Definition T_id1 (T : R -> R -> R) := forall a, unit a -> T a 1 = a.
Definition T_ann0 (T : R -> R -> R) := forall a, unit a -> T a 0 = 0.
Definition T_le_min (T : R -> R -> R) := forall a b, unit a -> unit b -> T a b <= Rmin a b.

Lemma AP_range : T_range AlgebraicProduct. Proof. unfold T_range. crush. Qed.
Lemma AP_assoc : T_assoc AlgebraicProduct. Proof. unfold T_assoc. crush. Qed.
Lemma BD_range : T_range BoundedDifference. Proof. unfold T_range. crush. Qed.
Lemma BD_assoc : T_assoc BoundedDifference. Proof. unfold T_assoc. crush. Qed.
Lemma BD_mono : T_mono BoundedDifference. Proof. unfold T_mono. crush. Qed.
Lemma DP_range : T_range DrasticProduct. Proof. unfold T_range. crush. Qed.
Lemma DP_assoc : T_assoc DrasticProduct. Proof. unfold T_assoc. Time crush. Qed.
Lemma DP_mono : T_mono DrasticProduct. Proof. unfold T_mono. Time crush. Qed.
Lemma NM_assoc : T_assoc NilpotentMinimum. Proof. unfold T_assoc. Time crush. Qed.
Lemma EP_range : T_range EinsteinProduct. Proof. unfold T_range. intros a b [] []. unspec. 
  assert (0 < 2 - (a + b - a * b)) by nra. split. apply Rmult_le_pos; [nra|]. left; now apply Rinv_0_lt_compat.
  apply Rmult_le_reg_r with (2 - (a + b - a * b)); [lra|]. unfold Rdiv. rewrite Rmult_assoc, Rinv_l by lra. nra. Qed.
