(* The T-norm / S-norm laws of the 16 norms of fuzzylite/norm.py, proved over R on the documented formulas
   (Spec/SpecNorm.v).  Properties/C04.v transports them to the generated kernels through NormR.<N>_eq.

   Plan: the seven T-norms are proved law by law; the seven dual S-norms get their laws from the
   De Morgan duality S a b = 1 - T (1-a) (1-b) through the generic lemma [dual_laws];
   NormalizedSum coincides with BoundedSum; UnboundedSum is plain addition (not bounded, so only the
   monoid laws and monotonicity). *)
From Coq Require Import Reals Lra Lia Bool Psatz.
From VF Require Import Num NumR GenNorm SpecNorm NormR.
Local Open Scope R_scope.

Ltac noif t := lazymatch t with context [if _ then _ else _] => fail | _ => idtac end.
Ltac splitm := unfold Rmin, Rmax in *; repeat match goal with
  | |- context [Rle_dec ?a ?b] => noif a; noif b; destruct (Rle_dec a b)
  | |- context [Req_EM_T ?a ?b] => noif a; noif b; destruct (Req_EM_T a b)
  | |- context [Rlt_dec ?a ?b] => noif a; noif b; destruct (Rlt_dec a b)
  end.
Ltac crush := intros; unspec; splitm; try lra; try (timeout 30 nra).

(* ------------------------------------------------------------------------------------------------ *)
(* 0. The laws                                                                                      *)

Definition T_range (T : R -> R -> R) := forall a b, unit a -> unit b -> unit (T a b).
Definition T_comm (T : R -> R -> R) := forall a b, unit a -> unit b -> T a b = T b a.
Definition T_mono (T : R -> R -> R) := forall a b c, unit a -> unit b -> unit c -> b <= c -> T a b <= T a c.
Definition T_assoc (T : R -> R -> R) := forall a b c, unit a -> unit b -> unit c -> T (T a b) c = T a (T b c).
Definition T_id1 (T : R -> R -> R) := forall a, unit a -> T a 1 = a.
Definition T_ann0 (T : R -> R -> R) := forall a, unit a -> T a 0 = 0.
Definition T_le_min (T : R -> R -> R) := forall a b, unit a -> unit b -> T a b <= Rmin a b.

Definition S_range (S : R -> R -> R) := forall a b, unit a -> unit b -> unit (S a b).
Definition S_comm (S : R -> R -> R) := forall a b, unit a -> unit b -> S a b = S b a.
Definition S_mono (S : R -> R -> R) := forall a b c, unit a -> unit b -> unit c -> b <= c -> S a b <= S a c.
Definition S_assoc (S : R -> R -> R) := forall a b c, unit a -> unit b -> unit c -> S (S a b) c = S a (S b c).
Definition S_id0 (S : R -> R -> R) := forall a, unit a -> S a 0 = a.
Definition S_ann1 (S : R -> R -> R) := forall a, unit a -> S a 1 = 1.
Definition S_ge_max (S : R -> R -> R) := forall a b, unit a -> unit b -> Rmax a b <= S a b.

Definition tnorm_laws (T : R -> R -> R) :=
  T_range T /\ T_comm T /\ T_mono T /\ T_assoc T /\ T_id1 T /\ T_ann0 T /\ T_le_min T.
Definition snorm_laws (S : R -> R -> R) :=
  S_range S /\ S_comm S /\ S_mono S /\ S_assoc S /\ S_id0 S /\ S_ann1 S /\ S_ge_max S.

(* De Morgan duality w.r.t. the standard negation 1 - x, on the unit square *)
Definition dual (S T : R -> R -> R) := forall a b, unit a -> unit b -> S a b = 1 - T (1 - a) (1 - b).

Ltac unlaws := unfold tnorm_laws, snorm_laws, T_range, T_comm, T_mono, T_assoc, T_id1, T_ann0, T_le_min,
  S_range, S_comm, S_mono, S_assoc, S_id0, S_ann1, S_ge_max, dual in *.

(* ------------------------------------------------------------------------------------------------ *)
(* 1. Generic consequences                                                                          *)

Lemma unit_0 : unit 0. Proof. unfold unit; lra. Qed.
Lemma unit_1 : unit 1. Proof. unfold unit; lra. Qed.
Lemma unit_neg x : unit x -> unit (1 - x). Proof. unfold unit; lra. Qed.

(* transport along pointwise equality (no functional extensionality needed) *)
Lemma tnorm_laws_ext (T T' : R -> R -> R) :
  (forall a b, T a b = T' a b) -> tnorm_laws T -> tnorm_laws T'.
Proof.
  intros E (Hr & Hc & Hm & Ha & Hi & Hz & Hl). unlaws. refine (conj _ (conj _ (conj _ (conj _ (conj _ (conj _ _)))))).
  - intros a b Ua Ub. rewrite <- E. apply (Hr a b Ua Ub).
  - intros a b Ua Ub. rewrite <- !E. apply (Hc a b Ua Ub).
  - intros a b c Ua Ub Uc Hbc. rewrite <- !E. apply (Hm a b c Ua Ub Uc Hbc).
  - intros a b c Ua Ub Uc. rewrite <- !E. apply (Ha a b c Ua Ub Uc).
  - intros a Ua. rewrite <- E. apply (Hi a Ua).
  - intros a Ua. rewrite <- E. apply (Hz a Ua).
  - intros a b Ua Ub. rewrite <- E. apply (Hl a b Ua Ub).
Qed.

Lemma snorm_laws_ext (S S' : R -> R -> R) :
  (forall a b, S a b = S' a b) -> snorm_laws S -> snorm_laws S'.
Proof.
  intros E (Hr & Hc & Hm & Ha & Hi & Hz & Hl). unlaws. refine (conj _ (conj _ (conj _ (conj _ (conj _ (conj _ _)))))).
  - intros a b Ua Ub. rewrite <- E. apply (Hr a b Ua Ub).
  - intros a b Ua Ub. rewrite <- !E. apply (Hc a b Ua Ub).
  - intros a b c Ua Ub Uc Hbc. rewrite <- !E. apply (Hm a b c Ua Ub Uc Hbc).
  - intros a b c Ua Ub Uc. rewrite <- !E. apply (Ha a b c Ua Ub Uc).
  - intros a Ua. rewrite <- E. apply (Hi a Ua).
  - intros a Ua. rewrite <- E. apply (Hz a Ua).
  - intros a b Ua Ub. rewrite <- E. apply (Hl a b Ua Ub).
Qed.

(* the same, when the two functions are only known to agree on the unit square *)
Lemma snorm_laws_ext_unit (S S' : R -> R -> R) :
  (forall a b, unit a -> unit b -> S a b = S' a b) -> snorm_laws S -> snorm_laws S'.
Proof.
  intros E (Hr & Hc & Hm & Ha & Hi & Hz & Hl). unlaws. refine (conj _ (conj _ (conj _ (conj _ (conj _ (conj _ _)))))).
  - intros a b Ua Ub. rewrite <- (E a b Ua Ub). apply (Hr a b Ua Ub).
  - intros a b Ua Ub. rewrite <- (E a b Ua Ub), <- (E b a Ub Ua). apply (Hc a b Ua Ub).
  - intros a b c Ua Ub Uc Hbc. rewrite <- (E a b Ua Ub), <- (E a c Ua Uc). apply (Hm a b c Ua Ub Uc Hbc).
  - intros a b c Ua Ub Uc.
    rewrite <- (E a b Ua Ub), <- (E b c Ub Uc).
    rewrite <- (E (S a b) c (Hr a b Ua Ub) Uc), <- (E a (S b c) Ua (Hr b c Ub Uc)).
    apply (Ha a b c Ua Ub Uc).
  - intros a Ua. rewrite <- (E a 0 Ua unit_0). apply (Hi a Ua).
  - intros a Ua. rewrite <- (E a 1 Ua unit_1). apply (Hz a Ua).
  - intros a b Ua Ub. rewrite <- (E a b Ua Ub). apply (Hl a b Ua Ub).
Qed.

Lemma dual_ext (S S' T T' : R -> R -> R) :
  (forall a b, S a b = S' a b) -> (forall a b, T a b = T' a b) -> dual S T -> dual S' T'.
Proof. intros ES ET D a b Ua Ub. rewrite <- ES, <- ET. exact (D a b Ua Ub). Qed.

(* monotone in the first argument, and jointly *)
Lemma T_mono_l T : T_comm T -> T_mono T ->
  forall a b c, unit a -> unit b -> unit c -> a <= b -> T a c <= T b c.
Proof.
  intros Hc Hm a b c Ua Ub Uc Hab. rewrite (Hc a c Ua Uc), (Hc b c Ub Uc). apply (Hm c a b Uc Ua Ub Hab).
Qed.
Lemma T_mono2 T : T_comm T -> T_mono T ->
  forall a a' b b', unit a -> unit a' -> unit b -> unit b' -> a <= a' -> b <= b' -> T a b <= T a' b'.
Proof.
  intros Hc Hm a a' b b' Ua Ua' Ub Ub' Haa Hbb.
  apply Rle_trans with (T a b'); [apply (Hm a b b' Ua Ub Ub' Hbb) | apply (T_mono_l T Hc Hm a a' b' Ua Ua' Ub' Haa)].
Qed.
Lemma S_mono_l S : S_comm S -> S_mono S ->
  forall a b c, unit a -> unit b -> unit c -> a <= b -> S a c <= S b c.
Proof. exact (T_mono_l S). Qed.
Lemma S_mono2 S : S_comm S -> S_mono S ->
  forall a a' b b', unit a -> unit a' -> unit b -> unit b' -> a <= a' -> b <= b' -> S a b <= S a' b'.
Proof. exact (T_mono2 S). Qed.

Lemma tnorm_mono2 T : tnorm_laws T ->
  forall a a' b b', unit a -> unit a' -> unit b -> unit b' -> a <= a' -> b <= b' -> T a b <= T a' b'.
Proof. intros (_ & Hc & Hm & _). exact (T_mono2 T Hc Hm). Qed.
Lemma snorm_mono2 S : snorm_laws S ->
  forall a a' b b', unit a -> unit a' -> unit b -> unit b' -> a <= a' -> b <= b' -> S a b <= S a' b'.
Proof. intros (_ & Hc & Hm & _). exact (S_mono2 S Hc Hm). Qed.
(* left-handed unit / annihilator *)
Lemma tnorm_id1_l T : tnorm_laws T -> forall a, unit a -> T 1 a = a.
Proof. intros (_ & Hc & _ & _ & Hi & _) a Ua. rewrite (Hc 1 a unit_1 Ua). exact (Hi a Ua). Qed.
Lemma tnorm_ann0_l T : tnorm_laws T -> forall a, unit a -> T 0 a = 0.
Proof. intros (_ & Hc & _ & _ & _ & Hz & _) a Ua. rewrite (Hc 0 a unit_0 Ua). exact (Hz a Ua). Qed.
Lemma snorm_id0_l S : snorm_laws S -> forall a, unit a -> S 0 a = a.
Proof. intros (_ & Hc & _ & _ & Hi & _) a Ua. rewrite (Hc 0 a unit_0 Ua). exact (Hi a Ua). Qed.
Lemma snorm_ann1_l S : snorm_laws S -> forall a, unit a -> S 1 a = 1.
Proof. intros (_ & Hc & _ & _ & _ & Hz & _) a Ua. rewrite (Hc 1 a unit_1 Ua). exact (Hz a Ua). Qed.

(* The S-norm laws of the De Morgan dual of a T-norm *)
Lemma dual_laws S T : dual S T -> tnorm_laws T -> snorm_laws S.
Proof.
  intros D (Hr & Hc & Hm & Ha & Hi & Hz & Hl).
  assert (Sr : S_range S).
  { intros a b Ua Ub. rewrite (D a b Ua Ub).
    apply unit_neg. apply Hr; apply unit_neg; assumption. }
  unfold snorm_laws. split; [exact Sr|]. refine (conj _ (conj _ (conj _ (conj _ (conj _ _))))).
  - (* comm *) intros a b Ua Ub. rewrite (D a b Ua Ub), (D b a Ub Ua).
    rewrite (Hc (1 - a) (1 - b) (unit_neg a Ua) (unit_neg b Ub)). reflexivity.
  - (* mono *) intros a b c Ua Ub Uc Hbc. rewrite (D a b Ua Ub), (D a c Ua Uc).
    assert (Hcb : 1 - c <= 1 - b) by lra.
    pose proof (Hm (1 - a) (1 - c) (1 - b) (unit_neg a Ua) (unit_neg c Uc) (unit_neg b Ub) Hcb) as Hle. lra.
  - (* assoc *) intros a b c Ua Ub Uc.
    rewrite (D (S a b) c (Sr a b Ua Ub) Uc), (D a (S b c) Ua (Sr b c Ub Uc)).
    rewrite (D a b Ua Ub), (D b c Ub Uc).
    replace (1 - (1 - T (1 - a) (1 - b))) with (T (1 - a) (1 - b)) by ring.
    replace (1 - (1 - T (1 - b) (1 - c))) with (T (1 - b) (1 - c)) by ring.
    rewrite (Ha (1 - a) (1 - b) (1 - c) (unit_neg a Ua) (unit_neg b Ub) (unit_neg c Uc)). reflexivity.
  - (* id0 *) intros a Ua. rewrite (D a 0 Ua unit_0).
    replace (1 - 0) with 1 by ring. rewrite (Hi (1 - a) (unit_neg a Ua)). ring.
  - (* ann1 *) intros a Ua. rewrite (D a 1 Ua unit_1).
    replace (1 - 1) with 0 by ring. rewrite (Hz (1 - a) (unit_neg a Ua)). ring.
  - (* ge_max *) intros a b Ua Ub. rewrite (D a b Ua Ub).
    pose proof (Hl (1 - a) (1 - b) (unit_neg a Ua) (unit_neg b Ub)) as Hle.
    revert Hle. unfold Rmin, Rmax. destruct (Rle_dec (1 - a) (1 - b)); destruct (Rle_dec a b); lra.
Qed.

(* ------------------------------------------------------------------------------------------------ *)
(* 2. Division helpers                                                                              *)

Lemma div_mul_cancel x d : d <> 0 -> x / d * d = x.
Proof. intros Hd. field. exact Hd. Qed.
Lemma div_ge0 x d : 0 <= x -> 0 < d -> 0 <= x / d.
Proof. intros Hx Hd. apply Rmult_le_pos; [exact Hx | left; apply Rinv_0_lt_compat; exact Hd]. Qed.
Lemma div_le_r x y d : 0 < d -> x <= y * d -> x / d <= y.
Proof.
  intros Hd Hxy. apply Rmult_le_reg_r with d; [exact Hd|].
  rewrite div_mul_cancel by lra. exact Hxy.
Qed.
Lemma div_le_div x y d e : 0 < d -> 0 < e -> x * e <= y * d -> x / d <= y / e.
Proof.
  intros Hd He Hxy. apply div_le_r; [exact Hd|].
  apply Rmult_le_reg_r with e; [exact He|].
  replace (y / e * d * e) with (y * d) by (field; lra). exact Hxy.
Qed.

(* ------------------------------------------------------------------------------------------------ *)
(* 3. T-norms                                                                                       *)

(* ---- AlgebraicProduct *)
Lemma AP_range : T_range AlgebraicProduct. Proof. unfold T_range. crush. Qed.
Lemma AP_comm : T_comm AlgebraicProduct. Proof. unfold T_comm. crush. Qed.
Lemma AP_mono : T_mono AlgebraicProduct. Proof. unfold T_mono. crush. Qed.
Lemma AP_assoc : T_assoc AlgebraicProduct. Proof. unfold T_assoc. crush. Qed.
Lemma AP_id1 : T_id1 AlgebraicProduct. Proof. unfold T_id1. crush. Qed.
Lemma AP_ann0 : T_ann0 AlgebraicProduct. Proof. unfold T_ann0. crush. Qed.
Lemma AP_le_min : T_le_min AlgebraicProduct. Proof. unfold T_le_min. crush. Qed.
Theorem AlgebraicProduct_laws : tnorm_laws AlgebraicProduct.
Proof. exact (conj AP_range (conj AP_comm (conj AP_mono (conj AP_assoc (conj AP_id1 (conj AP_ann0 AP_le_min)))))). Qed.

(* ---- BoundedDifference *)
Lemma BD_range : T_range BoundedDifference. Proof. unfold T_range. crush. Qed.
Lemma BD_comm : T_comm BoundedDifference. Proof. unfold T_comm. crush. Qed.
Lemma BD_mono : T_mono BoundedDifference. Proof. unfold T_mono. crush. Qed.
Lemma BD_assoc : T_assoc BoundedDifference. Proof. unfold T_assoc. crush. Qed.
Lemma BD_id1 : T_id1 BoundedDifference. Proof. unfold T_id1. crush. Qed.
Lemma BD_ann0 : T_ann0 BoundedDifference. Proof. unfold T_ann0. crush. Qed.
Lemma BD_le_min : T_le_min BoundedDifference. Proof. unfold T_le_min. crush. Qed.
Theorem BoundedDifference_laws : tnorm_laws BoundedDifference.
Proof. exact (conj BD_range (conj BD_comm (conj BD_mono (conj BD_assoc (conj BD_id1 (conj BD_ann0 BD_le_min)))))). Qed.

(* ---- DrasticProduct *)
Lemma DP_range : T_range DrasticProduct. Proof. unfold T_range. crush. Qed.
Lemma DP_comm : T_comm DrasticProduct. Proof. unfold T_comm. crush. Qed.
Lemma DP_mono : T_mono DrasticProduct. Proof. unfold T_mono. crush. Qed.
Lemma DP_assoc : T_assoc DrasticProduct. Proof. unfold T_assoc. crush. Qed.
Lemma DP_id1 : T_id1 DrasticProduct. Proof. unfold T_id1. crush. Qed.
Lemma DP_ann0 : T_ann0 DrasticProduct. Proof. unfold T_ann0. crush. Qed.
Lemma DP_le_min : T_le_min DrasticProduct. Proof. unfold T_le_min. crush. Qed.
Theorem DrasticProduct_laws : tnorm_laws DrasticProduct.
Proof. exact (conj DP_range (conj DP_comm (conj DP_mono (conj DP_assoc (conj DP_id1 (conj DP_ann0 DP_le_min)))))). Qed.

(* ---- Minimum *)
Lemma Min_range : T_range Minimum. Proof. unfold T_range. crush. Qed.
Lemma Min_comm : T_comm Minimum. Proof. unfold T_comm. crush. Qed.
Lemma Min_mono : T_mono Minimum. Proof. unfold T_mono. crush. Qed.
Lemma Min_assoc : T_assoc Minimum. Proof. unfold T_assoc. crush. Qed.
Lemma Min_id1 : T_id1 Minimum. Proof. unfold T_id1. crush. Qed.
Lemma Min_ann0 : T_ann0 Minimum. Proof. unfold T_ann0. crush. Qed.
Lemma Min_le_min : T_le_min Minimum. Proof. unfold T_le_min. crush. Qed.
Theorem Minimum_laws : tnorm_laws Minimum.
Proof. exact (conj Min_range (conj Min_comm (conj Min_mono (conj Min_assoc (conj Min_id1 (conj Min_ann0 Min_le_min)))))). Qed.

(* ---- NilpotentMinimum *)
Lemma NM_range : T_range NilpotentMinimum. Proof. unfold T_range. crush. Qed.
Lemma NM_comm : T_comm NilpotentMinimum. Proof. unfold T_comm. crush. Qed.
Lemma NM_mono : T_mono NilpotentMinimum. Proof. unfold T_mono. crush. Qed.
Lemma NM_assoc : T_assoc NilpotentMinimum. Proof. unfold T_assoc. crush. Qed.
Lemma NM_id1 : T_id1 NilpotentMinimum. Proof. unfold T_id1. crush. Qed.
Lemma NM_ann0 : T_ann0 NilpotentMinimum. Proof. unfold T_ann0. crush. Qed.
Lemma NM_le_min : T_le_min NilpotentMinimum. Proof. unfold T_le_min. crush. Qed.
Theorem NilpotentMinimum_laws : tnorm_laws NilpotentMinimum.
Proof. exact (conj NM_range (conj NM_comm (conj NM_mono (conj NM_assoc (conj NM_id1 (conj NM_ann0 NM_le_min)))))). Qed.

(* ---- EinsteinProduct: a b / (2 - (a + b - a b)), denominator = 1 + (1-a)(1-b) >= 1 *)
Lemma EP_den a b : unit a -> unit b -> 1 <= 2 - (a + b - a * b).
Proof. unfold unit. intros Ua Ub. nra. Qed.

Lemma EP_range : T_range EinsteinProduct.
Proof.
  intros a b Ua Ub. pose proof (EP_den a b Ua Ub) as Hd. unfold EinsteinProduct, unit in *. split.
  - apply div_ge0; [nra | lra].
  - apply div_le_r; [lra | nra].
Qed.
Lemma EP_comm : T_comm EinsteinProduct.
Proof. intros a b _ _. unfold EinsteinProduct. f_equal; ring. Qed.
Lemma EP_mono : T_mono EinsteinProduct.
Proof.
  intros a b c Ua Ub Uc Hbc.
  pose proof (EP_den a b Ua Ub) as Hd1. pose proof (EP_den a c Ua Uc) as Hd2.
  unfold EinsteinProduct, unit in *. apply div_le_div; [lra | lra |].
  (* a b (2-a-c+ac) <= a c (2-a-b+ab)  <=>  0 <= a (2-a) (c-b) *)
  assert (H0 : 0 <= a * (2 - a) * (c - b)) by (apply Rmult_le_pos; [nra | lra]).
  nra.
Qed.
Lemma EP_id1 : T_id1 EinsteinProduct.
Proof. intros a _. unfold EinsteinProduct. field. lra. Qed.
Lemma EP_ann0 : T_ann0 EinsteinProduct.
Proof. intros a _. unfold EinsteinProduct, Rdiv. ring. Qed.
Lemma EP_le_min : T_le_min EinsteinProduct.
Proof.
  intros a b Ua Ub. pose proof (EP_den a b Ua Ub) as Hd. unfold EinsteinProduct, unit in *.
  apply Rmin_glb; (apply div_le_r; [lra | nra]).
Qed.
(* closed form of the triple product: symmetric in a, b, c *)
Lemma EP_den3 a b c : unit a -> unit b -> unit c ->
  1 <= 4 - 2 * a - 2 * b - 2 * c + a * b + a * c + b * c.
Proof.
  unfold unit. intros Ua Ub Uc.
  (* = 1 + (1-a)(1-b) + (1-a)(1-c) + (1-b)(1-c) *)
  assert (0 <= (1 - a) * (1 - b)) by (apply Rmult_le_pos; lra).
  assert (0 <= (1 - a) * (1 - c)) by (apply Rmult_le_pos; lra).
  assert (0 <= (1 - b) * (1 - c)) by (apply Rmult_le_pos; lra).
  lra.
Qed.
Lemma EP_triple_l a b c : unit a -> unit b -> unit c ->
  EinsteinProduct (EinsteinProduct a b) c = a * b * c / (4 - 2 * a - 2 * b - 2 * c + a * b + a * c + b * c).
Proof.
  intros Ua Ub Uc. pose proof (EP_den a b Ua Ub) as Hd. pose proof (EP_den3 a b c Ua Ub Uc) as Hd3.
  pose proof (EP_den (EinsteinProduct a b) c (EP_range a b Ua Ub) Uc) as Hd'.
  unfold EinsteinProduct in *.
  set (d := 2 - (a + b - a * b)) in *.
  assert (Ed : 2 - (a * b / d + c - a * b / d * c) = (4 - 2 * a - 2 * b - 2 * c + a * b + a * c + b * c) / d).
  { unfold d. field. fold d. lra. }
  rewrite Ed. field. split; [lra | fold d; lra].
Qed.
Lemma EP_assoc : T_assoc EinsteinProduct.
Proof.
  intros a b c Ua Ub Uc.
  rewrite (EP_triple_l a b c Ua Ub Uc).
  rewrite (EP_comm a (EinsteinProduct b c) Ua (EP_range b c Ub Uc)).
  rewrite (EP_triple_l b c a Ub Uc Ua).
  f_equal; ring.
Qed.
Theorem EinsteinProduct_laws : tnorm_laws EinsteinProduct.
Proof. exact (conj EP_range (conj EP_comm (conj EP_mono (conj EP_assoc (conj EP_id1 (conj EP_ann0 EP_le_min)))))). Qed.

(* ---- HamacherProduct: 0 if a + b = 0, else a b / (a + b - a b) *)
Lemma HP_den a b : unit a -> unit b -> a + b <> 0 -> 0 < a + b - a * b.
Proof.
  unfold unit. intros Ua Ub Hab.
  destruct (Req_dec a 0) as [Ea | Na].
  - subst a. lra.
  - assert (0 <= b * (1 - a)) by (apply Rmult_le_pos; lra). lra.
Qed.
Lemma HP_0_l y : HamacherProduct 0 y = 0.
Proof. unfold HamacherProduct. destruct (Req_EM_T (0 + y) 0); [reflexivity | unfold Rdiv; ring]. Qed.
Lemma HP_0_r x : HamacherProduct x 0 = 0.
Proof. unfold HamacherProduct. destruct (Req_EM_T (x + 0) 0); [reflexivity | unfold Rdiv; ring]. Qed.
Lemma HP_pos a b : 0 < a <= 1 -> 0 < b <= 1 ->
  HamacherProduct a b = a * b / (a + b - a * b) /\ 0 < a + b - a * b /\ 0 < HamacherProduct a b <= 1.
Proof.
  intros Pa Pb.
  assert (Hd : 0 < a + b - a * b) by (apply HP_den; unfold unit; lra).
  assert (E : HamacherProduct a b = a * b / (a + b - a * b)).
  { unfold HamacherProduct. destruct (Req_EM_T (a + b) 0); [lra | reflexivity]. }
  split; [exact E|]. split; [exact Hd|]. rewrite E. split.
  - apply Rmult_lt_0_compat; [nra | apply Rinv_0_lt_compat; exact Hd].
  - apply div_le_r; [exact Hd|].
    assert (0 <= a * (1 - b)) by (apply Rmult_le_pos; lra).
    assert (0 <= b * (1 - a)) by (apply Rmult_le_pos; lra). lra.
Qed.

Lemma HP_range : T_range HamacherProduct.
Proof.
  intros a b Ua Ub. unfold HamacherProduct. destruct (Req_EM_T (a + b) 0) as [E | N].
  - unfold unit; lra.
  - pose proof (HP_den a b Ua Ub N) as Hd. unfold unit in *. split.
    + apply div_ge0; [nra | exact Hd].
    + apply div_le_r; [exact Hd|].
      assert (0 <= a * (1 - b)) by (apply Rmult_le_pos; lra).
      assert (0 <= b * (1 - a)) by (apply Rmult_le_pos; lra). lra.
Qed.
Lemma HP_comm : T_comm HamacherProduct.
Proof.
  intros a b _ _. unfold HamacherProduct.
  destruct (Req_EM_T (a + b) 0) as [E | N]; destruct (Req_EM_T (b + a) 0) as [E' | N']; try lra.
  f_equal; ring.
Qed.
Lemma HP_mono : T_mono HamacherProduct.
Proof.
  intros a b c Ua Ub Uc Hbc.
  pose proof (HP_range a c Ua Uc) as Hr. unfold HamacherProduct in *.
  destruct (Req_EM_T (a + b) 0) as [E | N].
  - unfold unit in Hr; lra.
  - destruct (Req_EM_T (a + c) 0) as [E' | N']; [unfold unit in *; lra|].
    pose proof (HP_den a b Ua Ub N) as Hd1. pose proof (HP_den a c Ua Uc N') as Hd2.
    unfold unit in *. apply div_le_div; [exact Hd1 | exact Hd2 |].
    (* a b (a+c-ac) <= a c (a+b-ab)  <=>  a^2 b <= a^2 c *)
    assert (H0 : 0 <= a * a * (c - b)) by (apply Rmult_le_pos; [nra | lra]).
    nra.
Qed.
Lemma HP_id1 : T_id1 HamacherProduct.
Proof.
  intros a Ua. unfold HamacherProduct, unit in *.
  destruct (Req_EM_T (a + 1) 0) as [E | N]; [lra|]. field. lra.
Qed.
Lemma HP_ann0 : T_ann0 HamacherProduct.
Proof. intros a _. apply HP_0_r. Qed.
Lemma HP_le_min : T_le_min HamacherProduct.
Proof.
  intros a b Ua Ub. unfold HamacherProduct.
  destruct (Req_EM_T (a + b) 0) as [E | N].
  - unfold unit in *. apply Rmin_glb; lra.
  - pose proof (HP_den a b Ua Ub N) as Hd. unfold unit in *.
    apply Rmin_glb; apply div_le_r; try exact Hd.
    + (* a b <= a (a+b-ab) <=> 0 <= a * a * (1-b) *)
      assert (0 <= a * a * (1 - b)) by (apply Rmult_le_pos; [nra | lra]). nra.
    + assert (0 <= b * b * (1 - a)) by (apply Rmult_le_pos; [nra | lra]). nra.
Qed.
Lemma HP_triple_l a b c : 0 < a <= 1 -> 0 < b <= 1 -> 0 < c <= 1 ->
  HamacherProduct (HamacherProduct a b) c = a * b * c / (a * b + a * c + b * c - 2 * a * b * c).
Proof.
  intros Pa Pb Pc.
  destruct (HP_pos a b Pa Pb) as (E & Hd & Px).
  destruct (HP_pos (HamacherProduct a b) c Px Pc) as (E' & Hd' & _).
  rewrite E'. rewrite E in *.
  set (d := a + b - a * b) in *.
  assert (Ed : a * b / d + c - a * b / d * c = (a * b + a * c + b * c - 2 * a * b * c) / d).
  { unfold d. field. fold d. lra. }
  rewrite Ed in *.
  assert (Hn : 0 < a * b + a * c + b * c - 2 * a * b * c).
  { replace (a * b + a * c + b * c - 2 * a * b * c)
      with ((a * b + a * c + b * c - 2 * a * b * c) / d * d) by (field; lra).
    apply Rmult_lt_0_compat; assumption. }
  field. repeat split; lra.
Qed.
Lemma HP_assoc : T_assoc HamacherProduct.
Proof.
  intros a b c Ua Ub Uc.
  destruct (Req_dec a 0) as [Ea | Na]; [subst a; repeat (rewrite HP_0_l || rewrite HP_0_r); reflexivity|].
  destruct (Req_dec b 0) as [Eb | Nb]; [subst b; repeat (rewrite HP_0_l || rewrite HP_0_r); reflexivity|].
  destruct (Req_dec c 0) as [Ec | Nc]; [subst c; repeat (rewrite HP_0_l || rewrite HP_0_r); reflexivity|].
  assert (Pa : 0 < a <= 1) by (unfold unit in *; lra).
  assert (Pb : 0 < b <= 1) by (unfold unit in *; lra).
  assert (Pc : 0 < c <= 1) by (unfold unit in *; lra).
  rewrite (HP_triple_l a b c Pa Pb Pc).
  rewrite (HP_comm a (HamacherProduct b c) Ua (HP_range b c Ub Uc)).
  rewrite (HP_triple_l b c a Pb Pc Pa).
  f_equal; ring.
Qed.
Theorem HamacherProduct_laws : tnorm_laws HamacherProduct.
Proof. exact (conj HP_range (conj HP_comm (conj HP_mono (conj HP_assoc (conj HP_id1 (conj HP_ann0 HP_le_min)))))). Qed.

(* ------------------------------------------------------------------------------------------------ *)
(* 4. Duality S a b = 1 - T (1-a) (1-b) for the seven same-family pairs                             *)

Lemma dual_Algebraic : dual AlgebraicSum AlgebraicProduct.
Proof. intros a b _ _. unfold AlgebraicSum, AlgebraicProduct. ring. Qed.
Lemma dual_Bounded : dual BoundedSum BoundedDifference.
Proof. unfold dual. crush. Qed.
Lemma dual_Drastic : dual DrasticSum DrasticProduct.
Proof. unfold dual. crush. Qed.
Lemma dual_Einstein : dual EinsteinSum EinsteinProduct.
Proof.
  intros a b Ua Ub. pose proof (EP_den (1 - a) (1 - b) (unit_neg a Ua) (unit_neg b Ub)) as Hd.
  unfold EinsteinSum, EinsteinProduct, unit in *.
  assert (Hd' : 0 < 1 + a * b) by nra.
  field. repeat split; lra.
Qed.
Lemma dual_Hamacher : dual HamacherSum HamacherProduct.
Proof.
  intros a b Ua Ub. unfold HamacherSum, HamacherProduct.
  destruct (Req_EM_T (a * b) 1) as [E | N]; destruct (Req_EM_T (1 - a + (1 - b)) 0) as [E' | N'].
  - ring.
  - exfalso. unfold unit in *. apply N'. nra.
  - exfalso. unfold unit in *. apply N. nra.
  - pose proof (HP_den (1 - a) (1 - b) (unit_neg a Ua) (unit_neg b Ub) N') as Hd.
    assert (Hd' : 1 - a * b <> 0) by lra.
    field. repeat split; lra.
Qed.
Lemma dual_MaxMin : dual Maximum Minimum.
Proof. unfold dual. crush. Qed.
Lemma dual_Nilpotent : dual NilpotentMaximum NilpotentMinimum.
Proof. unfold dual. crush. Qed.

(* ------------------------------------------------------------------------------------------------ *)
(* 5. S-norms                                                                                       *)

Theorem AlgebraicSum_laws : snorm_laws AlgebraicSum.
Proof. exact (dual_laws _ _ dual_Algebraic AlgebraicProduct_laws). Qed.
Theorem BoundedSum_laws : snorm_laws BoundedSum.
Proof. exact (dual_laws _ _ dual_Bounded BoundedDifference_laws). Qed.
Theorem DrasticSum_laws : snorm_laws DrasticSum.
Proof. exact (dual_laws _ _ dual_Drastic DrasticProduct_laws). Qed.
Theorem EinsteinSum_laws : snorm_laws EinsteinSum.
Proof. exact (dual_laws _ _ dual_Einstein EinsteinProduct_laws). Qed.
Theorem HamacherSum_laws : snorm_laws HamacherSum.
Proof. exact (dual_laws _ _ dual_Hamacher HamacherProduct_laws). Qed.
Theorem Maximum_laws : snorm_laws Maximum.
Proof. exact (dual_laws _ _ dual_MaxMin Minimum_laws). Qed.
Theorem NilpotentMaximum_laws : snorm_laws NilpotentMaximum.
Proof. exact (dual_laws _ _ dual_Nilpotent NilpotentMinimum_laws). Qed.

(* NormalizedSum (a+b) / max 1 (a+b) is BoundedSum min 1 (a+b) (for all reals, in particular on [0,1]) *)
Lemma NormalizedSum_BoundedSum_all a b : NormalizedSum a b = BoundedSum a b.
Proof.
  unfold NormalizedSum, BoundedSum, Rmax, Rmin.
  destruct (Rle_dec 1 (a + b)) as [H1 | H1].
  - destruct (Req_dec (a + b) 1) as [E | N]; [rewrite E|]; field. lra.
  - field.
Qed.
Lemma NormalizedSum_BoundedSum a b : unit a -> unit b -> NormalizedSum a b = BoundedSum a b.
Proof. intros _ _. apply NormalizedSum_BoundedSum_all. Qed.
Theorem NormalizedSum_laws : snorm_laws NormalizedSum.
Proof.
  apply (snorm_laws_ext BoundedSum NormalizedSum); [|exact BoundedSum_laws].
  intros a b. symmetry. apply NormalizedSum_BoundedSum_all.
Qed.

(* individual S-norm laws, as projections of the bundles *)
Section Projections.
  Variable S : R -> R -> R.
  Hypothesis L : snorm_laws S.
  Lemma snorm_range : S_range S. Proof. exact (proj1 L). Qed.
  Lemma snorm_comm : S_comm S. Proof. exact (proj1 (proj2 L)). Qed.
  Lemma snorm_mono : S_mono S. Proof. exact (proj1 (proj2 (proj2 L))). Qed.
  Lemma snorm_assoc : S_assoc S. Proof. exact (proj1 (proj2 (proj2 (proj2 L)))). Qed.
  Lemma snorm_id0 : S_id0 S. Proof. exact (proj1 (proj2 (proj2 (proj2 (proj2 L))))). Qed.
  Lemma snorm_ann1 : S_ann1 S. Proof. exact (proj1 (proj2 (proj2 (proj2 (proj2 (proj2 L)))))). Qed.
  Lemma snorm_ge_max : S_ge_max S. Proof. exact (proj2 (proj2 (proj2 (proj2 (proj2 (proj2 L)))))). Qed.
End Projections.
Section ProjectionsT.
  Variable T : R -> R -> R.
  Hypothesis L : tnorm_laws T.
  Lemma tnorm_range : T_range T. Proof. exact (proj1 L). Qed.
  Lemma tnorm_comm : T_comm T. Proof. exact (proj1 (proj2 L)). Qed.
  Lemma tnorm_mono : T_mono T. Proof. exact (proj1 (proj2 (proj2 L))). Qed.
  Lemma tnorm_assoc : T_assoc T. Proof. exact (proj1 (proj2 (proj2 (proj2 L)))). Qed.
  Lemma tnorm_id1 : T_id1 T. Proof. exact (proj1 (proj2 (proj2 (proj2 (proj2 L))))). Qed.
  Lemma tnorm_ann0 : T_ann0 T. Proof. exact (proj1 (proj2 (proj2 (proj2 (proj2 (proj2 L)))))). Qed.
  Lemma tnorm_le_min : T_le_min T. Proof. exact (proj2 (proj2 (proj2 (proj2 (proj2 (proj2 L)))))). Qed.
End ProjectionsT.

(* direct (non-dual) proofs of the S-norm laws for the piecewise-linear / polynomial S-norms, as a cross-check
   of the duality route *)
Lemma AS_range : S_range AlgebraicSum. Proof. unfold S_range. crush. Qed.
Lemma AS_assoc : S_assoc AlgebraicSum. Proof. unfold S_assoc. crush. Qed.
Lemma AS_ge_max : S_ge_max AlgebraicSum. Proof. unfold S_ge_max. crush. Qed.
Lemma BS_assoc : S_assoc BoundedSum. Proof. unfold S_assoc. crush. Qed.
Lemma DS_assoc : S_assoc DrasticSum. Proof. unfold S_assoc. crush. Qed.
Lemma Max_assoc : S_assoc Maximum. Proof. unfold S_assoc. crush. Qed.
Lemma NMax_assoc : S_assoc NilpotentMaximum. Proof. unfold S_assoc. crush. Qed.

(* ---- UnboundedSum: plain addition; not an S-norm on [0,1] (range and annihilator fail), so only: *)
Lemma UnboundedSum_spec a b : UnboundedSum a b = a + b.
Proof. reflexivity. Qed.
Lemma US_comm_all a b : UnboundedSum a b = UnboundedSum b a.
Proof. unfold UnboundedSum. ring. Qed.
Lemma US_assoc_all a b c : UnboundedSum (UnboundedSum a b) c = UnboundedSum a (UnboundedSum b c).
Proof. unfold UnboundedSum. ring. Qed.
Lemma US_mono_all a b c : b <= c -> UnboundedSum a b <= UnboundedSum a c.
Proof. unfold UnboundedSum. lra. Qed.
Lemma US_mono2_all a a' b b' : a <= a' -> b <= b' -> UnboundedSum a b <= UnboundedSum a' b'.
Proof. unfold UnboundedSum. lra. Qed.
Lemma US_id0_all a : UnboundedSum a 0 = a.
Proof. unfold UnboundedSum. ring. Qed.
Lemma US_comm : S_comm UnboundedSum. Proof. intros a b _ _. apply US_comm_all. Qed.
Lemma US_assoc : S_assoc UnboundedSum. Proof. intros a b c _ _ _. apply US_assoc_all. Qed.
Lemma US_mono : S_mono UnboundedSum. Proof. intros a b c _ _ _ H. apply US_mono_all, H. Qed.
Lemma US_id0 : S_id0 UnboundedSum. Proof. intros a _. apply US_id0_all. Qed.
Lemma US_ge_max : S_ge_max UnboundedSum. Proof. unfold S_ge_max. crush. Qed.
Definition usum_laws (S : R -> R -> R) := S_comm S /\ S_mono S /\ S_assoc S /\ S_id0 S.
Theorem UnboundedSum_laws : usum_laws UnboundedSum.
Proof. exact (conj US_comm (conj US_mono (conj US_assoc US_id0))). Qed.
Lemma usum_laws_ext (S S' : R -> R -> R) :
  (forall a b, S a b = S' a b) -> usum_laws S -> usum_laws S'.
Proof.
  intros E (Hc & Hm & Ha & Hi). unfold usum_laws. unlaws. refine (conj _ (conj _ (conj _ _))).
  - intros a b Ua Ub. rewrite <- !E. apply (Hc a b Ua Ub).
  - intros a b c Ua Ub Uc Hbc. rewrite <- !E. apply (Hm a b c Ua Ub Uc Hbc).
  - intros a b c Ua Ub Uc. rewrite <- !E. apply (Ha a b c Ua Ub Uc).
  - intros a Ua. rewrite <- E. apply (Hi a Ua).
Qed.
(* and it really is unbounded: the range law fails *)
Lemma US_not_range : ~ S_range UnboundedSum.
Proof. intros H. specialize (H 1 1 unit_1 unit_1). unfold UnboundedSum, unit in H. lra. Qed.
Lemma US_1_1 : UnboundedSum 1 1 = 2.
Proof. unfold UnboundedSum. ring. Qed.
