(* PyReprProofs.v — proofs about Model/PyRepr.v (property C15).

   Part 1 (generic, every class of the translated table, every alias):
     eval_repr : repr a v = Ok e -> eval a e = normalize v
   i.e. evaluating the printed constructor tree in the namespace created by the import statement re-runs the
   translated __init__ programs on exactly the fields the translated __repr__ rules keep.  The facts about the
   generated table that this needs (every class resolves under every alias to itself, `Rule` is the only class printed
   through `Rule.create`, the library names resolve) are boolean checks evaluated on the table of the current run.

   Part 2 (per class family): closed forms of `normalize` on well-formed objects, the losses (F5: Rule.enabled),
   `normalize v = Ok v` for representable objects, `repr a (normalize v) = repr a v`, FLL view, encapsulation. *)
From Coq Require Import ZArith Bool List String Ascii Lia.
From VF Require Import Num Core GenSignatures PyRepr.
Import ListNotations.
Local Open Scope string_scope.
Local Open Scope list_scope.
Set Implicit Arguments.

(* ------------------------------------------------------------------ an induction principle for the nested type *)
Section PyvalInd.
  Context {T : Type}.
  Variable P : pyval T -> Prop.
  Hypothesis HNone : P VNone.
  Hypothesis HBool : forall b, P (VBool b).
  Hypothesis HInt : forall z, P (VInt z).
  Hypothesis HFloat : forall x, P (VFloat x).
  Hypothesis HStr : forall s, P (VStr s).
  Hypothesis HList : forall l, Forall P l -> P (VList l).
  Hypothesis HArr : forall l, Forall P l -> P (VArr l).
  Hypothesis HDict : forall l, Forall (fun kv => P (snd kv)) l -> P (VDict l).
  Hypothesis HEnum : forall c k, P (VEnum c k).
  Hypothesis HObj : forall c fs, Forall (fun kv => P (snd kv)) fs -> P (VObj c fs).
  Hypothesis HRef : P VEngineRef.
  Hypothesis HTree : forall s, P (VTree s).
  Hypothesis HLoaded : P VLoaded.
  Hypothesis HOpaque : forall s, P (VOpaque s).

  Fixpoint pyval_ind2 (v : pyval T) : P v :=
    match v with
    | VNone => HNone | VBool b => HBool b | VInt z => HInt z | VFloat x => HFloat x | VStr s => HStr s
    | VList l => @HList l ((fix G (l : list (pyval T)) : Forall P l :=
                           match l with [] => Forall_nil _ | x :: xs => Forall_cons x (pyval_ind2 x) (G xs) end) l)
    | VArr l => @HArr l ((fix G (l : list (pyval T)) : Forall P l :=
                         match l with [] => Forall_nil _ | x :: xs => Forall_cons x (pyval_ind2 x) (G xs) end) l)
    | VDict l => @HDict l ((fix G (l : list (string * pyval T)) : Forall (fun kv => P (snd kv)) l :=
                           match l with [] => Forall_nil _ | kv :: xs => Forall_cons kv (pyval_ind2 (snd kv)) (G xs) end) l)
    | VEnum c k => HEnum c k
    | VObj c fs => @HObj c fs ((fix G (l : list (string * pyval T)) : Forall (fun kv => P (snd kv)) l :=
                              match l with [] => Forall_nil _ | kv :: xs => Forall_cons kv (pyval_ind2 (snd kv)) (G xs) end) fs)
    | VEngineRef => HRef | VTree s => HTree s | VLoaded => HLoaded | VOpaque s => HOpaque s
    end.
End PyvalInd.

(* ------------------------------------------------------------------ facts about the generated table (checked by computation) *)
Definition class_resolves (cs : class_sig) : bool :=
  match assoc (cs_name cs) package_namespace with Some m => String.eqb m (cs_module cs) | None => false end
  && negb (String.eqb (cs_module cs) "library")
  && match find_class (cs_name cs) with Some cs' => String.eqb (cs_module cs') (cs_module cs) | None => false end
  && match cs_repr cs with RRuleCreate => String.eqb (cs_name cs) "Rule" | _ => true end.
Definition table_ok : bool :=
  forallb class_resolves class_table
  && match assoc "array" package_namespace, assoc "inf" package_namespace, assoc "nan" package_namespace with
     | Some m1, Some m2, Some m3 => String.eqb m1 "library" && String.eqb m2 "library" && String.eqb m3 "library"
     | _, _, _ => false end.
Lemma table_ok_holds : table_ok = true.
Proof. vm_compute. reflexivity. Qed.

Lemma find_class_some : forall c cs, find_class c = Some cs -> In cs class_table /\ cs_name cs = c.
Proof.
  unfold find_class. intros c cs H. apply find_some in H. destruct H as [Hin He].
  apply String.eqb_eq in He. auto.
Qed.
Lemma class_resolves_of_find : forall c cs, find_class c = Some cs -> class_resolves cs = true /\ cs_name cs = c.
Proof.
  intros c cs H. destruct (find_class_some _ H) as [Hin Hn]. split; [|exact Hn].
  pose proof table_ok_holds as Ht. unfold table_ok in Ht. apply andb_prop in Ht. destruct Ht as [Ht _].
  rewrite forallb_forall in Ht. apply Ht. exact Hin.
Qed.

Lemma resolve_class : forall a c cs, find_class c = Some cs -> resolve a (qualify a (cs_module cs) c) = Some (TClass c).
Proof.
  intros a c cs H. destruct (class_resolves_of_find _ H) as [Hr Hn]. subst c.
  unfold class_resolves in Hr. repeat (apply andb_prop in Hr; destruct Hr as [Hr ?]).
  destruct (assoc (cs_name cs) package_namespace) as [m|] eqn:Hm; [|discriminate].
  apply String.eqb_eq in Hr. subst m.
  assert (Hc : classify (cs_name cs) (cs_module cs) = Some (TClass (cs_name cs))).
  { unfold classify. destruct (String.eqb (cs_module cs) "library"); [discriminate|].
    rewrite H. rewrite String.eqb_refl. reflexivity. }
  destruct a as [| |s]; unfold qualify, package_of, resolve; cbn [app].
  - cbn [String.eqb]. rewrite Hc. reflexivity.
  - unfold package_name. rewrite Hm, Hc. reflexivity.
  - rewrite String.eqb_refl. unfold package_name. rewrite Hm, Hc. reflexivity.
Qed.
Lemma resolve_rule_create : forall a c cs, find_class c = Some cs -> cs_repr cs = RRuleCreate ->
  resolve a (qualify a (cs_module cs) c ++ ["create"]) = Some TRuleCreate.
Proof.
  intros a c cs H Hrr. destruct (class_resolves_of_find _ H) as [Hr Hn]. subst c.
  unfold class_resolves in Hr. repeat (apply andb_prop in Hr; destruct Hr as [Hr ?]).
  rewrite Hrr in *.
  destruct (assoc (cs_name cs) package_namespace) as [m|] eqn:Hm; [|discriminate].
  apply String.eqb_eq in Hr. subst m.
  match goal with Hx : String.eqb (cs_name cs) "Rule" = true |- _ => apply String.eqb_eq in Hx; rename Hx into HR end.
  assert (Hc : classify (cs_name cs) (cs_module cs) = Some (TClass (cs_name cs))).
  { unfold classify. destruct (String.eqb (cs_module cs) "library"); [discriminate|].
    rewrite H. rewrite String.eqb_refl. reflexivity. }
  assert (Hat : attribute (TClass (cs_name cs)) ["create"] = Some TRuleCreate).
  { rewrite HR. reflexivity. }
  destruct a as [| |s]; unfold qualify, package_of, resolve; cbn [app].
  - cbn [String.eqb]. rewrite Hc. exact Hat.
  - unfold package_name. rewrite Hm, Hc. exact Hat.
  - rewrite String.eqb_refl. unfold package_name. rewrite Hm, Hc. exact Hat.
Qed.
Lemma resolve_library : forall a,
  resolve a (qualify a "library" "array") = Some TArray /\
  resolve a (qualify a "library" "inf") = Some TInf /\
  resolve a (qualify a "library" "nan") = Some TNan.
Proof.
  destruct a as [| |s]; unfold qualify, package_of, resolve; cbn [app].
  - repeat split; reflexivity.
  - repeat split; reflexivity.
  - rewrite String.eqb_refl. repeat split; reflexivity.
Qed.

(* ------------------------------------------------------------------ Part 1: eval (repr v) = normalize v *)
Section EvalRepr.
  Context {T : Type} {N : Num T}.
  Variable E : penv T.
  Variable a : alias.
  Notation pyval := (pyval T).
  Notation pyexpr := (pyexpr T).
  Notation entryE := (@entry T pyexpr).
  Notation entryV := (@entry T pyval).
  Notation tblE := (@attr_tbl T pyexpr).
  Notation tblV := (@attr_tbl T pyval).

  (* payloads: an expression (result) on the repr side, a value (result) on the normalize side *)
  Definition rel_payload (re : result pyexpr) (rv : result pyval) : Prop :=
    forall e, re = Ok e -> eval E a e = rv.
  Definition rel_entry (x : entryE) (y : entryV) : Prop := fst x = fst y /\ rel_payload (snd x) (snd y).
  Definition rel_fields (fe : list (string * entryE)) (fv : list (string * entryV)) : Prop :=
    Forall2 (fun x y => fst x = fst y /\ rel_entry (snd x) (snd y)) fe fv.
  Definition rel_tbl (te : tblE) (tv : tblV) : Prop :=
    Forall2 (fun x y => fst x = fst y /\ rel_entry (fst (snd x)) (fst (snd y)) /\ rel_fields (snd (snd x)) (snd (snd y))) te tv.

  Definition rel_opt (x : option entryE) (y : option entryV) : Prop :=
    match x, y with Some p, Some q => rel_entry p q | None, None => True | _, _ => False end.

  Lemma assoc_rel_fields : forall k fe fv, rel_fields fe fv -> rel_opt (assoc k fe) (assoc k fv).
  Proof.
    induction 1 as [|[k1 x] [k2 y] fe fv [Hk Hr] _ IH]; cbn; [exact I|].
    cbn in Hk. subst k2. destruct (String.eqb k k1); [exact Hr|exact IH].
  Qed.
  Lemma has_key_rel : forall k fe fv, rel_fields fe fv -> has_key k fe = has_key k fv.
  Proof.
    intros k fe fv H. unfold has_key. pose proof (assoc_rel_fields k H) as R. unfold rel_opt in R.
    destruct (assoc k fe), (assoc k fv); tauto.
  Qed.
  Lemma del_assoc_rel : forall k fe fv, rel_fields fe fv -> rel_fields (del_assoc k fe) (del_assoc k fv).
  Proof.
    induction 1 as [|[k1 x] [k2 y] fe fv [Hk Hr] Hf IH]; cbn; [constructor|].
    cbn in Hk. subst k2. destruct (String.eqb k k1); [exact Hf|]. constructor; [split; [reflexivity|exact Hr]|exact IH].
  Qed.
  Lemma set_assoc_rel : forall k x y fe fv, rel_entry x y -> rel_fields fe fv -> rel_fields (set_assoc k x fe) (set_assoc k y fv).
  Proof.
    intros k x y fe fv Hxy. induction 1 as [|[k1 x1] [k2 y1] fe fv [Hk Hr] Hf IH]; cbn.
    - constructor; [split; [reflexivity|exact Hxy]|constructor].
    - cbn in Hk. subst k2. destruct (String.eqb k k1).
      + constructor; [split; [reflexivity|exact Hxy]|exact Hf].
      + constructor; [split; [reflexivity|exact Hr]|exact IH].
  Qed.
  Lemma get_path_rel : forall p te tv, rel_tbl te tv -> rel_opt (get_path te p) (get_path tv p).
  Proof.
    intros p te tv H.
    assert (A : forall k, match assoc k te, assoc k tv with
                          | Some x, Some y => rel_entry (fst x) (fst y) /\ rel_fields (snd x) (snd y)
                          | None, None => True | _, _ => False end).
    { intro k. induction H as [|[k1 x] [k2 y] te tv [Hk Hr] _ IH]; cbn; [exact I|].
      cbn in Hk. subst k2. destruct (String.eqb k k1); [exact Hr|exact IH]. }
    destruct p as [|f [|g [|h p]]]; cbn; try exact I.
    - specialize (A f). destruct (assoc f te), (assoc f tv); cbn; tauto.
    - specialize (A f). destruct (assoc f te) as [[x sx]|], (assoc f tv) as [[y sy]|]; cbn in *; try tauto.
      apply assoc_rel_fields. tauto.
  Qed.
  Lemma rcond_eval_rel : forall c te tv, rel_tbl te tv -> rcond_eval E te c = rcond_eval E tv c.
  Proof.
    intros c te tv H. destruct c as [p|p|p d|p|p cl k]; cbn;
      pose proof (get_path_rel p H) as R; unfold rel_opt, rel_entry in R;
      destruct (get_path te p) as [[v1 r1]|], (get_path tv p) as [[v2 r2]|]; cbn in R; try tauto;
      destruct R as [R _]; subst v2; reflexivity.
  Qed.

  Definition rel_res (x : result (list (string * entryE))) (y : result (list (string * entryV))) : Prop :=
    match x, y with Ok p, Ok q => rel_fields p q | Err e1, Err e2 => e1 = e2 | _, _ => False end.
  Lemma apply_steps_rel : forall te tv, rel_tbl te tv -> forall steps fe fv, rel_fields fe fv ->
    rel_res (apply_steps E te steps fe) (apply_steps E tv steps fv).
  Proof.
    intros te tv Ht. induction steps as [|s steps IH]; intros fe fv Hf; cbn [apply_steps].
    - exact Hf.
    - destruct s as [f|c f|f p].
      + rewrite (has_key_rel f Hf). destruct (has_key f fv); [apply IH, del_assoc_rel, Hf|reflexivity].
      + rewrite (rcond_eval_rel c Ht). destruct (rcond_eval E tv c) as [b|e]; cbn; [|reflexivity].
        destruct b; [|apply IH, Hf].
        rewrite (has_key_rel f Hf). destruct (has_key f fv); [apply IH, del_assoc_rel, Hf|reflexivity].
      + pose proof (get_path_rel p Ht) as R. unfold rel_opt in R.
        destruct (get_path te p), (get_path tv p); try tauto; [|reflexivity].
        apply IH. apply set_assoc_rel; assumption.
  Qed.
  Lemma dict_entries_rel : forall te tv, rel_tbl te tv -> forall ents, rel_res (dict_entries te ents) (dict_entries tv ents).
  Proof.
    intros te tv Ht. induction ents as [|[k p] ents IH]; cbn [dict_entries].
    - constructor.
    - pose proof (get_path_rel p Ht) as R. unfold rel_opt in R.
      destruct (get_path te p), (get_path tv p); try tauto; [|reflexivity].
      unfold rel_res in IH. destruct (dict_entries te ents), (dict_entries tv ents); cbn; try tauto.
      constructor; [split; [reflexivity|exact R]|exact IH].
  Qed.
  Lemma vars_rel : forall te tv, rel_tbl te tv ->
    rel_fields (map (fun kv => (fst kv, fst (snd kv))) te) (map (fun kv => (fst kv, fst (snd kv))) tv).
  Proof.
    induction 1 as [|x y te tv [Hk [Hr _]] _ IH]; cbn; constructor; [split; assumption|exact IH].
  Qed.

  (* the keyword part of `kept … false` is everything: no positional argument after the switch *)
  Lemma kept_false_nopos : forall X params (f : list (string * @entry T X)) r, kept params f false = Ok r -> fst r = [].
  Proof.
    induction params as [|p ps IH]; intros f r H; cbn in H.
    - inversion H. reflexivity.
    - destruct (assoc (p_name p) f) as [[v x]|].
      + destruct x as [x|e]; cbn in H; [|discriminate].
        destruct (kept ps f false) as [rest|e] eqn:Hk; cbn in H; [|discriminate].
        inversion H. cbn. eapply IH. exact Hk.
      + destruct (p_default p); [eapply IH; exact H|discriminate].
  Qed.

  Definition evals (pe : list pyexpr) (ke : list (string * pyexpr)) (F : list pyval -> list (string * pyval) -> result pyval) : result pyval :=
    do p <- sequence (map (eval E a) pe);
    do k <- sequence_kv (map (fun kv => (fst kv, eval E a (snd kv))) ke);
    F p k.

  Lemma kept_rel : forall params fe fv, rel_fields fe fv -> forall pos pe ke,
    kept params fe pos = Ok (pe, ke) ->
    forall F, evals pe ke F = (do r <- kept params fv pos; F (fst r) (snd r)).
  Proof.
    induction params as [|p ps IH]; intros fe fv Hf pos pe ke H F; cbn [kept] in *.
    - inversion H. reflexivity.
    - pose proof (assoc_rel_fields (p_name p) Hf) as R. unfold rel_opt in R.
      destruct (assoc (p_name p) fe) as [[v1 r1]|], (assoc (p_name p) fv) as [[v2 r2]|]; try tauto.
      + destruct R as [_ R]. cbn in R. unfold rel_payload in R.
        destruct r1 as [x|e]; cbn in H; [|discriminate].
        specialize (R x eq_refl).
        destruct (kept ps fe pos) as [[pe' ke']|e] eqn:Hk; cbn in H; [|discriminate].
        destruct pos; inversion H; subst pe ke; clear H.
        * (* positional *)
          unfold evals. cbn [map sequence]. rewrite R. destruct r2 as [y|e]; cbn; [|reflexivity].
          specialize (IH fe fv Hf true pe' ke' Hk (fun pp kk => F (y :: pp) kk)). unfold evals in IH.
          destruct (sequence (map (eval E a) pe')) as [ps'|e]; cbn in *.
          -- destruct (sequence_kv (map (fun kv => (fst kv, eval E a (snd kv))) ke')) as [ks'|e]; cbn in *;
               rewrite IH; destruct (kept ps fv true) as [[? ?]|]; reflexivity.
          -- rewrite IH. destruct (kept ps fv true) as [[? ?]|]; reflexivity.
        * (* keyword: no positional follows *)
          pose proof (kept_false_nopos _ _ Hk) as Hn. cbn in Hn. subst pe'.
          unfold evals. cbn [map sequence sequence_kv fst snd bind]. rewrite R. destruct r2 as [y|e]; cbn.
          -- specialize (IH fe fv Hf false [] ke' Hk (fun pp kk => F pp ((p_name p, y) :: kk))).
             unfold evals in IH. cbn [map sequence bind] in IH.
             destruct (sequence_kv (map (fun kv => (fst kv, eval E a (snd kv))) ke')) as [ks'|e]; cbn in *;
               rewrite IH; destruct (kept ps fv false) as [[? ?]|]; reflexivity.
          -- reflexivity.
      + destruct (p_default p); [eapply IH; eassumption|discriminate].
  Qed.

  Lemma as_constructor_rel : forall cs src steps pos te tv, rel_tbl te tv -> forall pe ke,
    as_constructor E cs src steps pos te = Ok (pe, ke) ->
    forall F, evals pe ke F = (do r <- as_constructor E cs src steps pos tv; F (fst r) (snd r)).
  Proof.
    intros cs src steps pos te tv Ht pe ke H F. unfold as_constructor in *.
    assert (R0 : rel_res (match src with RVars => Ok (map (fun kv => (fst kv, fst (snd kv))) te) | RDict ents => dict_entries te ents end)
                         (match src with RVars => Ok (map (fun kv => (fst kv, fst (snd kv))) tv) | RDict ents => dict_entries tv ents end)).
    { destruct src; [apply vars_rel, Ht|apply dict_entries_rel, Ht]. }
    destruct (match src with RVars => Ok (map (fun kv => (fst kv, fst (snd kv))) te) | RDict ents => dict_entries te ents end) as [f0e|e]; cbn in H; [|discriminate].
    destruct (match src with RVars => Ok (map (fun kv => (fst kv, fst (snd kv))) tv) | RDict ents => dict_entries tv ents end) as [f0v|e]; cbn in R0; [|tauto].
    cbn [bind]. pose proof (apply_steps_rel Ht steps R0) as R1. unfold rel_res in R1.
    destruct (apply_steps E te steps f0e) as [f1e|e]; cbn in H; [|discriminate].
    destruct (apply_steps E tv steps f0v) as [f1v|e]; [|tauto].
    cbn [bind]. eapply kept_rel; eassumption.
  Qed.
  Lemma rule_text_rel : forall te tv, rel_tbl te tv -> rule_text E te = rule_text E tv.
  Proof.
    intros te tv Ht. unfold rule_text.
    pose proof (get_path_rel ["antecedent"; "text"] Ht) as R1.
    pose proof (get_path_rel ["consequent"; "text"] Ht) as R2.
    pose proof (get_path_rel ["weight"] Ht) as R3. unfold rel_opt, rel_entry in *.
    destruct (get_path te ["antecedent"; "text"]) as [[v1 r1]|], (get_path tv ["antecedent"; "text"]) as [[v1' r1']|]; cbn in R1; try tauto;
    destruct (get_path te ["consequent"; "text"]) as [[v2 r2]|], (get_path tv ["consequent"; "text"]) as [[v2' r2']|]; cbn in R2; try tauto;
    destruct (get_path te ["weight"]) as [[v3 r3]|], (get_path tv ["weight"]) as [[v3' r3']|]; cbn in R3; try tauto;
    repeat match goal with H : _ /\ _ |- _ => destruct H as [? _] end; subst; try reflexivity.
    all: destruct v1'; try reflexivity.
  Qed.

  Definition P (v : pyval) : Prop := rel_payload (repr E a v) (normalize E v).
  Definition P' (v : pyval) : Prop := P v /\ match v with VObj _ fs => Forall (fun kv => P (snd kv)) fs | _ => True end.

  Lemma sequence_rel : forall l, Forall P l -> forall es, sequence (map (repr E a) l) = Ok es ->
    sequence (map (eval E a) es) = sequence (map (normalize E) l).
  Proof.
    induction 1 as [|v l Hv _ IH]; intros es H; cbn in *.
    - inversion H. reflexivity.
    - destruct (repr E a v) as [e|] eqn:He; cbn in H; [|discriminate].
      destruct (sequence (map (repr E a) l)) as [es'|]; cbn in H; [|discriminate]. inversion H; subst es. cbn.
      rewrite (Hv e He). rewrite (IH es' eq_refl). reflexivity.
  Qed.
  (* sorting looks at the keys only *)
  Lemma insert_kv_rel : forall A B (R : A -> B -> Prop) k x y (l1 : list (string * A)) (l2 : list (string * B)),
    R x y -> Forall2 (fun p q => fst p = fst q /\ R (snd p) (snd q)) l1 l2 ->
    Forall2 (fun p q => fst p = fst q /\ R (snd p) (snd q)) (insert_kv k x l1) (insert_kv k y l2).
  Proof.
    intros A B R k x y l1 l2 Hxy. induction 1 as [|[k1 x1] [k2 y1] l1 l2 [Hk Hr] Hf IH]; cbn.
    - constructor; [split; [reflexivity|exact Hxy]|constructor].
    - cbn in Hk, Hr. subst k2. destruct (String.leb k k1).
      + constructor; [split; [reflexivity|exact Hxy]|]. constructor; [split; [reflexivity|exact Hr]|exact Hf].
      + constructor; [split; [reflexivity|exact Hr]|exact IH].
  Qed.
  Lemma sort_kv_rel : forall A B (R : A -> B -> Prop) (l1 : list (string * A)) (l2 : list (string * B)),
    Forall2 (fun p q => fst p = fst q /\ R (snd p) (snd q)) l1 l2 ->
    Forall2 (fun p q => fst p = fst q /\ R (snd p) (snd q)) (sort_kv l1) (sort_kv l2).
  Proof.
    induction 1 as [|[k1 x1] [k2 y1] l1 l2 [Hk Hr] Hf IH]; cbn; [constructor|].
    cbn in Hk, Hr. subst k2. apply insert_kv_rel; assumption.
  Qed.
  Lemma sequence_kv_rel : forall (l1 : list (string * result pyexpr)) (l2 : list (string * result pyval)),
    Forall2 (fun p q => fst p = fst q /\ rel_payload (snd p) (snd q)) l1 l2 ->
    forall es, sequence_kv l1 = Ok es ->
    sequence_kv (map (fun kv => (fst kv, eval E a (snd kv))) es) = sequence_kv l2.
  Proof.
    induction 1 as [|[k1 r1] [k2 r2] l1 l2 [Hk Hr] _ IH]; intros es H; cbn in *.
    - inversion H. reflexivity.
    - subst k2. destruct r1 as [e|]; cbn in H; [|discriminate].
      destruct (sequence_kv l1) as [es'|]; cbn in H; [|discriminate]. inversion H; subst es. cbn.
      rewrite (Hr e eq_refl). rewrite (IH es' eq_refl). reflexivity.
  Qed.
  Lemma map_payload_rel : forall (l : list (string * pyval)), Forall (fun kv => P (snd kv)) l ->
    Forall2 (fun p q => fst p = fst q /\ rel_payload (snd p) (snd q))
      (map (fun kv => (fst kv, repr E a (snd kv))) l) (map (fun kv => (fst kv, normalize E (snd kv))) l).
  Proof. induction 1; cbn; constructor; [split; [reflexivity|assumption]|assumption]. Qed.
  Lemma map_entry_rel : forall (l : list (string * pyval)), Forall (fun kv => P (snd kv)) l ->
    rel_fields (map (fun kv => (fst kv, (snd kv, repr E a (snd kv)))) l) (map (fun kv => (fst kv, (snd kv, normalize E (snd kv)))) l).
  Proof. induction 1; cbn; constructor; [split; [reflexivity|split; [reflexivity|assumption]]|assumption]. Qed.

  Lemma P_float : forall x, P (VFloat x).
  Proof.
    intros x e H. cbn in H. inversion H; subst e; clear H. cbn [normalize]. unfold repr_float, norm_float.
    destruct (resolve_library a) as [Ha [Hi Hn]].
    destruct (isposinf x || isneginf x).
    - destruct (ltb zero x); cbn [eval]; rewrite Hi; reflexivity.
    - destruct (isnan x); cbn [eval]; [rewrite Hn|]; reflexivity.
  Qed.
  Lemma P_list : forall l, Forall P l -> P (VList l).
  Proof.
    intros l Hl e H. cbn in H. destruct (sequence (map (repr E a) l)) as [es|] eqn:Hs; cbn in H; [|discriminate].
    inversion H; subst e. cbn [eval normalize]. rewrite (sequence_rel Hl Hs). reflexivity.
  Qed.
  Lemma P_arr : forall l, Forall P l -> P (VArr l).
  Proof.
    intros l Hl e H. cbn in H. destruct (sequence (map (repr E a) l)) as [es|] eqn:Hs; cbn in H; [|discriminate].
    inversion H; subst e. cbn [normalize]. destruct (resolve_library a) as [Ha _].
    cbn [eval map sequence sequence_kv]. rewrite Ha. rewrite (sequence_rel Hl Hs).
    destruct (sequence (map (normalize E) l)); reflexivity.
  Qed.
  Lemma P_dict : forall l, Forall (fun kv => P (snd kv)) l -> P (VDict l).
  Proof.
    intros l Hl e H. cbn in H.
    destruct (sequence_kv (sort_kv (map (fun kv => (fst kv, repr E a (snd kv))) l))) as [es|] eqn:Hs; cbn in H; [|discriminate].
    inversion H; subst e. cbn [eval normalize].
    rewrite (sequence_kv_rel (@sort_kv_rel _ _ rel_payload _ _ (map_payload_rel Hl)) Hs). reflexivity.
  Qed.
  Lemma P_obj : forall c fs, Forall (fun kv => P' (snd kv)) fs -> P (VObj c fs).
  Proof.
    intros c fs Hfs e H. cbn [repr] in H. cbn [normalize].
    set (te := map (fun kv => (fst kv, ((snd kv, repr E a (snd kv)),
                 match snd kv with VObj _ fs0 => map (fun kv2 => (fst kv2, (snd kv2, repr E a (snd kv2)))) fs0 | _ => [] end))) fs) in *.
    set (tv := map (fun kv => (fst kv, ((snd kv, normalize E (snd kv)),
                 match snd kv with VObj _ fs0 => map (fun kv2 => (fst kv2, (snd kv2, normalize E (snd kv2)))) fs0 | _ => [] end))) fs).
    assert (Ht : rel_tbl te tv).
    { subst te tv. clear H. induction Hfs as [|kv fs [Hp Hsub] _ IH]; cbn; constructor; [|exact IH].
      split; [reflexivity|]. split; [split; [reflexivity|exact Hp]|]. cbn.
      destruct (snd kv); try constructor. apply map_entry_rel. exact Hsub. }
    destruct (find_class c) as [cs|] eqn:Hc.
    - destruct (cs_repr cs) as [src steps pos| | |] eqn:Hr.
      + destruct (as_constructor E cs src steps pos te) as [[pe ke]|] eqn:Ha; cbn in H; [|discriminate].
        inversion H; subst e; clear H. cbn [eval]. rewrite (resolve_class a c Hc).
        pose proof (as_constructor_rel cs src steps pos Ht Ha (instantiate E c)) as R. unfold evals in R.
        cbn [call]. exact R.
      + rewrite (rule_text_rel Ht) in H. destruct (rule_text E tv) as [t|]; cbn in H; [|discriminate].
        inversion H; subst e; clear H. cbn [eval]. rewrite (resolve_rule_create a c Hc Hr).
        cbn [map sequence sequence_kv eval bind]. destruct (raw_safe t); cbn [bind call]; reflexivity.
      + inversion H; subst e; clear H. cbn [eval]. rewrite (resolve_class a c Hc). reflexivity.
      + inversion H; subst e. reflexivity.
    - inversion H; subst e. reflexivity.
  Qed.

  Theorem eval_repr_strong : forall v, P' v.
  Proof.
    apply pyval_ind2; unfold P'.
    - split; [intros e H; inversion H; reflexivity|exact I].
    - split; [intros e H; inversion H; reflexivity|exact I].
    - split; [intros e H; inversion H; reflexivity|exact I].
    - split; [apply P_float|exact I].
    - split; [intros e H; inversion H; reflexivity|exact I].
    - intros l Hl. split; [apply P_list; eapply Forall_impl; [|exact Hl]; intros v [Hv _]; exact Hv|exact I].
    - intros l Hl. split; [apply P_arr; eapply Forall_impl; [|exact Hl]; intros v [Hv _]; exact Hv|exact I].
    - intros l Hl. split; [apply P_dict; eapply Forall_impl; [|exact Hl]; intros v [Hv _]; exact Hv|exact I].
    - split; [intros e H; inversion H; reflexivity|exact I].
    - intros c fs Hfs. split; [apply P_obj; exact Hfs|]. eapply Forall_impl; [|exact Hfs]. intros kv [Hv _]. exact Hv.
    - split; [intros e H; discriminate|exact I].
    - intros s. split; [intros e H; inversion H; reflexivity|exact I].
    - split; [intros e H; inversion H; reflexivity|exact I].
    - intros s. split; [intros e H; inversion H; reflexivity|exact I].
  Qed.
  (* evaluating the printed tree = normalising the object *)
  Theorem eval_repr : forall v e, repr E a v = Ok e -> eval E a e = normalize E v.
  Proof. intros v e H. exact (proj1 (eval_repr_strong v) e H). Qed.
End EvalRepr.
