(* PyReprProofs.v — proofs about Model/PyRepr.v (property C15).

   Part 1 (generic, every class of the translated table, every alias):
     eval_repr : repr a v = Ok e -> eval a e = normalize v
   i.e. evaluating the printed constructor tree in the namespace created by the import statement re-runs the
   translated __init__ programs on exactly the fields the translated __repr__ rules keep.  The facts about the
   generated table that this needs (every class resolves under every alias to itself, `Rule` is the only class printed
   through `Rule.create`, the library names resolve) are boolean checks evaluated on the table of the current run.

   Part 2 (per class family): closed forms of `normalize` on well-formed objects, the losses (F5: Rule.enabled),
   `normalize v = Ok v` for representable objects, `repr a (normalize v) = repr a v`, FLL view, encapsulation. *)
From Coq Require Import ZArith Bool List String Ascii Lia.
From VF Require Import Num GenTerm Core GenSignatures PyRepr.
Import ListNotations.
Local Open Scope string_scope.
Local Open Scope list_scope.
Set Implicit Arguments.

(* ------------------------------------------------------------------ an induction principle for the nested type *)
Section PyvalInd.
  Context {T : Type}.
  Variable P : pyval T -> Prop.
  Hypothesis HNone : P VNone.
  Hypothesis HBool : forall b, P (VBool b).
  Hypothesis HInt : forall z, P (VInt z).
  Hypothesis HFloat : forall x, P (VFloat x).
  Hypothesis HStr : forall s, P (VStr s).
  Hypothesis HList : forall l, Forall P l -> P (VList l).
  Hypothesis HArr : forall l, Forall P l -> P (VArr l).
  Hypothesis HDict : forall l, Forall (fun kv => P (snd kv)) l -> P (VDict l).
  Hypothesis HEnum : forall c k, P (VEnum c k).
  Hypothesis HObj : forall c fs, Forall (fun kv => P (snd kv)) fs -> P (VObj c fs).
  Hypothesis HRef : P VEngineRef.
  Hypothesis HTree : forall s, P (VTree s).
  Hypothesis HLoaded : P VLoaded.
  Hypothesis HOpaque : forall s, P (VOpaque s).

  Fixpoint pyval_ind2 (v : pyval T) : P v :=
    match v with
    | VNone => HNone | VBool b => HBool b | VInt z => HInt z | VFloat x => HFloat x | VStr s => HStr s
    | VList l => @HList l ((fix G (l : list (pyval T)) : Forall P l :=
                           match l with [] => Forall_nil _ | x :: xs => Forall_cons x (pyval_ind2 x) (G xs) end) l)
    | VArr l => @HArr l ((fix G (l : list (pyval T)) : Forall P l :=
                         match l with [] => Forall_nil _ | x :: xs => Forall_cons x (pyval_ind2 x) (G xs) end) l)
    | VDict l => @HDict l ((fix G (l : list (string * pyval T)) : Forall (fun kv => P (snd kv)) l :=
                           match l with [] => Forall_nil _ | kv :: xs => Forall_cons kv (pyval_ind2 (snd kv)) (G xs) end) l)
    | VEnum c k => HEnum c k
    | VObj c fs => @HObj c fs ((fix G (l : list (string * pyval T)) : Forall (fun kv => P (snd kv)) l :=
                              match l with [] => Forall_nil _ | kv :: xs => Forall_cons kv (pyval_ind2 (snd kv)) (G xs) end) fs)
    | VEngineRef => HRef | VTree s => HTree s | VLoaded => HLoaded | VOpaque s => HOpaque s
    end.
End PyvalInd.

(* ------------------------------------------------------------------ facts about the generated table (checked by computation) *)
Definition class_resolves (cs : class_sig) : bool :=
  match assoc (cs_name cs) package_namespace with Some m => String.eqb m (cs_module cs) | None => false end
  && negb (String.eqb (cs_module cs) "library")
  && match find_class (cs_name cs) with Some cs' => String.eqb (cs_module cs') (cs_module cs) | None => false end
  && match cs_repr cs with RRuleCreate => String.eqb (cs_name cs) "Rule" | _ => true end.
Definition table_ok : bool :=
  forallb class_resolves class_table
  && match assoc "array" package_namespace, assoc "inf" package_namespace, assoc "nan" package_namespace with
     | Some m1, Some m2, Some m3 => String.eqb m1 "library" && String.eqb m2 "library" && String.eqb m3 "library"
     | _, _, _ => false end.
Lemma table_ok_holds : table_ok = true.
Proof. vm_compute. reflexivity. Qed.

Lemma find_class_some : forall c cs, find_class c = Some cs -> In cs class_table /\ cs_name cs = c.
Proof.
  unfold find_class. intros c cs H. apply find_some in H. destruct H as [Hin He].
  apply String.eqb_eq in He. auto.
Qed.
Lemma class_resolves_of_find : forall c cs, find_class c = Some cs -> class_resolves cs = true /\ cs_name cs = c.
Proof.
  intros c cs H. destruct (find_class_some _ H) as [Hin Hn]. split; [|exact Hn].
  pose proof table_ok_holds as Ht. unfold table_ok in Ht. apply andb_prop in Ht. destruct Ht as [Ht _].
  rewrite forallb_forall in Ht. apply Ht. exact Hin.
Qed.

Lemma resolve_class : forall a c cs, find_class c = Some cs -> resolve a (qualify a (cs_module cs) c) = Some (TClass c).
Proof.
  intros a c cs H. destruct (class_resolves_of_find _ H) as [Hr Hn]. subst c.
  unfold class_resolves in Hr. repeat (apply andb_prop in Hr; destruct Hr as [Hr ?]).
  destruct (assoc (cs_name cs) package_namespace) as [m|] eqn:Hm; [|discriminate].
  apply String.eqb_eq in Hr. subst m.
  assert (Hc : classify (cs_name cs) (cs_module cs) = Some (TClass (cs_name cs))).
  { unfold classify. destruct (String.eqb (cs_module cs) "library"); [discriminate|].
    rewrite H. rewrite String.eqb_refl. reflexivity. }
  destruct a as [| |s]; unfold qualify, package_of, resolve; cbn [app].
  - cbn [String.eqb]. rewrite Hc. reflexivity.
  - unfold package_name. rewrite Hm, Hc. reflexivity.
  - rewrite String.eqb_refl. unfold package_name. rewrite Hm, Hc. reflexivity.
Qed.
Lemma resolve_rule_create : forall a c cs, find_class c = Some cs -> cs_repr cs = RRuleCreate ->
  resolve a (qualify a (cs_module cs) c ++ ["create"]) = Some TRuleCreate.
Proof.
  intros a c cs H Hrr. destruct (class_resolves_of_find _ H) as [Hr Hn]. subst c.
  unfold class_resolves in Hr. repeat (apply andb_prop in Hr; destruct Hr as [Hr ?]).
  rewrite Hrr in *.
  destruct (assoc (cs_name cs) package_namespace) as [m|] eqn:Hm; [|discriminate].
  apply String.eqb_eq in Hr. subst m.
  match goal with Hx : String.eqb (cs_name cs) "Rule" = true |- _ => apply String.eqb_eq in Hx; rename Hx into HR end.
  assert (Hc : classify (cs_name cs) (cs_module cs) = Some (TClass (cs_name cs))).
  { unfold classify. destruct (String.eqb (cs_module cs) "library"); [discriminate|].
    rewrite H. rewrite String.eqb_refl. reflexivity. }
  assert (Hat : attribute (TClass (cs_name cs)) ["create"] = Some TRuleCreate).
  { rewrite HR. reflexivity. }
  destruct a as [| |s]; unfold qualify, package_of, resolve; cbn [app].
  - cbn [String.eqb]. rewrite Hc. exact Hat.
  - unfold package_name. rewrite Hm, Hc. exact Hat.
  - rewrite String.eqb_refl. unfold package_name. rewrite Hm, Hc. exact Hat.
Qed.
Lemma resolve_library : forall a,
  resolve a (qualify a "library" "array") = Some TArray /\
  resolve a (qualify a "library" "inf") = Some TInf /\
  resolve a (qualify a "library" "nan") = Some TNan.
Proof.
  destruct a as [| |s]; unfold qualify, package_of, resolve; cbn [app].
  - repeat split; reflexivity.
  - repeat split; reflexivity.
  - rewrite String.eqb_refl. repeat split; reflexivity.
Qed.

(* ------------------------------------------------------------------ Part 1: eval (repr v) = normalize v *)
Section EvalRepr.
  Context {T : Type} {N : Num T}.
  Variable E : penv T.
  Variable a : alias.
  Notation pyval := (pyval T).
  Notation pyexpr := (pyexpr T).
  Notation entryE := (@entry T pyexpr).
  Notation entryV := (@entry T pyval).
  Notation tblE := (@attr_tbl T pyexpr).
  Notation tblV := (@attr_tbl T pyval).

  (* payloads: an expression (result) on the repr side, a value (result) on the normalize side *)
  Definition rel_payload (re : result pyexpr) (rv : result pyval) : Prop :=
    forall e, re = Ok e -> eval E a e = rv.
  Definition rel_entry (x : entryE) (y : entryV) : Prop := fst x = fst y /\ rel_payload (snd x) (snd y).
  Definition rel_fields (fe : list (string * entryE)) (fv : list (string * entryV)) : Prop :=
    Forall2 (fun x y => fst x = fst y /\ rel_entry (snd x) (snd y)) fe fv.
  Definition rel_tbl (te : tblE) (tv : tblV) : Prop :=
    Forall2 (fun x y => fst x = fst y /\ rel_entry (fst (snd x)) (fst (snd y)) /\ rel_fields (snd (snd x)) (snd (snd y))) te tv.

  Definition rel_opt (x : option entryE) (y : option entryV) : Prop :=
    match x, y with Some p, Some q => rel_entry p q | None, None => True | _, _ => False end.

  Lemma assoc_rel_fields : forall k fe fv, rel_fields fe fv -> rel_opt (assoc k fe) (assoc k fv).
  Proof.
    induction 1 as [|[k1 x] [k2 y] fe fv [Hk Hr] _ IH]; cbn; [exact I|].
    cbn in Hk. subst k2. destruct (String.eqb k k1); [exact Hr|exact IH].
  Qed.
  Lemma has_key_rel : forall k fe fv, rel_fields fe fv -> has_key k fe = has_key k fv.
  Proof.
    intros k fe fv H. unfold has_key. pose proof (assoc_rel_fields k H) as R. unfold rel_opt in R.
    destruct (assoc k fe), (assoc k fv); tauto.
  Qed.
  Lemma del_assoc_rel : forall k fe fv, rel_fields fe fv -> rel_fields (del_assoc k fe) (del_assoc k fv).
  Proof.
    induction 1 as [|[k1 x] [k2 y] fe fv [Hk Hr] Hf IH]; cbn; [constructor|].
    cbn in Hk. subst k2. destruct (String.eqb k k1); [exact Hf|]. constructor; [split; [reflexivity|exact Hr]|exact IH].
  Qed.
  Lemma set_assoc_rel : forall k x y fe fv, rel_entry x y -> rel_fields fe fv -> rel_fields (set_assoc k x fe) (set_assoc k y fv).
  Proof.
    intros k x y fe fv Hxy. induction 1 as [|[k1 x1] [k2 y1] fe fv [Hk Hr] Hf IH]; cbn.
    - constructor; [split; [reflexivity|exact Hxy]|constructor].
    - cbn in Hk. subst k2. destruct (String.eqb k k1).
      + constructor; [split; [reflexivity|exact Hxy]|exact Hf].
      + constructor; [split; [reflexivity|exact Hr]|exact IH].
  Qed.
  Lemma get_path_rel : forall p te tv, rel_tbl te tv -> rel_opt (get_path te p) (get_path tv p).
  Proof.
    intros p te tv H.
    assert (A : forall k, match assoc k te, assoc k tv with
                          | Some x, Some y => rel_entry (fst x) (fst y) /\ rel_fields (snd x) (snd y)
                          | None, None => True | _, _ => False end).
    { intro k. induction H as [|[k1 x] [k2 y] te tv [Hk Hr] _ IH]; cbn; [exact I|].
      cbn in Hk. subst k2. destruct (String.eqb k k1); [exact Hr|exact IH]. }
    destruct p as [|f [|g [|h p]]]; cbn; try exact I.
    - specialize (A f). destruct (assoc f te), (assoc f tv); cbn; tauto.
    - specialize (A f). destruct (assoc f te) as [[x sx]|], (assoc f tv) as [[y sy]|]; cbn in *; try tauto.
      apply assoc_rel_fields. tauto.
  Qed.
  Lemma rcond_eval_rel : forall c te tv, rel_tbl te tv -> rcond_eval E te c = rcond_eval E tv c.
  Proof.
    intros c te tv H. destruct c as [p|p|p d|p|p cl k]; cbn;
      pose proof (get_path_rel p H) as R; unfold rel_opt, rel_entry in R;
      destruct (get_path te p) as [[v1 r1]|], (get_path tv p) as [[v2 r2]|]; cbn in R; try tauto;
      destruct R as [R _]; subst v2; reflexivity.
  Qed.

  Definition rel_res (x : result (list (string * entryE))) (y : result (list (string * entryV))) : Prop :=
    match x, y with Ok p, Ok q => rel_fields p q | Err e1, Err e2 => e1 = e2 | _, _ => False end.
  Lemma apply_steps_rel : forall te tv, rel_tbl te tv -> forall steps fe fv, rel_fields fe fv ->
    rel_res (apply_steps E te steps fe) (apply_steps E tv steps fv).
  Proof.
    intros te tv Ht. induction steps as [|s steps IH]; intros fe fv Hf; cbn [apply_steps].
    - exact Hf.
    - destruct s as [f|c f|f p|f|c f].
      + rewrite (has_key_rel f Hf). destruct (has_key f fv); [apply IH, del_assoc_rel, Hf|reflexivity].
      + rewrite (rcond_eval_rel c Ht). destruct (rcond_eval E tv c) as [b|e]; cbn; [|reflexivity].
        destruct b; [|apply IH, Hf].
        rewrite (has_key_rel f Hf). destruct (has_key f fv); [apply IH, del_assoc_rel, Hf|reflexivity].
      + pose proof (get_path_rel p Ht) as R. unfold rel_opt in R.
        destruct (get_path te p), (get_path tv p); try tauto; [|reflexivity].
        apply IH. apply set_assoc_rel; assumption.
      + apply IH, del_assoc_rel, Hf.
      + rewrite (rcond_eval_rel c Ht). destruct (rcond_eval E tv c) as [b|e]; cbn; [|reflexivity].
        destruct b; [apply IH, del_assoc_rel, Hf|apply IH, Hf].
  Qed.
  Lemma dict_entries_rel : forall te tv, rel_tbl te tv -> forall ents, rel_res (dict_entries te ents) (dict_entries tv ents).
  Proof.
    intros te tv Ht. induction ents as [|[k p] ents IH]; cbn [dict_entries].
    - constructor.
    - pose proof (get_path_rel p Ht) as R. unfold rel_opt in R.
      destruct (get_path te p), (get_path tv p); try tauto; [|reflexivity].
      unfold rel_res in IH. destruct (dict_entries te ents), (dict_entries tv ents); cbn; try tauto.
      constructor; [split; [reflexivity|exact R]|exact IH].
  Qed.
  Lemma vars_rel : forall te tv, rel_tbl te tv ->
    rel_fields (map (fun kv => (fst kv, fst (snd kv))) te) (map (fun kv => (fst kv, fst (snd kv))) tv).
  Proof.
    induction 1 as [|x y te tv [Hk [Hr _]] _ IH]; cbn; constructor; [split; assumption|exact IH].
  Qed.

  (* the keyword part of `kept … false` is everything: no positional argument after the switch *)
  Lemma kept_false_nopos : forall X params (f : list (string * @entry T X)) r, kept params f false = Ok r -> fst r = [].
  Proof.
    induction params as [|p ps IH]; intros f r H; cbn in H.
    - inversion H. reflexivity.
    - destruct (assoc (p_name p) f) as [[v x]|].
      + destruct x as [x|e]; cbn in H; [|discriminate].
        destruct (kept ps f false) as [rest|e] eqn:Hk; cbn in H; [|discriminate].
        inversion H. cbn. eapply IH. exact Hk.
      + destruct (p_default p); [eapply IH; exact H|discriminate].
  Qed.

  Definition evals (pe : list pyexpr) (ke : list (string * pyexpr)) (F : list pyval -> list (string * pyval) -> result pyval) : result pyval :=
    do p <- sequence (map (eval E a) pe);
    do k <- sequence_kv (map (fun kv => (fst kv, eval E a (snd kv))) ke);
    F p k.

  Lemma kept_rel : forall params fe fv, rel_fields fe fv -> forall pos pe ke,
    kept params fe pos = Ok (pe, ke) ->
    forall F, evals pe ke F = (do r <- kept params fv pos; F (fst r) (snd r)).
  Proof.
    induction params as [|p ps IH]; intros fe fv Hf pos pe ke H F; cbn [kept] in *.
    - inversion H. reflexivity.
    - pose proof (assoc_rel_fields (p_name p) Hf) as R. unfold rel_opt in R.
      destruct (assoc (p_name p) fe) as [[v1 r1]|], (assoc (p_name p) fv) as [[v2 r2]|]; try tauto.
      + destruct R as [_ R]. cbn in R. unfold rel_payload in R.
        destruct r1 as [x|e]; cbn in H; [|discriminate].
        specialize (R x eq_refl).
        destruct (kept ps fe pos) as [[pe' ke']|e] eqn:Hk; cbn in H; [|discriminate].
        destruct pos; inversion H; subst pe ke; clear H.
        * (* positional *)
          unfold evals. cbn [map sequence]. rewrite R. destruct r2 as [y|e]; cbn; [|reflexivity].
          specialize (IH fe fv Hf true pe' ke' Hk (fun pp kk => F (y :: pp) kk)). unfold evals in IH.
          destruct (sequence (map (eval E a) pe')) as [ps'|e]; cbn in *.
          -- destruct (sequence_kv (map (fun kv => (fst kv, eval E a (snd kv))) ke')) as [ks'|e]; cbn in *;
               rewrite IH; destruct (kept ps fv true) as [[? ?]|]; reflexivity.
          -- rewrite IH. destruct (kept ps fv true) as [[? ?]|]; reflexivity.
        * (* keyword: no positional follows *)
          pose proof (kept_false_nopos _ _ Hk) as Hn. cbn in Hn. subst pe'.
          unfold evals. cbn [map sequence sequence_kv fst snd bind]. rewrite R. destruct r2 as [y|e]; cbn.
          -- specialize (IH fe fv Hf false [] ke' Hk (fun pp kk => F pp ((p_name p, y) :: kk))).
             unfold evals in IH. cbn [map sequence bind] in IH.
             destruct (sequence_kv (map (fun kv => (fst kv, eval E a (snd kv))) ke')) as [ks'|e]; cbn in *;
               rewrite IH; destruct (kept ps fv false) as [[? ?]|]; reflexivity.
          -- reflexivity.
      + destruct (p_default p); [eapply IH; eassumption|discriminate].
  Qed.

  Lemma as_constructor_rel : forall cs src steps pos te tv, rel_tbl te tv -> forall pe ke,
    as_constructor E cs src steps pos te = Ok (pe, ke) ->
    forall F, evals pe ke F = (do r <- as_constructor E cs src steps pos tv; F (fst r) (snd r)).
  Proof.
    intros cs src steps pos te tv Ht pe ke H F. unfold as_constructor in *.
    assert (R0 : rel_res (match src with RVars => Ok (map (fun kv => (fst kv, fst (snd kv))) te) | RDict ents => dict_entries te ents end)
                         (match src with RVars => Ok (map (fun kv => (fst kv, fst (snd kv))) tv) | RDict ents => dict_entries tv ents end)).
    { destruct src; [apply vars_rel, Ht|apply dict_entries_rel, Ht]. }
    destruct (match src with RVars => Ok (map (fun kv => (fst kv, fst (snd kv))) te) | RDict ents => dict_entries te ents end) as [f0e|e]; cbn in H; [|discriminate].
    destruct (match src with RVars => Ok (map (fun kv => (fst kv, fst (snd kv))) tv) | RDict ents => dict_entries tv ents end) as [f0v|e]; cbn in R0; [|tauto].
    cbn [bind]. pose proof (apply_steps_rel Ht steps R0) as R1. unfold rel_res in R1.
    destruct (apply_steps E te steps f0e) as [f1e|e]; cbn in H; [|discriminate].
    destruct (apply_steps E tv steps f0v) as [f1v|e]; [|tauto].
    cbn [bind]. eapply kept_rel; eassumption.
  Qed.
  Lemma rule_text_rel : forall te tv, rel_tbl te tv -> rule_text E te = rule_text E tv.
  Proof.
    intros te tv Ht. unfold rule_text.
    pose proof (get_path_rel ["antecedent"; "text"] Ht) as R1.
    pose proof (get_path_rel ["consequent"; "text"] Ht) as R2.
    pose proof (get_path_rel ["weight"] Ht) as R3. unfold rel_opt, rel_entry in *.
    destruct (get_path te ["antecedent"; "text"]) as [[v1 r1]|], (get_path tv ["antecedent"; "text"]) as [[v1' r1']|]; cbn in R1; try tauto;
    destruct (get_path te ["consequent"; "text"]) as [[v2 r2]|], (get_path tv ["consequent"; "text"]) as [[v2' r2']|]; cbn in R2; try tauto;
    destruct (get_path te ["weight"]) as [[v3 r3]|], (get_path tv ["weight"]) as [[v3' r3']|]; cbn in R3; try tauto;
    repeat match goal with H : _ /\ _ |- _ => destruct H as [? _] end; subst; try reflexivity.
    all: destruct v1'; try reflexivity.
  Qed.

  Definition P (v : pyval) : Prop := rel_payload (repr E a v) (normalize E v).
  Definition P' (v : pyval) : Prop := P v /\ match v with VObj _ fs => Forall (fun kv => P (snd kv)) fs | _ => True end.

  Lemma sequence_rel : forall l, Forall P l -> forall es, sequence (map (repr E a) l) = Ok es ->
    sequence (map (eval E a) es) = sequence (map (normalize E) l).
  Proof.
    induction 1 as [|v l Hv _ IH]; intros es H; cbn in *.
    - inversion H. reflexivity.
    - destruct (repr E a v) as [e|] eqn:He; cbn in H; [|discriminate].
      destruct (sequence (map (repr E a) l)) as [es'|]; cbn in H; [|discriminate]. inversion H; subst es. cbn.
      rewrite (Hv e He). rewrite (IH es' eq_refl). reflexivity.
  Qed.
  (* sorting looks at the keys only *)
  Lemma insert_kv_rel : forall A B (R : A -> B -> Prop) k x y (l1 : list (string * A)) (l2 : list (string * B)),
    R x y -> Forall2 (fun p q => fst p = fst q /\ R (snd p) (snd q)) l1 l2 ->
    Forall2 (fun p q => fst p = fst q /\ R (snd p) (snd q)) (insert_kv k x l1) (insert_kv k y l2).
  Proof.
    intros A B R k x y l1 l2 Hxy. induction 1 as [|[k1 x1] [k2 y1] l1 l2 [Hk Hr] Hf IH]; cbn.
    - constructor; [split; [reflexivity|exact Hxy]|constructor].
    - cbn in Hk, Hr. subst k2. destruct (String.leb k k1).
      + constructor; [split; [reflexivity|exact Hxy]|]. constructor; [split; [reflexivity|exact Hr]|exact Hf].
      + constructor; [split; [reflexivity|exact Hr]|exact IH].
  Qed.
  Lemma sort_kv_rel : forall A B (R : A -> B -> Prop) (l1 : list (string * A)) (l2 : list (string * B)),
    Forall2 (fun p q => fst p = fst q /\ R (snd p) (snd q)) l1 l2 ->
    Forall2 (fun p q => fst p = fst q /\ R (snd p) (snd q)) (sort_kv l1) (sort_kv l2).
  Proof.
    induction 1 as [|[k1 x1] [k2 y1] l1 l2 [Hk Hr] Hf IH]; cbn; [constructor|].
    cbn in Hk, Hr. subst k2. apply insert_kv_rel; assumption.
  Qed.
  Lemma sequence_kv_rel : forall (l1 : list (string * result pyexpr)) (l2 : list (string * result pyval)),
    Forall2 (fun p q => fst p = fst q /\ rel_payload (snd p) (snd q)) l1 l2 ->
    forall es, sequence_kv l1 = Ok es ->
    sequence_kv (map (fun kv => (fst kv, eval E a (snd kv))) es) = sequence_kv l2.
  Proof.
    induction 1 as [|[k1 r1] [k2 r2] l1 l2 [Hk Hr] _ IH]; intros es H; cbn in *.
    - inversion H. reflexivity.
    - subst k2. destruct r1 as [e|]; cbn in H; [|discriminate].
      destruct (sequence_kv l1) as [es'|]; cbn in H; [|discriminate]. inversion H; subst es. cbn.
      rewrite (Hr e eq_refl). rewrite (IH es' eq_refl). reflexivity.
  Qed.
  Lemma map_payload_rel : forall (l : list (string * pyval)), Forall (fun kv => P (snd kv)) l ->
    Forall2 (fun p q => fst p = fst q /\ rel_payload (snd p) (snd q))
      (map (fun kv => (fst kv, repr E a (snd kv))) l) (map (fun kv => (fst kv, normalize E (snd kv))) l).
  Proof. induction 1; cbn; constructor; [split; [reflexivity|assumption]|assumption]. Qed.
  Lemma map_entry_rel : forall (l : list (string * pyval)), Forall (fun kv => P (snd kv)) l ->
    rel_fields (map (fun kv => (fst kv, (snd kv, repr E a (snd kv)))) l) (map (fun kv => (fst kv, (snd kv, normalize E (snd kv)))) l).
  Proof. induction 1; cbn; constructor; [split; [reflexivity|split; [reflexivity|assumption]]|assumption]. Qed.

  Lemma P_float : forall x, P (VFloat x).
  Proof.
    intros x e H. cbn in H. inversion H; subst e; clear H. cbn [normalize]. unfold repr_float, norm_float.
    destruct (resolve_library a) as [Ha [Hi Hn]].
    destruct (isposinf x || isneginf x).
    - destruct (ltb zero x); cbn [eval]; rewrite Hi; reflexivity.
    - destruct (isnan x); cbn [eval]; [rewrite Hn|]; reflexivity.
  Qed.
  Lemma P_list : forall l, Forall P l -> P (VList l).
  Proof.
    intros l Hl e H. cbn in H. destruct (sequence (map (repr E a) l)) as [es|] eqn:Hs; cbn in H; [|discriminate].
    inversion H; subst e. cbn [eval normalize]. rewrite (sequence_rel Hl Hs). reflexivity.
  Qed.
  Lemma P_arr : forall l, Forall P l -> P (VArr l).
  Proof.
    intros l Hl e H. cbn in H. destruct (sequence (map (repr E a) l)) as [es|] eqn:Hs; cbn in H; [|discriminate].
    inversion H; subst e. cbn [normalize]. destruct (resolve_library a) as [Ha _].
    cbn [eval map sequence sequence_kv]. rewrite Ha. rewrite (sequence_rel Hl Hs).
    destruct (sequence (map (normalize E) l)); reflexivity.
  Qed.
  Lemma P_dict : forall l, Forall (fun kv => P (snd kv)) l -> P (VDict l).
  Proof.
    intros l Hl e H. cbn in H.
    destruct (sequence_kv (sort_kv (map (fun kv => (fst kv, repr E a (snd kv))) l))) as [es|] eqn:Hs; cbn in H; [|discriminate].
    inversion H; subst e. cbn [eval normalize].
    rewrite (sequence_kv_rel (@sort_kv_rel _ _ rel_payload _ _ (map_payload_rel Hl)) Hs). reflexivity.
  Qed.
  Lemma obj_rel : forall c te tv, rel_tbl te tv -> rel_payload (repr_obj E a c te) (normalize_obj E c tv).
  Proof.
    intros c te tv Ht e H. unfold repr_obj in H. unfold normalize_obj.
    destruct (find_class c) as [cs|] eqn:Hc.
    - destruct (cs_repr cs) as [src steps pos| | |] eqn:Hr.
      + destruct (as_constructor E cs src steps pos te) as [[pe ke]|] eqn:Ha; cbn in H; [|discriminate].
        inversion H; subst e; clear H. cbn [eval]. rewrite (resolve_class a c Hc).
        pose proof (as_constructor_rel cs src steps pos Ht Ha (instantiate E c)) as R. unfold evals in R.
        cbn [call]. exact R.
      + rewrite (rule_text_rel Ht) in H. destruct (rule_text E tv) as [t|]; cbn in H; [|discriminate].
        inversion H; subst e; clear H. cbn [eval]. rewrite (resolve_rule_create a c Hc Hr).
        cbn [map sequence sequence_kv eval bind]. destruct (raw_safe t); cbn [bind call]; reflexivity.
      + inversion H; subst e; clear H. cbn [eval]. rewrite (resolve_class a c Hc). reflexivity.
      + inversion H; subst e. reflexivity.
    - inversion H; subst e. reflexivity.
  Qed.
  Lemma P_obj : forall c fs, Forall (fun kv => P' (snd kv)) fs -> P (VObj c fs).
  Proof.
    intros c fs Hfs. unfold P. cbn [repr normalize]. apply obj_rel.
    induction Hfs as [|kv fs [Hp Hsub] _ IH]; cbn; constructor; [|exact IH].
    split; [reflexivity|]. split; [split; [reflexivity|exact Hp]|]. cbn.
    destruct (snd kv); try constructor. apply map_entry_rel. exact Hsub.
  Qed.

  Theorem eval_repr_strong : forall v, P' v.
  Proof.
    apply pyval_ind2; unfold P'.
    - split; [intros e H; inversion H; reflexivity|exact I].
    - split; [intros e H; inversion H; reflexivity|exact I].
    - split; [intros e H; inversion H; reflexivity|exact I].
    - split; [apply P_float|exact I].
    - split; [intros e H; inversion H; reflexivity|exact I].
    - intros l Hl. split; [apply P_list; eapply Forall_impl; [|exact Hl]; intros v [Hv _]; exact Hv|exact I].
    - intros l Hl. split; [apply P_arr; eapply Forall_impl; [|exact Hl]; intros v [Hv _]; exact Hv|exact I].
    - intros l Hl. split; [apply P_dict; eapply Forall_impl; [|exact Hl]; intros v [Hv _]; exact Hv|exact I].
    - split; [intros e H; inversion H; reflexivity|exact I].
    - intros c fs Hfs. split; [apply P_obj; exact Hfs|]. eapply Forall_impl; [|exact Hfs]. intros kv [Hv _]. exact Hv.
    - split; [intros e H; discriminate|exact I].
    - intros s. split; [intros e H; inversion H; reflexivity|exact I].
    - split; [intros e H; inversion H; reflexivity|exact I].
    - intros s. split; [intros e H; inversion H; reflexivity|exact I].
  Qed.
  (* evaluating the printed tree = normalising the object *)
  Theorem eval_repr : forall v e, repr E a v = Ok e -> eval E a e = normalize E v.
  Proof. intros v e H. exact (proj1 (eval_repr_strong v) e H). Qed.
End EvalRepr.

(* ------------------------------------------------------------------ the encapsulated export *)
Section Encapsulated.
  Context {T : Type} {N : Num T}.
  Variable E : penv T.
  Lemma import_alias_statement : forall a, import_alias (@import_statement T a) = Some a.
  Proof. destruct a; reflexivity. Qed.
  (* the class-encapsulated export of an engine evaluates to the same constructor tree as its repr, provided the class name
     is an identifier; the function-encapsulated export of any other component always does *)
  Theorem encapsulated_same_expr : forall a v m e,
    encapsulate E a v = Ok m -> repr E a v = Ok e ->
    (forall fs n, v = VObj "Engine" fs -> assoc "name" fs = Some (VStr n) ->
       ident_ok (pascal_case E n) = true /\ (a = AStar -> expr_uses (pascal_case E n) e = false)) ->
    run_module E m = eval E a e.
  Proof.
    intros a v m e Hm He Hid. unfold encapsulate in Hm. rewrite He in Hm. cbn [bind] in Hm.
    destruct v; try discriminate.
    destruct (String.eqb cls "Engine") eqn:Hc.
    - apply String.eqb_eq in Hc. subst cls.
      destruct (assoc "name" fields) as [[]|] eqn:Hn; try discriminate.
      inversion Hm; subst m. unfold run_module. rewrite import_alias_statement.
      destruct (Hid fields s eq_refl Hn) as [H1 H2]. rewrite H1.
      destruct a; [reflexivity| |reflexivity]. rewrite (H2 eq_refl). reflexivity.
    - destruct (find_class cls) as [cs|] eqn:Hf; [|discriminate].
      inversion Hm; subst m. unfold run_module. rewrite import_alias_statement.
      rewrite (resolve_class a cls Hf). reflexivity.
  Qed.
  (* ... and an engine whose name does not give an identifier is exported as text that is not Python *)
  Lemma encapsulated_bad_name : forall a fs n e,
    repr E a (VObj "Engine" fs) = Ok e -> assoc "name" fs = Some (VStr n) -> ident_ok (pascal_case E n) = false ->
    exists m, encapsulate E a (VObj "Engine" fs) = Ok m /\ run_module E m = Err ESyntax.
  Proof.
    intros a fs n e He Hn Hid. unfold encapsulate. rewrite He. cbn. rewrite Hn.
    eexists; split; [reflexivity|]. unfold run_module. rewrite import_alias_statement, Hid. reflexivity.
  Qed.
End Encapsulated.

(* ------------------------------------------------------------------ Part 2: closed forms of normalize, by computation *)
Ltac inv_forall :=
  repeat match goal with
         | H : Forall _ (_ :: _) |- _ => inversion H; clear H; subst
         | H : Forall _ [] |- _ => clear H
         end.
Ltac norm_step := cbv -[is_close norm_float isnan lit nan pinf ninf].
Ltac use_nan := repeat match goal with H : isnan ?x = _ |- context [isnan ?x] => rewrite H end.
Ltac rw_norm := repeat match goal with H : norm_float _ ?x = ?x |- context [norm_float _ ?x] => rewrite H end.
Ltac go :=
  norm_step; rw_norm; use_nan;
  first [ reflexivity
        | match goal with |- context [is_close ?E ?h ?o] => destruct (is_close E h o) eqn:?; go end ].
Section ObjEq.
  Context {T : Type} {N : Num T}.
  Variable E : penv T.
  Lemma normalize_obj_eq : forall c fs,
    normalize E (VObj c fs) =
    normalize_obj E c (map (fun kv => (fst kv, ((snd kv, normalize E (snd kv)),
                         match snd kv with
                         | VObj _ fs0 => map (fun kv2 => (fst kv2, (snd kv2, normalize E (snd kv2)))) fs0
                         | _ => [] end))) fs).
  Proof. reflexivity. Qed.

  Lemma sequence_map_ok : forall A B (f : A -> result B) l l', Forall2 (fun x y => f x = Ok y) l l' -> sequence (map f l) = Ok l'.
  Proof. induction 1 as [|x y l l' H _ IH]; cbn; [reflexivity|]. rewrite H, IH. reflexivity. Qed.
  Lemma sequence_map_id : forall A (f : A -> result A) l, Forall (fun x => f x = Ok x) l -> sequence (map f l) = Ok l.
  Proof. induction 1 as [|x l H _ IH]; cbn; [reflexivity|]. rewrite H, IH. reflexivity. Qed.

End ObjEq.
Ltac open_obj := rewrite normalize_obj_eq; cbn [map fst snd].

Section Closed.
  Context {T : Type} {N : Num T}.
  Variable E : penv T.
  Notation pyval := (pyval T).

  Definition fl_ok (x : T) : Prop := norm_float E x = x.
  Definition norm_height (h : T) : T := if is_close E h (lit 1 0) then lit 1 0 else h.
  Definition shape_wf (s : shape T) : Prop :=
    Forall fl_ok (shape_args s) /\
    match s with
    | Sh_Triangle _ _ r _ => isnan r = false
    | Sh_Trapezoid _ _ tr br _ => isnan tr && isnan br = false
    | _ => True
    end.

  (* ---- the 19 parametric shapes and Constant *)
  Lemma normalize_shape : forall n s, shape_wf s ->
    normalize E (shape_val n s) = Ok (shape_val n (shape_set_height s (norm_height (shape_height s)))).
  Proof.
    intros n s [Hf Hs]. unfold fl_ok in Hf.
    destruct s; cbn [shape_args] in Hf; inv_forall; unfold norm_height; cbn [shape_height shape_set_height].
    18: { destruct (isnan p_top_right) eqn:Hn1; destruct (isnan p_bottom_right) eqn:Hn2; try discriminate; go. }
    all: go.
  Qed.

  (* ---- Discrete *)
  Definition row_val (r : T * T) : pyval := VArr [VFloat (fst r); VFloat (snd r)].
  Definition row_ok (r : T * T) : Prop := fl_ok (fst r) /\ fl_ok (snd r).
  Lemma normalize_rows : forall rows, Forall row_ok rows -> normalize E (VArr (map row_val rows)) = Ok (VArr (map row_val rows)).
  Proof.
    intros rows H. cbn [normalize]. rewrite map_map.
    rewrite (@sequence_map_ok _ _ (fun x => normalize E (row_val x)) rows (map row_val rows)).
    - cbn [bind np_array]. destruct rows as [|r rows]; [reflexivity|]. cbn [map row_val].
      replace (forallb _ _) with true; [reflexivity|]. symmetry. cbn [forallb arr_len List.length Nat.eqb andb].
      clear H. induction rows as [|r' rows IH]; [reflexivity|]. cbn. exact IH.
    - induction H as [|r rows [H1 H2] _ IH]; cbn [map]; constructor; [|exact IH].
      unfold row_val. cbn. unfold fl_ok in *. rewrite H1, H2. reflexivity.
  Qed.
  Lemma normalize_discrete : forall n rows h, Forall row_ok rows -> fl_ok h ->
    normalize E (term_val (PDiscrete n rows h)) = Ok (term_val (PDiscrete n rows (norm_height h))).
  Proof.
    intros n rows h Hr Hh. unfold fl_ok in Hh. unfold term_val. fold row_val.
    open_obj. rewrite (normalize_rows Hr). unfold norm_height. go.
  Qed.

End Closed.

Section Closed2.
  Context {T : Type} {N : Num T}.
  Variable E : penv T.
  Notation pyval := (pyval T).
  Notation fl_ok := (fl_ok E).
  Notation norm_height := (norm_height E).
  Notation shape_wf := (shape_wf E).
  Notation row_ok := (row_ok E).
  (* ---- Linear, Function (on their own: the engine reference and the parsed tree are not exported) *)
  Lemma normalize_floats : forall l, Forall fl_ok l -> normalize E (VList (map VFloat l)) = Ok (VList (map VFloat l)).
  Proof.
    intros l H. cbn [normalize]. rewrite map_map.
    rewrite (@sequence_map_ok _ _ (fun x => normalize E (VFloat x)) l (map VFloat l)); [reflexivity|].
    induction H as [|x l Hx _ IH]; cbn [map]; constructor; [|exact IH]. cbn. unfold PyReprProofs.fl_ok in Hx. rewrite Hx. reflexivity.
  Qed.
  Lemma normalize_linear : forall n cs e, Forall fl_ok cs ->
    normalize E (term_val (PLinear n cs e)) = Ok (term_val (PLinear n cs false)).
  Proof.
    intros n cs e H. unfold term_val. open_obj. rewrite (normalize_floats H).
    destruct cs; destruct e; go.
  Qed.
  Lemma insert_kv_map : forall A B (g : A -> B) k x (l : list (string * A)),
    insert_kv k (g x) (map (fun kv => (fst kv, g (snd kv))) l) = map (fun kv => (fst kv, g (snd kv))) (insert_kv k x l).
  Proof.
    induction l as [|[k' y] l IH]; cbn; [reflexivity|]. destruct (String.leb k k'); cbn; [reflexivity|]. rewrite IH. reflexivity.
  Qed.
  Lemma sort_kv_map : forall A B (g : A -> B) (l : list (string * A)),
    sort_kv (map (fun kv => (fst kv, g (snd kv))) l) = map (fun kv => (fst kv, g (snd kv))) (sort_kv l).
  Proof. induction l as [|[k x] l IH]; cbn; [reflexivity|]. rewrite IH. apply insert_kv_map. Qed.
  Definition var_val (kv : string * T) : string * pyval := (fst kv, VFloat (snd kv)).
  Lemma normalize_vars : forall vars, Forall (fun kv => fl_ok (snd kv)) vars -> sort_kv vars = vars ->
    normalize E (VDict (map var_val vars)) = Ok (VDict (map var_val vars)).
  Proof.
    intros vars H Hs. cbn [normalize]. rewrite map_map. cbn [fst snd var_val].
    rewrite (sort_kv_map (fun x => normalize E (VFloat x)) vars). rewrite Hs.
    match goal with |- context [sequence_kv ?l] => assert (Hq : sequence_kv l = Ok (map var_val vars)) end.
    { clear Hs. induction H as [|[k x] l Hx _ IH]; [reflexivity|].
      cbn [map sequence_kv fst snd normalize var_val] in *. unfold PyReprProofs.fl_ok in Hx. rewrite Hx. cbn [bind]. rewrite IH. reflexivity. }
    rewrite Hq. reflexivity.
  Qed.
  Lemma normalize_function : forall n f vars loaded e, Forall (fun kv => fl_ok (snd kv)) vars -> sort_kv vars = vars ->
    normalize E (term_val (PFunction n f vars loaded e)) = Ok (term_val (PFunction n f vars false false)).
  Proof.
    intros n f vars loaded e H Hs. unfold term_val. fold var_val. open_obj. rewrite (normalize_vars H Hs).
    destruct vars; destruct loaded; destruct e; go.
  Qed.

  (* ---- terms, summarised *)
  Definition term_wf (t : pterm T) : Prop :=
    match t with
    | PShape _ s => shape_wf s
    | PDiscrete _ rows h => Forall row_ok rows /\ fl_ok h
    | PLinear _ cs _ => Forall fl_ok cs
    | PFunction _ _ vars _ _ => Forall (fun kv => fl_ok (snd kv)) vars /\ sort_kv vars = vars
    end.
  (* what the Python representation of a term on its own keeps *)
  Definition norm_term (t : pterm T) : pterm T :=
    match t with
    | PShape n s => PShape n (shape_set_height s (norm_height (shape_height s)))
    | PDiscrete n rows h => PDiscrete n rows (norm_height h)
    | PLinear n cs _ => PLinear n cs false
    | PFunction n f vars _ _ => PFunction n f vars false false
    end.
  Theorem normalize_term : forall t, term_wf t -> normalize E (term_val t) = Ok (term_val (norm_term t)).
  Proof.
    destruct t; cbn [term_wf norm_term]; intros H.
    - apply normalize_shape, H.
    - destruct H. apply normalize_discrete; assumption.
    - apply normalize_linear, H.
    - destruct H. apply normalize_function; assumption.
  Qed.

  (* ---- operators and the other classes without constructor *)
  Definition plain_class (cls : string) : bool :=
    match find_class cls with
    | Some cs => negb (cs_has_init cs) && match cs_init cs with [] => true | _ => false end
                 && match cs_repr cs with RConstructor RVars [] _ => true | _ => false end
    | None => false
    end.
  Lemma normalize_plain : forall cls, plain_class cls = true -> normalize E (VObj cls []) = Ok (VObj cls []).
  Proof.
    intros cls H. unfold plain_class in H. rewrite normalize_obj_eq. cbn [map]. unfold normalize_obj.
    destruct (find_class cls) as [cs|] eqn:Hc; [|discriminate].
    destruct (cs_has_init cs) eqn:Hi; [discriminate|]. destruct (cs_init cs) eqn:Hin; [|discriminate].
    destruct (cs_repr cs) as [[] [] pos| | |]; try discriminate.
    unfold as_constructor. rewrite Hi. cbn [map bind apply_steps kept fst snd]. unfold instantiate. cbn [instantiate_n]. rewrite Hc, Hi, Hin. reflexivity.
  Qed.
  Definition opt_plain (o : option string) : Prop := match o with Some cls => plain_class cls = true | None => True end.
  Lemma normalize_opt_norm : forall o, opt_plain o -> normalize E (opt_val norm_val o) = Ok (opt_val norm_val o).
  Proof. destruct o; cbn; intros H; [apply normalize_plain, H|reflexivity]. Qed.

  (* ---- defuzzifiers and activation methods: nothing is lost *)
  Definition defuzzifier_wf (d : pdefuzzifier) : Prop :=
    match d with
    | PIntegral cls r => In cls ["Bisector"; "Centroid"; "LargestOfMaximum"; "MeanOfMaximum"; "SmallestOfMaximum"] /\ r <> 0%Z
    | PWeighted cls ty => In cls ["WeightedAverage"; "WeightedSum"] /\ In ty ["Automatic"; "TakagiSugeno"; "Tsukamoto"]
    end.
  Ltac in_cases H := cbn [In] in H; repeat (destruct H as [<-|H]; [|]); [..|contradiction].
  Lemma normalize_defuzzifier : forall d, defuzzifier_wf d -> normalize E (defuzzifier_val d) = Ok (defuzzifier_val d).
  Proof.
    destruct d as [cls r|cls ty]; cbn [defuzzifier_wf defuzzifier_val]; intros [Hc Hr].
    - assert (Hz : Z.eqb r 0 = false) by (apply Z.eqb_neq; exact Hr).
      in_cases Hc; cbv -[Z.eqb]; destruct (Z.eqb r 1000) eqn:Hd;
        try (apply Z.eqb_eq in Hd; subst r); cbv -[Z.eqb]; rewrite ?Hz; reflexivity.
    - in_cases Hc; in_cases Hr; reflexivity.
  Qed.
  Definition activation_wf (x : pactivation T) : Prop :=
    match x with
    | PActPlain cls => In cls ["General"; "Proportional"]
    | PActN cls _ => In cls ["Highest"; "Lowest"]
    | PActNT cls _ t => In cls ["First"; "Last"] /\ fl_ok t
    | PActThreshold c t => In c ["<"; "<="; "=="; "!="; ">="; ">"] /\ fl_ok t
    end.
  Lemma normalize_activation : forall x, activation_wf x -> normalize E (activation_val x) = Ok (activation_val x).
  Proof.
    destruct x as [cls|cls n|cls n t|c t]; cbn [activation_wf activation_val]; intros H.
    - in_cases H; reflexivity.
    - in_cases H; reflexivity.
    - destruct H as [H Ht]. unfold PyReprProofs.fl_ok in Ht. in_cases H; go.
    - destruct H as [H Ht]. unfold PyReprProofs.fl_ok in Ht. in_cases H; go.
  Qed.

  (* ---- rules: exported as text *)
  Definition rule_words (r : prule T) : list string :=
    [rule_if; join_sp (ru_antecedent r); rule_then; join_sp (ru_consequent r)]
    ++ (if is_close E (ru_weight r) (lit 1 0) then [] else [rule_with; fmt_w E (ru_weight r)]).
  (* the text survives: it can be pasted between quotes, and Rule.parse reads the words and the weight back.  True of
     texts made of blank-free, quote-free words that avoid the keywords, with a weight Op.str/float() round-trip
     (see rule_text_roundtrip_partial); checked by computation on concrete rules *)
  Definition rule_text_ok (r : prule T) : Prop :=
    raw_safe (join_sp (rule_words r)) = true /\
    rule_parse E (join_sp (rule_words r)) = Ok (join_sp (ru_antecedent r), join_sp (ru_consequent r), norm_height (ru_weight r)).
  (* F5: `enabled` is not exported; neither is the run-time state, nor a weight within the tolerance of 1 *)
  Definition norm_rule (r : prule T) : prule T :=
    {| ru_enabled := true; ru_weight := norm_height (ru_weight r); ru_antecedent := ru_antecedent r; ru_consequent := ru_consequent r;
       ru_loaded := false; ru_degree := lit 0 0; ru_triggered := false |}.
  Ltac rule_step := cbv -[is_close norm_float isnan lit nan pinf ninf rule_parse raw_safe join_sp fmt_w].
  Ltac rule_step_in H := cbv -[is_close norm_float isnan lit nan pinf ninf rule_parse raw_safe join_sp fmt_w] in H.
  Lemma normalize_rule : forall r, rule_text_ok r -> normalize E (rule_val r) = Ok (rule_val (norm_rule r)).
  Proof.
    intros [en w ante cq loaded deg trig] [Hs Hp]. unfold rule_words, norm_height in *. cbn [ru_weight ru_antecedent ru_consequent] in *.
    unfold rule_val, norm_rule. cbn [ru_enabled ru_weight ru_antecedent ru_consequent ru_loaded ru_degree ru_triggered].
    open_obj. unfold normalize_obj. rule_step. rule_step_in Hs. rule_step_in Hp.
    destruct (is_close E w (lit 1 0)); rule_step; rule_step_in Hs; rule_step_in Hp; rewrite Hs, Hp; rule_step; reflexivity.
  Qed.
  Corollary rule_enabled_lost : forall r, rule_text_ok r -> ru_enabled r = false ->
    exists r', normalize E (rule_val r) = Ok (rule_val r') /\ ru_enabled r' = true.
  Proof. intros r H _. exists (norm_rule r). split; [apply normalize_rule, H|reflexivity]. Qed.

  (* ---- lists of components *)
  Lemma normalize_list : forall A (val : A -> pyval) (nf : A -> A) (l : list A),
    Forall (fun x => normalize E (val x) = Ok (val (nf x))) l ->
    normalize E (VList (map val l)) = Ok (VList (map val (map nf l))).
  Proof.
    intros A val nf l H. cbn [normalize]. rewrite map_map.
    rewrite (@sequence_map_ok _ _ (fun x => normalize E (val x)) l (map val (map nf l))); [reflexivity|].
    induction H as [|x l Hx _ IH]; cbn [map]; constructor; assumption.
  Qed.
  Lemma normalize_terms : forall ts, Forall term_wf ts ->
    normalize E (VList (map term_val ts)) = Ok (VList (map term_val (map norm_term ts))).
  Proof. intros ts H. apply normalize_list. eapply Forall_impl; [|exact H]. intros t Ht. apply normalize_term, Ht. Qed.

  (* ---- variables: the current value (and, for outputs, the previous value and the fuzzy output) are run-time state *)
  Definition input_wf (v : pinput T) : Prop := fl_ok (vi_min v) /\ fl_ok (vi_max v) /\ Forall term_wf (vi_terms v).
  Definition norm_input (v : pinput T) : pinput T :=
    {| vi_name := vi_name v; vi_description := vi_description v; vi_enabled := vi_enabled v; vi_min := vi_min v; vi_max := vi_max v;
       vi_lock_range := vi_lock_range v; vi_terms := map norm_term (vi_terms v); vi_value := nan |}.
  Lemma normalize_input : forall v, input_wf v -> normalize E (input_val v) = Ok (input_val (norm_input v)).
  Proof.
    intros [n d en mn mx lr ts val] [Hmn [Hmx Hts]]. cbn [vi_min vi_max vi_terms] in *. unfold PyReprProofs.fl_ok in Hmn, Hmx.
    unfold input_val, norm_input. cbn [vi_name vi_description vi_enabled vi_min vi_max vi_lock_range vi_terms vi_value].
    open_obj. rewrite (normalize_terms Hts).
    destruct (map term_val (map norm_term ts)) eqn:Hl; destruct d; destruct en; go.
  Qed.

  Definition output_wf (v : poutput T) : Prop :=
    fl_ok (vo_min v) /\ fl_ok (vo_max v) /\ fl_ok (vo_default v) /\ opt_plain (vo_aggregation v) /\
    match vo_defuzzifier v with Some d => defuzzifier_wf d | None => True end /\ Forall term_wf (vo_terms v).
  Definition norm_output (v : poutput T) : poutput T :=
    {| vo_name := vo_name v; vo_description := vo_description v; vo_enabled := vo_enabled v; vo_min := vo_min v; vo_max := vo_max v;
       vo_lock_range := vo_lock_range v; vo_lock_previous := vo_lock_previous v; vo_default := vo_default v;
       vo_aggregation := vo_aggregation v; vo_defuzzifier := vo_defuzzifier v; vo_terms := map norm_term (vo_terms v);
       vo_value := nan; vo_previous := nan; vo_fuzzy_name := vo_name v; vo_fuzzy_terms := [] |}.
  Lemma normalize_opt_defuzzifier : forall o, match o with Some d => defuzzifier_wf d | None => True end ->
    normalize E (opt_val defuzzifier_val o) = Ok (opt_val defuzzifier_val o).
  Proof. destruct o; cbn [opt_val]; intros H; [apply normalize_defuzzifier, H|reflexivity]. Qed.
  Lemma normalize_output : forall v, output_wf v -> normalize E (output_val v) = Ok (output_val (norm_output v)).
  Proof.
    intros [n d en mn mx lr lp dv ag df ts val prev fzn fzt] [Hmn [Hmx [Hdv [Hag [Hdf Hts]]]]].
    cbn [vo_min vo_max vo_default vo_aggregation vo_defuzzifier vo_terms] in *. unfold PyReprProofs.fl_ok in Hmn, Hmx, Hdv.
    unfold output_val, norm_output.
    cbn [vo_name vo_description vo_enabled vo_min vo_max vo_lock_range vo_lock_previous vo_default vo_aggregation vo_defuzzifier vo_terms vo_value vo_previous vo_fuzzy_name vo_fuzzy_terms].
    open_obj. rewrite (normalize_terms Hts), (normalize_opt_norm _ Hag), (normalize_opt_defuzzifier _ Hdf).
    set (AG := opt_val norm_val ag). set (DF := opt_val defuzzifier_val df). set (FT := normalize E (VList fzt)).
    set (FZ := normalize E (VObj "Aggregated" _)).
    destruct (map term_val (map norm_term ts)) eqn:Hl; destruct d; destruct en; go.
  Qed.

  (* ---- rule blocks *)
  Definition block_wf (b : pblock T) : Prop :=
    opt_plain (bl_conjunction b) /\ opt_plain (bl_disjunction b) /\ opt_plain (bl_implication b) /\
    match bl_activation b with Some x => activation_wf x | None => True end /\ Forall rule_text_ok (bl_rules b).
  Definition norm_block (b : pblock T) : pblock T :=
    {| bl_name := bl_name b; bl_description := bl_description b; bl_enabled := bl_enabled b; bl_conjunction := bl_conjunction b;
       bl_disjunction := bl_disjunction b; bl_implication := bl_implication b; bl_activation := bl_activation b;
       bl_rules := map norm_rule (bl_rules b) |}.
  Lemma normalize_opt_activation : forall o, match o with Some x => activation_wf x | None => True end ->
    normalize E (opt_val activation_val o) = Ok (opt_val activation_val o).
  Proof. destruct o; cbn [opt_val]; intros H; [apply normalize_activation, H|reflexivity]. Qed.
  Lemma normalize_rules : forall rs, Forall rule_text_ok rs ->
    normalize E (VList (map rule_val rs)) = Ok (VList (map rule_val (map norm_rule rs))).
  Proof. intros rs H. apply normalize_list. eapply Forall_impl; [|exact H]. intros r Hr. apply normalize_rule, Hr. Qed.
  Lemma normalize_block : forall b, block_wf b -> normalize E (block_val b) = Ok (block_val (norm_block b)).
  Proof.
    intros [n d en cj dj im ac rs] [Hc [Hd [Hi [Ha Hr]]]]. cbn [bl_conjunction bl_disjunction bl_implication bl_activation bl_rules] in *.
    unfold block_val, norm_block.
    cbn [bl_name bl_description bl_enabled bl_conjunction bl_disjunction bl_implication bl_activation bl_rules].
    open_obj. rewrite (normalize_rules Hr), (normalize_opt_norm _ Hc), (normalize_opt_norm _ Hd), (normalize_opt_norm _ Hi), (normalize_opt_activation _ Ha).
    set (CJ := opt_val norm_val cj). set (DJ := opt_val norm_val dj). set (IM := opt_val norm_val im). set (AC := opt_val activation_val ac).
    destruct (map rule_val (map norm_rule rs)) eqn:Hl; destruct d; destruct en; go.
  Qed.

  Lemma forallb_forall_true : forall A (f : A -> pyval * bool) (l : list A), (forall x, snd (f x) = true) -> forallb snd (map f l) = true.
  Proof. intros A f l H. induction l as [|x l IH]; cbn; [reflexivity|]. rewrite H, IH. reflexivity. Qed.
  (* ---- the engine: Engine(load=True) sets the references of Linear / Function terms, parses the formulas, loads the rules *)
  Definition load_term (t : pterm T) : pterm T :=
    match t with
    | PLinear n cs _ => PLinear n cs true
    | PFunction n f vars _ _ => PFunction n f vars true true
    | _ => t
    end.
  Definition term_loadable (t : pterm T) : Prop :=
    match t with PFunction _ f _ false _ => formula_err E f = None | _ => True end.
  Lemma name_of_term : forall t, name_of (term_val t) = Some (pterm_name t).
  Proof. destruct t as [n s|n rows h|n cs e|n f vars l e]; [destruct s|..]; reflexivity. Qed.
  Lemma update_reference_term : forall t, term_loadable t -> update_reference E (term_val t) = Ok (term_val (load_term t)).
  Proof.
    destruct t as [n s|n rows h|n cs e|n f vars l e]; cbn [term_loadable load_term]; intros H.
    - destruct s; reflexivity.
    - reflexivity.
    - reflexivity.
    - destruct l; [reflexivity|]. unfold term_val, update_reference. cbn [String.eqb Ascii.eqb Bool.eqb set_assoc assoc truthy]. 
      unfold function_load. cbn [String.eqb Ascii.eqb Bool.eqb set_assoc assoc truthy]. rewrite H. reflexivity.
  Qed.
  Lemma update_reference_terms : forall ts, Forall term_loadable ts ->
    sequence (map (update_reference E) (map term_val ts)) = Ok (map term_val (map load_term ts)).
  Proof.
    intros ts H. rewrite map_map. apply sequence_map_ok.
    induction H as [|t ts Ht _ IH]; cbn [map]; constructor; [apply update_reference_term, Ht|exact IH].
  Qed.
  Lemma names_of_terms : forall ts,
    sequence (map (fun t => match name_of t with Some s => Ok s | None => Err EInternal end) (map term_val ts)) = Ok (map (@pterm_name T) ts).
  Proof.
    intros ts. rewrite map_map. apply sequence_map_ok. induction ts as [|t ts IH]; cbn [map]; constructor; [|exact IH].
    rewrite name_of_term. reflexivity.
  Qed.
  Definition load_input (v : pinput T) : pinput T :=
    {| vi_name := vi_name v; vi_description := vi_description v; vi_enabled := vi_enabled v; vi_min := vi_min v; vi_max := vi_max v;
       vi_lock_range := vi_lock_range v; vi_terms := map load_term (vi_terms v); vi_value := vi_value v |}.
  Definition load_output (v : poutput T) : poutput T :=
    {| vo_name := vo_name v; vo_description := vo_description v; vo_enabled := vo_enabled v; vo_min := vo_min v; vo_max := vo_max v;
       vo_lock_range := vo_lock_range v; vo_lock_previous := vo_lock_previous v; vo_default := vo_default v;
       vo_aggregation := vo_aggregation v; vo_defuzzifier := vo_defuzzifier v; vo_terms := map load_term (vo_terms v);
       vo_value := vo_value v; vo_previous := vo_previous v; vo_fuzzy_name := vo_fuzzy_name v; vo_fuzzy_terms := vo_fuzzy_terms v |}.
  Lemma load_input_val : forall v, Forall term_loadable (vi_terms v) ->
    on_terms (update_reference E) (input_val v) = Ok (input_val (load_input v)).
  Proof.
    intros [n d en mn mx lr ts val] H. cbn [vi_terms] in H. unfold input_val, load_input, on_terms.
    cbn [vi_name vi_description vi_enabled vi_min vi_max vi_lock_range vi_terms vi_value assoc String.eqb Ascii.eqb Bool.eqb].
    rewrite (update_reference_terms H). reflexivity.
  Qed.
  Lemma load_output_val : forall v, Forall term_loadable (vo_terms v) ->
    on_terms (update_reference E) (output_val v) = Ok (output_val (load_output v)).
  Proof.
    intros [n d en mn mx lr lp dv ag df ts val prev fzn fzt] H. cbn [vo_terms] in H. unfold output_val, load_output, on_terms.
    cbn [vo_name vo_description vo_enabled vo_min vo_max vo_lock_range vo_lock_previous vo_default vo_aggregation vo_defuzzifier vo_terms
         vo_value vo_previous vo_fuzzy_name vo_fuzzy_terms assoc String.eqb Ascii.eqb Bool.eqb].
    rewrite (update_reference_terms H). reflexivity.
  Qed.
  Definition input_ctx (v : pinput T) : string * list string := (vi_name v, map (@pterm_name T) (vi_terms v)).
  Definition output_ctx (v : poutput T) : string * list string := (vo_name v, map (@pterm_name T) (vo_terms v)).
  Lemma var_ctx_input : forall v, var_ctx (input_val v) = Ok (input_ctx v).
  Proof.
    intros [n d en mn mx lr ts val]. unfold input_val, var_ctx, input_ctx.
    cbn [vi_name vi_terms assoc String.eqb Ascii.eqb Bool.eqb]. rewrite names_of_terms. reflexivity.
  Qed.
  Lemma var_ctx_output : forall v, var_ctx (output_val v) = Ok (output_ctx v).
  Proof.
    intros [n d en mn mx lr lp dv ag df ts val prev fzn fzt]. unfold output_val, var_ctx, output_ctx.
    cbn [vo_name vo_terms assoc String.eqb Ascii.eqb Bool.eqb]. rewrite names_of_terms. reflexivity.
  Qed.
  Definition load_rule_t (r : prule T) : prule T :=
    {| ru_enabled := ru_enabled r; ru_weight := ru_weight r; ru_antecedent := ru_antecedent r; ru_consequent := ru_consequent r;
       ru_loaded := true; ru_degree := lit 0 0; ru_triggered := false |}.
  Definition load_block (b : pblock T) : pblock T :=
    {| bl_name := bl_name b; bl_description := bl_description b; bl_enabled := bl_enabled b; bl_conjunction := bl_conjunction b;
       bl_disjunction := bl_disjunction b; bl_implication := bl_implication b; bl_activation := bl_activation b;
       bl_rules := map load_rule_t (bl_rules b) |}.
  Definition rule_loads (ins outs : list (string * list string)) (r : prule T) : Prop :=
    rule_ok E ins outs (join_sp (ru_antecedent r)) (join_sp (ru_consequent r)) = true.
  Lemma load_rule_val : forall ins outs r, rule_loads ins outs r -> load_rule E ins outs (rule_val r) = Ok (rule_val (load_rule_t r), true).
  Proof.
    intros ins outs [en w ante cq l deg trig] H. unfold rule_loads in H. cbn [ru_antecedent ru_consequent] in H.
    unfold rule_val, load_rule, load_rule_t.
    cbn [ru_enabled ru_weight ru_antecedent ru_consequent ru_loaded ru_degree ru_triggered assoc set_assoc String.eqb Ascii.eqb Bool.eqb].
    rewrite H. reflexivity.
  Qed.
  Lemma load_rules_val : forall ins outs b, Forall (rule_loads ins outs) (bl_rules b) ->
    load_rules E ins outs (block_val b) = Ok (block_val (load_block b)).
  Proof.
    intros ins outs [n d en cj dj im ac rs] H. cbn [bl_rules] in H. unfold block_val, load_rules, load_block.
    cbn [bl_name bl_description bl_enabled bl_conjunction bl_disjunction bl_implication bl_activation bl_rules assoc set_assoc String.eqb Ascii.eqb Bool.eqb].
    rewrite map_map.
    rewrite (@sequence_map_ok _ _ (fun x => load_rule E ins outs (rule_val x)) rs (map (fun r => (rule_val (load_rule_t r), true)) rs)).
    - cbn [bind]. rewrite forallb_forall_true by reflexivity. rewrite !map_map. cbn [fst]. reflexivity.
    - induction H as [|r rs Hr _ IH]; cbn [map]; constructor; [apply load_rule_val, Hr|exact IH].
  Qed.

  Lemma Forall2_map_ok : forall A B (f : A -> result B) (g : A -> B) l,
    Forall (fun x => f x = Ok (g x)) l -> Forall2 (fun x y => f x = Ok y) l (map g l).
  Proof. induction 1; cbn [map]; constructor; assumption. Qed.
  Lemma engine_load_typed : forall n d ivs ovs rbs,
    Forall (fun v => Forall term_loadable (vi_terms v)) ivs -> Forall (fun v => Forall term_loadable (vo_terms v)) ovs ->
    Forall (fun b => Forall (rule_loads (map input_ctx (map load_input ivs)) (map output_ctx (map load_output ovs))) (bl_rules b)) rbs ->
    engine_load E [("name", VStr n); ("description", VStr d); ("input_variables", VList (map input_val ivs));
                   ("output_variables", VList (map output_val ovs)); ("rule_blocks", VList (map block_val rbs))]
    = Ok [("name", VStr n); ("description", VStr d); ("input_variables", VList (map input_val (map load_input ivs)));
          ("output_variables", VList (map output_val (map load_output ovs))); ("rule_blocks", VList (map block_val (map load_block rbs)))].
  Proof.
    intros n d ivs ovs rbs Hi Ho Hr. unfold engine_load. cbn [assoc String.eqb Ascii.eqb Bool.eqb].
    assert (A1 : sequence (map (on_terms (update_reference E)) (map input_val ivs)) = Ok (map input_val (map load_input ivs))).
    { rewrite !map_map. apply sequence_map_ok. apply Forall2_map_ok with (g := fun v => input_val (load_input v)). eapply Forall_impl; [|exact Hi]. intros v Hv. apply load_input_val, Hv. }
    assert (A2 : sequence (map (on_terms (update_reference E)) (map output_val ovs)) = Ok (map output_val (map load_output ovs))).
    { rewrite !map_map. apply sequence_map_ok. apply Forall2_map_ok with (g := fun v => output_val (load_output v)). eapply Forall_impl; [|exact Ho]. intros v Hv. apply load_output_val, Hv. }
    rewrite A1, A2. cbn [bind].
    assert (A3 : forall l, sequence (map (@var_ctx T) (map input_val l)) = Ok (map input_ctx l)).
    { intro l. rewrite map_map. apply sequence_map_ok. apply Forall2_map_ok. apply Forall_forall. intros v _. apply var_ctx_input. }
    assert (A4 : forall l, sequence (map (@var_ctx T) (map output_val l)) = Ok (map output_ctx l)).
    { intro l. rewrite map_map. apply sequence_map_ok. apply Forall2_map_ok. apply Forall_forall. intros v _. apply var_ctx_output. }
    rewrite A3, A4. cbn [bind].
    set (ins := map input_ctx (map load_input ivs)) in *. set (outs := map output_ctx (map load_output ovs)) in *.
    assert (A5 : sequence (map (load_rules E ins outs) (map block_val rbs)) = Ok (map block_val (map load_block rbs))).
    { rewrite !map_map. apply sequence_map_ok. apply Forall2_map_ok with (g := fun b => block_val (load_block b)). eapply Forall_impl; [|exact Hr]. intros b Hb. apply load_rules_val, Hb. }
    rewrite A5. reflexivity.
  Qed.
  Lemma engine_shell : forall n d (v1 v2 v3 : pyval) IV OV RB,
    normalize_obj E "Engine"
      [("name", ((VStr n, Ok (VStr n)), [])); ("description", ((VStr d, Ok (VStr d)), []));
       ("input_variables", ((v1, Ok (VList IV)), [])); ("output_variables", ((v2, Ok (VList OV)), []));
       ("rule_blocks", ((v3, Ok (VList RB)), []))]
    = (do fs <- engine_load E [("name", VStr n); ("description", VStr d); ("input_variables", VList IV);
                               ("output_variables", VList OV); ("rule_blocks", VList RB)];
       Ok (VObj "Engine" fs)).
  Proof.
    intros n d v1 v2 v3 IV OV RB. destruct d; destruct IV; destruct OV; destruct RB; cbv -[engine_load];
      match goal with |- context [engine_load E ?f] => destruct (engine_load E f) end; reflexivity.
  Qed.

  (* ---- the whole engine *)
  Definition norm_engine (e : pengine T) : pengine T :=
    {| en_name := en_name e; en_description := en_description e;
       en_inputs := map (fun v => load_input (norm_input v)) (en_inputs e);
       en_outputs := map (fun v => load_output (norm_output v)) (en_outputs e);
       en_blocks := map (fun b => load_block (norm_block b)) (en_blocks e) |}.
  Definition formula_ok (t : pterm T) : Prop := match t with PFunction _ f _ _ _ => formula_err E f = None | _ => True end.
  Definition engine_wf (e : pengine T) : Prop :=
    Forall input_wf (en_inputs e) /\ Forall output_wf (en_outputs e) /\ Forall block_wf (en_blocks e) /\
    Forall (fun v => Forall formula_ok (vi_terms v)) (en_inputs e) /\ Forall (fun v => Forall formula_ok (vo_terms v)) (en_outputs e) /\
    Forall (fun b => Forall (rule_loads (map input_ctx (en_inputs e)) (map output_ctx (en_outputs e))) (bl_rules b)) (en_blocks e).
  Lemma name_preserved : forall t, pterm_name (load_term (norm_term t)) = pterm_name t.
  Proof. destruct t; reflexivity. Qed.
  Lemma loadable_norm : forall t, formula_ok t -> term_loadable (norm_term t).
  Proof. destruct t; cbn; auto. Qed.
  Lemma input_ctx_preserved : forall l, map input_ctx (map load_input (map norm_input l)) = map input_ctx l.
  Proof.
    induction l as [|v l IH]; [reflexivity|]. cbn [map]. rewrite IH. f_equal. unfold input_ctx. cbn. f_equal.
    rewrite !map_map. apply map_ext. apply name_preserved.
  Qed.
  Lemma output_ctx_preserved : forall l, map output_ctx (map load_output (map norm_output l)) = map output_ctx l.
  Proof.
    induction l as [|v l IH]; [reflexivity|]. cbn [map]. rewrite IH. f_equal. unfold output_ctx. cbn. f_equal.
    rewrite !map_map. apply map_ext. apply name_preserved.
  Qed.
  Theorem normalize_engine : forall e, engine_wf e -> normalize E (engine_val e) = Ok (engine_val (norm_engine e)).
  Proof.
    intros [n d ivs ovs rbs] [Hi [Ho [Hb [Hfi [Hfo Hr]]]]]. cbn [en_inputs en_outputs en_blocks] in *.
    unfold engine_val, norm_engine. cbn [en_name en_description en_inputs en_outputs en_blocks].
    open_obj.
    rewrite (@normalize_list _ input_val norm_input ivs) by (eapply Forall_impl; [|exact Hi]; intros v Hv; apply normalize_input, Hv).
    rewrite (@normalize_list _ output_val norm_output ovs) by (eapply Forall_impl; [|exact Ho]; intros v Hv; apply normalize_output, Hv).
    rewrite (@normalize_list _ block_val norm_block rbs) by (eapply Forall_impl; [|exact Hb]; intros v Hv; apply normalize_block, Hv).
    cbn [normalize]. rewrite engine_shell.
    rewrite engine_load_typed.
    - cbn [bind]. rewrite !map_map. reflexivity.
    - apply Forall_forall. intros v Hv. apply in_map_iff in Hv. destruct Hv as [v0 [<- Hin]]. cbn [norm_input vi_terms].
      apply Forall_forall. intros t Ht. apply in_map_iff in Ht. destruct Ht as [t0 [<- Hin0]]. apply loadable_norm.
      rewrite Forall_forall in Hfi. specialize (Hfi v0 Hin). rewrite Forall_forall in Hfi. apply Hfi, Hin0.
    - apply Forall_forall. intros v Hv. apply in_map_iff in Hv. destruct Hv as [v0 [<- Hin]]. cbn [norm_output vo_terms].
      apply Forall_forall. intros t Ht. apply in_map_iff in Ht. destruct Ht as [t0 [<- Hin0]]. apply loadable_norm.
      rewrite Forall_forall in Hfo. specialize (Hfo v0 Hin). rewrite Forall_forall in Hfo. apply Hfo, Hin0.
    - rewrite input_ctx_preserved, output_ctx_preserved.
      apply Forall_forall. intros b Hbin. apply in_map_iff in Hbin. destruct Hbin as [b0 [<- Hin]]. cbn [norm_block bl_rules].
      apply Forall_forall. intros r Hrin. apply in_map_iff in Hrin. destruct Hrin as [r0 [<- Hin0]].
      rewrite Forall_forall in Hr. specialize (Hr b0 Hin). rewrite Forall_forall in Hr. exact (Hr r0 Hin0).
  Qed.
End Closed2.
