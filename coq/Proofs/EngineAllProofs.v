(* EngineAllProofs.v — Engine.process (Model/Engine.v) refines the documented pipeline for EVERY activation method
   (Spec/PipelineAll.v): C01 without `general_only`, and the history-freedom facts of C13 without it.

   Plan.
   1. the operations of `block_ops bi` on an engine state `mk_state s bi b rules outs` (block bi holds `rules`, the
      fuzzy outputs are `outs`): each touches rule i and the outputs only;
   2. `method_run`: the seven loops as pure functions of (rules, outs) — still with the rule records, positions and the
      heap — and `activate (block_ops bi) m … (mk_state …) = method_run …` (one lemma for the generic first loop
      `gloop` of ActivationProofs, one for the trigger-only second loops);
   3. forgetting the records: `method_run` computes the outputs of Spec/PipelineAll.v, one lemma `block_refines_<method>`
      per method (Highest / Lowest: under the order laws `PosOrder`, through `pop_all_sort_by` of ActivationProofs);
   4. blocks, defuzzification, `process_refines_pipeline_all`;
   5. frames of the specification (a block only appends activated terms; process keeps the rule blocks up to degrees/flags);
   6. C13 without `general_only`;
   7. what a block triggers (`block_triggered`), disabled / unselected rules contribute nothing, the Highest / Lowest order
      is THE sorted arrangement;
   8. what process leaves in the rules: `triggered_flag_iff_all`. *)
From Coq Require Import ZArith Bool List String Lia Sorting.Sorted Sorting.Permutation.
From VF Require Import Num GenNorm GenHedge GenTerm Core Discrete NpSum Defuzz Antecedent Consequent Activation
  Weighted Cascade Engine Ops Selection Pipeline PipelineAll ActivationProofs EngineProofs.
Import ListNotations.
Local Notation length := List.length.
Local Notation activation_degree := Antecedent.activation_degree.
Local Notation rmap := EngineProofs.rmap.
Local Open Scope list_scope.

(* ================================================================================================ *)
(* 0. lists                                                                                          *)
(* ================================================================================================ *)
Section ListsAll.
  Context {A : Type}.

  (* every listed (position, element) is in `l` at that position *)
  Definition agrees (l : list A) (xs : list (nat * A)) : Prop := forall i a, In (i, a) xs -> nth_error l i = Some a.

  Lemma agrees_numbered_from (pre l : list A) : agrees (pre ++ l) (combine (seq (length pre) (length l)) l).
  Proof.
    revert pre; induction l as [|a l IH]; intros pre i x Hin; cbn in Hin; [contradiction|].
    destruct Hin as [Heq | Hin].
    - injection Heq as <- <-. apply nth_error_middle.
    - specialize (IH (pre ++ [a])). rewrite length_snoc, snoc_app in IH. apply IH, Hin.
  Qed.

  Lemma agrees_numbered (l : list A) : agrees l (numbered l).
  Proof. exact (agrees_numbered_from [] l). Qed.

  Lemma numbered_fst (l : list A) : map fst (numbered l) = seq 0 (length l).
  Proof.
    unfold numbered. generalize 0. induction l as [|a l IH]; intros k; cbn; [reflexivity|]. rewrite IH. reflexivity.
  Qed.
  Lemma numbered_snd (l : list A) : map snd (numbered l) = l.
  Proof.
    unfold numbered. generalize 0. induction l as [|a l IH]; intros k; cbn; [reflexivity|]. rewrite IH. reflexivity.
  Qed.

  Lemma agrees_tail (l : list A) x xs : agrees l (x :: xs) -> agrees l xs.
  Proof. intros H i a Hin. apply H. right. exact Hin. Qed.

  Lemma agrees_set_nth (l : list A) xs i a : ~ In i (map fst xs) -> agrees l xs -> agrees (set_nth i a l) xs.
  Proof.
    intros Hni H j x Hin. rewrite nth_error_set_nth_neq; [apply H, Hin|].
    intros ->. apply Hni. exact (in_map fst _ _ Hin).
  Qed.

  Lemma agrees_rev (l : list A) xs : agrees l xs -> agrees l (rev xs).
  Proof. intros H i a Hin. apply H. apply in_rev. exact Hin. Qed.

  Lemma NoDup_rev_map_fst (xs : list (nat * A)) : NoDup (map fst xs) -> NoDup (map fst (rev xs)).
  Proof. intros H. rewrite map_rev. apply NoDup_rev, H. Qed.
End ListsAll.

(* ================================================================================================ *)
(* 1-2. the loops on the engine state are pure functions of (rules of the block, fuzzy outputs)      *)
(* ================================================================================================ *)
Section Run.
  Context {T : Type} {N : Num T}.
  Variable function_eval : engine T -> fnode T -> list (string * T) -> T -> result T.
  Hypothesis fe_ext : forall e1 e2 : engine T,
    e_inputs e1 = e_inputs e2 -> e_outputs e1 = e_outputs e2 -> function_eval e1 = function_eval e2.
  Notation tm := (term_membership function_eval).
  Notation outputs := (list (output_var T)).

  (* ---- the pure loops (E: the engine whose inputs are read; cj, dj, im: the block's operators) *)
  Section Pure.
    Variables (E : engine T) (cj : option tnormx) (dj : option snormx) (im : option tnormx).

    (* weight x antecedent of rule r against the fuzzy outputs `outs` *)
    Definition raw (outs : outputs) (r : rule T) : result T :=
      rule_activate_with (tm (view E outs)) cj dj (view E outs) r.

    (* the turn of rule r (position i) in a first loop: deactivate; when loaded evaluate and store, and trigger when
       `f` says so.  Returns the loop's accumulator, the record the rule is left with and the outputs. *)
    Definition visit {A : Type} (f : A -> nat -> T -> A * bool) (a : A) (i : nat) (r : rule T) (outs : outputs)
        : result (A * rule T * outputs) :=
      if rule_loaded r then
        do d <- raw outs r;
        if snd (f a i d) then do ro <- trigger (mk_rule r d false) im outs; Ok (fst (f a i d), fst ro, snd ro)
        else Ok (fst (f a i d), mk_rule r d false, outs)
      else Ok (a, rule_deactivated r, outs).

    Fixpoint visits {A : Type} (f : A -> nat -> T -> A * bool) (xs : list (nat * rule T)) (a : A)
        (rules : list (rule T)) (outs : outputs) : result (A * list (rule T) * outputs) :=
      match xs with
      | [] => Ok (a, rules, outs)
      | (i, r) :: xs' =>
          do v <- visit f a i r outs;
          visits f xs' (fst (fst v)) (set_nth i (snd (fst v)) rules) (snd v)
      end.

    (* the trigger-only second loops: the stored degree d becomes g d (Proportional: d / sum), then Rule.trigger *)
    Definition regrade (g : T -> T) (r : rule T) : rule T := rule_with_degree r (g (r_degree r)).
    Fixpoint trig_all (g : T -> T) (tl : list nat) (rules : list (rule T)) (outs : outputs)
        : result (list (rule T) * outputs) :=
      match tl with
      | [] => Ok (rules, outs)
      | i :: tl' =>
          match nth_error rules i with
          | None => Err EInternal
          | Some r => do ro <- trigger (regrade g r) im outs; trig_all g tl' (set_nth i (fst ro) rules) (snd ro)
          end
      end.

    Definition ident (d : T) : T := d.

    Definition heap_run (key : T -> T) (n : Z) (rules : list (rule T)) (outs : outputs) : result (list (rule T) * outputs) :=
      do v <- visits (f_heap key) (numbered rules) [] rules outs;
      trig_all ident (pop_order (length (fst (fst v))) n 0%Z (fst (fst v))) (snd (fst v)) (snd v).

    Definition method_run (m : activation T) (rules : list (rule T)) (outs : outputs) : result (list (rule T) * outputs) :=
      match m with
      | AGeneral => do v <- visits f_general (numbered rules) tt rules outs; Ok (snd (fst v), snd v)
      | AFirst n t => do v <- visits (f_first n t) (numbered rules) 0%Z rules outs; Ok (snd (fst v), snd v)
      | ALast n t => do v <- visits (f_first n t) (rev (numbered rules)) 0%Z rules outs; Ok (snd (fst v), snd v)
      | AThreshold c t => do v <- visits (f_threshold c t) (numbered rules) tt rules outs; Ok (snd (fst v), snd v)
      | AHighest n => heap_run neg n rules outs
      | ALowest n => heap_run (fun d => d) n rules outs
      | AProportional =>
          do v <- visits f_prop (numbered rules) ([], zero) rules outs;
          trig_all (fun d => div d (snd (fst (fst v)))) (fst (fst (fst v))) (snd (fst v)) (snd v)
      end.
  End Pure.

  Lemma regrade_ident (r : rule T) : regrade ident r = r.
  Proof. destruct r; reflexivity. Qed.

  (* ---- the operations of block bi on the state `mk_state s bi b0 rules outs` *)
  Section InBlock.
    Variables (s : engine T) (bi : nat) (b0 : block T) (E : engine T).
    Hypothesis Hbi : bi < length (e_blocks s).
    Hypothesis HE : e_inputs s = e_inputs E.
    Notation St := (mk_state s bi b0).
    Notation bops := (block_ops function_eval bi).
    Notation cj := (b_conjunction b0).
    Notation dj := (b_disjunction b0).
    Notation im := (b_implication b0).

    Lemma block_St rules outs : nth_error (e_blocks (St rules outs)) bi = Some (set_rules b0 rules).
    Proof. unfold mk_state. cbn [e_blocks]. apply nth_error_set_nth_eq, Hbi. Qed.

    Lemma get_rule_St_some rules outs i r :
      nth_error rules i = Some r -> get_rule (St rules outs) bi i = Some (set_rules b0 rules, r).
    Proof. intros H. unfold get_rule. rewrite block_St. cbn [b_rules set_rules]. rewrite H. reflexivity. Qed.

    Lemma get_rule_St_none rules outs i : nth_error rules i = None -> get_rule (St rules outs) bi i = None.
    Proof. intros H. unfold get_rule. rewrite block_St. cbn [b_rules set_rules]. rewrite H. reflexivity. Qed.

    Lemma with_rule_St_at rules outs i r' : with_rule (St rules outs) bi i r' = St (set_nth i r' rules) outs.
    Proof.
      unfold with_rule. rewrite block_St. unfold mk_state. cbn [e_blocks e_name e_inputs e_outputs].
      cbn [b_rules set_rules b_name b_enabled b_conjunction b_disjunction b_implication b_activation].
      rewrite set_nth_twice. reflexivity.
    Qed.

    Lemma nth_set_same (rules : list (rule T)) i r r' :
      nth_error rules i = Some r -> nth_error (set_nth i r' rules) i = Some r'.
    Proof. intros H. apply nth_error_set_nth_eq. exact (nth_error_lt _ _ _ H). Qed.

    Lemma deactivate_St rules outs i r : nth_error rules i = Some r ->
      op_deactivate bops (St rules outs) i = St (set_nth i (rule_deactivated r) rules) outs.
    Proof. intros H. cbn [block_ops op_deactivate]. rewrite (get_rule_St_some _ outs _ _ H). apply with_rule_St_at. Qed.

    Lemma is_loaded_St rules outs i r : nth_error rules i = Some r ->
      op_is_loaded bops (St rules outs) i = rule_loaded r.
    Proof. intros H. cbn [block_ops op_is_loaded]. rewrite (get_rule_St_some _ outs _ _ H). reflexivity. Qed.

    Lemma activate_with_St rules outs i r : nth_error rules i = Some r ->
      op_activate_with bops (St rules outs) i =
      (do d <- raw E cj dj outs r; Ok (d, St (set_nth i (rule_with_degree r d) rules) outs)).
    Proof.
      intros H. cbn [block_ops op_activate_with]. rewrite (get_rule_St_some _ outs _ _ H).
      cbn [b_conjunction b_disjunction set_rules]. unfold raw.
      rewrite (rule_activate_with_cong (tm (St rules outs)) cj dj (St rules outs) (view E outs) r r
                 HE eq_refl eq_refl eq_refl eq_refl).
      rewrite (term_membership_cong function_eval (St rules outs) (view E outs) HE
                 (fe_ext (St rules outs) (view E outs) HE eq_refl)).
      destruct (rule_activate_with (tm (view E outs)) cj dj (view E outs) r) as [d|x]; cbn [bind]; [|reflexivity].
      rewrite with_rule_St_at. reflexivity.
    Qed.

    Lemma trigger_St rules outs i r : nth_error rules i = Some r ->
      op_trigger bops (St rules outs) i =
      (do ro <- trigger r im outs; Ok (St (set_nth i (fst ro) rules) (snd ro))).
    Proof.
      intros H. cbn [block_ops op_trigger]. rewrite (get_rule_St_some _ outs _ _ H).
      cbn [b_implication set_rules e_outputs mk_state].
      destruct (trigger r im outs) as [[r' o']|x]; cbn [bind fst snd]; [|reflexivity].
      rewrite with_rule_St_at. reflexivity.
    Qed.

    Lemma trigger_St_none rules outs i : nth_error rules i = None -> op_trigger bops (St rules outs) i = Err EInternal.
    Proof. intros H. cbn [block_ops op_trigger]. rewrite (get_rule_St_none _ outs _ H). reflexivity. Qed.

    Lemma degree_St rules outs i r : nth_error rules i = Some r -> op_degree bops (St rules outs) i = r_degree r.
    Proof. intros H. cbn [block_ops op_degree]. rewrite (get_rule_St_some _ outs _ _ H). reflexivity. Qed.

    Lemma set_degree_St rules outs i r d : nth_error rules i = Some r ->
      op_set_degree bops (St rules outs) i d = St (set_nth i (rule_with_degree r d) rules) outs.
    Proof. intros H. cbn [block_ops op_set_degree]. rewrite (get_rule_St_some _ outs _ _ H). apply with_rule_St_at. Qed.

    Lemma set_degree_St_none rules outs i d : nth_error rules i = None -> op_set_degree bops (St rules outs) i d = St rules outs.
    Proof. intros H. cbn [block_ops op_set_degree]. rewrite (get_rule_St_none _ outs _ H). reflexivity. Qed.

    (* ---- the generic first loop *)
    Lemma gloop_St (A : Type) (check : bool) (f : A -> nat -> T -> A * bool) : forall xs a rules outs,
      NoDup (map fst xs) -> agrees rules xs ->
      gloop bops check f (map fst xs) a (St rules outs) =
      match visits E cj dj im f xs a rules outs with
      | Ok (a', rules', outs') => Ok (a', St rules' outs')
      | Err x => Err x
      end.
    Proof.
      induction xs as [|[i r] xs IH]; intros a rules outs ND AG.
      - reflexivity.
      - cbn [map fst] in ND |- *. inversion ND as [|? ? NI ND']; subst.
        pose proof (AG i r (or_introl eq_refl)) as Hn.
        assert (Hnext : forall r', agrees (set_nth i r' rules) xs)
          by (intros r'; apply agrees_set_nth; [exact NI | exact (agrees_tail _ _ _ AG)]).
        cbn [gloop visits]. rewrite (deactivate_St rules outs i _ Hn).
        pose proof (nth_set_same rules i _ (rule_deactivated r) Hn) as Hn1.
        rewrite (is_loaded_St _ outs i _ Hn1).
        change (rule_loaded (rule_deactivated r)) with (rule_loaded r).
        unfold visit. destruct (rule_loaded r) eqn:Hld.
        + rewrite (activate_with_St _ outs i _ Hn1).
          change (raw E cj dj outs (rule_deactivated r)) with (raw E cj dj outs r).
          destruct (raw E cj dj outs r) as [d|x]; cbn [bind]; [|reflexivity].
          rewrite set_nth_twice.
          change (rule_with_degree (rule_deactivated r) d) with (mk_rule r d false).
          assert (CK : (if check then assert_is_not_vector bops (St (set_nth i (mk_rule r d false) rules) outs) i else Ok tt) = Ok tt)
            by (destruct check; reflexivity).
          rewrite CK. cbn [bind]. destruct (f a i d) as [a' trig]. cbn [fst snd]. destruct trig.
          * pose proof (nth_set_same rules i _ (mk_rule r d false) Hn) as Hn2.
            rewrite (trigger_St _ outs i _ Hn2).
            destruct (trigger (mk_rule r d false) im outs) as [[r' o']|x]; cbn [bind fst snd]; [|reflexivity].
            rewrite set_nth_twice.
            apply IH; [exact ND' | apply Hnext].
          * cbn [bind fst snd]. apply IH; [exact ND' | apply Hnext].
        + cbn [bind fst snd]. apply IH; [exact ND' | apply Hnext].
    Qed.

    (* ---- the second loops *)
    Lemma step_all_trigger_St : forall tl rules outs,
      step_all (op_trigger bops) tl (St rules outs) =
      match trig_all im ident tl rules outs with
      | Ok (rules', outs') => Ok (St rules' outs')
      | Err x => Err x
      end.
    Proof.
      induction tl as [|i tl IH]; intros rules outs; [reflexivity|].
      cbn [step_all trig_all]. destruct (nth_error rules i) as [r|] eqn:Hn.
      - rewrite (trigger_St rules outs i _ Hn), regrade_ident.
        destruct (trigger r im outs) as [[r' o']|x]; cbn [bind fst snd]; [apply IH | reflexivity].
      - rewrite (trigger_St_none rules outs i Hn). reflexivity.
    Qed.

    Lemma step_all_prop_St sum : forall tl rules outs,
      step_all (prop_step bops sum) tl (St rules outs) =
      match trig_all im (fun d => div d sum) tl rules outs with
      | Ok (rules', outs') => Ok (St rules' outs')
      | Err x => Err x
      end.
    Proof.
      induction tl as [|i tl IH]; intros rules outs; [reflexivity|].
      cbn [step_all trig_all]. unfold prop_step at 1. destruct (nth_error rules i) as [r|] eqn:Hn.
      - rewrite (degree_St rules outs i _ Hn), (set_degree_St rules outs i _ _ Hn).
        rewrite (trigger_St _ outs i _ (nth_set_same rules i _ _ Hn)).
        change (rule_with_degree r (div (r_degree r) sum)) with (regrade (fun d => div d sum) r).
        destruct (trigger (regrade (fun d => div d sum) r) im outs) as [[r' o']|x]; cbn [bind fst snd]; [|reflexivity].
        rewrite set_nth_twice. apply IH.
      - rewrite (set_degree_St_none rules outs i _ Hn), (trigger_St_none rules outs i Hn). reflexivity.
    Qed.

    (* ---- Activation.activate on the block *)
    Lemma activate_St (m : activation T) rules outs :
      activate bops m (length rules) (St rules outs) =
      match method_run E cj dj im m rules outs with
      | Ok (rules', outs') => Ok (St rules' outs')
      | Err x => Err x
      end.
    Proof.
      assert (ND : NoDup (map fst (numbered rules))) by (rewrite numbered_fst; apply seq_NoDup).
      assert (NDr : NoDup (map fst (rev (numbered rules)))) by (apply NoDup_rev_map_fst, ND).
      pose proof (agrees_numbered rules) as AG. pose proof (agrees_rev _ _ AG) as AGr.
      unfold activate, activate_on. rewrite <- (numbered_fst rules).
      destruct m as [|n t|n t|n|n| |c t]; cbn [method_run].
      - rewrite general_loop_gloop, (gloop_St _ false f_general _ tt rules outs ND AG). unfold ActivationProofs.rmap.
        destruct (visits E cj dj im f_general (numbered rules) tt rules outs) as [[[a' r'] o']|x]; reflexivity.
      - rewrite first_loop_gloop, (gloop_St _ true (f_first n t) _ 0%Z rules outs ND AG). unfold ActivationProofs.rmap.
        destruct (visits E cj dj im (f_first n t) (numbered rules) 0%Z rules outs) as [[[a' r'] o']|x]; reflexivity.
      - rewrite <- map_rev. rewrite first_loop_gloop, (gloop_St _ true (f_first n t) _ 0%Z rules outs NDr AGr).
        unfold ActivationProofs.rmap.
        destruct (visits E cj dj im (f_first n t) (rev (numbered rules)) 0%Z rules outs) as [[[a' r'] o']|x]; reflexivity.
      - unfold heap_activate, heap_run. rewrite heap_collect_gloop, (gloop_St _ true (f_heap neg) _ [] rules outs ND AG).
        destruct (visits E cj dj im (f_heap neg) (numbered rules) [] rules outs) as [[[h r'] o']|x]; cbn [bind fst snd]; [|reflexivity].
        rewrite heap_pop_loop_step_all. apply step_all_trigger_St.
      - unfold heap_activate, heap_run. rewrite heap_collect_gloop, (gloop_St _ true (f_heap (fun d => d)) _ [] rules outs ND AG).
        destruct (visits E cj dj im (f_heap (fun d => d)) (numbered rules) [] rules outs) as [[[h r'] o']|x]; cbn [bind fst snd]; [|reflexivity].
        rewrite heap_pop_loop_step_all. apply step_all_trigger_St.
      - unfold prop_activate. rewrite prop_collect_gloop, (gloop_St _ true f_prop _ ([], zero) rules outs ND AG).
        unfold ActivationProofs.rmap.
        destruct (visits E cj dj im f_prop (numbered rules) ([], zero) rules outs) as [[[[acc sum] r'] o']|x]; cbn [bind fst snd]; [|reflexivity].
        rewrite prop_trigger_step_all. apply step_all_prop_St.
      - rewrite threshold_loop_gloop, (gloop_St _ true (f_threshold c t) _ tt rules outs ND AG). unfold ActivationProofs.rmap.
        destruct (visits E cj dj im (f_threshold c t) (numbered rules) tt rules outs) as [[[a' r'] o']|x]; reflexivity.
    Qed.
  End InBlock.
End Run.

(* ================================================================================================ *)
(* 3. forgetting the records: `method_run` computes the outputs of Spec/PipelineAll.v                *)
(* ================================================================================================ *)
Section CandLists.
  Context {T : Type} {N : Num T}.
  Notation candidate := (@candidate T).

  Lemma cd_with_same_degree (c : candidate) : cd_with_degree c (cd_degree c) = c.
  Proof. destruct c; reflexivity. Qed.

  Lemma insert_cand_key before (x : candidate) l :
    map (@cd_key T) (insert_cand before x l) = insert_by before (cd_key x) (map (@cd_key T) l).
  Proof.
    induction l as [|y l IH]; cbn [insert_cand insert_by map]; [reflexivity|].
    destruct (before (cd_key y) (cd_key x)); cbn [map]; [rewrite IH|]; reflexivity.
  Qed.
  Lemma sort_cands_key before (l : list candidate) :
    map (@cd_key T) (sort_cands before l) = sort_by before (map (@cd_key T) l).
  Proof. induction l as [|x l IH]; cbn [sort_cands sort_by map]; [reflexivity|]. rewrite insert_cand_key, IH. reflexivity. Qed.
  Lemma filter_positive_key (l : list candidate) :
    filter positive (map (@cd_key T) l) = map (@cd_key T) (filter cd_positive l).
  Proof.
    induction l as [|x l IH]; cbn [filter map]; [reflexivity|].
    change (positive (cd_key x)) with (cd_positive x). destruct (cd_positive x); cbn [map]; rewrite IH; reflexivity.
  Qed.
  Lemma key_fst (l : list candidate) : map fst (map (@cd_key T) l) = map (@cd_pos T) l.
  Proof. rewrite map_map. reflexivity. Qed.
  Lemma key_snd (l : list candidate) : map snd (map (@cd_key T) l) = map (@cd_degree T) l.
  Proof. rewrite map_map. reflexivity. Qed.

  Lemma insert_cand_perm before (x : candidate) l : Permutation (x :: l) (insert_cand before x l).
  Proof.
    induction l as [|y l IH]; cbn [insert_cand]; [apply Permutation_refl|].
    destruct (before (cd_key y) (cd_key x)); [|apply Permutation_refl].
    eapply perm_trans; [apply perm_swap|]. apply perm_skip, IH.
  Qed.
  Lemma sort_cands_perm before (l : list candidate) : Permutation l (sort_cands before l).
  Proof.
    induction l as [|x l IH]; cbn [sort_cands]; [apply Permutation_refl|].
    eapply perm_trans; [apply perm_skip, IH | apply insert_cand_perm].
  Qed.

  Lemma in_firstn_of {X : Type} k (l : list X) x : In x (firstn k l) -> In x l.
  Proof. revert l; induction k as [|k IH]; intros [|y l]; cbn; try tauto. intros [->|H]; auto. Qed.

  Lemma highest_selection_incl n (cs : list candidate) c : In c (highest_selection n cs) -> In c cs /\ cd_positive c = true.
  Proof.
    unfold highest_selection. intros H. apply in_firstn_of in H.
    apply (Permutation_in _ (Permutation_sym (sort_cands_perm before_desc _))) in H. apply filter_In in H. exact H.
  Qed.
  Lemma lowest_selection_incl n (cs : list candidate) c : In c (lowest_selection n cs) -> In c cs /\ cd_positive c = true.
  Proof.
    unfold lowest_selection. intros H. apply in_firstn_of in H.
    apply (Permutation_in _ (Permutation_sym (sort_cands_perm before_asc _))) in H. apply filter_In in H. exact H.
  Qed.
  Lemma sorted_selection_nodup before k (cs : list candidate) :
    NoDup (map (@cd_pos T) cs) -> NoDup (map (@cd_pos T) (firstn k (sort_cands before (filter cd_positive cs)))).
  Proof.
    intros ND. rewrite <- firstn_map. apply nodup_firstn.
    apply (Permutation_NoDup (Permutation_map _ (sort_cands_perm before _))).
    rewrite <- key_fst, <- filter_positive_key. apply nodup_filter_fst. rewrite key_fst. exact ND.
  Qed.
End CandLists.

Section Forget.
  Context {T : Type} {N : Num T}.
  Variable function_eval : engine T -> fnode T -> list (string * T) -> T -> result T.
  Notation tm := (term_membership function_eval).
  Notation outputs := (list (output_var T)).
  Variables (E : engine T) (b : block T).
  Notation cj := (b_conjunction b).
  Notation dj := (b_disjunction b).
  Notation im := (b_implication b).
  Notation vis := (visits function_eval E cj dj im).
  Notation fdeg := (firing_degree function_eval E b).

  Lemma raw_firing_degree outs r : raw function_eval E cj dj outs r = fdeg outs r.
  Proof. reflexivity. Qed.

  (* Rule.trigger on a loaded rule holding degree d *)
  Lemma trigger_loaded (r : rule T) (d : T) (t : bool) outs : rule_loaded r = true ->
    trigger (mk_rule r d t) im outs =
    (if r_enabled r then do outs' <- modify d im (r_consequent r) outs; Ok (mk_rule r d (gtb d zero), outs')
     else Ok (mk_rule r d false, outs)).
  Proof.
    intros Hl. unfold trigger, trigger_with. change (rule_loaded (mk_rule r d t)) with (rule_loaded r). rewrite Hl.
    cbn [negb r_enabled mk_rule r_degree r_consequent]. destruct (r_enabled r); reflexivity.
  Qed.

  Lemma trigger_fire (r : rule T) (d : T) (t : bool) outs : rule_loaded r = true ->
    rmap snd (trigger (mk_rule r d t) im outs) = fire b (r_enabled r) (r_consequent r) d outs.
  Proof.
    intros Hl. rewrite (trigger_loaded r d t outs Hl). unfold fire.
    destruct (r_enabled r); [|reflexivity]. destruct (modify d im (r_consequent r) outs); reflexivity.
  Qed.

  (* ---- interleaved methods *)
  Lemma visits_walk (A : Type) (f : A -> nat -> T -> A * bool) (decide : A -> T -> A * bool) :
    (forall a i d, f a i d = decide a d) ->
    forall xs a rules outs, rmap snd (vis f xs a rules outs) = walk function_eval decide E b a outs (map snd xs).
  Proof.
    intros Hf. induction xs as [|[i r] xs IH]; intros a rules outs; [reflexivity|].
    cbn [visits map snd walk]. unfold visit. destruct (rule_loaded r) eqn:Hld.
    - rewrite raw_firing_degree. destruct (fdeg outs r) as [d|x]; cbn [bind]; [|reflexivity].
      rewrite Hf. destruct (snd (decide a d)).
      + rewrite <- (trigger_fire r d false outs Hld).
        destruct (trigger (mk_rule r d false) im outs) as [[r' o']|x]; cbn [bind fst snd rmap]; [apply IH | reflexivity].
      + cbn [bind fst snd]. apply IH.
    - cbn [bind fst snd]. apply IH.
  Qed.

  Lemma walk_general : forall rs outs,
    walk function_eval general_decide E b tt outs rs = rules_contribution function_eval E b outs rs.
  Proof.
    induction rs as [|r rs IH]; intros outs; [reflexivity|].
    cbn [walk rules_contribution]. unfold rule_contribution, general_decide. cbn [fst snd]. unfold fire.
    destruct (rule_loaded r); [|cbn [bind]; apply IH].
    destruct (fdeg outs r) as [d|x]; cbn [bind]; [|reflexivity].
    destruct (r_enabled r); [|cbn [bind]; apply IH].
    destruct (modify d im (r_consequent r) outs); cbn [bind]; [apply IH | reflexivity].
  Qed.

  Lemma f_first_decide n t (a : Z) (i : nat) (d : T) : f_first n t a i d = first_decide n t a d.
  Proof. reflexivity. Qed.
  Lemma f_threshold_decide c t (a : unit) (i : nat) (d : T) : f_threshold c t a i d = threshold_decide c t a d.
  Proof. unfold f_threshold, threshold_decide. rewrite cmp_apply_holds. reflexivity. Qed.

  Notation run := (method_run function_eval E cj dj im).
  Notation spec := (method_contribution function_eval E b).

  Lemma rmap_bind_snd (A B : Type) (r : result (A * list (rule T) * B)) :
    rmap snd (do v <- r; Ok (snd (fst v), snd v)) = rmap snd r.
  Proof. destruct r as [[[a x] y]|]; reflexivity. Qed.

  Lemma block_refines_general outs : rmap snd (run AGeneral (b_rules b) outs) = spec AGeneral outs.
  Proof.
    cbn [method_run method_contribution]. rewrite rmap_bind_snd.
    rewrite (visits_walk unit f_general general_decide (fun _ _ _ => eq_refl)), numbered_snd. apply walk_general.
  Qed.
  Lemma block_refines_first n t outs : rmap snd (run (AFirst n t) (b_rules b) outs) = spec (AFirst n t) outs.
  Proof.
    cbn [method_run method_contribution]. rewrite rmap_bind_snd.
    rewrite (visits_walk Z (f_first n t) (first_decide n t) (f_first_decide n t)), numbered_snd. reflexivity.
  Qed.
  Lemma block_refines_last n t outs : rmap snd (run (ALast n t) (b_rules b) outs) = spec (ALast n t) outs.
  Proof.
    cbn [method_run method_contribution]. rewrite rmap_bind_snd.
    rewrite (visits_walk Z (f_first n t) (first_decide n t) (f_first_decide n t)), map_rev, numbered_snd. reflexivity.
  Qed.
  Lemma block_refines_threshold c t outs : rmap snd (run (AThreshold c t) (b_rules b) outs) = spec (AThreshold c t) outs.
  Proof.
    cbn [method_run method_contribution]. rewrite rmap_bind_snd.
    rewrite (visits_walk unit (f_threshold c t) (threshold_decide c t) (f_threshold_decide c t)), numbered_snd. reflexivity.
  Qed.
End Forget.

(* ---- two-phase methods *)
Section Forget2.
  Context {T : Type} {N : Num T}.
  Variable function_eval : engine T -> fnode T -> list (string * T) -> T -> result T.
  Notation tm := (term_membership function_eval).
  Notation outputs := (list (output_var T)).
  Notation candidate := (@candidate T).
  Variables (E : engine T) (b : block T).
  Notation cj := (b_conjunction b).
  Notation dj := (b_disjunction b).
  Notation im := (b_implication b).
  Notation vis := (visits function_eval E cj dj im).
  Notation fdeg := (firing_degree function_eval E b).
  Notation run := (method_run function_eval E cj dj im).
  Notation spec := (method_contribution function_eval E b).

  (* phase 1 as a list: (position, rule, Some degree when loaded) *)
  Notation evald := (nat * rule T * option T)%type.
  Fixpoint evals (outs : outputs) (xs : list (nat * rule T)) : result (list evald) :=
    match xs with
    | [] => Ok []
    | (i, r) :: xs' =>
        if rule_loaded r then do d <- fdeg outs r; do rest <- evals outs xs'; Ok ((i, r, Some d) :: rest)
        else do rest <- evals outs xs'; Ok ((i, r, None) :: rest)
    end.
  Definition ev_pos (v : evald) : nat := fst (fst v).
  Definition stored_rule (v : evald) : rule T :=
    match v with (_, r, Some d) => mk_rule r d false | (_, r, None) => rule_deactivated r end.
  Fixpoint store (ev : list evald) (rules : list (rule T)) : list (rule T) :=
    match ev with [] => rules | v :: ev' => store ev' (set_nth (ev_pos v) (stored_rule v) rules) end.
  Fixpoint cands_of (ev : list evald) : list candidate :=
    match ev with
    | [] => []
    | (i, r, Some d) :: ev' =>
        {| cd_pos := i; cd_degree := d; cd_enabled := r_enabled r; cd_conclusions := r_consequent r |} :: cands_of ev'
    | (_, _, None) :: ev' => cands_of ev'
    end.
  Definition entries (ev : list evald) : list (nat * T) := map (@cd_key T) (cands_of ev).
  Definition facc {A : Type} (f : A -> nat -> T -> A * bool) (ev : list evald) (a : A) : A :=
    fold_left (fun a p => fst (f a (fst p) (snd p))) (entries ev) a.

  Lemma visits_collect (A : Type) (f : A -> nat -> T -> A * bool) : (forall a i d, snd (f a i d) = false) ->
    forall xs a rules outs,
    vis f xs a rules outs =
    match evals outs xs with Ok ev => Ok (facc f ev a, store ev rules, outs) | Err x => Err x end.
  Proof.
    intros Hf. induction xs as [|[i r] xs IH]; intros a rules outs; [reflexivity|].
    cbn [visits evals]. unfold visit. destruct (rule_loaded r).
    - rewrite raw_firing_degree. destruct (fdeg outs r) as [d|x]; cbn [bind]; [|reflexivity].
      rewrite Hf. cbn [bind fst snd]. rewrite IH.
      destruct (evals outs xs) as [ev|x]; cbn [bind]; reflexivity.
    - cbn [bind fst snd]. rewrite IH. destruct (evals outs xs) as [ev|x]; cbn [bind]; reflexivity.
  Qed.

  Lemma candidates_evals : forall rs k outs,
    candidates function_eval E b outs k rs = rmap cands_of (evals outs (combine (seq k (length rs)) rs)).
  Proof.
    induction rs as [|r rs IH]; intros k outs; [reflexivity|].
    cbn [candidates length seq combine evals]. rewrite IH. destruct (rule_loaded r).
    - destruct (fdeg outs r) as [d|x]; cbn [bind]; [|reflexivity].
      destruct (evals outs (combine (seq (S k) (length rs)) rs)); reflexivity.
    - destruct (evals outs (combine (seq (S k) (length rs)) rs)); reflexivity.
  Qed.

  (* positions and records *)
  Lemma evals_pos : forall xs outs ev, evals outs xs = Ok ev -> map ev_pos ev = map fst xs.
  Proof.
    induction xs as [|[i r] xs IH]; intros outs ev H; cbn [evals] in H; [injection H as <-; reflexivity|].
    destruct (rule_loaded r).
    - destruct (fdeg outs r) as [d|]; cbn [bind] in H; [|discriminate].
      destruct (evals outs xs) as [ev'|] eqn:H1; cbn [bind] in H; [|discriminate]. injection H as <-.
      cbn [map]. rewrite (IH _ _ H1). reflexivity.
    - destruct (evals outs xs) as [ev'|] eqn:H1; cbn [bind] in H; [|discriminate]. injection H as <-.
      cbn [map]. rewrite (IH _ _ H1). reflexivity.
  Qed.

  Lemma evals_in : forall xs outs ev i r od, evals outs xs = Ok ev -> In (i, r, od) ev ->
    In (i, r) xs /\ (forall d, od = Some d -> rule_loaded r = true).
  Proof.
    induction xs as [|[i0 r0] xs IH]; intros outs ev i r od H Hin; cbn [evals] in H; [injection H as <-; contradiction|].
    destruct (rule_loaded r0) eqn:Hl.
    - destruct (fdeg outs r0) as [d0|]; cbn [bind] in H; [|discriminate].
      destruct (evals outs xs) as [ev'|] eqn:H1; cbn [bind] in H; [|discriminate]. injection H as <-.
      destruct Hin as [Heq | Hin].
      + injection Heq as <- <- <-. split; [left; reflexivity | intros; exact Hl].
      + destruct (IH _ _ _ _ _ H1 Hin) as (Ha & Hb). split; [right; exact Ha | exact Hb].
    - destruct (evals outs xs) as [ev'|] eqn:H1; cbn [bind] in H; [|discriminate]. injection H as <-.
      destruct Hin as [Heq | Hin].
      + injection Heq as <- <- <-. split; [left; reflexivity | intros; discriminate].
      + destruct (IH _ _ _ _ _ H1 Hin) as (Ha & Hb). split; [right; exact Ha | exact Hb].
  Qed.

  Lemma store_length : forall ev rules, length (store ev rules) = length rules.
  Proof. induction ev as [|v ev IH]; intros rules; cbn [store]; [reflexivity|]. rewrite IH. apply set_nth_length. Qed.

  Lemma store_other : forall ev rules j, ~ In j (map ev_pos ev) -> nth_error (store ev rules) j = nth_error rules j.
  Proof.
    induction ev as [|v ev IH]; intros rules j Hni; cbn [store]; [reflexivity|]. cbn [map] in Hni.
    rewrite IH by (intros H; apply Hni; right; exact H).
    apply nth_error_set_nth_neq. intros Heq. apply Hni. left. exact Heq.
  Qed.

  Lemma store_lookup : forall ev rules v, NoDup (map ev_pos ev) -> In v ev -> ev_pos v < length rules ->
    nth_error (store ev rules) (ev_pos v) = Some (stored_rule v).
  Proof.
    induction ev as [|v0 ev IH]; intros rules v ND Hin Hlt; [contradiction|].
    cbn [map] in ND. inversion ND as [|? ? NI ND']; subst. cbn [store]. destruct Hin as [-> | Hin].
    - rewrite store_other by exact NI. apply nth_error_set_nth_eq, Hlt.
    - apply IH; [exact ND' | exact Hin | rewrite set_nth_length; exact Hlt].
  Qed.

  Lemma cands_of_in : forall ev c, In c (cands_of ev) ->
    exists r, In (cd_pos c, r, Some (cd_degree c)) ev /\ cd_enabled c = r_enabled r /\ cd_conclusions c = r_consequent r.
  Proof.
    induction ev as [|[[i r] [d|]] ev IH]; intros c Hin; cbn [cands_of] in Hin; [contradiction| |].
    - destruct Hin as [<- | Hin].
      + exists r. cbn. split; [left; reflexivity | split; reflexivity].
      + destruct (IH c Hin) as (r' & H1 & H2). exists r'. split; [right; exact H1 | exact H2].
    - destruct (IH c Hin) as (r' & H1 & H2). exists r'. split; [right; exact H1 | exact H2].
  Qed.

  Lemma cands_of_pos_incl : forall ev, incl (map (@cd_pos T) (cands_of ev)) (map ev_pos ev).
  Proof.
    induction ev as [|[[i r] [d|]] ev IH]; cbn [cands_of map]; [apply incl_refl| |].
    - intros j [<- | H]; [left; reflexivity | right; apply IH, H].
    - intros j H. right. apply IH, H.
  Qed.
  Lemma cands_of_nodup : forall ev, NoDup (map ev_pos ev) -> NoDup (map (@cd_pos T) (cands_of ev)).
  Proof.
    induction ev as [|[[i r] [d|]] ev IH]; intros ND; cbn [cands_of map] in *; [constructor| |];
      inversion ND as [|? ? NI ND']; subst; [|apply IH, ND'].
    constructor; [|apply IH, ND']. intros H. apply NI. exact (cands_of_pos_incl ev _ H).
  Qed.

  (* ---- phase 2 on candidates *)
  Definition matches (rules : list (rule T)) (c : candidate) : Prop :=
    exists r, nth_error rules (cd_pos c) = Some r /\ rule_loaded r = true /\ r_degree r = cd_degree c /\
              r_enabled r = cd_enabled c /\ r_consequent r = cd_conclusions c.

  Lemma trig_cands (g : T -> T) : forall cs rules outs,
    NoDup (map (@cd_pos T) cs) -> (forall c, In c cs -> matches rules c) ->
    rmap snd (trig_all im g (map (@cd_pos T) cs) rules outs) =
    fire_all b outs (map (fun c => cd_with_degree c (g (cd_degree c))) cs).
  Proof.
    induction cs as [|c cs IH]; intros rules outs ND HM; [reflexivity|].
    cbn [map] in ND. inversion ND as [|? ? NI ND']; subst.
    destruct (HM c (or_introl eq_refl)) as (r & Hn & Hl & Hd & He & Hc).
    cbn [map trig_all fire_all]. rewrite Hn.
    change (regrade g r) with (mk_rule r (g (r_degree r)) (r_triggered r)).
    rewrite (trigger_loaded b r (g (r_degree r)) (r_triggered r) outs Hl).
    cbn [cd_with_degree cd_enabled cd_conclusions cd_degree]. unfold fire. rewrite <- He, <- Hc, <- Hd.
    assert (Hnext : forall r', forall c', In c' cs -> matches (set_nth (cd_pos c) r' rules) c').
    { intros r' c' Hin. destruct (HM c' (or_intror Hin)) as (r2 & Hn2 & Hrest). exists r2. split; [|exact Hrest].
      rewrite nth_error_set_nth_neq; [exact Hn2|]. intros Heq. apply NI. rewrite Heq. apply in_map, Hin. }
    destruct (r_enabled r).
    - destruct (modify (g (r_degree r)) im (r_consequent r) outs) as [o'|x]; cbn [bind fst snd rmap]; [|reflexivity].
      apply IH; [exact ND' | apply Hnext].
    - cbn [bind fst snd]. apply IH; [exact ND' | apply Hnext].
  Qed.

  Lemma map_with_same_degree (cs : list candidate) : map (fun c => cd_with_degree c (ident (cd_degree c))) cs = cs.
  Proof. induction cs as [|c cs IH]; cbn [map]; [reflexivity|]. f_equal; [apply cd_with_same_degree | exact IH]. Qed.

  (* after phase 1 every candidate is matched by the stored records *)
  Lemma store_matches rules xs outs ev :
    NoDup (map fst xs) -> agrees rules xs -> evals outs xs = Ok ev ->
    forall c, In c (cands_of ev) -> matches (store ev rules) c.
  Proof.
    intros ND AG Hev c Hin. destruct (cands_of_in ev c Hin) as (r & Hin' & He & Hc).
    destruct (evals_in _ _ _ _ _ _ Hev Hin') as (Hx & Hl).
    assert (NDe : NoDup (map ev_pos ev)) by (rewrite (evals_pos _ _ _ Hev); exact ND).
    pose proof (store_lookup ev rules (cd_pos c, r, Some (cd_degree c)) NDe Hin' (nth_error_lt _ _ _ (AG _ _ Hx))) as Hs.
    exists (mk_rule r (cd_degree c) false). split; [exact Hs|].
    split; [exact (Hl _ eq_refl)|]. split; [reflexivity|]. split; [symmetry; exact He | symmetry; exact Hc].
  Qed.

  (* ---- the accumulators of the collecting loops *)
  Lemma facc_heap key : forall (l : list (nat * T)) h,
    fold_left (fun a p => fst (f_heap key a (fst p) (snd p))) l h = h ++ heap_of key (filter positive l).
  Proof.
    induction l as [|[i d] l IH]; intros h; cbn [fold_left filter]; [rewrite app_nil_r; reflexivity|].
    rewrite IH. cbn [fst snd]. unfold f_heap. change (positive (i, d)) with (gtb d zero).
    destruct (gtb d zero); cbn [fst]; [|reflexivity]. cbn [heap_of map fst snd]. rewrite <- app_assoc. reflexivity.
  Qed.
  Lemma facc_prop : forall (l : list (nat * T)) acc sum,
    fold_left (fun a p => fst (f_prop a (fst p) (snd p))) l (acc, sum) =
    (acc ++ map fst (filter positive l), fold_left add (map snd (filter positive l)) sum).
  Proof.
    induction l as [|[i d] l IH]; intros acc sum; cbn [fold_left filter]; [rewrite app_nil_r; reflexivity|].
    cbn [fst snd]. unfold f_prop at 2. change (positive (i, d)) with (gtb d zero).
    destruct (gtb d zero); cbn [fst snd]; rewrite IH; [|reflexivity]. cbn [map fold_left fst snd]. rewrite <- app_assoc. reflexivity.
  Qed.

  (* ---- Highest / Lowest: the pops of the heap are the documented selection *)
  Section Heap.
    Hypothesis PO : PosOrder N.
    Variables (key : T -> T) (before : nat * T -> nat * T -> bool).
    Hypothesis before_key : forall p q, before p q = key_lt (hk key p) (hk key q).
    Hypothesis key_ord : forall a, ltb zero a = true -> eqb (key a) (key a) = true.

    Lemma pops_are_selection n (cs : list candidate) : NoDup (map (@cd_pos T) cs) ->
      let h := heap_of key (filter positive (map (@cd_key T) cs)) in
      pop_order (length h) n 0%Z h = map (@cd_pos T) (firstn (Z.to_nat n) (sort_cands before (filter cd_positive cs))).
    Proof.
      intros ND h. unfold h. set (l := filter positive (map (@cd_key T) cs)).
      assert (Hlen : length (heap_of key l) = length l) by apply map_length.
      rewrite Hlen, pop_order_pop_all, Z.sub_0_r.
      rewrite (pop_all_sort_by PO key before before_key key_ord (l := l)).
      - unfold heap_of. rewrite firstn_map, map_map. cbn [snd].
        unfold l. rewrite filter_positive_key, <- sort_cands_key, firstn_map, map_map. reflexivity.
      - unfold l. apply Forall_forall. intros p Hp. apply filter_In in Hp. exact (proj2 Hp).
      - unfold l. apply nodup_filter_fst. rewrite key_fst. exact ND.
    Qed.

    Lemma heap_run_outputs n outs :
      rmap snd (heap_run function_eval E cj dj im key n (b_rules b) outs) =
      (do cs <- candidates function_eval E b outs 0 (b_rules b);
       fire_all b outs (firstn (Z.to_nat n) (sort_cands before (filter cd_positive cs)))).
    Proof.
      unfold heap_run. rewrite (visits_collect _ (f_heap key)) by (intros a i d; unfold f_heap; destruct (gtb d zero); reflexivity).
      rewrite candidates_evals. change (combine (seq 0 (length (b_rules b))) (b_rules b)) with (numbered (b_rules b)).
      destruct (evals outs (numbered (b_rules b))) as [ev|x] eqn:Hev; cbn [bind fst snd rmap]; [|reflexivity].
      assert (NDx : NoDup (map fst (numbered (b_rules b)))) by (rewrite numbered_fst; apply seq_NoDup).
      assert (NDe : NoDup (map ev_pos ev)) by (rewrite (evals_pos _ _ _ Hev); exact NDx).
      pose proof (cands_of_nodup ev NDe) as NDc.
      unfold facc. rewrite facc_heap. cbn [app]. unfold entries.
      rewrite (pops_are_selection n (cands_of ev) NDc).
      rewrite (trig_cands ident).
      - rewrite map_with_same_degree. reflexivity.
      - apply sorted_selection_nodup, NDc.
      - intros c Hin. apply (store_matches (b_rules b) _ outs ev NDx (agrees_numbered _) Hev).
        apply in_firstn_of in Hin.
        apply (Permutation_in _ (Permutation_sym (sort_cands_perm before _))) in Hin. apply filter_In in Hin. exact (proj1 Hin).
    Qed.
  End Heap.

  Lemma block_refines_highest (PO : PosOrder N) n outs : rmap snd (run (AHighest n) (b_rules b) outs) = spec (AHighest n) outs.
  Proof. exact (heap_run_outputs PO neg before_desc (before_desc_key PO) (neg_ord PO) n outs). Qed.
  Lemma block_refines_lowest (PO : PosOrder N) n outs : rmap snd (run (ALowest n) (b_rules b) outs) = spec (ALowest n) outs.
  Proof. exact (heap_run_outputs PO (fun d => d) before_asc (before_asc_key PO) (po_pos_ord PO) n outs). Qed.

  Lemma block_refines_proportional outs : rmap snd (run AProportional (b_rules b) outs) = spec AProportional outs.
  Proof.
    cbn [method_run method_contribution]. unfold two_phase.
    rewrite (visits_collect _ f_prop) by (intros a i d; unfold f_prop; destruct (gtb d zero); reflexivity).
    rewrite candidates_evals. change (combine (seq 0 (length (b_rules b))) (b_rules b)) with (numbered (b_rules b)).
    destruct (evals outs (numbered (b_rules b))) as [ev|x] eqn:Hev; cbn [bind fst snd rmap]; [|reflexivity].
    assert (NDx : NoDup (map fst (numbered (b_rules b)))) by (rewrite numbered_fst; apply seq_NoDup).
    assert (NDe : NoDup (map ev_pos ev)) by (rewrite (evals_pos _ _ _ Hev); exact NDx).
    pose proof (cands_of_nodup ev NDe) as NDc.
    unfold facc. rewrite facc_prop. cbn [app fst snd]. unfold entries.
    rewrite filter_positive_key, key_fst, key_snd.
    change (fold_left add (map (@cd_degree T) (filter cd_positive (cands_of ev))) zero) with (positive_sum (cands_of ev)).
    rewrite (trig_cands (fun d => div d (positive_sum (cands_of ev)))).
    - reflexivity.
    - rewrite <- key_fst, <- filter_positive_key. apply nodup_filter_fst. rewrite key_fst. exact NDc.
    - intros c Hin. apply (store_matches (b_rules b) _ outs ev NDx (agrees_numbered _) Hev).
      apply filter_In in Hin. exact (proj1 Hin).
  Qed.

  (* ---- every method *)
  Lemma block_refines (PO : PosOrder N) m outs : rmap snd (run m (b_rules b) outs) = spec m outs.
  Proof.
    destruct m as [|n t|n t|n|n| |c t].
    - apply block_refines_general.
    - apply block_refines_first.
    - apply block_refines_last.
    - apply block_refines_highest, PO.
    - apply block_refines_lowest, PO.
    - apply block_refines_proportional.
    - apply block_refines_threshold.
  Qed.
  Lemma block_refines_no_heap m outs : (match m with AHighest _ | ALowest _ => False | _ => True end) ->
    rmap snd (run m (b_rules b) outs) = spec m outs.
  Proof.
    destruct m as [|n t|n t|n|n| |c t]; intros H; try contradiction.
    - apply block_refines_general.
    - apply block_refines_first.
    - apply block_refines_last.
    - apply block_refines_proportional.
    - apply block_refines_threshold.
  Qed.
End Forget2.

(* ================================================================================================ *)
(* 4. blocks, defuzzification, Engine.process                                                        *)
(* ================================================================================================ *)
Section RefinementAll.
  Context {T : Type} {N : Num T}.
  Variable function_eval : engine T -> fnode T -> list (string * T) -> T -> result T.
  Hypothesis fe_ext : forall e1 e2 : engine T,
    e_inputs e1 = e_inputs e2 -> e_outputs e1 = e_outputs e2 -> function_eval e1 = function_eval e2.
  Notation outputs := (list (output_var T)).

  (* one block with the records it leaves *)
  Definition block_run (E : engine T) (b : block T) (outs : outputs) : result (list (rule T) * outputs) :=
    match b_activation b with
    | None => Err EValue
    | Some m => method_run function_eval E (b_conjunction b) (b_disjunction b) (b_implication b) m (b_rules b) outs
    end.

  Fixpoint blocks_run (E : engine T) (outs : outputs) (bs : list (block T)) : result (list (block T) * outputs) :=
    match bs with
    | [] => Ok ([], outs)
    | b :: tl =>
        if b_enabled b then
          do ro <- block_run E b outs;
          do rest <- blocks_run E (snd ro) tl;
          Ok (set_rules b (fst ro) :: fst rest, snd rest)
        else do rest <- blocks_run E outs tl; Ok (b :: fst rest, snd rest)
    end.

  (* Engine.process for every activation method, records included *)
  Definition process_all_spec (e : engine T) : result (engine T) :=
    do bo <- blocks_run e (map clear_fuzzy (e_outputs e)) (e_blocks e);
    do outs <- pipeline_values function_eval e [] (snd bo);
    Ok {| e_name := e_name e; e_inputs := e_inputs e; e_outputs := outs; e_blocks := fst bo |}.

  Lemma activate_block_run (E s : engine T) bi b : nth_error (e_blocks s) bi = Some b -> e_inputs s = e_inputs E ->
    activate_block function_eval s bi b =
    match block_run E b (e_outputs s) with
    | Ok (rules', outs') => Ok (mk_state s bi b rules' outs')
    | Err x => Err x
    end.
  Proof.
    intros Hn HE. unfold activate_block, block_run. destruct (b_activation b) as [m|]; [|reflexivity].
    pose proof (activate_St function_eval fe_ext s bi b E (nth_error_lt _ _ _ Hn) HE m (b_rules b) (e_outputs s)) as H.
    rewrite (mk_state_id s bi b Hn) in H. exact H.
  Qed.

  Lemma activate_blocks_run (E : engine T) : forall bs doneB s,
    e_blocks s = doneB ++ bs -> e_inputs s = e_inputs E ->
    activate_blocks function_eval s (length doneB) bs =
    match blocks_run E (e_outputs s) bs with
    | Ok (bs', outs') => Ok (put s outs' (doneB ++ bs'))
    | Err x => Err x
    end.
  Proof.
    induction bs as [|b bs IH]; intros doneB s Hb HE.
    - cbn [activate_blocks blocks_run]. rewrite <- Hb, put_id. reflexivity.
    - cbn [activate_blocks blocks_run]. destruct (b_enabled b) eqn:Hen.
      + assert (Hnth : nth_error (e_blocks s) (length doneB) = Some b) by (rewrite Hb; apply nth_error_middle).
        rewrite (activate_block_run E s _ b Hnth HE).
        destruct (block_run E b (e_outputs s)) as [[rs' o']|x]; cbn [bind fst snd]; [|reflexivity].
        specialize (IH (doneB ++ [set_rules b rs']) (mk_state s (length doneB) b rs' o')).
        rewrite length_snoc in IH. rewrite IH; [| |exact HE].
        * cbn [e_outputs mk_state]. destruct (blocks_run E o' bs) as [[bs' o'']|x]; [|reflexivity].
          rewrite snoc_app. reflexivity.
        * cbn [e_blocks mk_state]. rewrite Hb, set_nth_middle, snoc_app. reflexivity.
      + specialize (IH (doneB ++ [b]) s). rewrite length_snoc in IH. rewrite IH; [| |exact HE].
        * destruct (blocks_run E (e_outputs s) bs) as [[bs' o'']|x]; cbn [bind fst snd]; [|reflexivity].
          rewrite snoc_app. reflexivity.
        * rewrite Hb, snoc_app. reflexivity.
  Qed.

  (* ---- Engine.process is the pipeline with records, whatever the activation methods *)
  Theorem process_eq_all_spec (e : engine T) : process function_eval e = process_all_spec e.
  Proof.
    unfold process, process_all_spec. cbv zeta.
    pose proof (activate_blocks_run e (e_blocks e) [] (with_outputs e (map clear_fuzzy (e_outputs e))) eq_refl eq_refl) as H.
    cbn [length e_blocks with_outputs e_outputs app] in H |- *. rewrite H. clear H.
    destruct (blocks_run e (map clear_fuzzy (e_outputs e)) (e_blocks e)) as [[bs' o']|x]; cbn [bind fst snd]; [|reflexivity].
    pose proof (defuzzify_outputs_spec function_eval fe_ext e o' o' [] (put (with_outputs e (map clear_fuzzy (e_outputs e))) o' bs')
                  eq_refl eq_refl eq_refl) as H.
    cbn [length e_outputs put] in H |- *. rewrite H.
    destruct (pipeline_values function_eval e [] o'); reflexivity.
  Qed.

  (* ---- forgetting the records *)
  Definition blocks_heap_free (bs : list (block T)) : Prop :=
    forall b, In b bs -> b_enabled b = true -> uses_heap b = false.

  Lemma block_run_contribution (PO : PosOrder N) (E : engine T) b outs :
    rmap snd (block_run E b outs) = block_all_contribution function_eval E b outs.
  Proof.
    unfold block_run, block_all_contribution. destruct (b_activation b) as [m|]; [|reflexivity].
    apply block_refines, PO.
  Qed.
  Lemma block_run_contribution_no_heap (E : engine T) b outs : uses_heap b = false ->
    rmap snd (block_run E b outs) = block_all_contribution function_eval E b outs.
  Proof.
    unfold block_run, block_all_contribution, uses_heap. destruct (b_activation b) as [m|]; [|reflexivity].
    intros H. apply block_refines_no_heap. destruct m; try exact I; discriminate H.
  Qed.

  Lemma blocks_run_contribution (E : engine T) bs : PosOrder N \/ blocks_heap_free bs -> forall outs,
    rmap snd (blocks_run E outs bs) = blocks_all_contribution function_eval E outs bs.
  Proof.
    induction bs as [|b bs IH]; intros HP outs; cbn [blocks_run blocks_all_contribution]; [reflexivity|].
    assert (HP' : PosOrder N \/ blocks_heap_free bs).
    { destruct HP as [PO | HF]; [left; exact PO | right]. intros b' Hin. apply HF. right. exact Hin. }
    destruct (b_enabled b) eqn:Hen.
    - assert (Hb : rmap snd (block_run E b outs) = block_all_contribution function_eval E b outs).
      { destruct HP as [PO | HF]; [apply block_run_contribution, PO|].
        apply block_run_contribution_no_heap. exact (HF b (or_introl eq_refl) Hen). }
      rewrite <- Hb. destruct (block_run E b outs) as [[rs' o']|x]; cbn [bind fst snd rmap]; [|reflexivity].
      rewrite <- (IH HP'). destruct (blocks_run E o' bs) as [[bs' o'']|x]; reflexivity.
    - rewrite <- (IH HP'). destruct (blocks_run E outs bs) as [[bs' o'']|x]; reflexivity.
  Qed.

  Lemma process_all_spec_outputs (e : engine T) : PosOrder N \/ heap_free e ->
    rmap (@e_outputs T) (process_all_spec e) = pipeline_all_outputs function_eval e.
  Proof.
    intros HP. unfold process_all_spec, pipeline_all_outputs, pipeline_all_fuzzy.
    rewrite <- (blocks_run_contribution e (e_blocks e) HP).
    destruct (blocks_run e _ (e_blocks e)) as [[bs' o']|x]; cbn [bind fst snd rmap]; [|reflexivity].
    destruct (pipeline_values function_eval e [] o'); reflexivity.
  Qed.

  Theorem process_outputs_eq_pipeline_all (e : engine T) : PosOrder N \/ heap_free e ->
    process_outputs function_eval e = pipeline_all_outputs function_eval e.
  Proof. intros HP. unfold process_outputs. rewrite process_eq_all_spec. apply process_all_spec_outputs, HP. Qed.

  (* C01 for every activation method *)
  Theorem process_refines_pipeline_all_gen (e : engine T) : PosOrder N \/ heap_free e ->
    match process function_eval e, pipeline_all_outputs function_eval e with
    | Ok e', Ok outs => e_outputs e' = outs /\ e_inputs e' = e_inputs e
    | Err x, Err y => x = y
    | _, _ => False
    end.
  Proof.
    intros HP. pose proof (process_outputs_eq_pipeline_all e HP) as H. unfold process_outputs in H.
    destruct (process function_eval e) as [e'|x] eqn:Hp; cbn [rmap] in H; rewrite <- H; [|reflexivity].
    split; [reflexivity|]. exact (frame_inputs function_eval e e' Hp).
  Qed.

  Theorem process_refines_pipeline_all (PO : PosOrder N) (e : engine T) :
    match process function_eval e, pipeline_all_outputs function_eval e with
    | Ok e', Ok outs => e_outputs e' = outs /\ e_inputs e' = e_inputs e
    | Err x, Err y => x = y
    | _, _ => False
    end.
  Proof. apply process_refines_pipeline_all_gen. left. exact PO. Qed.

  Theorem process_refines_pipeline_all_heap_free (e : engine T) : heap_free e ->
    match process function_eval e, pipeline_all_outputs function_eval e with
    | Ok e', Ok outs => e_outputs e' = outs /\ e_inputs e' = e_inputs e
    | Err x, Err y => x = y
    | _, _ => False
    end.
  Proof. intros H. apply process_refines_pipeline_all_gen. right. exact H. Qed.

  (* for General-only engines the new specification is the old one *)
  Lemma blocks_all_contribution_general (E : engine T) : forall bs outs, blocks_general bs ->
    blocks_all_contribution function_eval E outs bs = blocks_contribution function_eval E outs bs.
  Proof.
    induction bs as [|b bs IH]; intros outs Hg; cbn [blocks_all_contribution blocks_contribution]; [reflexivity|].
    assert (Hg' : blocks_general bs) by (intros b' Hin; apply Hg; right; exact Hin).
    destruct (b_enabled b) eqn:Hen; [|apply IH, Hg'].
    pose proof (Hg b (or_introl eq_refl) Hen) as Hgen. unfold is_general in Hgen.
    unfold block_all_contribution. destruct (b_activation b) as [[]|]; try discriminate Hgen. cbn [method_contribution].
    destruct (rules_contribution function_eval E b outs (b_rules b)); cbn [bind]; [apply IH, Hg' | reflexivity].
  Qed.

  Theorem general_case_agrees (e : engine T) : general_only e ->
    pipeline_all_outputs function_eval e = pipeline_outputs function_eval e.
  Proof.
    intros Hg. unfold pipeline_all_outputs, pipeline_all_fuzzy, pipeline_outputs, pipeline_fuzzy.
    rewrite (blocks_all_contribution_general e (e_blocks e) _ Hg). reflexivity.
  Qed.

  Lemma general_only_heap_free (e : engine T) : general_only e -> heap_free e.
  Proof.
    intros Hg b Hin Hen. pose proof (Hg b Hin Hen) as H. unfold is_general in H. unfold uses_heap.
    destruct (b_activation b) as [[]|]; try discriminate H. reflexivity.
  Qed.
End RefinementAll.

(* ================================================================================================ *)
(* 5. frames of the specification: a block only APPENDS activated terms                              *)
(* ================================================================================================ *)
Section GrowAll.
  Context {T : Type} {N : Num T}.
  Variable function_eval : engine T -> fnode T -> list (string * T) -> T -> result T.
  Notation outputs := (list (output_var T)).

  Lemma grow_refl (outs : outputs) : Forall2 ov_grow outs outs.
  Proof. apply Forall2_refl_of, ov_grow_refl. Qed.
  Lemma grow_trans (o1 o2 o3 : outputs) : Forall2 ov_grow o1 o2 -> Forall2 ov_grow o2 o3 -> Forall2 ov_grow o1 o3.
  Proof. apply Forall2_trans_of. exact (@ov_grow_trans T). Qed.

  Lemma fire_grow (b : block T) en cs d outs outs' : fire b en cs d outs = Ok outs' -> Forall2 ov_grow outs outs'.
  Proof. unfold fire. destruct en; [apply modify_grow | intros H; injection H as <-; apply grow_refl]. Qed.

  Lemma walk_grow (A : Type) (decide : A -> T -> A * bool) (E : engine T) b : forall rs a outs outs',
    walk function_eval decide E b a outs rs = Ok outs' -> Forall2 ov_grow outs outs'.
  Proof.
    induction rs as [|r rs IH]; intros a outs outs' H; cbn [walk] in H; [injection H as <-; apply grow_refl|].
    destruct (rule_loaded r); [|exact (IH _ _ _ H)].
    destruct (firing_degree function_eval E b outs r) as [d|]; cbn [bind] in H; [|discriminate].
    destruct (snd (decide a d)); [|exact (IH _ _ _ H)].
    destruct (fire b (r_enabled r) (r_consequent r) d outs) as [o|] eqn:H1; cbn [bind] in H; [|discriminate].
    exact (grow_trans _ _ _ (fire_grow _ _ _ _ _ _ H1) (IH _ _ _ H)).
  Qed.

  Lemma fire_all_grow (b : block T) : forall cs outs outs', fire_all b outs cs = Ok outs' -> Forall2 ov_grow outs outs'.
  Proof.
    induction cs as [|c cs IH]; intros outs outs' H; cbn [fire_all] in H; [injection H as <-; apply grow_refl|].
    destruct (fire b (cd_enabled c) (cd_conclusions c) (cd_degree c) outs) as [o|] eqn:H1; cbn [bind] in H; [|discriminate].
    exact (grow_trans _ _ _ (fire_grow _ _ _ _ _ _ H1) (IH _ _ H)).
  Qed.

  Lemma two_phase_grow select (E : engine T) b outs outs' :
    two_phase function_eval select E b outs = Ok outs' -> Forall2 ov_grow outs outs'.
  Proof.
    unfold two_phase. destruct (candidates function_eval E b outs 0 (b_rules b)) as [cs|]; cbn [bind]; [|discriminate].
    apply fire_all_grow.
  Qed.

  Lemma block_all_contribution_grow (E : engine T) b outs outs' :
    block_all_contribution function_eval E b outs = Ok outs' -> Forall2 ov_grow outs outs'.
  Proof.
    unfold block_all_contribution. destruct (b_activation b) as [m|]; [|discriminate].
    destruct m; cbn [method_contribution];
      [apply rules_contribution_grow | apply walk_grow | apply walk_grow | apply two_phase_grow | apply two_phase_grow
      | apply two_phase_grow | apply walk_grow].
  Qed.

  Lemma blocks_all_contribution_grow (E : engine T) : forall bs outs outs',
    blocks_all_contribution function_eval E outs bs = Ok outs' -> Forall2 ov_grow outs outs'.
  Proof.
    induction bs as [|b bs IH]; intros outs outs' H; cbn [blocks_all_contribution] in H; [injection H as <-; apply grow_refl|].
    destruct (b_enabled b); [|exact (IH _ _ H)].
    destruct (block_all_contribution function_eval E b outs) as [o|] eqn:H1; cbn [bind] in H; [|discriminate].
    exact (grow_trans _ _ _ (block_all_contribution_grow _ _ _ _ H1) (IH _ _ H)).
  Qed.

  (* ---- process keeps the rule blocks up to stored degrees and flags, whatever the methods *)
  Lemma map_set_nth_same {A B : Type} (f : A -> B) (l : list A) i x y :
    nth_error l i = Some y -> f x = f y -> map f (set_nth i x l) = map f l.
  Proof.
    revert i; induction l as [|a l IH]; intros [|i] Hn Hf; cbn in *; try discriminate.
    - injection Hn as ->. rewrite Hf. reflexivity.
    - rewrite (IH i Hn Hf). reflexivity.
  Qed.

  Lemma with_rule_static (e : engine T) bi ri b r r' :
    get_rule e bi ri = Some (b, r) -> rule_deactivated r' = rule_deactivated r ->
    map (@block_deactivated T N) (e_blocks (with_rule e bi ri r')) = map (@block_deactivated T N) (e_blocks e).
  Proof.
    unfold get_rule, with_rule. destruct (nth_error (e_blocks e) bi) as [b1|] eqn:Hb; [|discriminate].
    destruct (nth_error (b_rules b1) ri) as [r1|] eqn:Hr; [|discriminate]. intros H Hs; injection H as <- <-.
    cbn [e_blocks]. apply (map_set_nth_same _ _ _ _ _ Hb).
    unfold block_deactivated. cbn [b_name b_enabled b_conjunction b_disjunction b_implication b_activation b_rules].
    rewrite (map_set_nth_same _ _ _ _ _ Hr Hs). reflexivity.
  Qed.

  Lemma trigger_static (r r' : rule T) im outs outs' : trigger r im outs = Ok (r', outs') -> rule_deactivated r' = rule_deactivated r.
  Proof.
    unfold trigger, trigger_with. destruct (negb (rule_loaded r)); [discriminate|]. destruct (r_enabled r) eqn:He.
    - destruct (modify _ im _ outs); cbn [bind]; [|discriminate]. intros H; injection H as <- _. reflexivity.
    - intros H; injection H as <- _. reflexivity.
  Qed.

  Lemma with_rule_name (e : engine T) bi ri r' : e_name (with_rule e bi ri r') = e_name e.
  Proof. unfold with_rule. destruct (nth_error (e_blocks e) bi); reflexivity. Qed.

  (* what activation keeps of the engine: the name and the blocks up to stored degrees / flags *)
  Definition same_blocks (e s : engine T) : Prop :=
    map (@block_deactivated T N) (e_blocks s) = map (@block_deactivated T N) (e_blocks e) /\ e_name s = e_name e.

  Lemma with_rule_same_blocks (e s : engine T) bi ri b r r' :
    get_rule s bi ri = Some (b, r) -> rule_deactivated r' = rule_deactivated r ->
    same_blocks e s -> same_blocks e (with_rule s bi ri r').
  Proof.
    intros Hg Hs [H1 H2]. split; [rewrite (with_rule_static s bi ri b r r' Hg Hs); exact H1 | rewrite with_rule_name; exact H2].
  Qed.

  Lemma activate_block_structure (e e' : engine T) bi b :
    activate_block function_eval e bi b = Ok e' -> same_blocks e e'.
  Proof.
    unfold activate_block. destruct (b_activation b) as [m|]; [|discriminate].
    apply (activate_inv (block_ops function_eval bi) (same_blocks e)); [| | | |split; reflexivity].
    - intros s i HP. cbn [block_ops op_deactivate]. destruct (get_rule s bi i) as [[b1 r1]|] eqn:Hg; [|exact HP].
      exact (with_rule_same_blocks e s bi i b1 r1 (rule_deactivated r1) Hg eq_refl HP).
    - intros s i d s' HP. cbn [block_ops op_activate_with]. destruct (get_rule s bi i) as [[b1 r1]|] eqn:Hg; [|discriminate].
      destruct (rule_activate_with _ _ _ s _) as [d'|]; cbn [bind]; [|discriminate]. intros H; injection H as _ <-.
      exact (with_rule_same_blocks e s bi i b1 r1 (rule_with_degree r1 d') Hg eq_refl HP).
    - intros s i s' HP. cbn [block_ops op_trigger]. destruct (get_rule s bi i) as [[b1 r1]|] eqn:Hg; [|discriminate].
      destruct (trigger r1 (b_implication b1) (e_outputs s)) as [[r2 o2]|] eqn:Ht; cbn [bind fst snd]; [|discriminate].
      intros H; injection H as <-.
      exact (with_rule_same_blocks e s bi i b1 r1 r2 Hg (trigger_static _ _ _ _ _ Ht) HP).
    - intros s i d HP. cbn [block_ops op_set_degree]. destruct (get_rule s bi i) as [[b1 r1]|] eqn:Hg; [|exact HP].
      exact (with_rule_same_blocks e s bi i b1 r1 (rule_with_degree r1 d) Hg eq_refl HP).
  Qed.

  Lemma same_blocks_trans (e1 e2 e3 : engine T) : same_blocks e1 e2 -> same_blocks e2 e3 -> same_blocks e1 e3.
  Proof. intros [H1 H2] [H3 H4]. split; congruence. Qed.

  Lemma activate_blocks_structure : forall bs (e e' : engine T) bi,
    activate_blocks function_eval e bi bs = Ok e' -> same_blocks e e'.
  Proof.
    induction bs as [|b bs IH]; intros e e' bi H; cbn [activate_blocks] in H; [injection H as <-; split; reflexivity|].
    destruct (b_enabled b); [|exact (IH _ _ _ H)].
    destruct (activate_block function_eval e bi b) as [e1|] eqn:H1; cbn [bind] in H; [|discriminate].
    exact (same_blocks_trans _ _ _ (activate_block_structure _ _ _ _ H1) (IH _ _ _ H)).
  Qed.

  Lemma defuzzify_outputs_blocks : forall (cnt : list (output_var T)) (e e' : engine T) oi,
    defuzzify_outputs function_eval e oi cnt = Ok e' -> e_blocks e' = e_blocks e /\ e_name e' = e_name e.
  Proof.
    induction cnt as [|c cnt IH]; intros e e' oi H; cbn [defuzzify_outputs] in H; [injection H as <-; split; reflexivity|].
    destruct (nth_error (e_outputs e) oi) as [ov|]; [|discriminate].
    destruct (output_defuzzify function_eval e ov); cbn [bind] in H; [|discriminate].
    destruct (IH _ _ _ H) as [H1 H2]. rewrite H1, H2. split; reflexivity.
  Qed.

  Theorem process_blocks_structure (e e' : engine T) : process function_eval e = Ok e' ->
    map (@block_deactivated T N) (e_blocks e') = map (@block_deactivated T N) (e_blocks e) /\ e_name e' = e_name e.
  Proof.
    unfold process. cbv zeta.
    destruct (activate_blocks function_eval _ 0 _) as [e1|] eqn:H1; cbn [bind]; [|discriminate]. intros H.
    destruct (defuzzify_outputs_blocks _ _ _ _ H) as [Hb Hn]. destruct (activate_blocks_structure _ _ _ _ H1) as [Hb1 Hn1].
    rewrite Hb, Hn, Hb1, Hn1. split; reflexivity.
  Qed.
End GrowAll.

(* ================================================================================================ *)
(* 6. C13 without `general_only`                                                                     *)
(* ================================================================================================ *)
Section HistoryAll.
  Context {T : Type} {N : Num T}.
  Variable function_eval : engine T -> fnode T -> list (string * T) -> T -> result T.
  Hypothesis fe_no_output_values : forall e1 e2 : engine T,
    e_inputs e1 = e_inputs e2 -> map ov_static (e_outputs e1) = map ov_static (e_outputs e2) ->
    function_eval e1 = function_eval e2.
  Let fe_ext := fe_ext_of_no_output_values function_eval fe_no_output_values.
  Notation outputs := (list (output_var T)).
  Notation process := (process function_eval).

  (* ---- the activation stage of the specification commutes with forgetting value / previous value *)
  Lemma fire_hf (b1 b2 : block T) en cs d (outs1 outs2 : outputs) :
    b_implication b1 = b_implication b2 -> map ov_ev outs1 = map ov_ev outs2 ->
    rmap (map ov_ev) (fire b1 en cs d outs1) = rmap (map ov_ev) (fire b2 en cs d outs2).
  Proof.
    intros Hi Ho. unfold fire. rewrite Hi. destruct en; [|cbn [rmap]; congruence].
    rewrite <- !modify_ev, Ho. reflexivity.
  Qed.

  Section TwoBlocks.
    Variables (E1 E2 : engine T) (b1 b2 : block T).
    Hypothesis HE : e_inputs E1 = e_inputs E2.
    Hypothesis Hc : b_conjunction b1 = b_conjunction b2.
    Hypothesis Hd : b_disjunction b1 = b_disjunction b2.
    Hypothesis Hi : b_implication b1 = b_implication b2.

    Lemma walk_hf (A : Type) (decide : A -> T -> A * bool) : forall rs1 rs2 a (outs1 outs2 : outputs),
      map ov_ev outs1 = map ov_ev outs2 -> map (@rule_deactivated T N) rs1 = map (@rule_deactivated T N) rs2 ->
      rmap (map ov_ev) (walk function_eval decide E1 b1 a outs1 rs1) =
      rmap (map ov_ev) (walk function_eval decide E2 b2 a outs2 rs2).
    Proof.
      induction rs1 as [|r1 rs1 IH]; intros rs2 a outs1 outs2 Ho Hm.
      - destruct rs2; [cbn; congruence | discriminate].
      - destruct (map_eq_cons _ _ _ _ Hm) as (r2 & rs2' & -> & Hr & Hm'). cbn [walk].
        rewrite (firing_degree_hf function_eval fe_no_output_values E1 E2 b1 b2 outs1 outs2 r1 r2 HE Ho Hc Hd Hr).
        injection Hr as He Hw Ha Hq. unfold rule_loaded. rewrite Ha, Hq, He.
        destruct (r_antecedent r2); [|apply IH; assumption]. destruct (r_consequent r2) as [|c0 cs0]; [apply IH; assumption|].
        destruct (firing_degree function_eval E2 b2 outs2 r2) as [d|]; cbn [bind]; [|reflexivity].
        destruct (snd (decide a d)); [|apply IH; assumption].
        destruct (rmap_eq_cases _ _ _ (fire_hf b1 b2 (r_enabled r2) (c0 :: cs0) d outs1 outs2 Hi Ho))
          as [(o1 & o2 & -> & -> & Hab) | (x & -> & ->)]; cbn [bind]; [apply IH; assumption | reflexivity].
    Qed.

    Lemma candidates_hf : forall rs1 rs2 k (outs1 outs2 : outputs),
      map ov_ev outs1 = map ov_ev outs2 -> map (@rule_deactivated T N) rs1 = map (@rule_deactivated T N) rs2 ->
      candidates function_eval E1 b1 outs1 k rs1 = candidates function_eval E2 b2 outs2 k rs2.
    Proof.
      induction rs1 as [|r1 rs1 IH]; intros rs2 k outs1 outs2 Ho Hm.
      - destruct rs2; [reflexivity | discriminate].
      - destruct (map_eq_cons _ _ _ _ Hm) as (r2 & rs2' & -> & Hr & Hm'). cbn [candidates].
        rewrite (firing_degree_hf function_eval fe_no_output_values E1 E2 b1 b2 outs1 outs2 r1 r2 HE Ho Hc Hd Hr).
        rewrite (IH rs2' (S k) outs1 outs2 Ho Hm').
        injection Hr as He Hw Ha Hq. unfold rule_loaded. rewrite Ha, Hq, He. reflexivity.
    Qed.

    Lemma fire_all_hf : forall cs (outs1 outs2 : outputs), map ov_ev outs1 = map ov_ev outs2 ->
      rmap (map ov_ev) (fire_all b1 outs1 cs) = rmap (map ov_ev) (fire_all b2 outs2 cs).
    Proof.
      induction cs as [|c cs IH]; intros outs1 outs2 Ho; cbn [fire_all]; [cbn; congruence|].
      destruct (rmap_eq_cases _ _ _ (fire_hf b1 b2 (cd_enabled c) (cd_conclusions c) (cd_degree c) outs1 outs2 Hi Ho))
        as [(o1 & o2 & -> & -> & Hab) | (x & -> & ->)]; cbn [bind]; [apply IH; assumption | reflexivity].
    Qed.

    Lemma two_phase_hf select (outs1 outs2 : outputs) :
      map ov_ev outs1 = map ov_ev outs2 -> map (@rule_deactivated T N) (b_rules b1) = map (@rule_deactivated T N) (b_rules b2) ->
      rmap (map ov_ev) (two_phase function_eval select E1 b1 outs1) = rmap (map ov_ev) (two_phase function_eval select E2 b2 outs2).
    Proof.
      intros Ho Hm. unfold two_phase. rewrite (candidates_hf _ _ 0 outs1 outs2 Ho Hm).
      destruct (candidates function_eval E2 b2 outs2 0 (b_rules b2)) as [cs|]; cbn [bind]; [|reflexivity].
      apply fire_all_hf, Ho.
    Qed.

    Lemma block_all_contribution_hf (outs1 outs2 : outputs) :
      b_activation b1 = b_activation b2 ->
      map ov_ev outs1 = map ov_ev outs2 -> map (@rule_deactivated T N) (b_rules b1) = map (@rule_deactivated T N) (b_rules b2) ->
      rmap (map ov_ev) (block_all_contribution function_eval E1 b1 outs1) =
      rmap (map ov_ev) (block_all_contribution function_eval E2 b2 outs2).
    Proof.
      intros Ha Ho Hm. unfold block_all_contribution. rewrite Ha. destruct (b_activation b2) as [m|]; [|reflexivity].
      destruct m; cbn [method_contribution].
      - apply (rules_contribution_hf function_eval fe_no_output_values); assumption.
      - apply walk_hf; assumption.
      - apply walk_hf; [assumption|]. rewrite !map_rev, Hm. reflexivity.
      - apply two_phase_hf; assumption.
      - apply two_phase_hf; assumption.
      - apply two_phase_hf; assumption.
      - apply walk_hf; assumption.
    Qed.
  End TwoBlocks.

  Lemma blocks_all_contribution_hf (E1 E2 : engine T) : e_inputs E1 = e_inputs E2 ->
    forall bs1 bs2 (outs1 outs2 : outputs), map ov_ev outs1 = map ov_ev outs2 ->
    map (@block_deactivated T N) bs1 = map (@block_deactivated T N) bs2 ->
    rmap (map ov_ev) (blocks_all_contribution function_eval E1 outs1 bs1) =
    rmap (map ov_ev) (blocks_all_contribution function_eval E2 outs2 bs2).
  Proof.
    intros HE. induction bs1 as [|b1 bs1 IH]; intros bs2 outs1 outs2 Ho Hm.
    - destruct bs2; [cbn; congruence | discriminate].
    - destruct (map_eq_cons _ _ _ _ Hm) as (b2 & bs2' & -> & Hb & Hm').
      cbn [blocks_all_contribution]. injection Hb as Hn Hen Hc Hd Hi Ha Hrs. rewrite Hen.
      destruct (b_enabled b2); [|apply IH; assumption].
      destruct (rmap_eq_cases _ _ _ (block_all_contribution_hf E1 E2 b1 b2 HE Hc Hd Hi outs1 outs2 Ha Ho Hrs))
        as [(o1 & o2 & -> & -> & Hab) | (x & -> & ->)]; cbn [bind]; [apply IH; assumption | reflexivity].
  Qed.

  Lemma pipeline_all_fuzzy_no_lock (e : engine T) fz :
    no_lock_previous e -> pipeline_all_fuzzy function_eval e = Ok fz -> forall ov, In ov fz -> ov_lock_previous ov = false.
  Proof.
    intros Hnl Hf ov Hin. pose proof (blocks_all_contribution_grow function_eval e _ _ _ Hf) as HG.
    destruct (Forall2_in_r _ _ _ _ HG Hin) as (a & Ha & Hga).
    apply in_map_iff in Ha. destruct Ha as (a0 & <- & Ha0).
    pose proof (f_equal (@ov_lock_previous T) (ov_grow_static _ _ Hga)) as H. cbn in H. rewrite H. apply Hnl, Ha0.
  Qed.

  Lemma pipeline_all_outputs_hf (e1 e2 : engine T) :
    no_lock_previous e1 -> same_structure e1 e2 -> e_inputs e1 = e_inputs e2 ->
    res_rel (Forall2 ov_same_result) (pipeline_all_outputs function_eval e1) (pipeline_all_outputs function_eval e2).
  Proof.
    intros Hnl Hs Hi. destruct (same_structure_parts _ _ Hs) as (Hn & _ & Ho & Hb).
    unfold pipeline_all_outputs.
    assert (Hc : map ov_ev (map clear_fuzzy (e_outputs e1)) = map ov_ev (map clear_fuzzy (e_outputs e2)))
      by (rewrite !map_map; exact Ho).
    pose proof (blocks_all_contribution_hf e1 e2 Hi _ _ _ _ Hc Hb) as H.
    destruct (rmap_eq_cases _ _ _ H) as [(fz1 & fz2 & H1 & H2 & Hfz) | (x & H1 & H2)];
      unfold pipeline_all_fuzzy; rewrite H1, H2; cbn [bind]; [|cbn; reflexivity].
    apply (pipeline_values_hf function_eval fe_no_output_values); [exact Hi | exact Hfz | constructor |].
    exact (pipeline_all_fuzzy_no_lock e1 fz1 Hnl H1).
  Qed.

  Section WithOrder.
    (* the order laws are needed only when an enabled block selects with the heap (Highest / Lowest) *)
    Definition order_ok (e : engine T) : Prop := PosOrder N \/ heap_free e.

    Lemma heap_free_ext (e1 e2 : engine T) :
      map (@block_deactivated T N) (e_blocks e1) = map (@block_deactivated T N) (e_blocks e2) -> heap_free e1 -> heap_free e2.
    Proof.
      intros Hb Hh b2 Hin Hen.
      apply (in_map (@block_deactivated T N)) in Hin. rewrite <- Hb in Hin.
      apply in_map_iff in Hin. destruct Hin as (b1 & Hbb & Hin1).
      injection Hbb as Hn He Hc Hd Hi Ha Hrs.
      unfold uses_heap. rewrite <- Ha. apply Hh; [exact Hin1 | congruence].
    Qed.
    Lemma order_ok_ext (e1 e2 : engine T) :
      map (@block_deactivated T N) (e_blocks e1) = map (@block_deactivated T N) (e_blocks e2) -> order_ok e1 -> order_ok e2.
    Proof. intros Hb [PO | Hh]; [left; exact PO | right; exact (heap_free_ext e1 e2 Hb Hh)]. Qed.

    (* C13: with lock-previous off the outputs of a processing step depend only on the inputs of that step and the
       engine's structure — for every activation method *)
    Theorem history_free_all (e1 e2 : engine T) :
      order_ok e1 -> no_lock_previous e1 -> same_structure e1 e2 -> e_inputs e1 = e_inputs e2 ->
      res_rel (fun a b => Forall2 ov_same_result (e_outputs a) (e_outputs b)) (process e1) (process e2).
    Proof.
      intros HP Hnl Hs Hi. pose proof (pipeline_all_outputs_hf e1 e2 Hnl Hs Hi) as H.
      destruct (same_structure_parts _ _ Hs) as (_ & _ & _ & Hb).
      rewrite <- (process_outputs_eq_pipeline_all function_eval fe_ext e1 HP) in H.
      rewrite <- (process_outputs_eq_pipeline_all function_eval fe_ext e2 (order_ok_ext e1 e2 Hb HP)) in H.
      unfold process_outputs in H. destruct (process e1), (process e2); exact H.
    Qed.

    Theorem history_free_values_all (e1 e2 : engine T) :
      order_ok e1 -> no_lock_previous e1 -> same_structure e1 e2 -> e_inputs e1 = e_inputs e2 ->
      res_rel (fun a b => enabled_values (e_outputs a) = enabled_values (e_outputs b) /\
                          map (@ov_fuzzy T) (e_outputs a) = map (@ov_fuzzy T) (e_outputs b))
              (process e1) (process e2).
    Proof.
      intros HP Hnl Hs Hi. pose proof (history_free_all e1 e2 HP Hnl Hs Hi) as H.
      destruct (process e1), (process e2); cbn in *; try exact H. apply same_result_enabled_values, H.
    Qed.

    Lemma process_ok_pipeline_all (e e' : engine T) : order_ok e -> process e = Ok e' ->
      exists fz, pipeline_all_fuzzy function_eval e = Ok fz /\ pipeline_values function_eval e [] fz = Ok (e_outputs e').
    Proof.
      intros HP Hp. pose proof (process_outputs_eq_pipeline_all function_eval fe_ext e HP) as H.
      unfold process_outputs in H. rewrite Hp in H. cbn [rmap] in H. symmetry in H.
      unfold pipeline_all_outputs in H.
      destruct (pipeline_all_fuzzy function_eval e) as [fz|]; cbn [bind] in H; [|discriminate]. eauto.
    Qed.

    (* the fuzzy outputs after process are the specification's, folded from the EMPTY fuzzy sets *)
    Theorem fuzzy_is_pipeline_all (e e' : engine T) : order_ok e -> process e = Ok e' ->
      exists fz, pipeline_all_fuzzy function_eval e = Ok fz /\
                 map (@ov_fuzzy T) (e_outputs e') = map (@ov_fuzzy T) fz /\ map ov_ev (e_outputs e') = map ov_ev fz.
    Proof.
      intros HP Hp. destruct (process_ok_pipeline_all e e' HP Hp) as (fz & Hf & Hv). exists fz. split; [exact Hf|].
      destruct (pipeline_values_Forall2 function_eval (fun a a' => ov_ev a' = ov_ev a)
                  (fun E ov ov' H => proj1 (output_defuzzify_shape function_eval E ov ov' H)) e fz [] _ Hv) as (todo' & -> & HF).
      cbn [app]. pose proof (Forall2_map_eq ov_ev _ _ HF) as Hev. split; [|exact Hev].
      apply (f_equal (map (@ov_fuzzy T))) in Hev. rewrite !map_map in Hev. exact Hev.
    Qed.

    Theorem disabled_variable_untouched_all (e e' : engine T) i ov :
      order_ok e -> process e = Ok e' ->
      nth_error (e_outputs e) i = Some ov -> ov_enabled ov = false ->
      nth_error (e_outputs e') i = Some (clear_fuzzy ov).
    Proof.
      intros HP Hp Hn Hen. destruct (process_ok_pipeline_all e e' HP Hp) as (fz & Hf & Hv).
      pose proof (blocks_all_contribution_grow function_eval e _ _ _ Hf) as HG.
      assert (Hn' : nth_error (map clear_fuzzy (e_outputs e)) i = Some (clear_fuzzy ov)) by (rewrite nth_error_map, Hn; reflexivity).
      destruct (Forall2_nth_error _ _ _ _ _ HG Hn') as (a' & Ha' & Hg').
      rewrite (ov_grow_disabled _ _ Hg' Hen) in Ha'.
      destruct (pipeline_values_Forall2 function_eval (fun a a' => ov_enabled a = false -> a' = a)
                  (fun E ov ov' H => proj2 (output_defuzzify_shape function_eval E ov ov' H)) e fz [] _ Hv) as (todo' & -> & HF).
      destruct (Forall2_nth_error _ _ _ _ _ HF Ha') as (a'' & Ha'' & Hd). cbn [app]. rewrite Ha''. f_equal. apply Hd, Hen.
    Qed.

    Theorem process_preserves_structure_all (e e' : engine T) :
      order_ok e -> process e = Ok e' -> same_structure e e' /\ e_inputs e' = e_inputs e.
    Proof.
      intros HP Hp. pose proof (frame_inputs function_eval e e' Hp) as Hi. split; [|exact Hi].
      destruct (fuzzy_is_pipeline_all e e' HP Hp) as (fz & Hf & _ & Hev).
      pose proof (blocks_all_contribution_grow function_eval e _ _ _ Hf) as HG.
      destruct (process_blocks_structure function_eval e e' Hp) as (Hb & Hn).
      unfold same_structure, erase. rewrite Hb, Hn, Hi. f_equal.
      rewrite (map_ev_static _ _ Hev).
      rewrite (Forall2_map_eq ov_static _ _ (Forall2_impl_of _ _ _ _ (fun a b H => ov_grow_static a b H) HG)).
      rewrite map_map. reflexivity.
    Qed.

    (* processing twice gives the same result *)
    Theorem process_idempotent_strong_all (e e1 : engine T) :
      order_ok e -> no_lock_previous e -> process e = Ok e1 ->
      exists e2, process e1 = Ok e2 /\
                 Forall2 (fun a b => ov_ev a = ov_ev b /\ ov_value a = ov_value b) (e_outputs e1) (e_outputs e2).
    Proof.
      intros HP Hnl Hp. destruct (process_preserves_structure_all e e1 HP Hp) as (Hs & Hi).
      pose proof (history_free_all e e1 HP Hnl Hs (eq_sym Hi)) as H. rewrite Hp in H.
      destruct (process e1) as [e2|] eqn:Hp2; cbn in H; [|contradiction]. exists e2. split; [reflexivity|].
      destruct (same_structure_parts _ _ Hs) as (_ & _ & _ & Hb).
      pose proof (order_ok_ext e e1 Hb HP) as HP1.
      assert (Hdis : forall i a, nth_error (e_outputs e1) i = Some a -> ov_enabled a = false ->
                     exists b, nth_error (e_outputs e2) i = Some b /\ ov_value b = ov_value a).
      { intros i a Hn Hen. exists (clear_fuzzy a). split; [|reflexivity].
        exact (disabled_variable_untouched_all e1 e2 i a HP1 Hp2 Hn Hen). }
      exact (same_result_strengthen _ _ H Hdis).
    Qed.

    Theorem process_idempotent_all (e e1 e2 : engine T) :
      order_ok e -> no_lock_previous e -> process e = Ok e1 -> process e1 = Ok e2 ->
      map (@ov_value T) (e_outputs e2) = map (@ov_value T) (e_outputs e1) /\
      map (@ov_fuzzy T) (e_outputs e2) = map (@ov_fuzzy T) (e_outputs e1).
    Proof.
      intros HP Hnl Hp Hp2. destruct (process_idempotent_strong_all e e1 HP Hnl Hp) as (e2' & Hp2' & HF).
      rewrite Hp2 in Hp2'. injection Hp2' as <-.
      induction HF as [|a b l l' [Hev Hv] HF [IH1 IH2]]; [split; reflexivity|]. cbn.
      pose proof (f_equal (@ov_fuzzy T) Hev) as Hf. cbn in Hf. rewrite IH1, IH2, Hv, Hf. split; reflexivity.
    Qed.
  End WithOrder.
End HistoryAll.

(* ================================================================================================ *)
(* 7. corollaries for C01: what a block triggers, and that nothing else contributes                  *)
(* ================================================================================================ *)
Section TriggeredAll.
  Context {T : Type} {N : Num T}.
  Variable function_eval : engine T -> fnode T -> list (string * T) -> T -> result T.
  Notation outputs := (list (output_var T)).
  Notation candidate := (@candidate T).
  Variables (E : engine T) (b : block T).
  Notation fdeg := (firing_degree function_eval E b).

  (* ---- a triggered DISABLED rule adds nothing; a loaded rule that is not selected adds nothing *)
  Lemma fire_disabled cs d (outs : outputs) : fire b false cs d outs = Ok outs.
  Proof. reflexivity. Qed.

  Lemma fire_all_enabled_only : forall (sel : list candidate) (outs : outputs),
    fire_all b outs sel = fire_all b outs (filter (@cd_enabled T) sel).
  Proof.
    induction sel as [|c sel IH]; intros outs; cbn [fire_all filter]; [reflexivity|].
    destruct (cd_enabled c) eqn:He; cbn [fire_all]; [rewrite He|].
    - destruct (fire b true (cd_conclusions c) (cd_degree c) outs); cbn [bind]; [apply IH | reflexivity].
    - cbn [fire bind]. apply IH.
  Qed.

  Lemma walk_unselected_step (A : Type) (decide : A -> T -> A * bool) a (outs : outputs) r rs d :
    rule_loaded r = true -> fdeg outs r = Ok d -> snd (decide a d) = false ->
    walk function_eval decide E b a outs (r :: rs) = walk function_eval decide E b (fst (decide a d)) outs rs.
  Proof. intros Hl Hd Hs. cbn [walk]. rewrite Hl, Hd. cbn [bind]. rewrite Hs. reflexivity. Qed.

  Lemma walk_disabled_step (A : Type) (decide : A -> T -> A * bool) a (outs : outputs) r rs d :
    rule_loaded r = true -> r_enabled r = false -> fdeg outs r = Ok d ->
    walk function_eval decide E b a outs (r :: rs) = walk function_eval decide E b (fst (decide a d)) outs rs.
  Proof. intros Hl He Hd. cbn [walk]. rewrite Hl, Hd, He. cbn [bind fire]. destruct (snd (decide a d)); reflexivity. Qed.

  Lemma walk_unloaded_step (A : Type) (decide : A -> T -> A * bool) a (outs : outputs) r rs :
    rule_loaded r = false ->
    walk function_eval decide E b a outs (r :: rs) = walk function_eval decide E b a outs rs.
  Proof. intros Hl. cbn [walk]. rewrite Hl. reflexivity. Qed.

  (* ---- the walk and its log *)
  Lemma walk_log_spec (A : Type) (decide : A -> T -> A * bool) : forall xs a (outs : outputs),
    match walk_log function_eval decide E b a outs xs with
    | Ok (log, outs') => walk function_eval decide E b a outs (map snd xs) = Ok outs' /\ fire_all b outs log = Ok outs'
    | Err x => walk function_eval decide E b a outs (map snd xs) = Err x
    end.
  Proof.
    induction xs as [|[k r] xs IH]; intros a outs; cbn [walk_log walk map snd]; [split; reflexivity|].
    destruct (rule_loaded r); [|apply IH].
    destruct (fdeg outs r) as [d|x]; cbn [bind]; [|reflexivity].
    destruct (snd (decide a d)); [|apply IH].
    destruct (fire b (r_enabled r) (r_consequent r) d outs) as [o1|x] eqn:Hf; cbn [bind]; [|reflexivity].
    specialize (IH (fst (decide a d)) o1).
    destruct (walk_log function_eval decide E b (fst (decide a d)) o1 xs) as [[log outs']|x]; cbn [bind fst snd]; [|exact IH].
    destruct IH as [H1 H2]. split; [exact H1|]. cbn [fire_all cd_enabled cd_conclusions cd_degree]. rewrite Hf. cbn [bind]. exact H2.
  Qed.

  Lemma walk_log_eq (A : Type) (decide : A -> T -> A * bool) xs a (outs : outputs) :
    walk function_eval decide E b a outs (map snd xs) =
    (do r <- walk_log function_eval decide E b a outs xs; fire_all b outs (fst r)).
  Proof.
    pose proof (walk_log_spec A decide xs a outs) as H.
    destruct (walk_log function_eval decide E b a outs xs) as [[log outs']|x]; cbn [bind fst]; [|exact H].
    destruct H as [H1 H2]. rewrite H1, H2. reflexivity.
  Qed.

  (* every logged candidate is a loaded rule of the walk that `decide` selected *)
  Definition of_rule (c : candidate) (r : rule T) : Prop :=
    rule_loaded r = true /\ cd_enabled c = r_enabled r /\ cd_conclusions c = r_consequent r.

  Lemma walk_log_in (A : Type) (decide : A -> T -> A * bool) : forall xs a (outs : outputs) log outs' c,
    walk_log function_eval decide E b a outs xs = Ok (log, outs') -> In c log ->
    exists r a0, In (cd_pos c, r) xs /\ of_rule c r /\ snd (decide a0 (cd_degree c)) = true.
  Proof.
    induction xs as [|[k r] xs IH]; intros a outs log outs' c H Hin; cbn [walk_log] in H; [injection H as <- _; contradiction|].
    assert (Hrec : forall a1 o1, walk_log function_eval decide E b a1 o1 xs = Ok (log, outs') ->
              exists r0 a0, In (cd_pos c, r0) ((k, r) :: xs) /\ of_rule c r0 /\ snd (decide a0 (cd_degree c)) = true).
    { intros a1 o1 H1. destruct (IH _ _ _ _ _ H1 Hin) as (r0 & a0 & Ha & Hb). exists r0, a0. split; [right; exact Ha | exact Hb]. }
    destruct (rule_loaded r) eqn:Hl; [|exact (Hrec _ _ H)].
    destruct (fdeg outs r) as [d|]; cbn [bind] in H; [|discriminate].
    destruct (snd (decide a d)) eqn:Hs; [|exact (Hrec _ _ H)].
    destruct (fire b (r_enabled r) (r_consequent r) d outs) as [o1|]; cbn [bind] in H; [|discriminate].
    destruct (walk_log function_eval decide E b (fst (decide a d)) o1 xs) as [[log1 o2]|] eqn:H1; cbn [bind fst snd] in H; [|discriminate].
    injection H as <- <-. destruct Hin as [<- | Hin].
    - exists r, a. cbn [cd_pos cd_degree cd_enabled cd_conclusions]. split; [left; reflexivity|]. split; [|exact Hs].
      split; [exact Hl | split; reflexivity].
    - destruct (IH _ _ _ _ _ H1 Hin) as (r0 & a0 & Ha & Hb). exists r0, a0. split; [right; exact Ha | exact Hb].
  Qed.

  (* First / Last never trigger more than n rules *)
  Lemma walk_log_first_count n t : forall xs a (outs : outputs) log outs',
    walk_log function_eval (first_decide n t) E b a outs xs = Ok (log, outs') -> (Z.of_nat (length log) <= Z.max 0 (n - a))%Z.
  Proof.
    induction xs as [|[k r] xs IH]; intros a outs log outs' H; cbn [walk_log] in H; [injection H as <- _; cbn; lia|].
    destruct (rule_loaded r); [|exact (IH _ _ _ _ H)].
    destruct (fdeg outs r) as [d|]; cbn [bind] in H; [|discriminate].
    destruct (first_decide n t a d) as [a' trig] eqn:Hfd. cbn [fst snd] in H.
    unfold first_decide in Hfd. destruct ((a <? n)%Z && degree_reaches t d) eqn:Hc; injection Hfd as <- <-.
    - destruct (fire b (r_enabled r) (r_consequent r) d outs) as [o1|]; cbn [bind] in H; [|discriminate].
      destruct (walk_log function_eval (first_decide n t) E b (a + 1)%Z o1 xs) as [[log1 o2]|] eqn:H1; cbn [bind fst snd] in H; [|discriminate].
      injection H as <- <-. pose proof (IH _ _ _ _ H1) as Hle.
      apply andb_true_iff in Hc. destruct Hc as [Hc _]. apply Z.ltb_lt in Hc. cbn [length]. lia.
    - exact (IH _ _ _ _ H).
  Qed.

  (* ---- candidates: each is a loaded rule of the block, at its position *)
  Lemma candidates_in : forall rs k (outs : outputs) cs c, candidates function_eval E b outs k rs = Ok cs -> In c cs ->
    exists r, nth_error rs (cd_pos c - k) = Some r /\ k <= cd_pos c /\ of_rule c r /\ fdeg outs r = Ok (cd_degree c).
  Proof.
    induction rs as [|r rs IH]; intros k outs cs c H Hin; cbn [candidates] in H; [injection H as <-; contradiction|].
    assert (Hrec : forall cs', candidates function_eval E b outs (S k) rs = Ok cs' -> In c cs' ->
              exists r0, nth_error (r :: rs) (cd_pos c - k) = Some r0 /\ k <= cd_pos c /\ of_rule c r0 /\ fdeg outs r0 = Ok (cd_degree c)).
    { intros cs' H1 Hin1. destruct (IH _ _ _ _ H1 Hin1) as (r0 & Ha & Hb & Hc). exists r0.
      replace (cd_pos c - k) with (S (cd_pos c - S k)) by lia. split; [exact Ha | split; [lia | exact Hc]]. }
    destruct (rule_loaded r) eqn:Hl; [|exact (Hrec _ H Hin)].
    destruct (fdeg outs r) as [d|] eqn:Hd; cbn [bind] in H; [|discriminate].
    destruct (candidates function_eval E b outs (S k) rs) as [cs'|] eqn:H1; cbn [bind] in H; [|discriminate].
    injection H as <-. destruct Hin as [<- | Hin]; [|exact (Hrec _ eq_refl Hin)].
    exists r. cbn [cd_pos cd_degree cd_enabled cd_conclusions]. rewrite Nat.sub_diag. split; [reflexivity|]. split; [lia|].
    split; [split; [exact Hl | split; reflexivity] | exact Hd].
  Qed.

  (* ---- what a block triggers *)
  Theorem block_contribution_is_triggered (outs : outputs) :
    block_all_contribution function_eval E b outs = (do sel <- block_triggered function_eval E b outs; fire_all b outs sel).
  Proof.
    unfold block_all_contribution, block_triggered. destruct (b_activation b) as [m|]; [|reflexivity].
    destruct m as [|n t|n t|n|n| |c t]; cbn [method_contribution].
    - rewrite <- (walk_general function_eval E b), <- (numbered_snd (b_rules b)) at 1. rewrite walk_log_eq.
      destruct (walk_log function_eval general_decide E b tt outs (numbered (b_rules b))) as [[log o]|]; reflexivity.
    - rewrite <- (numbered_snd (b_rules b)) at 1. rewrite walk_log_eq.
      destruct (walk_log function_eval (first_decide n t) E b 0%Z outs (numbered (b_rules b))) as [[log o]|]; reflexivity.
    - rewrite <- (numbered_snd (b_rules b)) at 1. rewrite <- map_rev, walk_log_eq.
      destruct (walk_log function_eval (first_decide n t) E b 0%Z outs (rev (numbered (b_rules b)))) as [[log o]|]; reflexivity.
    - unfold two_phase. destruct (candidates function_eval E b outs 0 (b_rules b)); reflexivity.
    - unfold two_phase. destruct (candidates function_eval E b outs 0 (b_rules b)); reflexivity.
    - unfold two_phase. destruct (candidates function_eval E b outs 0 (b_rules b)); reflexivity.
    - rewrite <- (numbered_snd (b_rules b)) at 1. rewrite walk_log_eq.
      destruct (walk_log function_eval (threshold_decide c t) E b tt outs (numbered (b_rules b))) as [[log o]|]; reflexivity.
  Qed.

  (* disabled rules contribute nothing: only the ENABLED triggered candidates matter *)
  Theorem disabled_rule_contributes_nothing_all (outs : outputs) :
    block_all_contribution function_eval E b outs =
    (do sel <- block_triggered function_eval E b outs; fire_all b outs (filter (@cd_enabled T) sel)).
  Proof.
    rewrite block_contribution_is_triggered. destruct (block_triggered function_eval E b outs) as [sel|]; cbn [bind]; [|reflexivity].
    apply fire_all_enabled_only.
  Qed.

  (* the selection criterion of each method, on the degree passed to the consequent *)
  Definition criterion (m : activation T) (d : T) : Prop :=
    match m with
    | AGeneral => True
    | AFirst n t | ALast n t => degree_reaches t d = true
    | AThreshold c t => cmp_holds c d t = true
    | AHighest n | ALowest n => ltb zero d = true
    | AProportional => exists d0 s, ltb zero d0 = true /\ d = div d0 s
    end.
  Definition at_most (m : activation T) (k : nat) : Prop :=
    match m with
    | AFirst n _ | ALast n _ | AHighest n | ALowest n => k <= Z.to_nat n
    | _ => True
    end.

  Lemma first_decide_true n t a d : snd (first_decide n t a d) = true -> degree_reaches t d = true.
  Proof.
    unfold first_decide. destruct ((a <? n)%Z && degree_reaches t d) eqn:H; cbn [snd]; [|discriminate].
    intros _. apply andb_true_iff in H. exact (proj2 H).
  Qed.

  (* a rule that the method does not select contributes nothing: the block's contribution is what the TRIGGERED
     candidates add, each of them is a loaded rule of the block (at its position) that meets the method's criterion,
     and there are at most n of them *)
  Theorem unselected_rule_contributes_nothing (m : activation T) (outs outs' : outputs) :
    b_activation b = Some m -> block_all_contribution function_eval E b outs = Ok outs' ->
    exists sel, block_triggered function_eval E b outs = Ok sel /\ fire_all b outs sel = Ok outs' /\
      at_most m (length sel) /\
      forall c, In c sel -> criterion m (cd_degree c) /\
                            exists r, nth_error (b_rules b) (cd_pos c) = Some r /\ of_rule c r.
  Proof.
    intros Hm H. rewrite block_contribution_is_triggered in H.
    destruct (block_triggered function_eval E b outs) as [sel|] eqn:Hs; cbn [bind] in H; [|discriminate].
    exists sel. split; [reflexivity|]. split; [exact H|]. unfold block_triggered in Hs. rewrite Hm in Hs.
    assert (Hnum : forall (c : candidate) r, In (cd_pos c, r) (numbered (b_rules b)) -> nth_error (b_rules b) (cd_pos c) = Some r)
      by (intros c r Hin; exact (agrees_numbered (b_rules b) _ _ Hin)).
    assert (Hcand : forall cs c, candidates function_eval E b outs 0 (b_rules b) = Ok cs -> In c cs ->
              exists r, nth_error (b_rules b) (cd_pos c) = Some r /\ of_rule c r).
    { intros cs c Hc Hin. destruct (candidates_in _ _ _ _ _ Hc Hin) as (r & Hn & _ & Ho & _).
      rewrite Nat.sub_0_r in Hn. exists r. split; assumption. }
    destruct m as [|n t|n t|n|n| |c0 t]; cbn [at_most criterion].
    - destruct (walk_log _ _ _ _ _ _ _) as [[log o]|] eqn:Hw; cbn [bind fst] in Hs; [|discriminate]. injection Hs as <-.
      split; [exact I|]. intros c Hin. split; [exact I|].
      destruct (walk_log_in _ _ _ _ _ _ _ _ Hw Hin) as (r & a0 & Hx & Ho & _). exists r. split; [apply Hnum, Hx | exact Ho].
    - destruct (walk_log _ _ _ _ _ _ _) as [[log o]|] eqn:Hw; cbn [bind fst] in Hs; [|discriminate]. injection Hs as <-.
      split; [pose proof (walk_log_first_count _ _ _ _ _ _ _ Hw); lia|]. intros c Hin.
      destruct (walk_log_in _ _ _ _ _ _ _ _ Hw Hin) as (r & a0 & Hx & Ho & Hd).
      split; [exact (first_decide_true _ _ _ _ Hd)|]. exists r. split; [apply Hnum, Hx | exact Ho].
    - destruct (walk_log _ _ _ _ _ _ _) as [[log o]|] eqn:Hw; cbn [bind fst] in Hs; [|discriminate]. injection Hs as <-.
      split; [pose proof (walk_log_first_count _ _ _ _ _ _ _ Hw); lia|]. intros c Hin.
      destruct (walk_log_in _ _ _ _ _ _ _ _ Hw Hin) as (r & a0 & Hx & Ho & Hd).
      split; [exact (first_decide_true _ _ _ _ Hd)|]. exists r. split; [apply Hnum; apply in_rev; exact Hx | exact Ho].
    - destruct (candidates function_eval E b outs 0 (b_rules b)) as [cs|] eqn:Hc; cbn [bind] in Hs; [|discriminate]. injection Hs as <-.
      split; [unfold highest_selection; rewrite firstn_length; lia|]. intros c Hin.
      destruct (highest_selection_incl _ _ _ Hin) as [Hin' Hp]. split; [exact Hp | exact (Hcand cs c eq_refl Hin')].
    - destruct (candidates function_eval E b outs 0 (b_rules b)) as [cs|] eqn:Hc; cbn [bind] in Hs; [|discriminate]. injection Hs as <-.
      split; [unfold lowest_selection; rewrite firstn_length; lia|]. intros c Hin.
      destruct (lowest_selection_incl _ _ _ Hin) as [Hin' Hp]. split; [exact Hp | exact (Hcand cs c eq_refl Hin')].
    - destruct (candidates function_eval E b outs 0 (b_rules b)) as [cs|] eqn:Hc; cbn [bind] in Hs; [|discriminate]. injection Hs as <-.
      split; [exact I|]. intros c Hin. unfold proportional_selection in Hin. apply in_map_iff in Hin.
      destruct Hin as (c0 & <- & Hin0). apply filter_In in Hin0. destruct Hin0 as [Hin0 Hp].
      split; [exists (cd_degree c0), (positive_sum cs); split; [exact Hp | reflexivity]|].
      exact (Hcand cs c0 eq_refl Hin0).
    - destruct (walk_log _ _ _ _ _ _ _) as [[log o]|] eqn:Hw; cbn [bind fst] in Hs; [|discriminate]. injection Hs as <-.
      split; [exact I|]. intros c Hin.
      destruct (walk_log_in _ _ _ _ _ _ _ _ Hw Hin) as (r & a0 & Hx & Ho & Hd).
      split; [exact Hd|]. exists r. split; [apply Hnum, Hx | exact Ho].
  Qed.
End TriggeredAll.

(* ---- Highest / Lowest: the selection order is THE sorted arrangement of the positive candidates *)
Section Arrangement.
  Context {T : Type} {N : Num T}.
  Hypothesis PO : PosOrder N.
  Notation candidate := (@candidate T).

  Lemma sorted_keys before (l : list candidate) :
    StronglySorted (fun p q => before p q = true) (map (@cd_key T) l) ->
    StronglySorted (fun p q => before (cd_key p) (cd_key q) = true) l.
  Proof.
    induction l as [|x l IH]; cbn [map]; intros H; [constructor|]. inversion H as [|? ? HS HF]; subst.
    constructor; [apply IH, HS|]. apply Forall_forall. intros y Hy. rewrite Forall_forall in HF. apply HF, in_map, Hy.
  Qed.

  Theorem sort_cands_is_arrangement_desc (cs : list candidate) : NoDup (map (@cd_pos T) cs) ->
    cand_arrangement before_desc (filter cd_positive cs) (sort_cands before_desc (filter cd_positive cs)).
  Proof.
    intros ND. split; [apply sort_cands_perm|]. apply sorted_keys. rewrite sort_cands_key, <- filter_positive_key.
    apply (sort_by_sorted PO neg before_desc (before_desc_key PO) (neg_ord PO)).
    - apply Forall_forall. intros p Hp. apply filter_In in Hp. exact (proj2 Hp).
    - apply nodup_filter_fst. rewrite key_fst. exact ND.
  Qed.
  Theorem sort_cands_is_arrangement_asc (cs : list candidate) : NoDup (map (@cd_pos T) cs) ->
    cand_arrangement before_asc (filter cd_positive cs) (sort_cands before_asc (filter cd_positive cs)).
  Proof.
    intros ND. split; [apply sort_cands_perm|]. apply sorted_keys. rewrite sort_cands_key, <- filter_positive_key.
    apply (sort_by_sorted PO (fun d => d) before_asc (before_asc_key PO) (po_pos_ord PO)).
    - apply Forall_forall. intros p Hp. apply filter_In in Hp. exact (proj2 Hp).
    - apply nodup_filter_fst. rewrite key_fst. exact ND.
  Qed.

  Theorem cand_arrangement_unique_desc (l l1 l2 : list candidate) :
    cand_arrangement before_desc l l1 -> cand_arrangement before_desc l l2 -> l1 = l2.
  Proof.
    intros [P1 S1] [P2 S2]. apply (@sorted_unique candidate (fun p q => before_desc (cd_key p) (cd_key q))); auto.
    - intros p q. rewrite !(before_desc_key PO). apply (key_lt_asym PO).
    - eapply perm_trans; [apply Permutation_sym; exact P1 | exact P2].
  Qed.
  Theorem cand_arrangement_unique_asc (l l1 l2 : list candidate) :
    cand_arrangement before_asc l l1 -> cand_arrangement before_asc l l2 -> l1 = l2.
  Proof.
    intros [P1 S1] [P2 S2]. apply (@sorted_unique candidate (fun p q => before_asc (cd_key p) (cd_key q))); auto.
    - intros p q. rewrite !(before_asc_key PO). apply (key_lt_asym PO).
    - eapply perm_trans; [apply Permutation_sym; exact P1 | exact P2].
  Qed.

  (* the candidates of a block have distinct positions *)
  Lemma candidates_nodup (function_eval : engine T -> fnode T -> list (string * T) -> T -> result T) (E : engine T) b :
    forall rs k outs cs, candidates function_eval E b outs k rs = Ok cs ->
    NoDup (map (@cd_pos T) cs) /\ forall c, In c cs -> k <= cd_pos c.
  Proof.
    induction rs as [|r rs IH]; intros k outs cs H; cbn [candidates] in H; [injection H as <-; split; [constructor | intros c []]|].
    destruct (rule_loaded r).
    - destruct (firing_degree function_eval E b outs r) as [d|]; cbn [bind] in H; [|discriminate].
      destruct (candidates function_eval E b outs (S k) rs) as [cs'|] eqn:H1; cbn [bind] in H; [|discriminate].
      injection H as <-. destruct (IH _ _ _ H1) as [ND Hge]. split.
      + cbn [map cd_pos]. constructor; [|exact ND]. intros Hin. apply in_map_iff in Hin. destruct Hin as (c & Hc & Hin).
        pose proof (Hge c Hin). lia.
      + intros c [<- | Hin]; [cbn; lia | pose proof (Hge c Hin); lia].
    - destruct (IH _ _ _ H) as [ND Hge]. split; [exact ND | intros c Hin; pose proof (Hge c Hin); lia].
  Qed.
End Arrangement.

(* ================================================================================================ *)
(* 8. what process leaves in the rules: the triggered flag, for every activation method              *)
(* ================================================================================================ *)
Section Flags.
  Context {T : Type} {N : Num T}.
  Variable function_eval : engine T -> fnode T -> list (string * T) -> T -> result T.
  Notation outputs := (list (output_var T)).
  Notation candidate := (@candidate T).
  Variables (E : engine T) (b : block T).
  Notation cj := (b_conjunction b).
  Notation dj := (b_disjunction b).
  Notation im := (b_implication b).
  Notation vis := (visits function_eval E cj dj im).
  Notation fdeg := (firing_degree function_eval E b).

  (* the record r' left at position ri (originally r), against the list `sel` of triggered candidates:
     configuration unchanged; triggered <-> selected, enabled and degree > 0; a selected rule holds the degree passed
     to its consequent *)
  Definition flags_ok (sel : list candidate) (ri : nat) (r r' : rule T) : Prop :=
    rule_deactivated r' = rule_deactivated r /\
    (r_triggered r' = true <->
     exists c, In c sel /\ cd_pos c = ri /\ cd_enabled c = true /\ gtb (cd_degree c) zero = true) /\
    (forall c, In c sel -> cd_pos c = ri -> r_degree r' = cd_degree c).

  Lemma flags_ok_untriggered sel ri (r r' : rule T) :
    rule_deactivated r' = rule_deactivated r -> r_triggered r' = false -> (forall c, In c sel -> cd_pos c <> ri) ->
    flags_ok sel ri r r'.
  Proof.
    intros Hs Ht Hno. split; [exact Hs|]. split.
    - rewrite Ht. split; [discriminate|]. intros (c & Hin & Hp & _). exfalso. exact (Hno c Hin Hp).
    - intros c Hin Hp. exfalso. exact (Hno c Hin Hp).
  Qed.

  Lemma flags_ok_cons_other (c : candidate) sel ri (r r' : rule T) :
    cd_pos c <> ri -> flags_ok sel ri r r' -> flags_ok (c :: sel) ri r r'.
  Proof.
    intros Hne (Hs & Hiff & Hd). split; [exact Hs|]. split.
    - rewrite Hiff. split.
      + intros (c' & Hin & Hrest). exists c'. split; [right; exact Hin | exact Hrest].
      + intros (c' & [<- | Hin] & Hp & Hrest); [exfalso; exact (Hne Hp)|]. exists c'. split; [exact Hin | split; [exact Hp | exact Hrest]].
    - intros c' [<- | Hin] Hp; [exfalso; exact (Hne Hp) | exact (Hd c' Hin Hp)].
  Qed.

  Lemma flags_ok_head (c : candidate) sel ri (r : rule T) d :
    cd_pos c = ri -> cd_degree c = d -> cd_enabled c = r_enabled r -> (forall c', In c' sel -> cd_pos c' <> ri) ->
    flags_ok (c :: sel) ri r (mk_rule r d (r_enabled r && gtb d zero)).
  Proof.
    intros Hp Hd He Hno. split; [reflexivity|]. cbn [r_triggered r_degree mk_rule]. split.
    - split.
      + intros H. apply andb_true_iff in H. destruct H as [H1 H2]. exists c. split; [left; reflexivity|].
        split; [exact Hp|]. rewrite He, Hd. split; assumption.
      + intros (c' & [<- | Hin] & Hp' & He' & Hg'); [|exfalso; exact (Hno c' Hin Hp')].
        rewrite <- He, <- Hd, He', Hg'. reflexivity.
    - intros c' [<- | Hin] Hp'; [symmetry; exact Hd | exfalso; exact (Hno c' Hin Hp')].
  Qed.

  Lemma mk_rule_flag_cases (r : rule T) d : 
    (if r_enabled r then mk_rule r d (gtb d zero) else mk_rule r d false) = mk_rule r d (r_enabled r && gtb d zero).
  Proof. destruct (r_enabled r); reflexivity. Qed.

  (* ---- interleaved methods *)
  Lemma visits_flags (A : Type) (f : A -> nat -> T -> A * bool) (decide : A -> T -> A * bool) :
    (forall a i d, f a i d = decide a d) ->
    forall xs a rules outs a' rules' outs',
    NoDup (map fst xs) -> agrees rules xs -> vis f xs a rules outs = Ok (a', rules', outs') ->
    exists log, walk_log function_eval decide E b a outs xs = Ok (log, outs') /\
      (forall j, ~ In j (map fst xs) -> nth_error rules' j = nth_error rules j) /\
      (forall i r, In (i, r) xs -> exists r', nth_error rules' i = Some r' /\ flags_ok log i r r').
  Proof.
    intros Hf. induction xs as [|[i r] xs IH]; intros a rules outs a' rules' outs' ND AG H.
    - cbn [visits] in H. injection H as <- <- <-. exists []. split; [reflexivity|]. split; [reflexivity | intros i r []].
    - cbn [map fst] in ND. inversion ND as [|? ? NI ND']; subst.
      pose proof (AG i r (or_introl eq_refl)) as Hn.
      cbn [visits] in H. destruct (visit function_eval E cj dj im f a i r outs) as [[[a1 r1] o1]|] eqn:Hv; cbn [bind fst snd] in H; [|discriminate].
      assert (AG1 : agrees (set_nth i r1 rules) xs) by (apply agrees_set_nth; [exact NI | exact (agrees_tail _ _ _ AG)]).
      destruct (IH a1 (set_nth i r1 rules) o1 a' rules' outs' ND' AG1 H) as (log1 & Hw1 & Hoth1 & Hin1).
      assert (Hno1 : forall c, In c log1 -> cd_pos c <> i).
      { intros c Hc Hp. destruct (walk_log_in function_eval E b A decide xs a1 o1 log1 outs' c Hw1 Hc) as (r0 & a0 & Hx & _).
        apply NI. rewrite <- Hp. exact (in_map fst _ _ Hx). }
      assert (Hat : nth_error rules' i = Some r1).
      { rewrite (Hoth1 i NI). apply nth_error_set_nth_eq. exact (nth_error_lt _ _ _ Hn). }
      assert (Hothers : forall j, ~ In j (i :: map fst xs) -> nth_error rules' j = nth_error rules j).
      { intros j Hj. rewrite Hoth1 by (intros Hc; apply Hj; right; exact Hc).
        apply nth_error_set_nth_neq. intros ->. apply Hj. left. reflexivity. }
      (* the tail's facts, against a log that may have one more candidate at position i *)
      assert (Htail : forall log, (log = log1 \/ exists c, cd_pos c = i /\ log = c :: log1) ->
                forall i' r', In (i', r') xs -> exists r'', nth_error rules' i' = Some r'' /\ flags_ok log i' r' r'').
      { intros log Hlog i' r' Hin'. destruct (Hin1 i' r' Hin') as (r'' & Ha & Hb). exists r''. split; [exact Ha|].
        destruct Hlog as [-> | (c & Hp & ->)]; [exact Hb|]. apply flags_ok_cons_other; [|exact Hb].
        rewrite Hp. intros ->. apply NI. exact (in_map fst _ _ Hin'). }
      unfold visit in Hv. cbn [walk_log]. destruct (rule_loaded r) eqn:Hld.
      + rewrite raw_firing_degree in Hv. destruct (fdeg outs r) as [d|]; cbn [bind] in Hv |- *; [|discriminate].
        rewrite Hf in Hv. destruct (snd (decide a d)) eqn:Hs.
        * rewrite (trigger_loaded b r d false outs Hld) in Hv. unfold fire.
          destruct (r_enabled r) eqn:Hen.
          -- destruct (modify d im (r_consequent r) outs) as [o'|]; cbn [bind fst snd] in Hv |- *; [|discriminate].
             injection Hv as <- <- <-. rewrite Hw1. cbn [bind fst snd].
             eexists. split; [reflexivity|]. split; [exact Hothers|].
             intros i' r' [Heq | Hin'].
             ++ injection Heq as <- <-. eexists. split; [exact Hat|].
                pose proof (flags_ok_head {| cd_pos := i; cd_degree := d; cd_enabled := true; cd_conclusions := r_consequent r |}
                              log1 i r d eq_refl eq_refl (eq_sym Hen) Hno1) as HF.
                rewrite Hen in HF. exact HF.
             ++ apply Htail; [right; eexists; split; [|reflexivity]; reflexivity | exact Hin'].
          -- cbn [bind fst snd] in Hv |- *. injection Hv as <- <- <-. rewrite Hw1. cbn [bind fst snd].
             eexists. split; [reflexivity|]. split; [exact Hothers|].
             intros i' r' [Heq | Hin'].
             ++ injection Heq as <- <-. eexists. split; [exact Hat|].
                pose proof (flags_ok_head {| cd_pos := i; cd_degree := d; cd_enabled := false; cd_conclusions := r_consequent r |}
                              log1 i r d eq_refl eq_refl (eq_sym Hen) Hno1) as HF.
                rewrite Hen in HF. exact HF.
             ++ apply Htail; [right; eexists; split; [|reflexivity]; reflexivity | exact Hin'].
        * cbn [bind fst snd] in Hv. injection Hv as <- <- <-. exists log1. split; [exact Hw1|]. split; [exact Hothers|].
          intros i' r' [Heq | Hin'].
          -- injection Heq as <- <-. eexists. split; [exact Hat|]. apply flags_ok_untriggered; [reflexivity | reflexivity | exact Hno1].
          -- apply Htail; [left; reflexivity | exact Hin'].
      + cbn [bind fst snd] in Hv. injection Hv as <- <- <-. exists log1. split; [exact Hw1|]. split; [exact Hothers|].
        intros i' r' [Heq | Hin'].
        * injection Heq as <- <-. eexists. split; [exact Hat|]. apply flags_ok_untriggered; [reflexivity | reflexivity | exact Hno1].
        * apply Htail; [left; reflexivity | exact Hin'].
  Qed.
End Flags.

Section Flags2.
  Context {T : Type} {N : Num T}.
  Variable function_eval : engine T -> fnode T -> list (string * T) -> T -> result T.
  Notation outputs := (list (output_var T)).
  Notation candidate := (@candidate T).
  Variables (E : engine T) (b : block T).
  Notation cj := (b_conjunction b).
  Notation dj := (b_disjunction b).
  Notation im := (b_implication b).
  Notation vis := (visits function_eval E cj dj im).
  Notation evals := (evals function_eval E b).

  Lemma numbered_in_from {A : Type} (l : list A) : forall k i a, nth_error l i = Some a -> In (k + i, a) (combine (seq k (length l)) l).
  Proof.
    induction l as [|x l IH]; intros k [|i] a H; cbn in H; try discriminate.
    - injection H as ->. rewrite Nat.add_0_r. left. reflexivity.
    - cbn [length seq combine]. right. replace (k + S i) with (S k + i) by lia. apply IH, H.
  Qed.
  Lemma numbered_in {A : Type} (l : list A) i a : nth_error l i = Some a -> In (i, a) (numbered l).
  Proof. intros H. exact (numbered_in_from l 0 i a H). Qed.

  Lemma nodup_map_inj {A B : Type} (f : A -> B) (l : list A) a a' :
    NoDup (map f l) -> In a l -> In a' l -> f a = f a' -> a = a'.
  Proof.
    induction l as [|x l IH]; intros ND Ha Ha' Hf; [contradiction|]. cbn [map] in ND. inversion ND as [|? ? NI ND']; subst.
    destruct Ha as [<- | Ha], Ha' as [<- | Ha'].
    - reflexivity.
    - exfalso. apply NI. rewrite Hf. apply in_map, Ha'.
    - exfalso. apply NI. rewrite <- Hf. apply in_map, Ha.
    - exact (IH ND' Ha Ha' Hf).
  Qed.

  (* ---- the second loops, with the records *)
  Lemma trig_cands_flags (g : T -> T) : forall (cs : list candidate) rules (outs : outputs) rules' outs',
    NoDup (map (@cd_pos T) cs) -> (forall c, In c cs -> matches rules c) ->
    trig_all im g (map (@cd_pos T) cs) rules outs = Ok (rules', outs') ->
    (forall j, ~ In j (map (@cd_pos T) cs) -> nth_error rules' j = nth_error rules j) /\
    (forall c, In c cs -> exists r, nth_error rules (cd_pos c) = Some r /\
       nth_error rules' (cd_pos c) = Some (mk_rule r (g (cd_degree c)) (cd_enabled c && gtb (g (cd_degree c)) zero))).
  Proof.
    induction cs as [|c cs IH]; intros rules outs rules' outs' ND HM H.
    - cbn [map trig_all] in H. injection H as <- <-. split; [reflexivity | intros c []].
    - cbn [map] in ND. inversion ND as [|? ? NI ND']; subst.
      destruct (HM c (or_introl eq_refl)) as (r & Hn & Hl & Hd & He & Hc).
      cbn [map trig_all] in H. rewrite Hn in H.
      change (regrade g r) with (mk_rule r (g (r_degree r)) (r_triggered r)) in H.
      rewrite (trigger_loaded b r (g (r_degree r)) (r_triggered r) outs Hl) in H.
      set (r1 := mk_rule r (g (r_degree r)) (r_enabled r && gtb (g (r_degree r)) zero)).
      assert (Hstep : exists o1, trig_all im g (map (@cd_pos T) cs) (set_nth (cd_pos c) r1 rules) o1 = Ok (rules', outs')).
      { unfold r1. rewrite <- mk_rule_flag_cases. destruct (r_enabled r).
        - destruct (modify (g (r_degree r)) im (r_consequent r) outs) as [o1|]; cbn [bind fst snd] in H; [|discriminate]. eauto.
        - cbn [bind fst snd] in H. eauto. }
      destruct Hstep as (o1 & H1).
      assert (HM1 : forall c', In c' cs -> matches (set_nth (cd_pos c) r1 rules) c').
      { intros c' Hin. destruct (HM c' (or_intror Hin)) as (r2 & Hn2 & Hrest). exists r2. split; [|exact Hrest].
        rewrite nth_error_set_nth_neq; [exact Hn2|]. intros Heq. apply NI. rewrite Heq. apply in_map, Hin. }
      destruct (IH _ _ _ _ ND' HM1 H1) as (Hoth & Hin). split.
      + intros j Hj. rewrite Hoth by (intros Hc'; apply Hj; right; exact Hc').
        apply nth_error_set_nth_neq. intros Heq. apply Hj. left. exact Heq.
      + intros c' [<- | Hin'].
        * exists r. split; [exact Hn|]. rewrite (Hoth _ NI), (nth_error_set_nth_eq _ _ _ (nth_error_lt _ _ _ Hn)).
          unfold r1. rewrite Hd, He. reflexivity.
        * destruct (Hin c' Hin') as (r2 & Hn2 & Hn2'). exists r2. split; [|exact Hn2'].
          rewrite nth_error_set_nth_neq in Hn2; [exact Hn2|]. intros Heq. apply NI. rewrite Heq. apply in_map, Hin'.
  Qed.

  (* ---- evaluate everything, then trigger the candidates cs (each with degree g d): the records *)
  Lemma two_phase_flags (g : T -> T) (cs : list candidate) rules (outs : outputs) ev rules' outs' :
    evals outs (numbered rules) = Ok ev -> incl cs (cands_of ev) -> NoDup (map (@cd_pos T) cs) ->
    trig_all im g (map (@cd_pos T) cs) (store ev rules) outs = Ok (rules', outs') ->
    forall ri r, nth_error rules ri = Some r ->
    exists r', nth_error rules' ri = Some r' /\ flags_ok (map (fun c => cd_with_degree c (g (cd_degree c))) cs) ri r r'.
  Proof.
    intros Hev Hincl NDc H ri r Hr.
    assert (NDx : NoDup (map fst (numbered rules))) by (rewrite numbered_fst; apply seq_NoDup).
    assert (NDe : NoDup (map (@ev_pos T) ev)) by (rewrite (evals_pos _ _ _ _ _ _ Hev); exact NDx).
    pose proof (agrees_numbered rules) as AG.
    assert (HM : forall c, In c cs -> matches (store ev rules) c)
      by (intros c Hin; exact (store_matches function_eval E b rules _ outs ev NDx AG Hev c (Hincl c Hin))).
    destruct (trig_cands_flags g cs _ outs rules' outs' NDc HM H) as (Hoth & Hin).
    set (h := fun c : candidate => cd_with_degree c (g (cd_degree c))).
    assert (Hpos : map (@cd_pos T) (map h cs) = map (@cd_pos T) cs) by (rewrite map_map; reflexivity).
    (* the evaluated entry of position ri *)
    assert (Hv : exists od, In (ri, r, od) ev).
    { assert (Hi : In ri (map (@ev_pos T) ev)).
      { rewrite (evals_pos _ _ _ _ _ _ Hev), numbered_fst. apply in_seq. pose proof (nth_error_lt _ _ _ Hr). lia. }
      apply in_map_iff in Hi. destruct Hi as ([[i0 r0] od] & Hp & Hv). cbn in Hp. subst i0. exists od.
      destruct (evals_in _ _ _ _ _ _ _ _ _ Hev Hv) as (Hx & _). pose proof (AG _ _ Hx) as Hn. rewrite Hr in Hn. injection Hn as ->. exact Hv. }
    destruct Hv as (od & Hv).
    pose proof (store_lookup ev rules (ri, r, od) NDe Hv (nth_error_lt _ _ _ Hr)) as Hst. cbn [ev_pos fst] in Hst.
    destruct (in_dec Nat.eq_dec ri (map (@cd_pos T) cs)) as [Hri | Hri].
    - apply in_map_iff in Hri. destruct Hri as (c & Hp & Hc). subst ri.
      destruct (Hin c Hc) as (r0 & Hn0 & Hn0'). exists (mk_rule r0 (g (cd_degree c)) (cd_enabled c && gtb (g (cd_degree c)) zero)).
      split; [exact Hn0'|].
      (* r0 is the stored record of r *)
      assert (Hr0 : rule_deactivated r0 = rule_deactivated r).
      { rewrite Hst in Hn0. injection Hn0 as <-. destruct od; reflexivity. }
      assert (Huniq : forall c', In c' (map h cs) -> cd_pos c' = cd_pos c -> c' = h c).
      { intros c' Hc' Hp'. apply in_map_iff in Hc'. destruct Hc' as (c0 & <- & Hc0). f_equal.
        exact (nodup_map_inj (@cd_pos T) cs c0 c NDc Hc0 Hc Hp'). }
      split; [exact Hr0|]. cbn [r_triggered r_degree mk_rule]. split.
      + split.
        * intros Ht. apply andb_true_iff in Ht. destruct Ht as [H1 H2]. exists (h c).
          split; [apply in_map, Hc|]. split; [reflexivity|]. split; [exact H1 | exact H2].
        * intros (c' & Hc' & Hp' & He' & Hg'). rewrite (Huniq c' Hc' Hp') in He', Hg'. cbn in He', Hg'. rewrite He', Hg'. reflexivity.
      + intros c' Hc' Hp'. rewrite (Huniq c' Hc' Hp'). reflexivity.
    - exists (stored_rule (ri, r, od)). split; [rewrite (Hoth ri Hri); exact Hst|].
      apply flags_ok_untriggered.
      + destruct od; reflexivity.
      + destruct od; reflexivity.
      + intros c' Hc' Hp'. apply Hri. rewrite <- Hpos, <- Hp'. apply in_map, Hc'.
  Qed.

  (* ---- every method *)
  Lemma method_run_flags (PO : PosOrder N) (m : activation T) (outs : outputs) rules' outs' :
    b_activation b = Some m ->
    method_run function_eval E cj dj im m (b_rules b) outs = Ok (rules', outs') ->
    exists sel, block_triggered function_eval E b outs = Ok sel /\
      forall ri r, nth_error (b_rules b) ri = Some r -> exists r', nth_error rules' ri = Some r' /\ flags_ok sel ri r r'.
  Proof.
    intros Hm H. unfold block_triggered. rewrite Hm.
    assert (NDx : NoDup (map fst (numbered (b_rules b)))) by (rewrite numbered_fst; apply seq_NoDup).
    pose proof (agrees_numbered (b_rules b)) as AG.
    assert (Hwalk : forall (A : Type) (f : A -> nat -> T -> A * bool) (decide : A -> T -> A * bool) xs a0,
              (forall a i d, f a i d = decide a d) -> NoDup (map fst xs) -> agrees (b_rules b) xs ->
              (forall ri r, nth_error (b_rules b) ri = Some r -> In (ri, r) xs) ->
              (do v <- vis f xs a0 (b_rules b) outs; Ok (snd (fst v), snd v)) = Ok (rules', outs') ->
              exists sel, (do r <- walk_log function_eval decide E b a0 outs xs; Ok (fst r)) = Ok sel /\
                forall ri r, nth_error (b_rules b) ri = Some r -> exists r', nth_error rules' ri = Some r' /\ flags_ok sel ri r r').
    { intros A f decide xs a0 Hf ND AGx Hall Hv.
      destruct (vis f xs a0 (b_rules b) outs) as [[[a1 rs1] o1]|] eqn:Hvis; cbn [bind fst snd] in Hv; [|discriminate].
      injection Hv as <- <-.
      destruct (visits_flags function_eval E b A f decide Hf xs a0 (b_rules b) outs a1 rs1 o1 ND AGx Hvis) as (log & Hw & _ & Hin).
      exists log. rewrite Hw. split; [reflexivity|]. intros ri r Hr. exact (Hin ri r (Hall ri r Hr)). }
    assert (Hnum : forall ri r, nth_error (b_rules b) ri = Some r -> In (ri, r) (numbered (b_rules b)))
      by (intros ri r; apply numbered_in).
    assert (Hheap : forall key before n,
              (forall p q, before p q = key_lt (hk key p) (hk key q)) ->
              (forall a, ltb zero a = true -> eqb (key a) (key a) = true) ->
              heap_run function_eval E cj dj im key n (b_rules b) outs = Ok (rules', outs') ->
              exists sel, (do cs <- candidates function_eval E b outs 0 (b_rules b);
                           Ok (firstn (Z.to_nat n) (sort_cands before (filter cd_positive cs)))) = Ok sel /\
                forall ri r, nth_error (b_rules b) ri = Some r -> exists r', nth_error rules' ri = Some r' /\ flags_ok sel ri r r').
    { intros key before n Hbk Hko Hrun. unfold heap_run in Hrun.
      rewrite (visits_collect function_eval E b _ (f_heap key)) in Hrun by (intros a i d; unfold f_heap; destruct (gtb d zero); reflexivity).
      rewrite candidates_evals. change (combine (seq 0 (length (b_rules b))) (b_rules b)) with (numbered (b_rules b)).
      destruct (evals outs (numbered (b_rules b))) as [ev|] eqn:Hev; cbn [bind fst snd EngineProofs.rmap] in Hrun |- *; [|discriminate].
      assert (NDe : NoDup (map (@ev_pos T) ev)) by (rewrite (evals_pos _ _ _ _ _ _ Hev); exact NDx).
      pose proof (cands_of_nodup ev NDe) as NDc.
      unfold facc in Hrun. rewrite facc_heap in Hrun. cbn [app] in Hrun. unfold entries in Hrun.
      rewrite (pops_are_selection PO key before Hbk Hko n (cands_of ev) NDc) in Hrun.
      eexists. split; [reflexivity|]. intros ri r Hr.
      assert (Hincl : incl (firstn (Z.to_nat n) (sort_cands before (filter cd_positive (cands_of ev)))) (cands_of ev)).
      { intros c Hin. apply in_firstn_of in Hin.
        apply (Permutation_in _ (Permutation_sym (sort_cands_perm before _))) in Hin. apply filter_In in Hin. exact (proj1 Hin). }
      destruct (two_phase_flags ident _ (b_rules b) outs ev rules' outs' Hev Hincl (sorted_selection_nodup before _ _ NDc) Hrun ri r Hr)
        as (r' & Ha & Hb).
      exists r'. split; [exact Ha|]. rewrite map_with_same_degree in Hb. exact Hb. }
    destruct m as [|n t|n t|n|n| |c t]; cbn [method_run] in H.
    - exact (Hwalk unit f_general general_decide _ tt (fun _ _ _ => eq_refl) NDx AG Hnum H).
    - exact (Hwalk Z (f_first n t) (first_decide n t) _ 0%Z (f_first_decide n t) NDx AG Hnum H).
    - refine (Hwalk Z (f_first n t) (first_decide n t) _ 0%Z (f_first_decide n t) (NoDup_rev_map_fst _ NDx) (agrees_rev _ _ AG) _ H).
      intros ri r Hr. apply in_rev. rewrite rev_involutive. exact (Hnum ri r Hr).
    - exact (Hheap neg before_desc n (before_desc_key PO) (neg_ord PO) H).
    - exact (Hheap (fun d => d) before_asc n (before_asc_key PO) (po_pos_ord PO) H).
    - rewrite (visits_collect function_eval E b _ f_prop) in H by (intros a i d; unfold f_prop; destruct (gtb d zero); reflexivity).
      rewrite candidates_evals. change (combine (seq 0 (length (b_rules b))) (b_rules b)) with (numbered (b_rules b)).
      destruct (evals outs (numbered (b_rules b))) as [ev|] eqn:Hev; cbn [bind fst snd EngineProofs.rmap] in H |- *; [|discriminate].
      assert (NDe : NoDup (map (@ev_pos T) ev)) by (rewrite (evals_pos _ _ _ _ _ _ Hev); exact NDx).
      pose proof (cands_of_nodup ev NDe) as NDc.
      unfold facc in H. rewrite facc_prop in H. cbn [app fst snd] in H. unfold entries in H.
      rewrite filter_positive_key, key_fst, key_snd in H.
      change (fold_left add (map (@cd_degree T) (filter cd_positive (cands_of ev))) zero) with (positive_sum (cands_of ev)) in H.
      eexists. split; [reflexivity|]. intros ri r Hr.
      assert (Hincl : incl (filter cd_positive (cands_of ev)) (cands_of ev))
        by (intros c0 Hin; apply filter_In in Hin; exact (proj1 Hin)).
      assert (NDp : NoDup (map (@cd_pos T) (filter cd_positive (cands_of ev))))
        by (rewrite <- key_fst, <- filter_positive_key; apply nodup_filter_fst; rewrite key_fst; exact NDc).
      exact (two_phase_flags (fun d => div d (positive_sum (cands_of ev))) _ (b_rules b) outs ev rules' outs' Hev Hincl NDp H ri r Hr).
    - exact (Hwalk unit (f_threshold c t) (threshold_decide c t) _ tt (f_threshold_decide c t) NDx AG Hnum H).
  Qed.
End Flags2.

Section FlagsEngine.
  Context {T : Type} {N : Num T}.
  Variable function_eval : engine T -> fnode T -> list (string * T) -> T -> result T.
  Hypothesis fe_ext : forall e1 e2 : engine T,
    e_inputs e1 = e_inputs e2 -> e_outputs e1 = e_outputs e2 -> function_eval e1 = function_eval e2.
  Notation outputs := (list (output_var T)).

  Lemma blocks_run_nth (E : engine T) : forall bs bi (outs : outputs) bs' outs' b,
    blocks_run function_eval E outs bs = Ok (bs', outs') -> nth_error bs bi = Some b ->
    exists o0,
      rmap snd (blocks_run function_eval E outs (firstn bi bs)) = Ok o0 /\
      if b_enabled b then
        exists rs' o1, block_run function_eval E b o0 = Ok (rs', o1) /\ nth_error bs' bi = Some (set_rules b rs')
      else nth_error bs' bi = Some b.
  Proof.
    induction bs as [|b0 bs IH]; intros [|bi] outs bs' outs' b H Hn; cbn in Hn; try discriminate.
    - injection Hn as ->. cbn [blocks_run] in H. exists outs. split; [reflexivity|].
      destruct (b_enabled b).
      + destruct (block_run function_eval E b outs) as [[rs' o1]|]; cbn [bind fst snd] in H; [|discriminate].
        destruct (blocks_run function_eval E o1 bs) as [[bs'' o2]|]; cbn [bind fst snd] in H; [|discriminate].
        injection H as <- <-. exists rs', o1. split; reflexivity.
      + destruct (blocks_run function_eval E outs bs) as [[bs'' o2]|]; cbn [bind fst snd] in H; [|discriminate].
        injection H as <- <-. reflexivity.
    - cbn [blocks_run firstn] in H |- *.
      destruct (b_enabled b0).
      + destruct (block_run function_eval E b0 outs) as [[rs' o1]|]; cbn [bind fst snd] in H |- *; [|discriminate].
        destruct (blocks_run function_eval E o1 bs) as [[bs'' o2]|] eqn:H2; cbn [bind fst snd] in H; [|discriminate].
        injection H as <- <-. destruct (IH bi o1 bs'' o2 b H2 Hn) as (o0 & Ha & Hb).
        exists o0. split; [|exact Hb].
        destruct (blocks_run function_eval E o1 (firstn bi bs)) as [[x y]|]; cbn in *; congruence.
      + destruct (blocks_run function_eval E outs bs) as [[bs'' o2]|] eqn:H2; cbn [bind fst snd] in H; [|discriminate].
        injection H as <- <-. destruct (IH bi outs bs'' o2 b H2 Hn) as (o0 & Ha & Hb).
        exists o0. split; [|exact Hb].
        destruct (blocks_run function_eval E outs (firstn bi bs)) as [[x y]|]; cbn in *; congruence.
  Qed.

  (* what process leaves in the rule at position ri of the enabled block bi: `o0` = the contributions of the blocks before
     it, `sel` = the candidates the block triggers; the flag is set iff the rule was selected, is enabled and was passed
     a degree > 0; a selected rule holds the degree passed to its consequent (Proportional: the normalised one) *)
  Theorem triggered_flag_iff_all (PO : PosOrder N) (e e' : engine T) bi ri b r :
    process function_eval e = Ok e' ->
    nth_error (e_blocks e) bi = Some b -> b_enabled b = true -> nth_error (b_rules b) ri = Some r ->
    exists o0 sel b' r',
      blocks_all_contribution function_eval e (map clear_fuzzy (e_outputs e)) (firstn bi (e_blocks e)) = Ok o0 /\
      block_triggered function_eval e b o0 = Ok sel /\
      get_rule e' bi ri = Some (b', r') /\
      rule_deactivated r' = rule_deactivated r /\
      (r_triggered r' = true <->
       exists c, In c sel /\ cd_pos c = ri /\ cd_enabled c = true /\ gtb (cd_degree c) zero = true) /\
      (forall c, In c sel -> cd_pos c = ri -> r_degree r' = cd_degree c).
  Proof.
    intros Hp Hb Hen Hr. rewrite (process_eq_all_spec function_eval fe_ext e) in Hp. unfold process_all_spec in Hp.
    destruct (blocks_run function_eval e _ (e_blocks e)) as [[bs' o']|] eqn:H1; cbn [bind fst snd] in Hp; [|discriminate].
    destruct (pipeline_values function_eval e [] o'); cbn [bind] in Hp; [|discriminate]. injection Hp as <-.
    destruct (blocks_run_nth e _ bi _ _ _ b H1 Hb) as (o0 & Ha & Hbb). rewrite Hen in Hbb.
    destruct Hbb as (rs' & o1 & H2 & Hn2).
    rewrite (blocks_run_contribution function_eval e _ (or_introl PO)) in Ha.
    unfold block_run in H2. destruct (b_activation b) as [m|] eqn:Hm; [|discriminate].
    destruct (method_run_flags function_eval e b PO m o0 rs' o1 Hm H2) as (sel & Hsel & Hall).
    destruct (Hall ri r Hr) as (r' & Hn3 & Hs & Hiff & Hd).
    exists o0, sel, (set_rules b rs'), r'. split; [exact Ha|]. split; [exact Hsel|]. split.
    { unfold get_rule. cbn [e_blocks]. rewrite Hn2. cbn [b_rules set_rules]. rewrite Hn3. reflexivity. }
    split; [exact Hs|]. split; [exact Hiff | exact Hd].
  Qed.
End FlagsEngine.
