(* The translated norm kernels, read over R, equal the documented formulas; the norm laws. *)
From Coq Require Import Reals Lra Lia Bool Psatz.
From VF Require Import Num NumR GenNorm SpecNorm.
Local Open Scope R_scope.

Ltac unspec := unfold AlgebraicProduct, BoundedDifference, DrasticProduct, EinsteinProduct, HamacherProduct,
  Minimum, NilpotentMinimum, AlgebraicSum, BoundedSum, DrasticSum, EinsteinSum, HamacherSum, Maximum,
  NilpotentMaximum, NormalizedSum, UnboundedSum, unit in *.
Ltac ungen := unfold AlgebraicProduct_compute, BoundedDifference_compute, DrasticProduct_compute,
  EinsteinProduct_compute, HamacherProduct_compute, Minimum_compute, NilpotentMinimum_compute,
  AlgebraicSum_compute, BoundedSum_compute, DrasticSum_compute, EinsteinSum_compute, HamacherSum_compute,
  Maximum_compute, NilpotentMaximum_compute, NormalizedSum_compute, UnboundedSum_compute in *.
Ltac splitdec := repeat match goal with
  | |- context [Req_EM_T ?a ?b] => destruct (Req_EM_T a b)
  | |- context [Rlt_dec ?a ?b] => destruct (Rlt_dec a b)
  | |- context [Rle_dec ?a ?b] => destruct (Rle_dec a b)
  end.
(* the closing steps tolerate commuted / regrouped numerators and denominators of a quotient *)
Ltac eqgen := intros; ungen; unspec; unR; cbv zeta; splitR; splitdec; try reflexivity; try lra; try (exfalso; lra);
  try (unfold Rdiv; repeat (f_equal; try lra)).

(* ---- 1. generated kernel = documented formula (the only lemmas that look inside Gen) *)
Lemma AlgebraicProduct_eq a b : AlgebraicProduct_compute a b = AlgebraicProduct a b. Proof. eqgen. Qed.
Lemma BoundedDifference_eq a b : BoundedDifference_compute a b = BoundedDifference a b. Proof. eqgen. Qed.
Lemma DrasticProduct_eq a b : DrasticProduct_compute a b = DrasticProduct a b. Proof. eqgen. Qed.
Lemma EinsteinProduct_eq a b : EinsteinProduct_compute a b = EinsteinProduct a b. Proof. eqgen. Qed.
Lemma HamacherProduct_eq a b : HamacherProduct_compute a b = HamacherProduct a b. Proof. eqgen. Qed.
Lemma Minimum_eq a b : Minimum_compute a b = Minimum a b. Proof. eqgen. Qed.
Lemma NilpotentMinimum_eq a b : NilpotentMinimum_compute a b = NilpotentMinimum a b. Proof. eqgen. Qed.
Lemma AlgebraicSum_eq a b : AlgebraicSum_compute a b = AlgebraicSum a b. Proof. eqgen. Qed.
Lemma BoundedSum_eq a b : BoundedSum_compute a b = BoundedSum a b. Proof. eqgen. Qed.
Lemma DrasticSum_eq a b : DrasticSum_compute a b = DrasticSum a b. Proof. eqgen. Qed.
Lemma EinsteinSum_eq a b : EinsteinSum_compute a b = EinsteinSum a b. Proof. eqgen. Qed.
Lemma HamacherSum_eq a b : HamacherSum_compute a b = HamacherSum a b. Proof. eqgen. Qed.
Lemma Maximum_eq a b : Maximum_compute a b = Maximum a b. Proof. eqgen. Qed.
Lemma NilpotentMaximum_eq a b : NilpotentMaximum_compute a b = NilpotentMaximum a b. Proof. eqgen. Qed.
Lemma NormalizedSum_eq a b : NormalizedSum_compute a b = NormalizedSum a b. Proof. eqgen. Qed.
Lemma UnboundedSum_eq a b : UnboundedSum_compute a b = UnboundedSum a b. Proof. eqgen. Qed.
